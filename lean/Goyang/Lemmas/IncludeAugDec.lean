import Goyang.Lemmas.IncludeAugIO
/-
C13 (third sentence), augments — decidable equality of statements and entries (written out: the deriving handler
does not cover nested inductives), so that `SameTop σ t' t` (same data but for the statement object, the children
equal up to `ren σ` in another order) is decidable and `LoopsRelatedCore` can be kernel-checked on concrete
split pairs (Props/C13Include.lean, `Ex4C`).
-/
namespace Goyang.Lemmas.IncludeAugDec
open Goyang.Model Goyang.Spec.Include Goyang.Lemmas.IncludeRel

mutual
def decEqStmt : (a b : Stmt) → Decidable (a = b)
  | .mk k h a f l c s, .mk k' h' a' f' l' c' s' =>
    if h1 : k = k' ∧ h = h' ∧ a = a' ∧ f = f' ∧ l = l' ∧ c = c' then
      match decEqStmtL s s' with
      | isTrue hs => isTrue (by obtain ⟨rfl, rfl, rfl, rfl, rfl, rfl⟩ := h1; subst hs; rfl)
      | isFalse hs => isFalse (by intro e; cases e; exact hs rfl)
    else isFalse (by intro e; cases e; exact h1 ⟨rfl, rfl, rfl, rfl, rfl, rfl⟩)
def decEqStmtL : (a b : List Stmt) → Decidable (a = b)
  | [], [] => isTrue rfl
  | [], _ :: _ => isFalse (by intro e; cases e)
  | _ :: _, [] => isFalse (by intro e; cases e)
  | a :: as, b :: bs =>
    match decEqStmt a b with
    | isTrue h =>
      match decEqStmtL as bs with
      | isTrue hs => isTrue (by subst h hs; rfl)
      | isFalse hs => isFalse (by intro e; cases e; exact hs rfl)
    | isFalse h => isFalse (by intro e; cases e; exact h rfl)
end

instance : DecidableEq Stmt := decEqStmt

deriving instance DecidableEq for TypeInfo
deriving instance DecidableEq for EData

mutual
def decEqEntry : (a b : Entry) → Decidable (a = b)
  | .mk d c i o, .mk d' c' i' o' =>
    if h1 : d = d' then
      match decEqEntryL c c', decEqEntryL i i', decEqEntryL o o' with
      | isTrue hc, isTrue hi, isTrue ho => isTrue (by subst h1 hc hi ho; rfl)
      | isFalse hc, _, _ => isFalse (by intro e; cases e; exact hc rfl)
      | _, isFalse hi, _ => isFalse (by intro e; cases e; exact hi rfl)
      | _, _, isFalse ho => isFalse (by intro e; cases e; exact ho rfl)
    else isFalse (by intro e; cases e; exact h1 rfl)
def decEqEntryL : (a b : List Entry) → Decidable (a = b)
  | [], [] => isTrue rfl
  | [], _ :: _ => isFalse (by intro e; cases e)
  | _ :: _, [] => isFalse (by intro e; cases e)
  | a :: as, b :: bs =>
    match decEqEntry a b with
    | isTrue h =>
      match decEqEntryL as bs with
      | isTrue hs => isTrue (by subst h hs; rfl)
      | isFalse hs => isFalse (by intro e; cases e; exact hs rfl)
    | isFalse h => isFalse (by intro e; cases e; exact h rfl)
end

instance : DecidableEq Entry := decEqEntry

instance (a b : EData) : Decidable (SameData a b) := by unfold SameData; infer_instance

instance (σ : Nat → Nat) (t' t : Entry) : Decidable (SameTop σ t' t) := by unfold SameTop; infer_instance


/-! ### `LoopsRelatedCore` as a decidable check -/
open Goyang.Lemmas.Tree Goyang.Lemmas.IncludeAugCompose Goyang.Lemmas.IncludeAugIO

/-- Both trees exist and the first is `SameTop σ` the second. -/
def treesSameTop (σ : Nat → Nat) : Option Entry → Option Entry → Prop
  | some tu, some t => SameTop σ tu t
  | _, _ => False

instance (σ : Nat → Nat) (a b : Option Entry) : Decidable (treesSameTop σ a b) := by
  cases a <;> cases b <;> unfold treesSameTop <;> infer_instance

/-- `LoopsRelatedCore` in decidable form (the pending table instead of `pendingOf`, the two trees by `match`). -/
def CoreCheck (s : Split) (R R' : Registry) (opts : Opts) (plug plug' : Plug) : Prop :=
  AugmentReport.allErrs (loopU R R' opts plug').forest = [] ∧ (∀ p ∈ (loopU R R' opts plug').pending, p.2 = []) ∧
  treesSameTop s.σ ((loopU R R' opts plug').forest.tree? s.m.seq) ((afterLoop R opts plug).2.forest.tree? s.m.seq)

instance (s : Split) (R R' : Registry) (opts : Opts) (plug plug' : Plug) : Decidable (CoreCheck s R R' opts plug plug') := by
  unfold CoreCheck; infer_instance

theorem core_of_check {s : Split} {R R' : Registry} {opts : Opts} {plug plug' : Plug}
    (h : CoreCheck s R R' opts plug plug') : LoopsRelatedCore s R R' opts plug plug' := by
  obtain ⟨h1, h2, h3⟩ := h
  refine ⟨h1, fun id => IncludeNoAug.pendingOf_nil _ h2 id, ?_⟩
  cases hu : (loopU R R' opts plug').forest.tree? s.m.seq with
  | none => rw [hu] at h3; cases h3
  | some tu =>
    cases ht : (afterLoop R opts plug).2.forest.tree? s.m.seq with
    | none => rw [hu, ht] at h3; cases h3
    | some t =>
      rw [hu, ht] at h3
      exact ⟨t, tu, rfl, rfl, h3⟩

end Goyang.Lemmas.IncludeAugDec
