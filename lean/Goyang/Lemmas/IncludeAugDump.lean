import Goyang.Lemmas.IncludeDump
import Goyang.Spec.Augment
/-
C13 (third sentence), piece (E) of `IncludeEqInlineAugments`: the canonical dump of a tree
(`Model/Dump.lean`) is a function of its *path view* — which data (all recorded data but the error
list) sits at which step path (`Entry.getAt`) — as soon as both trees have `KeysUnique` (sibling
names pairwise different, at most one rpc input / output, at every node).  In particular the order
of the children in any `Dir` does not matter (the dump sorts them by name), nor do recorded errors.

`PEq e e'`      : same data at every step path (so also: the same step paths exist);
`dumpTree_peq`  : equal fuel, related nodes, related roots ⇒ equal dumps;
`dumpTree_fuel` : the dump does not depend on the fuel once it exceeds the depth;
`dumpTree_root_peq` : the statement for two whole trees in two forests over one registry.
-/
namespace Goyang.Lemmas.IncludeAugDump
open Goyang.Model Goyang.Spec.Tree Goyang.Lemmas.Tree Goyang.Lemmas.IncludeDump Goyang.Spec.Augment

/-! ### the path view -/

/-- One step from a node (what `getAt`, `pathString`, `readOnlyAt`, `stampAt` follow). -/
def next (e : Entry) : Step → Option Entry
  | .child k => e.child? k
  | .input => e.inp.head?
  | .output => e.out.head?

theorem getAt_cons (e : Entry) (s : Step) (p : Path) : e.getAt (s :: p) = (next e s).bind (·.getAt p) := by
  cases s <;> rfl

/-- The data observed at a step path. -/
def dataP (e : Entry) (p : Path) : Option EData := (e.getAt p).map fun x => nodeData x.d

theorem dataP_nil (e : Entry) : dataP e [] = some (nodeData e.d) := rfl

theorem dataP_cons (e : Entry) (s : Step) (p : Path) : dataP e (s :: p) = (next e s).bind fun c => dataP c p := by
  unfold dataP
  rw [getAt_cons]
  cases next e s <;> rfl

/-- Same path view: the same data at every step path. -/
def PEq (e e' : Entry) : Prop := ∀ p, dataP e p = dataP e' p

theorem PEq.refl (e : Entry) : PEq e e := fun _ => rfl
theorem PEq.symm {e e' : Entry} (h : PEq e e') : PEq e' e := fun p => (h p).symm
theorem PEq.trans {a b c : Entry} (h : PEq a b) (h' : PEq b c) : PEq a c := fun p => (h p).trans (h' p)

theorem PEq.data {e e' : Entry} (h : PEq e e') : nodeData e.d = nodeData e'.d := by
  have := h []
  rw [dataP_nil, dataP_nil] at this
  exact Option.some.inj this

theorem PEq.next {e e' : Entry} (h : PEq e e') (s : Step) :
    (next e s = none ∧ next e' s = none) ∨ ∃ c c', next e s = some c ∧ next e' s = some c' ∧ PEq c c' := by
  have h0 := h [s]
  rw [dataP_cons, dataP_cons] at h0
  cases hc : IncludeAugDump.next e s with
  | none =>
    cases hc' : IncludeAugDump.next e' s with
    | none => exact Or.inl ⟨rfl, rfl⟩
    | some c' => rw [hc, hc'] at h0; simp [dataP_nil] at h0
  | some c =>
    cases hc' : IncludeAugDump.next e' s with
    | none => rw [hc, hc'] at h0; simp [dataP_nil] at h0
    | some c' =>
      refine Or.inr ⟨c, c', rfl, rfl, fun p => ?_⟩
      have := h (s :: p)
      rw [dataP_cons, dataP_cons, hc, hc'] at this
      exact this

theorem PEq.field {α} (f : EData → α) (hf : ∀ d, f (nodeData d) = f d) {e e' : Entry} (h : PEq e e') : f e.d = f e'.d := by
  rw [← hf e.d, ← hf e'.d, h.data]

theorem PEq.name {e e' : Entry} (h : PEq e e') : e.name = e'.name := h.field EData.name fun _ => rfl

theorem PEq.DF {e e' : Entry} (h : PEq e e') : IncludeDump.DF e.d e'.d :=
  ⟨h.field EData.kind fun _ => rfl, h.field EData.hasDir fun _ => rfl, h.field EData.isRpc fun _ => rfl,
   h.field EData.config fun _ => rfl, h.field EData.mandatory fun _ => rfl, h.field EData.default fun _ => rfl,
   h.field EData.units fun _ => rfl, h.field EData.key fun _ => rfl, h.field EData.listAttr fun _ => rfl,
   h.field EData.type fun _ => rfl⟩

/-! ### what the dump reads along the path from the root -/

theorem pathString_go_cons (e : Entry) (s : Step) (rest : Path) (acc : String) :
    Entry.pathString.go e (s :: rest) acc =
      match IncludeAugDump.next e s with
      | some c => Entry.pathString.go c rest (acc ++ "/" ++ c.name)
      | none => acc := by
  cases s <;> rfl

theorem pathString_go_peq : ∀ (p : Path) (e e' : Entry) (acc : String), PEq e e' →
    Entry.pathString.go e p acc = Entry.pathString.go e' p acc
  | [], e, e', acc, _ => by unfold Entry.pathString.go; rfl
  | s :: rest, e, e', acc, h => by
    rw [pathString_go_cons, pathString_go_cons]
    rcases h.next s with ⟨h1, h2⟩ | ⟨c, c', h1, h2, hc⟩
    · rw [h1, h2]
    · rw [h1, h2]
      simp only [hc.name]
      exact pathString_go_peq rest c c' _ hc

theorem pathString_peq {t t' : Entry} (h : PEq t t') (p : Path) : t.pathString p = t'.pathString p := by
  unfold Entry.pathString
  rw [h.name]
  exact pathString_go_peq p t t' _ h

/-- `ReadOnly()` at one node, given the parent's answer. -/
def roHere (d : EData) (inh : Bool) : Bool :=
  if d.kind == .output then true
  else match d.config with
    | .unset => inh
    | .true_ => false
    | .false_ => true

theorem readOnly_go_nil (e : Entry) (inh : Bool) : Entry.readOnlyAt.go e [] inh = roHere e.d inh := by
  unfold Entry.readOnlyAt.go; rfl

theorem readOnly_go_cons (e : Entry) (s : Step) (rest : Path) (inh : Bool) :
    Entry.readOnlyAt.go e (s :: rest) inh =
      match IncludeAugDump.next e s with
      | some c => Entry.readOnlyAt.go c rest (roHere e.d inh)
      | none => roHere e.d inh := by
  cases s <;> rfl

theorem roHere_peq {e e' : Entry} (h : PEq e e') (inh : Bool) : roHere e.d inh = roHere e'.d inh := by
  unfold roHere
  rw [h.field EData.kind fun _ => rfl, h.field EData.config fun _ => rfl]

theorem readOnly_go_peq : ∀ (p : Path) (e e' : Entry) (inh : Bool), PEq e e' →
    Entry.readOnlyAt.go e p inh = Entry.readOnlyAt.go e' p inh
  | [], e, e', inh, h => by rw [readOnly_go_nil, readOnly_go_nil, roHere_peq h]
  | s :: rest, e, e', inh, h => by
    rw [readOnly_go_cons, readOnly_go_cons, roHere_peq h]
    rcases h.next s with ⟨h1, h2⟩ | ⟨c, c', h1, h2, hc⟩
    · rw [h1, h2]
    · rw [h1, h2]
      exact readOnly_go_peq rest c c' _ hc

theorem readOnlyAt_peq {t t' : Entry} (h : PEq t t') (p : Path) : t.readOnlyAt p = t'.readOnlyAt p :=
  readOnly_go_peq p t t' false h

theorem stampAt_go_cons (e : Entry) (s : Step) (rest : Path) (acc : Option String) :
    Entry.stampAt.go e (s :: rest) acc =
      match IncludeAugDump.next e s with
      | some c => Entry.stampAt.go c rest (match c.d.ns with | some n => some n | none => acc)
      | none => acc := by
  cases s <;> rfl

theorem stampAt_go_peq : ∀ (p : Path) (e e' : Entry) (acc : Option String), PEq e e' →
    Entry.stampAt.go e p acc = Entry.stampAt.go e' p acc
  | [], e, e', acc, _ => by unfold Entry.stampAt.go; rfl
  | s :: rest, e, e', acc, h => by
    rw [stampAt_go_cons, stampAt_go_cons]
    rcases h.next s with ⟨h1, h2⟩ | ⟨c, c', h1, h2, hc⟩
    · rw [h1, h2]
    · rw [h1, h2]
      simp only [hc.field EData.ns fun _ => rfl]
      exact stampAt_go_peq rest c c' _ hc

theorem stampAt_peq {t t' : Entry} (h : PEq t t') (p : Path) : t.stampAt p = t'.stampAt p :=
  stampAt_go_peq p t t' none h

theorem namespaceAt_peq (reg : Registry) {f f' : Forest} {id : Nat} {t t' : Entry} (ht : f.tree? id = some t)
    (ht' : f'.tree? id = some t') (h : PEq t t') (p : Path) : namespaceAt reg f (id, p) = namespaceAt reg f' (id, p) := by
  unfold namespaceAt
  simp only [ht, ht', stampAt_peq h p]

theorem instAt_of_ns (reg : Registry) (f f' : Forest) (loc : Loc) (h : namespaceAt reg f loc = namespaceAt reg f' loc) :
    instantiatingModuleAt reg f loc = instantiatingModuleAt reg f' loc := by
  unfold instantiatingModuleAt
  simp only [h]

/-- Related roots: everything the dump reads besides the node agrees (`IncludeDump.DW`, one registry). -/
theorem dw_of_peq (reg : Registry) {f f' : Forest} {id : Nat} {t t' : Entry} (ht : f.tree? id = some t)
    (ht' : f'.tree? id = some t') (h : PEq t' t) : IncludeDump.DW reg reg f f' t' t id where
  ro p := readOnlyAt_peq h p
  ns p := namespaceAt_peq reg ht' ht h p
  im p := instAt_of_ns reg f' f _ (namespaceAt_peq reg ht' ht h p)
  ps p := pathString_peq h p

/-! ### the sorted children -/

def strLt : String → String → Bool := fun a b => a < b

theorem find?_self_of_nodup : ∀ (l : List Entry), (l.map (·.name)).Nodup → ∀ c ∈ l, l.find? (·.name == c.name) = some c
  | [], _, c, hc => by cases hc
  | x :: xs, h, c, hc => by
    rw [List.map_cons, List.nodup_cons] at h
    rcases List.mem_cons.1 hc with rfl | hc
    · simp
    · have hne : (x.name == c.name) = false := by
        rw [beq_eq_false_iff_ne]
        intro e
        exact h.1 (e ▸ List.mem_map_of_mem (f := fun y : Entry => y.name) hc)
      rw [List.find?_cons, hne]
      exact find?_self_of_nodup xs h.2 c hc

/-- With distinct names, the children in name order are the children looked up by the sorted names. -/
theorem sorted_dir_eq (l : List Entry) (hnd : (l.map (·.name)).Nodup) :
    sortBy nameLt l = (sortBy strLt (l.map (·.name))).filterMap fun k => l.find? (·.name == k) := by
  have hs : sortBy strLt (l.map (·.name)) = (sortBy nameLt l).map (·.name) :=
    sortBy_map nameLt strLt (·.name) (fun _ _ => rfl) l
  rw [hs, List.filterMap_map]
  have key : ∀ s : List Entry, (∀ c ∈ s, c ∈ l) →
      s.filterMap ((fun k => l.find? (·.name == k)) ∘ fun c : Entry => c.name) = s := by
    intro s
    induction s with
    | nil => intro _; rfl
    | cons a s ih =>
      intro hs
      rw [List.filterMap_cons]
      simp only [Function.comp, find?_self_of_nodup l hnd a (hs a (List.mem_cons_self ..))]
      rw [ih fun c hc => hs c (List.mem_cons_of_mem _ hc)]
  exact (key _ fun c hc => (mem_sortBy _ c l).1 hc).symm

theorem strLt_sort_perm {l₁ l₂ : List String} (hp : l₁.Perm l₂) : sortBy strLt l₁ = sortBy strLt l₂ := by
  refine SortUnique.sortBy_perm_invariant strLt (fun a => by unfold strLt; simp) ?_ hp ?_
  · intro a b c h1 h2
    unfold strLt at *
    simp only [decide_eq_true_eq] at *
    exact String.lt_trans h1 h2
  · intro a _ b _ hab
    unfold strLt
    simp only [decide_eq_true_eq]
    exact OrderIndep.str_total hab

theorem mem_names_iff (e : Entry) (k : String) : k ∈ e.dir.map (·.name) ↔ (e.child? k).isSome = true := by
  unfold Entry.child?
  rw [List.find?_isSome]
  constructor
  · intro h
    obtain ⟨c, hc, rfl⟩ := List.mem_map.1 h
    exact ⟨c, hc, by simp⟩
  · rintro ⟨c, hc, h⟩
    have : c.name = k := by simpa using h
    exact this ▸ List.mem_map_of_mem (f := fun y : Entry => y.name) hc

theorem PEq.child {e e' : Entry} (h : PEq e e') (k : String) :
    (e.child? k = none ∧ e'.child? k = none) ∨ ∃ c c', e.child? k = some c ∧ e'.child? k = some c' ∧ PEq c c' :=
  h.next (.child k)

theorem PEq.names_perm {e e' : Entry} (h : PEq e e') (hnd : (e.dir.map (·.name)).Nodup) (hnd' : (e'.dir.map (·.name)).Nodup) :
    (e.dir.map (·.name)).Perm (e'.dir.map (·.name)) := by
  rw [List.perm_ext_iff_of_nodup hnd hnd']
  intro k
  rw [mem_names_iff, mem_names_iff]
  rcases h.child k with ⟨h1, h2⟩ | ⟨c, c', h1, h2, _⟩ <;> rw [h1, h2] <;> simp

theorem filterMap_map_congr {α β γ γ' : Type} (g : α → Option γ) (g' : α → Option γ') (F : γ → β) (F' : γ' → β)
    (h : ∀ k, (g k).map F = (g' k).map F') : ∀ N : List α, (N.filterMap g).map F = (N.filterMap g').map F'
  | [] => rfl
  | k :: N => by
    have ih := filterMap_map_congr g g' F F' h N
    have hk := h k
    rw [List.filterMap_cons, List.filterMap_cons]
    cases hg : g k with
    | none =>
      cases hg' : g' k with
      | none => simpa using ih
      | some y => rw [hg, hg'] at hk; simp at hk
    | some x =>
      cases hg' : g' k with
      | none => rw [hg, hg'] at hk; simp at hk
      | some y =>
        rw [hg, hg'] at hk
        simp only [Option.map_some, Option.some.injEq] at hk
        simp only [List.map_cons, hk, ih]

/-! ### `KeysUnique` one level down -/

theorem keysUnique_mk {d : EData} {c i o : List Entry} (h : KeysUnique (.mk d c i o)) :
    (c.map (·.name)).Nodup ∧ i.length ≤ 1 ∧ o.length ≤ 1 ∧ (∀ x ∈ c, KeysUnique x) ∧ (∀ x ∈ i, KeysUnique x) ∧
      (∀ x ∈ o, KeysUnique x) := by
  unfold KeysUnique at h
  rw [everyNode_mk, keysUniqueHere_iff] at h
  exact ⟨h.1.1, h.1.2.1, h.1.2.2, h.2.1, h.2.2.1, h.2.2.2⟩

theorem keysUnique_dir {e : Entry} (h : KeysUnique e) : (e.dir.map (·.name)).Nodup ∧ ∀ x ∈ e.dir, KeysUnique x := by
  cases e with | mk d c i o => exact ⟨(keysUnique_mk h).1, (keysUnique_mk h).2.2.2.1⟩

theorem child?_mem {e c : Entry} {k : String} (h : e.child? k = some c) : c ∈ e.dir := List.mem_of_find?_eq_some h

theorem child?_name {e c : Entry} {k : String} (h : e.child? k = some c) : c.name = k := by
  have := List.find?_some h
  simpa using this

/-- At most one element: the list is its head. -/
theorem eq_head_of_le_one {α} : ∀ (l : List α), l.length ≤ 1 → l = l.head?.toList
  | [], _ => rfl
  | [_], _ => rfl
  | _ :: _ :: _, h => by simp at h

/-! ### the walk -/

/-- **Equal fuel, related nodes below related roots: equal dumps.** -/
theorem dumpTree_peq {reg : Registry} {f f' : Forest} {t' t : Entry} {id : Nat} (hW : IncludeDump.DW reg reg f f' t' t id)
    (nm : String) : ∀ (fuel : Nat) (p : Path) (e' e : Entry), PEq e' e → KeysUnique e' → KeysUnique e →
    dumpTree reg f' nm t' id fuel p e' = dumpTree reg f nm t id fuel p e
  | 0, _, _, _, _, _, _ => rfl
  | fuel + 1, p, e', e, h, hk', hk => by
    have ih := dumpTree_peq hW nm fuel
    rw [dumpTree_succ, dumpTree_succ, dumpNode_eq hW nm p e' e h.DF]
    have hd' := keysUnique_dir hk'
    have hd := keysUnique_dir hk
    -- the children in `Dir`
    have h1 : ((sortBy nameLt e'.dir).map fun c => dumpTree reg f' nm t' id fuel (p ++ [.child c.name]) c) =
        ((sortBy nameLt e.dir).map fun c => dumpTree reg f nm t id fuel (p ++ [.child c.name]) c) := by
      rw [sorted_dir_eq _ hd'.1, sorted_dir_eq _ hd.1, strLt_sort_perm (h.names_perm hd'.1 hd.1)]
      apply filterMap_map_congr
      intro k
      show (e'.child? k).map _ = (e.child? k).map _
      rcases h.child k with ⟨k1, k2⟩ | ⟨c', c, k1, k2, hc⟩
      · rw [k1, k2]; rfl
      · rw [k1, k2]
        simp only [Option.map_some, child?_name k1, child?_name k2]
        rw [ih _ c' c hc (hd'.2 c' (child?_mem k1)) (hd.2 c (child?_mem k2))]
    -- rpc input and output
    have hio : ∀ (s : Step) (l' l : List Entry), l'.length ≤ 1 → l.length ≤ 1 → (∀ x ∈ l', KeysUnique x) →
        (∀ x ∈ l, KeysUnique x) →
        ((l'.head? = none ∧ l.head? = none) ∨ ∃ c' c, l'.head? = some c' ∧ l.head? = some c ∧ PEq c' c) →
        (l'.map fun c => dumpTree reg f' nm t' id fuel (p ++ [s]) c) = l.map fun c => dumpTree reg f nm t id fuel (p ++ [s]) c := by
      intro s l' l hl' hl hu' hu hrel
      rw [eq_head_of_le_one l' hl', eq_head_of_le_one l hl]
      rcases hrel with ⟨k1, k2⟩ | ⟨c', c, k1, k2, hc⟩
      · rw [k1, k2]; rfl
      · rw [k1, k2]
        simp only [Option.toList_some, List.map_cons, List.map_nil]
        rw [ih _ c' c hc (hu' c' (List.mem_of_mem_head? k1)) (hu c (List.mem_of_mem_head? k2))]
    cases e' with | mk d' c' i' o' =>
    cases e with | mk d c i o =>
    have q' := keysUnique_mk hk'
    have q := keysUnique_mk hk
    have h2 := hio .input i' i q'.2.1 q.2.1 q'.2.2.2.2.1 q.2.2.2.2.1 (h.next .input)
    have h3 := hio .output o' o q'.2.2.1 q.2.2.1 q'.2.2.2.2.2 q.2.2.2.2.2 (h.next .output)
    simp only [Entry.dir, Entry.inp, Entry.out] at h1 h2 h3 ⊢
    rw [h1, h2, h3]

/-! ### the fuel -/

theorem depth_le_depthL : ∀ (l : List Entry) (c : Entry), c ∈ l → entryDepth c ≤ entryDepth.depthL l
  | [], _, h => by cases h
  | x :: xs, c, h => by
    simp only [entryDepth.depthL]
    rcases List.mem_cons.1 h with rfl | h
    · omega
    · have := depth_le_depthL xs c h
      omega

theorem entryDepth_mk (d : EData) (c i o : List Entry) :
    entryDepth (.mk d c i o) = 1 + max (entryDepth.depthL c) (max (entryDepth.depthL i) (entryDepth.depthL o)) := by
  simp only [entryDepth]

/-- The dump does not depend on the fuel once it is at least the depth. -/
theorem dumpTree_fuel (reg : Registry) (f : Forest) (nm : String) (root : Entry) (id : Nat) :
    ∀ (fuel fuel' : Nat) (p : Path) (e : Entry), entryDepth e ≤ fuel → entryDepth e ≤ fuel' →
      dumpTree reg f nm root id fuel p e = dumpTree reg f nm root id fuel' p e
  | 0, _, _, e, h, _ => by cases e; rw [entryDepth_mk] at h; omega
  | _ + 1, 0, _, e, _, h => by cases e; rw [entryDepth_mk] at h; omega
  | fuel + 1, fuel' + 1, p, e, h, h' => by
    cases e with | mk d c i o =>
    rw [entryDepth_mk] at h h'
    rw [dumpTree_succ, dumpTree_succ]
    simp only [Entry.dir, Entry.inp, Entry.out]
    have h1 : ((sortBy nameLt c).map fun x => dumpTree reg f nm root id fuel (p ++ [.child x.name]) x) =
        (sortBy nameLt c).map fun x => dumpTree reg f nm root id fuel' (p ++ [.child x.name]) x := by
      apply List.map_congr_left
      intro x hx
      have := depth_le_depthL c x ((mem_sortBy _ x c).1 hx)
      exact dumpTree_fuel reg f nm root id fuel fuel' _ x (by omega) (by omega)
    have h2 : (i.map fun x => dumpTree reg f nm root id fuel (p ++ [.input]) x) =
        i.map fun x => dumpTree reg f nm root id fuel' (p ++ [.input]) x := by
      apply List.map_congr_left
      intro x hx
      have := depth_le_depthL i x hx
      exact dumpTree_fuel reg f nm root id fuel fuel' _ x (by omega) (by omega)
    have h3 : (o.map fun x => dumpTree reg f nm root id fuel (p ++ [.output]) x) =
        o.map fun x => dumpTree reg f nm root id fuel' (p ++ [.output]) x := by
      apply List.map_congr_left
      intro x hx
      have := depth_le_depthL o x hx
      exact dumpTree_fuel reg f nm root id fuel fuel' _ x (by omega) (by omega)
    rw [h1, h2, h3]

/-- **The canonical dump of a whole tree is a function of its path view**: two trees of two forests
over one registry, filed under the same module number, with the same data at every step path and
`KeysUnique`, have the same dump. -/
theorem dumpTree_root_peq (reg : Registry) {f f' : Forest} {id : Nat} {t t' : Entry} (ht : f.tree? id = some t)
    (ht' : f'.tree? id = some t') (h : PEq t' t) (hk' : KeysUnique t') (hk : KeysUnique t) (nm : String) :
    dumpTree reg f' nm t' id (entryDepth t' + 1) [] t' = dumpTree reg f nm t id (entryDepth t + 1) [] t := by
  have hW := dw_of_peq reg ht ht' h
  rw [dumpTree_fuel reg f' nm t' id (entryDepth t' + 1) (max (entryDepth t') (entryDepth t) + 1) [] t' (by omega) (by omega),
    dumpTree_fuel reg f nm t id (entryDepth t + 1) (max (entryDepth t') (entryDepth t) + 1) [] t (by omega) (by omega)]
  exact dumpTree_peq hW nm _ [] t' t h hk' hk

/-! ### the order of the children does not matter -/

theorem find?_perm_nodup {l' l : List Entry} (hp : l'.Perm l) (hnd : (l.map (·.name)).Nodup) (k : String) :
    l'.find? (·.name == k) = l.find? (·.name == k) := by
  have hnd' : (l'.map (·.name)).Nodup := ((hp.map _).nodup_iff).2 hnd
  cases hf : l.find? (·.name == k) with
  | some c =>
    have hc : c ∈ l := List.mem_of_find?_eq_some hf
    have hn : c.name = k := by simpa using List.find?_some hf
    rw [← hn]
    exact find?_self_of_nodup l' hnd' c (hp.mem_iff.2 hc)
  | none =>
    rw [List.find?_eq_none] at hf ⊢
    intro x hx
    exact hf x (hp.mem_iff.1 hx)

/-- Permuting the children of the root (distinct names) and changing its recorded errors keeps the path view. -/
theorem peq_of_dir_perm (d' d : EData) (c' c i o : List Entry) (hd : nodeData d' = nodeData d) (hp : c'.Perm c)
    (hnd : (c.map (·.name)).Nodup) : PEq (.mk d' c' i o) (.mk d c i o) := by
  intro p
  cases p with
  | nil => rw [dataP_nil, dataP_nil]; exact congrArg some hd
  | cons s q =>
    rw [dataP_cons, dataP_cons]
    have : IncludeAugDump.next (.mk d' c' i o) s = IncludeAugDump.next (.mk d c i o) s := by
      cases s with
      | child k => exact find?_perm_nodup hp hnd k
      | input => rfl
      | output => rfl
    rw [this]

end Goyang.Lemmas.IncludeAugDump
