import Goyang.Lemmas.IncludeDump
/-
C13 (third sentence), augments — the last step of the assembly, for ANY two forests (over the unsplit and
the split registry): when the owner's tree is the unsplit module's tree up to `SameTop σ` (same data but
for the statement object, the same children — each equal up to `ren σ` — in another order), the canonical
dumps of the two trees are equal.  (Lemmas/IncludeDump.lean proves this for the forests `processAll`
returns on sets without augments; the proof only uses the relation of the two trees.)
-/
namespace Goyang.Lemmas.IncludeAugFinal
open Goyang.Model Goyang.Spec.Include Goyang.Lemmas.Tree Goyang.Spec.Tree Goyang.Lemmas.IncludeRel
open Goyang.Lemmas.IncludeMain Goyang.Lemmas.IncludeDump

section
variable {s : Split} {R R' : Registry} {plug plug' : Plug} (h : IsSplitOf s R R' plug plug')
include h

theorem namespaceAt_sameTop {f f' : Forest} {t t' : Entry} (ht : f.tree? s.m.seq = some t) (ht' : f'.tree? s.m.seq = some t')
    (hst : SameTop s.σ t' t) (hnd : (t.dir.map (·.name)).Nodup) (p : Path) :
    namespaceAt R' f' (s.m.seq, p) = namespaceAt R f (s.m.seq, p) := by
  unfold namespaceAt
  simp only [ht, ht']
  rw [stampAt_sameTop s.σ t' t hst hnd p]
  cases t.stampAt p with
  | some n => rfl
  | none =>
    dsimp only
    have hr := h.regs
    have b1 : R'.byId s.m.seq = some s.owner := by
      rw [IncludeLink.byId_split_of_mem hr hr.m_mem, IncludeLink.repl_m]
    have b2 : R.byId s.m.seq = some s.m := IncludeLink.byId_of_mem hr hr.m_mem
    have o1 : R'.owner s.owner = some s.owner := by
      unfold Registry.owner Mod.belongsTo? Stmt.argOf?
      rw [IncludeBind.one?_none (by rw [h.text.kept "belongs-to" (by decide)]; exact h.text.m_no_belongs)]
      rfl
    have o2 : R.owner s.m = some s.m := by
      unfold Registry.owner Mod.belongsTo? Stmt.argOf?
      rw [IncludeBind.one?_none h.text.m_no_belongs]
      rfl
    rw [b1, b2]
    dsimp only
    rw [o1, o2]
    dsimp only
    unfold Stmt.argOf?
    rw [IncludeBind.one?_congr (h.text.kept "namespace" (by decide))]

/-- **Related trees, equal dumps** (any two forests). -/
theorem dumpTree_sameTop {f f' : Forest} {t t' : Entry} (ht : f.tree? s.m.seq = some t) (ht' : f'.tree? s.m.seq = some t')
    (hst : SameTop s.σ t' t) (hnd : (t.dir.map (·.name)).Nodup) :
    dumpTree R' f' s.owner.fullName t' s.m.seq (entryDepth t' + 1) [] t' =
      dumpTree R f s.m.fullName t s.m.seq (entryDepth t + 1) [] t := by
  have hW : DW R R' f f' t' t s.m.seq :=
    ⟨fun p => readOnlyAt_sameTop s.σ t' t hst hnd p,
     fun p => namespaceAt_sameTop h ht ht' hst hnd p,
     fun p => inst_split h.text h.regs _ _ _ (namespaceAt_sameTop h ht ht' hst hnd p),
     fun p => pathString_sameTop s.σ t' t hst hnd p⟩
  rw [IncludeLink.owner_fullName h.text]
  exact dumpTree_root hW s.σ _ hst hnd

/-- The same for two outcomes. -/
theorem dumpOf_sameTop (o o' : Outcome) (ho : o.reg = R) (ho' : o'.reg = R') {t t' : Entry}
    (ht : o.forest.tree? s.m.seq = some t) (ht' : o'.forest.tree? s.m.seq = some t')
    (hst : SameTop s.σ t' t) (hnd : (t.dir.map (·.name)).Nodup) : dumpOf o' s.owner = dumpOf o s.m := by
  unfold dumpOf
  rw [h.regs.owner_seq, ht, ht', ho, ho']
  exact dumpTree_sameTop h ht ht' hst hnd

end
end Goyang.Lemmas.IncludeAugFinal
