import Goyang.Lemmas.IncludeAugDump
import Goyang.Lemmas.AugmentReport
/-
C13 (third sentence), piece (F) — needed between the augment loop and the dump: `FixChoice` respects
the path view.  Two error-free trees with the same data at every step path (`PEq`: the children of a
node possibly in another order) still have the same data at every step path after `fixChoice` (which
wraps the shorthand members of every choice into implied cases).  Error-freeness is needed: `FixChoice`
leaves a choice with a recorded error alone, and `PEq` does not see recorded errors.
-/
namespace Goyang.Lemmas.IncludeAugFix
open Goyang.Model Goyang.Spec.Tree Goyang.Lemmas.Tree Goyang.Spec.Augment Goyang.Lemmas.IncludeAugDump
open Goyang.Lemmas.AugmentReport (wrap1 wrap1_name fixChoice_inp fixChoice_out fixChoice_dir)

/-- What `FixChoice` does to a child of `e`. -/
def gOf (e : Entry) : Entry → Entry :=
  if e.d.kind == .choice && e.d.errors.isEmpty then wrap1 ∘ fixChoice else fixChoice

theorem gOf_name (e x : Entry) : (gOf e x).name = x.name := by
  unfold gOf
  split
  · simp only [Function.comp, wrap1_name, fixChoice_name]
  · exact fixChoice_name x

theorem next_fix_child (e : Entry) (k : String) : next (fixChoice e) (.child k) = (e.child? k).map (gOf e) := by
  show (fixChoice e).dir.find? (·.name == k) = (e.dir.find? (·.name == k)).map (gOf e)
  rw [← AugmentTree.find?_map_name (gOf_name e)]
  congr 1
  rw [fixChoice_dir]
  unfold gOf
  split
  · rw [List.map_map]
  · rfl

theorem next_fix_input (e : Entry) : next (fixChoice e) .input = (next e .input).map fixChoice := by
  show (fixChoice e).inp.head? = e.inp.head?.map fixChoice
  rw [fixChoice_inp, List.head?_map]

theorem next_fix_output (e : Entry) : next (fixChoice e) .output = (next e .output).map fixChoice := by
  show (fixChoice e).out.head? = e.out.head?.map fixChoice
  rw [fixChoice_out, List.head?_map]

theorem noErrors_root {e : Entry} (h : NoErrors e) : e.d.errors = [] := by
  cases e with | mk d c i o => exact ((noErrors_mk d c i o).1 h).1

theorem noErrors_next {e c : Entry} {s : Step} (h : NoErrors e) (hc : next e s = some c) : NoErrors c := by
  cases e with | mk d ch i o =>
  have q := (noErrors_mk d ch i o).1 h
  cases s with
  | child k => exact q.2.1 c (List.mem_of_find?_eq_some hc)
  | input => exact q.2.2.1 c (List.mem_of_mem_head? hc)
  | output => exact q.2.2.2 c (List.mem_of_mem_head? hc)

theorem gOf_congr {t' t : Entry} (h : PEq t' t) (h' : NoErrors t') (h0 : NoErrors t) : gOf t' = gOf t := by
  unfold gOf
  rw [h.field EData.kind fun _ => rfl, noErrors_root h', noErrors_root h0]

/-- **`FixChoice` respects the path view** (error-free trees). -/
theorem fix_dataP : ∀ (n : Nat) (p : Path), p.length ≤ n → ∀ t' t : Entry, PEq t' t → NoErrors t' → NoErrors t →
    dataP (fixChoice t') p = dataP (fixChoice t) p
  | _, [], _, t', t, h, _, _ => by
    rw [dataP_nil, dataP_nil, fixChoice_d, fixChoice_d, h.data]
  | 0, _ :: _, hl, _, _, _, _, _ => by simp at hl
  | n + 1, s :: q, hl, t', t, h, h', h0 => by
    have hq : q.length ≤ n := by simpa using hl
    have ih := fix_dataP n
    rw [dataP_cons, dataP_cons]
    cases s with
    | input =>
      rw [next_fix_input, next_fix_input]
      rcases h.next .input with ⟨k1, k2⟩ | ⟨c', c, k1, k2, hc⟩
      · rw [k1, k2]
      · rw [k1, k2]
        simp only [Option.map_some, Option.bind_some]
        exact ih q hq c' c hc (noErrors_next h' k1) (noErrors_next h0 k2)
    | output =>
      rw [next_fix_output, next_fix_output]
      rcases h.next .output with ⟨k1, k2⟩ | ⟨c', c, k1, k2, hc⟩
      · rw [k1, k2]
      · rw [k1, k2]
        simp only [Option.map_some, Option.bind_some]
        exact ih q hq c' c hc (noErrors_next h' k1) (noErrors_next h0 k2)
    | child k =>
      rw [next_fix_child, next_fix_child, gOf_congr h h' h0]
      rcases h.child k with ⟨k1, k2⟩ | ⟨c', c, k1, k2, hc⟩
      · rw [k1, k2]
      · rw [k1, k2]
        simp only [Option.map_some, Option.bind_some]
        have hc' := noErrors_next (s := .child k) h' k1
        have hc0 := noErrors_next (s := .child k) h0 k2
        have plain := ih q hq c' c hc hc' hc0
        unfold gOf
        split
        · -- a choice: the member is wrapped unless it is a case
          simp only [Function.comp]
          unfold wrap1
          have hk : (fixChoice c').d.kind = (fixChoice c).d.kind := by
            rw [fixChoice_d, fixChoice_d]; exact hc.field EData.kind fun _ => rfl
          rw [hk]
          split
          · exact plain
          · cases q with
            | nil =>
              rw [dataP_nil, dataP_nil]
              rw [AugmentTree.mk_d, AugmentTree.mk_d]
              simp only [fixChoice_d]
              rw [hc.field EData.name fun _ => rfl, hc.field EData.config fun _ => rfl, hc.field EData.node fun _ => rfl,
                hc.field EData.nodeMod fun _ => rfl]
            | cons s2 q2 =>
              rw [dataP_cons, dataP_cons]
              have hq2 : q2.length ≤ n := by simp at hq; omega
              cases s2 with
              | input => rfl
              | output => rfl
              | child k2 =>
                show (List.find? (·.name == k2) [fixChoice c']).bind _ = (List.find? (·.name == k2) [fixChoice c]).bind _
                simp only [List.find?_cons, List.find?_nil, fixChoice_name, hc.name]
                cases (c.name == k2)
                · rfl
                · simp only [Option.bind_some]
                  exact ih q2 hq2 c' c hc hc' hc0
        · exact plain

theorem fixChoice_peq {t' t : Entry} (h : PEq t' t) (h' : NoErrors t') (h0 : NoErrors t) : PEq (fixChoice t') (fixChoice t) :=
  fun p => fix_dataP p.length p (Nat.le_refl _) t' t h h' h0

/-! ### `KeysUnique` after `FixChoice` -/

theorem keysUnique_iff_mk (d : EData) (c i o : List Entry) : KeysUnique (.mk d c i o) ↔
    ((c.map (·.name)).Nodup ∧ i.length ≤ 1 ∧ o.length ≤ 1) ∧ (∀ x ∈ c, KeysUnique x) ∧ (∀ x ∈ i, KeysUnique x) ∧
      (∀ x ∈ o, KeysUnique x) := by
  unfold KeysUnique
  rw [everyNode_mk, keysUniqueHere_iff]

theorem keysUnique_wrapCase (x : Entry) (h : KeysUnique x) : KeysUnique (wrapCase x) := by
  unfold wrapCase
  split
  · exact h
  · rw [keysUnique_iff_mk]
    refine ⟨⟨by simp, by simp, by simp⟩, ?_, by simp, by simp⟩
    intro y hy
    simp only [List.mem_singleton] at hy
    subst hy
    exact h

theorem keysUnique_fixChoice (e : Entry) (h : KeysUnique e) : KeysUnique (fixChoice e) := by
  induction e using entry_ind with
  | h d c i o hc hi ho =>
    rw [fixChoice_eq, keysUnique_iff_mk]
    rw [keysUnique_iff_mk] at h
    obtain ⟨⟨h1, h2, h3⟩, h4, h5, h6⟩ := h
    refine ⟨⟨by rw [names_fix]; exact h1, by simpa using h2, by simpa using h3⟩, ?_, ?_, ?_⟩
    · intro y hy
      split at hy
      · simp only [List.map_map, List.mem_map, Function.comp] at hy
        obtain ⟨x, hx, rfl⟩ := hy
        exact keysUnique_wrapCase _ (hc x hx (h4 x hx))
      · simp only [List.mem_map] at hy
        obtain ⟨x, hx, rfl⟩ := hy
        exact hc x hx (h4 x hx)
    · intro y hy
      simp only [List.mem_map] at hy
      obtain ⟨x, hx, rfl⟩ := hy
      exact hi x hx (h5 x hx)
    · intro y hy
      simp only [List.mem_map] at hy
      obtain ⟨x, hx, rfl⟩ := hy
      exact ho x hx (h6 x hx)

/-- (E) + (F): error-free trees with the same path view and `KeysUnique` have the same dump after
`FixChoice` has run over both forests. -/
theorem dumpTree_fix_peq (reg : Registry) {f f' : Forest} {id : Nat} {t t' : Entry} (ht : f.tree? id = some t)
    (ht' : f'.tree? id = some t') (h : PEq t' t) (hk' : KeysUnique t') (hk : KeysUnique t) (hn' : NoErrors t')
    (hn : NoErrors t) (nm : String) :
    dumpTree reg (AugmentReport.fixAll f') nm (fixChoice t') id (entryDepth (fixChoice t') + 1) [] (fixChoice t') =
      dumpTree reg (AugmentReport.fixAll f) nm (fixChoice t) id (entryDepth (fixChoice t) + 1) [] (fixChoice t) :=
  dumpTree_root_peq reg (by rw [AugmentReport.tree?_fixAll, ht]; rfl) (by rw [AugmentReport.tree?_fixAll, ht']; rfl)
    (fixChoice_peq h hn' hn) (keysUnique_fixChoice _ hk') (keysUnique_fixChoice _ hk) nm

end Goyang.Lemmas.IncludeAugFix
