import Goyang.Lemmas.IncludeAugCompose
import Goyang.Lemmas.BridgeForest
/-
C13 (third sentence), augments — piece (I) for sets without rpc / action nodes.

`NoIO e`: no node of the tree is an rpc / action node and no node has an rpc input / output entry.  The
three operations of the augment stage keep it (`Find` creates an input / output only below an rpc node, so
on such a tree it creates nothing: `walkParts_noIO`; error recording; `merge` at the target of children that
have it), hence the augment loop — any fuel, any module order — keeps it (`noIO_loop`).  `NoIO` gives
`IOShape` and `NoRpc`, hence `SameIO` of any two such trees.  `NoIOStart reg opts plug` (decidable): every
tree the conversion leaves (`pstate0`) and every child of a pending augment entry has `NoIO`.
`loopsRelated_of_noIO`: for such split sets `LoopsRelated` is its core (`LoopsRelatedCore`: no error, nothing
pending, owner's tree `SameTop σ` the unsplit module's) — the `IOShape` / `SameIO` parts are derived.
-/
namespace Goyang.Lemmas.IncludeAugIO
open Goyang.Model Goyang.Spec.Include Goyang.Spec.Tree Goyang.Lemmas.Tree
open Goyang.Lemmas.IncludeAugView Goyang.Lemmas.IncludeAugCompose Goyang.Lemmas.IncludeAugOrder
open Goyang.Lemmas.IncludeRel

def noIOHere (e : Entry) : Bool := !e.d.isRpc && e.inp.isEmpty && e.out.isEmpty

/-- No rpc / action node and no rpc input / output entry anywhere in the tree. -/
def NoIO (e : Entry) : Prop := everyNode noIOHere e = true

instance (e : Entry) : Decidable (NoIO e) := by unfold NoIO; infer_instance

theorem noIO_mk (d : EData) (c i o : List Entry) :
    NoIO (.mk d c i o) ↔ d.isRpc = false ∧ i = [] ∧ o = [] ∧ ∀ x ∈ c, NoIO x := by
  unfold NoIO
  rw [everyNode_mk]
  constructor
  · rintro ⟨h0, h1, _, _⟩
    simp only [noIOHere, Entry.d, Entry.inp, Entry.out, Bool.and_eq_true, Bool.not_eq_true', List.isEmpty_iff] at h0
    exact ⟨h0.1.1, h0.1.2, h0.2, h1⟩
  · rintro ⟨h0, rfl, rfl, h1⟩
    refine ⟨?_, h1, by simp, by simp⟩
    simp [noIOHere, Entry.d, Entry.inp, Entry.out, h0]

theorem noIO_noRpc {e : Entry} (h : NoIO e) : NoRpc e :=
  everyNode_imp noIOHere noRpcHere (fun x hx => by
    simp only [noIOHere, Bool.and_eq_true] at hx
    exact hx.1.1) e h

theorem noIO_ioShape {e : Entry} (h : NoIO e) : IOShape e :=
  everyNode_imp noIOHere ioShapeHere (fun x hx => by
    simp only [noIOHere, Bool.and_eq_true, Bool.not_eq_true'] at hx
    simp only [ioShapeHere, hx.1.1, Bool.false_eq_true, if_false, Bool.and_eq_true]
    exact ⟨hx.1.2, hx.2⟩) e h

theorem sameIO_of_noIO {t t' : Entry} (h : NoIO t) (h' : NoIO t') : SameIO t t' :=
  sameIO_of_noRpc (noIO_noRpc h) (noIO_ioShape h) (noIO_noRpc h') (noIO_ioShape h')

theorem noIO_withD (e : Entry) (f : EData → EData) (hf : ∀ d, (f d).isRpc = d.isRpc) (h : NoIO e) : NoIO (e.withD f) := by
  cases e with | mk d c i o =>
  simp only [Entry.withD]
  rw [noIO_mk] at h ⊢
  exact ⟨by rw [hf]; exact h.1, h.2⟩

theorem noIO_addErr (e : Entry) (x : Err) (h : NoIO e) : NoIO (e.addErr x) :=
  noIO_withD e _ (fun _ => rfl) h

theorem noIO_addErrs (e : Entry) (xs : List Err) (h : NoIO e) : NoIO (e.addErrs xs) :=
  noIO_withD e _ (fun _ => rfl) h

theorem noIO_merge (e : Entry) (ns : Option String) (oe : Entry) (he : NoIO e) (ho : ∀ c ∈ oe.dir, NoIO c) :
    NoIO (e.merge ns oe) := by
  have step : ∀ (b w : Entry), NoIO b → NoIO w → NoIO (match b.child? w.name with
      | some _ => b.addErr (Err.at_ oe.d.node "duplicate-node")
      | none => b.withDir (b.dir ++ [w])) := by
    intro b w hb hw
    split
    · exact noIO_addErr _ _ hb
    · cases b with | mk d c i o =>
      simp only [Entry.withDir, Entry.dir]
      rw [noIO_mk] at hb ⊢
      refine ⟨hb.1, hb.2.1, hb.2.2.1, ?_⟩
      intro x hx
      rcases List.mem_append.1 hx with hx | hx
      · exact hb.2.2.2 x hx
      · simp only [List.mem_singleton] at hx
        subst hx
        exact hw
  unfold Entry.merge
  refine foldl_inv (fun x => NoIO x) _ _ _ (noIO_addErrs _ _ he) ?_
  intro b v hv hb
  cases ns with
  | none => exact step b v hb (ho v hv)
  | some n => exact step b _ hb (noIO_withD v _ (fun _ => rfl) (ho v hv))

theorem noIO_updateAt (g : Entry → Entry) (hg : ∀ y, NoIO y → NoIO (g y)) :
    ∀ (p : Path) (e : Entry), NoIO e → NoIO (e.updateAt p g)
  | [], e, h => hg e h
  | s :: p, .mk d c i o, h => by
    rw [noIO_mk] at h
    obtain ⟨h0, rfl, rfl, h1⟩ := h
    cases s with
    | child k =>
      simp only [Entry.updateAt]
      rw [noIO_mk]
      refine ⟨h0, rfl, rfl, ?_⟩
      intro x hx
      obtain ⟨y, hy, rfl⟩ := List.mem_map.mp hx
      split
      · exact noIO_updateAt g hg p y (h1 y hy)
      · exact h1 y hy
    | input =>
      simp only [Entry.updateAt, List.map_nil]
      rw [noIO_mk]
      exact ⟨h0, rfl, rfl, h1⟩
    | output =>
      simp only [Entry.updateAt, List.map_nil]
      rw [noIO_mk]
      exact ⟨h0, rfl, rfl, h1⟩

/-- On a tree without rpc / action nodes `Find`'s step loop creates nothing. -/
theorem walkParts_noIO : ∀ (parts : List String) (root : Entry) (cur : Option Path), NoIO root →
    (walkParts parts root cur).2 = root := by
  intro parts
  induction parts with
  | nil => intro root cur _; rfl
  | cons part rest ih =>
    intro root cur h
    unfold walkParts
    dsimp only
    split
    · rfl
    · rename_i p
      split
      · rfl
      · rename_i e he
        have hr : e.d.isRpc = false := by
          have := everyNode_getAt noIOHere p root e h he
          cases e with | mk d c i o =>
          exact ((noIO_mk d c i o).1 this).1
        split
        · exact ih root _ h
        · split
          · exact ih root _ h
          · rw [if_neg (by rw [hr]; simp)]
            split
            · exact ih root _ h
            · split
              · rfl
              · split
                · exact ih root _ h
                · exact ih root _ h

/-- The augment stage keeps `NoIO` of every tree, provided the children of every pending augment entry have it. -/
theorem augClosed_noIO : AugClosed NoIO (fun a => ∀ c ∈ a.dir, NoIO c) where
  find reg f start ctx name hf hs :=
    find_inv2 NoIO
      (fun parts root cur h hc => ⟨by rw [walkParts_noIO parts root cur h]; exact h,
        (walkParts_inv2 (fun _ => True) (fun _ _ _ _ _ _ _ => trivial) (fun _ _ _ _ _ _ _ => trivial) parts root cur trivial hc).2⟩)
      (fun e x h => noIO_addErr e x h) reg f start ctx name hf hs
  addErr e x h := noIO_addErr e x h
  mergeAt root path te a ns h _ _ ha := noIO_updateAt _ (fun y hy => noIO_merge y ns a hy ha) path root h

/-- **`NoIO` at the start of the augment stage** (decidable): every tree the conversion has produced, and every
child of every pending augment entry, is free of rpc / action nodes and of rpc input / output entries. -/
def NoIOStart (reg : Registry) (opts : Opts) (plug : Plug) : Prop :=
  (∀ t ∈ (pstate0 reg opts plug).forest.trees, NoIO t.2) ∧
  ∀ p ∈ (pstate0 reg opts plug).pending, ∀ a ∈ p.2, ∀ c ∈ a.dir, NoIO c

instance (reg : Registry) (opts : Opts) (plug : Plug) : Decidable (NoIOStart reg opts plug) := by
  unfold NoIOStart; infer_instance

/-- **(I) for sets without rpc / action nodes**: along the augment loop (any fuel, any module order), started
where `processAll` starts it, every tree stays free of rpc / action nodes and of input / output entries. -/
theorem noIO_loop (reg : Registry) (opts : Opts) (plug : Plug) (h0 : NoIOStart reg opts plug) (fuel : Nat) (mods : Array Nat) :
    ∀ t ∈ (augmentLoop reg fuel mods (pstate0 reg opts plug)).2.forest.trees, NoIO t.2 :=
  (augmentLoop_ainv augClosed_noIO reg fuel mods (pstate0 reg opts plug) ⟨h0.1, h0.2⟩).trees

/-- The part of `LoopsRelated` that is left for sets without rpc / action nodes: the loop over the split set run
in the module order of the unsplit set records no error and leaves nothing pending, and the owner's tree is
the unsplit module's up to `SameTop σ`. -/
def LoopsRelatedCore (s : Split) (R R' : Registry) (opts : Opts) (plug plug' : Plug) : Prop :=
  AugmentReport.allErrs (loopU R R' opts plug').forest = [] ∧ (∀ id, (loopU R R' opts plug').pendingOf id = []) ∧
  ∃ t tu, (afterLoop R opts plug).2.forest.tree? s.m.seq = some t ∧
    (loopU R R' opts plug').forest.tree? s.m.seq = some tu ∧ SameTop s.σ tu t

/-- **`LoopsRelated` without its `IOShape` / `SameIO` parts** for split sets with `NoIOStart`. -/
theorem loopsRelated_of_noIO {s : Split} {R R' : Registry} (opts : Opts) (plug plug' : Plug)
    (h0 : NoIOStart R' opts plug') (hC : LoopsRelatedCore s R R' opts plug plug') :
    LoopsRelated s R R' opts plug plug' := by
  obtain ⟨hcu, hpu, t, tu, ht, htu, hst⟩ := hC
  have hk : s.m.seq ∈ fkeys (afterLoop R' opts plug').2.forest := by
    have e1 : fkeys (afterLoop R' opts plug').2.forest = fkeys (pstate0 R' opts plug').forest :=
      Bridge.fkeys_augmentLoop R' _ _ _
    have e2 : fkeys (loopU R R' opts plug').forest = fkeys (pstate0 R' opts plug').forest :=
      Bridge.fkeys_augmentLoop R' _ _ _
    rw [e1, ← e2, ← tree?_isSome, htu]
    rfl
  rw [← tree?_isSome] at hk
  cases hts : (afterLoop R' opts plug').2.forest.tree? s.m.seq with
  | none => rw [hts] at hk; cases hk
  | some ts =>
    have n1 : NoIO ts := noIO_loop R' opts plug' h0 _ _ (s.m.seq, ts) (mem_of_tree? hts)
    have n2 : NoIO tu := noIO_loop R' opts plug' h0 _ _ (s.m.seq, tu) (mem_of_tree? htu)
    exact ⟨hcu, hpu, t, ts, tu, ht, hts, htu, hst, noIO_ioShape n1, noIO_ioShape n2, sameIO_of_noIO n1 n2⟩

end Goyang.Lemmas.IncludeAugIO
