import Goyang.Lemmas.Tree
import Goyang.Lemmas.Find
/-
C13 (third sentence), augments: a copy of the augment part of `processAll` that the kernel can
evaluate.  `find` splits the path with the legacy `String.splitOn`, which does not reduce in the
kernel; `findK` splits the character list instead (`Lemmas.Find.splitOn_char`: the two are equal).
`augmentTreeK` … `processAllK` are the model's definitions with `findK` in the place of `find`, and
`processAll_eqK : processAll = processAllK`.  Used by the kernel-checked witnesses of
Props/C13Include.lean (`decide +kernel` on `processAllK`).
-/
namespace Goyang.Lemmas.IncludeAugK
open Goyang.Model Goyang.Lemmas.Tree

/-- `find` with the path split over the character list. -/
def findK (reg : Registry) (f : Forest) (start : Loc) (ctxMod : Nat) (name : String) : Option Loc × Forest :=
  if name == "" then (none, f) else
  let parts := (name.toList.splitOn '/').map String.ofList
  match parts with
  | "" :: parts =>
    let first := parts.headD ""
    let pfx := (splitPrefix first).1
    let tree : Option Nat :=
      if pfx == "" then
        match reg.byId start.1 with
        | some sm => if sm.isSub then ((reg.owner sm).map (·.seq)).getD start.1 else start.1
        | none => some start.1
      else
      match reg.byId ctxMod with
      | none => none
      | some cm =>
        match reg.findModuleByPrefix cm pfx with
        | none => none
        | some m => (reg.owner m).map (·.seq)
    match tree with
    | none =>
      (none, match f.tree? start.1 with
        | some root => f.setTree start.1 (root.addErr (Err.bare "other"))
        | none => f)
    | some t =>
      match f.tree? t with
      | none => (none, f)
      | some root =>
        let (r, root) := walkParts parts root (some [])
        (r.map (t, ·), f.setTree t root)
  | parts =>
    match f.tree? start.1 with
    | none => (none, f)
    | some root =>
      let (r, root) := walkParts parts root (some start.2)
      (r.map (start.1, ·), f.setTree start.1 root)

theorem find_eqK (reg : Registry) (f : Forest) (start : Loc) (ctxMod : Nat) (name : String) :
    find reg f start ctxMod name = findK reg f start ctxMod name := by
  unfold find findK
  rw [Lemmas.Find.slash_eq, Lemmas.Find.splitOn_char]
  rfl

def augmentTreeK (reg : Registry) (id : Nat) (addErrors : Bool) (s : PState) : PState × Nat × Nat :=
  let augs := s.pendingOf id
  let nsOf : String := namespaceAt reg s.forest (id, [])
  let (s, unapplied, p, k) := augs.foldl (fun (acc : PState × List Entry × Nat × Nat) a =>
    let (s, unapplied, p, k) := acc
    let (target, forest) := findK reg s.forest (id, []) a.d.nodeMod a.d.name
    let s := { s with forest := forest }
    let fail (s : PState) : PState × List Entry × Nat × Nat :=
      let s := if addErrors then
          match s.forest.tree? id with
          | some root => { s with forest := s.forest.setTree id (root.addErr (Err.at_ a.d.node "augment-not-found")) }
          | none => s
        else s
      (s, unapplied ++ [a], p, k + 1)
    match target with
    | none => fail s
    | some (t, path) =>
      match (s.forest.tree? t).bind (·.getAt path) with
      | none => fail s
      | some te =>
        if cannotHaveChildren te then fail s else
        match s.forest.tree? t with
        | none => fail s
        | some root =>
          let root := root.updateAt path fun te => te.merge (some nsOf) a
          ({ s with forest := s.forest.setTree t root }, unapplied, p + 1, k)) (s, [], 0, 0)
  (s.setPending id unapplied, p, k)

theorem augmentTree_eqK (reg : Registry) (id : Nat) (addErrors : Bool) (s : PState) :
    augmentTree reg id addErrors s = augmentTreeK reg id addErrors s := by
  unfold augmentTree augmentTreeK
  simp only [find_eqK]
  rfl

def augmentPassK (reg : Registry) : (fuel : Nat) → (mods : Array Nat) → (i : Nat) → (processed : Nat) → PState →
    Array Nat × Nat × PState
  | 0, mods, _, processed, s => (mods, processed, s)
  | fuel + 1, mods, i, processed, s =>
    if h : i < mods.size then
      let (s, p, k) := augmentTreeK reg mods[i] false s
      if k == 0 then
        let mods := (mods.set i (mods.back?.getD 0) h).pop
        augmentPassK reg fuel mods i (processed + p) s
      else augmentPassK reg fuel mods (i + 1) (processed + p) s
    else (mods, processed, s)

theorem augmentPass_eqK (reg : Registry) : ∀ (fuel : Nat) (mods : Array Nat) (i processed : Nat) (s : PState),
    augmentPass reg fuel mods i processed s = augmentPassK reg fuel mods i processed s := by
  intro fuel
  induction fuel with
  | zero => intro mods i processed s; rfl
  | succ fuel ih =>
    intro mods i processed s
    unfold augmentPass augmentPassK
    simp only [augmentTree_eqK, ih]

def augmentLoopK (reg : Registry) : (fuel : Nat) → Array Nat → PState → Array Nat × PState
  | 0, mods, s => (mods, s)
  | fuel + 1, mods, s =>
    if mods.isEmpty then (mods, s) else
    let (mods, processed, s) := augmentPassK reg (mods.size + 1) mods 0 0 s
    if processed == 0 then (mods, s) else augmentLoopK reg fuel mods s

theorem augmentLoop_eqK (reg : Registry) : ∀ (fuel : Nat) (mods : Array Nat) (s : PState),
    augmentLoop reg fuel mods s = augmentLoopK reg fuel mods s := by
  intro fuel
  induction fuel with
  | zero => intro mods s; rfl
  | succ fuel ih =>
    intro mods s
    unfold augmentLoop augmentLoopK
    simp only [augmentPass_eqK, ih]

def augmentLoopNK (reg : Registry) : (fuel : Nat) → Array Nat → PState → Array Nat × PState × Nat
  | 0, mods, s => (mods, s, 0)
  | fuel + 1, mods, s =>
    if mods.isEmpty then (mods, s, 0) else
    let (mods, processed, s) := augmentPassK reg (mods.size + 1) mods 0 0 s
    if processed == 0 then (mods, s, 0) else
    let (mods, s, applied) := augmentLoopNK reg fuel mods s
    (mods, s, processed + applied)

theorem augmentLoopN_eqK (reg : Registry) : ∀ (fuel : Nat) (mods : Array Nat) (s : PState),
    augmentLoopN reg fuel mods s = augmentLoopNK reg fuel mods s := by
  intro fuel
  induction fuel with
  | zero => intro mods s; rfl
  | succ fuel ih =>
    intro mods s
    unfold augmentLoopN augmentLoopNK
    simp only [augmentPass_eqK, ih]

/-- The retry rounds (`Model.leftoverRounds`), evaluable. -/
def leftoverRoundsK (reg : Registry) (fuel : Nat) : (n : Nat) → Array Nat → PState → Array Nat × PState
  | 0, mods, s => (mods, s)
  | n + 1, mods, s =>
    let (mods, s, applied) := augmentLoopNK reg fuel mods s
    if applied == 0 then (mods, s) else
    leftoverRoundsK reg fuel n mods
      { s with forest := { trees := s.forest.trees.map fun (i, e) => (i, fixChoice e) } }

theorem leftoverRounds_eqK (reg : Registry) (fuel : Nat) : ∀ (n : Nat) (mods : Array Nat) (s : PState),
    leftoverRounds reg fuel n mods s = leftoverRoundsK reg fuel n mods s := by
  intro n
  induction n with
  | zero => intro mods s; rfl
  | succ n ih =>
    intro mods s
    unfold leftoverRounds leftoverRoundsK
    simp only [augmentLoopN_eqK, ih]

section Stages
variable (reg : Registry) (opts : Opts) (plug : Plug)

def afterLoopK : Array Nat × PState :=
  augmentLoopK reg ((pending0 reg opts plug).foldl (fun n p => n + p.2.length) 0 + 2)
    ((augOrder reg).map (·.seq)).toArray (pstate0 reg opts plug)

theorem afterLoop_eqK : afterLoop reg opts plug = afterLoopK reg opts plug := by
  unfold afterLoop afterLoopK
  rw [augmentLoop_eqK]

def afterRoundsK : Array Nat × PState :=
  leftoverRoundsK reg ((pending0 reg opts plug).foldl (fun n p => n + p.2.length) 0 + 2)
    ((pending0 reg opts plug).foldl (fun n p => n + p.2.length) 0 + 2)
    (afterLoopK reg opts plug).1 (fixAll (afterLoopK reg opts plug).2)

theorem afterRounds_eqK : afterRounds reg opts plug = afterRoundsK reg opts plug := by
  unfold afterRounds afterRoundsK
  rw [leftoverRounds_eqK, afterLoop_eqK]

def leftoverPassK : PState × Nat :=
  (afterRoundsK reg opts plug).1.foldl (fun (acc : PState × Nat) id =>
    let (s, p, _) := augmentTreeK reg id true acc.1
    (s, acc.2 + p)) ((afterRoundsK reg opts plug).2, 0)

theorem leftoverPass_eqK : leftoverPass reg opts plug = leftoverPassK reg opts plug := by
  unfold leftoverPass leftoverPassK
  simp only [afterRounds_eqK, augmentTree_eqK]

def preDevK : PState :=
  if (leftoverPassK reg opts plug).2 > 0 then fixAll (leftoverPassK reg opts plug).1 else (leftoverPassK reg opts plug).1

theorem preDev_eqK : preDev reg opts plug = preDevK reg opts plug := by
  unfold preDev preDevK
  rw [leftoverPass_eqK]

/-- `processAll` for a registry without deviation statements whose first two stages are clean: the
errors are those the trees carry after the augment part (evaluable form). -/
theorem processAll_errors_K (h1 : stage1Errs reg plug = []) (h2 : forestErrs (forest0 reg opts plug) = []) :
    (processAll reg opts plug).errors =
      canonErrs (forestErrs (preDevK reg opts plug).forest ++ (devStage reg opts plug (preDevK reg opts plug).forest).2.1) := by
  rw [processAll_eq, h1, h2, preDev_eqK]
  simp only [List.isEmpty_nil, Bool.not_true, Bool.false_eq_true, if_false]

theorem processAll_forest_K (h1 : stage1Errs reg plug = []) (h2 : forestErrs (forest0 reg opts plug) = []) :
    (processAll reg opts plug).forest = (devStage reg opts plug (preDevK reg opts plug).forest).1 := by
  rw [processAll_eq, h1, h2, preDev_eqK]
  simp only [List.isEmpty_nil, Bool.not_true, Bool.false_eq_true, if_false]

end Stages

end Goyang.Lemmas.IncludeAugK
