import Goyang.Lemmas.IncludeMain
import Goyang.Lemmas.IncludeNoAug
import Goyang.Props.C07Bridge
/-
C13 (third sentence), augments — the augment stage of `processAll` on a split set.

1. `pending_sub_nil`, `pending_stmts_split`: at the start of the augment stage the submodules of the
   split have nothing pending, and every other row lists the augment statements of the same module
   (the owner's row: the unsplit module's statements).
2. `cover_unsplit_order` + `split_loop_in_unsplit_order`: the additional, augment-free submodule trees
   change the order in which the loop visits the modules (swap-remove over the module array); by C07's
   order independence the loop over the split set can be run in the module order of the UNSPLIT set
   instead — same flat view, same augments left over — whenever the split run leaves no
   `duplicate-node` error.
3. `NoLeftover`, `preDev_noLeftover`, `processAll_noLeftover`: when the loop leaves nothing pending,
   the retry rounds, the reporting sweep and the last FixChoice do nothing: the result is the loop's
   forest with `fixChoice` applied to every tree (no deviation statements).  (A run WITH augments
   left for the stage after FixChoice used to be order dependent — finding D67, repaired: that stage
   is now a fixpoint; Props/C13Include.lean `include_eq_inline_witness`.)
-/
namespace Goyang.Lemmas.IncludeAugOrder
open Goyang.Model Goyang.Spec.Include Goyang.Spec.Augment Goyang.Lemmas.Tree
open Goyang.Lemmas.AugmentLoop Goyang.Lemmas.AugmentReport Goyang.Lemmas.AugmentModel Goyang.Lemmas.Bridge Goyang.Lemmas.AugmentStep
open Goyang.Lemmas.Fuel (LoadedShape)

/-! ### the module order covers the pending table (any registry) -/

theorem cover_pstate0 (reg : Registry) (opts : Opts) (plug : Plug) :
    Cover (pstate0 reg opts plug) ((augOrder reg).map (·.seq)).toArray := by
  intro id hne
  have hk := mem_keys_of_pendingOf_ne_nil _ id hne
  simp only [keys, pstate0, pending0, allMods, List.map_map, List.mem_map, Function.comp] at hk
  obtain ⟨m, hm, hid⟩ := hk
  subst hid
  show _ ∈ (List.toArray _).toList
  rcases List.mem_append.mp hm with hm | hm
  · simp only [Registry.distinctModules, List.mem_filter] at hm
    exact seq_in_order reg m hm.1 (by rw [List.any_append, hm.2]; rfl)
  · simp only [Registry.distinctSubs, List.mem_filter] at hm
    exact seq_in_order reg m hm.1 (by rw [List.any_append, hm.2]; simp)

section Split
variable {s : Split} {R R' : Registry} (opts : Opts) (plug plug' : Plug) (h : IsSplitOf s R R' plug plug')

include h in
/-- A submodule of the split has no pending augments (the augment statements stay with the owner). -/
theorem pending_sub_nil {sb : Mod} (hsb : sb ∈ s.subs) : (pstate0 R' opts plug').pendingOf sb.seq = [] := by
  rcases pendingOf_pstate0 R' opts plug' sb.seq with h0 | ⟨p, hp, h1, h2⟩
  · exact h0
  · obtain ⟨m, hm, e1, e2, _, _⟩ := tstate_rows R' opts plug' p hp
    rw [h2]
    rw [IncludeLink.mods_split h.regs] at hm
    rcases List.mem_append.1 hm with hm | hm
    · obtain ⟨x, hx, rfl⟩ := List.mem_map.1 hm
      rw [IncludeLink.repl_seq h.regs] at e1
      exact absurd (h1.symm.trans e1) (h.regs.sub_seqs_fresh sb hsb x hx)
    · have := (h.text.sub_no_aug m hm).1
      rw [this] at e2
      exact List.map_eq_nil_iff.1 e2

include h in
/-- The pending rows of the split set list the augment statements of the unsplit set: for every
module `x` of `R`, the row of `x.seq` in `R'` is empty or lists exactly `x`'s augment statements. -/
theorem pending_stmts_split {x : Mod} (hx : x ∈ R.mods) :
    (pstate0 R' opts plug').pendingOf x.seq = [] ∨
    ((pstate0 R' opts plug').pendingOf x.seq).map (·.d.node) = x.stmt.all "augment" := by
  rcases pendingOf_pstate0 R' opts plug' x.seq with h0 | ⟨p, hp, h1, h2⟩
  · exact Or.inl h0
  · obtain ⟨m, hm, e1, e2, _, _⟩ := tstate_rows R' opts plug' p hp
    rw [h2]
    rw [IncludeLink.mods_split h.regs] at hm
    rcases List.mem_append.1 hm with hm | hm
    · obtain ⟨y, hy, rfl⟩ := List.mem_map.1 hm
      rw [IncludeLink.repl_seq h.regs] at e1
      have hxy : y = x := IncludeLink.eq_of_seq_eq h.regs.seqs_nodup hy hx (e1.symm.trans h1)
      subst hxy
      right
      rw [e2]
      by_cases hym : y.seq = s.m.seq
      · have : y = s.m := IncludeLink.eq_m_of_seq h.regs hy hym
        subst this
        rw [IncludeLink.repl_m, h.text.kept "augment" (by decide)]
      · rw [IncludeLink.repl_of_ne hym]
    · left
      have := (h.text.sub_no_aug m hm).1
      rw [this] at e2
      exact List.map_eq_nil_iff.1 e2

include h in
/-- The module order of the UNSPLIT set mentions every tree of the split set that has pending augments. -/
theorem cover_unsplit_order : Cover (pstate0 R' opts plug') ((augOrder R).map (·.seq)).toArray := by
  intro id hne
  have h1 := cover_pstate0 R' opts plug' id hne
  have h1' : id ∈ (augOrder R').map (·.seq) := h1
  obtain ⟨m', hm', hid⟩ := List.mem_map.1 h1'
  unfold augOrder at hm'
  rw [AugmentReport.mem_sortBy] at hm'
  obtain ⟨kv, hkv, hby⟩ := List.mem_filterMap.1 hm'
  have hseq : m'.seq = kv.2 := IncludeLink.byId_seq hby
  show id ∈ (augOrder R).map (·.seq)
  rw [h.regs.modules', h.regs.subModules'] at hkv
  rcases List.mem_append.1 hkv with hkv | hkv
  · obtain ⟨x, hx, hxs⟩ := h.regs.keys_valid kv hkv
    have := seq_in_order R x hx (by
      rw [List.any_append, Bool.or_eq_true]; left
      exact List.any_eq_true.2 ⟨kv, hkv, by simp [hxs]⟩)
    rw [← hid, hseq, ← hxs]
    exact this
  · obtain ⟨sb, hsb, rfl⟩ := List.mem_map.1 hkv
    exfalso
    apply hne
    rw [← hid, hseq]
    exact pending_sub_nil opts plug plug' h hsb

/-- The fuel `processAll` gives the augment loop. -/
def loopFuel (reg : Registry) (opts : Opts) (plug : Plug) : Nat :=
  (pending0 reg opts plug).foldl (fun n p => n + p.2.length) 0 + 2

include h in
/-- **The loop over the split set, run in the module order of the unsplit set**, ends in the same flat
view and leaves the same augments pending as the run `processAll` makes (whose order the
augment-free submodule trees have changed), provided that run leaves no `duplicate-node` error. -/
theorem split_loop_in_unsplit_order (hL : LoadedShape R') (hpos : AugPosDistinct R') (hplain : AugArgsPlain R')
    (hfree : ∀ er, FVisErr (afterLoop R' opts plug').2.forest er → er.cls ≠ "duplicate-node") :
    viewOf (augmentLoop R' (loopFuel R' opts plug') ((augOrder R).map (·.seq)).toArray (pstate0 R' opts plug')).2.forest =
      viewOf (afterLoop R' opts plug').2.forest ∧
    (∀ id a, a ∈ (augmentLoop R' (loopFuel R' opts plug') ((augOrder R).map (·.seq)).toArray (pstate0 R' opts plug')).2.pendingOf id ↔
      a ∈ (afterLoop R' opts plug').2.pendingOf id) := by
  have hin := phaseInput_pstate0 R' opts plug' hL hpos hplain
  have hfuel : mu (pstate0 R' opts plug') < loopFuel R' opts plug' :=
    Goyang.Props.C07.model_fuel_sufficient (pstate0 R' opts plug') hin.keys
  have e : afterLoop R' opts plug' =
      augmentLoop R' (loopFuel R' opts plug') ((augOrder R').map (·.seq)).toArray (pstate0 R' opts plug') := rfl
  rw [e] at hfree ⊢
  have hc1 := cover_pstate0 R' opts plug'
  have hc2 := cover_unsplit_order opts plug plug' h
  have hp : PlainPending R' (pstate0 R' opts plug') := hin.plain
  have hn : NodupPending (pstate0 R' opts plug') := hin.nodup
  generalize pstate0 R' opts plug' = S at *
  generalize loopFuel R' opts plug' = F at *
  generalize ((augOrder R').map (·.seq)).toArray = O1 at *
  generalize ((augOrder R).map (·.seq)).toArray = O2 at *
  exact Goyang.Props.C07.augment_loop_confluent_model R' F F O1 O2 S S hp hp rfl (fun _ _ => Iff.rfl) hn hn hc1 hc2 hfuel hfuel hfree

include h in
/-- **… and the one run ends without recorded errors iff the other does** (C07 (d′): one tree per id and
unique sibling names hold of the conversion's result). -/
theorem split_loop_clean_iff (hL : LoadedShape R') (hpos : AugPosDistinct R') (hplain : AugArgsPlain R')
    (h0 : forestErrs (forest0 R' opts plug') = []) :
    allErrs (afterLoop R' opts plug').2.forest = [] ↔
      allErrs (augmentLoop R' (loopFuel R' opts plug') ((augOrder R).map (·.seq)).toArray (pstate0 R' opts plug')).2.forest = [] := by
  have hin := phaseInput_pstate0 R' opts plug' hL hpos hplain
  have hfuel : mu (pstate0 R' opts plug') < loopFuel R' opts plug' :=
    Goyang.Props.C07.model_fuel_sufficient (pstate0 R' opts plug') hin.keys
  have e : afterLoop R' opts plug' =
      augmentLoop R' (loopFuel R' opts plug') ((augOrder R').map (·.seq)).toArray (pstate0 R' opts plug') := rfl
  rw [e]
  have hc1 := cover_pstate0 R' opts plug'
  have hc2 := cover_unsplit_order opts plug plug' h
  have hp : PlainPending R' (pstate0 R' opts plug') := hin.plain
  have hn : NodupPending (pstate0 R' opts plug') := hin.nodup
  have hids : ((pstate0 R' opts plug').forest.trees.map (·.1)).Nodup := tstate_ckeys_nodup R' opts plug' hL
  have hku := Goyang.Lemmas.AugmentErrsBridge.keysUnique_pstate0 R' opts plug' h0
  have hbody := Goyang.Lemmas.AugmentErrsBridge.keysUnique_pending R' opts plug'
  generalize pstate0 R' opts plug' = S at *
  generalize loopFuel R' opts plug' = F at *
  generalize ((augOrder R').map (·.seq)).toArray = O1 at *
  generalize ((augOrder R).map (·.seq)).toArray = O2 at *
  rw [Goyang.Props.C07.model_loop_eq R' F O1 S hp, Goyang.Props.C07.model_loop_eq R' F O2 S hp]
  exact Goyang.Props.C07.augment_loop_clean_iff (Res.ofReg R') F F O1 O2 S S rfl (fun _ _ => Iff.rfl) hn hn hc1 hc2 hfuel hfuel
    hids hku hbody

end Split

/-! ### nothing left over after the loop -/

section NoLeftover
variable (reg : Registry) (opts : Opts) (plug : Plug)

/-- The loop of `processAll` leaves no augment pending (decidable: evaluate the loop). -/
def NoLeftover : Prop := ∀ p ∈ (afterLoop reg opts plug).2.pending, p.2 = []

instance : Decidable (NoLeftover reg opts plug) := by unfold NoLeftover; infer_instance

/-- With nothing left over the retry rounds stop after the first (empty) loop. -/
theorem afterRounds_noLeftover (hn : NoLeftover reg opts plug) :
    (afterRounds reg opts plug).2 = fixAll (afterLoop reg opts plug).2 := by
  unfold afterRounds
  exact IncludeNoAug.leftoverRounds_nil reg _ _ _ _ (IncludeNoAug.fixAll_nil _ hn)

theorem leftoverPass_noLeftover (hn : NoLeftover reg opts plug) :
    leftoverPass reg opts plug = (fixAll (afterLoop reg opts plug).2, 0) := by
  unfold leftoverPass
  rw [afterRounds_noLeftover reg opts plug hn, ← Array.foldl_toList]
  refine foldl_inv (fun acc : PState × Nat => acc = (fixAll (afterLoop reg opts plug).2, 0)) _ _ _ rfl ?_
  rintro acc id _ rfl
  dsimp only
  rw [IncludeNoAug.augmentTree_nil reg id true _ (IncludeNoAug.fixAll_nil _ hn)]
  rfl

/-- With nothing left over, the state before the deviations is the loop's result with `fixChoice`
applied to every tree (the retry rounds, the reporting sweep and the last FixChoice do nothing). -/
theorem preDev_noLeftover (hn : NoLeftover reg opts plug) : preDev reg opts plug = fixAll (afterLoop reg opts plug).2 := by
  unfold preDev
  rw [leftoverPass_noLeftover reg opts plug hn]
  simp

/-- … and without deviation statements this is what `processAll` returns. -/
theorem processAll_noLeftover (hn : NoLeftover reg opts plug) (hdev : ∀ x ∈ reg.mods, x.stmt.all "deviation" = [])
    (h1 : stage1Errs reg plug = []) (h2 : forestErrs (forest0 reg opts plug) = []) :
    (processAll reg opts plug).errors = canonErrs (forestErrs (fixAll (afterLoop reg opts plug).2).forest) ∧
    (processAll reg opts plug).forest = (fixAll (afterLoop reg opts plug).2).forest := by
  have hd : ∀ f0, (devStage reg opts plug f0).1 = f0 ∧ (devStage reg opts plug f0).2.1 = [] := by
    intro f0
    unfold devStage
    refine foldl_inv (fun acc : Forest × List Err × List String => acc.1 = f0 ∧ acc.2.1 = []) _ _ _ ⟨rfl, rfl⟩ ?_
    rintro ⟨f, errs, done⟩ m hm ⟨hf, he⟩
    dsimp only at hf he ⊢
    subst hf he
    split
    · exact ⟨rfl, rfl⟩
    · rw [hdev m (IncludeNoAug.mem_keyOrder hm)]
      exact ⟨rfl, rfl⟩
  rw [processAll_eq]
  simp only [h1, h2, List.isEmpty_nil, Bool.not_true, Bool.false_eq_true, if_false]
  rw [(hd _).1, (hd _).2, preDev_noLeftover reg opts plug hn, List.append_nil]
  exact ⟨rfl, rfl⟩

end NoLeftover

end Goyang.Lemmas.IncludeAugOrder
