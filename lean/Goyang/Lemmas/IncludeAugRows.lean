import Goyang.Lemmas.IncludeMod
/-
C13 (third sentence), piece (A), first step: the conversion of a (sub)module WITHOUT include statements,
with the recorded augment rows tracked.  `IncludeMod.mod_conv` compares the conversion with the pure fold
over the values of the top-level statements under a state relation (`RSm`) that ignores `TState.augs`;
here the relation also says that the rows recorded since the start are, entry by entry, related (`REb σ`:
equal up to `ren σ` where error free) to the rows the pure fold records (`mod_conv_rows`).  Every module
other than the owner of a split, in both registries, and the unsplit module itself are of this kind; the
owner (include steps in between, `IncludeModN.part_conv_aux`) is not covered.
-/
namespace Goyang.Lemmas.IncludeAugRows
open Goyang.Model Goyang.Spec.Include Goyang.Lemmas.Tree Goyang.Spec.Tree Goyang.Lemmas.IncludeRel
open Goyang.Lemmas.IncludePure Goyang.Lemmas.IncludeRun Goyang.Lemmas.IncludeAsm Goyang.Lemmas.IncludeMod

/-- Rows of pending augments, related entry by entry. -/
def RowsRel (σ : Nat → Nat) (L₁ L₂ : List (Nat × List Entry)) : Prop :=
  RelL (fun p q => RelL (REb σ) p.2 q.2) L₁ L₂

section
variable (W : World) (hW : W.OK)

/-- `RSm` plus: the rows recorded since `st` are related to the rows of the pure side. -/
def RSa (st : TState) : TState → TState → Prop :=
  fun t₁ t₂ => RSm W st t₁ t₂ ∧ ∃ L₁, t₁.augs = st.augs ++ L₁ ∧ RowsRel W.σ L₁ t₂.augs

include hW in
theorem mod_calls_rows (X X₂ : Mod) (hX : X ∈ W.env₁.reg.mods) (hm : isModKw X.stmt = true)
    (hcr : W.CR X [X.stmt] X₂ [X₂.stmt]) (f : Nat) (vis : List NodeId) (st : TState) (hvis : OnlyMods W vis)
    (hnv : vis.contains (nodeId X X.stmt) = false)
    (hneed : Fuel.need W.env₁.reg X X.stmt vis + W.slack ≤ f + 1) :
    ∀ c, (∃ fld ∈ fieldOrder X.stmt.kw, Called X.stmt fld c) → ∀ t₁ t₂, RSa W st t₁ t₂ →
      AccRel (REb W.σ) (RSa W st) (toEntry W.env₁ f X [X.stmt] c (nodeId X X.stmt :: vis) t₁)
        (constRec (fun c => W.val X₂ [X₂.stmt] c) X₂ [X.stmt] c [] t₂) := by
  intro c hc t₁ t₂ hs
  obtain ⟨fld, hfld, hcf⟩ := hc
  have hwf : WF W.env₁.reg X [] X.stmt := ⟨hX, rfl⟩
  have hpos := Fuel.need_pos (env := W.env₁) vis hwf.inv
  have hneed' : Fuel.need W.env₁.reg X X.stmt vis ≤ (f - W.slack) + 1 := by omega
  have htr : Fuel.isTracked X.stmt = true := by
    unfold isModKw at hm; unfold Fuel.isTracked; rw [hm]; rfl
  have hc3 : ¬ (Fuel.isTracked X.stmt && vis.contains (nodeId X X.stmt)) = true := by
    rw [hnv]; simp
  obtain ⟨_, hn'⟩ := Fuel.callee_need hwf.inv hneed' hc3 (Fuel.Callee.child (scope := []) hcf.mem)
  have hv' : Fuel.visiting' X X.stmt vis = nodeId X X.stmt :: vis := by
    unfold Fuel.visiting'; rw [htr]; rfl
  rw [hv'] at hn'
  have := run_val W hW f X [X.stmt] c (nodeId X X.stmt :: vis) t₁ X₂ [X₂.stmt] hcr (hwf.child hcf.mem)
    (called_not_mod hfld hcf) (by omega) hs.1.1 (harmless_of_onlyMods W hW (onlyMods_cons W hvis hX hm) _)
  obtain ⟨L₁, e1, r1⟩ := hs.2
  exact ⟨this.1, ⟨this.2.1, this.2.2.1.trans hs.1.2.1, this.2.2.2.1.trans hs.1.2.2⟩, L₁, this.2.2.2.2.trans e1, r1⟩

include hW in
/-- **`mod_conv` with the rows**: the conversion of a (sub)module without include statements appends rows
to `TState.augs` that are related, entry by entry, to the rows the pure fold over the values records. -/
theorem mod_conv_rows (X X₂ : Mod) (hX : X ∈ W.env₁.reg.mods) (hm : isModKw X.stmt = true)
    (hinc : X.stmt.all "include" = []) (hcr : W.CR X [X.stmt] X₂ [X₂.stmt]) (f : Nat) (vis : List NodeId) (st : TState)
    (hvis : OnlyMods W vis) (hnv : vis.contains (nodeId X X.stmt) = false)
    (hcache : st.cache.find? (·.1 == X.seq) = none)
    (hneed : Fuel.need W.env₁.reg X X.stmt vis + W.slack ≤ f + 1) (hcoh : Coh W st.gcache) :
    ∃ L₁, (toEntry W.env₁ (f + 1) X [] X.stmt vis st).2.augs = st.augs ++ L₁ ∧
      RowsRel W.σ L₁ ((preFields ++ postFields).foldl
        (stepFn W.env₂ (constRec (fun c => W.val X₂ [X₂.stmt] c)) X₂ X.stmt [X.stmt] [] true) (e0 X₂ X.stmt, {})).2.augs := by
  rw [Tree.toEntry_succ, toEntryBody_mod W.env₁ f _ X [] X.stmt vis st hm hcache hnv]
  unfold dirBody
  dsimp only
  rw [fieldOrder_mod hm, List.foldl_append, List.foldl_append, List.foldl_cons, List.foldl_nil,
    step_include_nil _ _ _ _ _ _ _ _ hinc, ← List.foldl_append]
  have hcalls := mod_calls_rows W hW X X₂ hX hm hcr f vis st hvis hnv hneed
  have key := fields_rel (RE := REb W.σ) (RS := RSa W st) (closed2_REb W.σ) W.env₁ W.env₂ (toEntry W.env₁ f)
    (constRec (fun c => W.val X₂ [X₂.stmt] c)) X X₂ X.stmt [X.stmt] [X.stmt] (nodeId X X.stmt :: vis) [] hcalls true
    (fun _ s₁ s₂ as₁ as₂ hs hl => ⟨hs.1, by
      obtain ⟨L₁, e1, r1⟩ := hs.2
      exact ⟨L₁ ++ [(X.seq, as₁)], by simp [e1], r1.append (RelL.cons hl RelL.nil)⟩⟩) (preFields ++ postFields)
    (fun fld hfld c hc => ⟨fld, by
      rcases List.mem_append.1 hfld with h | h
      · exact pre_sub hm fld h
      · exact post_sub hm fld h, hc⟩)
    (by decide) (e0 X X.stmt, st) (e0 X₂ X.stmt, {})
    ⟨REb_of_eq _ (ren_e0 _ _ _ _ (hW.cr_seq hcr)), ⟨hcoh, rfl, rfl⟩, [], by simp, RelL.nil⟩ (e0_kind_eq _ _ _)
  obtain ⟨⟨_, _, L₁, e1, r1⟩, _⟩ := key
  simp only [if_true]
  exact ⟨L₁, e1, r1⟩

end
end Goyang.Lemmas.IncludeAugRows
