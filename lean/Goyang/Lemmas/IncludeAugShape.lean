import Goyang.Lemmas.IncludeAugIO
import Goyang.Lemmas.BridgeNamesStages
/-
C13 (third sentence), augments — piece (I), first half, for ALL sets: `IOShape` (an rpc / action node has no `Dir`
child, any other node no rpc input / output) is kept by the augment loop.  `Find` creates an input / output only
at an rpc node (`walkParts_inv3`), `merge` is applied only at a target that passed `cannotHaveChildren` (not an rpc
node: `AugClosed'`).  The unique-names invariant `TreeInv wfq` is carried along (an update at a path changes one
node only when sibling names are unique).  `IOShapeStart` (decidable): the trees the conversion leaves and the
children of the pending augment entries have `IOShape` — that the conversion itself produces such trees is not
proved here.
-/
namespace Goyang.Lemmas.IncludeAugShape
open Goyang.Model Goyang.Spec.Tree Goyang.Lemmas.Tree Goyang.Lemmas.Bridge
open Goyang.Lemmas.IncludeAugView Goyang.Lemmas.IncludeAugCompose Goyang.Lemmas.IncludeAugOrder Goyang.Lemmas.IncludeAugIO
open Goyang.Spec.Include

theorem ioShapeHere_hdr : ∀ d c i o c' i' o', c.map hdr = c'.map hdr → i.map hdr = i'.map hdr → o.map hdr = o'.map hdr →
    ioShapeHere (.mk d c i o) = ioShapeHere (.mk d c' i' o') := by
  intro d c i o c' i' o' hc hi ho
  have e1 := length_hdr c c' hc
  have e2 := length_hdr i i' hi
  have e3 := length_hdr o o' ho
  have f : ∀ (l l' : List Entry), l.length = l'.length → l.isEmpty = l'.isEmpty := by
    intro l l' h; cases l <;> cases l' <;> simp_all
  show (if d.isRpc = true then c.isEmpty else i.isEmpty && o.isEmpty) =
    (if d.isRpc = true then c'.isEmpty else i'.isEmpty && o'.isEmpty)
  rw [f c c' e1, f i i' e2, f o o' e3]

theorem ioShape_iff (d : EData) (c i o : List Entry) : IOShape (.mk d c i o) ↔
    (d.isRpc = true → c = []) ∧ (d.isRpc = false → i = [] ∧ o = []) ∧ (∀ x ∈ c, IOShape x) ∧ (∀ x ∈ i, IOShape x) ∧
      (∀ x ∈ o, IOShape x) := by
  constructor
  · exact ioShape_mk
  · rintro ⟨h1, h2, h3, h4, h5⟩
    unfold IOShape
    rw [everyNode_mk]
    refine ⟨?_, h3, h4, h5⟩
    cases hr : d.isRpc with
    | true => simp [ioShapeHere, Entry.d, Entry.dir, hr, h1 hr]
    | false => obtain ⟨a, b⟩ := h2 hr; simp [ioShapeHere, Entry.d, Entry.inp, Entry.out, hr, a, b]

theorem ioShape_implicitIO (parent : Entry) (b : Bool) : IOShape (implicitIO parent b) := by
  unfold implicitIO
  rw [ioShape_iff]
  simp

theorem ioShape_setImplicitIn (e : Entry) (hr : e.d.isRpc = true) (h : IOShape e) : IOShape (setImplicitIn e) := by
  cases e with | mk d c i o =>
  simp only [setImplicitIn]
  rw [ioShape_iff] at h ⊢
  simp only [Entry.d] at hr
  refine ⟨h.1, fun hf => (by rw [hr] at hf; cases hf), h.2.2.1, ?_, h.2.2.2.2⟩
  intro x hx
  simp only [List.mem_singleton] at hx
  subst hx
  exact ioShape_implicitIO _ _

theorem ioShape_setImplicitOut (e : Entry) (hr : e.d.isRpc = true) (h : IOShape e) : IOShape (setImplicitOut e) := by
  cases e with | mk d c i o =>
  simp only [setImplicitOut]
  rw [ioShape_iff] at h ⊢
  simp only [Entry.d] at hr
  refine ⟨h.1, fun hf => (by rw [hr] at hf; cases hf), h.2.2.1, h.2.2.2.1, ?_⟩
  intro x hx
  simp only [List.mem_singleton] at hx
  subst hx
  exact ioShape_implicitIO _ _

theorem ioShape_withD (e : Entry) (f : EData → EData) (hf : ∀ d, (f d).isRpc = d.isRpc) (h : IOShape e) : IOShape (e.withD f) := by
  cases e with | mk d c i o =>
  simp only [Entry.withD]
  rw [ioShape_iff] at h ⊢
  rw [hf]
  exact h

theorem addErr_isRpc (e : Entry) (x : Err) : (e.addErr x).d.isRpc = e.d.isRpc := by cases e; rfl
theorem addErrs_isRpc (e : Entry) (xs : List Err) : (e.addErrs xs).d.isRpc = e.d.isRpc := by cases e; rfl

theorem withD_isRpc (e : Entry) (f : EData → EData) (hf : ∀ d, (f d).isRpc = d.isRpc) : (e.withD f).d.isRpc = e.d.isRpc := by
  cases e; exact hf _

/-- `merge` into a node that is not an rpc / action node keeps `IOShape`. -/
theorem ioShape_merge (e : Entry) (ns : Option String) (oe : Entry) (hr : e.d.isRpc = false) (he : IOShape e)
    (ho : ∀ c ∈ oe.dir, IOShape c) : IOShape (e.merge ns oe) := by
  have step : ∀ (b w : Entry), (IOShape b ∧ b.d.isRpc = false) → IOShape w →
      (IOShape (match b.child? w.name with
        | some _ => b.addErr (Err.at_ oe.d.node "duplicate-node")
        | none => b.withDir (b.dir ++ [w])) ∧
       (match b.child? w.name with
        | some _ => b.addErr (Err.at_ oe.d.node "duplicate-node")
        | none => b.withDir (b.dir ++ [w])).d.isRpc = false) := by
    intro b w hb hw
    split
    · exact ⟨ioShape_withD _ _ (fun _ => rfl) hb.1, (addErr_isRpc _ _).trans hb.2⟩
    · cases b with | mk d c i o =>
      simp only [Entry.withDir, Entry.dir, Entry.d]
      have h1 := hb.1
      have h2 : d.isRpc = false := hb.2
      rw [ioShape_iff] at h1 ⊢
      refine ⟨⟨fun hf => (by rw [h2] at hf; cases hf), h1.2.1, ?_, h1.2.2.2⟩, h2⟩
      intro x hx
      rcases List.mem_append.1 hx with hx | hx
      · exact h1.2.2.1 x hx
      · simp only [List.mem_singleton] at hx
        subst hx
        exact hw
  unfold Entry.merge
  refine (foldl_inv (fun x => IOShape x ∧ x.d.isRpc = false) _ _ _
    (show IOShape (e.importErrors oe) ∧ (e.importErrors oe).d.isRpc = false from
      ⟨ioShape_withD e _ (fun _ => rfl) he, (addErrs_isRpc e _).trans hr⟩) ?_).1
  intro b v hv hb
  cases ns with
  | none => exact step b v hb (ho v hv)
  | some n => exact step b _ hb (ioShape_withD v _ (fun _ => rfl) (ho v hv))

theorem isRpc_of_can (te : Entry) (h : cannotHaveChildren te = false) : te.d.isRpc = false := by
  unfold cannotHaveChildren at h
  simp only [Bool.or_eq_false_iff] at h
  exact h.2

/-- The tree invariant carried along the loop: unique sibling names (and C04's local well-formedness) and `IOShape`. -/
def PT (t : Entry) : Prop := TreeInv wfq t ∧ IOShape t
/-- … of a pending augment entry. -/
def PAug (a : Entry) : Prop := TInv wfq a ∧ ∀ c ∈ a.dir, IOShape c

theorem augClosed'_shape (env : Env) : AugClosed' PT PAug where
  find reg f start ctx name hf hs :=
    find_inv2 PT
      (walkParts_inv3 PT
        (fun root p e h hp hg hr hi => ⟨⟨tinv_setImplicitIn (localOK_wfq env) root p e h.1.1 hp hg hi,
          (updateAt_kind _ (fun x => by cases x; rfl) p root).trans h.1.2⟩,
          everyNode_updateAt ioShapeHere ioShapeHere_hdr setImplicitIn e (ioShape_setImplicitIn e hr)
            (by cases e; rfl) p root h.1.1.1 hp hg h.2⟩)
        (fun root p e h hp hg hr ho => ⟨⟨tinv_setImplicitOut (localOK_wfq env) root p e h.1.1 hp hg ho,
          (updateAt_kind _ (fun x => by cases x; rfl) p root).trans h.1.2⟩,
          everyNode_updateAt ioShapeHere ioShapeHere_hdr setImplicitOut e (ioShape_setImplicitOut e hr)
            (by cases e; rfl) p root h.1.1.1 hp hg h.2⟩))
      (fun e x h => ⟨⟨tinv_addErr (localOK_wfq env) e x h.1.1, by cases e; exact h.1.2⟩, ioShape_withD e _ (fun _ => rfl) h.2⟩)
      reg f start ctx name hf hs
  addErr e x h := ⟨⟨tinv_addErr (localOK_wfq env) e x h.1.1, by cases e; exact h.1.2⟩, ioShape_withD e _ (fun _ => rfl) h.2⟩
  mergeAt root path te a ns h hp hg hcan ha :=
    ⟨⟨tinv_merge_at (localOK_wfq env) root path te a ns h.1.1 hp hg ha.1,
      (updateAt_kind _ (fun x => (rootKeep_merge x ns a).2.1) path root).trans h.1.2⟩,
      everyNode_updateAt ioShapeHere ioShapeHere_hdr (fun te => te.merge ns a) te
        (fun hte => ioShape_merge te ns a (isRpc_of_can te hcan) hte ha.2)
        (by have := rootKeep_merge te ns a; exact Prod.ext this.1 this.2.1) path root h.1.1.1 hp hg h.2⟩

/-- **`IOShape` at the start of the augment stage** (decidable). -/
def IOShapeStart (reg : Registry) (opts : Opts) (plug : Plug) : Prop :=
  (∀ t ∈ (pstate0 reg opts plug).forest.trees, IOShape t.2) ∧
  ∀ p ∈ (pstate0 reg opts plug).pending, ∀ a ∈ p.2, ∀ c ∈ a.dir, IOShape c

instance (reg : Registry) (opts : Opts) (plug : Plug) : Decidable (IOShapeStart reg opts plug) := by
  unfold IOShapeStart; infer_instance

/-- **(I), first half, all sets**: the augment loop (any fuel, any module order), started where `processAll` starts it
with trees and pending entries of the shape `IOShape`, keeps every tree of that shape. -/
theorem ioShape_loop (reg : Registry) (opts : Opts) (plug : Plug) (h0 : IOShapeStart reg opts plug) (fuel : Nat) (mods : Array Nat) :
    ∀ t ∈ (augmentLoop reg fuel mods (pstate0 reg opts plug)).2.forest.trees, IOShape t.2 := by
  have hq := localOK_wfq (envOf reg opts plug)
  have hb := ainv_pstate0 reg opts plug hq
  have hs : AInv PT PAug (pstate0 reg opts plug) :=
    ⟨fun t ht => ⟨hb.trees t ht, h0.1 t ht⟩, fun p hp a ha => ⟨hb.pend p hp a ha, h0.2 p hp a ha⟩⟩
  intro t ht
  exact ((augmentLoop_ainv' (augClosed'_shape (envOf reg opts plug)) reg fuel mods _ hs).trees t ht).2

theorem noIOStart_ioShapeStart {reg : Registry} {opts : Opts} {plug : Plug} (h : IncludeAugIO.NoIOStart reg opts plug) :
    IOShapeStart reg opts plug :=
  ⟨fun t ht => IncludeAugIO.noIO_ioShape (h.1 t ht), fun p hp a ha c hc => IncludeAugIO.noIO_ioShape (h.2 p hp a ha c hc)⟩


/-- **`LoopsRelated` without its `IOShape` parts**, for any split set with `IOShapeStart`: what is left is the core
and `SameIO` of the owner's trees after the two runs over the split set. -/
theorem loopsRelated_of_ioShape {s : Split} {R R' : Registry} (opts : Opts) (plug plug' : Plug)
    (h0 : IOShapeStart R' opts plug') (hC : LoopsRelatedCore s R R' opts plug plug')
    (hio : ∀ ts tu, (afterLoop R' opts plug').2.forest.tree? s.m.seq = some ts →
      (loopU R R' opts plug').forest.tree? s.m.seq = some tu → SameIO ts tu) :
    LoopsRelated s R R' opts plug plug' := by
  obtain ⟨hcu, hpu, t, tu, ht, htu, hst⟩ := hC
  have hk : s.m.seq ∈ fkeys (afterLoop R' opts plug').2.forest := by
    have e1 : fkeys (afterLoop R' opts plug').2.forest = fkeys (pstate0 R' opts plug').forest :=
      Bridge.fkeys_augmentLoop R' _ _ _
    have e2 : fkeys (loopU R R' opts plug').forest = fkeys (pstate0 R' opts plug').forest :=
      Bridge.fkeys_augmentLoop R' _ _ _
    rw [e1, ← e2, ← tree?_isSome, htu]
    rfl
  rw [← tree?_isSome] at hk
  cases hts : (afterLoop R' opts plug').2.forest.tree? s.m.seq with
  | none => rw [hts] at hk; cases hk
  | some ts =>
    exact ⟨hcu, hpu, t, ts, tu, ht, hts, htu, hst, ioShape_loop R' opts plug' h0 _ _ (s.m.seq, ts) (mem_of_tree? hts),
      ioShape_loop R' opts plug' h0 _ _ (s.m.seq, tu) (mem_of_tree? htu), hio ts tu hts htu⟩


/-! ### `IOShape` of everything the conversion makes (all registries) -/

/-- The frame: every entry made has `IOShape`; the entry made from an rpc / action statement has no `Dir` children
(so that setting its `RPC` flag keeps the shape). -/
def shapeFrame : Frame where
  PE e := IOShape e
  PX _ _ n e := (n.kw = "rpc" ∨ n.kw = "action") → e.dir = []

theorem ioShape_leaf (e : Entry) (hr : e.d.isRpc = false) (h1 : e.dir = []) (h2 : e.inp = []) (h3 : e.out = []) : IOShape e := by
  cases e with | mk d c i o =>
  simp only [Entry.dir, Entry.inp, Entry.out, Entry.d] at hr h1 h2 h3
  subst h1 h2 h3
  rw [ioShape_iff]
  simp [hr]

theorem ioShape_leafEntry (env : Env) (root : Mod) (scope : List Stmt) (n : Stmt) (syn : Bool) :
    IOShape (leafEntry env root scope n syn) := by
  have hr : (leafEntry env root scope n syn).d.isRpc = false := by unfold leafEntry; dsimp only; rfl
  have hd := leafEntry_data env root scope n syn
  exact ioShape_leaf _ hr hd.2.2.2.2.2.1 hd.2.2.2.2.2.2.1 hd.2.2.2.2.2.2.2

theorem closedT_shapeFrame (env : Env) : ClosedT env shapeFrame where
  withD e f _ hr _ h := ioShape_withD e f hr h
  addErrs e xs h := ioShape_withD e _ (fun _ => rfl) h
  addErr e x h := ioShape_withD e _ (fun _ => rfl) h
  importErrors e c h := ioShape_withD e _ (fun _ => rfl) h
  add root scope n kw c e v _ _ _ hr he hv _ _ := by
    show IOShape (e.add c.arg v)
    unfold Entry.add
    split
    · exact ioShape_withD e _ (fun _ => rfl) he
    · cases e with | mk d cc i o =>
      simp only [Entry.withDir, Entry.dir]
      simp only [Entry.d] at hr
      have he' : IOShape (.mk d cc i o) := he
      rw [ioShape_iff] at he' ⊢
      refine ⟨fun hf => (by rw [hr] at hf; cases hf), he'.2.1, ?_, he'.2.2.2⟩
      intro x hx
      rcases List.mem_append.1 hx with hx | hx
      · exact he'.2.2.1 x hx
      · simp only [List.mem_singleton] at hx
        subst hx
        exact hv
  rpcFlag root scope n kw c v _ hrpc hc hv hpx := by
    have hk := mem_all_kw n kw c hc
    have hdir : v.dir = [] := hpx (by rw [hk]; exact hrpc)
    show IOShape (v.withD fun d => { d with isRpc := true })
    cases v with | mk d cc i o =>
    simp only [Entry.dir] at hdir
    subst hdir
    simp only [Entry.withD]
    have hv' : IOShape (.mk d [] i o) := hv
    rw [ioShape_iff] at hv' ⊢
    exact ⟨fun _ => rfl, fun hf => (by cases hf), hv'.2.2⟩
  merge e oe hr he ho := by
    show IOShape (e.merge none oe)
    have ho' : IOShape oe := ho
    cases oe with | mk d2 c2 i2 o2 =>
    exact ioShape_merge e none _ hr he (ioShape_mk ho').2.2.1
  setInp d o ie he hi _ := by
    show IOShape _
    have he' : IOShape (.mk d [] [] o) := he
    rw [ioShape_iff] at he' ⊢
    refine ⟨fun _ => rfl, fun hf => (by cases hf), by simp, ?_, he'.2.2.2.2⟩
    intro x hx
    simp only [List.mem_singleton] at hx
    subst hx
    exact ioShape_withD ie _ (fun _ => rfl) hi
  setOut d i oe he ho _ := by
    show IOShape _
    have he' : IOShape (.mk d [] i []) := he
    rw [ioShape_iff] at he' ⊢
    refine ⟨fun _ => rfl, fun hf => (by cases hf), by simp, he'.2.2.2.1, ?_⟩
    intro x hx
    simp only [List.mem_singleton] at hx
    subst hx
    exact ioShape_withD oe _ (fun _ => rfl) ho
  typeSet e ty h _ := ioShape_withD e _ (fun _ => rfl) h
  laSet e f h _ _ hr _ := ioShape_withD e f hr h
  base0 root scope n _ := by
    show IOShape (e0 root n)
    have h := e0_isRpc root n
    exact ioShape_leaf _ h (by unfold e0; rfl) (by unfold e0; rfl) (by unfold e0; rfl)
  errE root scope n cls _ := by
    show IOShape (errorEntry root n cls)
    exact ioShape_leaf _ (by unfold errorEntry; rfl) (by unfold errorEntry; rfl) (by unfold errorEntry; rfl) (by unfold errorEntry; rfl)
  leafE root scope n syn _ := ioShape_leafEntry env root scope n syn
  leafL root scope n la xs dl _ := ioShape_withD _ _ (fun _ => rfl) (ioShape_leafEntry env root scope n true)
  row _ _ _ _ _ _ _ _ _ _ := trivial
  pc _ _ _ _ _ _ _ _ := trivial
  pxCache root scope n p inv hm _ _ := by
    intro h
    simp only [isModKw, Bool.or_eq_true, beq_iff_eq] at hm
    rcases hm with hm | hm <;> rcases h with h | h <;> rw [hm] at h <;> exact absurd h (by decide)
  pxTriv root scope n e hk := by
    intro h
    rcases hk with hk | hk | hk | hk <;> rcases h with h | h <;> rw [hk] at h <;> exact absurd h (by decide)
  pxErr root scope n cls _ := fun _ => rfl
  pxDir fuel root scope n visiting st S isMod _ _ _ _ := by
    intro h
    rw [fieldOrder_rpc n.kw h, fold_io_dir]
    rfl

/-- **`IOShape` of the conversion** (every registry, every option set and plug): every tree the conversion leaves in
the cache and every pending augment entry has `IOShape`. -/
theorem ioShape_tstate (reg : Registry) (opts : Opts) (plug : Plug) :
    (∀ t ∈ (tstate reg opts plug).cache, IOShape t.2) ∧ (∀ p ∈ (tstate reg opts plug).augs, ∀ a ∈ p.2, IOShape a) := by
  have h := (tstate_okT reg opts plug (closedT_shapeFrame (envOf reg opts plug))).base
  exact ⟨fun t ht => h.cache t ht, fun p hp a ha => h.augs p hp a ha⟩

/-- `IOShapeStart` holds of every registry. -/
theorem ioShapeStart (reg : Registry) (opts : Opts) (plug : Plug) : IOShapeStart reg opts plug := by
  obtain ⟨h1, h2⟩ := ioShape_tstate reg opts plug
  refine ⟨fun t ht => h1 t (by simpa [pstate0, forest0] using ht), ?_⟩
  intro p hp a ha c hc
  simp only [pstate0, pending0, List.mem_map] at hp
  obtain ⟨m, _, rfl⟩ := hp
  dsimp only at ha
  cases hf : (tstate reg opts plug).augs.find? (·.1 == m.seq) with
  | none => simp [hf] at ha
  | some r =>
    simp only [hf, Option.map_some, Option.getD_some] at ha
    have := h2 r (List.mem_of_find?_eq_some hf) a ha
    cases a with | mk d cc i o =>
    exact (ioShape_mk this).2.2.1 c hc

/-- **(I), first half, closed**: along the augment loop of `processAll` (any fuel, any module order) every tree
has `IOShape`, for every registry. -/
theorem ioShape_loop_all (reg : Registry) (opts : Opts) (plug : Plug) (fuel : Nat) (mods : Array Nat) :
    ∀ t ∈ (augmentLoop reg fuel mods (pstate0 reg opts plug)).2.forest.trees, IOShape t.2 :=
  ioShape_loop reg opts plug (ioShapeStart reg opts plug) fuel mods

end Goyang.Lemmas.IncludeAugShape
