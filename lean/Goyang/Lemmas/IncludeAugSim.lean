import Goyang.Lemmas.IncludeAugIO
import Goyang.Lemmas.LoadOrderFind
/-
C13 (third sentence), augments — groundwork for piece (S), the lockstep simulation of the two augment loops.

* `ren_eq`: the renaming `Spec.Include.ren σ` of the include layer IS C05's `Entry.ren σ` (two textually equal
  definitions), so C05's lemmas that do not need an injective renaming (`LoadOrder.walkParts_ren`, `updateAt_ren`,
  `getAt_ren`, `ren_merge`) apply to the trees of the modules other than the owner.
* `walkParts_path_sameTop`: on trees without rpc / action nodes, `Find`'s step loop reaches the same location in the
  owner's tree as in the unsplit module's tree (`SameTop σ`: the children of the root in another order), from any
  starting location: targets go by name.
-/
namespace Goyang.Lemmas.IncludeAugSim
open Goyang.Model Goyang.Spec.Include Goyang.Spec.Tree Goyang.Lemmas.Tree
open Goyang.Lemmas.IncludeRel Goyang.Lemmas.IncludeMain Goyang.Lemmas.IncludeAugIO

mutual
theorem ren_eq (σ : Nat → Nat) : ∀ e : Entry, ren σ e = LoadOrder.Entry.ren σ e
  | .mk d c i o => by
    simp only [ren, LoadOrder.Entry.ren]
    rw [renL_eq σ c, renL_eq σ i, renL_eq σ o]
    rfl
theorem renL_eq (σ : Nat → Nat) : ∀ l : List Entry, renL σ l = LoadOrder.renL σ l
  | [] => rfl
  | e :: es => by
    simp only [renL, LoadOrder.renL]
    rw [ren_eq σ e, renL_eq σ es]
end

/-- C05's `walkParts_ren` for the renaming of the include layer (any `σ`). -/
theorem walkParts_ren (σ : Nat → Nat) (parts : List String) (root : Entry) (cur : Option Path) :
    walkParts parts (ren σ root) cur = ((walkParts parts root cur).1, ren σ (walkParts parts root cur).2) := by
  rw [ren_eq, ren_eq]
  exact LoadOrder.walkParts_ren σ parts root cur

theorem noIO_isRpc {e : Entry} (h : NoIO e) : e.d.isRpc = false := by
  cases e with | mk d c i o => exact ((noIO_mk d c i o).1 h).1

/-- The node at a location of the owner's tree against the node at the same location of the unsplit module's
tree: both absent, or both present, neither an rpc node, with the same children names. -/
theorem getAt_rel (σ : Nat → Nat) {t' t : Entry} (h : SameTop σ t' t) (hnd : (t.dir.map (·.name)).Nodup)
    (hn' : NoIO t') (hn : NoIO t) (p : Path) :
    (t'.getAt p = none ∧ t.getAt p = none) ∨
    ∃ e' e, t'.getAt p = some e' ∧ t.getAt p = some e ∧ e'.d.isRpc = false ∧ e.d.isRpc = false ∧
      ∀ k, (e'.child? k).isSome = (e.child? k).isSome := by
  cases p with
  | nil =>
    refine Or.inr ⟨t', t, rfl, rfl, noIO_isRpc hn', noIO_isRpc hn, fun k => ?_⟩
    rw [← child?_sameTop σ t' t h hnd k]
    cases t'.child? k <;> rfl
  | cons s q =>
    have hg := getAt_sameTop σ t' t h hnd s q
    cases h1 : t'.getAt (s :: q) with
    | none =>
      rw [h1] at hg
      exact Or.inl ⟨rfl, hg.symm⟩
    | some e' =>
      rw [h1] at hg
      refine Or.inr ⟨e', ren σ e', rfl, hg.symm, ?_, ?_, fun k => ?_⟩
      · exact noIO_isRpc (everyNode_getAt noIOHere _ t' e' hn' h1)
      · have := noIO_isRpc (everyNode_getAt noIOHere _ t' e' hn' h1)
        rw [ren_d]
        exact this
      · rw [ren_child?]
        cases e'.child? k <;> rfl

/-- **`Find`'s step loop reaches the same location** in the owner's tree and in the unsplit module's tree (trees
without rpc / action nodes), whatever the starting location. -/
theorem walkParts_path_sameTop (σ : Nat → Nat) {t' t : Entry} (h : SameTop σ t' t) (hnd : (t.dir.map (·.name)).Nodup)
    (hn' : NoIO t') (hn : NoIO t) : ∀ (parts : List String) (cur : Option Path),
    (walkParts parts t' cur).1 = (walkParts parts t cur).1 := by
  intro parts
  induction parts with
  | nil => intro cur; rfl
  | cons part rest ih =>
    intro cur
    cases cur with
    | none => rfl
    | some p =>
      rcases getAt_rel σ h hnd hn' hn p with ⟨g', g⟩ | ⟨e', e, g', g, r', r, hk⟩
      · unfold walkParts
        simp only [g', g]
      · unfold walkParts
        simp only [g', g, r', r, Bool.false_eq_true, if_false]
        split
        · exact ih _
        · split
          · exact ih _
          · split
            · exact ih _
            · split
              · rfl
              · have := hk (stripPrefix part)
                cases h1 : e'.child? (stripPrefix part) with
                | none =>
                  rw [h1] at this
                  cases h2 : e.child? (stripPrefix part) with
                  | none => exact ih _
                  | some x => rw [h2] at this; cases this
                | some x' =>
                  rw [h1] at this
                  cases h2 : e.child? (stripPrefix part) with
                  | none => rw [h2] at this; cases this
                  | some x => exact ih _


/-! ### updates of the owner's tree against the same updates of the unsplit module's tree -/

/-- C05's `updateAt_ren` for the renaming of the include layer (any `σ`). -/
theorem updateAt_ren (σ : Nat → Nat) (f f' : Entry → Entry) (hf : ∀ x, ren σ (f x) = f' (ren σ x)) (p : Path) (e : Entry) :
    ren σ (e.updateAt p f) = (ren σ e).updateAt p f' := by
  rw [ren_eq, ren_eq]
  exact LoadOrder.updateAt_ren σ f f' (fun x => by rw [← ren_eq, ← ren_eq]; exact hf x) p e

/-- An update below a child of the root: `SameTop` is kept when the two update functions commute with `ren σ`. -/
theorem sameTop_updateAt_child (σ : Nat → Nat) {t' t : Entry} (h : SameTop σ t' t) (f f' : Entry → Entry)
    (hf : ∀ x, ren σ (f x) = f' (ren σ x)) (k : String) (q : Path) :
    SameTop σ (t'.updateAt (.child k :: q) f) (t.updateAt (.child k :: q) f') := by
  cases t' with | mk d' c' i' o' =>
  cases t with | mk d c i o =>
  obtain ⟨h1, h2, h3, h4⟩ := h
  simp only [Entry.updateAt]
  refine ⟨h1, ?_, h3, h4⟩
  simp only [Entry.dir] at h2 ⊢
  rw [renL_eq_map] at h2 ⊢
  have e1 : (c'.map fun x => if (x.name == k) = true then x.updateAt q f else x).map (ren σ) =
      (c'.map (ren σ)).map fun x => if (x.name == k) = true then x.updateAt q f' else x := by
    rw [List.map_map, List.map_map]
    apply List.map_congr_left
    intro x _
    simp only [Function.comp, ren_name]
    split
    · exact updateAt_ren σ f f' hf q x
    · rfl
  rw [e1]
  exact h2.map _

/-- `isSome` of a child lookup is the same in two trees with `SameTop`. -/
theorem child?_isSome_sameTop (σ : Nat → Nat) {t' t : Entry} (h : SameTop σ t' t) (k : String) :
    (t'.child? k).isSome = (t.child? k).isSome := by
  have hp := h.2.1
  rw [renL_eq_map] at hp
  unfold Entry.child?
  rw [Bool.eq_iff_iff, List.find?_isSome, List.find?_isSome]
  constructor
  · rintro ⟨x, hx, hk⟩
    exact ⟨ren σ x, hp.mem_iff.1 (List.mem_map_of_mem hx), by rw [ren_name]; exact hk⟩
  · rintro ⟨y, hy, hk⟩
    obtain ⟨x, hx, rfl⟩ := List.mem_map.1 (hp.mem_iff.2 hy)
    exact ⟨x, hx, by rw [ren_name] at hk; exact hk⟩

theorem sameTop_addErr (σ : Nat → Nat) {t' t : Entry} (h : SameTop σ t' t) (x : Err) : SameTop σ (t'.addErr x) (t.addErr x) := by
  cases t' with | mk d' c' i' o' =>
  cases t with | mk d c i o =>
  obtain ⟨h1, h2, h3, h4⟩ := h
  refine ⟨?_, h2, h3, h4⟩
  simp only [Entry.addErr, Entry.withD, Entry.d] at h1 ⊢
  unfold SameData at h1 ⊢
  rw [h1]

theorem sameTop_addErrs (σ : Nat → Nat) {t' t : Entry} (h : SameTop σ t' t) (xs : List Err) :
    SameTop σ (t'.addErrs xs) (t.addErrs xs) := by
  cases t' with | mk d' c' i' o' =>
  cases t with | mk d c i o =>
  obtain ⟨h1, h2, h3, h4⟩ := h
  refine ⟨?_, h2, h3, h4⟩
  simp only [Entry.addErrs, Entry.withD, Entry.d] at h1 ⊢
  unfold SameData at h1 ⊢
  rw [h1]

/-- One iteration of `merge`'s loop on two trees with `SameTop`. -/
theorem sameTop_step (σ : Nat → Nat) {b' b : Entry} (h : SameTop σ b' b) (ns : Option String) (x : Err) (v : Entry) :
    SameTop σ (OrderIndep.step ns x b' v) (OrderIndep.step ns x b (ren σ v)) := by
  unfold OrderIndep.step
  have hk := child?_isSome_sameTop σ h (OrderIndep.stamp ns v).name
  have hn : (OrderIndep.stamp ns (ren σ v)).name = (OrderIndep.stamp ns v).name := by
    rw [OrderIndep.stamp_name, OrderIndep.stamp_name, ren_name]
  rw [hn]
  cases h1 : b'.child? (OrderIndep.stamp ns v).name with
  | some y =>
    rw [h1] at hk
    cases h2 : b.child? (OrderIndep.stamp ns v).name with
    | none => rw [h2] at hk; cases hk
    | some z => exact sameTop_addErr σ h x
  | none =>
    rw [h1] at hk
    cases h2 : b.child? (OrderIndep.stamp ns v).name with
    | some z => rw [h2] at hk; cases hk
    | none =>
      cases b' with | mk d' c' i' o' =>
      cases b with | mk d c i o =>
      obtain ⟨g1, g2, g3, g4⟩ := h
      refine ⟨g1, ?_, g3, g4⟩
      simp only [Entry.withDir, Entry.dir] at g2 ⊢
      rw [renL_eq_map] at g2 ⊢
      rw [List.map_append, List.map_cons, List.map_nil, ren_stamp]
      exact g2.append_right _

/-- **`merge` at the root**: merging an augment entry into the owner's tree and the renamed entry into the unsplit
module's tree keeps `SameTop`. -/
theorem sameTop_merge (σ : Nat → Nat) {t' t : Entry} (h : SameTop σ t' t) (ns : Option String) (oe : Entry) :
    SameTop σ (t'.merge ns oe) (t.merge ns (ren σ oe)) := by
  rw [OrderIndep.merge_eq, OrderIndep.merge_eq]
  have h0 : SameTop σ (t'.importErrors oe) (t.importErrors (ren σ oe)) := by
    unfold Entry.importErrors
    have e1 : (ren σ oe).d.errors ++ Entry.allErrorsL (ren σ oe).dir ++ Entry.allErrorsL (ren σ oe).inp ++
        Entry.allErrorsL (ren σ oe).out =
        oe.d.errors ++ Entry.allErrorsL oe.dir ++ Entry.allErrorsL oe.inp ++ Entry.allErrorsL oe.out := by
      rw [ren_d, renD_errors, ren_dir, ren_inp, ren_out, ← renL_eq_map, ← renL_eq_map, ← renL_eq_map,
        allErrorsL_renL, allErrorsL_renL, allErrorsL_renL]
    rw [e1]
    exact sameTop_addErrs σ h _
  rw [ren_dir, ren_d, renD_node]
  generalize Err.at_ oe.d.node "duplicate-node" = x
  generalize t'.importErrors oe = b' at h0
  generalize t.importErrors (ren σ oe) = b at h0
  induction oe.dir generalizing b' b with
  | nil => exact h0
  | cons v vs ih =>
    simp only [List.map_cons, List.foldl_cons]
    exact ih _ _ (sameTop_step σ h0 ns x v)


/-- **The update the augment stage makes at a target in the owner's tree** (`merge` of the augment entry at `path`)
against the same update with the renamed entry in the unsplit module's tree: `SameTop` is kept, whatever the path. -/
theorem sameTop_mergeAt (σ : Nat → Nat) {t' t : Entry} (h : SameTop σ t' t) (ns : Option String) (a : Entry) (path : Path) :
    SameTop σ (t'.updateAt path fun te => te.merge ns a) (t.updateAt path fun te => te.merge ns (ren σ a)) := by
  cases path with
  | nil => exact sameTop_merge σ h ns a
  | cons st q =>
    cases st with
    | child k => exact sameTop_updateAt_child σ h _ _ (fun x => ren_merge σ x ns a) k q
    | input =>
      cases t' with | mk d' c' i' o' =>
      cases t with | mk d c i o =>
      obtain ⟨h1, h2, ⟨h3, h3'⟩, h4⟩ := h
      simp only [Entry.inp] at h3 h3'
      subst h3 h3'
      exact ⟨h1, h2, ⟨rfl, rfl⟩, h4⟩
    | output =>
      cases t' with | mk d' c' i' o' =>
      cases t with | mk d c i o =>
      obtain ⟨h1, h2, h3, ⟨h4, h4'⟩⟩ := h
      simp only [Entry.out] at h4 h4'
      subst h4 h4'
      exact ⟨h1, h2, h3, ⟨rfl, rfl⟩⟩

/-- … and in any other module's tree (equal up to `ren σ`). -/
theorem ren_mergeAt (σ : Nat → Nat) (t' : Entry) (ns : Option String) (a : Entry) (path : Path) :
    ren σ (t'.updateAt path fun te => te.merge ns a) = (ren σ t').updateAt path fun te => te.merge ns (ren σ a) :=
  updateAt_ren σ _ _ (fun x => ren_merge σ x ns a) path t'

end Goyang.Lemmas.IncludeAugSim
