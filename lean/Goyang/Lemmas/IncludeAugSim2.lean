import Goyang.Lemmas.IncludeAugSim
import Goyang.Lemmas.IncludeAugFinal
import Goyang.Lemmas.LoadOrderAug
/-
C13 (third sentence), augments — piece (S), continued: `Find` on the split set against `Find` on the unsplit set.

* `findTree_split`: the tree an absolute path is looked up in (prefix → module → its tree) is the same for the
  two registries when the search starts from, and the augment statement lives in, a module of the unsplit set;
  it is the tree of a module of the unsplit set (never a submodule's).
-/
namespace Goyang.Lemmas.IncludeAugSim
open Goyang.Model Goyang.Spec.Include Goyang.Spec.Tree Goyang.Lemmas.Tree
open Goyang.Lemmas.IncludeRel Goyang.Lemmas.IncludeMain Goyang.Lemmas.IncludeAugIO
open Goyang.Lemmas.IncludeLink (repl)
open Goyang.Lemmas.LoadOrder (findTree findAbs findRel find_eq)

section
variable {s : Split} {R R' : Registry} {plug plug' : Plug} (h : IsSplitOf s R R' plug plug')
include h

theorem no_belongs {x : Mod} (hx : x ∈ R.mods) : x.stmt.all "belongs-to" = [] := (h.regs.R_modules_only x hx).2.1

theorem repl_no_belongs {x : Mod} (hx : x ∈ R.mods) : (repl s x).stmt.all "belongs-to" = [] := by
  by_cases hm : x.seq = s.m.seq
  · rw [IncludeLink.eq_m_of_seq h.regs hx hm, IncludeLink.repl_m, h.text.kept "belongs-to" (by decide)]
    exact h.text.m_no_belongs
  · rw [IncludeLink.repl_of_ne hm]; exact no_belongs h hx

omit h in
theorem owner_self (reg : Registry) {y : Mod} (hy : y.stmt.all "belongs-to" = []) : reg.owner y = some y := by
  unfold Registry.owner Mod.belongsTo? Stmt.argOf?
  rw [IncludeBind.one?_none hy]
  rfl

theorem repl_prefix {x : Mod} (hx : x ∈ R.mods) : (repl s x).getPrefix = x.getPrefix := by
  by_cases hm : x.seq = s.m.seq
  · rw [IncludeLink.eq_m_of_seq h.regs hx hm, IncludeLink.repl_m, IncludeBind.owner_prefix h.text]
  · rw [IncludeLink.repl_of_ne hm]

theorem findModuleByPrefix_split {x : Mod} (hx : x ∈ R.mods) (pfx : String) :
    R'.findModuleByPrefix (repl s x) pfx = (R.findModuleByPrefix x pfx).map (repl s) := by
  unfold Registry.findModuleByPrefix
  rw [repl_prefix h hx, IncludeLink.repl_imports h.text h.regs hx]
  split
  · rfl
  · cases x.imports.find? (fun i => (i.argOf? "prefix") == some pfx) with
    | none => rfl
    | some i => exact IncludeLink.findModule_false_split h.regs i

omit h in
theorem findModuleByPrefix_mem {x : Mod} (hx : x ∈ R.mods) {pfx : String} {y : Mod}
    (hy : R.findModuleByPrefix x pfx = some y) : y ∈ R.mods := by
  unfold Registry.findModuleByPrefix at hy
  split at hy
  · cases hy; exact hx
  · split at hy
    · exact IncludeLink.findModule_false_mem hy
    · cases hy

/-- **The tree `Find` moves to** for an absolute path is the same in the two registries, and is the tree of a module
of the unsplit set. -/
theorem findTree_split {x : Mod} (hx : x ∈ R.mods) (pfx : String) :
    findTree R' x.seq x.seq pfx = findTree R x.seq x.seq pfx ∧
    ∀ t, findTree R x.seq x.seq pfx = some t → ∃ y ∈ R.mods, y.seq = t := by
  unfold findTree
  rw [IncludeLink.byId_split_of_mem h.regs hx, IncludeLink.byId_of_mem h.regs hx]
  dsimp only
  rw [IncludeBind.isSub_false (no_belongs h hx), IncludeBind.isSub_false (repl_no_belongs h hx)]
  split
  · exact ⟨rfl, fun t ht => ⟨x, hx, by simpa using ht⟩⟩
  · rw [findModuleByPrefix_split h hx]
    cases hy : R.findModuleByPrefix x pfx with
    | none => exact ⟨rfl, fun t ht => by cases ht⟩
    | some y =>
      have hym := findModuleByPrefix_mem hx hy
      simp only [Option.map_some]
      rw [owner_self R' (repl_no_belongs h hym), owner_self R (no_belongs h hym)]
      simp only [Option.map_some, IncludeLink.repl_seq h.regs, true_and]
      exact fun t ht => ⟨y, hym, by simpa using ht⟩

end

/-! ### the forests of the two runs -/

theorem noIO_ren (σ : Nat → Nat) {e : Entry} (h : NoIO e) : NoIO (ren σ e) :=
  (IncludeAugCompose.everyNode_ren σ noIOHere (fun d c i o => by
    simp [noIOHere, Entry.d, Entry.inp, Entry.out, renD]) e).2 h

/-- The forest of the run over the split set against the forest of the run over the unsplit set (sets without rpc /
action nodes): the tree of every other module equal up to `ren σ`, the owner's tree `SameTop σ` the unsplit module's
(whose root has children of different names). -/
structure FR (s : Split) (R : Registry) (f' f : Forest) : Prop where
  other : ∀ x ∈ R.mods, x.seq ≠ s.m.seq → (f'.tree? x.seq).map (ren s.σ) = f.tree? x.seq
  owner : ∃ t' t, f'.tree? s.m.seq = some t' ∧ f.tree? s.m.seq = some t ∧ SameTop s.σ t' t ∧ (t.dir.map (·.name)).Nodup
  noIO' : ForestAll NoIO f'
  noIO : ForestAll NoIO f
  /-- the trees of the split forest that are not trees of modules of the unsplit set (the submodules') carry no error -/
  errs : ∀ p ∈ f'.trees, (∀ x ∈ R.mods, x.seq ≠ p.1) → NoErrors p.2

theorem mem_setTree {f : Forest} {id : Nat} {e : Entry} {p : Nat × Entry} (hp : p ∈ (f.setTree id e).trees) :
    (p.1 = id ∧ p.2 = e) ∨ (p.1 ≠ id ∧ p ∈ f.trees) := by
  simp only [Forest.setTree, List.mem_map] at hp
  obtain ⟨⟨i, t⟩, hq, rfl⟩ := hp
  by_cases hi : i = id
  · subst hi; left; simp
  · right
    have : (i == id) = false := by simpa using hi
    simp only [this, Bool.false_eq_true, if_false]
    exact ⟨hi, hq⟩

theorem errs_setTree {s : Split} {R : Registry} {f' f : Forest} (hF : FR s R f' f) {y : Mod} (hy : y ∈ R.mods) (e : Entry) :
    ∀ p ∈ (f'.setTree y.seq e).trees, (∀ x ∈ R.mods, x.seq ≠ p.1) → NoErrors p.2 := by
  intro p hp hne
  rcases mem_setTree hp with ⟨h1, _⟩ | ⟨_, h2⟩
  · exact absurd h1.symm (hne y hy)
  · exact hF.errs p h2 hne

theorem tree?_setTree_same (f : Forest) (id : Nat) (r : Entry) (hr : f.tree? id = some r) (id' : Nat) :
    (f.setTree id r).tree? id' = f.tree? id' := by
  rw [tree?_setTree]
  split
  · rename_i e; subst e; rw [hr]; rfl
  · rfl

theorem FR.congr {s : Split} {R : Registry} {f' f g' g : Forest} (hF : FR s R f' f) (e' : ∀ id, g'.tree? id = f'.tree? id)
    (e : ∀ id, g.tree? id = f.tree? id) (n' : ForestAll NoIO g') (n : ForestAll NoIO g)
    (he : ∀ p ∈ g'.trees, (∀ x ∈ R.mods, x.seq ≠ p.1) → NoErrors p.2) : FR s R g' g :=
  ⟨fun x hx hm => by rw [e', e]; exact hF.other x hx hm, by
    obtain ⟨t', t, a, b, c⟩ := hF.owner
    exact ⟨t', t, by rw [e']; exact a, by rw [e]; exact b, c⟩, n', n, he⟩

/-- Putting back the trees that are there changes nothing. -/
theorem FR.setSame {s : Split} {R : Registry} {f' f : Forest} (hF : FR s R f' f) {y : Mod} (hy : y ∈ R.mods) {r' r : Entry}
    (hr' : f'.tree? y.seq = some r') (hr : f.tree? y.seq = some r) : FR s R (f'.setTree y.seq r') (f.setTree y.seq r) :=
  hF.congr (tree?_setTree_same f' y.seq r' hr') (tree?_setTree_same f y.seq r hr)
    (forestAll_setTree _ _ _ hF.noIO' (forestAll_tree? _ _ _ hF.noIO' hr'))
    (forestAll_setTree _ _ _ hF.noIO (forestAll_tree? _ _ _ hF.noIO hr)) (errs_setTree hF hy r')

/-- Replacing the tree of another module by trees equal up to `ren σ`. -/
theorem FR.setOther {s : Split} {R : Registry} {f' f : Forest} (hF : FR s R f' f) {y : Mod} (hy : y ∈ R.mods)
    (hym : y.seq ≠ s.m.seq) (hnd : (R.mods.map (·.seq)).Nodup) (n' : Entry) (hn : NoIO n') :
    FR s R (f'.setTree y.seq n') (f.setTree y.seq (ren s.σ n')) := by
  refine ⟨fun x hx hm => ?_, ?_, forestAll_setTree _ _ _ hF.noIO' hn, forestAll_setTree _ _ _ hF.noIO (noIO_ren _ hn),
    errs_setTree hF hy n'⟩
  · rw [tree?_setTree, tree?_setTree]
    split
    · rw [← hF.other x hx hm]
      cases f'.tree? x.seq <;> rfl
    · exact hF.other x hx hm
  · obtain ⟨t', t, a, b, c⟩ := hF.owner
    refine ⟨t', t, ?_, ?_, c⟩
    · rw [tree?_setTree, if_neg (fun e => hym e.symm)]; exact a
    · rw [tree?_setTree, if_neg (fun e => hym e.symm)]; exact b

/-- Replacing the owner's tree and the unsplit module's tree by trees with `SameTop`. -/
theorem FR.setOwner {s : Split} {R : Registry} {f' f : Forest} (hF : FR s R f' f) (hmm : s.m ∈ R.mods) (n' n : Entry)
    (hst : SameTop s.σ n' n)
    (hnd : (n.dir.map (·.name)).Nodup) (h' : NoIO n') (h0 : NoIO n) :
    FR s R (f'.setTree s.m.seq n') (f.setTree s.m.seq n) := by
  refine ⟨fun x hx hm => ?_, ?_, forestAll_setTree _ _ _ hF.noIO' h', forestAll_setTree _ _ _ hF.noIO h0,
    errs_setTree hF hmm n'⟩
  · rw [tree?_setTree, tree?_setTree, if_neg hm, if_neg hm]
    exact hF.other x hx hm
  · obtain ⟨t', t, a, b, _⟩ := hF.owner
    exact ⟨n', n, by rw [tree?_setTree, if_pos rfl, a]; rfl, by rw [tree?_setTree, if_pos rfl, b]; rfl, hst, hnd⟩

/-- The trees of a module of the unsplit set in the two forests, with what `Find`'s step loop does on them. -/
theorem FR.walk {s : Split} {R : Registry} {f' f : Forest} (hF : FR s R f' f) {y : Mod} (hy : y ∈ R.mods)
    (parts : List String) (cur : Option Path) :
    (f'.tree? y.seq = none ∧ f.tree? y.seq = none) ∨
    ∃ r' r, f'.tree? y.seq = some r' ∧ f.tree? y.seq = some r ∧
      (walkParts parts r' cur).1 = (walkParts parts r cur).1 ∧ (walkParts parts r' cur).2 = r' ∧ (walkParts parts r cur).2 = r := by
  by_cases hym : y.seq = s.m.seq
  · obtain ⟨t', t, a, b, c, d⟩ := hF.owner
    rw [hym]
    have n' := forestAll_tree? _ _ _ hF.noIO' a
    have n := forestAll_tree? _ _ _ hF.noIO b
    exact Or.inr ⟨t', t, a, b, walkParts_path_sameTop s.σ c d n' n parts cur, walkParts_noIO parts t' cur n',
      walkParts_noIO parts t cur n⟩
  · have ho := hF.other y hy hym
    cases a : f'.tree? y.seq with
    | none => rw [a] at ho; exact Or.inl ⟨rfl, ho.symm⟩
    | some r' =>
      rw [a] at ho
      have n' := forestAll_tree? _ _ _ hF.noIO' a
      refine Or.inr ⟨r', ren s.σ r', rfl, ho.symm, ?_, walkParts_noIO parts r' cur n', walkParts_noIO parts _ cur (noIO_ren _ n')⟩
      rw [walkParts_ren]


section
variable {s : Split} {R R' : Registry} {plug plug' : Plug} (h : IsSplitOf s R R' plug plug')
include h

/-- Recording an error on the root of the tree of a module of the unsplit set, in both forests. -/
theorem FR.addErrAt {f' f : Forest} (hF : FR s R f' f) {x : Mod} (hx : x ∈ R.mods) (er : Err) :
    FR s R (match f'.tree? x.seq with
        | some root => f'.setTree x.seq (root.addErr er)
        | none => f')
      (match f.tree? x.seq with
        | some root => f.setTree x.seq (root.addErr er)
        | none => f) := by
  by_cases hxm : x.seq = s.m.seq
  · obtain ⟨t', t, a, b, c, d⟩ := hF.owner
    rw [hxm, a, b]
    refine hF.setOwner h.regs.m_mem _ _ (sameTop_addErr s.σ c er) ?_ (noIO_addErr _ _ (forestAll_tree? _ _ _ hF.noIO' a))
      (noIO_addErr _ _ (forestAll_tree? _ _ _ hF.noIO b))
    cases t; exact d
  · have ho := hF.other x hx hxm
    cases a : f'.tree? x.seq with
    | none => rw [a] at ho; rw [← ho]; exact hF
    | some r' =>
      rw [a] at ho
      rw [← ho]
      simp only [Option.map_some]
      rw [← ren_addErr]
      exact hF.setOther hx hxm h.regs.seqs_nodup _ (noIO_addErr _ _ (forestAll_tree? _ _ _ hF.noIO' a))

/-- **`Find` on the two forests**, from the root of the tree of a module `x` of the unsplit set, for an augment
statement of `x`: the same target, the forests stay related, and the target lies in the tree of a module of the
unsplit set. -/
theorem find_rel {f' f : Forest} (hF : FR s R f' f) {x : Mod} (hx : x ∈ R.mods) (name : String) :
    (find R' f' (x.seq, []) x.seq name).1 = (find R f (x.seq, []) x.seq name).1 ∧
    FR s R (find R' f' (x.seq, []) x.seq name).2 (find R f (x.seq, []) x.seq name).2 ∧
    ∀ t path, (find R f (x.seq, []) x.seq name).1 = some (t, path) → ∃ y ∈ R.mods, y.seq = t := by
  rw [find_eq, find_eq]
  split
  · exact ⟨rfl, hF, fun t path e => by cases e⟩
  · split
    · rename_i parts _
      unfold findAbs
      dsimp only
      obtain ⟨e1, e2⟩ := findTree_split h hx (splitPrefix (parts.headD "")).1
      rw [e1]
      cases ht : findTree R x.seq x.seq (splitPrefix (parts.headD "")).1 with
      | none => exact ⟨rfl, hF.addErrAt h hx _, fun t path e => by cases e⟩
      | some t =>
        obtain ⟨y, hy, rfl⟩ := e2 t ht
        dsimp only
        rcases hF.walk hy parts (some []) with ⟨a, b⟩ | ⟨r', r, a, b, c, d, e⟩
        · rw [a, b]
          exact ⟨rfl, hF, fun t path e => by cases e⟩
        · rw [a, b]
          dsimp only
          rw [c, d, e]
          refine ⟨rfl, hF.setSame hy a b, fun t path e => ?_⟩
          cases hw : (walkParts parts r (some [])).1 with
          | none => rw [hw] at e; cases e
          | some q => rw [hw] at e; simp only [Option.map_some, Option.some.injEq, Prod.mk.injEq] at e; exact ⟨y, hy, e.1⟩
    · unfold findRel
      dsimp only
      rcases hF.walk hx (name.splitOn "/") (some []) with ⟨a, b⟩ | ⟨r', r, a, b, c, d, e⟩
      · rw [a, b]
        exact ⟨rfl, hF, fun t path e => by cases e⟩
      · rw [a, b]
        dsimp only
        rw [c, d, e]
        refine ⟨rfl, hF.setSame hx a b, fun t path e => ?_⟩
        cases hw : (walkParts (name.splitOn "/") r (some [])).1 with
        | none => rw [hw] at e; cases e
        | some q => rw [hw] at e; simp only [Option.map_some, Option.some.injEq, Prod.mk.injEq] at e; exact ⟨x, hx, e.1⟩

end

/-! ### names of the root's children under the update of the augment stage -/

theorem names_step (ns : Option String) (x : Err) (b v : Entry) (hb : (b.dir.map (·.name)).Nodup) :
    ((OrderIndep.step ns x b v).dir.map (·.name)).Nodup := by
  unfold OrderIndep.step
  split
  · cases b; exact hb
  · rename_i hk
    cases b with | mk d c i o =>
    simp only [Entry.withDir, Entry.dir] at hb ⊢
    rw [List.map_append, List.nodup_append]
    refine ⟨hb, by simp, ?_⟩
    intro a ha a' ha'
    simp only [List.map_cons, List.map_nil, List.mem_singleton] at ha'
    subst ha'
    obtain ⟨y, hy, rfl⟩ := List.mem_map.1 ha
    exact child?_none _ _ hk y hy

theorem names_merge (e : Entry) (ns : Option String) (oe : Entry) (he : (e.dir.map (·.name)).Nodup) :
    ((e.merge ns oe).dir.map (·.name)).Nodup := by
  rw [OrderIndep.merge_eq]
  have h0 : ((e.importErrors oe).dir.map (·.name)).Nodup := by cases e; exact he
  generalize e.importErrors oe = b at h0
  induction oe.dir generalizing b with
  | nil => exact h0
  | cons v vs ih => exact ih _ (names_step ns _ b v h0)

theorem merge_name (y : Entry) (ns : Option String) (a : Entry) : (y.merge ns a).name = y.name :=
  (rootKeep_merge y ns a).1

theorem names_mergeAt (t : Entry) (ns : Option String) (a : Entry) (path : Path) (ht : (t.dir.map (·.name)).Nodup) :
    ((t.updateAt path fun te => te.merge ns a).dir.map (·.name)).Nodup := by
  cases path with
  | nil => exact names_merge t ns a ht
  | cons st q =>
    cases t with | mk d c i o =>
    cases st with
    | child k =>
      simp only [Entry.updateAt, Entry.dir] at ht ⊢
      have : (c.map fun x => if (x.name == k) = true then x.updateAt q (fun te => te.merge ns a) else x).map (·.name) =
          c.map (·.name) := by
        rw [List.map_map]
        apply List.map_congr_left
        intro x _
        simp only [Function.comp]
        split
        · exact Bridge.updateAt_name' _ (fun y => merge_name y ns a) q x
        · rfl
      rw [this]; exact ht
    | input => exact ht
    | output => exact ht

section
variable {s : Split} {R R' : Registry} {plug plug' : Plug} (h : IsSplitOf s R R' plug plug')
include h

omit h in
/-- The node a target path leads to, in the two forests. -/
theorem FR.getAt {f' f : Forest} (hF : FR s R f' f) {y : Mod} (hy : y ∈ R.mods) (path : Path) :
    ((f'.tree? y.seq).bind (·.getAt path) = none ∧ (f.tree? y.seq).bind (·.getAt path) = none) ∨
    ∃ root' root te' te, f'.tree? y.seq = some root' ∧ f.tree? y.seq = some root ∧ root'.getAt path = some te' ∧
      root.getAt path = some te ∧ cannotHaveChildren te' = cannotHaveChildren te := by
  by_cases hym : y.seq = s.m.seq
  · obtain ⟨t', t, a, b, c, d⟩ := hF.owner
    rw [hym, a, b]
    simp only [Option.bind_some]
    cases path with
    | nil =>
      refine Or.inr ⟨t', t, t', t, rfl, rfl, rfl, rfl, ?_⟩
      have hd := c.1
      unfold SameData at hd
      unfold cannotHaveChildren
      rw [hd]
    | cons st q =>
      have hg := getAt_sameTop s.σ t' t c d st q
      cases g1 : t'.getAt (st :: q) with
      | none => rw [g1] at hg; exact Or.inl ⟨rfl, hg.symm⟩
      | some te' =>
        rw [g1] at hg
        refine Or.inr ⟨t', t, te', ren s.σ te', rfl, rfl, g1, hg.symm, ?_⟩
        simp [cannotHaveChildren, renD]
  · have ho := hF.other y hy hym
    cases a : f'.tree? y.seq with
    | none => rw [a] at ho; rw [← ho]; exact Or.inl ⟨rfl, rfl⟩
    | some r' =>
      rw [a] at ho
      rw [← ho]
      simp only [Option.map_some, Option.bind_some, IncludeMain.getAt_ren]
      cases g1 : r'.getAt path with
      | none => exact Or.inl ⟨rfl, rfl⟩
      | some te' =>
        refine Or.inr ⟨r', ren s.σ r', te', ren s.σ te', rfl, rfl, g1, ?_, ?_⟩
        · rw [IncludeMain.getAt_ren, g1]; rfl
        · simp [cannotHaveChildren, renD]

omit h in
theorem augFail_false (id : Nat) (a : Entry) (s0 : PState) (un : List Entry) (p k : Nat) :
    augFail id false a s0 un p k = (s0, un ++ [a], p, k + 1) := rfl

omit h in
theorem renD_name' (σ : Nat → Nat) (d : EData) : (renD σ d).name = d.name := rfl

/-- The accumulators of the loop over the pending augments of one tree, in the two runs. -/
def AccRel (s : Split) (R : Registry) (acc' acc : PState × List Entry × Nat × Nat) : Prop :=
  FR s R acc'.1.forest acc.1.forest ∧ acc.2.1 = acc'.2.1.map (ren s.σ) ∧ acc.2.2 = acc'.2.2

/-- **One augment of module `x`, in the two runs** (sets without rpc / action nodes, no error recording). -/
theorem augStep_rel {x : Mod} (hx : x ∈ R.mods) (ns : String) {acc' acc : PState × List Entry × Nat × Nat}
    (hA : AccRel s R acc' acc) (a' : Entry) (hmod : a'.d.nodeMod = x.seq) (hch : ∀ c ∈ a'.dir, NoIO c) :
    AccRel s R (augStep R' x.seq false ns acc' a') (augStep R x.seq false ns acc (ren s.σ a')) ∧
    (augStep R' x.seq false ns acc' a').1.pending = acc'.1.pending ∧
    (augStep R x.seq false ns acc (ren s.σ a')).1.pending = acc.1.pending := by
  obtain ⟨s', un', p', k'⟩ := acc'
  obtain ⟨s₁, un, p, k⟩ := acc
  obtain ⟨hF, hun, hpk⟩ := hA
  simp only at hF hun hpk
  simp only [Prod.mk.injEq] at hpk
  obtain ⟨rfl, rfl⟩ := hpk
  subst hun
  unfold augStep
  simp only [ren_d, renD_nodeMod, renD_name', renD_node, hmod, IncludeWorld.σ_of_mem h.regs hx]
  obtain ⟨e1, e2, e3⟩ := find_rel h hF hx a'.d.name
  rw [e1]
  generalize find R' s'.forest (x.seq, []) x.seq a'.d.name = r' at e2
  generalize hr : find R s₁.forest (x.seq, []) x.seq a'.d.name = r at e2 e3
  obtain ⟨tg', g'⟩ := r'
  obtain ⟨tg, g⟩ := r
  simp only at e2 e3 ⊢
  have hfail : AccRel s R (augFail x.seq false a' { s' with forest := g' } un' p k)
      (augFail x.seq false (ren s.σ a') { s₁ with forest := g } (un'.map (ren s.σ)) p k) ∧
      (augFail x.seq false a' { s' with forest := g' } un' p k).1.pending = s'.pending ∧
      (augFail x.seq false (ren s.σ a') { s₁ with forest := g } (un'.map (ren s.σ)) p k).1.pending = s₁.pending := by
    rw [augFail_false, augFail_false]
    exact ⟨⟨e2, by simp, rfl⟩, rfl, rfl⟩
  cases tg with
  | none => exact hfail
  | some tp =>
    obtain ⟨t, path⟩ := tp
    obtain ⟨y, hy, rfl⟩ := e3 t path rfl
    dsimp only
    rcases e2.getAt hy path with ⟨a, b⟩ | ⟨root', root, te', te, a, b, c, d, e⟩
    · rw [a, b]; exact hfail
    · rw [a, b]
      simp only [Option.bind_some, c, d, e]
      split
      · exact hfail
      · refine ⟨⟨?_, rfl, rfl⟩, rfl, rfl⟩
        simp only
        have n' := forestAll_tree? _ _ _ e2.noIO' a
        have nu' : NoIO (root'.updateAt path fun te => te.merge (some ns) a') :=
          noIO_updateAt _ (fun z hz => noIO_merge z (some ns) a' hz hch) path root' n'
        by_cases hym : y.seq = s.m.seq
        · obtain ⟨t', t0, oa, ob, oc, od⟩ := e2.owner
          rw [hym] at a b ⊢
          rw [oa] at a; rw [ob] at b
          cases a; cases b
          refine e2.setOwner h.regs.m_mem _ _ (sameTop_mergeAt s.σ oc (some ns) a' path) (names_mergeAt _ _ _ path od) nu' ?_
          exact noIO_updateAt _ (fun z hz => noIO_merge z (some ns) _ hz (by
            intro c hc
            rw [ren_dir] at hc
            obtain ⟨c0, hc0, rfl⟩ := List.mem_map.1 hc
            exact noIO_ren _ (hch c0 hc0))) path _ (forestAll_tree? _ _ _ e2.noIO ob)
        · have ho := e2.other y hy hym
          rw [a, b] at ho
          simp only [Option.map_some, Option.some.injEq] at ho
          subst ho
          rw [← ren_mergeAt]
          exact e2.setOther hy hym h.regs.seqs_nodup _ nu'

end

/-! ### one tree's pending augments, one pass, the loop -/

/-- The states of the two runs. -/
structure SR (s : Split) (R : Registry) (s' s₁ : PState) : Prop where
  fr : FR s R s'.forest s₁.forest
  pend : ∀ x ∈ R.mods, s₁.pendingOf x.seq = (s'.pendingOf x.seq).map (ren s.σ)
  has : ∀ x ∈ R.mods, s'.pending.any (·.1 == x.seq) = s₁.pending.any (·.1 == x.seq)
  pmod : ∀ x ∈ R.mods, ∀ a' ∈ s'.pendingOf x.seq, a'.d.nodeMod = x.seq ∧ ∀ c ∈ a'.dir, NoIO c
  /-- nothing is pending for a tree of the split set that is not the tree of a module of the unsplit set -/
  subsP : ∀ id, (∀ x ∈ R.mods, x.seq ≠ id) → s'.pendingOf id = []

section
variable {s : Split} {R R' : Registry} {plug plug' : Plug} (h : IsSplitOf s R R' plug plug')
include h

theorem ns_rel {f' f : Forest} (hF : FR s R f' f) {x : Mod} (hx : x ∈ R.mods) :
    namespaceAt R' f' (x.seq, []) = namespaceAt R f (x.seq, []) := by
  have hex : (f'.tree? x.seq).isSome = (f.tree? x.seq).isSome := by
    by_cases hxm : x.seq = s.m.seq
    · obtain ⟨t', t, a, b, _⟩ := hF.owner
      rw [hxm, a, b]; rfl
    · rw [← hF.other x hx hxm]; cases f'.tree? x.seq <;> rfl
  unfold namespaceAt
  cases a : f'.tree? x.seq with
  | none =>
    rw [a] at hex
    cases b : f.tree? x.seq with
    | none => rfl
    | some r => rw [b] at hex; cases hex
  | some r' =>
    rw [a] at hex
    cases b : f.tree? x.seq with
    | none => rw [b] at hex; cases hex
    | some r =>
      have e1 : r'.stampAt [] = none := rfl
      have e2 : r.stampAt [] = none := rfl
      simp only [e1, e2]
      rw [IncludeLink.byId_split_of_mem h.regs hx, IncludeLink.byId_of_mem h.regs hx]
      simp only
      rw [owner_self R' (repl_no_belongs h hx), owner_self R (no_belongs h hx)]
      simp only
      by_cases hxm : x.seq = s.m.seq
      · rw [IncludeLink.eq_m_of_seq h.regs hx hxm, IncludeLink.repl_m]
        unfold Stmt.argOf?
        rw [IncludeBind.one?_congr (h.text.kept "namespace" (by decide))]
      · rw [IncludeLink.repl_of_ne hxm]

/-- The loop over the pending augments of module `x`, in the two runs. -/
theorem fold_rel {x : Mod} (hx : x ∈ R.mods) (ns : String) : ∀ (L' : List Entry),
    (∀ a' ∈ L', a'.d.nodeMod = x.seq ∧ ∀ c ∈ a'.dir, NoIO c) → ∀ (acc' acc : PState × List Entry × Nat × Nat),
    AccRel s R acc' acc →
    AccRel s R (L'.foldl (augStep R' x.seq false ns) acc') ((L'.map (ren s.σ)).foldl (augStep R x.seq false ns) acc) ∧
    (L'.foldl (augStep R' x.seq false ns) acc').1.pending = acc'.1.pending ∧
    ((L'.map (ren s.σ)).foldl (augStep R x.seq false ns) acc).1.pending = acc.1.pending ∧
    ∀ a ∈ (L'.foldl (augStep R' x.seq false ns) acc').2.1, a ∈ acc'.2.1 ∨ a ∈ L' := by
  intro L'
  induction L' with
  | nil => intro _ acc' acc hA; exact ⟨hA, rfl, rfl, fun a ha => Or.inl ha⟩
  | cons a' L ih =>
    intro hL acc' acc hA
    simp only [List.map_cons, List.foldl_cons]
    obtain ⟨h1, h2, h3⟩ := augStep_rel h hx ns hA a' (hL a' (List.mem_cons_self ..)).1 (hL a' (List.mem_cons_self ..)).2
    obtain ⟨i1, i2, i3, i4⟩ := ih (fun b hb => hL b (List.mem_cons_of_mem _ hb)) _ _ h1
    refine ⟨i1, i2.trans h2, i3.trans h3, fun a ha => ?_⟩
    rcases i4 a ha with hh | hh
    · -- what one step leaves unapplied: what was, or the entry itself
      have : ∀ b ∈ (augStep R' x.seq false ns acc' a').2.1, b ∈ acc'.2.1 ∨ b = a' := by
        intro b hb
        obtain ⟨s0, un0, p0, k0⟩ := acc'
        unfold augStep at hb
        simp only at hb
        repeat' split at hb
        all_goals first
          | (rw [augFail_false] at hb
             simp only [List.mem_append, List.mem_singleton] at hb
             exact hb)
          | exact Or.inl hb
      rcases this a hh with g | g
      · exact Or.inl g
      · exact Or.inr (g ▸ List.mem_cons_self ..)
    · exact Or.inr (List.mem_cons_of_mem _ hh)

/-- **`augmentTree` for a module of the unsplit set, in the two runs**: related states, the same counts. -/
theorem augmentTree_rel {s' s₁ : PState} (hS : SR s R s' s₁) {x : Mod} (hx : x ∈ R.mods) :
    SR s R (augmentTree R' x.seq false s').1 (augmentTree R x.seq false s₁).1 ∧
    (augmentTree R' x.seq false s').2 = (augmentTree R x.seq false s₁).2 := by
  rw [augmentTree_eq, augmentTree_eq]
  simp only
  rw [ns_rel h hS.fr hx, hS.pend x hx]
  obtain ⟨i1, i2, i3, i4⟩ := fold_rel h hx (namespaceAt R s₁.forest (x.seq, [])) (s'.pendingOf x.seq) (hS.pmod x hx)
    (s', [], 0, 0) (s₁, [], 0, 0) ⟨hS.fr, rfl, rfl⟩
  generalize (s'.pendingOf x.seq).foldl (augStep R' x.seq false (namespaceAt R s₁.forest (x.seq, []))) (s', [], 0, 0) = r' at i1 i2 i4
  generalize ((s'.pendingOf x.seq).map (ren s.σ)).foldl (augStep R x.seq false (namespaceAt R s₁.forest (x.seq, [])))
    (s₁, [], 0, 0) = r at i1 i3
  obtain ⟨q', un', p', k'⟩ := r'
  obtain ⟨q, un, p, k⟩ := r
  obtain ⟨j1, j2, j3⟩ := i1
  simp only at j1 j2 j3 i2 i3 i4
  subst j2
  refine ⟨⟨j1, fun y hy => ?_, fun y hy => ?_, fun y hy a' ha' => ?_, fun id hid => ?_⟩, j3.symm⟩
  · simp only
    rw [LoadOrder.pendingOf_setPending, LoadOrder.pendingOf_setPending, i2, i3, hS.has x hx]
    have hq : q.pendingOf y.seq = s₁.pendingOf y.seq := by unfold PState.pendingOf; rw [i3]
    have hq' : q'.pendingOf y.seq = s'.pendingOf y.seq := by unfold PState.pendingOf; rw [i2]
    rw [hq, hq', hS.pend y hy]
    split
    · split <;> rfl
    · rfl
  · simp only
    rw [LoadOrder.any_setPending, LoadOrder.any_setPending, i2, i3]
    exact hS.has y hy
  · simp only at ha'
    rw [LoadOrder.pendingOf_setPending, i2] at ha'
    have hq' : q'.pendingOf y.seq = s'.pendingOf y.seq := by unfold PState.pendingOf; rw [i2]
    split at ha'
    · rename_i e
      split at ha'
      · rcases i4 a' ha' with g | g
        · cases g
        · have hxy : y = x := IncludeLink.eq_of_seq_eq h.regs.seqs_nodup hy hx e
          subst hxy
          exact hS.pmod y hy a' g
      · cases ha'
    · rw [hq'] at ha'
      exact hS.pmod y hy a' ha'
  · simp only
    rw [LoadOrder.pendingOf_setPending, if_neg (fun e => hid x hx e.symm)]
    have hq' : q'.pendingOf id = s'.pendingOf id := by unfold PState.pendingOf; rw [i2]
    rw [hq']
    exact hS.subsP id hid

end

theorem mem_swapRemove_sub (mods : Array Nat) (i : Nat) (h : i < mods.size) :
    ∀ id ∈ ((mods.set i (mods.back?.getD 0) h).pop).toList, id ∈ mods.toList := by
  intro id hid
  rw [Array.toList_pop, Array.toList_set] at hid
  have h1 : id ∈ mods.toList.set i (mods.back?.getD 0) := List.dropLast_subset _ hid
  rcases List.mem_or_eq_of_mem_set h1 with h2 | h2
  · exact h2
  · subst h2
    have hb : mods.back? = some mods[mods.size - 1] := by
      rw [Array.back?]; simp
    rw [hb]
    simp

section
variable {s : Split} {R R' : Registry} {plug plug' : Plug} (h : IsSplitOf s R R' plug plug')
include h

/-- **One pass of the augment loop, in the two runs**, over the same module array (numbers of modules of the
unsplit set): the same array left, the same count, related states. -/
theorem augmentPass_rel : ∀ (fuel : Nat) (mods : Array Nat) (i processed : Nat) (s' s₁ : PState), SR s R s' s₁ →
    (∀ id ∈ mods.toList, ∃ x ∈ R.mods, x.seq = id) →
    (augmentPass R' fuel mods i processed s').1 = (augmentPass R fuel mods i processed s₁).1 ∧
    (augmentPass R' fuel mods i processed s').2.1 = (augmentPass R fuel mods i processed s₁).2.1 ∧
    SR s R (augmentPass R' fuel mods i processed s').2.2 (augmentPass R fuel mods i processed s₁).2.2 ∧
    (∀ id ∈ (augmentPass R fuel mods i processed s₁).1.toList, ∃ x ∈ R.mods, x.seq = id)
  | 0, mods, i, processed, s', s₁, hS, hM => ⟨rfl, rfl, hS, hM⟩
  | fuel + 1, mods, i, processed, s', s₁, hS, hM => by
    unfold augmentPass
    by_cases hi : i < mods.size
    · rw [dif_pos hi, dif_pos hi]
      obtain ⟨x, hx, hxs⟩ := hM mods[i] (Array.getElem_mem_toList hi)
      obtain ⟨hrel, heq⟩ := augmentTree_rel h hS hx
      rw [hxs] at hrel heq
      rw [show augmentTree R' mods[i] false s' = ((augmentTree R' mods[i] false s').1, (augmentTree R mods[i] false s₁).2) from by
        rw [← heq]]
      generalize (augmentTree R' mods[i] false s').1 = q' at hrel ⊢
      generalize augmentTree R mods[i] false s₁ = o₁ at hrel ⊢
      obtain ⟨q, p, k⟩ := o₁
      simp only at hrel ⊢
      by_cases hk : (k == 0) = true
      · simp only [hk, if_true]
        exact augmentPass_rel fuel _ i (processed + p) q' q hrel (fun id hid => hM id (mem_swapRemove_sub mods i hi id hid))
      · simp only [hk, Bool.false_eq_true, if_false]
        exact augmentPass_rel fuel mods (i + 1) (processed + p) q' q hrel hM
    · rw [dif_neg hi, dif_neg hi]
      exact ⟨rfl, rfl, hS, hM⟩

/-- **The augment loop, in the two runs** (the same fuel, the same module array). -/
theorem augmentLoop_rel : ∀ (fuel : Nat) (mods : Array Nat) (s' s₁ : PState), SR s R s' s₁ →
    (∀ id ∈ mods.toList, ∃ x ∈ R.mods, x.seq = id) →
    SR s R (augmentLoop R' fuel mods s').2 (augmentLoop R fuel mods s₁).2
  | 0, mods, s', s₁, hS, _ => hS
  | fuel + 1, mods, s', s₁, hS, hM => by
    unfold augmentLoop
    by_cases hm : mods.isEmpty = true
    · rw [if_pos hm, if_pos hm]; exact hS
    · rw [if_neg hm, if_neg hm]
      obtain ⟨h1, h2, h3, h4⟩ := augmentPass_rel h (mods.size + 1) mods 0 0 s' s₁ hS hM
      generalize augmentPass R' (mods.size + 1) mods 0 0 s' = r' at h1 h2 h3
      generalize augmentPass R (mods.size + 1) mods 0 0 s₁ = r at h1 h2 h3 h4
      obtain ⟨m', p', q'⟩ := r'
      obtain ⟨m1, p1, q1⟩ := r
      simp only at h1 h2 h3 h4 ⊢
      subst h1 h2
      split
      · exact h3
      · exact augmentLoop_rel fuel m' q' q1 h3 h4

end

/-! ### the result: `LoopsRelatedCore` from the relation of the two starting states -/

theorem noErrors_ren (σ : Nat → Nat) {e : Entry} (h : NoErrors (ren σ e)) : NoErrors e :=
  (IncludeAugCompose.everyNode_ren σ noErrorsHere (fun d c i o => by simp [noErrorsHere, Entry.d, renD]) e).1 h

theorem noErrors_sameTop (σ : Nat → Nat) {t' t : Entry} (h : SameTop σ t' t) (ht : NoErrors t) : NoErrors t' := by
  cases t' with | mk d' c' i' o' =>
  cases t with | mk d c i o =>
  obtain ⟨h1, h2, ⟨h3, h3'⟩, ⟨h4, h4'⟩⟩ := h
  simp only [Entry.d, Entry.dir, Entry.inp, Entry.out] at h1 h2 h3 h3' h4 h4'
  subst h3 h3' h4 h4'
  rw [noErrors_mk] at ht ⊢
  refine ⟨?_, ?_, by simp, by simp⟩
  · unfold SameData at h1; rw [h1]; exact ht.1
  · intro x hx
    apply noErrors_ren σ
    apply ht.2.1
    apply h2.mem_iff.1
    rw [renL_eq_map]
    exact List.mem_map_of_mem hx

theorem tree?_of_mem_nodup {f : Forest} (hk : (fkeys f).Nodup) {p : Nat × Entry} (hp : p ∈ f.trees) : f.tree? p.1 = some p.2 := by
  unfold Forest.tree?
  have : f.trees.find? (·.1 == p.1) = some p := by
    unfold fkeys at hk
    generalize f.trees = l at hk hp
    induction l with
    | nil => cases hp
    | cons q qs ih =>
      rw [List.map_cons, List.nodup_cons] at hk
      rcases List.mem_cons.1 hp with rfl | hq
      · simp
      · have hne : (q.1 == p.1) = false := by
          rw [beq_eq_false_iff_ne]
          intro e
          exact hk.1 (e ▸ List.mem_map_of_mem (f := fun x : Nat × Entry => x.1) hq)
        rw [List.find?_cons, hne]
        exact ih hk.2 hq
  rw [this]; rfl

section
variable {s : Split} {R R' : Registry} {plug plug' : Plug} (h : IsSplitOf s R R' plug plug')
include h

open Goyang.Lemmas.IncludeAugCompose Goyang.Lemmas.IncludeAugOrder in
/-- **(S) for sets without rpc / action nodes**: when the two starting states are related (`SR`: the converted
forests as `include_conversion` relates them, free of rpc / action nodes; the pending augment entries of every
module equal up to `ren σ` — piece (A)), the two loops have the same fuel, and the loop over the unsplit set ends
without recorded error and leaves nothing pending, then the loop over the split set run in the same module order
records no error, leaves nothing pending, and leaves the owner's tree `SameTop σ` the unsplit module's. -/
theorem loopsRelatedCore_of_start (opts : Opts) (hL : Fuel.LoadedShape R')
    (hstart : SR s R (pstate0 R' opts plug') (pstate0 R opts plug))
    (hfuel : loopFuel R' opts plug' = loopFuel R opts plug)
    (hcl : AugmentReport.allErrs (afterLoop R opts plug).2.forest = []) (hn : NoLeftover R opts plug) :
    LoopsRelatedCore s R R' opts plug plug' := by
  have hM : ∀ id ∈ (((augOrder R).map (·.seq)).toArray).toList, ∃ x ∈ R.mods, x.seq = id := by
    intro id hid
    simp only [List.mem_map] at hid
    obtain ⟨x, hx, rfl⟩ := hid
    unfold augOrder at hx
    rw [AugmentReport.mem_sortBy] at hx
    obtain ⟨kv, _, hby⟩ := List.mem_filterMap.1 hx
    exact ⟨x, IncludeLink.byId_mem hby, rfl⟩
  have key := augmentLoop_rel h (loopFuel R opts plug) ((augOrder R).map (·.seq)).toArray _ _ hstart hM
  have eU : loopU R R' opts plug' =
      (augmentLoop R' (loopFuel R opts plug) ((augOrder R).map (·.seq)).toArray (pstate0 R' opts plug')).2 := by
    unfold loopU; rw [hfuel]
  have eA : (afterLoop R opts plug).2 =
      (augmentLoop R (loopFuel R opts plug) ((augOrder R).map (·.seq)).toArray (pstate0 R opts plug)).2 := rfl
  rw [← eU, ← eA] at key
  have hNe : ForestAll NoErrors (afterLoop R opts plug).2.forest := (forestErrs_eq_nil _).1 hcl
  refine ⟨?_, fun id => ?_, ?_⟩
  · apply (forestErrs_eq_nil _).2
    intro p hp
    have hkeys : (fkeys (loopU R R' opts plug').forest).Nodup := by
      have e2 : fkeys (loopU R R' opts plug').forest = fkeys (pstate0 R' opts plug').forest :=
        Bridge.fkeys_augmentLoop R' _ _ _
      rw [e2]
      exact Bridge.tstate_ckeys_nodup R' opts plug' hL
    have hp1 := tree?_of_mem_nodup hkeys hp
    by_cases hex : ∃ x ∈ R.mods, x.seq = p.1
    · obtain ⟨x, hx, hxs⟩ := hex
      by_cases hxm : x.seq = s.m.seq
      · obtain ⟨t', t, a, b, c, _⟩ := key.fr.owner
        rw [← hxs, hxm, a] at hp1
        cases hp1
        exact noErrors_sameTop s.σ c (hNe _ (mem_of_tree? b))
      · have ho := key.fr.other x hx hxm
        rw [hxs, hp1] at ho
        exact noErrors_ren s.σ (hNe _ (mem_of_tree? ho.symm))
    · exact key.fr.errs p hp (fun x hx e => hex ⟨x, hx, e⟩)
  · by_cases hex : ∃ x ∈ R.mods, x.seq = id
    · obtain ⟨x, hx, rfl⟩ := hex
      have := key.pend x hx
      rw [IncludeNoAug.pendingOf_nil _ hn x.seq] at this
      exact List.map_eq_nil_iff.1 this.symm
    · exact key.subsP id (fun x hx e => hex ⟨x, hx, e⟩)
  · obtain ⟨t', t, a, b, c, _⟩ := key.fr.owner
    exact ⟨t, t', b, a, c⟩

end
end Goyang.Lemmas.IncludeAugSim
