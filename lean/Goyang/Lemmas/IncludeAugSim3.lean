import Goyang.Lemmas.IncludeAugSim2
import Goyang.Lemmas.IncludeAugDec
import Goyang.Lemmas.LoadOrderProcess
/-
C13 (third sentence), augments — piece (S) applied: `LoopsRelatedCore` for split sets without rpc / action nodes from
what `include_conversion` gives about the converted forests and from the relation of the pending augment entries
(piece (A), here the decidable hypothesis `PendRel`).
-/
namespace Goyang.Lemmas.IncludeAugSim
open Goyang.Model Goyang.Spec.Include Goyang.Spec.Tree Goyang.Lemmas.Tree
open Goyang.Lemmas.IncludeRel Goyang.Lemmas.IncludeMain Goyang.Lemmas.IncludeAugIO Goyang.Lemmas.IncludeAugDec
open Goyang.Lemmas.IncludeAugCompose Goyang.Lemmas.IncludeAugOrder

/-- **Piece (A) as a decidable condition** on the two converted sets: for every module of the unsplit set, the
pending augment entries are those of the split set up to `ren σ` (entry by entry, in order), and the pending table
of the split set has a row for it iff that of the unsplit set has. -/
def PendRel (s : Split) (R R' : Registry) (opts : Opts) (plug plug' : Plug) : Prop :=
  (∀ x ∈ R.mods, (pstate0 R opts plug).pendingOf x.seq = ((pstate0 R' opts plug').pendingOf x.seq).map (ren s.σ)) ∧
  (∀ x ∈ R.mods, (pstate0 R' opts plug').pending.any (·.1 == x.seq) = (pstate0 R opts plug).pending.any (·.1 == x.seq))

instance (s : Split) (R R' : Registry) (opts : Opts) (plug plug' : Plug) : Decidable (PendRel s R R' opts plug plug') := by
  unfold PendRel; infer_instance

/-- Every module of the unsplit set has a tree after conversion (decidable; holds of loaded sets, not proved here). -/
def AllConverted (R : Registry) (opts : Opts) (plug : Plug) : Prop :=
  ∀ x ∈ R.mods, ((forest0 R opts plug).tree? x.seq).isSome = true

instance (R : Registry) (opts : Opts) (plug : Plug) : Decidable (AllConverted R opts plug) := by
  unfold AllConverted; infer_instance

theorem pendingOf_mem_row (st : PState) (id : Nat) (a : Entry) (ha : a ∈ st.pendingOf id) :
    ∃ p ∈ st.pending, p.1 = id ∧ a ∈ p.2 := by
  unfold PState.pendingOf at ha
  cases hf : st.pending.find? (·.1 == id) with
  | none => rw [hf] at ha; cases ha
  | some q =>
    rw [hf] at ha
    exact ⟨q, List.mem_of_find?_eq_some hf, by simpa using List.find?_some hf, ha⟩

section
variable {s : Split} {R R' : Registry} {plug plug' : Plug} (h : IsSplitOf s R R' plug plug')
include h

/-- The two starting states of the augment stage are related. -/
theorem start_rel (opts : Opts) (h0' : NoIOStart R' opts plug') (h0 : NoIOStart R opts plug)
    (hall : AllConverted R opts plug) (hP : PendRel s R R' opts plug plug')
    (h1 : stage1Errs R plug = []) (h2 : forestErrs (forest0 R opts plug) = []) :
    SR s R (pstate0 R' opts plug') (pstate0 R opts plug) := by
  obtain ⟨hlink, _⟩ := stage1_split plug plug' h h1
  obtain ⟨c1, c2, c3, c4⟩ := conv_split opts plug plug' h hlink h2
  refine ⟨⟨?_, ?_, h0'.1, h0.1, ?_⟩, hP.1, hP.2, ?_, ?_⟩
  · intro x hx hxm
    have := hall x hx
    cases ht : (forest0 R opts plug).tree? x.seq with
    | none => rw [ht] at this; cases this
    | some t =>
      obtain ⟨t', a, b⟩ := c2 x hx hxm t ht
      show ((forest0 R' opts plug').tree? x.seq).map (ren s.σ) = (forest0 R opts plug).tree? x.seq
      rw [a, ht, ← b]; rfl
  · obtain ⟨t, ht⟩ := c3
    obtain ⟨t', a, b⟩ := c4 t ht
    refine ⟨t', t, a, ht, b, ?_⟩
    have hne : ForestAll NoErrors (forest0 R opts plug) := (forestErrs_eq_nil _).1 h2
    have hm := mem_of_tree? ht
    have := (Bridge.noDupNames_forest0 R opts plug).1 _ hm (hne _ hm)
    cases t with | mk d c i o =>
    exact ((Bridge.noDupNames_mk d c i o).1 this).1
  · intro p hp _
    exact (forestErrs_eq_nil _).1 c1 p hp
  · intro x hx a' ha'
    obtain ⟨p, hp, hp1, hpa⟩ := pendingOf_mem_row _ _ _ ha'
    refine ⟨?_, h0'.2 p hp a' hpa⟩
    obtain ⟨q, hq, hq1, hq2⟩ := Bridge.pendingOf_row R' opts plug' x.seq a' ha'
    obtain ⟨m, _, e1, _, e3, _⟩ := hq
    rw [hq2] at ha'
    rw [e3 a' ha', ← e1, hq1]
  · intro id hid
    rcases Bridge.pendingOf_pstate0 R' opts plug' id with h0 | ⟨p, hp, hp1, hp2⟩
    · exact h0
    · obtain ⟨m, hm, e1, e2, _, _⟩ := Bridge.tstate_rows R' opts plug' p hp
      rw [hp2]
      rw [IncludeLink.mods_split h.regs] at hm
      rcases List.mem_append.1 hm with hm | hm
      · obtain ⟨x, hx, rfl⟩ := List.mem_map.1 hm
        rw [IncludeLink.repl_seq h.regs] at e1
        exact absurd (e1.symm.trans hp1) (hid x hx)
      · have := (h.text.sub_no_aug m hm).1
        rw [this] at e2
        exact List.map_eq_nil_iff.1 e2

/-- **`LoopsRelatedCore` for split sets without rpc / action nodes**, from `PendRel` (piece (A)) — pieces (S) and (I)
are proved. -/
theorem loopsRelatedCore_norpc (opts : Opts) (hL : Fuel.LoadedShape R') (h0' : NoIOStart R' opts plug')
    (h0 : NoIOStart R opts plug) (hall : AllConverted R opts plug) (hP : PendRel s R R' opts plug plug')
    (hfuel : loopFuel R' opts plug' = loopFuel R opts plug)
    (hdev : ∀ x ∈ R.mods, x.stmt.all "deviation" = []) (hn : NoLeftover R opts plug)
    (hclean : (processAll R opts plug).errors = []) : LoopsRelatedCore s R R' opts plug plug' := by
  obtain ⟨a1, a2⟩ := IncludeNoAug.processAll_clean_stages R opts plug hclean
  have hS := start_rel h opts h0' h0 hall hP a1 a2
  obtain ⟨pe, _⟩ := processAll_noLeftover R opts plug hn hdev a1 a2
  rw [pe] at hclean
  have e0 := canonErrs_eq_nil _ hclean
  have hfa : ForestAll NoErrors (fixAll (afterLoop R opts plug).2).forest := (forestErrs_eq_nil _).1 e0
  have hNs : ForestAll NoErrors (afterLoop R opts plug).2.forest := by
    intro t ht
    have : (t.1, fixChoice t.2) ∈ (fixAll (afterLoop R opts plug).2).forest.trees := by
      unfold fixAll
      exact List.mem_map.2 ⟨t, ht, rfl⟩
    exact (noErrors_fixChoice _).1 (hfa _ this)
  exact loopsRelatedCore_of_start h opts hL hS hfuel ((forestErrs_eq_nil _).2 hNs) hn

end

/-! ### the loop fuel of the two runs -/

theorem fold_len (l : List Mod) (g : Nat → List Entry) (n : Nat) :
    (l.map fun m => (m.seq, g m.seq)).foldl (fun n (p : Nat × List Entry) => n + p.2.length) n =
      n + (l.map fun m => (g m.seq).length).sum := by
  induction l generalizing n with
  | nil => simp
  | cons m t ih =>
    simp only [List.map_cons, List.foldl_cons, List.sum_cons]
    rw [ih]; omega

theorem sum_zero (l : List Nat) (h : ∀ n ∈ l, n = 0) : l.sum = 0 := by
  induction l with
  | nil => rfl
  | cons a t ih =>
    rw [List.sum_cons, h a (List.mem_cons_self ..), ih (fun n hn => h n (List.mem_cons_of_mem _ hn))]

/-- The fuel of the augment loop is the number of pending augment entries of the (sub)modules held, plus two. -/
theorem loopFuel_eq (reg : Registry) (opts : Opts) (plug : Plug) :
    loopFuel reg opts plug = ((allMods reg).map fun m => ((pstate0 reg opts plug).pendingOf m.seq).length).sum + 2 := by
  have e0 : loopFuel reg opts plug =
      ((allMods reg).map fun m => (m.seq, LoadOrder.augsOf (tstate reg opts plug) m.seq)).foldl
        (fun n (p : Nat × List Entry) => n + p.2.length) 0 + 2 := by
    unfold loopFuel; rw [LoadOrder.pending0_eq]
  rw [e0, fold_len (allMods reg) (LoadOrder.augsOf (tstate reg opts plug)) 0, Nat.zero_add]
  refine congrArg (fun n => n + 2) ?_
  apply congrArg
  apply List.map_congr_left
  intro m hm
  rw [LoadOrder.pendingOf_pstate0]
  have : (allMods reg).any (·.seq == m.seq) = true := List.any_eq_true.2 ⟨m, hm, by simp⟩
  rw [this]; rfl

section
variable {s : Split} {R R' : Registry} {plug plug' : Plug} (h : IsSplitOf s R R' plug plug')
include h

/-- **Equal loop fuel** of the two runs, from the relation of the pending entries. -/
theorem loopFuel_split (opts : Opts)
    (hP : ∀ x ∈ R.mods, (pstate0 R opts plug).pendingOf x.seq = ((pstate0 R' opts plug').pendingOf x.seq).map (ren s.σ)) :
    loopFuel R' opts plug' = loopFuel R opts plug := by
  rw [loopFuel_eq, loopFuel_eq]
  refine congrArg (fun n => n + 2) ?_
  have hr := h.regs
  have eS : R.distinctSubs = [] := by
    unfold Registry.distinctSubs; rw [hr.subModules]; simp
  have e1 : allMods R = R.distinctModules := by unfold allMods; rw [eS, List.append_nil]
  have e2 : allMods R' = R.distinctModules.map (IncludeLink.repl s) ++ R'.distinctSubs := by
    unfold allMods; rw [IncludeLink.distinctModules_split hr]
  rw [e1, e2, List.map_append, List.sum_append, List.map_map]
  have z : (R'.distinctSubs.map fun m => ((pstate0 R' opts plug').pendingOf m.seq).length).sum = 0 := by
    apply sum_zero
    intro n hn
    obtain ⟨sb, hsb, rfl⟩ := List.mem_map.1 hn
    unfold Registry.distinctSubs at hsb
    rw [List.mem_filter, hr.subModules'] at hsb
    obtain ⟨hm, hany⟩ := hsb
    obtain ⟨kv, hkv, hk⟩ := List.any_eq_true.1 hany
    obtain ⟨sb0, hsb0, rfl⟩ := List.mem_map.1 hkv
    have hseq : sb0.seq = sb.seq := by simpa using hk
    rw [IncludeLink.mods_split hr] at hm
    have hsub : sb ∈ s.subs := by
      rcases List.mem_append.1 hm with hm | hm
      · obtain ⟨x, hx, rfl⟩ := List.mem_map.1 hm
        rw [IncludeLink.repl_seq hr] at hseq
        exact absurd hseq (hr.sub_seqs_fresh sb0 hsb0 x hx)
      · exact hm
    rw [pending_sub_nil opts plug plug' h hsub]; rfl
  rw [z, Nat.add_zero]
  apply congrArg
  apply List.map_congr_left
  intro x hx
  have hxm : x ∈ R.mods := by
    unfold Registry.distinctModules at hx
    exact (List.mem_filter.1 hx).1
  simp only [Function.comp, IncludeLink.repl_seq hr]
  rw [hP x hxm, List.length_map]

end
end Goyang.Lemmas.IncludeAugSim
