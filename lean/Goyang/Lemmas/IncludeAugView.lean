import Goyang.Lemmas.IncludeAugDump
import Goyang.Lemmas.AugmentTree
/-
C13 (third sentence), piece (E), second half: from C07's *flat view* (`Spec.Augment.viewOf`: data by
node names, rpc input / output always there) to the path view `PEq` of Lemmas/IncludeAugDump.lean.

The flat view alone does NOT determine the dump: it shows the input / output of an rpc whether or not
the entry exists (goyang creates it lazily, `Find` on the way to a target), the dump prints the record
only when it exists (`view_not_enough`).  With the same inputs / outputs created (`SameIO`) and the
shape every converted tree has (`IOShape`: an rpc / action node has no `Dir` child, any other node no
input / output) equal flat views give equal path views, hence (with `KeysUnique`) equal dumps.
-/
namespace Goyang.Lemmas.IncludeAugView
open Goyang.Model Goyang.Spec.Tree Goyang.Lemmas.Tree Goyang.Spec.Augment Goyang.Lemmas.IncludeAugDump
open Goyang.Lemmas.AugmentTree (dataAt dataAt_nil dataAt_cons kid_nonrpc kid_input kid_output)

/-- An rpc / action node has no `Dir` child; any other node has no rpc input / output. -/
def ioShapeHere (e : Entry) : Bool :=
  if e.d.isRpc then e.dir.isEmpty else e.inp.isEmpty && e.out.isEmpty

def IOShape (e : Entry) : Prop := everyNode ioShapeHere e = true

instance (e : Entry) : Decidable (IOShape e) := by unfold IOShape; infer_instance

/-- At every location of the flat view the two trees have created the same rpc input / output entries. -/
def SameIO (t t' : Entry) : Prop :=
  ∀ P x x', walk t P = some x → walk t' P = some x' → x.inp.isEmpty = x'.inp.isEmpty ∧ x.out.isEmpty = x'.out.isEmpty

/-- Same flat view below two nodes. -/
def VEq (t t' : Entry) : Prop := ∀ P, dataAt t P = dataAt t' P

theorem ioShape_mk {d : EData} {c i o : List Entry} (h : IOShape (.mk d c i o)) :
    (d.isRpc = true → c = []) ∧ (d.isRpc = false → i = [] ∧ o = []) ∧ (∀ x ∈ c, IOShape x) ∧ (∀ x ∈ i, IOShape x) ∧
      (∀ x ∈ o, IOShape x) := by
  unfold IOShape at h
  rw [everyNode_mk] at h
  obtain ⟨h0, h1, h2, h3⟩ := h
  refine ⟨fun hr => ?_, fun hr => ?_, h1, h2, h3⟩
  · simp only [ioShapeHere, Entry.d, hr, if_true, Entry.dir] at h0
    simpa using h0
  · simp only [ioShapeHere, Entry.d, hr, Entry.inp, Entry.out] at h0
    simpa using h0

theorem walk_cons (e : Entry) (k : String) (P : NPath) : walk e (k :: P) = (kid e k).bind fun c => walk c P := rfl

/-- **Equal flat views, the same inputs / outputs created, the shape of converted trees: equal path views.** -/
theorem peq_of_view : ∀ (p : Path) (t t' : Entry), VEq t t' → IOShape t → IOShape t' → SameIO t t' →
    dataP t p = dataP t' p
  | [], t, t', hv, _, _, _ => by
    have := hv []
    rw [dataAt_nil, dataAt_nil] at this
    rw [dataP_nil, dataP_nil, this]
  | s :: q, t, t', hv, hs, hs', hio => by
    have hd : nodeData t.d = nodeData t'.d := by
      have := hv []
      rw [dataAt_nil, dataAt_nil] at this
      exact Option.some.inj this
    have hrpc : t.d.isRpc = t'.d.isRpc := by
      have h0 : (nodeData t.d).isRpc = (nodeData t'.d).isRpc := by rw [hd]
      exact h0
    rw [dataP_cons, dataP_cons]
    -- the step to a related pair
    have step : ∀ (k : String) (x x' : Entry), kid t k = some x → kid t' k = some x' → IOShape x → IOShape x' →
        dataP x q = dataP x' q := by
      intro k x x' hk hk' hx hx'
      refine peq_of_view q x x' (fun P => ?_) hx hx' (fun P y y' hy hy' => ?_)
      · have := hv (k :: P)
        rw [dataAt_cons, dataAt_cons, hk, hk'] at this
        exact this
      · exact hio (k :: P) y y' (by rw [walk_cons, hk]; exact hy) (by rw [walk_cons, hk']; exact hy')
    cases t with | mk d c i o =>
    cases t' with | mk d' c' i' o' =>
    have S := ioShape_mk hs
    have S' := ioShape_mk hs'
    simp only [Entry.d] at hrpc
    cases hr : d.isRpc with
    | true =>
      have hr' : d'.isRpc = true := by rw [← hrpc]; exact hr
      have hc : c = [] := S.1 hr
      have hc' : c' = [] := S'.1 hr'
      subst hc hc'
      have hio0 := hio [] _ _ rfl rfl
      simp only [Entry.inp, Entry.out] at hio0
      cases s with
      | child k => rfl
      | input =>
        show (i.head?).bind _ = (i'.head?).bind _
        cases i with
        | nil =>
          cases i' with
          | nil => rfl
          | cons x' _ => simp at hio0
        | cons x xs =>
          cases i' with
          | nil => simp at hio0
          | cons x' xs' =>
            simp only [List.head?_cons, Option.bind_some]
            exact step "input" x x' (by rw [kid_input (by exact hr)]; rfl) (by rw [kid_input (by exact hr')]; rfl)
              (S.2.2.2.1 x (List.mem_cons_self ..)) (S'.2.2.2.1 x' (List.mem_cons_self ..))
      | output =>
        show (o.head?).bind _ = (o'.head?).bind _
        cases o with
        | nil =>
          cases o' with
          | nil => rfl
          | cons x' _ => simp at hio0
        | cons x xs =>
          cases o' with
          | nil => simp at hio0
          | cons x' xs' =>
            simp only [List.head?_cons, Option.bind_some]
            exact step "output" x x' (by rw [kid_output (by exact hr)]; rfl) (by rw [kid_output (by exact hr')]; rfl)
              (S.2.2.2.2 x (List.mem_cons_self ..)) (S'.2.2.2.2 x' (List.mem_cons_self ..))
    | false =>
      have hr' : d'.isRpc = false := by rw [← hrpc]; exact hr
      obtain ⟨hi, ho⟩ := S.2.1 hr
      obtain ⟨hi', ho'⟩ := S'.2.1 hr'
      subst hi ho hi' ho'
      cases s with
      | input => rfl
      | output => rfl
      | child k =>
        show ((Entry.mk d c [] []).child? k).bind _ = ((Entry.mk d' c' [] []).child? k).bind _
        have h1 := hv [k]
        rw [dataAt_cons, dataAt_cons, kid_nonrpc (by exact hr), kid_nonrpc (by exact hr')] at h1
        cases hk : (Entry.mk d c [] []).child? k with
        | none =>
          cases hk' : (Entry.mk d' c' [] []).child? k with
          | none => rfl
          | some x' => rw [hk, hk'] at h1; simp [dataAt_nil] at h1
        | some x =>
          cases hk' : (Entry.mk d' c' [] []).child? k with
          | none => rw [hk, hk'] at h1; simp [dataAt_nil] at h1
          | some x' =>
            simp only [Option.bind_some]
            exact step k x x' (by rw [kid_nonrpc (by exact hr)]; exact hk) (by rw [kid_nonrpc (by exact hr')]; exact hk')
              (S.2.2.1 x (IncludeAugDump.child?_mem hk)) (S'.2.2.1 x' (IncludeAugDump.child?_mem hk'))

theorem peq_of_veq {t t' : Entry} (hv : VEq t t') (hs : IOShape t) (hs' : IOShape t') (hio : SameIO t t') : PEq t t' :=
  fun p => peq_of_view p t t' hv hs hs' hio

/-- The flat view of a forest at the locations of one tree. -/
theorem viewOf_tree {f : Forest} {id : Nat} {t : Entry} (ht : f.tree? id = some t) (P : NPath) (d : EData) :
    viewOf f (id, P) d ↔ dataAt t P = some d := by
  unfold viewOf nodeAt dataAt
  simp only [ht, Option.bind_some]
  constructor
  · rintro ⟨e, he, rfl⟩; rw [he]; rfl
  · intro h
    cases hw : walk t P with
    | none => rw [hw] at h; cases h
    | some e => rw [hw] at h; exact ⟨e, rfl, Option.some.inj h⟩

theorem veq_of_viewOf {f f' : Forest} {id : Nat} {t t' : Entry} (ht : f.tree? id = some t) (ht' : f'.tree? id = some t')
    (h : ∀ P d, viewOf f (id, P) d ↔ viewOf f' (id, P) d) : VEq t t' := by
  intro P
  apply Option.ext
  intro d
  rw [← viewOf_tree ht, ← viewOf_tree ht']
  exact h P d

/-- **The canonical dump of a tree as a function of the flat view**: two forests over one registry that
show the same flat view at the locations of tree `id`, with the same rpc inputs / outputs created, both
trees of the shape conversion produces and with `KeysUnique`: the same dump. -/
theorem dumpTree_of_view (reg : Registry) {f f' : Forest} {id : Nat} {t t' : Entry} (ht : f.tree? id = some t)
    (ht' : f'.tree? id = some t') (h : ∀ P d, viewOf f' (id, P) d ↔ viewOf f (id, P) d)
    (hs' : IOShape t') (hs : IOShape t) (hio : SameIO t' t) (hk' : KeysUnique t') (hk : KeysUnique t) (nm : String) :
    dumpTree reg f' nm t' id (entryDepth t' + 1) [] t' = dumpTree reg f nm t id (entryDepth t + 1) [] t :=
  dumpTree_root_peq reg ht ht' (peq_of_veq (veq_of_viewOf ht' ht h) hs' hs hio) hk' hk nm

/-- An rpc entry without input, and the same entry after `Find` has created the input. -/
def rpc0 : Entry := .mk { name := "r", hasDir := true, isRpc := true } [] [] []
def rpc1 : Entry := .mk { name := "r", hasDir := true, isRpc := true } [] [implicitIO rpc0 true] []

theorem kid_rpc01 (k : String) : kid rpc0 k = kid rpc1 k := by
  unfold kid
  by_cases h : (k == "input") = true
  · simp [rpc0, rpc1, h]
  · simp [rpc0, rpc1, h]; rfl

/-- **The flat view is not enough**: the two entries show the same flat view (and have `KeysUnique`,
`IOShape`), their dumps differ (one record against two). -/
theorem view_not_enough :
    VEq rpc0 rpc1 ∧ KeysUnique rpc0 ∧ KeysUnique rpc1 ∧ IOShape rpc0 ∧ IOShape rpc1 ∧
    ∀ (reg : Registry) (f f' : Forest) (nm : String),
      dumpTree reg f nm rpc0 0 (entryDepth rpc0 + 1) [] rpc0 ≠ dumpTree reg f' nm rpc1 0 (entryDepth rpc1 + 1) [] rpc1 := by
  refine ⟨?_, by decide, by decide, by decide, by decide, ?_⟩
  · intro P
    cases P with
    | nil => rfl
    | cons k P => rw [dataAt_cons, dataAt_cons, kid_rpc01]
  · intro reg f f' nm h
    have := congrArg List.length h
    revert this
    simp [dumpTree, entryDepth, entryDepth.depthL, rpc0, rpc1, sortBy, implicitIO]

/-! ### `SameIO` for trees without rpc / action nodes -/

def noRpcHere (e : Entry) : Bool := !e.d.isRpc

/-- No rpc / action node anywhere in the tree. -/
def NoRpc (e : Entry) : Prop := everyNode noRpcHere e = true

instance (e : Entry) : Decidable (NoRpc e) := by unfold NoRpc; infer_instance

theorem noRpc_mk {d : EData} {c i o : List Entry} (h : NoRpc (.mk d c i o)) : d.isRpc = false ∧ ∀ x ∈ c, NoRpc x := by
  unfold NoRpc at h
  rw [everyNode_mk] at h
  refine ⟨?_, h.2.1⟩
  have := h.1
  simpa [noRpcHere, Entry.d] using this

theorem walk_noRpc : ∀ (P : NPath) (t x : Entry), NoRpc t → IOShape t → walk t P = some x → NoRpc x ∧ IOShape x
  | [], t, x, h1, h2, hw => by
    have : t = x := Option.some.inj hw
    subst this
    exact ⟨h1, h2⟩
  | k :: P, t, x, h1, h2, hw => by
    cases t with | mk d c i o =>
    have hr := (noRpc_mk h1).1
    rw [walk_cons, kid_nonrpc (by exact hr)] at hw
    cases hc : (Entry.mk d c i o).child? k with
    | none => rw [hc] at hw; cases hw
    | some y =>
      rw [hc] at hw
      have hm : y ∈ c := IncludeAugDump.child?_mem hc
      exact walk_noRpc P y x ((noRpc_mk h1).2 y hm) ((ioShape_mk h2).2.2.1 y hm) hw

/-- Trees without rpc / action nodes (of the shape conversion produces) have no input / output entry at all. -/
theorem sameIO_of_noRpc {t t' : Entry} (h1 : NoRpc t) (h2 : IOShape t) (h1' : NoRpc t') (h2' : IOShape t') : SameIO t t' := by
  intro P x x' hx hx'
  obtain ⟨a, b⟩ := walk_noRpc P t x h1 h2 hx
  obtain ⟨a', b'⟩ := walk_noRpc P t' x' h1' h2' hx'
  cases x with | mk d c i o =>
  cases x' with | mk d' c' i' o' =>
  obtain ⟨e1, e2⟩ := (ioShape_mk b).2.1 (noRpc_mk a).1
  obtain ⟨e1', e2'⟩ := (ioShape_mk b').2.1 (noRpc_mk a').1
  subst e1 e2 e1' e2'
  exact ⟨rfl, rfl⟩

end Goyang.Lemmas.IncludeAugView
