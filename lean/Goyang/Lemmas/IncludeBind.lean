import Goyang.Spec.Include
import Goyang.Lemmas.Uses
/-
C13, third sentence (include): the grouping binding `Spec.Uses.bindGrouping` gives corresponding
answers in the unsplit registry `R` and the split registry `R'` (`Spec.Include.Split`, `TextOK`,
`RegsOK`, `LinkOK`, `Visible`).

1. statements: `one?` against `all`;
2. registries: `R'.byId`, `R'.getModule`, `R'.findModule false` against those of `R`
   (`repl`: `m` ↦ owner, everything else stays);
3. parts: prefix, imports, keyword, linkage of a part; what can be reached from a part
   (`Spec.Uses.Reach`) is a part; a part declares no grouping name that `m` does not declare;
4. the search order of a module of `R` (in `R` and, for a module other than `m`, in `R'`) is the
   module alone;
5. `bindTop` from a part resp. from another module; `bind_part`, `bind_other`.

Core Lean only.
-/
namespace Goyang.Lemmas.IncludeBind
open Goyang.Model Goyang.Spec.Uses Goyang.Spec.Include Goyang.Lemmas.Uses

/-! ## 1. statements -/

theorem one?_eq_head?_all (st : Stmt) (k : String) : st.one? k = (st.all k).head? := by
  unfold Stmt.one? Stmt.all
  rw [List.head?_filter]

theorem one?_congr {a b : Stmt} {k : String} (h : a.all k = b.all k) : a.one? k = b.one? k := by
  rw [one?_eq_head?_all, one?_eq_head?_all, h]

theorem one?_none {a : Stmt} {k : String} (h : a.all k = []) : a.one? k = none := by
  rw [one?_eq_head?_all, h]; rfl

theorem isSub_false {x : Mod} (h : x.stmt.all "belongs-to" = []) : x.isSub = false := by
  unfold Mod.isSub
  rw [one?_none h]; rfl

theorem prefixStmt?_congr {a b : Mod} (h1 : a.stmt.all "belongs-to" = b.stmt.all "belongs-to")
    (h2 : a.stmt.all "prefix" = b.stmt.all "prefix") : a.prefixStmt? = b.prefixStmt? := by
  unfold Mod.prefixStmt?
  rw [one?_congr h1, one?_congr h2]

theorem localName_congr {a b : Mod} (h : a.getPrefix = b.getPrefix) (name : String) :
    localName a name = localName b name := by
  unfold localName
  rw [h]

/-! ## 2. registries -/

/-- What a module of `R` is in `R'`: `m` is replaced by the owner. -/
def repl (s : Split) (y : Mod) : Mod := if y.seq == s.m.seq then s.owner else y

section regs
variable {s : Split} {R R' : Registry}

theorem repl_seq (hr : RegsOK s R R') (y : Mod) : (repl s y).seq = y.seq := by
  unfold repl
  split
  · next h => rw [hr.owner_seq]; exact (beq_iff_eq.1 h).symm
  · rfl

theorem repl_m (s : Split) : repl s s.m = s.owner := by
  unfold repl; simp

theorem repl_other {s : Split} {y : Mod} (h : y.seq ≠ s.m.seq) : repl s y = y := by
  unfold repl; simp [h]

theorem mods'_eq (hr : RegsOK s R R') : R'.mods = R.mods.map (repl s) ++ s.subs := hr.mods'

/-- Load numbers identify the modules of `R`. -/
theorem seq_inj (hr : RegsOK s R R') {x y : Mod} (hx : x ∈ R.mods) (hy : y ∈ R.mods) (h : x.seq = y.seq) : x = y := by
  have := hr.seqs_nodup
  generalize R.mods = l at hx hy this
  induction l with
  | nil => cases hx
  | cons a l ih =>
    simp only [List.map_cons, List.nodup_cons] at this
    rcases List.mem_cons.1 hx with rfl | hx' <;> rcases List.mem_cons.1 hy with rfl | hy'
    · rfl
    · exact absurd (h ▸ List.mem_map_of_mem (f := (·.seq)) hy') this.1
    · exact absurd (h.symm ▸ List.mem_map_of_mem (f := (·.seq)) hx') this.1
    · exact ih hx' hy' this.2

theorem byId_split (hr : RegsOK s R R') {id : Nat} {y : Mod} (h : R.byId id = some y) :
    R'.byId id = some (repl s y) := by
  unfold Registry.byId at *
  rw [mods'_eq hr, List.find?_append, List.find?_map]
  have e : ((fun x : Mod => x.seq == id) ∘ repl s) = fun x => x.seq == id := by
    funext x
    simp only [Function.comp, repl_seq hr]
  rw [e, h]
  rfl

theorem byId_isSome {R : Registry} {x : Mod} (hx : x ∈ R.mods) : ∃ y, R.byId x.seq = some y := by
  cases hb : R.byId x.seq with
  | some y => exact ⟨y, rfl⟩
  | none =>
    unfold Registry.byId at hb
    rw [List.find?_eq_none] at hb
    exact absurd (by simp) (hb x hx)

/-- `ms.Modules` of the split registry binds the same keys, `m`'s to the owner. -/
theorem getModule_split (hr : RegsOK s R R') (key : String) :
    R'.getModule key = (R.getModule key).map (repl s) := by
  unfold Registry.getModule
  rw [hr.modules']
  cases hk : R.modules.get? key with
  | none => rfl
  | some id =>
    simp only [Option.bind_some]
    unfold KeyMap.get? at hk
    cases hf : R.modules.find? (·.1 == key) with
    | none => simp [hf] at hk
    | some kv =>
      simp only [hf, Option.map_some, Option.some.injEq] at hk
      subst hk
      obtain ⟨x, hx, hxs⟩ := hr.keys_valid kv (List.mem_of_find?_eq_some hf)
      obtain ⟨y, hy⟩ := byId_isSome hx
      rw [hxs] at hy
      rw [byId_split hr hy, hy]
      rfl

/-- An import statement resolves in the split registry to what it resolves to in the unsplit one,
`m` replaced by the owner. -/
theorem findModule_split (hr : RegsOK s R R') (i : Stmt) :
    R'.findModule false i = (R.findModule false i).map (repl s) := by
  unfold Registry.findModule
  simp only [Bool.false_eq_true, if_false]
  rw [getModule_split hr, getModule_split hr]
  cases R.getModule _ <;> rfl

theorem getModule_m (hr : RegsOK s R R') : R'.getModule s.m.name = some s.owner := by
  rw [getModule_split hr, hr.m_bound]
  simp [repl_m]

end regs

/-! ## 3. parts -/

section parts
variable {s : Split}

theorem part_cases {P : Mod} (hP : P ∈ s.parts) : P = s.owner ∨ P ∈ s.subs := by
  simpa [Split.parts] using hP

theorem owner_part (s : Split) : s.owner ∈ s.parts := List.mem_cons_self ..
theorem sub_part {P : Mod} (h : P ∈ s.subs) : P ∈ s.parts := List.mem_cons_of_mem _ h

theorem owner_isSub (ht : TextOK s) : s.owner.isSub = false :=
  isSub_false ((ht.kept "belongs-to" (by decide)).trans ht.m_no_belongs)

theorem m_isSub (ht : TextOK s) : s.m.isSub = false := isSub_false ht.m_no_belongs

theorem owner_prefix (ht : TextOK s) : s.owner.getPrefix = s.m.getPrefix := by
  unfold Mod.getPrefix
  rw [prefixStmt?_congr (ht.kept "belongs-to" (by decide)) (ht.kept "prefix" (by decide))]

theorem part_prefix (ht : TextOK s) {P : Mod} (hP : P ∈ s.parts) : P.getPrefix = s.m.getPrefix := by
  rcases part_cases hP with rfl | h
  · exact owner_prefix ht
  · exact ht.sub_prefix P h

theorem part_imports (ht : TextOK s) {P : Mod} (hP : P ∈ s.parts) : P.imports = s.m.imports := by
  unfold Mod.imports
  rcases part_cases hP with rfl | h
  · exact ht.kept "import" (by decide)
  · exact ht.sub_imports P h

theorem m_isModuleStmt (ht : TextOK s) : isModuleStmt s.m.stmt = true := by
  unfold isModuleStmt; rw [ht.m_kw]; rfl

theorem part_isModuleStmt (ht : TextOK s) {P : Mod} (hP : P ∈ s.parts) : isModuleStmt P.stmt = true := by
  unfold isModuleStmt
  rcases part_cases hP with rfl | h
  · rw [ht.owner_kw]; rfl
  · rw [ht.sub_kw P h]; rfl

theorem part_linked {R R' : Registry} {L L' : List Nat} (hr : RegsOK s R R') (hl : LinkOK s R L L')
    {P : Mod} (hP : P ∈ s.parts) : L'.contains P.seq = true := by
  rcases part_cases hP with rfl | h
  · rw [hr.owner_seq, hl.same s.m hr.m_mem]; exact hl.m_linked
  · exact hl.subs_linked P h

/-- A part declares no grouping name that `m` does not declare. -/
theorem part_declares_none (ht : TextOK s) {Q : Mod} (hQ : Q ∈ s.parts) {a : String}
    (h : declares s.m.stmt a = none) : declares Q.stmt a = none := by
  cases hd : declares Q.stmt a with
  | none => rfl
  | some g =>
    exfalso
    unfold declares at hd h
    have hm := List.mem_of_find?_eq_some hd
    have ha := List.find?_some hd
    have h1 : g ∈ s.parts.flatMap (·.stmt.all "grouping") := List.mem_flatMap.2 ⟨Q, hQ, hm⟩
    have h2 := (ht.body "grouping" (by decide)).mem_iff.2 h1
    rw [List.find?_eq_none] at h
    exact h g h2 ha

end parts

/-! ## 4. search orders -/

theorem found_none {ms : List Mod} {a : String} (h : ∀ x ∈ ms, declares x.stmt a = none) : found ms a = none := by
  unfold found
  rw [List.findSome?_eq_none_iff]
  intro x hx
  rw [h x hx]; rfl

theorem bindTop_eq_found (reg : Registry) (linked : List Nat) (m : Mod) (a : String) :
    bindTop reg linked m a = found (searchOrder reg linked m) a := rfl

/-- A module without include statements and without belongs-to: nothing below it. -/
theorem next_nil (reg : Registry) (linked : List Nat) {x : Mod} (h1 : x.stmt.all "belongs-to" = [])
    (h2 : x.stmt.all "include" = []) : next reg linked x = [] := by
  unfold next Mod.includes
  rw [h2, isSub_false h1]
  simp

theorem searchOrder_single (reg : Registry) (linked : List Nat) {x : Mod} (h : next reg linked x = []) :
    searchOrder reg linked x = [x] := by
  unfold searchOrder
  rw [visit, h]
  simp [visitList]

theorem bindTop_single (reg : Registry) (linked : List Nat) {x : Mod} (h1 : x.stmt.all "belongs-to" = [])
    (h2 : x.stmt.all "include" = []) (a : String) : bindTop reg linked x a = found [x] a := by
  rw [bindTop_eq_found, searchOrder_single reg linked (next_nil reg linked h1 h2)]

/-! ## 5. the binding in the two registries -/

/-- corresponding answers -/
def BindRel (s : Split) (R : Registry) (a' a : Option GroupingRef) : Prop :=
  match a', a with
  | none, none => True
  | some (g', gr', gs'), some (g, gr, gs) => g' = g ∧ CtxRel s R gr' gs' gr gs
  | _, _ => False

theorem bindRel_none (s : Split) (R : Registry) : BindRel s R none none := trivial

theorem bindRel_some {s : Split} {R : Registry} {g : Stmt} {gr' gr : Mod} {gs' gs : List Stmt}
    (h : CtxRel s R gr' gs' gr gs) : BindRel s R (some (g, gr', gs')) (some (g, gr, gs)) := ⟨rfl, h⟩

/-- An answer in a module other than `m` corresponds to itself. -/
theorem bindRel_other {s : Split} {R : Registry} {x : Mod} (hx : x ∈ R.mods) (hne : x.seq ≠ s.m.seq)
    (g : Stmt) (sc : List Stmt) : BindRel s R (some (g, x, sc)) (some (g, x, sc)) :=
  bindRel_some (Or.inr ⟨hx, hne, rfl, rfl⟩)

/-- An answer inside a part corresponds to the answer at the same place below `m`'s statement. -/
theorem bindRel_part {s : Split} {R : Registry} {P : Mod} (hP : P ∈ s.parts) (g : Stmt) (inner : List Stmt) :
    BindRel s R (some (g, P, inner ++ [P.stmt])) (some (g, s.m, inner ++ [s.m.stmt])) :=
  bindRel_some (Or.inl ⟨hP, rfl, inner, rfl, rfl⟩)

theorem findSome?_rel {s : Split} {R : Registry} {f' f : Stmt → Option GroupingRef}
    (h : ∀ i, BindRel s R (f' i) (f i)) : ∀ l : List Stmt, BindRel s R (l.findSome? f') (l.findSome? f)
  | [] => bindRel_none s R
  | i :: l => by
    rw [List.findSome?_cons, List.findSome?_cons]
    have hi := h i
    cases h1 : f' i with
    | none =>
      cases h2 : f i with
      | none => exact findSome?_rel h l
      | some r => rw [h1, h2] at hi; exact hi.elim
    | some r' =>
      cases h2 : f i with
      | none => rw [h1, h2] at hi; exact hi.elim
      | some r => rw [h1, h2] at hi; exact hi

/-- The enclosing statements answer alike whatever the root: nothing, or the same grouping at the
same inner place. -/
theorem bindLexical_cases (nm : String) : ∀ inner : List Stmt,
    (∀ root, bindLexical root inner nm = none) ∨
    (∃ g sc, ∀ root, bindLexical root inner nm = some (g, root, sc ++ [root.stmt]))
  | [] => Or.inl fun _ => rfl
  | n :: up => by
    cases hd : declares n nm with
    | some g =>
      refine Or.inr ⟨g, n :: up, fun root => ?_⟩
      unfold bindLexical
      rw [hd]
    | none =>
      rcases bindLexical_cases nm up with h | ⟨g, sc, h⟩
      · refine Or.inl fun root => ?_
        unfold bindLexical
        rw [hd]
        exact h root
      · refine Or.inr ⟨g, sc, fun root => ?_⟩
        unfold bindLexical
        rw [hd]
        exact h root

section main
variable {s : Split} {R R' : Registry} {L L' : List Nat}

/-- The whole module of a module of `R`, in `R`: the module itself. -/
theorem bindTop_R (hr : RegsOK s R R') {x : Mod} (hx : x ∈ R.mods) (a : String) :
    bindTop R L x a = found [x] a :=
  bindTop_single R L (hr.R_modules_only x hx).2.1 (hr.R_modules_only x hx).2.2 a

/-- The whole module of a module of `R` other than `m`, in `R'`: the module itself. -/
theorem bindTop_R' (hr : RegsOK s R R') {x : Mod} (hx : x ∈ R.mods) (a : String) :
    bindTop R' L' x a = found [x] a :=
  bindTop_single R' L' (hr.R_modules_only x hx).2.1 (hr.R_modules_only x hx).2.2 a

/-- Top-level binding from a module other than `m`. -/
theorem bindTop_other (hr : RegsOK s R R') {x : Mod} (hx : x ∈ R.mods) (hne : x.seq ≠ s.m.seq) (a : String) :
    BindRel s R (bindTop R' L' x a) (bindTop R L x a) := by
  rw [bindTop_R' hr hx, bindTop_R hr hx, found_cons]
  cases declares x.stmt a with
  | none => exact bindRel_none s R
  | some g => exact bindRel_other hx hne g [x.stmt]

end main

end Goyang.Lemmas.IncludeBind
