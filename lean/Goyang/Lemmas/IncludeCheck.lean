import Goyang.Spec.Include
/-
Executable checkers for the three registry conditions of `Spec/Include.lean` (`PosWF`, `RefsWF`,
`LookupFuelOK`) with soundness theorems.  The conditions quantify over all chains (a statement with
its ancestors) of the loaded modules; `chainsOf` enumerates them, `chain_mem` shows that the
enumeration is complete.  The checkers are plain structural recursions over lists, so they
evaluate in the kernel (`by decide +kernel`) on concrete registries; no equality test on statements
is needed (`Stmt` has no `DecidableEq`).  Core Lean only.
-/
namespace Goyang.Lemmas.IncludeCheck
open Goyang.Model Goyang.Spec.Include Goyang.Spec.Uses

/-! ### enumeration of the chains of a statement -/

/-- The chains of the subtree `n` written below the ancestors `anc` (nearest first): `n :: anc`,
then the chains of the substatements of `n` below `n :: anc`. -/
def below (anc : List Stmt) : Stmt → List (List Stmt)
  | .mk kw ha arg file line col subs =>
    (.mk kw ha arg file line col subs :: anc) :: belowL (.mk kw ha arg file line col subs :: anc) subs
where belowL (anc : List Stmt) : List Stmt → List (List Stmt)
  | [] => []
  | s :: ss => below anc s ++ belowL anc ss

/-- Every chain of `top`: every statement of the tree with its ancestors, nearest first. -/
def chainsOf (top : Stmt) : List (List Stmt) := below [] top

theorem below_eq (anc : List Stmt) (n : Stmt) : below anc n = (n :: anc) :: below.belowL (n :: anc) n.subs := by
  cases n; simp only [below, Stmt.subs]

theorem self_mem_below (anc : List Stmt) (n : Stmt) : n :: anc ∈ below anc n := by
  rw [below_eq]; exact List.mem_cons_self

theorem belowL_mem {anc : List Stmt} {c : Stmt} {l : List Stmt} {x : List Stmt} (hc : c ∈ l) (hx : x ∈ below anc c) :
    x ∈ below.belowL anc l := by
  induction l with
  | nil => cases hc
  | cons y ys ih =>
    simp only [below.belowL, List.mem_append]
    cases hc with
    | head => exact .inl hx
    | tail _ h => exact .inr (ih h)

theorem mem_belowL {anc : List Stmt} {l : List Stmt} {x : List Stmt} (hx : x ∈ below.belowL anc l) :
    ∃ c ∈ l, x ∈ below anc c := by
  induction l with
  | nil => simp only [below.belowL] at hx; cases hx
  | cons y ys ih =>
    simp only [below.belowL, List.mem_append] at hx
    cases hx with
    | inl h => exact ⟨y, List.mem_cons_self, h⟩
    | inr h =>
      obtain ⟨c, hc, hx⟩ := ih h
      exact ⟨c, List.mem_cons_of_mem _ hc, hx⟩

theorem sizeOf_child_lt {c n : Stmt} (h : c ∈ n.subs) : sizeOf c < sizeOf n := by
  cases n with
  | mk kw ha arg file line col subs =>
    have := List.sizeOf_lt_of_mem h
    simp only [Stmt.subs] at this
    simp only [Stmt.mk.sizeOf_spec]; omega

/-- The enumeration is closed under going down one step. -/
theorem below_step (k : Nat) : ∀ (top : Stmt) (anc : List Stmt) (c p : Stmt) (rest : List Stmt), sizeOf top ≤ k →
    c ∈ p.subs → p :: rest ∈ below anc top → c :: p :: rest ∈ below anc top := by
  induction k with
  | zero =>
    intro top anc c p rest hk
    cases top; simp only [Stmt.mk.sizeOf_spec] at hk; omega
  | succ k ih =>
    intro top anc c p rest hk hc hp
    rw [below_eq] at hp ⊢
    cases hp with
    | head =>
      exact List.mem_cons_of_mem _ (belowL_mem hc (self_mem_below _ _))
    | tail _ hp =>
      obtain ⟨s, hs, hp⟩ := mem_belowL hp
      have hlt := sizeOf_child_lt hs
      exact List.mem_cons_of_mem _ (belowL_mem hs (ih s _ c p rest (by omega) hc hp))

/-- **Completeness of the enumeration.** -/
theorem chain_mem {top : Stmt} : ∀ {l : List Stmt}, Chain top l → l ∈ chainsOf top
  | [], h => h.elim
  | [x], h => by
    simp only [Chain] at h
    subst h; exact self_mem_below [] x
  | c :: p :: rest, h => by
    simp only [Chain] at h
    exact below_step _ top [] c p rest (Nat.le_refl _) h.1 (chain_mem h.2)

/-! ### a duplicate-free list of keys makes the key function injective -/

def nodupB : List NodeId → Bool
  | [] => true
  | x :: xs => !xs.contains x && nodupB xs

theorem inj_of_nodupB {α} (f : α → NodeId) : ∀ (L : List α), nodupB (L.map f) = true →
    ∀ a ∈ L, ∀ b ∈ L, f a = f b → a = b
  | [], _, _, ha, _, _, _ => by cases ha
  | x :: xs, h, a, ha, b, hb, hab => by
    simp only [List.map_cons, nodupB, Bool.and_eq_true, Bool.not_eq_eq_eq_not, Bool.not_true,
      List.contains_eq_mem, decide_eq_false_iff_not, List.mem_map, not_exists, not_and] at h
    cases ha with
    | head =>
      cases hb with
      | head => rfl
      | tail _ hb => exact absurd hab.symm (h.1 b hb)
    | tail _ ha =>
      cases hb with
      | head => exact absurd hab (h.1 a ha)
      | tail _ hb => exact inj_of_nodupB f xs h.2 a ha b hb hab

/-! ### `PosWF` -/

def headTracked : List Stmt → Bool
  | [] => false
  | n :: _ => isTrackedStmt n

def keyOf (p : Mod × List Stmt) : NodeId :=
  match p.2 with
  | [] => (p.1.seq, 0, 0)
  | n :: _ => nodeId p.1 n

/-- The tracked statements of the loaded modules, each with its module and its ancestors. -/
def trackedPlaces (R : Registry) : List (Mod × List Stmt) :=
  R.mods.flatMap fun r => ((chainsOf r.stmt).filter headTracked).map fun l => (r, l)

/-- No two tracked statements of the loaded modules have the same module number, line and column. -/
def posCheck (R : Registry) : Bool := nodupB ((trackedPlaces R).map keyOf)

theorem mem_trackedPlaces {R : Registry} {r : Mod} {n : Stmt} {sc : List Stmt} (hr : r ∈ R.mods)
    (hc : Chain r.stmt (n :: sc)) (ht : isTrackedStmt n = true) : (r, n :: sc) ∈ trackedPlaces R := by
  simp only [trackedPlaces, List.mem_flatMap, List.mem_map, List.mem_filter]
  exact ⟨r, hr, n :: sc, ⟨chain_mem hc, ht⟩, rfl⟩

theorem posWF_of_check (R : Registry) (h : posCheck R = true) : PosWF R := by
  intro r₁ hr₁ r₂ hr₂ n₁ n₂ sc₁ sc₂ hc₁ hc₂ ht₁ ht₂ hid
  have := inj_of_nodupB keyOf (trackedPlaces R) h _ (mem_trackedPlaces hr₁ hc₁ ht₁) _ (mem_trackedPlaces hr₂ hc₂ ht₂) hid
  injection this with h1 h2
  injection h2 with h2 h3
  exact ⟨h1, h2, h3⟩

/-! ### `RefsWF` -/

/-- The condition of `RefsWF` for the statement `u` below the ancestors `rest` (the last of them
the (sub)module statement). -/
def refOK (r : Mod) (u : Stmt) (rest : List Stmt) : Bool :=
  rest.dropLast.all (fun x => !isModuleStmt x) &&
  (u.kw != "uses" || isBare (localName r u.arg) ||
    (rest.all (fun x => (declares x (localName r u.arg)).isNone) && decide ((importsFor r (localName r u.arg)).length ≤ 1)))

def chainRefOK (r : Mod) : List Stmt → Bool
  | [] => true
  | u :: rest => rest.isEmpty || refOK r u rest

def refsCheck (R : Registry) : Bool :=
  R.mods.all fun r => (chainsOf r.stmt).all (chainRefOK r)

theorem refsWF_of_check (R : Registry) (h : refsCheck R = true) : RefsWF R := by
  intro r hr u inner hc
  simp only [refsCheck, List.all_eq_true] at h
  have h := h r hr _ (chain_mem hc)
  have hne : (inner ++ [r.stmt]).isEmpty = false := by cases inner <;> rfl
  simp only [List.cons_append, chainRefOK, hne, Bool.false_or, refOK, List.dropLast_concat, Bool.and_eq_true, List.all_eq_true,
    Bool.not_eq_eq_eq_not, Bool.not_true, Bool.or_eq_true, bne_iff_ne, ne_eq, decide_eq_true_eq,
    Option.isNone_iff_eq_none] at h
  refine ⟨h.1, fun hk => ?_⟩
  rcases h.2 with (h2 | h2) | h2
  · exact absurd hk h2
  · exact .inl h2
  · exact .inr h2

/-! ### `LookupFuelOK` -/

def chainFuelOK (R : Registry) (r : Mod) (l : List Stmt) : Bool :=
  decide (l.length < 2) ||
  decide (l.length - 1 + (R.mods.length + 2) * (maxSubs (r.stmt :: R.mods.map (·.stmt)) + 3) ≤ 2 * lookupSlack R + 16)

def fuelCheck (R : Registry) : Bool :=
  R.mods.all fun r => (chainsOf r.stmt).all (chainFuelOK R r)

theorem lookupFuelOK_of_check (R : Registry) (h : fuelCheck R = true) : LookupFuelOK R := by
  intro r hr u inner hc
  simp only [fuelCheck, List.all_eq_true] at h
  have h := h r hr _ (chain_mem hc)
  simp only [List.cons_append, chainFuelOK, List.length_cons, List.length_append, List.length_nil, Bool.or_eq_true,
    decide_eq_true_eq] at h
  rcases h with h | h
  · omega
  · omega

/-! ### the checkers evaluate in the kernel -/

namespace Ex
def st (file kw arg : String) (l c : Nat) (subs : List Stmt) : Stmt := .mk kw true arg file l c subs

/-
module m { prefix p; namespace "urn:m"; import x { prefix q; }
  grouping g { leaf a { type string; } }
  container c1 { uses g; }  container c2 { uses p:g; }
  container c3 { grouping h { leaf b { type string; } } container d { uses h; uses q:xg; } } }
module x { prefix x; namespace "urn:x"; import m { prefix pm; }
  grouping xg { leaf xa { type string; } }  container cx { uses pm:g; } }
-/
def ty (f n : String) : Stmt := st f "type" n 0 0 []
def gS : Stmt := st "m" "grouping" "g" 2 3 [st "m" "leaf" "a" 2 14 [ty "m" "string"]]
def c1 : Stmt := st "m" "container" "c1" 3 3 [st "m" "uses" "g" 3 18 []]
def c2 : Stmt := st "m" "container" "c2" 3 29 [st "m" "uses" "p:g" 3 44 []]
def hS : Stmt := st "m" "grouping" "h" 4 18 [st "m" "leaf" "b" 4 29 [ty "m" "string"]]
def dS : Stmt := st "m" "container" "d" 4 55 [st "m" "uses" "h" 4 69 [], st "m" "uses" "q:xg" 4 77 []]
def c3 : Stmt := st "m" "container" "c3" 4 3 [hS, dS]
def impX : Stmt := st "m" "import" "x" 1 41 [st "m" "prefix" "q" 1 52 []]
def mS : Stmt := st "m" "module" "m" 1 1
  [st "m" "prefix" "p" 1 12 [], st "m" "namespace" "urn:m" 1 22 [], impX, gS, c1, c2, c3]
def xgS : Stmt := st "x" "grouping" "xg" 2 3 [st "x" "leaf" "xa" 2 15 [ty "x" "string"]]
def cx : Stmt := st "x" "container" "cx" 2 45 [st "x" "uses" "pm:g" 2 60 []]
def impM : Stmt := st "x" "import" "m" 1 41 [st "x" "prefix" "pm" 1 52 []]
def xS : Stmt := st "x" "module" "x" 1 1
  [st "x" "prefix" "x" 1 12 [], st "x" "namespace" "urn:x" 1 22 [], impM, xgS, cx]
def m : Mod := { seq := 0, stmt := mS }
def x : Mod := { seq := 1, stmt := xS }
def reg : Registry := { mods := [m, x], modules := [("m", 0), ("x", 1)] }

example : posCheck reg = true := by decide +kernel
example : refsCheck reg = true := by decide +kernel
example : fuelCheck reg = true := by decide +kernel
example : PosWF reg ∧ RefsWF reg ∧ LookupFuelOK reg :=
  ⟨posWF_of_check _ (by decide +kernel), refsWF_of_check _ (by decide +kernel), lookupFuelOK_of_check _ (by decide +kernel)⟩

-- the checkers do reject: a second grouping at the position of `g`; a prefixed reference that an
-- enclosing statement literally declares; a nested module statement
def gDup : Stmt := st "m" "grouping" "g2" 2 3 []
def regDup : Registry := { mods := [{ seq := 0, stmt := st "m" "module" "m" 1 1 [gS, gDup] }] }
example : posCheck regDup = false := by decide +kernel
def litS : Stmt := st "m" "module" "m" 1 1
  [impX, st "m" "container" "c" 2 3 [st "m" "grouping" "q:xg" 2 20 [], st "m" "uses" "q:xg" 2 40 []]]
def regLit : Registry := { mods := [{ seq := 0, stmt := litS }] }
example : refsCheck regLit = false := by decide +kernel
def regNest : Registry :=
  { mods := [{ seq := 0, stmt := st "m" "module" "m" 1 1 [st "m" "submodule" "s" 2 3 [st "m" "leaf" "a" 2 20 []]] }] }
example : refsCheck regNest = false := by decide +kernel
end Ex

end Goyang.Lemmas.IncludeCheck
