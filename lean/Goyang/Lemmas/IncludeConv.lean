import Goyang.Lemmas.IncludeModN
import Goyang.Lemmas.IncludeNoAug
/-
C13 (third sentence), part 5: the conversion stage of `processAll` (`tstate`, `forest0`) on the
unsplit and on the split registry.
-/
namespace Goyang.Lemmas.IncludeConv
open Goyang.Model Goyang.Spec.Include Goyang.Lemmas.Tree Goyang.Spec.Tree Goyang.Lemmas.IncludeRel
open Goyang.Lemmas.IncludePure Goyang.Lemmas.IncludeRun Goyang.Lemmas.IncludeAsm Goyang.Lemmas.IncludeWorld
open Goyang.Lemmas.IncludeMod Goyang.Lemmas.IncludeModN

/-! ### a cached (sub)module -/

theorem toEntry_cached (env : Env) (fuel : Nat) (root : Mod) (scope : List Stmt) (n : Stmt) (vis : List NodeId)
    (st : TState) (p : Nat × Entry) (hm : isModKw n = true) (h : st.cache.find? (·.1 == root.seq) = some p) :
    toEntry env (fuel + 1) root scope n vis st = (p.2, st) := by
  rw [Tree.toEntry_succ]
  unfold toEntryBody
  dsimp only
  rw [show (n.kw == "module" || n.kw == "submodule") = true from hm]
  simp only [if_true, h]

/-! ### the name of a value -/

theorem core_lk_irrel (env : Env) (rec : Rec) (root : Mod) (scope : List Stmt) (n : Stmt) (vis : List NodeId) (st : TState)
    (lk lk' : Option GroupingRef) (isMod : Bool) (h : n.kw ≠ "uses") :
    core env rec root scope n vis st lk isMod = core env rec root scope n vis st lk' isMod := by
  unfold core
  have : (n.kw == "uses") = false := by simp [h]
  simp only [this, Bool.false_eq_true, if_false]

/-- An error-free value of a statement that is not a `uses`, a grouping or a (sub)module is named by
the statement's argument. -/
theorem val_name (env : Env) (lk : Lookup) (r : Mod) (s : List Stmt) (n : Stmt)
    (h : Clean (IncludePure.val env lk r s n)) (h1 : n.kw ≠ "uses") (h2 : n.kw ≠ "grouping") (h3 : n.kw ≠ "module")
    (h4 : n.kw ≠ "submodule") : (IncludePure.val env lk r s n).name = n.arg := by
  have hp := fuelOf_pos env lk r s n h
  obtain ⟨k, hk⟩ : ∃ k, fuelOf env lk r s n = k + 1 := ⟨fuelOf env lk r s n - 1, by omega⟩
  have hv : IncludePure.val env lk r s n = (core env (pureRec (IncludePure.pent env lk k)) r s n [] {} (lk r s n.arg) false).1 := by
    unfold IncludePure.val; rw [hk]; rfl
  have hm : isModKw n = false := by unfold isModKw; simp [h3, h4]
  have hnt : tracked n = false := by unfold tracked; rw [hm]; simp [h2]
  have hb := toEntryBody_core env 0 (pureRec (IncludePure.pent env lk k)) r s n [] {} (by rw [hm]; rfl)
    (by simp [h2]) (by rw [hnt]; rfl)
  have hvis : vis' r n [] = [] := by unfold vis'; rw [hnt]; rfl
  rw [hvis, hm, core_lk_irrel _ _ _ _ _ _ _ _ (lk r s n.arg) _ h1] at hb
  have hs := toEntryBody_shape env 0 (pureRec (IncludePure.pent env lk k)) r s n [] {}
  rw [hb, ← hv] at hs
  exact (hs (clean_own _ h) h1 h2 h3 h4).1


/-! ### the unsplit registry -/

section Unsplit
variable (R : Registry) (opts : Opts) (plug : Plug)

/-- The entry of a module of the unsplit registry over the values of its top-level statements. -/
noncomputable def pmodOf (X : Mod) : Entry :=
  pmod (envOf R opts plug) (fun c => IncludePure.val (envOf R opts plug) (lkOf R (linkAll R).1) X [X.stmt] c) X X.stmt

structure UInv (done : List Mod) (st : TState) : Prop where
  coh : Coh (Wu R opts plug) st.gcache
  cache : ∀ p ∈ st.cache, ∃ X ∈ done, X.seq = p.1 ∧ REb id p.2 (pmodOf R opts plug X)
  cached : ∀ X ∈ done, ∃ e, (X.seq, e) ∈ st.cache

theorem entryFuel_succ (R : Registry) : ∃ f, entryFuel R = f + 1 :=
  ⟨entryFuel R - 1, by have := Fuel.entryFuel_eq R; omega⟩

/-- The fuel of a top-level call suffices, with the slack to spare. -/
theorem top_need (R : Registry) (opts : Opts) (plug : Plug) (X : Mod) (hX : X ∈ R.mods) :
    Fuel.need R X X.stmt [] + lookupSlack R ≤ entryFuel R := by
  have h1 := Fuel.need_le_entryNeed (env := envOf R opts plug) [] (Fuel.Inv.top (env := envOf R opts plug) hX)
  have h2 := slack_le R
  have h3 := Fuel.entryNeed_le_entryFuel R
  have h4 : Fuel.need (envOf R opts plug).reg X X.stmt [] = Fuel.need R X X.stmt [] := rfl
  have h5 : Fuel.entryNeed (envOf R opts plug).reg = Fuel.entryNeed R := rfl
  omega

theorem conv_unsplit (hW : (Wu R opts plug).OK)
    (hmods : ∀ x ∈ R.mods, x.stmt.kw = "module" ∧ x.stmt.all "belongs-to" = [] ∧ x.stmt.all "include" = []) :
    UInv R opts plug (keyOrder R) (tstate R opts plug) := by
  unfold tstate
  refine foldl_prefix_inv (UInv R opts plug) _ _ _
    ⟨fun p hp => (by cases hp), fun p hp => (by cases hp), fun X hX => (by cases hX)⟩ ?_
  intro done X st hXk hinv
  have hX : X ∈ R.mods := IncludeNoAug.mem_keyOrder hXk
  have hm : isModKw X.stmt = true := by unfold isModKw; rw [(hmods X hX).1]; rfl
  obtain ⟨f, hf⟩ := entryFuel_succ R
  rw [hf]
  cases hfind : st.cache.find? (·.1 == X.seq) with
  | some p =>
    rw [toEntry_cached _ f X [] X.stmt [] st p hm hfind]
    refine ⟨hinv.coh, ?_, ?_⟩
    · intro q hq
      obtain ⟨Y, hY, h1, h2⟩ := hinv.cache q hq
      exact ⟨Y, List.mem_append_left _ hY, h1, h2⟩
    · intro Y hY
      rcases List.mem_append.1 hY with hY | hY
      · exact hinv.cached Y hY
      · simp only [List.mem_singleton] at hY
        subst hY
        have hmem := List.mem_of_find?_eq_some hfind
        have hk : p.1 = Y.seq := by simpa using List.find?_some hfind
        exact ⟨p.2, by rw [← hk]; exact hmem⟩
  | none =>
    have mc : REb id (toEntry (envOf R opts plug) (f + 1) X [] X.stmt [] st).1 (pmodOf R opts plug X) ∧
        Coh (Wu R opts plug) (toEntry (envOf R opts plug) (f + 1) X [] X.stmt [] st).2.gcache ∧
        (toEntry (envOf R opts plug) (f + 1) X [] X.stmt [] st).2.cache =
          st.cache ++ [(X.seq, (toEntry (envOf R opts plug) (f + 1) X [] X.stmt [] st).1)] ∧
        (toEntry (envOf R opts plug) (f + 1) X [] X.stmt [] st).2.merged = st.merged :=
      mod_conv (Wu R opts plug) hW X X hX hm (hmods X hX).2.2 ⟨rfl, rfl⟩ f [] st (onlyMods_nil _) (by simp) hfind
        (by rw [← hf]; exact top_need R opts plug X hX) hinv.coh
    obtain ⟨m1, m2, m3, _⟩ := mc
    refine ⟨m2, ?_, ?_⟩
    · intro q hq
      rw [m3] at hq
      rcases List.mem_append.1 hq with hq | hq
      · obtain ⟨Y, hY, h1, h2⟩ := hinv.cache q hq
        exact ⟨Y, List.mem_append_left _ hY, h1, h2⟩
      · simp only [List.mem_singleton] at hq
        subst hq
        exact ⟨X, by simp, rfl, m1⟩
    · intro Y hY
      rw [m3]
      rcases List.mem_append.1 hY with hY | hY
      · obtain ⟨e, he⟩ := hinv.cached Y hY
        exact ⟨e, List.mem_append_left _ he⟩
      · simp only [List.mem_singleton] at hY
        subst hY
        exact ⟨_, List.mem_append_right _ (List.mem_singleton.2 rfl)⟩

end Unsplit


/-! ### the key order of the two registries -/

/-- The modules resp. submodules in key order. -/
def mkeysOf (R : Registry) : List Mod :=
  (sortBy (fun (a b : String × Nat) => a.1 < b.1) R.modules).filterMap fun kv => R.byId kv.2
def skeysOf (R : Registry) : List Mod :=
  (sortBy (fun (a b : String × Nat) => a.1 < b.1) R.subModules).filterMap fun kv => R.byId kv.2

theorem keyOrder_eq (R : Registry) : keyOrder R = mkeysOf R ++ skeysOf R := rfl

theorem filterMap_congr' {α β : Type} (f g : α → Option β) : ∀ (l : List α), (∀ x ∈ l, f x = g x) → l.filterMap f = l.filterMap g
  | [], _ => rfl
  | x :: xs, h => by
    rw [List.filterMap_cons, List.filterMap_cons, h x (List.mem_cons_self ..),
      filterMap_congr' f g xs (fun y hy => h y (List.mem_cons_of_mem _ hy))]

section Keys
variable {s : Split} {R R' : Registry}

theorem mkeys_split (hr : RegsOK s R R') : mkeysOf R' = (mkeysOf R).map (IncludeLink.repl s) := by
  unfold mkeysOf
  rw [hr.modules', List.map_filterMap]
  apply filterMap_congr'
  intro kv hkv
  have hkv' : kv ∈ R.modules := (mem_sortBy _ _ _).1 hkv
  obtain ⟨x, hx, hxs⟩ := hr.keys_valid kv hkv'
  rw [← hxs, IncludeLink.byId_split_of_mem hr hx, IncludeLink.byId_of_mem hr hx]
  rfl

theorem skeys_R (hr : RegsOK s R R') : skeysOf R = [] := by
  unfold skeysOf; rw [hr.subModules]; rfl

theorem skeys_split (hr : RegsOK s R R') : ∀ X ∈ skeysOf R', X ∈ s.subs := by
  intro X hX
  unfold skeysOf at hX
  obtain ⟨kv, hkv, hb⟩ := List.mem_filterMap.1 hX
  have hkv' : kv ∈ R'.subModules := (mem_sortBy _ _ _).1 hkv
  rw [hr.subModules'] at hkv'
  obtain ⟨sb, hsb, rfl⟩ := List.mem_map.1 hkv'
  rw [IncludeLink.byId_split_of_sub hr hsb] at hb
  cases hb
  exact hsb

theorem m_mem_mkeys (hr : RegsOK s R R') : s.m ∈ mkeysOf R := by
  have h := hr.m_bound
  unfold Registry.getModule KeyMap.get? at h
  cases hf : R.modules.find? (·.1 == s.m.name) with
  | none => rw [hf] at h; cases h
  | some kv =>
    rw [hf] at h
    simp only [Option.map_some, Option.bind_some] at h
    unfold mkeysOf
    exact List.mem_filterMap.2 ⟨kv, (mem_sortBy _ _ _).2 (List.mem_of_find?_eq_some hf), h⟩

theorem mem_mkeys_mods {R : Registry} {X : Mod} (h : X ∈ mkeysOf R) : X ∈ R.mods :=
  IncludeNoAug.mem_keyOrder (by rw [keyOrder_eq]; exact List.mem_append_left _ h)

end Keys


/-! ### the split registry -/

theorem length_le_total (l : List Mod) (a : Nat) : a + l.length ≤ l.foldl (fun a m => a + stmtCount m.stmt) a := by
  induction l generalizing a with
  | nil => exact Nat.le_refl _
  | cons x xs ih =>
    simp only [List.foldl_cons, List.length_cons]
    have h1 : 1 ≤ stmtCount x.stmt := by cases x.stmt; simp [stmtCount]
    have := ih (a + stmtCount x.stmt)
    omega

theorem unstarted_lt_entryFuel {s : Split} {R R' : Registry} (hr : RegsOK s R R') : unstarted s [] < entryFuel R' := by
  have h1 : unstarted s [] ≤ s.subs.length := List.length_filter_le _ _
  have h2 : s.subs.length ≤ R'.mods.length := by rw [hr.mods']; simp
  have h3 := length_le_total R'.mods 0
  have h4 := Fuel.entryFuel_eq R'
  have h5 : Fuel.totalStmts R' = R'.mods.foldl (fun a m => a + stmtCount m.stmt) 0 := rfl
  have h6 : Fuel.totalStmts R' + 2 ≤ (Fuel.totalStmts R' + 2) * (Fuel.totalStmts R' + 2) := Nat.le_mul_self _
  omega

section SplitConv
variable {s : Split} {R R' : Registry} (opts : Opts) (plug plug' : Plug)
  (ht : TextOK s) (hr : RegsOK s R R') (hl : LinkOK s R (linkAll R).1 (linkAll R').1)
  (hW : (Ws s R R' opts plug plug').OK)

/-- What the module cache of the split conversion holds. -/
def SCache (s : Split) (R R' : Registry) (opts : Opts) (plug : Plug) (p : Nat × Entry) : Prop :=
  (∃ x ∈ mkeysOf R, x.seq ≠ s.m.seq ∧ x.seq = p.1 ∧ REb s.σ p.2 (pmodOf R opts plug x)) ∨
  (p.1 = s.owner.seq ∧ REb s.σ p.2 (pp s R R' opts plug (entryFuel R') [] s.owner.stmt).1) ∨
  PureOf s R R' opts plug p

structure SInv (s : Split) (R R' : Registry) (opts : Opts) (plug plug' : Plug) (done : List Mod) (st : TState) : Prop where
  coh : Coh (Ws s R R' opts plug plug') st.gcache
  cache : ∀ p ∈ st.cache, SCache s R R' opts plug p
  cached : ∀ X ∈ done, ∃ e, (X.seq, e) ∈ st.cache
  pre : (∀ p ∈ st.cache, p.1 ≠ s.owner.seq) → st.merged = [] ∧ ∀ p ∈ st.cache, ∀ sb ∈ s.subs, p.1 ≠ sb.seq
  post : (∃ p ∈ st.cache, p.1 = s.owner.seq) → ∀ sb ∈ s.subs,
    (pp s R R' opts plug (entryFuel R') [] s.owner.stmt).2.contains sb.name = true → ∃ e, (sb.seq, e) ∈ st.cache

include ht hr hl hW in
/-- The conversion of the modules of the split registry, in key order. -/
theorem conv_split_mods :
    SInv s R R' opts plug plug' ((mkeysOf R).map (IncludeLink.repl s))
      (((mkeysOf R).map (IncludeLink.repl s)).foldl
        (fun st m => (toEntry (envOf R' opts plug') (entryFuel R') m [] m.stmt [] st).2) {}) := by
  refine foldl_prefix_inv (SInv s R R' opts plug plug') _ _ _
    ⟨fun p hp => (by cases hp), fun p hp => (by cases hp), fun X hX => (by cases hX),
      fun _ => ⟨rfl, fun p hp => (by cases hp)⟩, fun ⟨p, hp, _⟩ => (by cases hp)⟩ ?_
  intro done X' st hXk hinv
  obtain ⟨x, hxk, rfl⟩ := List.mem_map.1 hXk
  have hx : x ∈ R.mods := mem_mkeys_mods hxk
  obtain ⟨f, hf⟩ := entryFuel_succ R'
  rw [hf]
  have hX' : IncludeLink.repl s x ∈ R'.mods := IncludeLink.repl_mem hr hx
  have hseq : (IncludeLink.repl s x).seq = x.seq := IncludeLink.repl_seq hr x
  have hkwm : isModKw (IncludeLink.repl s x).stmt = true := by
    by_cases hxm : x.seq = s.m.seq
    · have : x = s.m := IncludeLink.eq_m_of_seq hr hx hxm
      rw [this, IncludeLink.repl_m]; exact owner_kw_mod ht
    · rw [IncludeLink.repl_of_ne hxm]
      unfold isModKw; rw [(hr.R_modules_only x hx).1]; rfl
  -- the common part: cached
  have hdone : ∀ (st' : TState), (∀ p ∈ st.cache, p ∈ st'.cache) → (∃ e, ((IncludeLink.repl s x).seq, e) ∈ st'.cache) →
      ∀ Y ∈ done ++ [IncludeLink.repl s x], ∃ e, (Y.seq, e) ∈ st'.cache := by
    intro st' hgrow hnew Y hY
    rcases List.mem_append.1 hY with hY | hY
    · obtain ⟨e, he⟩ := hinv.cached Y hY
      exact ⟨e, hgrow _ he⟩
    · simp only [List.mem_singleton] at hY
      subst hY
      exact hnew
  cases hfind : st.cache.find? (·.1 == (IncludeLink.repl s x).seq) with
  | some p =>
    rw [toEntry_cached _ f _ [] _ [] st p hkwm hfind]
    have hmem := List.mem_of_find?_eq_some hfind
    have hk : p.1 = (IncludeLink.repl s x).seq := by simpa using List.find?_some hfind
    exact ⟨hinv.coh, hinv.cache, hdone st (fun _ h => h) ⟨p.2, by rw [← hk]; exact hmem⟩, hinv.pre, hinv.post⟩
  | none =>
    have hnone : ∀ p ∈ st.cache, p.1 ≠ (IncludeLink.repl s x).seq := by
      intro p hp he
      have := List.find?_eq_none.1 hfind p hp
      simp [he] at this
    by_cases hxm : x.seq = s.m.seq
    · -- the owner
      have hxm' : x = s.m := IncludeLink.eq_m_of_seq hr hx hxm
      subst hxm'
      rw [IncludeLink.repl_m] at hfind hnone hX' hdone ⊢
      obtain ⟨hmerged, hnosub⟩ := hinv.pre hnone
      have hpinv : PInv s R R' opts plug plug' st [] :=
        ⟨hinv.coh, fun sb _ => (by rw [hmerged]; rfl), fun k hk => (by rw [hmerged] at hk; cases hk),
          fun p hp sb hsb he => absurd he (hnosub p hp sb hsb), fun n hn => (by cases hn)⟩
      have hown : s.owner ∉ s.subs := fun h => sub_seq_ne_owner hr h rfl
      have G := part_conv opts plug plug' ht hr hl hW f s.owner (List.mem_cons_self ..) [] st [] hpinv
        (fun h => absurd h hown) (onlyMods_nil _) (fun _ _ h => by simp at h) (by simp) hfind
        (by rw [← hf]; exact top_need R' opts plug' s.owner hX')
        (by rw [← hf]; exact unstarted_lt_entryFuel hr)
      refine ⟨G.inv.coh, ?_, hdone _ G.grows ⟨_, G.self⟩, ?_, ?_⟩
      · intro p hp
        rcases G.cache p hp with h | h | h
        · exact hinv.cache p h
        · rw [h]; exact Or.inr (Or.inl ⟨rfl, by rw [hf]; exact G.re⟩)
        · exact Or.inr (Or.inr h)
      · intro hno
        exact absurd rfl (hno _ G.self)
      · intro _ sb hsb hc
        rw [hf] at hc
        rcases G.newc sb hsb hc with h | h
        · simp at h
        · exact h
    · -- another module
      rw [IncludeLink.repl_of_ne hxm] at hfind hnone hX' hdone ⊢
      have hcr : (Ws s R R' opts plug plug').CR x [x.stmt] x [x.stmt] := Or.inr ⟨hx, hxm, rfl, rfl⟩
      have hmx : isModKw x.stmt = true := by unfold isModKw; rw [(hr.R_modules_only x hx).1]; rfl
      have mc : REb s.σ (toEntry (envOf R' opts plug') (f + 1) x [] x.stmt [] st).1 (pmodOf R opts plug x) ∧
          Coh (Ws s R R' opts plug plug') (toEntry (envOf R' opts plug') (f + 1) x [] x.stmt [] st).2.gcache ∧
          (toEntry (envOf R' opts plug') (f + 1) x [] x.stmt [] st).2.cache =
            st.cache ++ [(x.seq, (toEntry (envOf R' opts plug') (f + 1) x [] x.stmt [] st).1)] ∧
          (toEntry (envOf R' opts plug') (f + 1) x [] x.stmt [] st).2.merged = st.merged :=
        mod_conv (Ws s R R' opts plug plug') hW x x hX' hmx (hr.R_modules_only x hx).2.2 hcr f [] st (onlyMods_nil _) (by simp)
          hfind (by rw [← hf]; exact top_need R' opts plug' x hX') hinv.coh
      obtain ⟨m1, m2, m3, m4⟩ := mc
      refine ⟨m2, ?_, hdone _ (fun p hp => by rw [m3]; exact List.mem_append_left _ hp)
        ⟨_, by rw [m3]; exact List.mem_append_right _ (List.mem_singleton.2 rfl)⟩, ?_, ?_⟩
      · intro p hp
        rw [m3] at hp
        rcases List.mem_append.1 hp with hp | hp
        · exact hinv.cache p hp
        · simp only [List.mem_singleton] at hp
          subst hp
          exact Or.inl ⟨x, hxk, hxm, rfl, m1⟩
      · intro hno
        rw [m3] at hno
        obtain ⟨h1, h2⟩ := hinv.pre (fun p hp => hno p (List.mem_append_left _ hp))
        refine ⟨by rw [m4]; exact h1, ?_⟩
        intro p hp sb hsb
        rw [m3] at hp
        rcases List.mem_append.1 hp with hp | hp
        · exact h2 p hp sb hsb
        · simp only [List.mem_singleton] at hp
          subst hp
          exact fun he => hr.sub_seqs_fresh sb hsb x hx he.symm
      · rintro ⟨p, hp, hpo⟩
        rw [m3] at hp
        have hp' : p ∈ st.cache := by
          rcases List.mem_append.1 hp with hp | hp
          · exact hp
          · simp only [List.mem_singleton] at hp
            subst hp
            exact absurd (hpo.trans hr.owner_seq) hxm
        intro sb hsb hc
        obtain ⟨e, he⟩ := hinv.post ⟨p, hp', hpo⟩ sb hsb hc
        exact ⟨e, by rw [m3]; exact List.mem_append_left _ he⟩


omit opts plug plug' in
theorem find?_isSome_of_key {l : List (Nat × Entry)} {k : Nat} {e : Entry} (h : (k, e) ∈ l) :
    ∃ p, l.find? (·.1 == k) = some p ∧ p ∈ l ∧ p.1 = k := by
  cases hf : l.find? (·.1 == k) with
  | none =>
    have := List.find?_eq_none.1 hf (k, e) h
    simp at this
  | some p =>
    exact ⟨p, rfl, List.mem_of_find?_eq_some hf, by simpa using List.find?_some hf⟩

include ht hr hl hW in
/-- The conversion state of the split registry: the submodules, converted last, are all cached. -/
theorem conv_split_state
    (hall : ∀ sb ∈ s.subs, (pp s R R' opts plug (entryFuel R') [] s.owner.stmt).2.contains sb.name = true) :
    SInv s R R' opts plug plug' ((mkeysOf R).map (IncludeLink.repl s)) (tstate R' opts plug') := by
  have hM := conv_split_mods opts plug plug' ht hr hl hW
  unfold tstate
  rw [keyOrder_eq, mkeys_split hr, List.foldl_append]
  generalize ((mkeysOf R).map (IncludeLink.repl s)).foldl
    (fun st m => (toEntry (envOf R' opts plug') (entryFuel R') m [] m.stmt [] st).2) {} = stM at hM ⊢
  -- the owner has been converted
  have hown : s.owner ∈ (mkeysOf R).map (IncludeLink.repl s) :=
    List.mem_map.2 ⟨s.m, m_mem_mkeys hr, IncludeLink.repl_m s⟩
  obtain ⟨eo, heo⟩ := hM.cached s.owner hown
  have hsubs := hM.post ⟨_, heo, rfl⟩
  have hsame : (skeysOf R').foldl (fun st m => (toEntry (envOf R' opts plug') (entryFuel R') m [] m.stmt [] st).2) stM = stM := by
    refine foldl_inv (fun st => st = stM) _ _ _ rfl ?_
    intro st X hX hst
    subst hst
    have hXs : X ∈ s.subs := skeys_split hr X hX
    obtain ⟨e, he⟩ := hsubs X hXs (hall X hXs)
    obtain ⟨p, hp, _, _⟩ := find?_isSome_of_key he
    obtain ⟨f, hf⟩ := entryFuel_succ R'
    rw [hf, toEntry_cached _ f X [] X.stmt [] st p (sub_kw_mod ht hXs) hp]
  rw [hsame]
  exact hM

end SplitConv

end Goyang.Lemmas.IncludeConv
