import Goyang.Lemmas.IncludeMod
import Goyang.Lemmas.IncludeNoAug
/-
C13 (third sentence), part 5: the conversion stage of `processAll` (`tstate`, `forest0`) on the
unsplit and on the split registry.
-/
namespace Goyang.Lemmas.IncludeConv
open Goyang.Model Goyang.Spec.Include Goyang.Lemmas.Tree Goyang.Spec.Tree Goyang.Lemmas.IncludeRel
open Goyang.Lemmas.IncludePure Goyang.Lemmas.IncludeRun Goyang.Lemmas.IncludeAsm Goyang.Lemmas.IncludeWorld
open Goyang.Lemmas.IncludeMod

/-! ### a cached (sub)module -/

theorem toEntry_cached (env : Env) (fuel : Nat) (root : Mod) (scope : List Stmt) (n : Stmt) (vis : List NodeId)
    (st : TState) (p : Nat × Entry) (hm : isModKw n = true) (h : st.cache.find? (·.1 == root.seq) = some p) :
    toEntry env (fuel + 1) root scope n vis st = (p.2, st) := by
  rw [Tree.toEntry_succ]
  unfold toEntryBody
  dsimp only
  rw [show (n.kw == "module" || n.kw == "submodule") = true from hm]
  simp only [if_true, h]

/-! ### the name of a value -/

theorem core_lk_irrel (env : Env) (rec : Rec) (root : Mod) (scope : List Stmt) (n : Stmt) (vis : List NodeId) (st : TState)
    (lk lk' : Option GroupingRef) (isMod : Bool) (h : n.kw ≠ "uses") :
    core env rec root scope n vis st lk isMod = core env rec root scope n vis st lk' isMod := by
  unfold core
  have : (n.kw == "uses") = false := by simp [h]
  simp only [this, Bool.false_eq_true, if_false]

/-- An error-free value of a statement that is not a `uses`, a grouping or a (sub)module is named by
the statement's argument. -/
theorem val_name (env : Env) (lk : Lookup) (r : Mod) (s : List Stmt) (n : Stmt)
    (h : Clean (IncludePure.val env lk r s n)) (h1 : n.kw ≠ "uses") (h2 : n.kw ≠ "grouping") (h3 : n.kw ≠ "module")
    (h4 : n.kw ≠ "submodule") : (IncludePure.val env lk r s n).name = n.arg := by
  have hp := fuelOf_pos env lk r s n h
  obtain ⟨k, hk⟩ : ∃ k, fuelOf env lk r s n = k + 1 := ⟨fuelOf env lk r s n - 1, by omega⟩
  have hv : IncludePure.val env lk r s n = (core env (pureRec (IncludePure.pent env lk k)) r s n [] {} (lk r s n.arg) false).1 := by
    unfold IncludePure.val; rw [hk]; rfl
  have hm : isModKw n = false := by unfold isModKw; simp [h3, h4]
  have hnt : tracked n = false := by unfold tracked; rw [hm]; simp [h2]
  have hb := toEntryBody_core env 0 (pureRec (IncludePure.pent env lk k)) r s n [] {} (by rw [hm]; rfl)
    (by simp [h2]) (by rw [hnt]; rfl)
  have hvis : vis' r n [] = [] := by unfold vis'; rw [hnt]; rfl
  rw [hvis, hm, core_lk_irrel _ _ _ _ _ _ _ _ (lk r s n.arg) _ h1] at hb
  have hs := toEntryBody_shape env 0 (pureRec (IncludePure.pent env lk k)) r s n [] {}
  rw [hb, ← hv] at hs
  exact (hs (clean_own _ h) h1 h2 h3 h4).1


/-! ### the unsplit registry -/

section Unsplit
variable (R : Registry) (opts : Opts) (plug : Plug)

/-- The entry of a module of the unsplit registry over the values of its top-level statements. -/
noncomputable def pmodOf (X : Mod) : Entry :=
  pmod (envOf R opts plug) (fun c => IncludePure.val (envOf R opts plug) (lkOf R (linkAll R).1) X [X.stmt] c) X X.stmt

structure UInv (done : List Mod) (st : TState) : Prop where
  coh : Coh (Wu R opts plug) st.gcache
  cache : ∀ p ∈ st.cache, ∃ X ∈ done, X.seq = p.1 ∧ REb id p.2 (pmodOf R opts plug X)
  cached : ∀ X ∈ done, ∃ e, (X.seq, e) ∈ st.cache

theorem entryFuel_succ (R : Registry) : ∃ f, entryFuel R = f + 1 :=
  ⟨entryFuel R - 1, by have := Fuel.entryFuel_eq R; omega⟩

/-- The fuel of a top-level call suffices, with the slack to spare. -/
theorem top_need (R : Registry) (opts : Opts) (plug : Plug) (X : Mod) (hX : X ∈ R.mods) :
    Fuel.need R X X.stmt [] + lookupSlack R ≤ entryFuel R := by
  have h1 := Fuel.need_le_entryNeed (env := envOf R opts plug) [] (Fuel.Inv.top (env := envOf R opts plug) hX)
  have h2 := slack_le R
  have h3 := Fuel.entryNeed_le_entryFuel R
  have h4 : Fuel.need (envOf R opts plug).reg X X.stmt [] = Fuel.need R X X.stmt [] := rfl
  have h5 : Fuel.entryNeed (envOf R opts plug).reg = Fuel.entryNeed R := rfl
  omega

theorem conv_unsplit (hW : (Wu R opts plug).OK)
    (hmods : ∀ x ∈ R.mods, x.stmt.kw = "module" ∧ x.stmt.all "belongs-to" = [] ∧ x.stmt.all "include" = []) :
    UInv R opts plug (keyOrder R) (tstate R opts plug) := by
  unfold tstate
  refine foldl_prefix_inv (UInv R opts plug) _ _ _
    ⟨fun p hp => (by cases hp), fun p hp => (by cases hp), fun X hX => (by cases hX)⟩ ?_
  intro done X st hXk hinv
  have hX : X ∈ R.mods := IncludeNoAug.mem_keyOrder hXk
  have hm : isModKw X.stmt = true := by unfold isModKw; rw [(hmods X hX).1]; rfl
  obtain ⟨f, hf⟩ := entryFuel_succ R
  rw [hf]
  cases hfind : st.cache.find? (·.1 == X.seq) with
  | some p =>
    rw [toEntry_cached _ f X [] X.stmt [] st p hm hfind]
    refine ⟨hinv.coh, ?_, ?_⟩
    · intro q hq
      obtain ⟨Y, hY, h1, h2⟩ := hinv.cache q hq
      exact ⟨Y, List.mem_append_left _ hY, h1, h2⟩
    · intro Y hY
      rcases List.mem_append.1 hY with hY | hY
      · exact hinv.cached Y hY
      · simp only [List.mem_singleton] at hY
        subst hY
        have hmem := List.mem_of_find?_eq_some hfind
        have hk : p.1 = Y.seq := by simpa using List.find?_some hfind
        exact ⟨p.2, by rw [← hk]; exact hmem⟩
  | none =>
    have mc : REb id (toEntry (envOf R opts plug) (f + 1) X [] X.stmt [] st).1 (pmodOf R opts plug X) ∧
        Coh (Wu R opts plug) (toEntry (envOf R opts plug) (f + 1) X [] X.stmt [] st).2.gcache ∧
        (toEntry (envOf R opts plug) (f + 1) X [] X.stmt [] st).2.cache =
          st.cache ++ [(X.seq, (toEntry (envOf R opts plug) (f + 1) X [] X.stmt [] st).1)] ∧
        (toEntry (envOf R opts plug) (f + 1) X [] X.stmt [] st).2.merged = st.merged :=
      mod_conv (Wu R opts plug) hW X X hX hm (hmods X hX).2.2 ⟨rfl, rfl⟩ f [] st (onlyMods_nil _) (by simp) hfind
        (by rw [← hf]; exact top_need R opts plug X hX) hinv.coh
    obtain ⟨m1, m2, m3, _⟩ := mc
    refine ⟨m2, ?_, ?_⟩
    · intro q hq
      rw [m3] at hq
      rcases List.mem_append.1 hq with hq | hq
      · obtain ⟨Y, hY, h1, h2⟩ := hinv.cache q hq
        exact ⟨Y, List.mem_append_left _ hY, h1, h2⟩
      · simp only [List.mem_singleton] at hq
        subst hq
        exact ⟨X, by simp, rfl, m1⟩
    · intro Y hY
      rw [m3]
      rcases List.mem_append.1 hY with hY | hY
      · obtain ⟨e, he⟩ := hinv.cached Y hY
        exact ⟨e, List.mem_append_left _ he⟩
      · simp only [List.mem_singleton] at hY
        subst hY
        exact ⟨_, List.mem_append_right _ (List.mem_singleton.2 rfl)⟩

end Unsplit

end Goyang.Lemmas.IncludeConv
