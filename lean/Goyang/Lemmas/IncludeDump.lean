import Goyang.Lemmas.IncludeMain
import Goyang.Lemmas.SortUnique
/-
C13 (third sentence), part 7: the canonical dump (`Model/Dump.lean`, what the correspondence runner
prints and compares) of the owner's tree equals the dump of the unsplit module's tree.
-/
namespace Goyang.Lemmas.IncludeDump
open Goyang.Model Goyang.Spec.Include Goyang.Lemmas.Tree Goyang.Spec.Tree Goyang.Lemmas.IncludeRel
open Goyang.Lemmas.IncludeMain

/-! ### sorting by name -/

/-- The order the dump walks children in. -/
def nameLt : Entry → Entry → Bool := fun a b => a.name < b.name

theorem insertBy_map {α β : Type} (lt : α → α → Bool) (lt' : β → β → Bool) (f : α → β)
    (h : ∀ a b, lt' (f a) (f b) = lt a b) (x : α) (l : List α) :
    insertBy lt' (f x) (l.map f) = (insertBy lt x l).map f := by
  induction l with
  | nil => rfl
  | cons y ys ih =>
    simp only [List.map_cons, insertBy, h]
    split
    · rfl
    · simp [ih]

theorem sortBy_map {α β : Type} (lt : α → α → Bool) (lt' : β → β → Bool) (f : α → β)
    (h : ∀ a b, lt' (f a) (f b) = lt a b) (l : List α) : sortBy lt' (l.map f) = (sortBy lt l).map f := by
  induction l with
  | nil => rfl
  | cons x t ih =>
    show insertBy lt' (f x) (sortBy lt' (t.map f)) = (insertBy lt x (sortBy lt t)).map f
    rw [ih, insertBy_map lt lt' f h]

theorem sortBy_ren (σ : Nat → Nat) (l : List Entry) : sortBy nameLt (l.map (ren σ)) = (sortBy nameLt l).map (ren σ) :=
  sortBy_map nameLt nameLt (ren σ) (fun a b => by unfold nameLt; rw [ren_name, ren_name]) l

theorem sortBy_perm_names (l₁ l₂ : List Entry) (hp : l₁.Perm l₂) (hnd : (l₂.map (·.name)).Nodup) :
    sortBy nameLt l₁ = sortBy nameLt l₂ := by
  have hnd₁ : (l₁.map (·.name)).Nodup := ((hp.map _).nodup_iff).2 hnd
  refine SortUnique.sortBy_perm_invariant nameLt (fun a => by unfold nameLt; simp) ?_ hp ?_
  · intro a b c h1 h2
    unfold nameLt at *
    simp only [decide_eq_true_eq] at *
    exact String.lt_trans h1 h2
  · intro a ha b hb hab
    have hne : a.name ≠ b.name := fun e => hab (IncludeMod.nodup_map_inj _ _ hnd₁ ha hb e)
    unfold nameLt
    simp only [decide_eq_true_eq]
    exact OrderIndep.str_total hne


/-! ### the path string -/

theorem pathString_go_ren (σ : Nat → Nat) : ∀ (p : Path) (e : Entry) (acc : String),
    Entry.pathString.go (ren σ e) p acc = Entry.pathString.go e p acc
  | [], e, acc => by unfold Entry.pathString.go; rfl
  | s :: rest, e, acc => by
    unfold Entry.pathString.go
    simp only [ren_child?, ren_inp, ren_out]
    cases s with
    | child k =>
      dsimp only
      cases e.child? k with
      | none => rfl
      | some c => simp only [Option.map_some, ren_name]; exact pathString_go_ren σ rest c _
    | input =>
      dsimp only
      cases e.inp with
      | nil => rfl
      | cons c cs => simp only [List.map_cons, List.head?_cons, ren_name]; exact pathString_go_ren σ rest c _
    | output =>
      dsimp only
      cases e.out with
      | nil => rfl
      | cons c cs => simp only [List.map_cons, List.head?_cons, ren_name]; exact pathString_go_ren σ rest c _

theorem pathString_sameTop (σ : Nat → Nat) (t' t : Entry) (h : SameTop σ t' t) (hnd : (t.dir.map (·.name)).Nodup)
    (p : Path) : t'.pathString p = t.pathString p := by
  unfold Entry.pathString
  have hn : t'.name = t.name := by
    have := h.1; unfold SameData at this
    unfold Entry.name; rw [this]
  rw [hn]
  cases p with
  | nil => unfold Entry.pathString.go; rfl
  | cons s rest =>
    unfold Entry.pathString.go
    cases s with
    | child k =>
      dsimp only
      rw [← child?_sameTop σ t' t h hnd k]
      cases t'.child? k with
      | none => rfl
      | some c => simp only [Option.map_some, ren_name]; exact (pathString_go_ren σ rest c _).symm
    | input => dsimp only; rw [h.2.2.1.1, h.2.2.1.2]
    | output => dsimp only; rw [h.2.2.2.1, h.2.2.2.2]

/-! ### the depth -/

theorem depthL_eq (l : List Entry) : entryDepth.depthL l = l.foldr (fun e m => max (entryDepth e) m) 0 := by
  induction l with
  | nil => rfl
  | cons a l ih => simp [entryDepth.depthL, ih]

theorem depthL_perm {l₁ l₂ : List Entry} (h : l₁.Perm l₂) : entryDepth.depthL l₁ = entryDepth.depthL l₂ := by
  induction h with
  | nil => rfl
  | cons x _ ih => simp [entryDepth.depthL, ih]
  | swap x y l => simp only [entryDepth.depthL]; omega
  | trans _ _ ih1 ih2 => exact ih1.trans ih2

theorem entryDepth_ren (σ : Nat → Nat) (e : Entry) : entryDepth (ren σ e) = entryDepth e := by
  induction e using entry_ind with
  | h d c i o hc hi ho =>
    rw [ren_mk]
    have hL : ∀ (l : List Entry), (∀ x ∈ l, entryDepth (ren σ x) = entryDepth x) →
        entryDepth.depthL (l.map (ren σ)) = entryDepth.depthL l := by
      intro l
      induction l with
      | nil => intro _; rfl
      | cons a l ih =>
        intro h
        simp only [List.map_cons, entryDepth.depthL]
        rw [h a (List.mem_cons_self ..), ih (fun x hx => h x (List.mem_cons_of_mem _ hx))]
    simp only [entryDepth]
    rw [hL c hc, hL i hi, hL o ho]

theorem entryDepth_sameTop (σ : Nat → Nat) (t' t : Entry) (h : SameTop σ t' t) : entryDepth t' = entryDepth t := by
  cases t' with | mk d' c' i' o' =>
  cases t with | mk d c i o =>
  obtain ⟨_, h2, ⟨h3, h3'⟩, ⟨h4, h4'⟩⟩ := h
  simp only [Entry.dir, Entry.inp, Entry.out] at h2 h3 h3' h4 h4'
  subst h3 h3' h4 h4'
  simp only [entryDepth]
  have hmap : ∀ (l : List Entry), entryDepth.depthL l = entryDepth.depthL (l.map (ren σ)) := by
    intro l
    induction l with
    | nil => rfl
    | cons a l ih => simp only [List.map_cons, entryDepth.depthL]; rw [entryDepth_ren, ih]
  have : entryDepth.depthL c' = entryDepth.depthL c := by
    rw [← depthL_perm h2, renL_eq_map]
    exact hmap c'
  rw [this]


/-! ### one record -/

/-- The data of a node that the dump prints. -/
def DF (d' d : EData) : Prop :=
  d'.kind = d.kind ∧ d'.hasDir = d.hasDir ∧ d'.isRpc = d.isRpc ∧ d'.config = d.config ∧ d'.mandatory = d.mandatory ∧
  d'.default = d.default ∧ d'.units = d.units ∧ d'.key = d.key ∧ d'.listAttr = d.listAttr ∧ d'.type = d.type

theorem DF_ren (σ : Nat → Nat) (d : EData) : DF d (renD σ d) := ⟨rfl, rfl, rfl, rfl, rfl, rfl, rfl, rfl, rfl, rfl⟩

theorem DF_sameData {d' d : EData} (h : SameData d' d) : DF d' d := by
  unfold SameData at h
  rw [h]
  exact ⟨rfl, rfl, rfl, rfl, rfl, rfl, rfl, rfl, rfl, rfl⟩

/-- What the dump reads besides the node: the same in both worlds, at every path. -/
structure DW (R R' : Registry) (f f' : Forest) (t' t : Entry) (id : Nat) : Prop where
  ro : ∀ p, t'.readOnlyAt p = t.readOnlyAt p
  ns : ∀ p, namespaceAt R' f' (id, p) = namespaceAt R f (id, p)
  im : ∀ p, instantiatingModuleAt R' f' (id, p) = instantiatingModuleAt R f (id, p)
  ps : ∀ p, t'.pathString p = t.pathString p

theorem dumpNode_eq {R R' : Registry} {f f' : Forest} {t' t : Entry} {id : Nat} (hW : DW R R' f f' t' t id)
    (nm : String) (p : Path) (e' e : Entry) (hd : DF e'.d e.d) :
    dumpNode R' f' nm t' (id, p) e' = dumpNode R f nm t (id, p) e := by
  unfold dumpNode
  obtain ⟨h1, h2, h3, h4, h5, h6, h7, h8, h9, h10⟩ := hd
  simp only [h1, h2, h3, h4, h5, h6, h7, h8, h9, h10, hW.ro p, hW.ns p, hW.im p, hW.ps p]

/-! ### the walk -/

theorem dump_sort_eq (l : List Entry) :
    sortBy (fun (a b : Entry) => decide (a.name < b.name)) l = sortBy nameLt l := rfl

theorem dumpTree_succ (reg : Registry) (f : Forest) (nm : String) (root : Entry) (id fuel : Nat) (p : Path) (e : Entry) :
    dumpTree reg f nm root id (fuel + 1) p e =
      dumpNode reg f nm root (id, p) e ::
        (((sortBy nameLt e.dir).map fun c => dumpTree reg f nm root id fuel (p ++ [.child c.name]) c).flatten ++
         (e.inp.map fun c => dumpTree reg f nm root id fuel (p ++ [.input]) c).flatten ++
         (e.out.map fun c => dumpTree reg f nm root id fuel (p ++ [.output]) c).flatten) := rfl

theorem dumpTree_ren {R R' : Registry} {f f' : Forest} {t' t : Entry} {id : Nat} (hW : DW R R' f f' t' t id)
    (σ : Nat → Nat) (nm : String) : ∀ (fuel : Nat) (p : Path) (e' : Entry),
    dumpTree R' f' nm t' id fuel p e' = dumpTree R f nm t id fuel p (ren σ e')
  | 0, _, _ => rfl
  | fuel + 1, p, e' => by
    rw [dumpTree_succ, dumpTree_succ, dumpNode_eq hW nm p e' (ren σ e') (by rw [ren_d]; exact DF_ren σ _),
      ren_dir, ren_inp, ren_out, sortBy_ren, List.map_map, List.map_map, List.map_map]
    have h1 : ((sortBy nameLt e'.dir).map fun c => dumpTree R' f' nm t' id fuel (p ++ [.child c.name]) c) =
        (sortBy nameLt e'.dir).map ((fun c => dumpTree R f nm t id fuel (p ++ [.child c.name]) c) ∘ ren σ) := by
      apply List.map_congr_left
      intro c _
      simp only [Function.comp, ren_name]
      exact dumpTree_ren hW σ nm fuel _ c
    have h2 : (e'.inp.map fun c => dumpTree R' f' nm t' id fuel (p ++ [.input]) c) =
        e'.inp.map ((fun c => dumpTree R f nm t id fuel (p ++ [.input]) c) ∘ ren σ) := by
      apply List.map_congr_left
      intro c _
      exact dumpTree_ren hW σ nm fuel _ c
    have h3 : (e'.out.map fun c => dumpTree R' f' nm t' id fuel (p ++ [.output]) c) =
        e'.out.map ((fun c => dumpTree R f nm t id fuel (p ++ [.output]) c) ∘ ren σ) := by
      apply List.map_congr_left
      intro c _
      exact dumpTree_ren hW σ nm fuel _ c
    rw [h1, h2, h3]

/-- **The dump of the owner's tree is the dump of the unsplit module's tree.** -/
theorem dumpTree_root {R R' : Registry} {f f' : Forest} {t' t : Entry} {id : Nat} (hW : DW R R' f f' t' t id)
    (σ : Nat → Nat) (nm : String) (h : SameTop σ t' t) (hnd : (t.dir.map (·.name)).Nodup) :
    dumpTree R' f' nm t' id (entryDepth t' + 1) [] t' = dumpTree R f nm t id (entryDepth t + 1) [] t := by
  rw [entryDepth_sameTop σ t' t h, dumpTree_succ, dumpTree_succ, dumpNode_eq hW nm [] t' t (DF_sameData h.1),
    h.2.2.1.1, h.2.2.1.2, h.2.2.2.1, h.2.2.2.2]
  have hs : sortBy nameLt t.dir = (sortBy nameLt t'.dir).map (ren σ) := by
    rw [← sortBy_ren, ← renL_eq_map]
    exact (sortBy_perm_names _ _ h.2.1 hnd).symm
  rw [hs, List.map_map]
  have h1 : ((sortBy nameLt t'.dir).map fun c => dumpTree R' f' nm t' id (entryDepth t) ([] ++ [.child c.name]) c) =
      (sortBy nameLt t'.dir).map ((fun c => dumpTree R f nm t id (entryDepth t) ([] ++ [.child c.name]) c) ∘ ren σ) := by
    apply List.map_congr_left
    intro c _
    simp only [Function.comp, ren_name]
    exact dumpTree_ren hW σ nm _ _ c
  rw [h1]
  rfl


/-! ### the instantiating module -/

theorem processAll_reg (reg : Registry) (opts : Opts) (plug : Plug) : (processAll reg opts plug).reg = reg := by
  rw [processAll_eq]
  split
  · rfl
  · split <;> rfl

theorem all_map_congr {α β : Type} (f : α → β) (p : β → Bool) (q : α → Bool) : ∀ (l : List α),
    (∀ x ∈ l, p (f x) = q x) → (l.map f).all p = l.all q
  | [], _ => rfl
  | x :: xs, h => by
    simp only [List.map_cons, List.all_cons]
    rw [h x (List.mem_cons_self ..), all_map_congr f p q xs (fun y hy => h y (List.mem_cons_of_mem _ hy))]

section Inst
variable {s : Split} {R R' : Registry}

theorem repl_name (ht : TextOK s) (hr : RegsOK s R R') {x : Mod} (hx : x ∈ R.mods) : (IncludeLink.repl s x).name = x.name := by
  by_cases h : x.seq = s.m.seq
  · rw [IncludeLink.eq_m_of_seq hr hx h, IncludeLink.repl_m]
    exact ht.owner_arg
  · rw [IncludeLink.repl_of_ne h]

theorem repl_ns (ht : TextOK s) (hr : RegsOK s R R') {x : Mod} (hx : x ∈ R.mods) :
    (IncludeLink.repl s x).stmt.argOf? "namespace" = x.stmt.argOf? "namespace" := by
  by_cases h : x.seq = s.m.seq
  · rw [IncludeLink.eq_m_of_seq hr hx h, IncludeLink.repl_m]
    unfold Stmt.argOf?
    rw [IncludeBind.one?_congr (ht.kept "namespace" (by decide))]
  · rw [IncludeLink.repl_of_ne h]

theorem mem_distinct_mods {R : Registry} {x : Mod} (h : x ∈ R.distinctModules) : x ∈ R.mods :=
  (List.mem_filter.1 h).1

/-- The instantiating module is found among the same modules: the owner stands for `m`. -/
theorem inst_split (ht : TextOK s) (hr : RegsOK s R R') (f f' : Forest) (loc : Loc)
    (hns : namespaceAt R' f' loc = namespaceAt R f loc) :
    instantiatingModuleAt R' f' loc = instantiatingModuleAt R f loc := by
  unfold instantiatingModuleAt
  simp only [hns]
  rw [IncludeLink.distinctModules_split hr, List.filter_map]
  have hfilt : R.distinctModules.filter ((fun m : Mod => (m.stmt.argOf? "namespace").getD "" == namespaceAt R f loc) ∘ IncludeLink.repl s) =
      R.distinctModules.filter (fun m : Mod => (m.stmt.argOf? "namespace").getD "" == namespaceAt R f loc) := by
    apply List.filter_congr
    intro x hx
    simp only [Function.comp, repl_ns ht hr (mem_distinct_mods hx)]
  rw [hfilt]
  have hsub : ∀ x ∈ R.distinctModules.filter (fun m : Mod => (m.stmt.argOf? "namespace").getD "" == namespaceAt R f loc),
      x ∈ R.mods := fun x hx => mem_distinct_mods (List.mem_filter.1 hx).1
  generalize R.distinctModules.filter (fun m : Mod => (m.stmt.argOf? "namespace").getD "" == namespaceAt R f loc) = l at hsub
  cases l with
  | nil => rfl
  | cons m0 rest =>
    simp only [List.map_cons]
    rw [repl_name ht hr (hsub m0 (List.mem_cons_self ..))]
    have : (rest.map (IncludeLink.repl s)).all (fun x => x.name == m0.name) = rest.all (fun x => x.name == m0.name) := by
      apply all_map_congr
      intro x hx
      rw [repl_name ht hr (hsub x (List.mem_cons_of_mem _ hx))]
    rw [this]

end Inst

/-! ### the dump of the two results -/

section Final
variable {s : Split} {R R' : Registry} (opts : Opts) (plug plug' : Plug) (h : IsSplitOf s R R' plug plug')

include h in
/-- **The canonical dumps are equal** (no augment or deviation statement in the set). -/
theorem dumpOf_split (hna : NoAugDev R) (hclean : (processAll R opts plug).errors = []) :
    dumpOf (processAll R' opts plug') s.owner = dumpOf (processAll R opts plug) s.m := by
  obtain ⟨_, _, ⟨t, ht⟩, k4⟩ := process_split opts plug plug' h hna hclean
  obtain ⟨t', ht', hst⟩ := k4 t ht
  have hnd := names_nodup_of_clean R opts plug hclean _ t ht
  have hW : DW R R' (processAll R opts plug).forest (processAll R' opts plug').forest t' t s.m.seq :=
    ⟨fun p => readOnlyAt_sameTop s.σ t' t hst hnd p,
     fun p => (process_split_paths opts plug plug' h hna hclean p).1,
     fun p => inst_split h.text h.regs _ _ _ (process_split_paths opts plug plug' h hna hclean p).1,
     fun p => pathString_sameTop s.σ t' t hst hnd p⟩
  unfold dumpOf
  rw [processAll_reg, processAll_reg, h.regs.owner_seq, ht, ht', IncludeLink.owner_fullName h.text]
  exact dumpTree_root hW s.σ _ hst hnd

end Final

end Goyang.Lemmas.IncludeDump
