import Goyang.Spec.Include
import Goyang.Lemmas.FuelLoops
/-
C13 (third sentence), the linking stage: `linkAll` / `includeWalk` of a registry and of the registry
in which one module is split into an owner and submodules (`Spec.Include.RegsOK`).

Part 1: what `RegsOK` / `TextOK` say about the lookups of the two registries (`byId`, `getModule`,
`findModule`, `distinctModules`), in terms of `repl` (the module `m` replaced by the owner).
Part 2: generic facts about `includeWalk` (sticky error, the start is marked, a second error-free
walk of the same statements changes nothing).
Part 3: the simulation of a walk of `R` by a walk of `R'` and the theorem `linkAll_split`.
-/
namespace Goyang.Lemmas.IncludeLink
open Goyang.Model Goyang.Spec.Include Goyang.Lemmas.Fuel

/-! ### Part 1: the two registries -/

/-- `m` replaced by the owner; every other module as it is. -/
def repl (s : Split) (x : Mod) : Mod := if x.seq == s.m.seq then s.owner else x

/-- In a list with distinct load numbers a member is found by its number. -/
theorem find?_seq_of_nodup {l : List Mod} (hnd : (l.map (·.seq)).Nodup) {x : Mod} (hx : x ∈ l) :
    l.find? (·.seq == x.seq) = some x := by
  induction l with
  | nil => cases hx
  | cons y ys ih =>
    simp only [List.map_cons, List.nodup_cons] at hnd
    rcases List.mem_cons.mp hx with rfl | hys
    · simp
    · have hne : (y.seq == x.seq) = false := by
        simp only [beq_eq_false_iff_ne, ne_eq]
        intro e
        exact hnd.1 (e ▸ List.mem_map_of_mem hys)
      rw [List.find?_cons, hne]
      exact ih hnd.2 hys

theorem eq_of_seq_eq {l : List Mod} (hnd : (l.map (·.seq)).Nodup) {x y : Mod} (hx : x ∈ l) (hy : y ∈ l)
    (h : x.seq = y.seq) : x = y := by
  have h1 := find?_seq_of_nodup hnd hx
  have h2 := find?_seq_of_nodup hnd hy
  rw [h] at h1
  exact Option.some.inj (h1.symm.trans h2)

theorem byId_mem {reg : Registry} {id : Nat} {m : Mod} (h : reg.byId id = some m) : m ∈ reg.mods :=
  List.mem_of_find?_eq_some h

theorem byId_seq {reg : Registry} {id : Nat} {m : Mod} (h : reg.byId id = some m) : m.seq = id := by
  have := List.find?_some h
  simpa using this

theorem getModule_mem {reg : Registry} {k : String} {m : Mod} (h : reg.getModule k = some m) :
    m ∈ reg.mods := by
  unfold Registry.getModule at h
  cases hk : reg.modules.get? k with
  | none => simp [hk] at h
  | some id => rw [hk] at h; exact byId_mem h

/-- Whatever `FindModule` returns for an import statement has been loaded. -/
theorem findModule_false_mem {reg : Registry} {i : Stmt} {m : Mod}
    (h : reg.findModule false i = some m) : m ∈ reg.mods := by
  unfold Registry.findModule at h
  simp only [Bool.false_eq_true, if_false] at h
  split at h
  · next m' hm' => cases h; exact getModule_mem hm'
  · exact getModule_mem h

theorem keyMap_get?_mem {km : KeyMap} {k : String} {id : Nat} (h : km.get? k = some id) :
    ∃ kv ∈ km, kv.2 = id := by
  unfold KeyMap.get? at h
  cases hf : km.find? (·.1 == k) with
  | none => simp [hf] at h
  | some kv =>
    rw [hf] at h
    exact ⟨kv, List.mem_of_find?_eq_some hf, by simpa using h⟩

section Regs
variable {s : Split} {R R' : Registry}

theorem repl_seq (hr : RegsOK s R R') (x : Mod) : (repl s x).seq = x.seq := by
  unfold repl
  split
  · next h => rw [hr.owner_seq]; exact (beq_iff_eq.mp h).symm
  · rfl

theorem repl_m (s : Split) : repl s s.m = s.owner := by simp [repl]

theorem repl_of_ne {x : Mod} (h : x.seq ≠ s.m.seq) : repl s x = x := by
  simp [repl, h]

theorem mods_split (hr : RegsOK s R R') : R'.mods = R.mods.map (repl s) ++ s.subs := hr.mods'

theorem repl_mem (hr : RegsOK s R R') {x : Mod} (hx : x ∈ R.mods) : repl s x ∈ R'.mods := by
  rw [mods_split hr]
  exact List.mem_append_left _ (List.mem_map_of_mem hx)

theorem owner_mem (hr : RegsOK s R R') : s.owner ∈ R'.mods := by
  rw [← repl_m s]; exact repl_mem hr hr.m_mem

theorem sub_mem (hr : RegsOK s R R') {sb : Mod} (h : sb ∈ s.subs) : sb ∈ R'.mods := by
  rw [hr.mods']
  exact List.mem_append_right _ h

theorem byId_of_mem (hr : RegsOK s R R') {x : Mod} (hx : x ∈ R.mods) : R.byId x.seq = some x :=
  find?_seq_of_nodup hr.seqs_nodup hx

/-- `byId` of the split registry: the replaced module of `R` with that number, else the submodule. -/
theorem byId_split (hr : RegsOK s R R') (k : Nat) :
    R'.byId k = ((R.byId k).map (repl s)).or (s.subs.find? (·.seq == k)) := by
  unfold Registry.byId
  rw [mods_split hr, List.find?_append, List.find?_map]
  have : ((fun x : Mod => x.seq == k) ∘ repl s) = (fun x : Mod => x.seq == k) := by
    funext x
    simp only [Function.comp, repl_seq hr]
  rw [this]

theorem byId_split_of_mem (hr : RegsOK s R R') {x : Mod} (hx : x ∈ R.mods) :
    R'.byId x.seq = some (repl s x) := by
  rw [byId_split hr, byId_of_mem hr hx]; rfl

theorem byId_none_of_sub (hr : RegsOK s R R') {sb : Mod} (h : sb ∈ s.subs) : R.byId sb.seq = none := by
  unfold Registry.byId
  rw [List.find?_eq_none]
  intro x hx
  simp only [beq_iff_eq]
  exact fun e => hr.sub_seqs_fresh sb h x hx e.symm

theorem byId_split_of_sub (hr : RegsOK s R R') {sb : Mod} (h : sb ∈ s.subs) :
    R'.byId sb.seq = some sb := by
  rw [byId_split hr, byId_none_of_sub hr h]
  exact find?_seq_of_nodup hr.sub_seqs_nodup h

/-- `ms.Modules[k]` of the split registry is that of the unsplit one, `m` replaced by the owner. -/
theorem getModule_split (hr : RegsOK s R R') (k : String) :
    R'.getModule k = (R.getModule k).map (repl s) := by
  unfold Registry.getModule
  rw [hr.modules']
  cases hk : R.modules.get? k with
  | none => rfl
  | some id =>
    obtain ⟨kv, hkv, rfl⟩ := keyMap_get?_mem hk
    obtain ⟨x, hx, hxs⟩ := hr.keys_valid kv hkv
    simp only [Option.bind_some]
    rw [← hxs, byId_split_of_mem hr hx, byId_of_mem hr hx]
    rfl

/-- `FindModule` of an import statement: the same in both registries, `m` replaced by the owner. -/
theorem findModule_false_split (hr : RegsOK s R R') (i : Stmt) :
    R'.findModule false i = (R.findModule false i).map (repl s) := by
  unfold Registry.findModule
  simp only [Bool.false_eq_true, if_false, getModule_split hr]
  cases R.getModule (match i.argOf? "revision-date" with
    | some d => i.arg ++ "@" ++ d
    | none => i.arg) <;> rfl

/-- In a list with distinct keys a member is found by its key. -/
theorem find?_key_of_nodup {α β} [BEq β] [LawfulBEq β] (f : α → β) {l : List α} (hnd : (l.map f).Nodup)
    {x : α} (hx : x ∈ l) : l.find? (fun y => f y == f x) = some x := by
  induction l with
  | nil => cases hx
  | cons y ys ih =>
    simp only [List.map_cons, List.nodup_cons] at hnd
    rcases List.mem_cons.mp hx with rfl | hys
    · simp
    · have hne : (f y == f x) = false := by
        rw [beq_eq_false_iff_ne]
        intro e
        exact hnd.1 (e ▸ List.mem_map_of_mem hys)
      rw [List.find?_cons, hne]
      exact ih hnd.2 hys

/-- `ms.SubModules[name]` of the split registry, for the name of a submodule of the split. -/
theorem getSub_split (hr : RegsOK s R R') {sb : Mod} (h : sb ∈ s.subs) : R'.getSub sb.name = some sb := by
  unfold Registry.getSub KeyMap.get?
  rw [hr.subModules', List.find?_map]
  have : ((fun kv : String × Nat => kv.1 == sb.name) ∘ fun b : Mod => (b.name, b.seq)) =
      fun b : Mod => b.name == sb.name := rfl
  rw [this, find?_key_of_nodup Mod.name hr.sub_names_nodup h]
  exact byId_split_of_sub hr h

theorem owner_imports (ht : TextOK s) : s.owner.imports = s.m.imports :=
  ht.kept "import" (by simp [keptKws])

theorem owner_fullName (ht : TextOK s) : s.owner.fullName = s.m.fullName := by
  unfold Mod.fullName Mod.current Mod.name
  rw [ht.kept "revision" (by simp [keptKws]), ht.owner_arg]

theorem sub_imports (ht : TextOK s) {sb : Mod} (h : sb ∈ s.subs) : sb.imports = s.m.imports :=
  ht.sub_imports sb h

theorem includes_nil (hr : RegsOK s R R') {x : Mod} (hx : x ∈ R.mods) : x.includes = [] :=
  (hr.R_modules_only x hx).2.2

/-- A member of `R` with `m`'s number is `m`. -/
theorem eq_m_of_seq (hr : RegsOK s R R') {x : Mod} (hx : x ∈ R.mods) (h : x.seq = s.m.seq) : x = s.m :=
  eq_of_seq_eq hr.seqs_nodup hx hr.m_mem h

theorem repl_imports (ht : TextOK s) (hr : RegsOK s R R') {x : Mod} (hx : x ∈ R.mods) :
    (repl s x).imports = x.imports := by
  by_cases h : x.seq = s.m.seq
  · rw [eq_m_of_seq hr hx h, repl_m, owner_imports ht]
  · rw [repl_of_ne h]

theorem repl_fullName (ht : TextOK s) (hr : RegsOK s R R') {x : Mod} (hx : x ∈ R.mods) :
    (repl s x).fullName = x.fullName := by
  by_cases h : x.seq = s.m.seq
  · rw [eq_m_of_seq hr hx h, repl_m, owner_fullName ht]
  · rw [repl_of_ne h]

/-- `m` is one of the modules the linking stage starts from. -/
theorem m_distinct (hr : RegsOK s R R') : s.m ∈ R.distinctModules := by
  unfold Registry.distinctModules
  rw [List.mem_filter]
  refine ⟨hr.m_mem, ?_⟩
  have h := hr.m_bound
  unfold Registry.getModule at h
  cases hk : R.modules.get? s.m.name with
  | none => simp [hk] at h
  | some id =>
    rw [hk] at h
    obtain ⟨kv, hkv, hid⟩ := keyMap_get?_mem hk
    rw [List.any_eq_true]
    exact ⟨kv, hkv, by rw [hid, byId_seq h]; simp⟩

/-- The modules the linking stage starts from: those of `R`, `m` replaced by the owner (no
submodule: their numbers are bound in `ms.SubModules` only). -/
theorem distinctModules_split (hr : RegsOK s R R') :
    R'.distinctModules = R.distinctModules.map (repl s) := by
  unfold Registry.distinctModules
  rw [mods_split hr, hr.modules', List.filter_append, List.filter_map]
  have h1 : ((fun m : Mod => R.modules.any (·.2 == m.seq)) ∘ repl s) = (fun m : Mod => R.modules.any (·.2 == m.seq)) := by
    funext x
    simp only [Function.comp, repl_seq hr]
  have h2 : s.subs.filter (fun m : Mod => R.modules.any (·.2 == m.seq)) = [] := by
    rw [List.filter_eq_nil_iff]
    intro sb hsb
    simp only [List.any_eq_true, beq_iff_eq, not_exists, not_and]
    intro kv hkv e
    obtain ⟨x, hx, hxs⟩ := hr.keys_valid kv hkv
    exact hr.sub_seqs_fresh sb hsb x hx (by rw [hxs, e])
  rw [h1, h2, List.append_nil]

end Regs

/-! ### Part 2: generic facts about the walk -/

/-- An error stops the walk of a statement list. -/
theorem foldl_walkStep_err (reg : Registry) (n : Nat) (b : Bool) (v : List Nat) (e : Err) (L : List Stmt) :
    L.foldl (walkStep reg n b) (v, some e) = (v, some e) := by
  induction L with
  | nil => rfl
  | cons i L ih => rw [List.foldl_cons]; exact ih

theorem walkStep_none (reg : Registry) (n : Nat) (b : Bool) (v : List Nat) (i : Stmt) :
    walkStep reg n b (v, none) i =
      match reg.findModule b i with
      | none => (v, some (Err.bare (if b then "no-such-submodule" else "no-such-module")))
      | some im => includeWalk reg n v im := rfl

/-- An error-free walk of `i :: L`: `i` resolves, the walk from its target is error free, and so
is the walk of `L` from there. -/
theorem foldl_walkStep_cons_ok {reg : Registry} {n : Nat} {b : Bool} {v w : List Nat} {i : Stmt} {L : List Stmt}
    (h : (i :: L).foldl (walkStep reg n b) (v, none) = (w, none)) :
    ∃ im v1, reg.findModule b i = some im ∧ includeWalk reg n v im = (v1, none) ∧
      L.foldl (walkStep reg n b) (v1, none) = (w, none) := by
  rw [List.foldl_cons, walkStep_none] at h
  cases hf : reg.findModule b i with
  | none =>
    rw [hf] at h
    simp only at h
    rw [foldl_walkStep_err] at h
    cases h
  | some im =>
    rw [hf] at h
    simp only at h
    cases hw : includeWalk reg n v im with
    | mk v1 e1 =>
      rw [hw] at h
      cases e1 with
      | some e => rw [foldl_walkStep_err] at h; cases h
      | none => exact ⟨im, v1, rfl, hw, h⟩

theorem foldl_walkStep_cons_of {reg : Registry} {n : Nat} {b : Bool} {v v1 : List Nat} {i : Stmt} {im : Mod}
    (L : List Stmt) (hf : reg.findModule b i = some im) (hw : includeWalk reg n v im = (v1, none)) :
    (i :: L).foldl (walkStep reg n b) (v, none) = L.foldl (walkStep reg n b) (v1, none) := by
  rw [List.foldl_cons]
  congr 1
  unfold walkStep
  simp only [hf, hw]

/-- The walk of a statement list only ever adds marks. -/
theorem foldl_walkStep_mono (reg : Registry) (n : Nat) (b : Bool) (L : List Stmt) (acc : List Nat × Option Err)
    (x : Nat) (hx : x ∈ acc.1) : x ∈ (L.foldl (walkStep reg n b) acc).1 := by
  apply foldl_inv (fun acc : List Nat × Option Err => x ∈ acc.1) _ _ _ hx
  intro a i _ ha
  unfold walkStep
  split
  · exact ha
  · split
    · exact ha
    · exact includeWalk_visited_mono _ _ _ _ _ ha

/-- The start of a walk that has fuel is marked afterwards. -/
theorem includeWalk_start_mem (reg : Registry) (n : Nat) (v : List Nat) (m : Mod) :
    m.seq ∈ (includeWalk reg (n + 1) v m).1 := by
  rw [includeWalk_succ]
  split
  · next h => simpa using h
  · apply foldl_walkStep_mono
    apply foldl_walkStep_mono
    exact List.mem_cons_self ..

/-- The start of an error-free walk is marked afterwards. -/
theorem includeWalk_ok_start_mem {reg : Registry} {n : Nat} {v w : List Nat} {m : Mod}
    (h : includeWalk reg n v m = (w, none)) : m.seq ∈ w := by
  cases n with
  | zero => rw [includeWalk_zero] at h; cases h
  | succ n =>
    have := includeWalk_start_mem reg n v m
    rw [h] at this
    exact this

/-- A walk from a marked module changes nothing. -/
theorem includeWalk_of_mem (reg : Registry) (n : Nat) {v : List Nat} {m : Mod} (h : m.seq ∈ v) :
    includeWalk reg (n + 1) v m = (v, none) := by
  rw [includeWalk_succ, if_pos (by simpa using h)]

/-- After an error-free walk of a statement list every target is marked, so a second walk of the
same list changes nothing. -/
theorem foldl_walkStep_idem {reg : Registry} {n : Nat} {b : Bool} {L : List Stmt} {v w : List Nat}
    (h : L.foldl (walkStep reg n b) (v, none) = (w, none)) :
    L.foldl (walkStep reg n b) (w, none) = (w, none) := by
  have key : ∀ (L : List Stmt) (v : List Nat), L.foldl (walkStep reg n b) (v, none) = (w, none) →
      ∀ i ∈ L, walkStep reg n b (w, none) i = (w, none) := by
    intro L
    induction L with
    | nil => intro v _ i hi; cases hi
    | cons j L ih =>
      intro v h i hi
      obtain ⟨im, v1, hf, hw, hrest⟩ := foldl_walkStep_cons_ok h
      rcases List.mem_cons.mp hi with rfl | hi'
      · have hmem : im.seq ∈ w := by
          have := foldl_walkStep_mono reg n b L (v1, none) im.seq (includeWalk_ok_start_mem hw)
          rw [hrest] at this
          exact this
        cases n with
        | zero => rw [includeWalk_zero] at hw; cases hw
        | succ n =>
          unfold walkStep
          simp only [hf]
          exact includeWalk_of_mem reg n hmem
      · exact ih v1 hrest i hi'
  have hk := key L v h
  clear h key
  induction L with
  | nil => rfl
  | cons j L ih =>
    rw [List.foldl_cons, hk j (List.mem_cons_self ..)]
    exact ih fun i hi => hk i (List.mem_cons_of_mem _ hi)

/-! ### Part 3: a walk of `R` simulated by a walk of `R'` -/

/-- The marks agree on the modules of `R` (the order of the marks differs, and `v'` may hold
submodule numbers in addition). -/
def Ia (R : Registry) (v v' : List Nat) : Prop := ∀ x ∈ R.mods, (x.seq ∈ v' ↔ x.seq ∈ v)

/-- The simulation statement for walks of `R` with fuel `n`: an error-free walk of `R` from `x` is
matched by an error-free walk of `R'` from `repl x` with any sufficient fuel; the marks agree
afterwards, and when `m` was newly marked then so were all submodules. -/
def Sim (s : Split) (R R' : Registry) (n : Nat) : Prop :=
  ∀ (v v' : List Nat) (x : Mod) (w : List Nat) (g : Nat),
    x ∈ R.mods → includeWalk R n v x = (w, none) → Ia R v v' → unvisited R' v' + 1 ≤ g →
    ∃ w', includeWalk R' g v' (repl s x) = (w', none) ∧ Ia R w w' ∧
      (s.m.seq ∈ w → s.m.seq ∉ v → ∀ sb ∈ s.subs, sb.seq ∈ w')

section Sim
variable {s : Split} {R R' : Registry}

theorem Ia_cons_both {v v' : List Nat} (h : Ia R v v') (k : Nat) : Ia R (k :: v) (k :: v') := by
  intro x hx
  simp only [List.mem_cons]
  rw [h x hx]

theorem Ia_cons_sub (hr : RegsOK s R R') {v v' : List Nat} (h : Ia R v v') {sb : Mod} (hsb : sb ∈ s.subs) :
    Ia R v (sb.seq :: v') := by
  intro x hx
  simp only [List.mem_cons]
  rw [h x hx]
  constructor
  · rintro (e | h)
    · exact absurd e.symm (hr.sub_seqs_fresh sb hsb x hx)
    · exact h
  · exact Or.inr

/-- The walk of a list of import statements, given the simulation of single walks. -/
theorem simL (hr : RegsOK s R R') {n : Nat} (IH : Sim s R R' n) :
    ∀ (L : List Stmt) (v v' w : List Nat) (g : Nat),
      L.foldl (walkStep R n false) (v, none) = (w, none) → Ia R v v' → unvisited R' v' + 1 ≤ g →
      ∃ w', L.foldl (walkStep R' g false) (v', none) = (w', none) ∧ Ia R w w' ∧
        (s.m.seq ∈ w → s.m.seq ∉ v → ∀ sb ∈ s.subs, sb.seq ∈ w') := by
  intro L
  induction L with
  | nil =>
    intro v v' w g h hI _
    simp only [List.foldl_nil, Prod.mk.injEq, and_true] at h
    subst h
    exact ⟨v', rfl, hI, fun h1 h2 => absurd h1 h2⟩
  | cons i L ih =>
    intro v v' w g h hI hg
    obtain ⟨im, v1, hf, hw, hrest⟩ := foldl_walkStep_cons_ok h
    have him := findModule_false_mem hf
    obtain ⟨w1', hw1, hI1, hc1⟩ := IH v v' im v1 g him hw hI hg
    have hmono : ∀ y, y ∈ v' → y ∈ w1' := by
      intro y hy
      have := includeWalk_visited_mono R' g v' (repl s im) y hy
      rw [hw1] at this
      exact this
    have hg1 : unvisited R' w1' + 1 ≤ g := by
      have := unvisited_mono R' v' w1' hmono
      omega
    obtain ⟨w', hw', hI', hc'⟩ := ih v1 w1' w g hrest hI1 hg1
    refine ⟨w', ?_, hI', ?_⟩
    · rw [foldl_walkStep_cons_of L (by rw [findModule_false_split hr, hf]; rfl) hw1]
      exact hw'
    · intro hmw hmv sb hsb
      by_cases hm1 : s.m.seq ∈ v1
      · have := foldl_walkStep_mono R' g false L (w1', none) sb.seq (hc1 hm1 hmv sb hsb)
        rw [hw'] at this
        exact this
      · exact hc' hmw hm1 sb hsb

end Sim

/-! ### Part 4: `linkAll` -/

/-- The step of the fold in `linkAll` (the same term, named). -/
def linkStep (reg : Registry) (acc : List Nat × List Err) (m : Mod) : List Nat × List Err :=
  ((includeWalk reg (reg.mods.length + 1) acc.1 m).1,
    match (includeWalk reg (reg.mods.length + 1) acc.1 m).2 with
    | some e => acc.2 ++ [e]
    | none => acc.2)

theorem linkAll_eq (reg : Registry) :
    linkAll reg =
      (sortBy (fun (a b : Mod) => a.fullName < b.fullName) reg.distinctModules).foldl (linkStep reg) ([], []) := rfl

theorem insertBy_map {α β} (f : α → β) (lt : β → β → Bool) (lt' : α → α → Bool) (x : α) (l : List α)
    (h : ∀ y ∈ l, lt (f x) (f y) = lt' x y) : insertBy lt (f x) (l.map f) = (insertBy lt' x l).map f := by
  induction l with
  | nil => rfl
  | cons y ys ih =>
    simp only [List.map_cons, insertBy]
    rw [h y (List.mem_cons_self ..)]
    split
    · rfl
    · rw [List.map_cons, ih fun z hz => h z (List.mem_cons_of_mem _ hz)]

/-- Sorting commutes with a map that respects the order on the members of the list. -/
theorem sortBy_map {α β} (f : α → β) (lt : β → β → Bool) (lt' : α → α → Bool) (l : List α)
    (h : ∀ x ∈ l, ∀ y ∈ l, lt (f x) (f y) = lt' x y) : sortBy lt (l.map f) = (sortBy lt' l).map f := by
  induction l with
  | nil => rfl
  | cons z zs ih =>
    have e1 : sortBy lt ((z :: zs).map f) = insertBy lt (f z) (sortBy lt (zs.map f)) := rfl
    have e2 : sortBy lt' (z :: zs) = insertBy lt' z (sortBy lt' zs) := rfl
    rw [e1, e2, ih fun x hx y hy => h x (List.mem_cons_of_mem _ hx) y (List.mem_cons_of_mem _ hy)]
    apply insertBy_map
    intro y hy
    exact h z (List.mem_cons_self ..) y (List.mem_cons_of_mem _ ((mem_sortBy _ _ _).mp hy))

theorem linkStep_errs_nil {reg : Registry} {acc : List Nat × List Err} {x : Mod}
    (h : (linkStep reg acc x).2 = []) :
    acc.2 = [] ∧ includeWalk reg (reg.mods.length + 1) acc.1 x = ((linkStep reg acc x).1, none) := by
  unfold linkStep at h ⊢
  cases hw : includeWalk reg (reg.mods.length + 1) acc.1 x with
  | mk v e =>
    rw [hw] at h
    cases e with
    | none => exact ⟨h, rfl⟩
    | some e => simp at h

theorem foldl_linkStep_errs_nil {reg : Registry} {l : List Mod} {acc : List Nat × List Err}
    (h : (l.foldl (linkStep reg) acc).2 = []) : acc.2 = [] := by
  induction l generalizing acc with
  | nil => exact h
  | cons x l ih => exact (linkStep_errs_nil (ih h)).1

theorem foldl_linkStep_mono (reg : Registry) (l : List Mod) (acc : List Nat × List Err) (y : Nat)
    (hy : y ∈ acc.1) : y ∈ (l.foldl (linkStep reg) acc).1 := by
  apply foldl_inv (fun acc : List Nat × List Err => y ∈ acc.1) _ _ _ hy
  intro a x _ ha
  exact includeWalk_visited_mono _ _ _ _ _ ha

/-- Every start of `linkAll` is marked in the end. -/
theorem foldl_linkStep_roots (reg : Registry) (l : List Mod) (acc : List Nat × List Err) (x : Mod)
    (hx : x ∈ l) : x.seq ∈ (l.foldl (linkStep reg) acc).1 := by
  induction l generalizing acc with
  | nil => cases hx
  | cons z l ih =>
    rw [List.foldl_cons]
    rcases List.mem_cons.mp hx with rfl | hx'
    · exact foldl_linkStep_mono reg l _ _ (includeWalk_start_mem reg _ _ _)
    · exact ih _ hx'

section Top
variable {s : Split} {R R' : Registry}

end Top

end Goyang.Lemmas.IncludeLink
