import Goyang.Lemmas.IncludeLink
/-
C13 (third sentence), the linking stage for NESTED includes: `linkAll` / `includeWalk` of a registry
and of the registry in which one module is split into an owner and submodules that may include
each other (`Spec.Include.RegsOK`, general fields `inc_resolve`, `inc_cover` only; nothing here uses
the one-level fields of `RegsOK`).

Part 1: the parts of the split and their include statements.
Part 2: the walk of one part inside the walk of the owner (`partBody`): a depth-first traversal of
the include graph; the first part that finishes its include statements walks `m`'s import
statements as the unsplit registry does, every later one changes nothing.
Part 3: the simulation of a walk of `R` by a walk of `R'` (`simN`) and the theorem `linkAll_splitN`.
-/
namespace Goyang.Lemmas.IncludeLinkN
open Goyang.Model Goyang.Spec.Include Goyang.Lemmas.Fuel Goyang.Lemmas.IncludeLink

/-! ### Part 1: the parts of the split -/

section Parts
variable {s : Split} {R R' : Registry}

theorem owner_part (s : Split) : s.owner ∈ s.parts := List.mem_cons_self ..

theorem sub_part {sb : Mod} (h : sb ∈ s.subs) : sb ∈ s.parts := List.mem_cons_of_mem _ h

theorem part_cases {P : Mod} (h : P ∈ s.parts) : P = s.owner ∨ P ∈ s.subs := List.mem_cons.mp h

/-- Every part of the split is loaded in the split registry. -/
theorem part_mem (hr : RegsOK s R R') {P : Mod} (h : P ∈ s.parts) : P ∈ R'.mods := by
  rcases part_cases h with rfl | h
  · exact owner_mem hr
  · exact sub_mem hr h

/-- Every part of the split carries `m`'s import statements. -/
theorem part_imports (ht : TextOK s) {P : Mod} (h : P ∈ s.parts) : P.imports = s.m.imports := by
  rcases part_cases h with rfl | h
  · exact owner_imports ht
  · exact sub_imports ht h

/-- An include statement of a part resolves to a submodule of the split. -/
theorem part_include_resolves (hr : RegsOK s R R') {P : Mod} (hP : P ∈ s.parts) {i : Stmt}
    (hi : i ∈ P.includes) : ∃ sb ∈ s.subs, R'.findModule true i = some sb :=
  hr.inc_resolve P hP i hi

/-- What a part includes is a submodule of the split. -/
theorem includes_sub (hr : RegsOK s R R') {P T : Mod} (hP : P ∈ s.parts) (h : Includes R' P T) :
    T ∈ s.subs := by
  obtain ⟨a, ha, hf⟩ := h
  obtain ⟨sb, hsb, hf'⟩ := hr.inc_resolve P hP a ha
  rw [hf] at hf'
  cases hf'
  exact hsb

theorem sub_seq_ne_m (hr : RegsOK s R R') {sb : Mod} (h : sb ∈ s.subs) : sb.seq ≠ s.m.seq :=
  hr.sub_seqs_fresh sb h s.m hr.m_mem

/-- A part of the split is identified by its load number. -/
theorem part_seq_inj (hr : RegsOK s R R') {P Q : Mod} (hP : P ∈ s.parts) (hQ : Q ∈ s.parts)
    (h : P.seq = Q.seq) : P = Q := by
  rcases part_cases hP with rfl | hP <;> rcases part_cases hQ with rfl | hQ
  · rfl
  · exact absurd (h.symm.trans hr.owner_seq) (sub_seq_ne_m hr hQ)
  · exact absurd (h.trans hr.owner_seq) (sub_seq_ne_m hr hP)
  · exact eq_of_seq_eq hr.sub_seqs_nodup hP hQ h

/-- What is reached from a marked part through include statements is a marked part, when the
include targets of every marked part are marked. -/
theorem incReach_marked (hr : RegsOK s R R') {w' : List Nat}
    (hcl : ∀ Q ∈ s.parts, Q.seq ∈ w' → ∀ T, Includes R' Q T → T.seq ∈ w') {P Q : Mod}
    (h : IncReach R' P Q) : P ∈ s.parts → P.seq ∈ w' → Q ∈ s.parts ∧ Q.seq ∈ w' := by
  induction h with
  | refl => exact fun h1 h2 => ⟨h1, h2⟩
  | step _ hinc ih =>
    intro h1 h2
    obtain ⟨i1, i2⟩ := ih h1 h2
    exact ⟨sub_part (includes_sub hr i1 hinc), hcl _ i1 i2 _ hinc⟩

/-- When the owner is marked and the include targets of every marked part are marked, every
submodule is marked (`RegsOK.inc_cover`). -/
theorem cover_of_closed (hr : RegsOK s R R') {w' : List Nat} (ho : s.owner.seq ∈ w')
    (hcl : ∀ Q ∈ s.parts, Q.seq ∈ w' → ∀ T, Includes R' Q T → T.seq ∈ w') :
    ∀ sb ∈ s.subs, sb.seq ∈ w' :=
  fun sb hsb => (incReach_marked hr hcl (hr.inc_cover sb hsb) (owner_part s) ho).2

end Parts

/-! ### Part 2: the walk of a part -/

/-- No submodule is marked before `m` is. -/
def Ib (s : Split) (v v' : List Nat) : Prop := s.m.seq ∉ v → ∀ sb ∈ s.subs, sb.seq ∉ v'

/-- Every part marked between `a` and `b` has all its include targets marked in `b`. -/
def Closed (s : Split) (R' : Registry) (a b : List Nat) : Prop :=
  ∀ Q ∈ s.parts, Q.seq ∈ b → Q.seq ∉ a → ∀ T, Includes R' Q T → T.seq ∈ b

section Part
variable {s : Split} {R R' : Registry}

/-- **The walk of a part that has just been marked**, inside the walk of the owner.  `A` and `B` are
the marks of `R` before and after the walk of `m`'s import statements; `stepL` says that a walk of
these statements in `R'` from marks that correspond to `A` or to `B` ends in marks that correspond
to `B` and marks no submodule.  Then the walk of the part's include statements and of its import
statements is error free, ends in marks that correspond to `B`, marks every include target of the
part, and every part marked on the way has all its include targets marked. -/
theorem partBody (ht : TextOK s) (hr : RegsOK s R R') {A B : List Nat} (hA : s.m.seq ∈ A) (hB : s.m.seq ∈ B)
    (stepL : ∀ cur g1, (Ia R A cur ∨ Ia R B cur) → unvisited R' cur + 1 ≤ g1 →
      ∃ cur', s.m.imports.foldl (walkStep R' g1 false) (cur, none) = (cur', none) ∧ Ia R B cur' ∧
        (∀ sb ∈ s.subs, sb.seq ∈ cur' → sb.seq ∈ cur)) :
    ∀ (g : Nat) (P : Mod) (cur : List Nat), P ∈ s.parts →
      (Ia R A cur ∨ Ia R B cur) → unvisited R' cur + 1 ≤ g →
      ∃ cur', P.imports.foldl (walkStep R' g false)
          (P.includes.foldl (walkStep R' g true) (cur, none)) = (cur', none) ∧
        Ia R B cur' ∧ (∀ y, y ∈ cur → y ∈ cur') ∧ (∀ T, Includes R' P T → T.seq ∈ cur') ∧
        Closed s R' cur cur' := by
  intro g
  induction g with
  | zero => intro P cur _ _ hg; omega
  | succ g1 IHg =>
    intro P cur hP hSt hg
    have hmcur : ∀ c, (Ia R A c ∨ Ia R B c) → s.m.seq ∈ c := by
      intro c h
      rcases h with h | h
      · exact (h s.m hr.m_mem).mpr hA
      · exact (h s.m hr.m_mem).mpr hB
    -- the walk of a list of include statements each of which resolves to a submodule
    have incl : ∀ (incs : List Stmt) (cur : List Nat),
        (∀ a ∈ incs, ∃ sb ∈ s.subs, R'.findModule true a = some sb) →
        (Ia R A cur ∨ Ia R B cur) → unvisited R' cur + 1 ≤ g1 + 1 →
        ∃ cur', incs.foldl (walkStep R' (g1 + 1) true) (cur, none) = (cur', none) ∧
          (Ia R A cur' ∨ Ia R B cur') ∧ (∀ y, y ∈ cur → y ∈ cur') ∧
          (∀ a ∈ incs, ∀ T, R'.findModule true a = some T → T.seq ∈ cur') ∧ Closed s R' cur cur' := by
      intro incs
      induction incs with
      | nil =>
        intro cur _ hSt _
        exact ⟨cur, rfl, hSt, fun y hy => hy, fun a ha => (by cases ha), fun Q _ h1 h2 => absurd h1 h2⟩
      | cons i incs ih =>
        intro cur hres hSt hg
        obtain ⟨sb, hsb, hfi⟩ := hres i (List.mem_cons_self ..)
        have hwalk : ∃ cur1, includeWalk R' (g1 + 1) cur sb = (cur1, none) ∧
            (Ia R A cur1 ∨ Ia R B cur1) ∧ (∀ y, y ∈ cur → y ∈ cur1) ∧ sb.seq ∈ cur1 ∧
            Closed s R' cur cur1 := by
          by_cases hin : sb.seq ∈ cur
          · exact ⟨cur, includeWalk_of_mem R' g1 hin, hSt, fun y hy => hy, hin,
              fun Q _ h1 h2 => absurd h1 h2⟩
          · have hlt := unvisited_cons_lt R' cur sb (sub_mem hr hsb) (by simpa using hin)
            have hSt2 : Ia R A (sb.seq :: cur) ∨ Ia R B (sb.seq :: cur) :=
              hSt.imp (Ia_cons_sub hr · hsb) (Ia_cons_sub hr · hsb)
            obtain ⟨cur1, h1, h2, h3, h4, h5⟩ := IHg sb (sb.seq :: cur) (sub_part hsb) hSt2 (by omega)
            refine ⟨cur1, ?_, Or.inr h2, fun y hy => h3 y (List.mem_cons_of_mem _ hy),
              h3 _ (List.mem_cons_self ..), ?_⟩
            · rw [includeWalk_succ, if_neg (by simpa using hin)]
              exact h1
            · intro Q hQ hQ1 hQc T hT
              by_cases hQs : Q.seq = sb.seq
              · have hQeq := part_seq_inj hr hQ (sub_part hsb) hQs
                subst hQeq
                exact h4 T hT
              · exact h5 Q hQ hQ1 (by simp only [List.mem_cons, not_or]; exact ⟨hQs, hQc⟩) T hT
        obtain ⟨cur1, hw1, hSt1, hm1, hsb1, hcl1⟩ := hwalk
        have hg1 : unvisited R' cur1 + 1 ≤ g1 + 1 := by
          have := unvisited_mono R' _ _ hm1
          omega
        obtain ⟨cur', hf', hSt', hm', hall', hcl'⟩ :=
          ih cur1 (fun a ha => hres a (List.mem_cons_of_mem _ ha)) hSt1 hg1
        refine ⟨cur', ?_, hSt', fun y hy => hm' y (hm1 y hy), ?_, ?_⟩
        · rw [foldl_walkStep_cons_of incs hfi hw1]
          exact hf'
        · intro a ha T hT
          rcases List.mem_cons.mp ha with rfl | ha'
          · rw [hfi] at hT
            cases hT
            exact hm' _ hsb1
          · exact hall' a ha' T hT
        · intro Q hQ hQ1 hQc T hT
          by_cases hQ2 : Q.seq ∈ cur1
          · exact hm' _ (hcl1 Q hQ hQ2 hQc T hT)
          · exact hcl' Q hQ hQ1 hQ2 T hT
    obtain ⟨cur1, hf1, hSt1, hm1, hall1, hcl1⟩ :=
      incl P.includes cur (fun a ha => part_include_resolves hr hP ha) hSt hg
    have hg1 : unvisited R' cur1 + 1 ≤ g1 + 1 := by
      have := unvisited_mono R' _ _ hm1
      omega
    obtain ⟨cur', hf', hI', hnew⟩ := stepL cur1 (g1 + 1) hSt1 hg1
    have hm' : ∀ y, y ∈ cur1 → y ∈ cur' := by
      intro y hy
      have := foldl_walkStep_mono R' (g1 + 1) false s.m.imports (cur1, none) y hy
      rw [hf'] at this
      exact this
    refine ⟨cur', ?_, hI', fun y hy => hm' y (hm1 y hy), ?_, ?_⟩
    · rw [hf1, part_imports ht hP]
      exact hf'
    · intro T hT
      obtain ⟨a, ha, hfa⟩ := hT
      exact hm' _ (hall1 a ha T hfa)
    · intro Q hQ hQ1 hQc T hT
      have hQ2 : Q.seq ∈ cur1 := by
        rcases part_cases hQ with rfl | hQs
        · rw [hr.owner_seq]
          exact hmcur cur1 hSt1
        · exact hnew Q hQs hQ1
      exact hm' _ (hcl1 Q hQ hQ2 hQc T hT)

end Part

/-! ### Part 3: a walk of `R` simulated by a walk of `R'` -/

/-- The simulation statement for walks of `R` with fuel `n`: an error-free walk of `R` from `x` is
matched by an error-free walk of `R'` from `repl x` with any sufficient fuel, provided no submodule
is marked before `m` is; the marks agree afterwards, still no submodule is marked unless `m` is,
when `m` was newly marked then so were all submodules, and when `m` was marked before then no
submodule is newly marked. -/
def SimN (s : Split) (R R' : Registry) (n : Nat) : Prop :=
  ∀ (v v' : List Nat) (x : Mod) (w : List Nat) (g : Nat),
    x ∈ R.mods → includeWalk R n v x = (w, none) → Ia R v v' → Ib s v v' → unvisited R' v' + 1 ≤ g →
    ∃ w', includeWalk R' g v' (repl s x) = (w', none) ∧ Ia R w w' ∧ Ib s w w' ∧
      (s.m.seq ∈ w → s.m.seq ∉ v → ∀ sb ∈ s.subs, sb.seq ∈ w') ∧
      (s.m.seq ∈ v → ∀ sb ∈ s.subs, sb.seq ∈ w' → sb.seq ∈ v')

section Sim
variable {s : Split} {R R' : Registry}

/-- The walk of a list of import statements, given the simulation of single walks. -/
theorem simLN (hr : RegsOK s R R') {n : Nat} (IH : SimN s R R' n) :
    ∀ (L : List Stmt) (v v' w : List Nat) (g : Nat),
      L.foldl (walkStep R n false) (v, none) = (w, none) → Ia R v v' → Ib s v v' →
      unvisited R' v' + 1 ≤ g →
      ∃ w', L.foldl (walkStep R' g false) (v', none) = (w', none) ∧ Ia R w w' ∧ Ib s w w' ∧
        (s.m.seq ∈ w → s.m.seq ∉ v → ∀ sb ∈ s.subs, sb.seq ∈ w') ∧
        (s.m.seq ∈ v → ∀ sb ∈ s.subs, sb.seq ∈ w' → sb.seq ∈ v') := by
  intro L
  induction L with
  | nil =>
    intro v v' w g h hI hJ _
    simp only [List.foldl_nil, Prod.mk.injEq, and_true] at h
    subst h
    exact ⟨v', rfl, hI, hJ, fun h1 h2 => absurd h1 h2, fun _ _ _ h => h⟩
  | cons i L ih =>
    intro v v' w g h hI hJ hg
    obtain ⟨im, v1, hf, hw, hrest⟩ := foldl_walkStep_cons_ok h
    have him := findModule_false_mem hf
    obtain ⟨w1', hw1, hI1, hJ1, hc1, hd1⟩ := IH v v' im v1 g him hw hI hJ hg
    have hmono : ∀ y, y ∈ v' → y ∈ w1' := by
      intro y hy
      have := includeWalk_visited_mono R' g v' (repl s im) y hy
      rw [hw1] at this
      exact this
    have hg1 : unvisited R' w1' + 1 ≤ g := by
      have := unvisited_mono R' v' w1' hmono
      omega
    obtain ⟨w', hw', hI', hJ', hc', hd'⟩ := ih v1 w1' w g hrest hI1 hJ1 hg1
    refine ⟨w', ?_, hI', hJ', ?_, ?_⟩
    · rw [foldl_walkStep_cons_of L (by rw [findModule_false_split hr, hf]; rfl) hw1]
      exact hw'
    · intro hmw hmv sb hsb
      by_cases hm1 : s.m.seq ∈ v1
      · have := foldl_walkStep_mono R' g false L (w1', none) sb.seq (hc1 hm1 hmv sb hsb)
        rw [hw'] at this
        exact this
      · exact hc' hmw hm1 sb hsb
    · intro hmv sb hsb hin
      have hm1 : s.m.seq ∈ v1 := by
        have := includeWalk_visited_mono R n v im s.m.seq hmv
        rw [hw] at this
        exact this
      exact hd1 hmv sb hsb (hd' hm1 sb hsb hin)

/-- **The simulation.** -/
theorem simN (ht : TextOK s) (hr : RegsOK s R R') : ∀ n, SimN s R R' n := by
  intro n
  induction n with
  | zero =>
    intro v v' x w g _ hw
    rw [includeWalk_zero] at hw
    cases hw
  | succ n IH =>
    intro v v' x w g hx hw hI hJ hg
    obtain ⟨g0, rfl⟩ : ∃ g0, g = g0 + 1 := ⟨g - 1, by omega⟩
    rw [includeWalk_succ] at hw
    rw [includeWalk_succ, repl_seq hr]
    by_cases hc : x.seq ∈ v
    · rw [if_pos (by simpa using hc)] at hw
      cases hw
      rw [if_pos (by simpa using (hI x hx).mpr hc)]
      exact ⟨v', rfl, hI, hJ, fun h1 h2 => absurd h1 h2, fun _ _ _ h => h⟩
    · have hc' : x.seq ∉ v' := fun h => hc ((hI x hx).mp h)
      rw [if_neg (by simpa using hc), includes_nil hr hx, List.foldl_nil] at hw
      rw [if_neg (by simpa using hc')]
      have hlt := unvisited_cons_lt R' v' (repl s x) (repl_mem hr hx) (by rw [repl_seq hr]; simpa using hc')
      rw [repl_seq hr] at hlt
      by_cases hxm : x.seq = s.m.seq
      · have hxeq := eq_m_of_seq hr hx hxm
        subst hxeq
        rw [repl_m]
        have hmw : s.m.seq ∈ w := by
          have := foldl_walkStep_mono R n false s.m.imports (s.m.seq :: v, none) s.m.seq
            (List.mem_cons_self ..)
          rw [hw] at this
          exact this
        have hidem := foldl_walkStep_idem hw
        -- one walk of `m`'s import statements in `R'`: the first does what `R` does, a later one nothing
        have stepL : ∀ cur g1, (Ia R (s.m.seq :: v) cur ∨ Ia R w cur) → unvisited R' cur + 1 ≤ g1 →
            ∃ cur', s.m.imports.foldl (walkStep R' g1 false) (cur, none) = (cur', none) ∧ Ia R w cur' ∧
              (∀ sb ∈ s.subs, sb.seq ∈ cur' → sb.seq ∈ cur) := by
          intro cur g1 hP hg1
          rcases hP with hP | hP
          · obtain ⟨c, h1, h2, _, _, h5⟩ := simLN hr IH _ _ _ _ g1 hw hP
              (fun h => absurd (List.mem_cons_self ..) h) hg1
            exact ⟨c, h1, h2, h5 (List.mem_cons_self ..)⟩
          · obtain ⟨c, h1, h2, _, _, h5⟩ := simLN hr IH _ _ _ _ g1 hidem hP (fun h => absurd hmw h) hg1
            exact ⟨c, h1, h2, h5 hmw⟩
        obtain ⟨w', hf', hI', hm', hown, hcl⟩ := partBody ht hr (List.mem_cons_self ..) hmw stepL g0
          s.owner (s.m.seq :: v') (owner_part s) (Or.inl (Ia_cons_both hI _)) (by omega)
        refine ⟨w', hf', hI', fun h => absurd hmw h, ?_, fun h => absurd h hc⟩
        intro _ _
        have ho : s.owner.seq ∈ w' := by
          rw [hr.owner_seq]
          exact hm' _ (List.mem_cons_self ..)
        apply cover_of_closed hr ho
        intro Q hQ hQw T hT
        rcases part_cases hQ with rfl | hQs
        · exact hown T hT
        · refine hcl Q hQ hQw ?_ T hT
          simp only [List.mem_cons, not_or]
          exact ⟨sub_seq_ne_m hr hQs, hJ hc Q hQs⟩
      · rw [repl_of_ne hxm, includes_nil hr hx, List.foldl_nil]
        have hJ2 : Ib s (x.seq :: v) (x.seq :: v') := by
          intro hm sb hsb hin
          simp only [List.mem_cons, not_or] at hm
          rcases List.mem_cons.mp hin with e | h
          · exact hr.sub_seqs_fresh sb hsb x hx e
          · exact hJ hm.2 sb hsb h
        obtain ⟨w', hw', hI', hJ', hcc, hdd⟩ := simLN hr IH x.imports (x.seq :: v) (x.seq :: v') w g0 hw
          (Ia_cons_both hI _) hJ2 (by omega)
        refine ⟨w', hw', hI', hJ', ?_, ?_⟩
        · intro hmw hmv
          apply hcc hmw
          simp only [List.mem_cons, not_or]
          exact ⟨fun e => hxm e.symm, hmv⟩
        · intro hmv sb hsb hin
          rcases List.mem_cons.mp (hdd (List.mem_cons_of_mem _ hmv) sb hsb hin) with e | h
          · exact absurd e (hr.sub_seqs_fresh sb hsb x hx)
          · exact h

end Sim

/-! ### Part 4: `linkAll` -/

section Top
variable {s : Split} {R R' : Registry}

/-- The fold of `linkAll` over the same starts (up to `repl`) in the two registries. -/
theorem top_simN (ht : TextOK s) (hr : RegsOK s R R') :
    ∀ (l : List Mod) (acc acc' : List Nat × List Err), (∀ x ∈ l, x ∈ R.mods) → acc'.2 = [] →
      Ia R acc.1 acc'.1 → Ib s acc.1 acc'.1 → (s.m.seq ∈ acc.1 → ∀ sb ∈ s.subs, sb.seq ∈ acc'.1) →
      (l.foldl (linkStep R) acc).2 = [] →
      ((l.map (repl s)).foldl (linkStep R') acc').2 = [] ∧
      Ia R (l.foldl (linkStep R) acc).1 ((l.map (repl s)).foldl (linkStep R') acc').1 ∧
      (s.m.seq ∈ (l.foldl (linkStep R) acc).1 →
        ∀ sb ∈ s.subs, sb.seq ∈ ((l.map (repl s)).foldl (linkStep R') acc').1) := by
  intro l
  induction l with
  | nil => intro acc acc' _ he hI _ hb _; exact ⟨he, hI, hb⟩
  | cons x l ih =>
    intro acc acc' hl he hI hJ hb h
    rw [List.foldl_cons] at h
    rw [List.foldl_cons, List.map_cons, List.foldl_cons]
    obtain ⟨_, hw⟩ := linkStep_errs_nil (foldl_linkStep_errs_nil h)
    have hx := hl x (List.mem_cons_self ..)
    obtain ⟨w', hw', hI', hJ', hc, _⟩ := simN ht hr _ acc.1 acc'.1 x _ (R'.mods.length + 1) hx hw hI hJ
      (by have := unvisited_le R' acc'.1; omega)
    have hstep : linkStep R' acc' (repl s x) = (w', []) := by
      simp only [linkStep, hw', he]
    rw [hstep]
    apply ih _ _ (fun y hy => hl y (List.mem_cons_of_mem _ hy)) rfl hI' hJ' _ h
    intro hm sb hsb
    by_cases hm0 : s.m.seq ∈ acc.1
    · have := includeWalk_visited_mono R' (R'.mods.length + 1) acc'.1 (repl s x) sb.seq (hb hm0 sb hsb)
      rw [hw'] at this
      exact this
    · exact hc hm hm0 sb hsb

/-- **The linking stage of a split registry, nested includes.**  When the unsplit registry links
without error, so does the split one; the linked sets agree on the modules of `R`, and `m` and all
submodules are linked. -/
theorem linkAll_splitN (s : Split) (R R' : Registry) (ht : TextOK s) (hr : RegsOK s R R')
    (h : (linkAll R).2 = []) :
    (linkAll R').2 = [] ∧ LinkOK s R (linkAll R).1 (linkAll R').1 := by
  have e1 := linkAll_eq R
  have e2 : linkAll R' =
      ((sortBy (fun (a b : Mod) => a.fullName < b.fullName) R.distinctModules).map (repl s)).foldl
        (linkStep R') ([], []) := by
    rw [linkAll_eq R', distinctModules_split hr]
    congr 1
    apply sortBy_map
    intro x hx y hy
    rw [repl_fullName ht hr (distinctModules_mem R x hx), repl_fullName ht hr (distinctModules_mem R y hy)]
  rw [e1] at h
  rw [e1, e2]
  have hroots : ∀ x ∈ sortBy (fun (a b : Mod) => a.fullName < b.fullName) R.distinctModules, x ∈ R.mods :=
    fun x hx => distinctModules_mem R x ((mem_sortBy _ _ _).mp hx)
  obtain ⟨h1, h2, h3⟩ := top_simN ht hr _ ([], []) ([], []) hroots rfl
    (fun _ _ => Iff.rfl) (fun _ _ _ h => by cases h) (fun h => by cases h) h
  have hm : s.m.seq ∈ ((sortBy (fun (a b : Mod) => a.fullName < b.fullName) R.distinctModules).foldl
      (linkStep R) ([], [])).1 :=
    foldl_linkStep_roots R _ _ s.m ((mem_sortBy _ _ _).mpr (m_distinct hr))
  refine ⟨h1, ⟨?_, ?_, ?_⟩⟩
  · intro x hx
    rw [Bool.eq_iff_iff]
    simpa using h2 x hx
  · simpa using hm
  · intro sb hsb
    simpa using h3 hm sb hsb

end Top

end Goyang.Lemmas.IncludeLinkN
