import Goyang.Lemmas.IncludeConv
import Goyang.Lemmas.IncludeAsmN
/-
C13 (third sentence), part 6: the forests after conversion, and `processAll`.
-/
namespace Goyang.Lemmas.IncludeMain
open Goyang.Model Goyang.Spec.Include Goyang.Lemmas.Tree Goyang.Spec.Tree Goyang.Lemmas.IncludeRel
open Goyang.Lemmas.IncludePure Goyang.Lemmas.IncludeRun Goyang.Lemmas.IncludeAsm Goyang.Lemmas.IncludeWorld
open Goyang.Lemmas.IncludeMod Goyang.Lemmas.IncludeModN Goyang.Lemmas.IncludeConv

/-! ### forests -/

theorem tree?_mem {f : Forest} {k : Nat} {t : Entry} (h : f.tree? k = some t) : (k, t) ∈ f.trees := by
  unfold Forest.tree? at h
  cases hf : f.trees.find? (·.1 == k) with
  | none => rw [hf] at h; cases h
  | some p =>
    rw [hf] at h
    simp only [Option.map_some, Option.some.injEq] at h
    have hk : p.1 = k := by simpa using List.find?_some hf
    have := List.mem_of_find?_eq_some hf
    rw [← h, ← hk]; exact this

theorem tree?_of_mem {f : Forest} {k : Nat} {e : Entry} (h : (k, e) ∈ f.trees) : ∃ t, f.tree? k = some t := by
  obtain ⟨p, hp, _, _⟩ := find?_isSome_of_key h
  exact ⟨p.2, by unfold Forest.tree?; rw [hp]; rfl⟩

theorem forestErrs_nil_iff (f : Forest) : forestErrs f = [] ↔ ∀ p ∈ f.trees, Clean p.2 := by
  unfold forestErrs Clean
  simp only [List.flatten_eq_nil_iff, List.mem_map, forall_exists_index, and_imp, forall_apply_eq_imp_iff₂]


/-! ### the conversion stage -/

section Conv
variable {s : Split} {R R' : Registry} (opts : Opts) (plug plug' : Plug) (h : IsSplitOf s R R' plug plug')
  (hlink : (linkAll R).2 = [])

include h in
theorem wu_ok : (Wu R opts plug).OK :=
  Wu_ok R opts plug h.pos h.refs h.fuel (fun x hx e => by
    have := (h.regs.R_modules_only x hx).1
    rw [this] at e; exact absurd e (by decide))

include h hlink in
theorem ws_ok : (Ws s R R' opts plug plug').OK :=
  Ws_ok opts plug plug' h.text h.regs (IncludeLinkN.linkAll_splitN s R R' h.text h.regs hlink).2 h.visible h.plugOK h.pos' h.refs' h.fuel'

theorem mkeys_eq_keyOrder (hr : RegsOK s R R') : keyOrder R = mkeysOf R := by
  rw [keyOrder_eq, skeys_R hr, List.append_nil]

theorem pmodOf_m : pmodOf R opts plug s.m = pmod (envOf R opts plug) (vm s R opts plug) s.m s.m.stmt := rfl

theorem vm_shape : ∀ c, Clean (vm s R opts plug c) → c.kw ∈ nameKws → (vm s R opts plug c).name = c.arg := by
  intro c hc hk
  have hk' : c.kw ≠ "uses" ∧ c.kw ≠ "grouping" ∧ c.kw ≠ "module" ∧ c.kw ≠ "submodule" := by
    refine ⟨?_, ?_, ?_, ?_⟩ <;> (intro e; rw [e] at hk; revert hk; decide)
  exact val_name _ _ _ _ _ hc hk'.1 hk'.2.1 hk'.2.2.1 hk'.2.2.2

omit hlink in
include h in
/-- The hypotheses of the combinatorial part, from the texts and the registries. -/
theorem nestOK : NestOK (vm s R opts plug) s.m.stmt s.owner.stmt (s.subs.map (·.stmt)) (tgtOf R') where
  shape := vm_shape opts plug
  okw := h.text.owner_kw
  skw := by
    intro X hX
    obtain ⟨sb, hsb, rfl⟩ := List.mem_map.1 hX
    exact h.text.sub_kw sb hsb
  body := by
    intro kw hkw
    have := h.text.body kw hkw
    unfold Split.parts at this
    simpa [List.flatMap_map] using this
  devO := h.text.kept "deviation" (by decide)
  devS := by
    intro X hX
    obtain ⟨sb, hsb, rfl⟩ := List.mem_map.1 hX
    exact (h.text.sub_no_aug sb hsb).2.1
  descO := h.text.kept "description" (by decide)
  argO := h.text.owner_arg
  mkw := h.text.m_kw
  names := by
    rw [List.map_map]
    exact h.regs.sub_names_nodup
  tgt_sub := by
    intro X hX Y hY
    have hP : ∃ P ∈ s.parts, X = P.stmt := by
      rcases List.mem_cons.1 hX with rfl | hX
      · exact ⟨s.owner, List.mem_cons_self .., rfl⟩
      · obtain ⟨sb, hsb, rfl⟩ := List.mem_map.1 hX
        exact ⟨sb, List.mem_cons_of_mem _ hsb, rfl⟩
    obtain ⟨P, hP, rfl⟩ := hP
    unfold tgtOf at hY
    obtain ⟨a, ha, hfa⟩ := List.mem_filterMap.1 hY
    obtain ⟨sb, hsb, hf⟩ := h.regs.inc_resolve P hP a ha
    rw [hf] at hfa
    simp only [Option.map_some, Option.some.injEq] at hfa
    rw [← hfa]
    exact List.mem_map_of_mem hsb
  cover := by
    intro Y hY
    obtain ⟨sb, hsb, rfl⟩ := List.mem_map.1 hY
    have hreach := h.regs.inc_cover sb hsb
    clear hsb hY
    induction hreach with
    | refl => exact .refl _
    | step _ hinc ih =>
      obtain ⟨a, ha, hf⟩ := hinc
      refine .step ih ?_
      unfold tgtOf
      exact List.mem_filterMap.2 ⟨a, ha, by rw [hf]; rfl⟩

include h hlink in
/-- **The forests after the conversion stage.**  When the unsplit conversion is error free, so is the
split one; every other module has the same tree up to the module numbers; the owner's tree is the
unsplit module's with the children in another order. -/
theorem conv_split (hclean : forestErrs (forest0 R opts plug) = []) :
    forestErrs (forest0 R' opts plug') = [] ∧
    (∀ x ∈ R.mods, x.seq ≠ s.m.seq → ∀ t, (forest0 R opts plug).tree? x.seq = some t →
      ∃ t', (forest0 R' opts plug').tree? x.seq = some t' ∧ ren s.σ t' = t) ∧
    (∃ t, (forest0 R opts plug).tree? s.m.seq = some t) ∧
    (∀ t, (forest0 R opts plug).tree? s.m.seq = some t →
      ∃ t', (forest0 R' opts plug').tree? s.m.seq = some t' ∧ SameTop s.σ t' t) := by
  have hr := h.regs
  have hU := conv_unsplit R opts plug (wu_ok opts plug plug' h) hr.R_modules_only
  rw [mkeys_eq_keyOrder hr] at hU
  have hcleanU : ∀ p ∈ (tstate R opts plug).cache, Clean p.2 := (forestErrs_nil_iff _).1 hclean
  -- every module's unsplit entry is the pure fold, error free
  have hpm : ∀ X ∈ mkeysOf R, ∀ e, (X.seq, e) ∈ (tstate R opts plug).cache → e = pmodOf R opts plug X ∧ Clean (pmodOf R opts plug X) := by
    intro X hX e he
    obtain ⟨Y, hY, h1, h2⟩ := hU.cache _ he
    have : Y = X := IncludeBind.seq_inj hr (mem_mkeys_mods hY) (mem_mkeys_mods hX) h1
    subst this
    have hc := hcleanU _ he
    have := h2.1 hc
    rw [ren_id] at this
    exact ⟨this, this ▸ hc⟩
  have hpmC : ∀ X ∈ mkeysOf R, Clean (pmodOf R opts plug X) := by
    intro X hX
    obtain ⟨e, he⟩ := hU.cached X hX
    exact (hpm X hX e he).2
  -- the unsplit module: the combinatorial part
  have hmk := m_mem_mkeys hr
  have hN := nestOK opts plug plug' h
  have hFl : (s.subs.map (·.stmt)).length < entryFuel R' := by
    have := unstarted_lt_entryFuel hr
    have h1 : unstarted s [] = s.subs.length := by
      unfold unstarted
      simp
    rw [List.length_map]; omega
  have hAsm := assemblyN (envOf R opts plug) (vm s R opts plug) s.m s.m.stmt s.owner.stmt (s.subs.map (·.stmt)) (tgtOf R')
    hN (hpmC s.m hmk) (entryFuel R') hFl
  obtain ⟨a1, a3, a4, a5, a6, a7, a8, a9⟩ := hAsm
  have hall : ∀ sb ∈ s.subs, (pp s R R' opts plug (entryFuel R') [] s.owner.stmt).2.contains sb.name = true := by
    intro sb hsb
    rw [List.contains_iff_mem]
    exact a9 sb.stmt (List.mem_map_of_mem hsb)
  have hS := conv_split_state opts plug plug' h.text hr (IncludeLinkN.linkAll_splitN s R R' h.text hr hlink).2 (ws_ok opts plug plug' h hlink) hall
  -- the entries of the parts are error free
  have hpure : ∀ p, PureOf s R R' opts plug p → Clean p.2 := by
    rintro p ⟨Q, hQ, _, f', S', hn, hQS, hfu, hre⟩
    have hcl := ppart_clean (envOf R opts plug) (vm s R opts plug) s.m s.m.stmt s.owner.stmt (s.subs.map (·.stmt)) (tgtOf R')
      hN (hpmC s.m hmk) f' S' Q.stmt (List.mem_cons_of_mem _ (List.mem_map_of_mem hQ))
      (fun n hn' => by
        obtain ⟨sb, hsb, hsn⟩ := hn n hn'
        exact ⟨sb.stmt, List.mem_map_of_mem hsb, hsn⟩)
      (fun _ => List.contains_iff_mem.1 hQS)
      (by
        have : ((s.subs.map (·.stmt)).filter fun Y => !S'.contains Y.arg).length = unstarted s S' := by
          unfold unstarted
          rw [List.filter_map, List.length_map]
          rfl
        rw [this]; exact hfu)
    have := hre.2 hcl
    exact (clean_ren s.σ _).1 (this ▸ hcl)
  -- the split cache is error free and what it should be
  have hSC : ∀ p ∈ (tstate R' opts plug').cache, Clean p.2 ∧
      ((∃ x ∈ mkeysOf R, x.seq ≠ s.m.seq ∧ x.seq = p.1 ∧ ren s.σ p.2 = pmodOf R opts plug x) ∨
       (p.1 = s.owner.seq ∧ ren s.σ p.2 = (pp s R R' opts plug (entryFuel R') [] s.owner.stmt).1) ∨
       (∃ sb ∈ s.subs, p.1 = sb.seq)) := by
    intro p hp
    rcases hS.cache p hp with ⟨x, hx, h1, h2, h3⟩ | ⟨h1, h2⟩ | hpo
    · have := h3.2 (hpmC x hx)
      exact ⟨(clean_ren s.σ _).1 (this ▸ hpmC x hx), Or.inl ⟨x, hx, h1, h2, this⟩⟩
    · have := h2.2 a1
      exact ⟨(clean_ren s.σ _).1 (this ▸ a1), Or.inr (Or.inl ⟨h1, this⟩)⟩
    · have hcl := hpure p hpo
      obtain ⟨Q, hQ, hpQ, _⟩ := hpo
      exact ⟨hcl, Or.inr (Or.inr ⟨Q, hQ, hpQ⟩)⟩
  refine ⟨(forestErrs_nil_iff _).2 (fun p hp => (hSC p hp).1), ?_, ?_, ?_⟩
  · intro x hx hne t ht
    have hmem : (x.seq, t) ∈ (tstate R opts plug).cache := tree?_mem ht
    obtain ⟨Y, hY, h1, _⟩ := hU.cache _ hmem
    have hYx : Y = x := IncludeBind.seq_inj hr (mem_mkeys_mods hY) hx h1
    subst hYx
    have ht' := (hpm Y hY t hmem).1
    have hdone : Y ∈ (mkeysOf R).map (IncludeLink.repl s) :=
      List.mem_map.2 ⟨Y, hY, IncludeLink.repl_of_ne hne⟩
    obtain ⟨e, he⟩ := hS.cached Y hdone
    obtain ⟨t', ht2⟩ := tree?_of_mem (f := forest0 R' opts plug') he
    refine ⟨t', ht2, ?_⟩
    have hmem' : (Y.seq, t') ∈ (tstate R' opts plug').cache := tree?_mem ht2
    rcases (hSC _ hmem').2 with ⟨x', hx', _, h2, h3⟩ | ⟨h1', _⟩ | ⟨sb, hsb, h1'⟩
    · have : x' = Y := IncludeBind.seq_inj hr (mem_mkeys_mods hx') hx h2
      subst this
      rw [ht']; exact h3
    · exact absurd (h1'.trans hr.owner_seq) hne
    · exact absurd h1'.symm (hr.sub_seqs_fresh sb hsb Y hx)
  · obtain ⟨e, he⟩ := hU.cached s.m hmk
    exact tree?_of_mem (f := forest0 R opts plug) he
  · intro t ht
    have hmem : (s.m.seq, t) ∈ (tstate R opts plug).cache := tree?_mem ht
    have ht' := (hpm s.m hmk t hmem).1
    have hdone : s.owner ∈ (mkeysOf R).map (IncludeLink.repl s) :=
      List.mem_map.2 ⟨s.m, hmk, IncludeLink.repl_m s⟩
    obtain ⟨e, he⟩ := hS.cached s.owner hdone
    rw [hr.owner_seq] at he
    obtain ⟨t', ht2⟩ := tree?_of_mem (f := forest0 R' opts plug') he
    refine ⟨t', ht2, ?_⟩
    have hmem' : (s.m.seq, t') ∈ (tstate R' opts plug').cache := tree?_mem ht2
    rcases (hSC _ hmem').2 with ⟨x', hx', h1', h2, _⟩ | ⟨_, h3⟩ | ⟨sb, hsb, h1'⟩
    · exact absurd h2 h1'
    · rw [ht', pmodOf_m]
      have h3' : ren s.σ t' = (ppart (envOf R opts plug) (vm s R opts plug) s.m (tgtOf R') (entryFuel R') [] s.owner.stmt).1 := h3
      have hd : renD s.σ t'.d = (ppart (envOf R opts plug) (vm s R opts plug) s.m (tgtOf R') (entryFuel R') [] s.owner.stmt).1.d := by
        rw [← h3', ren_d]
      have hdir : renL s.σ t'.dir = (ppart (envOf R opts plug) (vm s R opts plug) s.m (tgtOf R') (entryFuel R') [] s.owner.stmt).1.dir := by
        rw [← h3', ren_dir, renL_eq_map]
      have hinp : t'.inp = [] := by
        have : (ren s.σ t').inp = [] := by rw [h3']; exact a5
        rw [ren_inp] at this
        exact List.map_eq_nil_iff.1 this
      have hout : t'.out = [] := by
        have : (ren s.σ t').out = [] := by rw [h3']; exact a7
        rw [ren_out] at this
        exact List.map_eq_nil_iff.1 this
      refine ⟨?_, ?_, ⟨hinp, a6⟩, ⟨hout, a8⟩⟩
      · unfold SameData at a4 ⊢
        rw [a4] at hd
        generalize (pmod (envOf R opts plug) (vm s R opts plug) s.m s.m.stmt).d = dm at hd ⊢
        generalize (ppart (envOf R opts plug) (vm s R opts plug) s.m (tgtOf R') (entryFuel R') [] s.owner.stmt).1.d = dp at hd
        cases hx : t'.d
        cases dm
        simp only [hx, renD, EData.mk.injEq] at hd ⊢
        obtain ⟨h1, h2, h3, h4, h5, h6, h7, h8, h9, h10, h11, h12, h13, h14, h15, h16, h17, h18, h19⟩ := hd
        exact ⟨h1, h2, h3, h4, h5, h6, h7, h8, h9, h10, h11, h12, h13, h14, trivial, trivial, h17, h18, h19⟩
      · rw [hdir]; exact a3
    · exact absurd h1'.symm (hr.sub_seqs_fresh sb hsb s.m hr.m_mem)

end Conv


/-! ### `fixChoice` -/

theorem ren_wrapOne (σ : Nat → Nat) (x : Entry) : ren σ (OrderIndep.wrapOne x) = OrderIndep.wrapOne (ren σ x) := by
  unfold OrderIndep.wrapOne
  rw [ren_d, renD_kind]
  split
  · rfl
  · simp [renD]

theorem fixChoice_mk (d : EData) (c i o : List Entry) : fixChoice (.mk d c i o) =
    .mk d (if d.kind == .choice && d.errors.isEmpty then (c.map fixChoice).map OrderIndep.wrapOne else c.map fixChoice)
      (i.map fixChoice) (o.map fixChoice) := by
  simp only [fixChoice, OrderIndep.fixChoiceL_eq_map, OrderIndep.wrapCases_eq_map]

theorem ren_fixChoice (σ : Nat → Nat) (e : Entry) : ren σ (fixChoice e) = fixChoice (ren σ e) := by
  induction e using entry_ind with
  | h d c i o hc hi ho =>
    rw [ren_mk, fixChoice_mk, fixChoice_mk, ren_mk]
    have hcm : (c.map fixChoice).map (ren σ) = (c.map (ren σ)).map fixChoice := by
      rw [List.map_map, List.map_map]; exact List.map_congr_left hc
    have him : (i.map fixChoice).map (ren σ) = (i.map (ren σ)).map fixChoice := by
      rw [List.map_map, List.map_map]; exact List.map_congr_left hi
    have hom : (o.map fixChoice).map (ren σ) = (o.map (ren σ)).map fixChoice := by
      rw [List.map_map, List.map_map]; exact List.map_congr_left ho
    rw [him, hom]
    congr 1
    show _ = if (d.kind == .choice && d.errors.isEmpty) then _ else _
    split
    · rw [← hcm, List.map_map, List.map_map, List.map_map, List.map_map]
      apply List.map_congr_left
      intro x _
      simp only [Function.comp]
      rw [ren_wrapOne]
    · exact hcm

theorem sameTop_fixChoice (σ : Nat → Nat) (t' t : Entry) (h : SameTop σ t' t) : SameTop σ (fixChoice t') (fixChoice t) := by
  cases t' with | mk d' c' i' o' =>
  cases t with | mk d c i o =>
  obtain ⟨h1, h2, ⟨h3, h3'⟩, ⟨h4, h4'⟩⟩ := h
  simp only [Entry.d, Entry.dir, Entry.inp, Entry.out] at h1 h2 h3 h3' h4 h4'
  subst h3 h3' h4 h4'
  rw [fixChoice_mk, fixChoice_mk]
  have hk : d'.kind = d.kind := by unfold SameData at h1; rw [h1]
  have he : d'.errors = d.errors := by unfold SameData at h1; rw [h1]
  refine ⟨h1, ?_, ⟨rfl, rfl⟩, ⟨rfl, rfl⟩⟩
  simp only [Entry.dir, hk, he]
  rw [renL_eq_map] at h2 ⊢
  split
  · have : ((c'.map fixChoice).map OrderIndep.wrapOne).map (ren σ) =
        ((c'.map (ren σ)).map fixChoice).map OrderIndep.wrapOne := by
      rw [List.map_map, List.map_map, List.map_map, List.map_map]
      apply List.map_congr_left
      intro x _
      simp only [Function.comp]
      rw [ren_wrapOne, ren_fixChoice]
    rw [this]
    exact (h2.map _).map _
  · rw [List.map_map]
    have : (c'.map ((ren σ) ∘ fixChoice)) = (c'.map (ren σ)).map fixChoice := by
      rw [List.map_map]
      apply List.map_congr_left
      intro x _
      simp only [Function.comp]
      rw [ren_fixChoice]
    rw [this]
    exact h2.map _


/-! ### paths into the two trees -/

theorem find?_name_unique (l : List Entry) (hnd : (l.map (·.name)).Nodup) (k : String) (x : Entry)
    (hx : x ∈ l) (hxk : x.name = k) : l.find? (·.name == k) = some x := by
  induction l with
  | nil => cases hx
  | cons y ys ih =>
    rw [List.find?_cons]
    rw [List.map_cons, List.nodup_cons] at hnd
    by_cases hy : y.name = k
    · have hyb : (y.name == k) = true := by simpa using hy
      rw [hyb]
      rcases List.mem_cons.1 hx with rfl | hx
      · rfl
      · exact absurd (List.mem_map.2 ⟨x, hx, hxk.trans hy.symm⟩) hnd.1
    · have hyb : (y.name == k) = false := by simpa using hy
      rw [hyb]
      rcases List.mem_cons.1 hx with rfl | hx
      · exact absurd hxk hy
      · exact ih hnd.2 hx

/-- Looking a child up by name gives the same in two child lists that are permutations of each
other, when the names are distinct. -/
theorem find?_perm (l₁ l₂ : List Entry) (hp : l₁.Perm l₂) (hnd : (l₂.map (·.name)).Nodup) (k : String) :
    l₁.find? (·.name == k) = l₂.find? (·.name == k) := by
  have hnd₁ : (l₁.map (·.name)).Nodup := ((hp.map _).nodup_iff).2 hnd
  cases h1 : l₁.find? (·.name == k) with
  | some x =>
    have hx := List.mem_of_find?_eq_some h1
    have hxk : x.name = k := by simpa using List.find?_some h1
    exact (find?_name_unique l₂ hnd k x (hp.mem_iff.1 hx) hxk).symm
  | none =>
    cases h2 : l₂.find? (·.name == k) with
    | none => rfl
    | some y =>
      have hy := List.mem_of_find?_eq_some h2
      have hyk : y.name = k := by simpa using List.find?_some h2
      rw [find?_name_unique l₁ hnd₁ k y (hp.mem_iff.2 hy) hyk] at h1
      cases h1

theorem child?_sameTop (σ : Nat → Nat) (t' t : Entry) (h : SameTop σ t' t) (hnd : (t.dir.map (·.name)).Nodup) (k : String) :
    (t'.child? k).map (ren σ) = t.child? k := by
  unfold Entry.child?
  rw [← find?_name_ren, ← renL_eq_map]
  exact find?_perm _ _ h.2.1 hnd k

theorem getAt_ren (σ : Nat → Nat) : ∀ (p : Path) (e : Entry), (ren σ e).getAt p = (e.getAt p).map (ren σ)
  | [], e => rfl
  | .child k :: p, e => by
    simp only [Entry.getAt, ren_child?]
    cases e.child? k with
    | none => rfl
    | some c => simp [getAt_ren σ p c]
  | .input :: p, e => by
    simp only [Entry.getAt, ren_inp]
    cases e.inp with
    | nil => rfl
    | cons c cs => simp [getAt_ren σ p c]
  | .output :: p, e => by
    simp only [Entry.getAt, ren_out]
    cases e.out with
    | nil => rfl
    | cons c cs => simp [getAt_ren σ p c]

/-- Below the root, the owner's tree is the unsplit module's tree (up to the module numbers). -/
theorem getAt_sameTop (σ : Nat → Nat) (t' t : Entry) (h : SameTop σ t' t) (hnd : (t.dir.map (·.name)).Nodup)
    (s : Step) (p : Path) : (t'.getAt (s :: p)).map (ren σ) = t.getAt (s :: p) := by
  cases s with
  | child k =>
    simp only [Entry.getAt]
    rw [← child?_sameTop σ t' t h hnd k]
    cases t'.child? k with
    | none => rfl
    | some c => simp [getAt_ren]
  | input => simp only [Entry.getAt, h.2.2.1.1, h.2.2.1.2]; rfl
  | output => simp only [Entry.getAt, h.2.2.2.1, h.2.2.2.2]; rfl

theorem ro_go_ren (σ : Nat → Nat) : ∀ (p : Path) (e : Entry) (inh : Bool),
    Entry.readOnlyAt.go (ren σ e) p inh = Entry.readOnlyAt.go e p inh
  | [], e, inh => by unfold Entry.readOnlyAt.go; simp [renD]
  | s :: rest, e, inh => by
    unfold Entry.readOnlyAt.go
    simp only [ren_d, renD_kind, ren_child?, ren_inp, ren_out]
    have hc : (renD σ e.d).config = e.d.config := rfl
    rw [hc]
    cases s with
    | child k =>
      dsimp only
      cases e.child? k with
      | none => rfl
      | some c => simp only [Option.map_some]; exact ro_go_ren σ rest c _
    | input =>
      dsimp only
      cases e.inp with
      | nil => rfl
      | cons c cs => simp only [List.map_cons, List.head?_cons]; exact ro_go_ren σ rest c _
    | output =>
      dsimp only
      cases e.out with
      | nil => rfl
      | cons c cs => simp only [List.map_cons, List.head?_cons]; exact ro_go_ren σ rest c _

theorem stamp_go_ren (σ : Nat → Nat) : ∀ (p : Path) (e : Entry) (acc : Option String),
    Entry.stampAt.go (ren σ e) p acc = Entry.stampAt.go e p acc
  | [], e, acc => by unfold Entry.stampAt.go; rfl
  | s :: rest, e, acc => by
    unfold Entry.stampAt.go
    simp only [ren_child?, ren_inp, ren_out]
    cases s with
    | child k =>
      dsimp only
      cases e.child? k with
      | none => rfl
      | some c => simp only [Option.map_some, ren_d]; exact stamp_go_ren σ rest c _
    | input =>
      dsimp only
      cases e.inp with
      | nil => rfl
      | cons c cs => simp only [List.map_cons, List.head?_cons, ren_d]; exact stamp_go_ren σ rest c _
    | output =>
      dsimp only
      cases e.out with
      | nil => rfl
      | cons c cs => simp only [List.map_cons, List.head?_cons, ren_d]; exact stamp_go_ren σ rest c _

/-- **Read-only status** of the node at a path is the same in the owner's and the unsplit tree. -/
theorem readOnlyAt_sameTop (σ : Nat → Nat) (t' t : Entry) (h : SameTop σ t' t) (hnd : (t.dir.map (·.name)).Nodup)
    (p : Path) : t'.readOnlyAt p = t.readOnlyAt p := by
  unfold Entry.readOnlyAt
  have hk : t'.d.kind = t.d.kind := by have := h.1; unfold SameData at this; rw [this]
  have hc : t'.d.config = t.d.config := by have := h.1; unfold SameData at this; rw [this]
  cases p with
  | nil => unfold Entry.readOnlyAt.go; rw [hk, hc]
  | cons s rest =>
    unfold Entry.readOnlyAt.go
    rw [hk, hc]
    cases s with
    | child k =>
      dsimp only
      rw [← child?_sameTop σ t' t h hnd k]
      cases t'.child? k with
      | none => rfl
      | some c => simp only [Option.map_some]; exact (ro_go_ren σ rest c _).symm
    | input => dsimp only; rw [h.2.2.1.1, h.2.2.1.2]
    | output => dsimp only; rw [h.2.2.2.1, h.2.2.2.2]

/-- The **namespace stamp** found along a path is the same. -/
theorem stampAt_sameTop (σ : Nat → Nat) (t' t : Entry) (h : SameTop σ t' t) (hnd : (t.dir.map (·.name)).Nodup)
    (p : Path) : t'.stampAt p = t.stampAt p := by
  unfold Entry.stampAt
  cases p with
  | nil => unfold Entry.stampAt.go; rfl
  | cons s rest =>
    unfold Entry.stampAt.go
    cases s with
    | child k =>
      dsimp only
      rw [← child?_sameTop σ t' t h hnd k]
      cases t'.child? k with
      | none => rfl
      | some c => simp only [Option.map_some, ren_d]; exact (stamp_go_ren σ rest c _).symm
    | input => dsimp only; rw [h.2.2.1.1, h.2.2.1.2]
    | output => dsimp only; rw [h.2.2.2.1, h.2.2.2.2]

/-! ### `processAll` -/

section Process
variable {s : Split} {R R' : Registry} (opts : Opts) (plug plug' : Plug) (h : IsSplitOf s R R' plug plug')

include h in
theorem noAugDev_split (hna : NoAugDev R) : NoAugDev R' := by
  intro x hx
  rw [IncludeLink.mods_split h.regs] at hx
  rcases List.mem_append.1 hx with hx | hx
  · obtain ⟨y, hy, rfl⟩ := List.mem_map.1 hx
    by_cases hym : y.seq = s.m.seq
    · have : y = s.m := IncludeLink.eq_m_of_seq h.regs hy hym
      subst this
      rw [IncludeLink.repl_m, h.text.kept "augment" (by decide), h.text.kept "deviation" (by decide)]
      exact hna s.m hy
    · rw [IncludeLink.repl_of_ne hym]; exact hna y hy
  · exact ⟨(h.text.sub_no_aug x hx).1, (h.text.sub_no_aug x hx).2.1⟩

include h in
theorem stage1_split (h1 : stage1Errs R plug = []) : (linkAll R).2 = [] ∧ stage1Errs R' plug' = [] := by
  unfold stage1Errs at h1 ⊢
  simp only [List.append_eq_nil_iff] at h1 ⊢
  obtain ⟨⟨l1, l2⟩, l3⟩ := h1
  exact ⟨l1, ⟨(IncludeLinkN.linkAll_splitN s R R' h.text h.regs l1).1, h.plugOK.identity l2⟩, h.plugOK.typedefs l3⟩

include h in
/-- **`processAll` on the split set**, when no loaded module has augment or deviation statements. -/
theorem process_split (hna : NoAugDev R) (hclean : (processAll R opts plug).errors = []) :
    (processAll R' opts plug').errors = [] ∧
    (∀ x ∈ R.mods, x.seq ≠ s.m.seq → ∀ t, (processAll R opts plug).forest.tree? x.seq = some t →
      ∃ t', (processAll R' opts plug').forest.tree? x.seq = some t' ∧ ren s.σ t' = t) ∧
    (∃ t, (processAll R opts plug).forest.tree? s.m.seq = some t) ∧
    (∀ t, (processAll R opts plug).forest.tree? s.m.seq = some t →
      ∃ t', (processAll R' opts plug').forest.tree? s.m.seq = some t' ∧ SameTop s.σ t' t) := by
  obtain ⟨c1, c2⟩ := IncludeNoAug.processAll_clean_stages R opts plug hclean
  obtain ⟨hlink, c1'⟩ := stage1_split plug plug' h c1
  obtain ⟨k1, k2, k3, k4⟩ := conv_split opts plug plug' h hlink c2
  obtain ⟨_, fR⟩ := IncludeNoAug.processAll_noAugDev R opts plug hna c1 c2
  obtain ⟨eR', fR'⟩ := IncludeNoAug.processAll_noAugDev R' opts plug' (noAugDev_split plug plug' h hna) c1' k1
  rw [fR, fR']
  refine ⟨eR', ?_, ?_, ?_⟩
  · intro x hx hne t ht
    rw [tree?_mapTrees] at ht ⊢
    cases ht0 : (forest0 R opts plug).tree? x.seq with
    | none => rw [ht0] at ht; cases ht
    | some t0 =>
      rw [ht0] at ht
      simp only [Option.map_some, Option.some.injEq] at ht
      obtain ⟨t0', h1, h2⟩ := k2 x hx hne t0 ht0
      refine ⟨fixChoice t0', by rw [h1]; rfl, ?_⟩
      rw [ren_fixChoice, h2, ht]
  · obtain ⟨t, ht⟩ := k3
    exact ⟨fixChoice t, by rw [tree?_mapTrees, ht]; rfl⟩
  · intro t ht
    rw [tree?_mapTrees] at ht ⊢
    cases ht0 : (forest0 R opts plug).tree? s.m.seq with
    | none => rw [ht0] at ht; cases ht
    | some t0 =>
      rw [ht0] at ht
      simp only [Option.map_some, Option.some.injEq] at ht
      obtain ⟨t0', h1, h2⟩ := k4 t0 ht0
      refine ⟨fixChoice t0', by rw [h1]; rfl, ?_⟩
      rw [← ht]
      exact sameTop_fixChoice _ _ _ h2


theorem names_nodup_of_clean (reg : Registry) (opts : Opts) (plug : Plug) (hclean : (processAll reg opts plug).errors = [])
    (k : Nat) (t : Entry) (ht : (processAll reg opts plug).forest.tree? k = some t) : (t.dir.map (·.name)).Nodup := by
  have hdp := process_clean_dp reg opts plug false (fun e => by cases e) hclean
  have := (hdp (k, t) (tree?_mem ht)).wf
  cases t with | mk d c i o =>
  rw [everyNode_mk] at this
  have h2 := wfqB_keysUnique false _ this.1
  simp only [keysUniqueHere, Entry.dir, Bool.and_eq_true] at h2
  exact of_decide_eq_true h2.1.1

include h in
/-- **Namespace, read-only status and every node below the root** of the owner's tree and of the
unsplit module's tree agree, at every path. -/
theorem process_split_paths (hna : NoAugDev R) (hclean : (processAll R opts plug).errors = []) (p : Path) :
    namespaceAt R' (processAll R' opts plug').forest (s.m.seq, p) = namespaceAt R (processAll R opts plug).forest (s.m.seq, p) ∧
    ∀ t' t, (processAll R' opts plug').forest.tree? s.m.seq = some t' → (processAll R opts plug).forest.tree? s.m.seq = some t →
      t'.readOnlyAt p = t.readOnlyAt p ∧ (p ≠ [] → (t'.getAt p).map (ren s.σ) = t.getAt p) := by
  obtain ⟨_, _, ⟨t, ht⟩, k4⟩ := process_split opts plug plug' h hna hclean
  obtain ⟨t', ht', hst⟩ := k4 t ht
  have hnd := names_nodup_of_clean R opts plug hclean _ t ht
  constructor
  · unfold namespaceAt
    simp only [ht, ht']
    rw [stampAt_sameTop s.σ t' t hst hnd p]
    cases t.stampAt p with
    | some n => rfl
    | none =>
      dsimp only
      have hr := h.regs
      have b1 : R'.byId s.m.seq = some s.owner := by
        rw [IncludeLink.byId_split_of_mem hr hr.m_mem, IncludeLink.repl_m]
      have b2 : R.byId s.m.seq = some s.m := IncludeLink.byId_of_mem hr hr.m_mem
      have o1 : R'.owner s.owner = some s.owner := by
        unfold Registry.owner Mod.belongsTo? Stmt.argOf?
        rw [IncludeBind.one?_none (by rw [h.text.kept "belongs-to" (by decide)]; exact h.text.m_no_belongs)]
        rfl
      have o2 : R.owner s.m = some s.m := by
        unfold Registry.owner Mod.belongsTo? Stmt.argOf?
        rw [IncludeBind.one?_none h.text.m_no_belongs]
        rfl
      rw [b1, b2]
      dsimp only
      rw [o1, o2]
      dsimp only
      unfold Stmt.argOf?
      rw [IncludeBind.one?_congr (h.text.kept "namespace" (by decide))]
  · intro t2' t2 h2' h2
    rw [ht'] at h2'; rw [ht] at h2
    cases h2'; cases h2
    refine ⟨readOnlyAt_sameTop s.σ t' t hst hnd p, ?_⟩
    intro hne
    cases p with
    | nil => exact absurd rfl hne
    | cons st rest =>
      exact getAt_sameTop s.σ t' t hst hnd st rest

end Process

end Goyang.Lemmas.IncludeMain
