import Goyang.Lemmas.IncludeWorld
import Goyang.Lemmas.IncludeAsmDefs
/-
C13 (third sentence), part 4b: the conversion of a (sub)module statement.

`mod_conv`: a (sub)module without include statements converts to the pure fold of its field steps
over the values of its top-level statements (`pmod`), up to renaming and where error free.  The
include step (`incStep`) and the conversion of the parts of a split are in IncludeModN.lean.
-/
namespace Goyang.Lemmas.IncludeMod
open Goyang.Model Goyang.Spec.Include Goyang.Lemmas.Tree Goyang.Spec.Tree Goyang.Lemmas.IncludeRel
open Goyang.Lemmas.IncludePure Goyang.Lemmas.IncludeRun Goyang.Lemmas.IncludeAsm

/-! ### a sublist of the field steps -/

section Fields
variable {RE : Entry → Entry → Prop} (hC : Closed2 RE) {RS : TState → TState → Prop} {U : Stmt → Prop}
  (env₁ env₂ : Env) (r1 r2 : Rec) (root₁ root₂ : Mod) (n : Stmt) (sub₁ sub₂ : List Stmt) (vis₁ vis₂ : List NodeId)
  (hch : ∀ c, U c → ∀ s₁ s₂, RS s₁ s₂ → AccRel RE RS (r1 root₁ sub₁ c vis₁ s₁) (r2 root₂ sub₂ c vis₂ s₂))
include hC hch

theorem fields_rel (isMod : Bool)
    (haug : isMod = true → ∀ s₁ s₂ as₁ as₂, RS s₁ s₂ → RelL RE as₁ as₂ →
      RS { s₁ with augs := s₁.augs ++ [(root₁.seq, as₁)] } { s₂ with augs := s₂.augs ++ [(root₂.seq, as₂)] })
    (l : List String) (hU : ∀ f ∈ l, ∀ c, Called n f c → U c)
    (hl : "input" ∉ l ∧ "output" ∉ l ∧ "include" ∉ l ∧ "type" ∉ l)
    (a₁ a₂ : Entry × TState) (h : AccRel RE RS a₁ a₂) (hk : a₁.1.d.kind = a₂.1.d.kind) :
    AccRel RE RS (l.foldl (stepFn env₁ r1 root₁ n sub₁ vis₁ isMod) a₁) (l.foldl (stepFn env₂ r2 root₂ n sub₂ vis₂ isMod) a₂) ∧
    (l.foldl (stepFn env₁ r1 root₁ n sub₁ vis₁ isMod) a₁).1.d.kind = (l.foldl (stepFn env₂ r2 root₂ n sub₂ vis₂ isMod) a₂).1.d.kind := by
  refine foldl_rel (fun (x y : Entry × TState) => AccRel RE RS x y ∧ x.1.d.kind = y.1.d.kind) _ _ _ _ _ ⟨h, hk⟩ ?_
  rintro x y f hf ⟨hxy, hkk⟩
  refine ⟨step_rel hC env₁ env₂ r1 r2 root₁ root₂ n sub₁ sub₂ vis₁ vis₂ hch isMod haug x y f (hU f hf)
    (fun e => absurd (e ▸ hf) hl.2.2.2) (fun e => absurd (e ▸ hf) hl.2.2.1) hxy hkk
    (fun e => absurd (e ▸ hf) hl.1) (fun e => absurd (e ▸ hf) hl.2.1), ?_⟩
  rw [(rootKeep_stepFn env₁ r1 root₁ n sub₁ vis₁ isMod x f).2.1, (rootKeep_stepFn env₂ r2 root₂ n sub₂ vis₂ isMod y f).2.1]
  exact hkk

end Fields

/-! ### the body of a (sub)module statement -/

theorem toEntryBody_mod (env : Env) (fuel : Nat) (rec : Rec) (root : Mod) (scope : List Stmt) (n : Stmt)
    (vis : List NodeId) (st : TState) (hm : isModKw n = true)
    (h1 : st.cache.find? (·.1 == root.seq) = none) (h3 : vis.contains (nodeId root n) = false) :
    toEntryBody env fuel rec root scope n vis st = dirBody env rec root scope n (nodeId root n :: vis) st true := by
  have hk : n.kw = "module" ∨ n.kw = "submodule" := by
    unfold isModKw at hm; simpa using hm
  have hng : (n.kw == "grouping") = false := by rcases hk with h | h <;> rw [h] <;> decide
  rw [toEntryBody_core env fuel rec root scope n vis st (by rw [hm]; simpa using h1) (by rw [hng]; rfl)
    (by rw [h3]; simp)]
  unfold core vis' tracked
  rw [hm]
  have h4 : (n.kw == "leaf") = false := by rcases hk with h | h <;> rw [h] <;> decide
  have h5 : (n.kw == "leaf-list") = false := by rcases hk with h | h <;> rw [h] <;> decide
  have h6 : (n.kw == "uses") = false := by rcases hk with h | h <;> rw [h] <;> decide
  simp only [h4, h5, h6, Bool.false_eq_true, if_false, Bool.true_or, if_true]

theorem fieldOrder_mod {n : Stmt} (hm : isModKw n = true) : fieldOrder n.kw = preFields ++ ["include"] ++ postFields := by
  have hk : n.kw = "module" ∨ n.kw = "submodule" := by
    unfold isModKw at hm; simpa using hm
  rcases hk with h | h <;> rw [h] <;> rfl

theorem step_include_nil (env : Env) (rec : Rec) (root : Mod) (n : Stmt) (sub : List Stmt) (vis : List NodeId)
    (isMod : Bool) (acc : Entry × TState) (h : n.all "include" = []) :
    stepFn env rec root n sub vis isMod acc "include" = acc := by
  unfold stepFn
  simp only [h, List.foldl_nil]


/-! ### (sub)modules in progress do not matter to statements -/

section Mod
variable (W : World) (hW : W.OK)

/-- Only (sub)module statements are in progress. -/
def OnlyMods (vis : List NodeId) : Prop :=
  ∀ k, vis.contains k = true → ∃ P ∈ W.env₁.reg.mods, isModKw P.stmt = true ∧ k = nodeId P P.stmt

include hW in
theorem harmless_of_onlyMods {vis : List NodeId} (h : OnlyMods W vis) (p : Place) : Harmless W vis p := by
  intro r₁ s₁ g hwf hgk hmem r₂ s₂ _
  obtain ⟨P, hP, hPm, hk⟩ := h _ hmem
  have hPt : isTrackedStmt P.stmt = true := by
    unfold isModKw at hPm
    unfold isTrackedStmt
    rw [hPm]; rfl
  obtain ⟨_, e2, _⟩ := hW.pos r₁ hwf.1 P hP g P.stmt s₁ [] hwf.2 rfl (isTrackedStmt_grouping hgk) hPt hk
  rw [e2] at hgk
  unfold isModKw at hPm
  rw [hgk] at hPm
  exact absurd hPm (by decide)

theorem onlyMods_nil : OnlyMods W [] := fun k h => by simp at h

theorem onlyMods_cons {vis : List NodeId} (h : OnlyMods W vis) {P : Mod} (hP : P ∈ W.env₁.reg.mods)
    (hm : isModKw P.stmt = true) : OnlyMods W (nodeId P P.stmt :: vis) := by
  intro k hk
  simp only [List.contains_cons, Bool.or_eq_true, beq_iff_eq] at hk
  rcases hk with rfl | hk
  · exact ⟨P, hP, hm, rfl⟩
  · exact h k hk

/-- The state relation during the steps of a (sub)module statement: coherent grouping cache; module
cache and merged-submodule keys as they were. -/
def RSm (st : TState) : TState → TState → Prop :=
  fun t₁ _ => Coh W t₁.gcache ∧ t₁.cache = st.cache ∧ t₁.merged = st.merged

include hW in
/-- The recursive calls of a (sub)module statement `X` on its converted substatements, against the
values in the corresponding (sub)module `X₂`. -/
theorem mod_calls (X X₂ : Mod) (hX : X ∈ W.env₁.reg.mods) (hm : isModKw X.stmt = true)
    (hcr : W.CR X [X.stmt] X₂ [X₂.stmt]) (f : Nat) (vis : List NodeId) (st : TState) (hvis : OnlyMods W vis)
    (hnv : vis.contains (nodeId X X.stmt) = false)
    (hneed : Fuel.need W.env₁.reg X X.stmt vis + W.slack ≤ f + 1) :
    ∀ c, (∃ fld ∈ fieldOrder X.stmt.kw, Called X.stmt fld c) → ∀ t₁ t₂, RSm W st t₁ t₂ →
      AccRel (REb W.σ) (RSm W st) (toEntry W.env₁ f X [X.stmt] c (nodeId X X.stmt :: vis) t₁)
        (constRec (fun c => W.val X₂ [X₂.stmt] c) X₂ [X.stmt] c [] t₂) := by
  intro c hc t₁ t₂ hs
  obtain ⟨fld, hfld, hcf⟩ := hc
  have hwf : WF W.env₁.reg X [] X.stmt := ⟨hX, rfl⟩
  have hpos := Fuel.need_pos (env := W.env₁) vis hwf.inv
  have hneed' : Fuel.need W.env₁.reg X X.stmt vis ≤ (f - W.slack) + 1 := by omega
  have htr : Fuel.isTracked X.stmt = true := by
    unfold isModKw at hm; unfold Fuel.isTracked; rw [hm]; rfl
  have hc3 : ¬ (Fuel.isTracked X.stmt && vis.contains (nodeId X X.stmt)) = true := by
    rw [hnv]; simp
  obtain ⟨_, hn'⟩ := Fuel.callee_need hwf.inv hneed' hc3 (Fuel.Callee.child (scope := []) hcf.mem)
  have hv' : Fuel.visiting' X X.stmt vis = nodeId X X.stmt :: vis := by
    unfold Fuel.visiting'; rw [htr]; rfl
  rw [hv'] at hn'
  have := run_val W hW f X [X.stmt] c (nodeId X X.stmt :: vis) t₁ X₂ [X₂.stmt] hcr (hwf.child hcf.mem)
    (called_not_mod hfld hcf) (by omega) hs.1 (harmless_of_onlyMods W hW (onlyMods_cons W hvis hX hm) _)
  exact ⟨this.1, this.2.1, this.2.2.1.trans hs.2.1, this.2.2.2.1.trans hs.2.2⟩


theorem no_io_pre : "input" ∉ preFields ∧ "output" ∉ preFields ∧ "include" ∉ preFields ∧ "type" ∉ preFields := by decide
theorem no_io_post : "input" ∉ postFields ∧ "output" ∉ postFields ∧ "include" ∉ postFields ∧ "type" ∉ postFields := by
  decide

theorem pre_sub {n : Stmt} (hm : isModKw n = true) : ∀ f ∈ preFields, f ∈ fieldOrder n.kw := by
  intro f hf; rw [fieldOrder_mod hm]; simp [hf]
theorem post_sub {n : Stmt} (hm : isModKw n = true) : ∀ f ∈ postFields, f ∈ fieldOrder n.kw := by
  intro f hf; rw [fieldOrder_mod hm]; simp [hf]

theorem e0_kind_eq (r₁ r₂ : Mod) (n : Stmt) : (e0 r₁ n).d.kind = (e0 r₂ n).d.kind := by
  rw [(e0_data r₁ n).2.1, (e0_data r₂ n).2.1]

include hW in
/-- **A (sub)module without include statements converts to the pure fold over the values.** -/
theorem mod_conv (X X₂ : Mod) (hX : X ∈ W.env₁.reg.mods) (hm : isModKw X.stmt = true)
    (hinc : X.stmt.all "include" = []) (hcr : W.CR X [X.stmt] X₂ [X₂.stmt]) (f : Nat) (vis : List NodeId) (st : TState)
    (hvis : OnlyMods W vis) (hnv : vis.contains (nodeId X X.stmt) = false)
    (hcache : st.cache.find? (·.1 == X.seq) = none)
    (hneed : Fuel.need W.env₁.reg X X.stmt vis + W.slack ≤ f + 1) (hcoh : Coh W st.gcache) :
    REb W.σ (toEntry W.env₁ (f + 1) X [] X.stmt vis st).1 (pmod W.env₂ (fun c => W.val X₂ [X₂.stmt] c) X₂ X.stmt) ∧
    Coh W (toEntry W.env₁ (f + 1) X [] X.stmt vis st).2.gcache ∧
    (toEntry W.env₁ (f + 1) X [] X.stmt vis st).2.cache = st.cache ++ [(X.seq, (toEntry W.env₁ (f + 1) X [] X.stmt vis st).1)] ∧
    (toEntry W.env₁ (f + 1) X [] X.stmt vis st).2.merged = st.merged := by
  rw [Tree.toEntry_succ, toEntryBody_mod W.env₁ f _ X [] X.stmt vis st hm hcache hnv]
  unfold dirBody
  dsimp only
  rw [fieldOrder_mod hm, List.foldl_append, List.foldl_append, List.foldl_cons, List.foldl_nil,
    step_include_nil _ _ _ _ _ _ _ _ hinc, ← List.foldl_append]
  have hcalls := mod_calls W hW X X₂ hX hm hcr f vis st hvis hnv hneed
  have key := fields_rel (RE := REb W.σ) (RS := RSm W st) (closed2_REb W.σ) W.env₁ W.env₂ (toEntry W.env₁ f)
    (constRec (fun c => W.val X₂ [X₂.stmt] c)) X X₂ X.stmt [X.stmt] [X.stmt] (nodeId X X.stmt :: vis) [] hcalls true
    (fun _ s₁ s₂ _ _ hs _ => hs) (preFields ++ postFields)
    (fun fld hfld c hc => ⟨fld, by
      rcases List.mem_append.1 hfld with h | h
      · exact pre_sub hm fld h
      · exact post_sub hm fld h, hc⟩)
    (by decide) (e0 X X.stmt, st) (e0 X₂ X.stmt, {})
    ⟨REb_of_eq _ (ren_e0 _ _ _ _ (hW.cr_seq hcr)), hcoh, rfl, rfl⟩ (e0_kind_eq _ _ _)
  obtain ⟨⟨hre, hco, hca, hme⟩, _⟩ := key
  simp only [if_true]
  refine ⟨hre, hco, ?_, hme⟩
  rw [hca]

end Mod


/-! ### the include step -/

/-- The body of the include step of `toEntry` (Go: the `Include` case of `ToEntry`, with the
merged-submodule bookkeeping). -/
def incStep (env : Env) (rec : Rec) (root : Mod) (n : Stmt) (visiting : List NodeId) (acc : Entry × TState) (a : Stmt) :
    Entry × TState :=
  let (e, st) := acc
  match env.includeTarget root a with
  | none => (e.addErr (Err.at_ a "other"), st)
  | some im =>
    let srcToIncluded := im.name ++ ":" ++ n.arg
    let includedToSrc := n.arg ++ ":" ++ im.name
    if st.merged.contains srcToIncluded then (e, st)
    else if !st.merged.contains includedToSrc && im.name != n.arg then
      let includedToParent := im.name ++ ":" ++ (im.belongsTo?.getD "")
      if st.merged.contains includedToParent then (e, st)
      else
        let st := { st with merged := st.merged ++ [srcToIncluded, includedToParent] }
        let (ie, st) := rec im [] im.stmt visiting st
        (e.merge none ie, st)
    else if env.opts.ignoreCircular then (e, st)
    else (e.addErr (Err.bare "cycle"), st)

theorem step_include_eq (env : Env) (rec : Rec) (root : Mod) (n : Stmt) (sub : List Stmt) (vis : List NodeId)
    (isMod : Bool) (acc : Entry × TState) :
    stepFn env rec root n sub vis isMod acc "include" = (n.all "include").foldl (incStep env rec root n vis) acc := by
  rfl

theorem str_cancel (a b c : String) (h : a ++ c = b ++ c) : a = b := by
  have := congrArg String.toList h
  simp only [String.toList_append] at this
  exact String.toList_inj.1 (List.append_cancel_right this)

/-- One include of a submodule that has not been merged yet: it is converted and merged. -/
theorem incStep_fresh (env : Env) (rec : Rec) (root : Mod) (n : Stmt) (vis : List NodeId) (e : Entry) (st : TState)
    (a : Stmt) (im : Mod) (par : String) (ht : env.includeTarget root a = some im) (hpar : im.belongsTo? = some par)
    (h1 : st.merged.contains (im.name ++ ":" ++ n.arg) = false)
    (h2 : st.merged.contains (n.arg ++ ":" ++ im.name) = false) (h3 : im.name ≠ n.arg)
    (h4 : st.merged.contains (im.name ++ ":" ++ par) = false) :
    incStep env rec root n vis (e, st) a =
      (e.merge none (rec im [] im.stmt vis { st with merged := st.merged ++ [im.name ++ ":" ++ n.arg, im.name ++ ":" ++ par] }).1,
       (rec im [] im.stmt vis { st with merged := st.merged ++ [im.name ++ ":" ++ n.arg, im.name ++ ":" ++ par] }).2) := by
  unfold incStep
  simp only [ht, hpar, Option.getD_some, h1, h2, h4, Bool.false_eq_true, if_false, Bool.not_false, Bool.true_and,
    bne_iff_ne, ne_eq, h3, not_false_eq_true, if_true]


/-! ### the owner of a split -/

theorem nodup_map_inj {α β : Type} (f : α → β) : ∀ (l : List α), (l.map f).Nodup → ∀ {a b : α}, a ∈ l → b ∈ l →
    f a = f b → a = b
  | [], _, _, _, ha, _, _ => by cases ha
  | x :: xs, h, a, b, ha, hb, hab => by
    rw [List.map_cons, List.nodup_cons] at h
    rcases List.mem_cons.1 ha with ha | ha
    · rcases List.mem_cons.1 hb with hb | hb
      · rw [ha, hb]
      · exact absurd (by rw [← ha, hab]; exact List.mem_map_of_mem hb) h.1
    · rcases List.mem_cons.1 hb with hb | hb
      · exact absurd (by rw [← hb, ← hab]; exact List.mem_map_of_mem ha) h.1
      · exact nodup_map_inj f xs h.2 ha hb hab

section Owner
open Goyang.Lemmas.IncludeWorld
variable {s : Split} {R R' : Registry} (opts : Opts) (plug plug' : Plug)
  (ht : TextOK s) (hr : RegsOK s R R') (hl : LinkOK s R (linkAll R).1 (linkAll R').1)
  (hW : (Ws s R R' opts plug plug').OK)

/-- The value of a top-level statement of the unsplit module. -/
noncomputable def vm (s : Split) (R : Registry) (opts : Opts) (plug : Plug) : Stmt → Entry :=
  fun c => IncludePure.val (envOf R opts plug) (lkOf R (linkAll R).1) s.m [s.m.stmt] c

/-- The merged-submodule key goyang records for a submodule of the split. -/
def mkey (s : Split) (sb : Mod) : String := sb.name ++ ":" ++ s.m.name

omit opts plug plug' in
theorem mkey_inj (a b : Mod) (h : mkey s a = mkey s b) : a.name = b.name := by
  unfold mkey at h
  exact str_cancel _ _ ":" (str_cancel _ _ _ h)

omit opts plug plug' in
theorem sub_kw_mod (ht : TextOK s) {sb : Mod} (h : sb ∈ s.subs) : isModKw sb.stmt = true := by
  unfold isModKw; rw [ht.sub_kw sb h]; rfl

omit opts plug plug' in
theorem owner_kw_mod (ht : TextOK s) : isModKw s.owner.stmt = true := by
  unfold isModKw; rw [ht.owner_kw]; rfl

omit opts plug plug' in
theorem owner_linked (hr : RegsOK s R R') (hl : LinkOK s R (linkAll R).1 (linkAll R').1) :
    (linkAll R').1.contains s.owner.seq = true := by
  rw [hr.owner_seq, hl.same s.m hr.m_mem]; exact hl.m_linked

omit opts plug plug' in
theorem sub_seq_ne_owner (hr : RegsOK s R R') {sb : Mod} (h : sb ∈ s.subs) : sb.seq ≠ s.owner.seq := by
  rw [hr.owner_seq]; exact hr.sub_seqs_fresh sb h s.m hr.m_mem

omit opts plug plug' in
theorem sub_eq_of_seq (hr : RegsOK s R R') : ∀ {a b : Mod}, a ∈ s.subs → b ∈ s.subs → a.seq = b.seq → a = b := by
  have := hr.sub_seqs_nodup
  intro a b ha hb hab
  exact nodup_map_inj _ _ this ha hb hab

omit opts plug plug' in
theorem sub_eq_of_name (hr : RegsOK s R R') : ∀ {a b : Mod}, a ∈ s.subs → b ∈ s.subs → a.name = b.name → a = b := by
  have := hr.sub_names_nodup
  intro a b ha hb hab
  exact nodup_map_inj _ _ this ha hb hab

end Owner

end Goyang.Lemmas.IncludeMod
