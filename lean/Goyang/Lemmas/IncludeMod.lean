import Goyang.Lemmas.IncludeWorld
import Goyang.Lemmas.IncludeAsmDefs
/-
C13 (third sentence), part 4b: the conversion of a (sub)module statement.

`mod_conv`: a (sub)module without include statements converts to the pure fold of its field steps
over the values of its top-level statements (`pmod`), up to renaming and where error free.
`owner_conv`: the owner of a split converts to its own steps before the include step, the merged
entries of the submodules, its own steps after (`powner`).
-/
namespace Goyang.Lemmas.IncludeMod
open Goyang.Model Goyang.Spec.Include Goyang.Lemmas.Tree Goyang.Spec.Tree Goyang.Lemmas.IncludeRel
open Goyang.Lemmas.IncludePure Goyang.Lemmas.IncludeRun Goyang.Lemmas.IncludeAsm

/-! ### a sublist of the field steps -/

section Fields
variable {RE : Entry → Entry → Prop} (hC : Closed2 RE) {RS : TState → TState → Prop} {U : Stmt → Prop}
  (env₁ env₂ : Env) (r1 r2 : Rec) (root₁ root₂ : Mod) (n : Stmt) (sub₁ sub₂ : List Stmt) (vis₁ vis₂ : List NodeId)
  (hch : ∀ c, U c → ∀ s₁ s₂, RS s₁ s₂ → AccRel RE RS (r1 root₁ sub₁ c vis₁ s₁) (r2 root₂ sub₂ c vis₂ s₂))
include hC hch

theorem fields_rel (isMod : Bool)
    (haug : isMod = true → ∀ s₁ s₂ as₁ as₂, RS s₁ s₂ → RelL RE as₁ as₂ →
      RS { s₁ with augs := s₁.augs ++ [(root₁.seq, as₁)] } { s₂ with augs := s₂.augs ++ [(root₂.seq, as₂)] })
    (l : List String) (hU : ∀ f ∈ l, ∀ c, Called n f c → U c)
    (hl : "input" ∉ l ∧ "output" ∉ l ∧ "include" ∉ l ∧ "type" ∉ l)
    (a₁ a₂ : Entry × TState) (h : AccRel RE RS a₁ a₂) (hk : a₁.1.d.kind = a₂.1.d.kind) :
    AccRel RE RS (l.foldl (stepFn env₁ r1 root₁ n sub₁ vis₁ isMod) a₁) (l.foldl (stepFn env₂ r2 root₂ n sub₂ vis₂ isMod) a₂) ∧
    (l.foldl (stepFn env₁ r1 root₁ n sub₁ vis₁ isMod) a₁).1.d.kind = (l.foldl (stepFn env₂ r2 root₂ n sub₂ vis₂ isMod) a₂).1.d.kind := by
  refine foldl_rel (fun (x y : Entry × TState) => AccRel RE RS x y ∧ x.1.d.kind = y.1.d.kind) _ _ _ _ _ ⟨h, hk⟩ ?_
  rintro x y f hf ⟨hxy, hkk⟩
  refine ⟨step_rel hC env₁ env₂ r1 r2 root₁ root₂ n sub₁ sub₂ vis₁ vis₂ hch isMod haug x y f (hU f hf)
    (fun e => absurd (e ▸ hf) hl.2.2.2) (fun e => absurd (e ▸ hf) hl.2.2.1) hxy hkk
    (fun e => absurd (e ▸ hf) hl.1) (fun e => absurd (e ▸ hf) hl.2.1), ?_⟩
  rw [(rootKeep_stepFn env₁ r1 root₁ n sub₁ vis₁ isMod x f).2.1, (rootKeep_stepFn env₂ r2 root₂ n sub₂ vis₂ isMod y f).2.1]
  exact hkk

end Fields

/-! ### the body of a (sub)module statement -/

theorem toEntryBody_mod (env : Env) (fuel : Nat) (rec : Rec) (root : Mod) (scope : List Stmt) (n : Stmt)
    (vis : List NodeId) (st : TState) (hm : isModKw n = true)
    (h1 : st.cache.find? (·.1 == root.seq) = none) (h3 : vis.contains (nodeId root n) = false) :
    toEntryBody env fuel rec root scope n vis st = dirBody env rec root scope n (nodeId root n :: vis) st true := by
  have hk : n.kw = "module" ∨ n.kw = "submodule" := by
    unfold isModKw at hm; simpa using hm
  have hng : (n.kw == "grouping") = false := by rcases hk with h | h <;> rw [h] <;> decide
  rw [toEntryBody_core env fuel rec root scope n vis st (by rw [hm]; simpa using h1) (by rw [hng]; rfl)
    (by rw [h3]; simp)]
  unfold core vis' tracked
  rw [hm]
  have h4 : (n.kw == "leaf") = false := by rcases hk with h | h <;> rw [h] <;> decide
  have h5 : (n.kw == "leaf-list") = false := by rcases hk with h | h <;> rw [h] <;> decide
  have h6 : (n.kw == "uses") = false := by rcases hk with h | h <;> rw [h] <;> decide
  simp only [h4, h5, h6, Bool.false_eq_true, if_false, Bool.true_or, if_true]

theorem fieldOrder_mod {n : Stmt} (hm : isModKw n = true) : fieldOrder n.kw = preFields ++ ["include"] ++ postFields := by
  have hk : n.kw = "module" ∨ n.kw = "submodule" := by
    unfold isModKw at hm; simpa using hm
  rcases hk with h | h <;> rw [h] <;> rfl

theorem step_include_nil (env : Env) (rec : Rec) (root : Mod) (n : Stmt) (sub : List Stmt) (vis : List NodeId)
    (isMod : Bool) (acc : Entry × TState) (h : n.all "include" = []) :
    stepFn env rec root n sub vis isMod acc "include" = acc := by
  unfold stepFn
  simp only [h, List.foldl_nil]


/-! ### (sub)modules in progress do not matter to statements -/

section Mod
variable (W : World) (hW : W.OK)

/-- Only (sub)module statements are in progress. -/
def OnlyMods (vis : List NodeId) : Prop :=
  ∀ k, vis.contains k = true → ∃ P ∈ W.env₁.reg.mods, isModKw P.stmt = true ∧ k = nodeId P P.stmt

include hW in
theorem harmless_of_onlyMods {vis : List NodeId} (h : OnlyMods W vis) (p : Place) : Harmless W vis p := by
  intro r₁ s₁ g hwf hgk hmem r₂ s₂ _
  obtain ⟨P, hP, hPm, hk⟩ := h _ hmem
  have hPt : isTrackedStmt P.stmt = true := by
    unfold isModKw at hPm
    unfold isTrackedStmt
    rw [hPm]; rfl
  obtain ⟨_, e2, _⟩ := hW.pos r₁ hwf.1 P hP g P.stmt s₁ [] hwf.2 rfl (isTrackedStmt_grouping hgk) hPt hk
  rw [e2] at hgk
  unfold isModKw at hPm
  rw [hgk] at hPm
  exact absurd hPm (by decide)

theorem onlyMods_nil : OnlyMods W [] := fun k h => by simp at h

theorem onlyMods_cons {vis : List NodeId} (h : OnlyMods W vis) {P : Mod} (hP : P ∈ W.env₁.reg.mods)
    (hm : isModKw P.stmt = true) : OnlyMods W (nodeId P P.stmt :: vis) := by
  intro k hk
  simp only [List.contains_cons, Bool.or_eq_true, beq_iff_eq] at hk
  rcases hk with rfl | hk
  · exact ⟨P, hP, hm, rfl⟩
  · exact h k hk

/-- The state relation during the steps of a (sub)module statement: coherent grouping cache; module
cache and merged-submodule keys as they were. -/
def RSm (st : TState) : TState → TState → Prop :=
  fun t₁ _ => Coh W t₁.gcache ∧ t₁.cache = st.cache ∧ t₁.merged = st.merged

include hW in
/-- The recursive calls of a (sub)module statement `X` on its converted substatements, against the
values in the corresponding (sub)module `X₂`. -/
theorem mod_calls (X X₂ : Mod) (hX : X ∈ W.env₁.reg.mods) (hm : isModKw X.stmt = true)
    (hcr : W.CR X [X.stmt] X₂ [X₂.stmt]) (f : Nat) (vis : List NodeId) (st : TState) (hvis : OnlyMods W vis)
    (hnv : vis.contains (nodeId X X.stmt) = false)
    (hneed : Fuel.need W.env₁.reg X X.stmt vis + W.slack ≤ f + 1) :
    ∀ c, (∃ fld ∈ fieldOrder X.stmt.kw, Called X.stmt fld c) → ∀ t₁ t₂, RSm W st t₁ t₂ →
      AccRel (REb W.σ) (RSm W st) (toEntry W.env₁ f X [X.stmt] c (nodeId X X.stmt :: vis) t₁)
        (constRec (fun c => W.val X₂ [X₂.stmt] c) X₂ [X.stmt] c [] t₂) := by
  intro c hc t₁ t₂ hs
  obtain ⟨fld, hfld, hcf⟩ := hc
  have hwf : WF W.env₁.reg X [] X.stmt := ⟨hX, rfl⟩
  have hpos := Fuel.need_pos (env := W.env₁) vis hwf.inv
  have hneed' : Fuel.need W.env₁.reg X X.stmt vis ≤ (f - W.slack) + 1 := by omega
  have htr : Fuel.isTracked X.stmt = true := by
    unfold isModKw at hm; unfold Fuel.isTracked; rw [hm]; rfl
  have hc3 : ¬ (Fuel.isTracked X.stmt && vis.contains (nodeId X X.stmt)) = true := by
    rw [hnv]; simp
  obtain ⟨_, hn'⟩ := Fuel.callee_need hwf.inv hneed' hc3 (Fuel.Callee.child (scope := []) hcf.mem)
  have hv' : Fuel.visiting' X X.stmt vis = nodeId X X.stmt :: vis := by
    unfold Fuel.visiting'; rw [htr]; rfl
  rw [hv'] at hn'
  have := run_val W hW f X [X.stmt] c (nodeId X X.stmt :: vis) t₁ X₂ [X₂.stmt] hcr (hwf.child hcf.mem)
    (called_not_mod hfld hcf) (by omega) hs.1 (harmless_of_onlyMods W hW (onlyMods_cons W hvis hX hm) _)
  exact ⟨this.1, this.2.1, this.2.2.1.trans hs.2.1, this.2.2.2.1.trans hs.2.2⟩


theorem no_io_pre : "input" ∉ preFields ∧ "output" ∉ preFields ∧ "include" ∉ preFields ∧ "type" ∉ preFields := by decide
theorem no_io_post : "input" ∉ postFields ∧ "output" ∉ postFields ∧ "include" ∉ postFields ∧ "type" ∉ postFields := by
  decide

theorem pre_sub {n : Stmt} (hm : isModKw n = true) : ∀ f ∈ preFields, f ∈ fieldOrder n.kw := by
  intro f hf; rw [fieldOrder_mod hm]; simp [hf]
theorem post_sub {n : Stmt} (hm : isModKw n = true) : ∀ f ∈ postFields, f ∈ fieldOrder n.kw := by
  intro f hf; rw [fieldOrder_mod hm]; simp [hf]

theorem e0_kind_eq (r₁ r₂ : Mod) (n : Stmt) : (e0 r₁ n).d.kind = (e0 r₂ n).d.kind := by
  rw [(e0_data r₁ n).2.1, (e0_data r₂ n).2.1]

include hW in
/-- **A (sub)module without include statements converts to the pure fold over the values.** -/
theorem mod_conv (X X₂ : Mod) (hX : X ∈ W.env₁.reg.mods) (hm : isModKw X.stmt = true)
    (hinc : X.stmt.all "include" = []) (hcr : W.CR X [X.stmt] X₂ [X₂.stmt]) (f : Nat) (vis : List NodeId) (st : TState)
    (hvis : OnlyMods W vis) (hnv : vis.contains (nodeId X X.stmt) = false)
    (hcache : st.cache.find? (·.1 == X.seq) = none)
    (hneed : Fuel.need W.env₁.reg X X.stmt vis + W.slack ≤ f + 1) (hcoh : Coh W st.gcache) :
    REb W.σ (toEntry W.env₁ (f + 1) X [] X.stmt vis st).1 (pmod W.env₂ (fun c => W.val X₂ [X₂.stmt] c) X₂ X.stmt) ∧
    Coh W (toEntry W.env₁ (f + 1) X [] X.stmt vis st).2.gcache ∧
    (toEntry W.env₁ (f + 1) X [] X.stmt vis st).2.cache = st.cache ++ [(X.seq, (toEntry W.env₁ (f + 1) X [] X.stmt vis st).1)] ∧
    (toEntry W.env₁ (f + 1) X [] X.stmt vis st).2.merged = st.merged := by
  rw [Tree.toEntry_succ, toEntryBody_mod W.env₁ f _ X [] X.stmt vis st hm hcache hnv]
  unfold dirBody
  dsimp only
  rw [fieldOrder_mod hm, List.foldl_append, List.foldl_append, List.foldl_cons, List.foldl_nil,
    step_include_nil _ _ _ _ _ _ _ _ hinc, ← List.foldl_append]
  have hcalls := mod_calls W hW X X₂ hX hm hcr f vis st hvis hnv hneed
  have key := fields_rel (RE := REb W.σ) (RS := RSm W st) (closed2_REb W.σ) W.env₁ W.env₂ (toEntry W.env₁ f)
    (constRec (fun c => W.val X₂ [X₂.stmt] c)) X X₂ X.stmt [X.stmt] [X.stmt] (nodeId X X.stmt :: vis) [] hcalls true
    (fun _ s₁ s₂ _ _ hs _ => hs) (preFields ++ postFields)
    (fun fld hfld c hc => ⟨fld, by
      rcases List.mem_append.1 hfld with h | h
      · exact pre_sub hm fld h
      · exact post_sub hm fld h, hc⟩)
    (by decide) (e0 X X.stmt, st) (e0 X₂ X.stmt, {})
    ⟨REb_of_eq _ (ren_e0 _ _ _ _ (hW.cr_seq hcr)), hcoh, rfl, rfl⟩ (e0_kind_eq _ _ _)
  obtain ⟨⟨hre, hco, hca, hme⟩, _⟩ := key
  simp only [if_true]
  refine ⟨hre, hco, ?_, hme⟩
  rw [hca]

end Mod


/-! ### the include step -/

/-- The body of the include step of `toEntry` (Go: the `Include` case of `ToEntry`, with the
merged-submodule bookkeeping). -/
def incStep (env : Env) (rec : Rec) (root : Mod) (n : Stmt) (visiting : List NodeId) (acc : Entry × TState) (a : Stmt) :
    Entry × TState :=
  let (e, st) := acc
  match env.includeTarget root a with
  | none => (e.addErr (Err.at_ a "other"), st)
  | some im =>
    let srcToIncluded := im.name ++ ":" ++ n.arg
    let includedToSrc := n.arg ++ ":" ++ im.name
    if st.merged.contains srcToIncluded then (e, st)
    else if !st.merged.contains includedToSrc && im.name != n.arg then
      let includedToParent := im.name ++ ":" ++ (im.belongsTo?.getD "")
      if st.merged.contains includedToParent then (e, st)
      else
        let st := { st with merged := st.merged ++ [srcToIncluded, includedToParent] }
        let (ie, st) := rec im [] im.stmt visiting st
        (e.merge none ie, st)
    else if env.opts.ignoreCircular then (e, st)
    else (e.addErr (Err.bare "cycle"), st)

theorem step_include_eq (env : Env) (rec : Rec) (root : Mod) (n : Stmt) (sub : List Stmt) (vis : List NodeId)
    (isMod : Bool) (acc : Entry × TState) :
    stepFn env rec root n sub vis isMod acc "include" = (n.all "include").foldl (incStep env rec root n vis) acc := by
  rfl

theorem str_cancel (a b c : String) (h : a ++ c = b ++ c) : a = b := by
  have := congrArg String.toList h
  simp only [String.toList_append] at this
  exact String.toList_inj.1 (List.append_cancel_right this)

/-- One include of a submodule that has not been merged yet: it is converted and merged. -/
theorem incStep_fresh (env : Env) (rec : Rec) (root : Mod) (n : Stmt) (vis : List NodeId) (e : Entry) (st : TState)
    (a : Stmt) (im : Mod) (par : String) (ht : env.includeTarget root a = some im) (hpar : im.belongsTo? = some par)
    (h1 : st.merged.contains (im.name ++ ":" ++ n.arg) = false)
    (h2 : st.merged.contains (n.arg ++ ":" ++ im.name) = false) (h3 : im.name ≠ n.arg)
    (h4 : st.merged.contains (im.name ++ ":" ++ par) = false) :
    incStep env rec root n vis (e, st) a =
      (e.merge none (rec im [] im.stmt vis { st with merged := st.merged ++ [im.name ++ ":" ++ n.arg, im.name ++ ":" ++ par] }).1,
       (rec im [] im.stmt vis { st with merged := st.merged ++ [im.name ++ ":" ++ n.arg, im.name ++ ":" ++ par] }).2) := by
  unfold incStep
  simp only [ht, hpar, Option.getD_some, h1, h2, h4, Bool.false_eq_true, if_false, Bool.not_false, Bool.true_and,
    bne_iff_ne, ne_eq, h3, not_false_eq_true, if_true]


/-! ### the owner of a split -/

theorem nodup_map_inj {α β : Type} (f : α → β) : ∀ (l : List α), (l.map f).Nodup → ∀ {a b : α}, a ∈ l → b ∈ l →
    f a = f b → a = b
  | [], _, _, _, ha, _, _ => by cases ha
  | x :: xs, h, a, b, ha, hb, hab => by
    rw [List.map_cons, List.nodup_cons] at h
    rcases List.mem_cons.1 ha with ha | ha
    · rcases List.mem_cons.1 hb with hb | hb
      · rw [ha, hb]
      · exact absurd (by rw [← ha, hab]; exact List.mem_map_of_mem hb) h.1
    · rcases List.mem_cons.1 hb with hb | hb
      · exact absurd (by rw [← hb, ← hab]; exact List.mem_map_of_mem ha) h.1
      · exact nodup_map_inj f xs h.2 ha hb hab

section Owner
open Goyang.Lemmas.IncludeWorld
variable {s : Split} {R R' : Registry} (opts : Opts) (plug : Plug)
  (ht : TextOK s) (hr : RegsOK s R R') (hl : LinkOK s R (linkAll R).1 (linkAll R').1)
  (hW : (Ws s R R' opts plug).OK)

/-- The value of a top-level statement of the unsplit module. -/
noncomputable def vm (s : Split) (R : Registry) (opts : Opts) (plug : Plug) : Stmt → Entry :=
  fun c => IncludePure.val (envOf R opts plug) (lkOf R (linkAll R).1) s.m [s.m.stmt] c

/-- The merged-submodule key goyang records for a submodule of the split. -/
def mkey (s : Split) (sb : Mod) : String := sb.name ++ ":" ++ s.m.name

omit opts plug in
theorem mkey_inj (a b : Mod) (h : mkey s a = mkey s b) : a.name = b.name := by
  unfold mkey at h
  exact str_cancel _ _ ":" (str_cancel _ _ _ h)

omit opts plug in
theorem sub_kw_mod (ht : TextOK s) {sb : Mod} (h : sb ∈ s.subs) : isModKw sb.stmt = true := by
  unfold isModKw; rw [ht.sub_kw sb h]; rfl

omit opts plug in
theorem owner_kw_mod (ht : TextOK s) : isModKw s.owner.stmt = true := by
  unfold isModKw; rw [ht.owner_kw]; rfl

omit opts plug in
theorem owner_linked (hr : RegsOK s R R') (hl : LinkOK s R (linkAll R).1 (linkAll R').1) :
    (linkAll R').1.contains s.owner.seq = true := by
  rw [hr.owner_seq, hl.same s.m hr.m_mem]; exact hl.m_linked

omit opts plug in
theorem sub_seq_ne_owner (hr : RegsOK s R R') {sb : Mod} (h : sb ∈ s.subs) : sb.seq ≠ s.owner.seq := by
  rw [hr.owner_seq]; exact hr.sub_seqs_fresh sb h s.m hr.m_mem

omit opts plug in
theorem sub_eq_of_seq (hr : RegsOK s R R') : ∀ {a b : Mod}, a ∈ s.subs → b ∈ s.subs → a.seq = b.seq → a = b := by
  have := hr.sub_seqs_nodup
  intro a b ha hb hab
  exact nodup_map_inj _ _ this ha hb hab

omit opts plug in
theorem sub_eq_of_name (hr : RegsOK s R R') : ∀ {a b : Mod}, a ∈ s.subs → b ∈ s.subs → a.name = b.name → a = b := by
  have := hr.sub_names_nodup
  intro a b ha hb hab
  exact nodup_map_inj _ _ this ha hb hab

/-- The state invariant of the include step of the owner, after the submodules `done`. -/
structure IncInv (s : Split) (R R' : Registry) (opts : Opts) (plug : Plug) (st : TState) (done : List Mod) (t : TState) :
    Prop where
  coh : Coh (Ws s R R' opts plug) t.gcache
  merged : t.merged = done.flatMap (fun sb => [mkey s sb, mkey s sb])
  cache : ∀ p ∈ t.cache, p ∈ st.cache ∨ ∃ sb ∈ done, p.1 = sb.seq ∧
    REb s.σ p.2 (pmod (envOf R opts plug) (vm s R opts plug) s.m sb.stmt)
  cached : ∀ sb ∈ done, ∃ e, (sb.seq, e) ∈ t.cache
  grows : ∀ p ∈ st.cache, p ∈ t.cache


omit opts plug in
theorem flatMap_keys_contains (hr : RegsOK s R R') (done : List Mod) (hd : ∀ x ∈ done, x ∈ s.subs) (sb : Mod) (hsb : sb ∈ s.subs)
    (hnot : sb ∉ done) : (done.flatMap (fun x => [mkey s x, mkey s x])).contains (mkey s sb) = false := by
  rw [Bool.eq_false_iff]
  intro h
  rw [List.contains_iff_mem] at h
  obtain ⟨x, hx, hk⟩ := List.mem_flatMap.1 h
  have hk' : mkey s sb = mkey s x := by
    simp only [List.mem_cons, List.mem_nil_iff, or_false, or_self] at hk
    exact hk
  have := sub_eq_of_name hr hsb (hd x hx) (mkey_inj _ _ hk')
  exact hnot (this ▸ hx)

omit opts plug in
theorem flatMap_keys_apart (hr : RegsOK s R R') (done : List Mod) (hd : ∀ x ∈ done, x ∈ s.subs) (sb : Mod) (hsb : sb ∈ s.subs) :
    (done.flatMap (fun x => [mkey s x, mkey s x])).contains (s.m.name ++ ":" ++ sb.name) = false := by
  rw [Bool.eq_false_iff]
  intro h
  rw [List.contains_iff_mem] at h
  obtain ⟨x, hx, hk⟩ := List.mem_flatMap.1 h
  have hk' : s.m.name ++ ":" ++ sb.name = mkey s x := by
    simp only [List.mem_cons, List.mem_nil_iff, or_false, or_self] at hk
    exact hk
  exact hr.keys_apart sb hsb x (hd x hx) hk'

include ht hr hl hW in
/-- **The include step of the owner**: every submodule is converted once and merged. -/
theorem inc_fold (f : Nat) (st : TState) (hst : ∀ p ∈ st.cache, ∀ sb ∈ s.subs, p.1 ≠ sb.seq)
    (hfuel : ∀ sb ∈ s.subs, Fuel.need R' sb sb.stmt [nodeId s.owner s.owner.stmt] + lookupSlack R' ≤ f) :
    ∀ (as : List Stmt) (rest done : List Mod), done ++ rest = s.subs → as.map (R'.findModule true) = rest.map some →
    ∀ (e₁ : Entry) (t₁ : TState) (e₂ : Entry), REb s.σ e₁ e₂ → IncInv s R R' opts plug st done t₁ →
      REb s.σ (as.foldl (incStep (Ws s R R' opts plug).env₁ (toEntry (Ws s R R' opts plug).env₁ f) s.owner s.owner.stmt
          [nodeId s.owner s.owner.stmt]) (e₁, t₁)).1
        (pmerge e₂ (rest.map fun sb => pmod (envOf R opts plug) (vm s R opts plug) s.m sb.stmt)) ∧
      IncInv s R R' opts plug st s.subs (as.foldl (incStep (Ws s R R' opts plug).env₁ (toEntry (Ws s R R' opts plug).env₁ f)
          s.owner s.owner.stmt [nodeId s.owner s.owner.stmt]) (e₁, t₁)).2 ∧
      (as.foldl (incStep (Ws s R R' opts plug).env₁ (toEntry (Ws s R R' opts plug).env₁ f) s.owner s.owner.stmt
          [nodeId s.owner s.owner.stmt]) (e₁, t₁)).1.d.kind = e₁.d.kind := by
  intro as
  induction as with
  | nil =>
    intro rest done hdr hmap e₁ t₁ e₂ hre hinv
    have : rest = [] := by
      cases rest with
      | nil => rfl
      | cons x xs => simp at hmap
    subst this
    rw [List.append_nil] at hdr
    subst hdr
    exact ⟨hre, hinv, rfl⟩
  | cons a as ih =>
    intro rest done hdr hmap e₁ t₁ e₂ hre hinv
    cases rest with
    | nil => simp at hmap
    | cons sb rest =>
      simp only [List.map_cons, List.cons.injEq] at hmap
      obtain ⟨hfa, hmap'⟩ := hmap
      have hsb : sb ∈ s.subs := by rw [← hdr]; simp
      have hdone : ∀ x ∈ done, x ∈ s.subs := fun x hx => by rw [← hdr]; simp [hx]
      have hnd : sb ∉ done := by
        intro hmem
        have hn := hr.sub_seqs_nodup
        rw [← hdr, List.map_append, List.map_cons] at hn
        have := (List.nodup_append.1 hn).2.2 sb.seq (List.mem_map_of_mem hmem) sb.seq (List.mem_cons_self ..)
        exact this rfl
      -- the include statement resolves to the submodule
      have htgt : (Ws s R R' opts plug).env₁.includeTarget s.owner a = some sb := by
        unfold Env.includeTarget
        have : (Ws s R R' opts plug).env₁.linked.contains s.owner.seq = true := owner_linked hr hl
        rw [if_pos this]
        exact hfa
      have hname : s.owner.stmt.arg = s.m.name := ht.owner_arg
      have hk1 : t₁.merged.contains (sb.name ++ ":" ++ s.owner.stmt.arg) = false := by
        rw [hname, hinv.merged]; exact flatMap_keys_contains hr done hdone sb hsb hnd
      have hk2 : t₁.merged.contains (s.owner.stmt.arg ++ ":" ++ sb.name) = false := by
        rw [hname, hinv.merged]; exact flatMap_keys_apart hr done hdone sb hsb
      have hk3 : sb.name ≠ s.owner.stmt.arg := by rw [hname]; exact hr.sub_name_ne sb hsb
      have hk4 : t₁.merged.contains (sb.name ++ ":" ++ s.m.name) = false := by
        rw [hinv.merged]; exact flatMap_keys_contains hr done hdone sb hsb hnd
      rw [List.foldl_cons, incStep_fresh _ _ _ _ _ _ _ _ sb s.m.name htgt (ht.sub_belongs sb hsb) hk1 hk2 hk3 hk4]
      -- the conversion of the submodule
      obtain ⟨f0, rfl⟩ : ∃ f0, f = f0 + 1 := by
        have hwf : WF (Ws s R R' opts plug).env₁.reg sb [] sb.stmt := ⟨part_mem' hr (List.mem_cons_of_mem _ hsb), rfl⟩
        have := Fuel.need_pos (env := (Ws s R R' opts plug).env₁) [nodeId s.owner s.owner.stmt] hwf.inv
        have h2 := hfuel sb hsb
        exact ⟨f - 1, by
          have h3 : Fuel.need (Ws s R R' opts plug).env₁.reg sb sb.stmt [nodeId s.owner s.owner.stmt] =
            Fuel.need R' sb sb.stmt [nodeId s.owner s.owner.stmt] := rfl
          omega⟩
      have hvis : OnlyMods (Ws s R R' opts plug) [nodeId s.owner s.owner.stmt] :=
        onlyMods_cons _ (onlyMods_nil _) (part_mem' hr (List.mem_cons_self ..)) (owner_kw_mod ht)
      have hnv : [nodeId s.owner s.owner.stmt].contains (nodeId sb sb.stmt) = false := by
        rw [Bool.eq_false_iff]
        intro h
        simp only [List.contains_cons, List.contains_nil, Bool.or_false, beq_iff_eq] at h
        have : sb.seq = s.owner.seq := congrArg (·.1) h
        exact sub_seq_ne_owner hr hsb this
      have hcache : ({ t₁ with merged := t₁.merged ++ [sb.name ++ ":" ++ s.owner.stmt.arg, sb.name ++ ":" ++ s.m.name] } : TState).cache.find?
          (·.1 == sb.seq) = none := by
        rw [List.find?_eq_none]
        intro p hp
        simp only [beq_iff_eq]
        rcases hinv.cache p hp with h | ⟨x, hx, hpx, _⟩
        · exact hst p h sb hsb
        · intro he
          exact hnd ((sub_eq_of_seq hr hsb (hdone x hx) (he.symm.trans hpx)) ▸ hx)
      have hcr : (Ws s R R' opts plug).CR sb [sb.stmt] s.m [s.m.stmt] :=
        Or.inl ⟨List.mem_cons_of_mem _ hsb, rfl, [], rfl, rfl⟩
      have mc := mod_conv (Ws s R R' opts plug) hW sb s.m (part_mem' hr (List.mem_cons_of_mem _ hsb)) (sub_kw_mod ht hsb)
        (hr.sub_no_include sb hsb) hcr f0 [nodeId s.owner s.owner.stmt]
        { t₁ with merged := t₁.merged ++ [sb.name ++ ":" ++ s.owner.stmt.arg, sb.name ++ ":" ++ s.m.name] }
        hvis hnv hcache (hfuel sb hsb) hinv.coh
      obtain ⟨m1, m2, m3, m4⟩ := mc
      generalize toEntry (Ws s R R' opts plug).env₁ (f0 + 1) sb [] sb.stmt [nodeId s.owner s.owner.stmt]
        { t₁ with merged := t₁.merged ++ [sb.name ++ ":" ++ s.owner.stmt.arg, sb.name ++ ":" ++ s.m.name] } = out at m1 m2 m3 m4 ⊢
      obtain ⟨esb, tsb⟩ := out
      dsimp only at m1 m2 m3 m4 ⊢
      have hinv' : IncInv s R R' opts plug st (done ++ [sb]) tsb := by
        refine ⟨m2, ?_, ?_, ?_, fun p hp => by rw [m3]; exact List.mem_append_left _ (hinv.grows p hp)⟩
        · rw [m4, hinv.merged, hname, List.flatMap_append]
          simp [mkey]
        · intro p hp
          rw [m3] at hp
          rcases List.mem_append.1 hp with hp | hp
          · rcases hinv.cache p hp with h | ⟨x, hx, h1, h2⟩
            · exact Or.inl h
            · exact Or.inr ⟨x, List.mem_append_left _ hx, h1, h2⟩
          · simp only [List.mem_singleton] at hp
            subst hp
            exact Or.inr ⟨sb, by simp, rfl, m1⟩
        · intro x hx
          rw [m3]
          rcases List.mem_append.1 hx with hx | hx
          · obtain ⟨e, he⟩ := hinv.cached x hx
            exact ⟨e, List.mem_append_left _ he⟩
          · simp only [List.mem_singleton] at hx
            subst hx
            exact ⟨esb, by simp⟩
      have hre' : REb s.σ (e₁.merge none esb) (e₂.merge none (pmod (envOf R opts plug) (vm s R opts plug) s.m sb.stmt)) :=
        (closed2_REb s.σ).merge _ _ _ _ hre m1
      have := ih rest (done ++ [sb]) (by rw [← hdr]; simp) hmap' (e₁.merge none esb) tsb _ hre' hinv'
      refine ⟨?_, this.2.1, ?_⟩
      · simpa [pmerge] using this.1
      · rw [this.2.2]; exact (rootKeep_merge e₁ none esb).2.1


include ht hr hl hW in
/-- **The owner converts to its own steps, the merged submodules, its own remaining steps.** -/
theorem owner_conv (f : Nat) (st : TState) (hst : ∀ p ∈ st.cache, ∀ sb ∈ s.subs, p.1 ≠ sb.seq)
    (hmerged : st.merged = []) (hcache : st.cache.find? (·.1 == s.owner.seq) = none)
    (hcoh : Coh (Ws s R R' opts plug) st.gcache)
    (hneed : Fuel.need R' s.owner s.owner.stmt [] + lookupSlack R' ≤ f + 1) :
    REb s.σ (toEntry (Ws s R R' opts plug).env₁ (f + 1) s.owner [] s.owner.stmt [] st).1
      (powner (envOf R opts plug) (vm s R opts plug) s.m s.owner.stmt (s.subs.map (·.stmt))) ∧
    Coh (Ws s R R' opts plug) (toEntry (Ws s R R' opts plug).env₁ (f + 1) s.owner [] s.owner.stmt [] st).2.gcache ∧
    (∀ p ∈ (toEntry (Ws s R R' opts plug).env₁ (f + 1) s.owner [] s.owner.stmt [] st).2.cache,
      p ∈ st.cache ∨ p = (s.owner.seq, (toEntry (Ws s R R' opts plug).env₁ (f + 1) s.owner [] s.owner.stmt [] st).1) ∨
      ∃ sb ∈ s.subs, p.1 = sb.seq ∧ REb s.σ p.2 (pmod (envOf R opts plug) (vm s R opts plug) s.m sb.stmt)) ∧
    (s.owner.seq, (toEntry (Ws s R R' opts plug).env₁ (f + 1) s.owner [] s.owner.stmt [] st).1) ∈
      (toEntry (Ws s R R' opts plug).env₁ (f + 1) s.owner [] s.owner.stmt [] st).2.cache ∧
    (∀ sb ∈ s.subs, ∃ e, (sb.seq, e) ∈ (toEntry (Ws s R R' opts plug).env₁ (f + 1) s.owner [] s.owner.stmt [] st).2.cache) ∧
    (∀ p ∈ st.cache, p ∈ (toEntry (Ws s R R' opts plug).env₁ (f + 1) s.owner [] s.owner.stmt [] st).2.cache) := by
  have hm := owner_kw_mod ht
  have hX : s.owner ∈ (Ws s R R' opts plug).env₁.reg.mods := part_mem' hr (List.mem_cons_self ..)
  have hcr : (Ws s R R' opts plug).CR s.owner [s.owner.stmt] s.m [s.m.stmt] :=
    Or.inl ⟨List.mem_cons_self .., rfl, [], rfl, rfl⟩
  rw [Tree.toEntry_succ, toEntryBody_mod _ f _ s.owner [] s.owner.stmt [] st hm hcache (by simp)]
  unfold dirBody
  dsimp only
  rw [fieldOrder_mod hm, List.foldl_append, List.foldl_append, List.foldl_cons, List.foldl_nil, step_include_eq]
  -- the steps before the include step
  have hcalls : ∀ st', ∀ c, (∃ fld ∈ fieldOrder s.owner.stmt.kw, Called s.owner.stmt fld c) → ∀ t₁ t₂,
      RSm (Ws s R R' opts plug) st' t₁ t₂ → AccRel (REb s.σ) (RSm (Ws s R R' opts plug) st')
        (toEntry (Ws s R R' opts plug).env₁ f s.owner [s.owner.stmt] c (nodeId s.owner s.owner.stmt :: []) t₁)
        (constRec (vm s R opts plug) s.m [s.owner.stmt] c [] t₂) :=
    fun st' => mod_calls (Ws s R R' opts plug) hW s.owner s.m hX hm hcr f [] st' (onlyMods_nil _) (by simp) hneed
  have keyA := fields_rel (RE := REb s.σ) (RS := RSm (Ws s R R' opts plug) st) (closed2_REb s.σ)
    (Ws s R R' opts plug).env₁ (envOf R opts plug) (toEntry (Ws s R R' opts plug).env₁ f) (constRec (vm s R opts plug))
    s.owner s.m s.owner.stmt [s.owner.stmt] [s.owner.stmt] (nodeId s.owner s.owner.stmt :: []) [] (hcalls st) true
    (fun _ s₁ s₂ _ _ hs _ => hs) preFields (fun fld hfld c hc => ⟨fld, pre_sub hm fld hfld, hc⟩) no_io_pre
    (e0 s.owner s.owner.stmt, st) (e0 s.m s.owner.stmt, {})
    ⟨REb_of_eq _ (ren_e0 _ _ _ _ (hW.cr_seq hcr)), hcoh, rfl, rfl⟩ (e0_kind_eq _ _ _)
  obtain ⟨⟨hreA, hcoA, hcaA, hmeA⟩, hkA⟩ := keyA
  generalize hA1 : preFields.foldl (stepFn (Ws s R R' opts plug).env₁ (toEntry (Ws s R R' opts plug).env₁ f) s.owner
    s.owner.stmt [s.owner.stmt] (nodeId s.owner s.owner.stmt :: []) true) (e0 s.owner s.owner.stmt, st) = A1
    at hreA hcoA hcaA hmeA hkA ⊢
  obtain ⟨eA, tA⟩ := A1
  dsimp only at hreA hcoA hcaA hmeA hkA
  -- the include step
  have hinvA : IncInv s R R' opts plug st [] tA :=
    ⟨hcoA, (by rw [hmeA, hmerged]; rfl), fun p hp => Or.inl (hcaA ▸ hp), fun _ h => (by cases h),
      fun p hp => (by rw [hcaA]; exact hp)⟩
  have hfuelS : ∀ sb ∈ s.subs, Fuel.need R' sb sb.stmt [nodeId s.owner s.owner.stmt] + lookupSlack R' ≤ f := by
    intro sb hsb
    have hwf : WF (Ws s R R' opts plug).env₁.reg s.owner [] s.owner.stmt := ⟨hX, rfl⟩
    have hpos := Fuel.need_pos (env := (Ws s R R' opts plug).env₁) [] hwf.inv
    have hneed0 : Fuel.need (Ws s R R' opts plug).env₁.reg s.owner s.owner.stmt [] + lookupSlack R' ≤ f + 1 := hneed
    have hneed' : Fuel.need (Ws s R R' opts plug).env₁.reg s.owner s.owner.stmt [] ≤ (f - lookupSlack R') + 1 := by omega
    have htr : Fuel.isTracked s.owner.stmt = true := by
      unfold isModKw at hm; unfold Fuel.isTracked; rw [hm]; rfl
    obtain ⟨i, hi, hfi⟩ := IncludeLink.sub_included hr hsb
    have htgt : (Ws s R R' opts plug).env₁.includeTarget s.owner i = some sb := by
      unfold Env.includeTarget
      have : (Ws s R R' opts plug).env₁.linked.contains s.owner.seq = true := owner_linked hr hl
      rw [if_pos this]
      exact hfi
    have hinF : "include" ∈ fieldOrder s.owner.stmt.kw := by rw [fieldOrder_mod hm]; simp
    obtain ⟨_, hn'⟩ := Fuel.callee_need hwf.inv hneed' (by simp) (Fuel.Callee.include_ (scope := []) hinF htgt)
    have hv' : Fuel.visiting' s.owner s.owner.stmt [] = [nodeId s.owner s.owner.stmt] := by
      unfold Fuel.visiting'; rw [htr]; rfl
    rw [hv'] at hn'
    have h3 : Fuel.need (Ws s R R' opts plug).env₁.reg sb sb.stmt [nodeId s.owner s.owner.stmt] =
      Fuel.need R' sb sb.stmt [nodeId s.owner s.owner.stmt] := rfl
    omega
  have keyB := inc_fold opts plug ht hr hl hW f st hst hfuelS (s.owner.stmt.all "include") s.subs [] rfl hr.owner_includes
    eA tA _ hreA hinvA
  obtain ⟨hreB, hinvB, hkB⟩ := keyB
  generalize hB1 : (s.owner.stmt.all "include").foldl (incStep (Ws s R R' opts plug).env₁
    (toEntry (Ws s R R' opts plug).env₁ f) s.owner s.owner.stmt [nodeId s.owner s.owner.stmt]) (eA, tA) = B1
    at hreB hinvB hkB ⊢
  obtain ⟨eB, tB⟩ := B1
  dsimp only at hreB hinvB hkB
  -- the steps after the include step
  have hkB2 : eB.d.kind = (pmerge (preFields.foldl (stepFn (envOf R opts plug) (constRec (vm s R opts plug)) s.m
      s.owner.stmt [s.owner.stmt] [] true) (e0 s.m s.owner.stmt, {})).1
      (s.subs.map fun sb => pmod (envOf R opts plug) (vm s R opts plug) s.m sb.stmt)).d.kind := by
    rw [hkB, hkA]
    unfold pmerge
    refine (foldl_inv (fun x : Entry => x.d.kind = (preFields.foldl (stepFn (envOf R opts plug)
      (constRec (vm s R opts plug)) s.m s.owner.stmt [s.owner.stmt] [] true) (e0 s.m s.owner.stmt, {})).1.d.kind) _ _ _ rfl ?_).symm
    intro b a _ hb
    rw [(rootKeep_merge b none a).2.1]; exact hb
  have keyC := fields_rel (RE := REb s.σ) (RS := RSm (Ws s R R' opts plug) tB) (closed2_REb s.σ)
    (Ws s R R' opts plug).env₁ (envOf R opts plug) (toEntry (Ws s R R' opts plug).env₁ f) (constRec (vm s R opts plug))
    s.owner s.m s.owner.stmt [s.owner.stmt] [s.owner.stmt] (nodeId s.owner s.owner.stmt :: []) [] (hcalls tB) true
    (fun _ s₁ s₂ _ _ hs _ => hs) postFields (fun fld hfld c hc => ⟨fld, post_sub hm fld hfld, hc⟩) no_io_post
    (eB, tB) (_, {}) ⟨hreB, hinvB.coh, rfl, rfl⟩ hkB2
  obtain ⟨⟨hreC, hcoC, hcaC, hmeC⟩, _⟩ := keyC
  generalize hC1 : postFields.foldl (stepFn (Ws s R R' opts plug).env₁ (toEntry (Ws s R R' opts plug).env₁ f) s.owner
    s.owner.stmt [s.owner.stmt] (nodeId s.owner s.owner.stmt :: []) true) (eB, tB) = C1 at hreC hcoC hcaC hmeC ⊢
  obtain ⟨eC, tC⟩ := C1
  dsimp only at hreC hcoC hcaC hmeC
  simp only [if_true]
  refine ⟨?_, hcoC, ?_, ?_, ?_, ?_⟩
  · have : powner (envOf R opts plug) (vm s R opts plug) s.m s.owner.stmt (s.subs.map (·.stmt)) =
        (postFields.foldl (stepFn (envOf R opts plug) (constRec (vm s R opts plug)) s.m s.owner.stmt [s.owner.stmt] [] true)
          (pmerge (preFields.foldl (stepFn (envOf R opts plug) (constRec (vm s R opts plug)) s.m s.owner.stmt
            [s.owner.stmt] [] true) (e0 s.m s.owner.stmt, {})).1
            (s.subs.map fun sb => pmod (envOf R opts plug) (vm s R opts plug) s.m sb.stmt), {})).1 := by
      unfold powner pfold
      rw [List.map_map]
      rfl
    rw [this]
    exact hreC
  · intro p hp
    rw [hcaC] at hp
    rcases List.mem_append.1 hp with hp | hp
    · rcases hinvB.cache p hp with h | ⟨sb, hsb, h1, h2⟩
      · exact Or.inl h
      · exact Or.inr (Or.inr ⟨sb, hsb, h1, h2⟩)
    · simp only [List.mem_singleton] at hp
      exact Or.inr (Or.inl hp)
  · rw [hcaC]; simp
  · intro sb hsb
    obtain ⟨e, he⟩ := hinvB.cached sb hsb
    exact ⟨e, by rw [hcaC]; exact List.mem_append_left _ he⟩
  · intro p hp
    rw [hcaC]
    exact List.mem_append_left _ (hinvB.grows p hp)

end Owner

end Goyang.Lemmas.IncludeMod
