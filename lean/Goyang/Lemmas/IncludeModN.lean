import Goyang.Lemmas.IncludeMod
/-
C13 (third sentence), part 4c: the conversion of a part of a split with nested includes.

`part_conv`: goyang's depth-first conversion of a part (owner or submodule) — own field steps,
then for every include statement whose target has not been started yet (the merged-submodule
bookkeeping) the target's conversion merged, then the remaining field steps — computes, up to
renaming and where error free, the pure mirror `ppart` over the values of the statements.
-/
namespace Goyang.Lemmas.IncludeModN
open Goyang.Model Goyang.Spec.Include Goyang.Lemmas.Tree Goyang.Spec.Tree Goyang.Lemmas.IncludeRel
open Goyang.Lemmas.IncludePure Goyang.Lemmas.IncludeRun Goyang.Lemmas.IncludeAsm Goyang.Lemmas.IncludeWorld
open Goyang.Lemmas.IncludeMod

/-- The submodule statements the include statements of `X` resolve to. -/
def tgtOf (R' : Registry) (X : Stmt) : List Stmt :=
  (X.all "include").filterMap fun a => (R'.findModule true a).map (·.stmt)

theorem foldl_filterMap {α β γ : Type} (g : α → Option β) (F : γ → β → γ) (l : List α) (c : γ) :
    (l.filterMap g).foldl F c = l.foldl (fun acc a => match g a with | some y => F acc y | none => acc) c := by
  induction l generalizing c with
  | nil => rfl
  | cons a l ih =>
    rw [List.filterMap_cons]
    cases h : g a with
    | none => simp only [List.foldl_cons, h]; exact ih c
    | some y => simp only [List.foldl_cons, h]; exact ih _

theorem foldl_filterMap_eq {α β γ : Type} (g : α → Option β) (F : γ → β → γ) (G : γ → α → γ)
    (h : ∀ acc a, G acc a = (match g a with | some y => F acc y | none => acc)) (l : List α) (c : γ) :
    (l.filterMap g).foldl F c = l.foldl G c := by
  rw [foldl_filterMap]
  congr 1
  funext acc a
  exact (h acc a).symm

section Part
variable {s : Split} {R R' : Registry} (opts : Opts) (plug plug' : Plug)
  (ht : TextOK s) (hr : RegsOK s R R') (hl : LinkOK s R (linkAll R).1 (linkAll R').1)
  (hW : (Ws s R R' opts plug plug').OK)

omit opts plug plug' in
theorem part_of_name (ht : TextOK s) (hr : RegsOK s R R') {P Q : Mod} (hP : P ∈ s.parts) (hQ : Q ∈ s.parts)
    (h : P.name = Q.name) : P = Q := by
  have hon : s.owner.name = s.m.name := ht.owner_arg
  rcases List.mem_cons.1 hP with rfl | hP <;> rcases List.mem_cons.1 hQ with rfl | hQ
  · rfl
  · exact absurd (h.symm.trans hon) (hr.sub_name_ne Q hQ)
  · exact absurd (h.trans hon) (hr.sub_name_ne P hP)
  · exact sub_eq_of_name hr hP hQ h

omit opts plug plug' in
theorem part_name_mem (ht : TextOK s) {P : Mod} (hP : P ∈ s.parts) : P.name ∈ s.m.name :: s.subs.map (·.name) := by
  rcases List.mem_cons.1 hP with rfl | hP
  · rw [show s.owner.name = s.m.name from ht.owner_arg]; exact List.mem_cons_self ..
  · exact List.mem_cons_of_mem _ (List.mem_map_of_mem hP)

omit opts plug plug' in
theorem part_of_seq (hr : RegsOK s R R') {P Q : Mod} (hP : P ∈ s.parts) (hQ : Q ∈ s.parts) (h : P.seq = Q.seq) : P = Q := by
  rcases List.mem_cons.1 hP with rfl | hP <;> rcases List.mem_cons.1 hQ with rfl | hQ
  · rfl
  · exact absurd h.symm (sub_seq_ne_owner hr hQ)
  · exact absurd h (sub_seq_ne_owner hr hP)
  · exact sub_eq_of_seq hr hP hQ h


/-- The conversion state against the names of the started submodules. -/
structure PInv (s : Split) (R R' : Registry) (opts : Opts) (plug plug' : Plug) (st : TState) (S : List String) : Prop where
  coh : Coh (Ws s R R' opts plug plug') st.gcache
  m1 : ∀ sb ∈ s.subs, st.merged.contains (mkey s sb) = S.contains sb.name
  m2 : ∀ k ∈ st.merged, ∃ x ∈ s.subs, x.name ∈ S ∧
    (k = mkey s x ∨ ∃ y ∈ s.parts, Includes R' y x ∧ k = x.name ++ ":" ++ y.name)
  c1 : ∀ p ∈ st.cache, ∀ sb ∈ s.subs, p.1 = sb.seq → sb.name ∈ S
  names : ∀ n ∈ S, ∃ sb ∈ s.subs, sb.name = n

/-- No key of the bookkeeping says that the target was started from a part it is included by…
(goyang's circularity test passes). -/
theorem no_back_key (ht : TextOK s) (hr : RegsOK s R R') {st : TState} {S : List String}
    (hinv : PInv s R R' opts plug plug' st S) {P sb : Mod} (hP : P ∈ s.parts) (hsb : sb ∈ s.subs) (hinc : Includes R' P sb) :
    st.merged.contains (P.name ++ ":" ++ sb.name) = false ∧ sb.name ≠ P.name := by
  have hsbP : sb ∈ s.parts := List.mem_cons_of_mem _ hsb
  have hne : sb.name ≠ P.name := by
    intro e
    exact (hr.inc_no_back P hP sb hsbP hinc).1 (part_of_name ht hr hsbP hP e)
  refine ⟨?_, hne⟩
  rw [Bool.eq_false_iff]
  intro hc
  rw [List.contains_iff_mem] at hc
  obtain ⟨x, hx, _, hk⟩ := hinv.m2 _ hc
  have hxn := part_name_mem ht (List.mem_cons_of_mem _ hx)
  rcases hk with hk | ⟨y, hy, hyx, hk⟩
  · -- `P:sb = x:m`: then `sb` would be named like `m`
    have := hr.keys_inj _ (part_name_mem ht hP) _ (part_name_mem ht hsbP) _ hxn _ (List.mem_cons_self ..) hk
    exact hr.sub_name_ne sb hsb this.2
  · -- `P:sb = x:y` with `y` including `x`: then `sb` includes `P`
    have := hr.keys_inj _ (part_name_mem ht hP) _ (part_name_mem ht hsbP) _ hxn _ (part_name_mem ht hy) hk
    have e1 : P = x := part_of_name ht hr hP (List.mem_cons_of_mem _ hx) this.1
    have e2 : sb = y := part_of_name ht hr hsbP hy this.2
    subst e1 e2
    exact (hr.inc_no_back P hP sb hsbP hinc).2 hyx

/-- … and a key `sb:P` means that `sb` has been started. -/
theorem key_started (ht : TextOK s) (hr : RegsOK s R R') {st : TState} {S : List String}
    (hinv : PInv s R R' opts plug plug' st S) {P sb : Mod} (hP : P ∈ s.parts) (hsb : sb ∈ s.subs)
    (hc : st.merged.contains (sb.name ++ ":" ++ P.name) = true) : S.contains sb.name = true := by
  rw [List.contains_iff_mem] at hc
  obtain ⟨x, hx, hxS, hk⟩ := hinv.m2 _ hc
  have hxn := part_name_mem ht (List.mem_cons_of_mem _ hx)
  have hsbn := part_name_mem ht (List.mem_cons_of_mem _ hsb)
  have : sb.name = x.name := by
    rcases hk with hk | ⟨y, hy, _, hk⟩
    · exact (hr.keys_inj _ hsbn _ (part_name_mem ht hP) _ hxn _ (List.mem_cons_self ..) hk).1
    · exact (hr.keys_inj _ hsbn _ (part_name_mem ht hP) _ hxn _ (part_name_mem ht hy) hk).1
  rw [List.contains_iff_mem, this]; exact hxS


/-- An include statement of a part resolves for the conversion (the part is linked). -/
theorem inc_target (hr : RegsOK s R R') (hl : LinkOK s R (linkAll R).1 (linkAll R').1) {P sb : Mod} (hP : P ∈ s.parts)
    {a : Stmt} (hf : R'.findModule true a = some sb) :
    (Ws s R R' opts plug plug').env₁.includeTarget P a = some sb := by
  unfold Env.includeTarget
  have : (Ws s R R' opts plug plug').env₁.linked.contains P.seq = true := IncludeBind.part_linked hr hl hP
  rw [if_pos this]
  exact hf

include ht hr hl in
/-- An include of a submodule that has been started: skipped. -/
theorem incStep_skip (rec : Rec) {P sb : Mod} (hP : P ∈ s.parts) (hsb : sb ∈ s.subs) {a : Stmt}
    (ha : a ∈ P.stmt.all "include") (hf : R'.findModule true a = some sb) (vis : List NodeId) (e : Entry) {t : TState}
    {S : List String} (hinv : PInv s R R' opts plug plug' t S) (hS : S.contains sb.name = true) :
    incStep (Ws s R R' opts plug plug').env₁ rec P P.stmt vis (e, t) a = (e, t) := by
  have hinc : Includes R' P sb := ⟨a, ha, hf⟩
  obtain ⟨h2, h3⟩ := no_back_key opts plug plug' ht hr hinv hP hsb hinc
  have h4 : t.merged.contains (sb.name ++ ":" ++ s.m.name) = true := by
    have := hinv.m1 sb hsb
    unfold mkey at this
    rw [this]; exact hS
  unfold incStep
  simp only [inc_target opts plug plug' hr hl hP hf, ht.sub_belongs sb hsb, Option.getD_some]
  have h2' : t.merged.contains (P.stmt.arg ++ ":" ++ sb.name) = false := h2
  have h3' : sb.name ≠ P.stmt.arg := h3
  cases h1 : t.merged.contains (sb.name ++ ":" ++ P.stmt.arg) with
  | true => simp only [if_true]
  | false =>
    simp only [h2', h4, Bool.false_eq_true, if_false, Bool.not_false, Bool.true_and, bne_iff_ne, ne_eq, h3',
      not_false_eq_true, if_true]

include ht hr hl in
/-- An include of a submodule that has not been started: it is marked, converted and merged. -/
theorem incStep_start (rec : Rec) {P sb : Mod} (hP : P ∈ s.parts) (hsb : sb ∈ s.subs) {a : Stmt}
    (ha : a ∈ P.stmt.all "include") (hf : R'.findModule true a = some sb) (vis : List NodeId) (e : Entry) {t : TState}
    {S : List String} (hinv : PInv s R R' opts plug plug' t S) (hS : S.contains sb.name = false) :
    incStep (Ws s R R' opts plug plug').env₁ rec P P.stmt vis (e, t) a =
      (e.merge none (rec sb [] sb.stmt vis { t with merged := t.merged ++ [sb.name ++ ":" ++ P.stmt.arg, mkey s sb] }).1,
       (rec sb [] sb.stmt vis { t with merged := t.merged ++ [sb.name ++ ":" ++ P.stmt.arg, mkey s sb] }).2) := by
  have hinc : Includes R' P sb := ⟨a, ha, hf⟩
  obtain ⟨h2, h3⟩ := no_back_key opts plug plug' ht hr hinv hP hsb hinc
  have h4 : t.merged.contains (sb.name ++ ":" ++ s.m.name) = false := by
    have := hinv.m1 sb hsb
    unfold mkey at this
    rw [this]; exact hS
  have h1 : t.merged.contains (sb.name ++ ":" ++ P.stmt.arg) = false := by
    cases hc : t.merged.contains (sb.name ++ ":" ++ P.stmt.arg) with
    | false => rfl
    | true =>
      have := key_started opts plug plug' ht hr hinv hP hsb hc
      rw [hS] at this; cases this
  exact incStep_fresh _ rec P P.stmt vis e t a sb s.m.name (inc_target opts plug plug' hr hl hP hf) (ht.sub_belongs sb hsb) h1 h2 h3 h4


/-! ### counting the submodules not yet started -/

/-- Submodules of the split whose name is not among the started ones. -/
def unstarted (s : Split) (S : List String) : Nat := (s.subs.filter fun sb => !S.contains sb.name).length

omit opts plug plug' in
theorem unstarted_mono {S S' : List String} (h : ∀ n ∈ S, n ∈ S') : unstarted s S' ≤ unstarted s S := by
  unfold unstarted
  refine Fuel.filter_len_le _ _ _ ?_
  intro y hy
  have hy' : S'.contains y.name = false := by simpa using hy
  cases hc : S.contains y.name with
  | false => rfl
  | true =>
    have := h _ (List.contains_iff_mem.1 hc)
    rw [← List.contains_iff_mem] at this
    rw [this] at hy'; cases hy'

omit opts plug plug' in
theorem unstarted_lt {S : List String} {sb : Mod} (hsb : sb ∈ s.subs) (h : S.contains sb.name = false) :
    unstarted s (S ++ [sb.name]) < unstarted s S := by
  unfold unstarted
  refine Fuel.filter_len_lt _ _ _ ?_ sb hsb (by rw [h]; rfl) (by simp)
  intro y hy
  have hy' : (S ++ [sb.name]).contains y.name = false := by simpa using hy
  cases hc : S.contains y.name with
  | false => rfl
  | true =>
    have : (S ++ [sb.name]).contains y.name = true := by
      rw [List.contains_iff_mem] at hc ⊢
      exact List.mem_append_left _ hc
    rw [this] at hy'; cases hy'

/-- Starting a submodule keeps the invariant. -/
theorem pinv_start (ht : TextOK s) (hr : RegsOK s R R') {t : TState} {S : List String} (hinv : PInv s R R' opts plug plug' t S)
    {P sb : Mod} (hP : P ∈ s.parts) (hsb : sb ∈ s.subs) (hinc : Includes R' P sb) :
    PInv s R R' opts plug plug' { t with merged := t.merged ++ [sb.name ++ ":" ++ P.stmt.arg, mkey s sb] } (S ++ [sb.name]) := by
  have hsbn := part_name_mem ht (List.mem_cons_of_mem _ hsb)
  refine ⟨hinv.coh, ?_, ?_, ?_, ?_⟩
  · intro x hx
    have hxn := part_name_mem ht (List.mem_cons_of_mem _ hx)
    have h0 := hinv.m1 x hx
    show (t.merged ++ [sb.name ++ ":" ++ P.stmt.arg, mkey s sb]).contains (mkey s x) = (S ++ [sb.name]).contains x.name
    by_cases hxs : x.name = sb.name
    · have : x = sb := sub_eq_of_name hr hx hsb hxs
      subst this
      have h1 : (t.merged ++ [x.name ++ ":" ++ P.stmt.arg, mkey s x]).contains (mkey s x) = true := by
        rw [List.contains_iff_mem]; simp
      have h2 : (S ++ [x.name]).contains x.name = true := by rw [List.contains_iff_mem]; simp
      rw [h1, h2]
    · have h1 : (t.merged ++ [sb.name ++ ":" ++ P.stmt.arg, mkey s sb]).contains (mkey s x) = t.merged.contains (mkey s x) := by
        apply Bool.eq_iff_iff.2
        simp only [List.contains_iff_mem, List.mem_append, List.mem_cons, List.mem_nil_iff, or_false]
        constructor
        · rintro (h | h | h)
          · exact h
          · exact absurd (hr.keys_inj _ hxn _ (List.mem_cons_self ..) _ hsbn _ (part_name_mem ht hP) h).1 hxs
          · exact absurd (mkey_inj _ _ h) hxs
        · exact Or.inl
      have h2 : (S ++ [sb.name]).contains x.name = S.contains x.name := by
        apply Bool.eq_iff_iff.2
        simp only [List.contains_iff_mem, List.mem_append, List.mem_singleton]
        constructor
        · rintro (h | h)
          · exact h
          · exact absurd h hxs
        · exact Or.inl
      rw [h1, h2, h0]
  · intro k hk
    rcases List.mem_append.1 hk with hk | hk
    · obtain ⟨x, hx, hxS, h⟩ := hinv.m2 k hk
      exact ⟨x, hx, List.mem_append_left _ hxS, h⟩
    · simp only [List.mem_cons, List.mem_nil_iff, or_false] at hk
      refine ⟨sb, hsb, by simp, ?_⟩
      rcases hk with rfl | rfl
      · exact Or.inr ⟨P, hP, hinc, rfl⟩
      · exact Or.inl rfl
  · intro p hp x hx hpx
    exact List.mem_append_left _ (hinv.c1 p hp x hx hpx)
  · intro n hn
    rcases List.mem_append.1 hn with hn | hn
    · exact hinv.names n hn
    · simp only [List.mem_singleton] at hn
      exact ⟨sb, hsb, hn.symm⟩


/-! ### the pure mirror, over include statements -/

/-- The pure mirror of the conversion of a part, over the values of the unsplit module's statements. -/
noncomputable def pp (s : Split) (R R' : Registry) (opts : Opts) (plug : Plug) : Nat → List String → Stmt → Entry × List String :=
  ppart (envOf R opts plug) (vm s R opts plug) s.m (tgtOf R')

/-- One include statement in the pure mirror. -/
noncomputable def pstep (s : Split) (R R' : Registry) (opts : Opts) (plug : Plug) (f : Nat) (acc : Entry × List String) (a : Stmt) :
    Entry × List String :=
  match (R'.findModule true a).map (·.stmt) with
  | some Y =>
    if acc.2.contains Y.arg then acc
    else (acc.1.merge none (pp s R R' opts plug f (acc.2 ++ [Y.arg]) Y).1, (pp s R R' opts plug f (acc.2 ++ [Y.arg]) Y).2)
  | none => acc

omit opts plug plug' in
theorem ppart_succ (env : Env) (v : Stmt → Entry) (root : Mod) (tgt : Stmt → List Stmt) (f : Nat) (S : List String) (X : Stmt) :
    ppart env v root tgt (f + 1) S X =
      ((pfold env v root X postFields
        (((tgt X).foldl (fun (acc : Entry × List String) Y =>
          if acc.2.contains Y.arg then acc
          else ((acc.1.merge none (ppart env v root tgt f (acc.2 ++ [Y.arg]) Y).1), (ppart env v root tgt f (acc.2 ++ [Y.arg]) Y).2))
          ((pfold env v root X preFields (e0 root X, {})).1, S)).1, {})).1,
       ((tgt X).foldl (fun (acc : Entry × List String) Y =>
          if acc.2.contains Y.arg then acc
          else ((acc.1.merge none (ppart env v root tgt f (acc.2 ++ [Y.arg]) Y).1), (ppart env v root tgt f (acc.2 ++ [Y.arg]) Y).2))
          ((pfold env v root X preFields (e0 root X, {})).1, S)).2) := rfl

theorem pp_succ (f : Nat) (S : List String) (X : Stmt) :
    pp s R R' opts plug (f + 1) S X =
      ((pfold (envOf R opts plug) (vm s R opts plug) s.m X postFields
          (((X.all "include").foldl (pstep s R R' opts plug f)
            ((pfold (envOf R opts plug) (vm s R opts plug) s.m X preFields (e0 s.m X, {})).1, S)).1, {})).1,
       ((X.all "include").foldl (pstep s R R' opts plug f)
            ((pfold (envOf R opts plug) (vm s R opts plug) s.m X preFields (e0 s.m X, {})).1, S)).2) := by
  unfold pp
  rw [ppart_succ]
  have : tgtOf R' X = (X.all "include").filterMap fun a => (R'.findModule true a).map (·.stmt) := rfl
  rw [this, foldl_filterMap_eq _ _ (pstep s R R' opts plug f)]
  intro acc a
  unfold pstep pp
  cases (R'.findModule true a).map (·.stmt) <;> rfl

/-- What the module cache holds for a part: its entry is (up to renaming, where error free) a value
of the pure mirror. -/
def PureOf (s : Split) (R R' : Registry) (opts : Opts) (plug : Plug) (p : Nat × Entry) : Prop :=
  ∃ Q ∈ s.subs, p.1 = Q.seq ∧ ∃ (f' : Nat) (S' : List String), (∀ n ∈ S', ∃ sb ∈ s.subs, sb.name = n) ∧
    S'.contains Q.name = true ∧ unstarted s S' < f' ∧ REb s.σ p.2 (pp s R R' opts plug f' S' Q.stmt).1

/-- What `part_conv` concludes. -/
structure PGoal (s : Split) (R R' : Registry) (opts : Opts) (plug plug' : Plug) (P : Mod) (st : TState) (S : List String)
    (out : Entry × TState) (q : Entry × List String) : Prop where
  re : REb s.σ out.1 q.1
  inv : PInv s R R' opts plug plug' out.2 q.2
  mono : ∀ n ∈ S, n ∈ q.2
  cache : ∀ p ∈ out.2.cache, p ∈ st.cache ∨ p = (P.seq, out.1) ∨ PureOf s R R' opts plug p
  grows : ∀ p ∈ st.cache, p ∈ out.2.cache
  self : (P.seq, out.1) ∈ out.2.cache
  newc : ∀ sb ∈ s.subs, q.2.contains sb.name = true → S.contains sb.name = true ∨ ∃ e, (sb.seq, e) ∈ out.2.cache

/-- The statement of `part_conv` at one fuel. -/
def PStmt (s : Split) (R R' : Registry) (opts : Opts) (plug plug' : Plug) (f : Nat) : Prop :=
  ∀ P ∈ s.parts, ∀ (vis : List NodeId) (st : TState) (S : List String),
    PInv s R R' opts plug plug' st S → (P ∈ s.subs → S.contains P.name = true) →
    OnlyMods (Ws s R R' opts plug plug') vis →
    (∀ Q ∈ s.parts, vis.contains (nodeId Q Q.stmt) = true → Q ∈ s.subs → S.contains Q.name = true) →
    vis.contains (nodeId P P.stmt) = false →
    st.cache.find? (·.1 == P.seq) = none →
    Fuel.need R' P P.stmt vis + lookupSlack R' ≤ f + 1 →
    unstarted s S < f + 1 →
    PGoal s R R' opts plug plug' P st S (toEntry (Ws s R R' opts plug plug').env₁ (f + 1) P [] P.stmt vis st)
      (pp s R R' opts plug (f + 1) S P.stmt)


/-- The invariant of the include fold of a part `P` (started from state `st`, names `S`). -/
structure FInv (s : Split) (R R' : Registry) (opts : Opts) (plug plug' : Plug) (st : TState) (S : List String) (f : Nat)
    (x : Entry × TState) (y : Entry × List String) : Prop where
  re : REb s.σ x.1 y.1
  inv : PInv s R R' opts plug plug' x.2 y.2
  mono : ∀ n ∈ S, n ∈ y.2
  cache : ∀ p ∈ x.2.cache, p ∈ st.cache ∨ PureOf s R R' opts plug p
  grows : ∀ p ∈ st.cache, p ∈ x.2.cache
  newc : ∀ sb ∈ s.subs, y.2.contains sb.name = true → S.contains sb.name = true ∨ ∃ e, (sb.seq, e) ∈ x.2.cache
  fuel : unstarted s y.2 < f + 1
  kind : x.1.d.kind = y.1.d.kind

include ht hr hl hW in
/-- One fuel level of `part_conv`, given the levels below. -/
theorem part_conv_aux (f : Nat) (IH : ∀ f₀, f = f₀ + 1 → PStmt s R R' opts plug plug' f₀) : PStmt s R R' opts plug plug' f := by
  intro P hP vis st S hinv hPS hvis hvisS hnv hcache hneed hun
  have hm : isModKw P.stmt = true := by
    rcases List.mem_cons.1 hP with rfl | hP'
    · exact owner_kw_mod ht
    · exact sub_kw_mod ht hP'
  have hX : P ∈ (Ws s R R' opts plug plug').env₁.reg.mods := part_mem' hr hP
  have hcr : (Ws s R R' opts plug plug').CR P [P.stmt] s.m [s.m.stmt] := Or.inl ⟨hP, rfl, [], rfl, rfl⟩
  have hwf : WF (Ws s R R' opts plug plug').env₁.reg P [] P.stmt := ⟨hX, rfl⟩
  have hpos := Fuel.need_pos (env := (Ws s R R' opts plug plug').env₁) vis hwf.inv
  have hneed0 : Fuel.need (Ws s R R' opts plug plug').env₁.reg P P.stmt vis + lookupSlack R' ≤ f + 1 := hneed
  have hneed' : Fuel.need (Ws s R R' opts plug plug').env₁.reg P P.stmt vis ≤ (f - lookupSlack R') + 1 := by omega
  have htr : Fuel.isTracked P.stmt = true := by
    unfold isModKw at hm; unfold Fuel.isTracked; rw [hm]; rfl
  have hv' : Fuel.visiting' P P.stmt vis = nodeId P P.stmt :: vis := by
    unfold Fuel.visiting'; rw [htr]; rfl
  have hc3 : ¬ (Fuel.isTracked P.stmt && vis.contains (nodeId P P.stmt)) = true := by rw [hnv]; simp
  rw [pp_succ, Tree.toEntry_succ, toEntryBody_mod _ f _ P [] P.stmt vis st hm hcache hnv]
  unfold dirBody
  dsimp only
  rw [fieldOrder_mod hm, List.foldl_append, List.foldl_append, List.foldl_cons, List.foldl_nil, step_include_eq]
  -- the recursive calls on the statements of the part
  have hcalls : ∀ st', ∀ c, (∃ fld ∈ fieldOrder P.stmt.kw, Called P.stmt fld c) → ∀ t₁ t₂,
      RSm (Ws s R R' opts plug plug') st' t₁ t₂ → AccRel (REb s.σ) (RSm (Ws s R R' opts plug plug') st')
        (toEntry (Ws s R R' opts plug plug').env₁ f P [P.stmt] c (nodeId P P.stmt :: vis) t₁)
        (constRec (vm s R opts plug) s.m [P.stmt] c [] t₂) :=
    fun st' => mod_calls (Ws s R R' opts plug plug') hW P s.m hX hm hcr f vis st' hvis hnv hneed
  -- the steps before the include step
  have keyA := fields_rel (RE := REb s.σ) (RS := RSm (Ws s R R' opts plug plug') st) (closed2_REb s.σ)
    (Ws s R R' opts plug plug').env₁ (envOf R opts plug) (toEntry (Ws s R R' opts plug plug').env₁ f) (constRec (vm s R opts plug))
    P s.m P.stmt [P.stmt] [P.stmt] (nodeId P P.stmt :: vis) [] (hcalls st) true
    (fun _ s₁ s₂ _ _ hs _ => hs) preFields (fun fld hfld c hc => ⟨fld, pre_sub hm fld hfld, hc⟩) no_io_pre
    (e0 P P.stmt, st) (e0 s.m P.stmt, {})
    ⟨REb_of_eq _ (ren_e0 _ _ _ _ (hW.cr_seq hcr)), hinv.coh, rfl, rfl⟩ (e0_kind_eq _ _ _)
  obtain ⟨⟨hreA, hcoA, hcaA, hmeA⟩, hkA⟩ := keyA
  generalize hA1 : preFields.foldl (stepFn (Ws s R R' opts plug plug').env₁ (toEntry (Ws s R R' opts plug plug').env₁ f) P
    P.stmt [P.stmt] (nodeId P P.stmt :: vis) true) (e0 P P.stmt, st) = A1 at hreA hcoA hcaA hmeA hkA ⊢
  obtain ⟨eA, tA⟩ := A1
  dsimp only at hreA hcoA hcaA hmeA hkA
  have hpA : (pfold (envOf R opts plug) (vm s R opts plug) s.m P.stmt preFields (e0 s.m P.stmt, {})).1 =
      (preFields.foldl (stepFn (envOf R opts plug) (constRec (vm s R opts plug)) s.m P.stmt [P.stmt] [] true)
        (e0 s.m P.stmt, {})).1 := rfl
  rw [hpA]
  generalize hA2 : (preFields.foldl (stepFn (envOf R opts plug) (constRec (vm s R opts plug)) s.m P.stmt [P.stmt] [] true)
    (e0 s.m P.stmt, {})).1 = pA at hreA hkA ⊢
  -- the include step, statement by statement
  have hinvA : PInv s R R' opts plug plug' tA S :=
    ⟨hcoA, by rw [hmeA]; exact hinv.m1, by rw [hmeA]; exact hinv.m2, by rw [hcaA]; exact hinv.c1, hinv.names⟩
  have hfold : ∀ (as : List Stmt), (∀ a ∈ as, a ∈ P.stmt.all "include") → ∀ (x : Entry × TState) (y : Entry × List String),
      FInv s R R' opts plug plug' st S f x y →
      FInv s R R' opts plug plug' st S f
        (as.foldl (incStep (Ws s R R' opts plug plug').env₁ (toEntry (Ws s R R' opts plug plug').env₁ f) P P.stmt (nodeId P P.stmt :: vis)) x)
        (as.foldl (pstep s R R' opts plug f) y) := by
    intro as
    induction as with
    | nil => intro _ x y h; exact h
    | cons a as ih =>
      intro has x y hxy
      refine ih (fun b hb => has b (List.mem_cons_of_mem _ hb)) _ _ ?_
      obtain ⟨e, t⟩ := x
      obtain ⟨pe, Sa⟩ := y
      have ha : a ∈ P.stmt.all "include" := has a (List.mem_cons_self ..)
      obtain ⟨sb, hsb, hfa⟩ := hr.inc_resolve P hP a ha
      have hsbP : sb ∈ s.parts := List.mem_cons_of_mem _ hsb
      have hinc : Includes R' P sb := ⟨a, ha, hfa⟩
      have hps : pstep s R R' opts plug f (pe, Sa) a =
          (if Sa.contains sb.name then (pe, Sa)
           else (pe.merge none (pp s R R' opts plug f (Sa ++ [sb.name]) sb.stmt).1, (pp s R R' opts plug f (Sa ++ [sb.name]) sb.stmt).2)) := by
        unfold pstep
        rw [hfa]
        rfl
      rw [hps]
      cases hSa : Sa.contains sb.name with
      | true =>
        rw [incStep_skip opts plug plug' ht hr hl _ hP hsb ha hfa _ e hxy.inv hSa]
        simp only [if_true]
        exact hxy
      | false =>
        rw [incStep_start opts plug plug' ht hr hl _ hP hsb ha hfa _ e hxy.inv hSa]
        simp only [Bool.false_eq_true, if_false]
        -- the conversion of the submodule: one fuel level below
        have hun1 := unstarted_lt (s := s) hsb hSa
        have hfu := hxy.fuel
        dsimp only at hfu
        obtain ⟨f0, rfl⟩ : ∃ f0, f = f0 + 1 := ⟨f - 1, by omega⟩
        have hinv' := pinv_start opts plug plug' ht hr hxy.inv hP hsb hinc
        have hsbne : sb ≠ P := (hr.inc_no_back P hP sb hsbP hinc).1
        have hnv' : (nodeId P P.stmt :: vis).contains (nodeId sb sb.stmt) = false := by
          rw [Bool.eq_false_iff]
          intro h
          simp only [List.contains_cons, Bool.or_eq_true, beq_iff_eq] at h
          rcases h with h | h
          · exact hsbne (part_of_seq hr hsbP hP (congrArg (·.1) h))
          · have := hvisS sb hsbP h hsb
            have h2 := hxy.mono _ (List.contains_iff_mem.1 this)
            rw [← List.contains_iff_mem, hSa] at h2; cases h2
        have hcache' : ({ t with merged := t.merged ++ [sb.name ++ ":" ++ P.stmt.arg, mkey s sb] } : TState).cache.find?
            (·.1 == sb.seq) = none := by
          rw [List.find?_eq_none]
          intro p hp
          simp only [beq_iff_eq]
          intro he
          have := hxy.inv.c1 p hp sb hsb he
          rw [← List.contains_iff_mem, hSa] at this; cases this
        have hinF : "include" ∈ fieldOrder P.stmt.kw := by rw [fieldOrder_mod hm]; simp
        obtain ⟨_, hn'⟩ := Fuel.callee_need hwf.inv hneed' hc3 (Fuel.Callee.include_ (scope := []) hinF
          (inc_target opts plug plug' hr hl hP hfa))
        rw [hv'] at hn'
        have hneedS : Fuel.need R' sb sb.stmt (nodeId P P.stmt :: vis) + lookupSlack R' ≤ f0 + 1 := by
          have h3 : Fuel.need (Ws s R R' opts plug plug').env₁.reg sb sb.stmt (nodeId P P.stmt :: vis) =
            Fuel.need R' sb sb.stmt (nodeId P P.stmt :: vis) := rfl
          omega
        have hvisS' : ∀ Q ∈ s.parts, (nodeId P P.stmt :: vis).contains (nodeId Q Q.stmt) = true → Q ∈ s.subs →
            (Sa ++ [sb.name]).contains Q.name = true := by
          intro Q hQ h hQs
          rw [List.contains_iff_mem]
          refine List.mem_append_left _ ?_
          simp only [List.contains_cons, Bool.or_eq_true, beq_iff_eq] at h
          rcases h with h | h
          · have : Q = P := part_of_seq hr hQ hP (congrArg (·.1) h)
            subst this
            exact hxy.mono _ (List.contains_iff_mem.1 (hPS hQs))
          · exact hxy.mono _ (List.contains_iff_mem.1 (hvisS Q hQ h hQs))
        have G := IH f0 rfl sb hsbP (nodeId P P.stmt :: vis)
          { t with merged := t.merged ++ [sb.name ++ ":" ++ P.stmt.arg, mkey s sb] } (Sa ++ [sb.name]) hinv'
          (fun _ => by rw [List.contains_iff_mem]; simp) (onlyMods_cons _ hvis hX hm) hvisS' hnv' hcache' hneedS (by omega)
        generalize toEntry (Ws s R R' opts plug plug').env₁ (f0 + 1) sb [] sb.stmt (nodeId P P.stmt :: vis)
          { t with merged := t.merged ++ [sb.name ++ ":" ++ P.stmt.arg, mkey s sb] } = out at G ⊢
        generalize hq : pp s R R' opts plug (f0 + 1) (Sa ++ [sb.name]) sb.stmt = q at G ⊢
        obtain ⟨esb, tsb⟩ := out
        obtain ⟨pq, Sq⟩ := q
        refine ⟨(closed2_REb s.σ).merge _ _ _ _ hxy.re G.re, G.inv, ?_, ?_, ?_, ?_, ?_, ?_⟩
        · intro n hn
          exact G.mono n (List.mem_append_left _ (hxy.mono n hn))
        · intro p hp
          rcases G.cache p hp with h | h | h
          · exact hxy.cache p h
          · refine Or.inr ⟨sb, hsb, by rw [h], f0 + 1, Sa ++ [sb.name], hinv'.names, by rw [List.contains_iff_mem]; simp,
              by omega, ?_⟩
            rw [h, hq]; exact G.re
          · exact Or.inr h
        · intro p hp
          exact G.grows p (hxy.grows p hp)
        · intro x hx hxq
          rcases G.newc x hx hxq with h | ⟨e', he'⟩
          · rw [List.contains_iff_mem] at h
            rcases List.mem_append.1 h with h | h
            · rcases hxy.newc x hx (List.contains_iff_mem.2 h) with h2 | ⟨e', he'⟩
              · exact Or.inl h2
              · exact Or.inr ⟨e', G.grows _ he'⟩
            · simp only [List.mem_singleton] at h
              have : x = sb := sub_eq_of_name hr hx hsb h
              subst this
              exact Or.inr ⟨esb, G.self⟩
          · exact Or.inr ⟨e', he'⟩
        · have h1 := unstarted_mono (s := s) (S := Sa) (S' := Sq) (fun n hn => G.mono n (List.mem_append_left _ hn))
          dsimp only
          omega
        · dsimp only
          rw [(rootKeep_merge e none esb).2.1, (rootKeep_merge pe none pq).2.1]
          exact hxy.kind
  have keyB := hfold (P.stmt.all "include") (fun a h => h) (eA, tA) (pA, S)
    ⟨hreA, hinvA, fun n h => h, fun p hp => Or.inl (hcaA ▸ hp), fun p hp => (by rw [hcaA]; exact hp),
      fun sb _ h => Or.inl h, hun, hkA⟩
  generalize hB1 : (P.stmt.all "include").foldl (incStep (Ws s R R' opts plug plug').env₁
    (toEntry (Ws s R R' opts plug plug').env₁ f) P P.stmt (nodeId P P.stmt :: vis)) (eA, tA) = B1 at keyB ⊢
  generalize hB2 : (P.stmt.all "include").foldl (pstep s R R' opts plug f) (pA, S) = B2 at keyB ⊢
  obtain ⟨eB, tB⟩ := B1
  obtain ⟨pB, SB⟩ := B2
  -- the steps after the include step
  have keyC := fields_rel (RE := REb s.σ) (RS := RSm (Ws s R R' opts plug plug') tB) (closed2_REb s.σ)
    (Ws s R R' opts plug plug').env₁ (envOf R opts plug) (toEntry (Ws s R R' opts plug plug').env₁ f) (constRec (vm s R opts plug))
    P s.m P.stmt [P.stmt] [P.stmt] (nodeId P P.stmt :: vis) [] (hcalls tB) true
    (fun _ s₁ s₂ _ _ hs _ => hs) postFields (fun fld hfld c hc => ⟨fld, post_sub hm fld hfld, hc⟩) no_io_post
    (eB, tB) (pB, {}) ⟨keyB.re, keyB.inv.coh, rfl, rfl⟩ keyB.kind
  obtain ⟨⟨hreC, hcoC, hcaC, hmeC⟩, _⟩ := keyC
  generalize hC1 : postFields.foldl (stepFn (Ws s R R' opts plug plug').env₁ (toEntry (Ws s R R' opts plug plug').env₁ f) P
    P.stmt [P.stmt] (nodeId P P.stmt :: vis) true) (eB, tB) = C1 at hreC hcoC hcaC hmeC ⊢
  obtain ⟨eC, tC⟩ := C1
  dsimp only at hreC hcoC hcaC hmeC
  simp only [if_true]
  have hreF : REb s.σ eC (pfold (envOf R opts plug) (vm s R opts plug) s.m P.stmt postFields (pB, {})).1 := hreC
  have hPSB : P ∈ s.subs → SB.contains P.name = true := fun h =>
    List.contains_iff_mem.2 (keyB.mono _ (List.contains_iff_mem.1 (hPS h)))
  refine ⟨hreF, ⟨hcoC, ?_, ?_, ?_, keyB.inv.names⟩, keyB.mono, ?_, ?_, ?_, ?_⟩
  · intro x hx; dsimp only; rw [hmeC]; exact keyB.inv.m1 x hx
  · intro k hk; dsimp only at hk; rw [hmeC] at hk; exact keyB.inv.m2 k hk
  · intro p hp x hx hpx
    dsimp only at hp
    rw [hcaC] at hp
    rcases List.mem_append.1 hp with hp | hp
    · exact keyB.inv.c1 p hp x hx hpx
    · simp only [List.mem_singleton] at hp
      subst hp
      have : P = x := part_of_seq hr hP (List.mem_cons_of_mem _ hx) hpx
      subst this
      exact List.contains_iff_mem.1 (hPSB hx)
  · intro p hp
    dsimp only at hp
    rw [hcaC] at hp
    rcases List.mem_append.1 hp with hp | hp
    · rcases keyB.cache p hp with h | h
      · exact Or.inl h
      · exact Or.inr (Or.inr h)
    · simp only [List.mem_singleton] at hp
      exact Or.inr (Or.inl hp)
  · intro p hp
    dsimp only
    rw [hcaC]
    exact List.mem_append_left _ (keyB.grows p hp)
  · dsimp only
    rw [hcaC]
    exact List.mem_append_right _ (List.mem_singleton.2 rfl)
  · intro x hx hxs
    rcases keyB.newc x hx hxs with h | ⟨e', he'⟩
    · exact Or.inl h
    · refine Or.inr ⟨e', ?_⟩
      dsimp only
      rw [hcaC]
      exact List.mem_append_left _ he'


include ht hr hl hW in
/-- **The conversion of a part of a split with nested includes computes the pure mirror.** -/
theorem part_conv : ∀ f, PStmt s R R' opts plug plug' f := by
  intro f
  induction f with
  | zero => exact part_conv_aux opts plug plug' ht hr hl hW 0 (fun f₀ h => by omega)
  | succ f ih =>
    refine part_conv_aux opts plug plug' ht hr hl hW (f + 1) (fun f₀ h => ?_)
    have : f₀ = f := by omega
    subst this
    exact ih

end Part

end Goyang.Lemmas.IncludeModN
