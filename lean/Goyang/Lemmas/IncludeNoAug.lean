import Goyang.Lemmas.Tree
import Goyang.Lemmas.Fuel
import Goyang.Spec.Include
/-
What `processAll` computes when no loaded module has an `augment` or a `deviation` statement
(`Spec.Include.NoAugDev`): the forest of the conversion stage with `fixChoice` applied to every
tree, and no errors beyond those of the first two stages.
-/
set_option linter.unusedVariables false
set_option linter.unusedSimpArgs false
namespace Goyang.Lemmas.IncludeNoAug
open Goyang.Model Goyang.Lemmas.Tree Goyang.Spec.Include

/-! ### `toEntry` records no augments -/

/-- A (sub)module statement without `augment` substatements (anything else is fine). -/
def Good (n : Stmt) : Prop := (n.kw == "module" || n.kw == "submodule") = true → n.all "augment" = []

/-- Every recorded augment list is empty. -/
def AugNil (st : TState) : Prop := ∀ p ∈ st.augs, p.2 = []

def RecNil (rec : Rec) : Prop :=
  ∀ root scope n visiting st, Good n → AugNil st → AugNil (rec root scope n visiting st).2

theorem good_of_kw {c : Stmt} {kw : String} (h : c.kw = kw)
    (hkw : (kw == "module" || kw == "submodule") = false) : Good c := by
  intro hm
  rw [h, hkw] at hm
  cases hm

section Step
variable {env : Env} (hreg : ∀ x ∈ env.reg.mods, x.stmt.all "augment" = []) {rec : Rec} (hrec : RecNil rec)
  (root : Mod) (n : Stmt) (sub : List Stmt) (visiting : List NodeId)
include hreg hrec

theorem stepFn_nil (isMod : Bool) (hn : isMod = true → n.all "augment" = []) (acc : Entry × TState) (f : String)
    (h : AugNil acc.2) : AugNil (stepFn env rec root n sub visiting isMod acc f).2 := by
  obtain ⟨e, st⟩ := acc
  dsimp only at h
  -- a fold over the substatements with one keyword
  have kids : ∀ (kw : String) (g : Entry × TState → Stmt → Entry × TState),
      (kw == "module" || kw == "submodule") = false →
      (∀ acc c, (g acc c).2 = (rec root sub c visiting acc.2).2) →
      AugNil ((n.all kw).foldl g (e, st)).2 := by
    intro kw g hkw hg
    refine foldl_inv (fun acc : Entry × TState => AugNil acc.2) _ _ _ h ?_
    intro acc c hc hacc
    rw [hg]
    exact hrec _ _ _ _ _ (good_of_kw (mem_all_kw _ _ _ hc) hkw) hacc
  unfold stepFn
  dsimp only
  split
  all_goals try dsimp only
  all_goals first
    | exact h
    | exact kids _ _ (by decide) (fun _ _ => rfl)
    | skip
  case h_18 =>
    split
    · exact h
    · rename_i i hi
      exact hrec _ _ _ _ _ (good_of_kw (one?_kw n _ i hi) (by decide)) h
  case h_19 =>
    split
    · exact h
    · rename_i o ho
      exact hrec _ _ _ _ _ (good_of_kw (one?_kw n _ o ho) (by decide)) h
  case h_20 =>
    refine foldl_inv (fun acc : Entry × TState => AugNil acc.2) _ _ _ h ?_
    rintro ⟨e', st'⟩ a ha hst
    dsimp only at hst ⊢
    split
    · exact hst
    · rename_i im him
      have hgood : Good im.stmt := fun _ => hreg im (Goyang.Lemmas.Fuel.includeTarget_mem him)
      split
      · exact hst
      · split
        · split
          · exact hst
          · exact hrec im [] im.stmt visiting _ hgood hst
        · split <;> exact hst
  case h_23 =>
    split
    · exact h
    · split <;> exact h
  case h_24 => split <;> exact h
  case h_26 => split <;> exact h
  case h_27 => split <;> exact h
  case h_28 =>
    split
    · exact h
    · rename_i hm
      have hm' : isMod = true := by simpa using hm
      rw [hn hm']
      simp only [List.foldl_nil]
      intro p hp
      rcases List.mem_append.mp hp with hp | hp
      · exact h p hp
      · simp only [List.mem_singleton] at hp; subst hp; rfl

theorem dirBody_nil (scope : List Stmt) (st : TState) (isMod : Bool) (hn : isMod = true → n.all "augment" = [])
    (h : AugNil st) : AugNil (dirBody env rec root scope n visiting st isMod).2 := by
  have hf : AugNil ((fieldOrder n.kw).foldl (stepFn env rec root n (n :: scope) visiting isMod) (e0 root n, st)).2 :=
    foldl_inv (fun acc : Entry × TState => AugNil acc.2) _ _ _ h
      (fun acc f _ hacc => stepFn_nil hreg hrec root n (n :: scope) visiting isMod hn acc f hacc)
  unfold dirBody
  generalize (fieldOrder n.kw).foldl (stepFn env rec root n (n :: scope) visiting isMod) (e0 root n, st) = X at hf ⊢
  obtain ⟨e, st'⟩ := X
  dsimp only at hf ⊢
  split
  · exact hf
  · split <;> exact hf

theorem toEntryBody_nil (fuel : Nat) (scope : List Stmt) (st : TState) (hn : Good n) (h : AugNil st) :
    AugNil (toEntryBody env fuel rec root scope n visiting st).2 := by
  unfold toEntryBody
  dsimp only
  split
  · exact h
  · split
    · exact h
    · split
      · exact h
      · split
        · exact h
        · split
          · exact h
          · split
            · split
              · exact h
              · rename_i g groot gscope hfg
                have hk := (Goyang.Lemmas.Fuel.findGrouping_sound hfg).1
                exact hrec _ _ _ _ _ (good_of_kw hk (by decide)) h
            · exact dirBody_nil hreg hrec root n visiting scope st _ hn h

end Step

theorem toEntry_nil {env : Env} (hreg : ∀ x ∈ env.reg.mods, x.stmt.all "augment" = []) (fuel : Nat) :
    RecNil (toEntry env fuel) := by
  induction fuel with
  | zero => intro root scope n visiting st _ h; exact h
  | succ fuel ih =>
    intro root scope n visiting st hn h
    rw [toEntry_succ]
    exact toEntryBody_nil hreg ih root n visiting fuel scope st hn h

/-! ### the members of the key order are loaded modules -/

theorem byId_mem {reg : Registry} {id : Nat} {m : Mod} (h : reg.byId id = some m) : m ∈ reg.mods :=
  List.mem_of_find?_eq_some h

theorem mem_keyOrder {reg : Registry} {m : Mod} (h : m ∈ keyOrder reg) : m ∈ reg.mods := by
  unfold keyOrder at h
  simp only [List.mem_append, List.mem_filterMap] at h
  rcases h with ⟨kv, _, hkv⟩ | ⟨kv, _, hkv⟩ <;> exact byId_mem hkv

/-! ### the conversion stage records no augments -/

theorem tstate_nil (reg : Registry) (opts : Opts) (plug : Plug) (h : NoAugDev reg) : AugNil (tstate reg opts plug) := by
  unfold tstate
  refine foldl_inv AugNil _ _ _ (by intro p hp; cases hp) ?_
  intro st m hm hst
  exact toEntry_nil (env := envOf reg opts plug) (fun x hx => (h x hx).1) (entryFuel reg) m [] m.stmt [] st
    (fun _ => (h m (mem_keyOrder hm)).1) hst

end Goyang.Lemmas.IncludeNoAug
