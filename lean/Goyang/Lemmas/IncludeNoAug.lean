import Goyang.Lemmas.Tree
import Goyang.Lemmas.Fuel
import Goyang.Spec.Include
/-
What `processAll` computes when no loaded module has an `augment` or a `deviation` statement
(`Spec.Include.NoAugDev`): the forest of the conversion stage with `fixChoice` applied to every
tree, and no errors beyond those of the first two stages.
-/
set_option linter.unusedVariables false
set_option linter.unusedSimpArgs false
namespace Goyang.Lemmas.IncludeNoAug
open Goyang.Model Goyang.Lemmas.Tree Goyang.Spec.Include

/-! ### `toEntry` records no augments -/

/-- A (sub)module statement without `augment` substatements (anything else is fine). -/
def Good (n : Stmt) : Prop := (n.kw == "module" || n.kw == "submodule") = true → n.all "augment" = []

/-- Every recorded augment list is empty. -/
def AugNil (st : TState) : Prop := ∀ p ∈ st.augs, p.2 = []

def RecNil (rec : Rec) : Prop :=
  ∀ root scope n visiting st, Good n → AugNil st → AugNil (rec root scope n visiting st).2

theorem good_of_kw {c : Stmt} {kw : String} (h : c.kw = kw)
    (hkw : (kw == "module" || kw == "submodule") = false) : Good c := by
  intro hm
  rw [h, hkw] at hm
  cases hm

section Step
variable {env : Env} (hreg : ∀ x ∈ env.reg.mods, x.stmt.all "augment" = []) {rec : Rec} (hrec : RecNil rec)
  (root : Mod) (n : Stmt) (sub : List Stmt) (visiting : List NodeId)
include hreg hrec

theorem stepFn_nil (isMod : Bool) (hn : isMod = true → n.all "augment" = []) (acc : Entry × TState) (f : String)
    (h : AugNil acc.2) : AugNil (stepFn env rec root n sub visiting isMod acc f).2 := by
  obtain ⟨e, st⟩ := acc
  dsimp only at h
  -- a fold over the substatements with one keyword
  have kids : ∀ (kw : String) (g : Entry × TState → Stmt → Entry × TState),
      (kw == "module" || kw == "submodule") = false →
      (∀ acc c, (g acc c).2 = (rec root sub c visiting acc.2).2) →
      AugNil ((n.all kw).foldl g (e, st)).2 := by
    intro kw g hkw hg
    refine foldl_inv (fun acc : Entry × TState => AugNil acc.2) _ _ _ h ?_
    intro acc c hc hacc
    rw [hg]
    exact hrec _ _ _ _ _ (good_of_kw (mem_all_kw _ _ _ hc) hkw) hacc
  unfold stepFn
  dsimp only
  split
  all_goals try dsimp only
  all_goals first
    | exact h
    | exact kids _ _ (by decide) (fun _ _ => rfl)
    | skip
  case h_18 =>
    split
    · exact h
    · rename_i i hi
      exact hrec _ _ _ _ _ (good_of_kw (one?_kw n _ i hi) (by decide)) h
  case h_19 =>
    split
    · exact h
    · rename_i o ho
      exact hrec _ _ _ _ _ (good_of_kw (one?_kw n _ o ho) (by decide)) h
  case h_20 =>
    refine foldl_inv (fun acc : Entry × TState => AugNil acc.2) _ _ _ h ?_
    rintro ⟨e', st'⟩ a ha hst
    dsimp only at hst ⊢
    split
    · exact hst
    · rename_i im him
      have hgood : Good im.stmt := fun _ => hreg im (Goyang.Lemmas.Fuel.includeTarget_mem him)
      split
      · exact hst
      · split
        · split
          · exact hst
          · exact hrec im [] im.stmt visiting _ hgood hst
        · split <;> exact hst
  case h_23 =>
    split
    · exact h
    · split <;> exact h
  case h_24 => split <;> exact h
  case h_26 => split <;> exact h
  case h_27 => split <;> exact h
  case h_28 =>
    split
    · exact h
    · rename_i hm
      have hm' : isMod = true := by simpa using hm
      rw [hn hm']
      simp only [List.foldl_nil]
      intro p hp
      rcases List.mem_append.mp hp with hp | hp
      · exact h p hp
      · simp only [List.mem_singleton] at hp; subst hp; rfl

theorem dirBody_nil (scope : List Stmt) (st : TState) (isMod : Bool) (hn : isMod = true → n.all "augment" = [])
    (h : AugNil st) : AugNil (dirBody env rec root scope n visiting st isMod).2 := by
  have hf : AugNil ((fieldOrder n.kw).foldl (stepFn env rec root n (n :: scope) visiting isMod) (e0 root n, st)).2 :=
    foldl_inv (fun acc : Entry × TState => AugNil acc.2) _ _ _ h
      (fun acc f _ hacc => stepFn_nil hreg hrec root n (n :: scope) visiting isMod hn acc f hacc)
  unfold dirBody
  generalize (fieldOrder n.kw).foldl (stepFn env rec root n (n :: scope) visiting isMod) (e0 root n, st) = X at hf ⊢
  obtain ⟨e, st'⟩ := X
  dsimp only at hf ⊢
  split
  · exact hf
  · split <;> exact hf

theorem toEntryBody_nil (fuel : Nat) (scope : List Stmt) (st : TState) (hn : Good n) (h : AugNil st) :
    AugNil (toEntryBody env fuel rec root scope n visiting st).2 := by
  unfold toEntryBody
  dsimp only
  split
  · exact h
  · split
    · exact h
    · split
      · exact h
      · split
        · exact h
        · split
          · exact h
          · split
            · split
              · exact h
              · rename_i g groot gscope hfg
                have hk := (Goyang.Lemmas.Fuel.findGrouping_sound hfg).1
                exact hrec _ _ _ _ _ (good_of_kw hk (by decide)) h
            · exact dirBody_nil hreg hrec root n _ scope st _ hn h

end Step

theorem toEntry_nil {env : Env} (hreg : ∀ x ∈ env.reg.mods, x.stmt.all "augment" = []) (fuel : Nat) :
    RecNil (toEntry env fuel) := by
  induction fuel with
  | zero => intro root scope n visiting st _ h; exact h
  | succ fuel ih =>
    intro root scope n visiting st hn h
    rw [toEntry_succ]
    exact toEntryBody_nil hreg ih root n visiting fuel scope st hn h

/-! ### the members of the key order are loaded modules -/

theorem byId_mem {reg : Registry} {id : Nat} {m : Mod} (h : reg.byId id = some m) : m ∈ reg.mods :=
  List.mem_of_find?_eq_some h

theorem mem_keyOrder {reg : Registry} {m : Mod} (h : m ∈ keyOrder reg) : m ∈ reg.mods := by
  unfold keyOrder at h
  simp only [List.mem_append, List.mem_filterMap] at h
  rcases h with ⟨kv, _, hkv⟩ | ⟨kv, _, hkv⟩ <;> exact byId_mem hkv

/-! ### the conversion stage records no augments -/

theorem tstate_nil (reg : Registry) (opts : Opts) (plug : Plug) (h : NoAugDev reg) : AugNil (tstate reg opts plug) := by
  unfold tstate
  refine foldl_inv AugNil _ _ _ (by intro p hp; cases hp) ?_
  intro st m hm hst
  exact toEntry_nil (env := envOf reg opts plug) (fun x hx => (h x hx).1) (entryFuel reg) m [] m.stmt [] st
    (fun _ => (h m (mem_keyOrder hm)).1) hst

/-! ### the augment stage with nothing pending -/

/-- Every pending list is empty. -/
def PNil (s : PState) : Prop := ∀ p ∈ s.pending, p.2 = []

theorem pendingOf_nil (s : PState) (h : PNil s) (id : Nat) : s.pendingOf id = [] := by
  unfold PState.pendingOf
  cases hf : s.pending.find? (·.1 == id) with
  | none => rfl
  | some q => exact h q (List.mem_of_find?_eq_some hf)

theorem setPending_nil (s : PState) (h : PNil s) (id : Nat) : s.setPending id [] = s := by
  unfold PState.setPending
  have : (s.pending.map fun (p : Nat × List Entry) => match p with | (i, p) => if (i == id) = true then (i, []) else (i, p))
      = s.pending := by
    conv => rhs; rw [← List.map_id s.pending]
    apply List.map_congr_left
    rintro ⟨i, p⟩ hp
    have hp' : p = [] := h (i, p) hp
    subst hp'
    simp
  rw [this]

theorem augmentTree_nil (reg : Registry) (id : Nat) (b : Bool) (s : PState) (h : PNil s) :
    augmentTree reg id b s = (s, 0, 0) := by
  rw [augmentTree_eq, pendingOf_nil s h id]
  simp only [List.foldl_nil]
  rw [setPending_nil s h id]

theorem augmentPass_nil (reg : Registry) : ∀ (fuel : Nat) (mods : Array Nat) (i processed : Nat) (s : PState), PNil s →
    (augmentPass reg fuel mods i processed s).2 = (processed, s) := by
  intro fuel
  induction fuel with
  | zero => intro mods i processed s _; rfl
  | succ fuel ih =>
    intro mods i processed s h
    unfold augmentPass
    split
    · rename_i hi
      rw [augmentTree_nil reg _ false s h]
      simp only [beq_self_eq_true, if_true, Nat.add_zero]
      exact ih _ _ _ _ h
    · rfl

theorem augmentLoop_nil (reg : Registry) : ∀ (fuel : Nat) (mods : Array Nat) (s : PState), PNil s →
    (augmentLoop reg fuel mods s).2 = s := by
  intro fuel
  induction fuel with
  | zero => intro mods s _; rfl
  | succ fuel ih =>
    intro mods s h
    unfold augmentLoop
    split
    · rfl
    · have hp := augmentPass_nil reg (mods.size + 1) mods 0 0 s h
      generalize augmentPass reg (mods.size + 1) mods 0 0 s = X at hp ⊢
      obtain ⟨mods', processed, s'⟩ := X
      simp only [Prod.mk.injEq] at hp
      obtain ⟨rfl, rfl⟩ := hp
      simp

theorem loopCount_nil (reg : Registry) (fuel : Nat) (mods : Array Nat) (s : PState) (h : PNil s) :
    Rounds.loopCount reg fuel mods s = 0 :=
  (Rounds.loopCount_eq_zero reg fuel mods s).mpr
    (Or.inr (Or.inr (by rw [augmentPass_nil reg (mods.size + 1) mods 0 0 s h])))

/-- With nothing pending the retry rounds stop after the first (empty) loop. -/
theorem leftoverRounds_nil (reg : Registry) (fuel n : Nat) (mods : Array Nat) (s : PState) (h : PNil s) :
    (leftoverRounds reg fuel n mods s).2 = s := by
  cases n with
  | zero => rfl
  | succ n =>
    rw [Rounds.leftoverRounds_succ, if_pos (loopCount_nil reg fuel mods s h)]
    exact augmentLoop_nil reg fuel mods s h

/-! ### the stages of `processAll` -/

section Stages
variable (reg : Registry) (opts : Opts) (plug : Plug)

theorem pstate0_nil (h : NoAugDev reg) : PNil (pstate0 reg opts plug) := by
  intro p hp
  simp only [pstate0, pending0, List.mem_map] at hp
  obtain ⟨m, _, rfl⟩ := hp
  dsimp only
  cases hf : (tstate reg opts plug).augs.find? (·.1 == m.seq) with
  | none => rfl
  | some q => exact tstate_nil reg opts plug h q (List.mem_of_find?_eq_some hf)

theorem fixAll_nil (s : PState) (h : PNil s) : PNil (fixAll s) := h

theorem afterLoop_nil (h : NoAugDev reg) : (afterLoop reg opts plug).2 = pstate0 reg opts plug :=
  augmentLoop_nil reg _ _ _ (pstate0_nil reg opts plug h)

theorem afterRounds_nil (h : NoAugDev reg) : (afterRounds reg opts plug).2 = fixAll (pstate0 reg opts plug) := by
  unfold afterRounds
  rw [afterLoop_nil reg opts plug h]
  exact leftoverRounds_nil reg _ _ _ _ (fixAll_nil _ (pstate0_nil reg opts plug h))

theorem leftoverPass_nil (h : NoAugDev reg) : leftoverPass reg opts plug = (fixAll (pstate0 reg opts plug), 0) := by
  unfold leftoverPass
  rw [afterRounds_nil reg opts plug h, ← Array.foldl_toList]
  refine foldl_inv (fun acc : PState × Nat => acc = (fixAll (pstate0 reg opts plug), 0)) _ _ _ rfl ?_
  rintro acc id _ rfl
  dsimp only
  rw [augmentTree_nil reg id true _ (fixAll_nil _ (pstate0_nil reg opts plug h))]
  rfl

/-- Without augments the state before the deviations is the conversion result with `fixChoice`
applied to every tree. -/
theorem preDev_nil (h : NoAugDev reg) : preDev reg opts plug = fixAll (pstate0 reg opts plug) := by
  unfold preDev
  rw [leftoverPass_nil reg opts plug h]
  simp

theorem devStage_nil (h : NoAugDev reg) (f0 : Forest) :
    (devStage reg opts plug f0).1 = f0 ∧ (devStage reg opts plug f0).2.1 = [] := by
  unfold devStage
  refine foldl_inv (fun acc : Forest × List Err × List String => acc.1 = f0 ∧ acc.2.1 = []) _ _ _ ⟨rfl, rfl⟩ ?_
  rintro ⟨f, errs, done⟩ m hm ⟨hf, he⟩
  dsimp only at hf he ⊢
  subst hf he
  split
  · exact ⟨rfl, rfl⟩
  · rw [(h m (mem_keyOrder hm)).2]
    exact ⟨rfl, rfl⟩

theorem forestErrs_fixAll (s : PState) (h : forestErrs s.forest = []) : forestErrs (fixAll s).forest = [] := by
  rw [forestErrs_eq_nil] at h ⊢
  intro t ht
  simp only [fixAll, List.mem_map] at ht
  obtain ⟨⟨i, e⟩, hie, rfl⟩ := ht
  exact (noErrors_fixChoice e).2 (h (i, e) hie)

theorem canonErrs_nil : canonErrs [] = [] := by
  simp [canonErrs, sortBy]

theorem isEmpty_false_of_ne_nil {α} (l : List α) (h : l ≠ []) : (!l.isEmpty) = true := by
  cases l with
  | nil => exact absurd rfl h
  | cons a t => rfl

/-- The first stage (linking, identities, typedefs) failed: its errors are the result. -/
theorem processAll_stage1 (h1 : stage1Errs reg plug ≠ []) :
    (processAll reg opts plug).errors = canonErrs (stage1Errs reg plug) := by
  rw [processAll_eq, if_pos (isEmpty_false_of_ne_nil _ h1)]

/-- The conversion stage failed: its errors are the result. -/
theorem processAll_stage2 (h1 : stage1Errs reg plug = []) (h2 : forestErrs (forest0 reg opts plug) ≠ []) :
    (processAll reg opts plug).errors = canonErrs (forestErrs (forest0 reg opts plug)) := by
  rw [processAll_eq, h1, if_pos (isEmpty_false_of_ne_nil _ h2)]
  rfl

/-- A clean result: the first two stages were clean (every registry). -/
theorem processAll_clean_stages (h : (processAll reg opts plug).errors = []) :
    stage1Errs reg plug = [] ∧ forestErrs (forest0 reg opts plug) = [] :=
  let ⟨a, b, _⟩ := processAll_clean reg opts plug h
  ⟨a, b⟩

/-- **No augment, no deviation**: when the first two stages are clean, `processAll` reports no
error and answers the forest of the conversion stage with `fixChoice` applied to every tree. -/
theorem processAll_noAugDev (h : NoAugDev reg)
    (h1 : stage1Errs reg plug = []) (h2 : forestErrs (forest0 reg opts plug) = []) :
    (processAll reg opts plug).errors = [] ∧
    (processAll reg opts plug).forest =
      { trees := (forest0 reg opts plug).trees.map fun (p : Nat × Entry) => (p.1, fixChoice p.2) } := by
  have hd := devStage_nil reg opts plug h (preDev reg opts plug).forest
  have hp := preDev_nil reg opts plug h
  have he : forestErrs (preDev reg opts plug).forest = [] := by
    rw [hp]; exact forestErrs_fixAll _ h2
  rw [processAll_eq]
  simp only [h1, h2, List.isEmpty_nil, Bool.not_true, Bool.false_eq_true, if_false]
  refine ⟨?_, ?_⟩
  · rw [hd.2, he]; exact canonErrs_nil
  · rw [hd.1, hp]; rfl

/-- Under `NoAugDev` the result is clean exactly when the first two stages are. -/
theorem processAll_noAugDev_clean_iff (h : NoAugDev reg) :
    (processAll reg opts plug).errors = [] ↔
      stage1Errs reg plug = [] ∧ forestErrs (forest0 reg opts plug) = [] :=
  ⟨processAll_clean_stages reg opts plug, fun ⟨h1, h2⟩ => (processAll_noAugDev reg opts plug h h1 h2).1⟩

end Stages

end Goyang.Lemmas.IncludeNoAug
