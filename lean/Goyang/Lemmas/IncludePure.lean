import Goyang.Lemmas.IncludeRel
/-
C13 (third sentence), part 2: the value of a statement.

`pent` is `toEntry` without the conversion state and without the cycle check: a function of the
place (root module, ancestor chain, statement) and of a fuel alone.  An error-free `pent` is stable
under more fuel (`pent_mono`), so an error-free value, when there is one, is unique (`IsVal`,
`val`).  `step_back`/`core_back`: an error-free result has error-free ingredients (every
substatement that the conversion converts has an error-free value).
-/
namespace Goyang.Lemmas.IncludePure
open Goyang.Model Goyang.Spec.Include Goyang.Lemmas.Tree Goyang.Spec.Tree Goyang.Lemmas.IncludeRel

/-- A stateless recursive call. -/
abbrev PVal := Mod → List Stmt → Stmt → Entry
def pureRec (v : PVal) : Rec := fun r s c _ st => (v r s c, st)

/-- `c` is converted by the field step `f` of statement `n` and its entry becomes part of (or is
checked into) the entry of `n` (everything `Called` but the augment statements of a module). -/
def CalledE (n : Stmt) (f : String) (c : Stmt) : Prop :=
  (f ∈ convKws ∧ c ∈ n.all f) ∨ ((f = "input" ∨ f = "output") ∧ n.one? f = some c)

theorem CalledE.called {n c : Stmt} {f : String} (h : CalledE n f c) : Called n f c := by
  rcases h with h | h
  · exact Or.inl h
  · exact Or.inr (Or.inl h)

theorem Called.calledE {n c : Stmt} {f : String} (h : Called n f c) (hf : f ≠ "augment") : CalledE n f c := by
  rcases h with h | h | ⟨h, _⟩
  · exact Or.inl h
  · exact Or.inr h
  · exact absurd h hf

/-- A substatement that a field step converts is not a (sub)module statement. -/
theorem called_not_mod {n c : Stmt} {f : String} (hf : f ∈ fieldOrder n.kw) (hc : Called n f c) : isModKw c = false := by
  have hk := hc.kw
  unfold isModKw; rw [hk]
  have hfm : f ≠ "module" ∧ f ≠ "submodule" := by
    constructor <;> (rintro rfl; revert hf; unfold fieldOrder; split <;> decide)
  simp [hfm.1, hfm.2]

theorem foldl_back {α : Type} (G : Entry × TState → α → Entry × TState) (w : α → Entry)
    (hG : ∀ acc x, Clean (G acc x).1 → Clean acc.1 ∧ Clean (w x)) (l : List α) (acc : Entry × TState)
    (h : Clean (l.foldl G acc).1) : Clean acc.1 ∧ ∀ x ∈ l, Clean (w x) := by
  induction l generalizing acc with
  | nil => exact ⟨h, by simp⟩
  | cons x xs ih =>
    simp only [List.foldl_cons] at h
    obtain ⟨h1, h2⟩ := ih _ h
    obtain ⟨h3, h4⟩ := hG acc x h1
    refine ⟨h3, ?_⟩
    intro y hy
    rcases List.mem_cons.1 hy with rfl | hy
    · exact h4
    · exact h2 y hy

theorem clean_of_withD {e : Entry} {f : EData → EData} (h : Clean (e.withD f)) (hf : ∀ d, (f d).errors = d.errors) :
    Clean e := (clean_withD e f hf).1 h

theorem clean_of_addErrs {e : Entry} {xs : List Err} (h : Clean (e.addErrs xs)) : Clean e := ((clean_addErrs e xs).1 h).1

section Back
variable (env : Env) (v : PVal) (root : Mod) (n : Stmt) (sub : List Stmt) (vis : List NodeId)

/-- One field step backwards: an error-free result comes from an error-free accumulator and
error-free values of the substatements the step converts. -/
theorem step_back (isMod : Bool) (acc : Entry × TState) (f : String) (hinc : f = "include" → n.all "include" = [])
    (hin : f = "input" → acc.1.inp = []) (hout : f = "output" → acc.1.out = [])
    (h : Clean (stepFn env (pureRec v) root n sub vis isMod acc f).1) :
    Clean acc.1 ∧ ∀ c, CalledE n f c → Clean (v root sub c) := by
  obtain ⟨e, st⟩ := acc
  dsimp only at hin hout
  have hnone : ∀ (g : String), g ∉ convKws → g ≠ "input" → g ≠ "output" → ∀ c, CalledE n g c → Clean (v root sub c) := by
    rintro g h1 h2 h3 c (⟨h, _⟩ | ⟨h | h, _⟩)
    · exact absurd h h1
    · exact absurd h h2
    · exact absurd h h3
  have hconv : ∀ (g : String), g ≠ "input" → g ≠ "output" → (∀ c ∈ n.all g, Clean (v root sub c)) →
      ∀ c, CalledE n g c → Clean (v root sub c) := by
    rintro g h2 h3 hall c (⟨_, hc⟩ | ⟨h | h, _⟩)
    · exact hall c hc
    · exact absurd h h2
    · exact absurd h h3
  revert h hinc
  unfold stepFn
  dsimp only
  split
  all_goals try dsimp only
  all_goals intro hinc h
  all_goals first
    | exact ⟨h, hnone _ (by decide) (by decide) (by decide)⟩
    | exact ⟨clean_of_withD (clean_of_addErrs h) (fun _ => rfl), hnone _ (by decide) (by decide) (by decide)⟩
    | (refine ⟨?_, hnone _ (by decide) (by decide) (by decide)⟩
       split at h
       · exact clean_of_withD h (fun _ => rfl)
       · exact h)
    | skip
  -- the folds over converted substatements
  all_goals first
    | (unfold addAllFn at h
       have hb := foldl_back _ (v root sub) ?_ _ _ h
       · exact ⟨hb.1, hconv _ (by decide) (by decide) hb.2⟩
       · intro acc c hc
         exact ⟨(clean_add _ _ _ hc).1, (clean_add _ _ _ hc).2.1⟩)
    | (have hb := foldl_back _ (v root sub) ?_ _ _ h
       · exact ⟨hb.1, hconv _ (by decide) (by decide) hb.2⟩
       · intro acc c hc
         first
           | exact ⟨(clean_add _ _ _ hc).1, clean_of_withD (clean_add _ _ _ hc).2.1 (fun _ => rfl)⟩
           | exact (clean_importErrors _ _).1 hc
           | exact clean_merge _ _ _ hc
           | (dsimp only at hc
              split at hc
              · exact (clean_importErrors _ _).1 hc
              · exact absurd hc (not_clean_addErr _ _)))
    | skip
  case h_17 =>
    have hb := foldl_back _ (v root sub) ?_ _ _ h
    · exact ⟨hb.1, hconv _ (by decide) (by decide) hb.2⟩
    · intro acc c hc
      exact clean_merge acc.1 none _ hc
  case h_18 =>
    split at h
    · rename_i hn
      refine ⟨h, ?_⟩
      rintro c (⟨hk, _⟩ | ⟨_, hc⟩)
      · exact absurd hk (by decide)
      · rw [hn] at hc; cases hc
    · rename_i i hi
      dsimp only [pureRec] at h
      have h' : Clean (setInp e ((v root sub i).withD fun d => { d with name := "input", kind := .input })) := by
        cases e; exact h
      obtain ⟨h1, h2⟩ := clean_setInp _ _ h' (hin rfl)
      refine ⟨h1, ?_⟩
      rintro c (⟨hk, _⟩ | ⟨_, hc⟩)
      · exact absurd hk (by decide)
      · rw [hi] at hc; cases hc
        exact clean_of_withD h2 (fun _ => rfl)
  case h_19 =>
    split at h
    · rename_i hn
      refine ⟨h, ?_⟩
      rintro c (⟨hk, _⟩ | ⟨_, hc⟩)
      · exact absurd hk (by decide)
      · rw [hn] at hc; cases hc
    · rename_i o ho
      dsimp only [pureRec] at h
      have h' : Clean (setOut e ((v root sub o).withD fun d => { d with name := "output", kind := .output })) := by
        cases e; exact h
      obtain ⟨h1, h2⟩ := clean_setOut _ _ h' (hout rfl)
      refine ⟨h1, ?_⟩
      rintro c (⟨hk, _⟩ | ⟨_, hc⟩)
      · exact absurd hk (by decide)
      · rw [ho] at hc; cases hc
        exact clean_of_withD h2 (fun _ => rfl)
  case h_20 =>
    rw [hinc rfl] at h
    exact ⟨h, hnone _ (by decide) (by decide) (by decide)⟩
  case h_23 =>
    refine ⟨?_, hnone _ (by decide) (by decide) (by decide)⟩
    split at h
    · exact h
    · split at h
      · exact clean_of_withD h (fun _ => rfl)
      · exact absurd h (not_clean_addErr _ _)
  case h_24 =>
    refine ⟨?_, hnone _ (by decide) (by decide) (by decide)⟩
    split at h
    · split at h
      · exact clean_of_withD h (fun _ => rfl)
      · exact h
    · exact h
  case h_26 =>
    refine ⟨?_, hnone _ (by decide) (by decide) (by decide)⟩
    split at h
    · exact h
    · split at h
      · exact clean_of_withD h (fun _ => rfl)
      · exact clean_of_withD (clean_of_withD (clean_of_addErrs h) (fun _ => rfl)) (fun _ => rfl)
  case h_27 =>
    refine ⟨?_, hnone _ (by decide) (by decide) (by decide)⟩
    split at h
    · exact h
    · split at h
      · exact clean_of_withD h (fun _ => rfl)
      · exact clean_of_withD (clean_of_withD (clean_of_addErrs h) (fun _ => rfl)) (fun _ => rfl)
  case h_28 =>
    refine ⟨?_, hnone _ (by decide) (by decide) (by decide)⟩
    split at h
    · exact h
    · exact h
  case h_29 =>
    refine ⟨h, hnone _ ?_ ?_ ?_⟩
    · simp_all [convKws]
    · simp_all
    · simp_all


/-- A stateless call leaves the state of a field step alone, unless the step records augments. -/
theorem foldl_steps_back (hinc : "include" ∈ fieldOrder n.kw → n.all "include" = []) (isMod : Bool) (l : List String)
    (hl : ∀ f ∈ l, f ∈ fieldOrder n.kw) (hio : ∀ f ∈ l, f ≠ "input" ∧ f ≠ "output") (acc : Entry × TState)
    (h : Clean (l.foldl (stepFn env (pureRec v) root n sub vis isMod) acc).1) :
    Clean acc.1 ∧ ∀ f ∈ l, ∀ c, CalledE n f c → Clean (v root sub c) := by
  induction l generalizing acc with
  | nil => exact ⟨h, by simp⟩
  | cons f fs ih =>
    simp only [List.foldl_cons] at h
    obtain ⟨h1, h2⟩ := ih (fun g hg => hl g (List.mem_cons_of_mem _ hg)) (fun g hg => hio g (List.mem_cons_of_mem _ hg)) _ h
    have hf := hio f (List.mem_cons_self ..)
    obtain ⟨h3, h4⟩ := step_back env v root n sub vis isMod acc f (fun hfi => hinc (hfi ▸ hl f (List.mem_cons_self ..)))
      (fun hx => absurd hx hf.1) (fun hx => absurd hx hf.2) h1
    refine ⟨h3, ?_⟩
    intro g hg
    rcases List.mem_cons.1 hg with rfl | hg
    · exact h4
    · exact h2 g hg

/-- All field steps backwards. -/
theorem steps_back (hinc : "include" ∈ fieldOrder n.kw → n.all "include" = []) (isMod : Bool) (st : TState)
    (h : Clean ((fieldOrder n.kw).foldl (stepFn env (pureRec v) root n sub vis isMod) (e0 root n, st)).1) :
    ∀ f ∈ fieldOrder n.kw, ∀ c, CalledE n f c → Clean (v root sub c) := by
  by_cases hio : "input" ∈ fieldOrder n.kw ∨ "output" ∈ fieldOrder n.kw
  · have hfo := fieldOrder_io _ hio
    rw [hfo] at h ⊢
    simp only [List.foldl] at h
    have i1 := stepFn_output_inp env (pureRec v) root n sub vis isMod (e0 root n, st)
    generalize hx1 : stepFn env (pureRec v) root n sub vis isMod (e0 root n, st) "output" = x1 at h i1
    generalize hx2 : stepFn env (pureRec v) root n sub vis isMod x1 "input" = x2 at h
    generalize hx3 : stepFn env (pureRec v) root n sub vis isMod x2 "grouping" = x3 at h
    obtain ⟨c4, d4⟩ := step_back env v root n sub vis isMod x3 "description" (fun hx => absurd hx (by decide))
      (fun hx => absurd hx (by decide)) (fun hx => absurd hx (by decide)) h
    rw [← hx3] at c4
    obtain ⟨c3, d3⟩ := step_back env v root n sub vis isMod x2 "grouping" (fun hx => absurd hx (by decide))
      (fun hx => absurd hx (by decide)) (fun hx => absurd hx (by decide)) c4
    rw [← hx2] at c3
    obtain ⟨c2, d2⟩ := step_back env v root n sub vis isMod x1 "input" (fun hx => absurd hx (by decide))
      (fun _ => i1) (fun hx => absurd hx (by decide)) c3
    rw [← hx1] at c2
    obtain ⟨_, d1⟩ := step_back env v root n sub vis isMod (e0 root n, st) "output" (fun hx => absurd hx (by decide))
      (fun hx => absurd hx (by decide)) (fun _ => rfl) c2
    intro f hf
    simp only [List.mem_cons, List.mem_nil_iff, or_false] at hf
    rcases hf with rfl | rfl | rfl | rfl
    · exact d1
    · exact d2
    · exact d3
    · exact d4
  · exact (foldl_steps_back env v root n sub vis hinc isMod _ (fun f hf => hf)
      (fun f hf => ⟨fun hx => hio (Or.inl (hx ▸ hf)), fun hx => hio (Or.inr (hx ▸ hf))⟩) _ h).2

end Back

/-- **An error-free result has error-free ingredients**: for a `uses`, the value of the grouping;
otherwise the values of all substatements that the field steps convert. -/
theorem core_back (env : Env) (v : PVal) (root : Mod) (scope : List Stmt) (n : Stmt) (vis : List NodeId) (st : TState)
    (lk : Option GroupingRef) (isMod : Bool) (hinc : "include" ∈ fieldOrder n.kw → n.all "include" = [])
    (h : Clean (core env (pureRec v) root scope n vis st lk isMod).1) :
    (n.kw = "uses" → ∃ g gr gs, lk = some (g, gr, gs) ∧ Clean (v gr gs g)) ∧
    (n.kw ≠ "leaf" → n.kw ≠ "leaf-list" → n.kw ≠ "uses" →
      ∀ f ∈ fieldOrder n.kw, ∀ c, CalledE n f c → Clean (v root (n :: scope) c)) := by
  unfold core at h
  split at h
  · rename_i hk
    have hk' : n.kw = "leaf" := by simpa using hk
    exact ⟨fun hu => by rw [hk'] at hu; exact absurd hu (by decide), fun h1 => absurd hk' h1⟩
  · split at h
    · rename_i hk
      have hk' : n.kw = "leaf-list" := by simpa using hk
      exact ⟨fun hu => by rw [hk'] at hu; exact absurd hu (by decide), fun _ h2 => absurd hk' h2⟩
    · split at h
      · rename_i hk
        have hk' : n.kw = "uses" := by simpa using hk
        refine ⟨fun _ => ?_, fun _ _ h3 => absurd hk' h3⟩
        cases lk with
        | none =>
          exfalso
          have : (errorEntry root n "unknown-group").d.errors ≠ [] := errorEntry_errors _ _ _
          exact this (clean_own _ h)
        | some r =>
          obtain ⟨g, gr, gs⟩ := r
          exact ⟨g, gr, gs, rfl, h⟩
      · rename_i hk
        have hk' : n.kw ≠ "uses" := by simpa using hk
        refine ⟨fun hu => absurd hu hk', fun _ _ _ => ?_⟩
        unfold dirBody at h
        dsimp only at h
        have hc : Clean ((fieldOrder n.kw).foldl (stepFn env (pureRec v) root n (n :: scope) vis isMod) (e0 root n, st)).1 := by
          generalize (fieldOrder n.kw).foldl (stepFn env (pureRec v) root n (n :: scope) vis isMod) (e0 root n, st) = x at h
          obtain ⟨x1, x2⟩ := x
          dsimp only at h ⊢
          cases isMod with
          | true => simpa using h
          | false =>
            simp only [Bool.false_eq_true, if_false] at h
            split at h <;> exact h
        exact steps_back env v root n (n :: scope) vis hinc isMod st hc

/-! ### the value of a statement -/

/-- The grouping lookup as a function of the place and the name. -/
abbrev Lookup := Mod → List Stmt → String → Option GroupingRef

/-- One level of conversion over given values of the substatements. -/
def pcore (env : Env) (lk : Lookup) (v : PVal) : PVal :=
  fun root scope n => (core env (pureRec v) root scope n [] {} (lk root scope n.arg) false).1

/-- `toEntry` without conversion state and cycle check. -/
def pent (env : Env) (lk : Lookup) : Nat → PVal
  | 0 => fun root _ n => errorEntry root n "out-of-fuel"
  | f + 1 => pcore env lk (pent env lk f)

theorem not_clean_errorEntry (root : Mod) (n : Stmt) (cls : String) : ¬ Clean (errorEntry root n cls) :=
  fun h => errorEntry_errors root n cls (clean_own _ h)

theorem REl_id_refl (e : Entry) : REl id e e := fun _ => ren_id e

/-- `pcore` respects "equal where error free" (left to right). -/
theorem pcore_rel (env : Env) (lk : Lookup) (hlk : ∀ r s a g gr gs, lk r s a = some (g, gr, gs) → isModKw g = false)
    (v w : PVal) (hvw : ∀ r s c, isModKw c = false → Clean (v r s c) → v r s c = w r s c)
    (root : Mod) (scope : List Stmt) (n : Stmt) (hnm : isModKw n = false)
    (h : Clean (pcore env lk v root scope n)) : pcore env lk v root scope n = pcore env lk w root scope n := by
  have hinc : "include" ∈ fieldOrder n.kw → n.all "include" = [] := by
    intro hf
    unfold isModKw at hnm
    unfold fieldOrder at hf
    split at hf
    all_goals first
      | (exfalso; revert hf; decide)
      | simp_all
  have hrel : ∀ r s c, isModKw c = false → REl id (v r s c) (w r s c) :=
    fun r s c hm hc => by rw [ren_id]; exact hvw r s c hm hc
  have := core_rel (RE := REl id) (RS := fun _ _ => True) (closed2_REl id) env env (pureRec v) (pureRec w) root root n
    scope scope [] [] {} {} trivial (lk root scope n.arg) (lk root scope n.arg) false
    (REl_id_refl _) (fun _ _ => REl_id_refl _) (fun _ => REl_id_refl _) (fun _ _ _ => rfl) hinc
    (fun c hc _ _ _ => ⟨hrel _ _ _ (by obtain ⟨f, hf, hcf⟩ := hc; exact called_not_mod hf hcf), trivial⟩)
    (fun _ => by
      cases hl : lk root scope n.arg with
      | none => trivial
      | some r => obtain ⟨g, gr, gs⟩ := r; exact fun _ _ _ => ⟨hrel _ _ _ (hlk _ _ _ _ _ _ hl), trivial⟩)
    (fun h => absurd h (by decide)) (fun h => absurd h (by decide)) (fun _ _ _ _ _ _ _ => trivial)
  have h2 := this.1 h
  rw [ren_id] at h2
  exact h2


section Val
variable (env : Env) (lk : Lookup) (hlk : ∀ r s a g gr gs, lk r s a = some (g, gr, gs) → isModKw g = false)
include hlk

/-- An error-free value is stable under more fuel. -/
theorem pent_mono : ∀ (f : Nat) (root : Mod) (scope : List Stmt) (n : Stmt), isModKw n = false →
    Clean (pent env lk f root scope n) → pent env lk (f + 1) root scope n = pent env lk f root scope n := by
  intro f
  induction f with
  | zero => intro root scope n _ h; exact absurd h (not_clean_errorEntry _ _ _)
  | succ f ih =>
    intro root scope n hn h
    exact (pcore_rel env lk hlk (pent env lk f) (pent env lk (f + 1)) (fun r s c hc hcl => (ih r s c hc hcl).symm)
      root scope n hn h).symm

theorem pent_stable (f k : Nat) (root : Mod) (scope : List Stmt) (n : Stmt) (hn : isModKw n = false)
    (h : Clean (pent env lk f root scope n)) : pent env lk (f + k) root scope n = pent env lk f root scope n := by
  induction k with
  | zero => rfl
  | succ k ih =>
    have : f + (k + 1) = (f + k) + 1 := by omega
    rw [this, pent_mono env lk hlk (f + k) root scope n hn (by rw [ih]; exact h), ih]

theorem pent_le (f g : Nat) (hfg : f ≤ g) (root : Mod) (scope : List Stmt) (n : Stmt) (hn : isModKw n = false)
    (h : Clean (pent env lk f root scope n)) : pent env lk g root scope n = pent env lk f root scope n := by
  obtain ⟨k, rfl⟩ : ∃ k, g = f + k := ⟨g - f, by omega⟩
  exact pent_stable env lk hlk f k root scope n hn h

omit hlk in
/-- The statement has an error-free value. -/
def HasVal (root : Mod) (scope : List Stmt) (n : Stmt) : Prop := ∃ f, Clean (pent env lk f root scope n)

open Classical in
omit hlk in
/-- The least-effort witness. -/
noncomputable def fuelOf (root : Mod) (scope : List Stmt) (n : Stmt) : Nat :=
  if h : HasVal env lk root scope n then Classical.choose h else 0

open Classical in
omit hlk in
/-- **The value of a statement**: its error-free conversion, if it has one. -/
noncomputable def val : PVal := fun root scope n => pent env lk (fuelOf env lk root scope n) root scope n

omit hlk in
theorem fuelOf_clean (root : Mod) (scope : List Stmt) (n : Stmt) (h : HasVal env lk root scope n) :
    Clean (pent env lk (fuelOf env lk root scope n) root scope n) := by
  unfold fuelOf
  rw [dif_pos h]
  exact Classical.choose_spec h

theorem val_eq (f : Nat) (root : Mod) (scope : List Stmt) (n : Stmt) (hn : isModKw n = false)
    (h : Clean (pent env lk f root scope n)) : val env lk root scope n = pent env lk f root scope n := by
  have hv : HasVal env lk root scope n := ⟨f, h⟩
  have hc := fuelOf_clean env lk root scope n hv
  unfold val
  rcases Nat.le_total f (fuelOf env lk root scope n) with hle | hle
  · exact pent_le env lk hlk f _ hle root scope n hn h
  · exact (pent_le env lk hlk _ f hle root scope n hn hc).symm

omit hlk in
theorem val_clean (root : Mod) (scope : List Stmt) (n : Stmt) (h : Clean (val env lk root scope n)) :
    HasVal env lk root scope n := ⟨_, h⟩

theorem val_ge (g : Nat) (root : Mod) (scope : List Stmt) (n : Stmt) (hn : isModKw n = false)
    (h : Clean (val env lk root scope n)) (hg : fuelOf env lk root scope n ≤ g) :
    pent env lk g root scope n = val env lk root scope n :=
  pent_le env lk hlk _ g hg root scope n hn h

omit hlk in
theorem fuelOf_pos (root : Mod) (scope : List Stmt) (n : Stmt) (h : Clean (val env lk root scope n)) :
    0 < fuelOf env lk root scope n := by
  rcases Nat.eq_zero_or_pos (fuelOf env lk root scope n) with h0 | h0
  · unfold val at h
    rw [h0] at h
    exact absurd h (not_clean_errorEntry _ _ _)
  · exact h0

/-- The value satisfies the equation of one level of conversion (when it is error free). -/
theorem val_unfold (root : Mod) (scope : List Stmt) (n : Stmt) (hn : isModKw n = false)
    (h : Clean (val env lk root scope n)) : val env lk root scope n = pcore env lk (val env lk) root scope n := by
  have hp := fuelOf_pos env lk root scope n h
  obtain ⟨k, hk⟩ : ∃ k, fuelOf env lk root scope n = k + 1 := ⟨fuelOf env lk root scope n - 1, by omega⟩
  have h1 : val env lk root scope n = pcore env lk (pent env lk k) root scope n := by
    unfold val; rw [hk]; rfl
  rw [h1]
  rw [h1] at h
  exact pcore_rel env lk hlk (pent env lk k) (val env lk)
    (fun r s c hc hcl => (val_eq env lk hlk k r s c hc hcl).symm) root scope n hn h

omit hlk in
theorem le_foldr_max {α : Type} (g : α → Nat) (l : List α) (a : Nat) : a ≤ l.foldr (fun x m => max (g x) m) a ∧
    ∀ x ∈ l, g x ≤ l.foldr (fun x m => max (g x) m) a := by
  induction l with
  | nil => exact ⟨Nat.le_refl _, by simp⟩
  | cons y ys ih =>
    simp only [List.foldr_cons]
    refine ⟨Nat.le_trans ih.1 (Nat.le_max_right _ _), ?_⟩
    intro x hx
    rcases List.mem_cons.1 hx with rfl | hx
    · exact Nat.le_max_left _ _
    · exact Nat.le_trans (ih.2 x hx) (Nat.le_max_right _ _)

/-- … and one level of conversion over values, when error free, is the value. -/
theorem val_fold (root : Mod) (scope : List Stmt) (n : Stmt) (hn : isModKw n = false)
    (h : Clean (pcore env lk (val env lk) root scope n)) :
    val env lk root scope n = pcore env lk (val env lk) root scope n := by
  -- a fuel that is enough for every substatement and for the grouping of a `uses`
  let F0 : Nat := match lk root scope n.arg with
    | some (g, gr, gs) => fuelOf env lk gr gs g
    | none => 0
  let F : Nat := n.subs.foldr (fun c m => max (fuelOf env lk root (n :: scope) c) m) F0
  have hF := le_foldr_max (fun c => fuelOf env lk root (n :: scope) c) n.subs F0
  -- with that fuel, `pent` agrees with `val` wherever `val` is error free … but `pcore_rel` wants
  -- all places: use the relational form directly
  have hinc : "include" ∈ fieldOrder n.kw → n.all "include" = [] := by
    intro hf
    unfold isModKw at hn
    unfold fieldOrder at hf
    split at hf
    all_goals first
      | (exfalso; revert hf; decide)
      | simp_all
  have := core_rel (RE := REl id) (RS := fun _ _ => True) (closed2_REl id) env env (pureRec (val env lk))
    (pureRec (pent env lk F)) root root n scope scope [] [] {} {} trivial (lk root scope n.arg) (lk root scope n.arg) false
    (REl_id_refl _) (fun _ _ => REl_id_refl _) (fun _ => REl_id_refl _) (fun _ _ _ => rfl) hinc
    (fun c hc _ _ _ => ⟨fun hcl => by
        obtain ⟨f, hf, hcf⟩ := hc
        rw [ren_id]
        exact (val_ge env lk hlk F root (n :: scope) c (called_not_mod hf hcf) hcl (hF.2 c hcf.mem)).symm, trivial⟩)
    (fun _ => by
      cases hl : lk root scope n.arg with
      | none => trivial
      | some r =>
        obtain ⟨g, gr, gs⟩ := r
        refine fun _ _ _ => ⟨fun hcl => ?_, trivial⟩
        rw [ren_id]
        refine (val_ge env lk hlk F gr gs g (hlk _ _ _ _ _ _ hl) hcl ?_).symm
        have : F0 = fuelOf env lk gr gs g := by simp only [F0, hl]
        rw [← this]; exact hF.1)
    (fun h => absurd h (by decide)) (fun h => absurd h (by decide)) (fun _ _ _ _ _ _ _ => trivial)
  have h2 := this.1 h
  rw [ren_id] at h2
  have h3 : pcore env lk (val env lk) root scope n = pent env lk (F + 1) root scope n := h2
  rw [h3] at h ⊢
  exact val_eq env lk hlk (F + 1) root scope n hn h

/-- The fixed-point equation of the value, in the form the traversal uses. -/
theorem val_fix (root : Mod) (scope : List Stmt) (n : Stmt) (hn : isModKw n = false)
    (h : Clean (val env lk root scope n) ∨ Clean (pcore env lk (val env lk) root scope n)) :
    val env lk root scope n = pcore env lk (val env lk) root scope n := by
  rcases h with h | h
  · exact val_unfold env lk hlk root scope n hn h
  · exact val_fold env lk hlk root scope n hn h

end Val

end Goyang.Lemmas.IncludePure
