import Goyang.Lemmas.IncludeRel
/-
C13 (third sentence), part 2: the value of a statement.

`pent` is `toEntry` without the conversion state and without the cycle check: a function of the
place (root module, ancestor chain, statement) and of a fuel alone.  An error-free `pent` is stable
under more fuel (`pent_mono`), so an error-free value, when there is one, is unique (`IsVal`,
`val`).  `step_back`/`core_back`: an error-free result has error-free ingredients (every
substatement that the conversion converts has an error-free value).
-/
namespace Goyang.Lemmas.IncludePure
open Goyang.Model Goyang.Spec.Include Goyang.Lemmas.Tree Goyang.Spec.Tree Goyang.Lemmas.IncludeRel

/-- A stateless recursive call. -/
abbrev PVal := Mod → List Stmt → Stmt → Entry
def pureRec (v : PVal) : Rec := fun r s c _ st => (v r s c, st)

/-- Keywords whose substatements the field steps convert. -/
def convKws : List String :=
  ["anydata", "anyxml", "case", "choice", "container", "leaf", "leaf-list", "list", "notification", "rpc", "action",
   "grouping", "uses", "deviation", "deviate"]

/-- `c` is converted by the field step `f` of statement `n`. -/
def Called (n : Stmt) (f : String) (c : Stmt) : Prop :=
  (f ∈ convKws ∧ c ∈ n.all f) ∨ ((f = "input" ∨ f = "output") ∧ n.one? f = some c)

theorem foldl_back {α : Type} (G : Entry × TState → α → Entry × TState) (w : α → Entry)
    (hG : ∀ acc x, Clean (G acc x).1 → Clean acc.1 ∧ Clean (w x)) (l : List α) (acc : Entry × TState)
    (h : Clean (l.foldl G acc).1) : Clean acc.1 ∧ ∀ x ∈ l, Clean (w x) := by
  induction l generalizing acc with
  | nil => exact ⟨h, by simp⟩
  | cons x xs ih =>
    simp only [List.foldl_cons] at h
    obtain ⟨h1, h2⟩ := ih _ h
    obtain ⟨h3, h4⟩ := hG acc x h1
    refine ⟨h3, ?_⟩
    intro y hy
    rcases List.mem_cons.1 hy with rfl | hy
    · exact h4
    · exact h2 y hy

theorem clean_of_withD {e : Entry} {f : EData → EData} (h : Clean (e.withD f)) (hf : ∀ d, (f d).errors = d.errors) :
    Clean e := (clean_withD e f hf).1 h

theorem clean_of_addErrs {e : Entry} {xs : List Err} (h : Clean (e.addErrs xs)) : Clean e := ((clean_addErrs e xs).1 h).1

section Back
variable (env : Env) (v : PVal) (root : Mod) (n : Stmt) (sub : List Stmt) (vis : List NodeId)

/-- One field step backwards: an error-free result comes from an error-free accumulator and
error-free values of the substatements the step converts. -/
theorem step_back (isMod : Bool) (acc : Entry × TState) (f : String) (hinc : f = "include" → n.all "include" = [])
    (hin : f = "input" → acc.1.inp = []) (hout : f = "output" → acc.1.out = [])
    (h : Clean (stepFn env (pureRec v) root n sub vis isMod acc f).1) :
    Clean acc.1 ∧ ∀ c, Called n f c → Clean (v root sub c) := by
  obtain ⟨e, st⟩ := acc
  dsimp only at hin hout
  have hnone : ∀ (g : String), g ∉ convKws → g ≠ "input" → g ≠ "output" → ∀ c, Called n g c → Clean (v root sub c) := by
    rintro g h1 h2 h3 c (⟨h, _⟩ | ⟨h | h, _⟩)
    · exact absurd h h1
    · exact absurd h h2
    · exact absurd h h3
  have hconv : ∀ (g : String), g ≠ "input" → g ≠ "output" → (∀ c ∈ n.all g, Clean (v root sub c)) →
      ∀ c, Called n g c → Clean (v root sub c) := by
    rintro g h2 h3 hall c (⟨_, hc⟩ | ⟨h | h, _⟩)
    · exact hall c hc
    · exact absurd h h2
    · exact absurd h h3
  revert h hinc
  unfold stepFn
  dsimp only
  split
  all_goals try dsimp only
  all_goals intro hinc h
  all_goals first
    | exact ⟨h, hnone _ (by decide) (by decide) (by decide)⟩
    | exact ⟨clean_of_withD (clean_of_addErrs h) (fun _ => rfl), hnone _ (by decide) (by decide) (by decide)⟩
    | (refine ⟨?_, hnone _ (by decide) (by decide) (by decide)⟩
       split at h
       · exact clean_of_withD h (fun _ => rfl)
       · exact h)
    | skip
  -- the folds over converted substatements
  all_goals first
    | (unfold addAllFn at h
       have hb := foldl_back _ (v root sub) ?_ _ _ h
       · exact ⟨hb.1, hconv _ (by decide) (by decide) hb.2⟩
       · intro acc c hc
         exact ⟨(clean_add _ _ _ hc).1, (clean_add _ _ _ hc).2.1⟩)
    | (have hb := foldl_back _ (v root sub) ?_ _ _ h
       · exact ⟨hb.1, hconv _ (by decide) (by decide) hb.2⟩
       · intro acc c hc
         first
           | exact ⟨(clean_add _ _ _ hc).1, clean_of_withD (clean_add _ _ _ hc).2.1 (fun _ => rfl)⟩
           | exact (clean_importErrors _ _).1 hc
           | exact clean_merge _ _ _ hc
           | (dsimp only at hc
              split at hc
              · exact (clean_importErrors _ _).1 hc
              · exact absurd hc (not_clean_addErr _ _)))
    | skip
  case h_17 =>
    have hb := foldl_back _ (v root sub) ?_ _ _ h
    · exact ⟨hb.1, hconv _ (by decide) (by decide) hb.2⟩
    · intro acc c hc
      exact clean_merge acc.1 none _ hc
  case h_18 =>
    split at h
    · rename_i hn
      refine ⟨h, ?_⟩
      rintro c (⟨hk, _⟩ | ⟨_, hc⟩)
      · exact absurd hk (by decide)
      · rw [hn] at hc; cases hc
    · rename_i i hi
      dsimp only [pureRec] at h
      have h' : Clean (setInp e ((v root sub i).withD fun d => { d with name := "input", kind := .input })) := by
        cases e; exact h
      obtain ⟨h1, h2⟩ := clean_setInp _ _ h' (hin rfl)
      refine ⟨h1, ?_⟩
      rintro c (⟨hk, _⟩ | ⟨_, hc⟩)
      · exact absurd hk (by decide)
      · rw [hi] at hc; cases hc
        exact clean_of_withD h2 (fun _ => rfl)
  case h_19 =>
    split at h
    · rename_i hn
      refine ⟨h, ?_⟩
      rintro c (⟨hk, _⟩ | ⟨_, hc⟩)
      · exact absurd hk (by decide)
      · rw [hn] at hc; cases hc
    · rename_i o ho
      dsimp only [pureRec] at h
      have h' : Clean (setOut e ((v root sub o).withD fun d => { d with name := "output", kind := .output })) := by
        cases e; exact h
      obtain ⟨h1, h2⟩ := clean_setOut _ _ h' (hout rfl)
      refine ⟨h1, ?_⟩
      rintro c (⟨hk, _⟩ | ⟨_, hc⟩)
      · exact absurd hk (by decide)
      · rw [ho] at hc; cases hc
        exact clean_of_withD h2 (fun _ => rfl)
  case h_20 =>
    rw [hinc rfl] at h
    exact ⟨h, hnone _ (by decide) (by decide) (by decide)⟩
  case h_23 =>
    refine ⟨?_, hnone _ (by decide) (by decide) (by decide)⟩
    split at h
    · exact h
    · split at h
      · exact clean_of_withD h (fun _ => rfl)
      · exact absurd h (not_clean_addErr _ _)
  case h_24 =>
    refine ⟨?_, hnone _ (by decide) (by decide) (by decide)⟩
    split at h
    · split at h
      · exact clean_of_withD h (fun _ => rfl)
      · exact h
    · exact h
  case h_26 =>
    refine ⟨?_, hnone _ (by decide) (by decide) (by decide)⟩
    split at h
    · exact h
    · split at h
      · exact clean_of_withD h (fun _ => rfl)
      · exact clean_of_withD (clean_of_withD (clean_of_addErrs h) (fun _ => rfl)) (fun _ => rfl)
  case h_27 =>
    refine ⟨?_, hnone _ (by decide) (by decide) (by decide)⟩
    split at h
    · exact h
    · split at h
      · exact clean_of_withD h (fun _ => rfl)
      · exact clean_of_withD (clean_of_withD (clean_of_addErrs h) (fun _ => rfl)) (fun _ => rfl)
  case h_28 =>
    refine ⟨?_, hnone _ (by decide) (by decide) (by decide)⟩
    split at h
    · exact h
    · exact h
  case h_29 =>
    refine ⟨h, hnone _ ?_ ?_ ?_⟩
    · simp_all [convKws]
    · simp_all
    · simp_all


/-- A stateless call leaves the state of a field step alone, unless the step records augments. -/
theorem foldl_steps_back (hinc : "include" ∈ fieldOrder n.kw → n.all "include" = []) (isMod : Bool) (l : List String)
    (hl : ∀ f ∈ l, f ∈ fieldOrder n.kw) (hio : ∀ f ∈ l, f ≠ "input" ∧ f ≠ "output") (acc : Entry × TState)
    (h : Clean (l.foldl (stepFn env (pureRec v) root n sub vis isMod) acc).1) :
    Clean acc.1 ∧ ∀ f ∈ l, ∀ c, Called n f c → Clean (v root sub c) := by
  induction l generalizing acc with
  | nil => exact ⟨h, by simp⟩
  | cons f fs ih =>
    simp only [List.foldl_cons] at h
    obtain ⟨h1, h2⟩ := ih (fun g hg => hl g (List.mem_cons_of_mem _ hg)) (fun g hg => hio g (List.mem_cons_of_mem _ hg)) _ h
    have hf := hio f (List.mem_cons_self ..)
    obtain ⟨h3, h4⟩ := step_back env v root n sub vis isMod acc f (fun hfi => hinc (hfi ▸ hl f (List.mem_cons_self ..)))
      (fun hx => absurd hx hf.1) (fun hx => absurd hx hf.2) h1
    refine ⟨h3, ?_⟩
    intro g hg
    rcases List.mem_cons.1 hg with rfl | hg
    · exact h4
    · exact h2 g hg

/-- All field steps backwards. -/
theorem steps_back (hinc : "include" ∈ fieldOrder n.kw → n.all "include" = []) (isMod : Bool) (st : TState)
    (h : Clean ((fieldOrder n.kw).foldl (stepFn env (pureRec v) root n sub vis isMod) (e0 root n, st)).1) :
    ∀ f ∈ fieldOrder n.kw, ∀ c, Called n f c → Clean (v root sub c) := by
  by_cases hio : "input" ∈ fieldOrder n.kw ∨ "output" ∈ fieldOrder n.kw
  · have hfo := fieldOrder_io _ hio
    rw [hfo] at h ⊢
    simp only [List.foldl] at h
    have i1 := stepFn_output_inp env (pureRec v) root n sub vis isMod (e0 root n, st)
    generalize hx1 : stepFn env (pureRec v) root n sub vis isMod (e0 root n, st) "output" = x1 at h i1
    generalize hx2 : stepFn env (pureRec v) root n sub vis isMod x1 "input" = x2 at h
    generalize hx3 : stepFn env (pureRec v) root n sub vis isMod x2 "grouping" = x3 at h
    obtain ⟨c4, d4⟩ := step_back env v root n sub vis isMod x3 "description" (fun hx => absurd hx (by decide))
      (fun hx => absurd hx (by decide)) (fun hx => absurd hx (by decide)) h
    rw [← hx3] at c4
    obtain ⟨c3, d3⟩ := step_back env v root n sub vis isMod x2 "grouping" (fun hx => absurd hx (by decide))
      (fun hx => absurd hx (by decide)) (fun hx => absurd hx (by decide)) c4
    rw [← hx2] at c3
    obtain ⟨c2, d2⟩ := step_back env v root n sub vis isMod x1 "input" (fun hx => absurd hx (by decide))
      (fun _ => i1) (fun hx => absurd hx (by decide)) c3
    rw [← hx1] at c2
    obtain ⟨_, d1⟩ := step_back env v root n sub vis isMod (e0 root n, st) "output" (fun hx => absurd hx (by decide))
      (fun hx => absurd hx (by decide)) (fun _ => rfl) c2
    intro f hf
    simp only [List.mem_cons, List.mem_nil_iff, or_false] at hf
    rcases hf with rfl | rfl | rfl | rfl
    · exact d1
    · exact d2
    · exact d3
    · exact d4
  · exact (foldl_steps_back env v root n sub vis hinc isMod _ (fun f hf => hf)
      (fun f hf => ⟨fun hx => hio (Or.inl (hx ▸ hf)), fun hx => hio (Or.inr (hx ▸ hf))⟩) _ h).2

end Back

/-- **An error-free result has error-free ingredients**: for a `uses`, the value of the grouping;
otherwise the values of all substatements that the field steps convert. -/
theorem core_back (env : Env) (v : PVal) (root : Mod) (scope : List Stmt) (n : Stmt) (vis : List NodeId) (st : TState)
    (lk : Option GroupingRef) (isMod : Bool) (hinc : "include" ∈ fieldOrder n.kw → n.all "include" = [])
    (h : Clean (core env (pureRec v) root scope n vis st lk isMod).1) :
    (n.kw = "uses" → ∃ g gr gs, lk = some (g, gr, gs) ∧ Clean (v gr gs g)) ∧
    (n.kw ≠ "leaf" → n.kw ≠ "leaf-list" → n.kw ≠ "uses" →
      ∀ f ∈ fieldOrder n.kw, ∀ c, Called n f c → Clean (v root (n :: scope) c)) := by
  unfold core at h
  split at h
  · rename_i hk
    have hk' : n.kw = "leaf" := by simpa using hk
    exact ⟨fun hu => by rw [hk'] at hu; exact absurd hu (by decide), fun h1 => absurd hk' h1⟩
  · split at h
    · rename_i hk
      have hk' : n.kw = "leaf-list" := by simpa using hk
      exact ⟨fun hu => by rw [hk'] at hu; exact absurd hu (by decide), fun _ h2 => absurd hk' h2⟩
    · split at h
      · rename_i hk
        have hk' : n.kw = "uses" := by simpa using hk
        refine ⟨fun _ => ?_, fun _ _ h3 => absurd hk' h3⟩
        cases lk with
        | none =>
          exfalso
          have : (errorEntry root n "unknown-group").d.errors ≠ [] := errorEntry_errors _ _ _
          exact this (clean_own _ h)
        | some r =>
          obtain ⟨g, gr, gs⟩ := r
          exact ⟨g, gr, gs, rfl, h⟩
      · rename_i hk
        have hk' : n.kw ≠ "uses" := by simpa using hk
        refine ⟨fun hu => absurd hu hk', fun _ _ _ => ?_⟩
        unfold dirBody at h
        dsimp only at h
        have hc : Clean ((fieldOrder n.kw).foldl (stepFn env (pureRec v) root n (n :: scope) vis isMod) (e0 root n, st)).1 := by
          generalize (fieldOrder n.kw).foldl (stepFn env (pureRec v) root n (n :: scope) vis isMod) (e0 root n, st) = x at h
          obtain ⟨x1, x2⟩ := x
          dsimp only at h ⊢
          cases isMod with
          | true => simpa using h
          | false =>
            simp only [Bool.false_eq_true, if_false] at h
            split at h <;> exact h
        exact steps_back env v root n (n :: scope) vis hinc isMod st hc

/-! ### the value of a statement -/

/-- The grouping lookup as a function of the place and the name. -/
abbrev Lookup := Mod → List Stmt → String → Option GroupingRef

/-- One level of conversion over given values of the substatements. -/
def pcore (env : Env) (lk : Lookup) (v : PVal) : PVal :=
  fun root scope n => (core env (pureRec v) root scope n [] {} (lk root scope n.arg) false).1

/-- `toEntry` without conversion state and cycle check. -/
def pent (env : Env) (lk : Lookup) : Nat → PVal
  | 0 => fun root _ n => errorEntry root n "out-of-fuel"
  | f + 1 => pcore env lk (pent env lk f)

theorem not_clean_errorEntry (root : Mod) (n : Stmt) (cls : String) : ¬ Clean (errorEntry root n cls) :=
  fun h => errorEntry_errors root n cls (clean_own _ h)

theorem REl_id_refl (e : Entry) : REl id e e := fun _ => ren_id e

/-- `pcore` respects "equal where error free" (left to right). -/
theorem pcore_rel (env : Env) (lk : Lookup) (v w : PVal) (hvw : ∀ r s c, Clean (v r s c) → v r s c = w r s c)
    (root : Mod) (scope : List Stmt) (n : Stmt) (hnm : isModKw n = false)
    (h : Clean (pcore env lk v root scope n)) : pcore env lk v root scope n = pcore env lk w root scope n := by
  have hinc : "include" ∈ fieldOrder n.kw → n.all "include" = [] := by
    intro hf
    unfold isModKw at hnm
    unfold fieldOrder at hf
    split at hf
    all_goals first
      | (exfalso; revert hf; decide)
      | simp_all
  have hrel : ∀ r s c, REl id (v r s c) (w r s c) := fun r s c hc => by rw [ren_id]; exact hvw r s c hc
  have := core_rel (RE := REl id) (RS := fun _ _ => True) (closed2_REl id) env env (pureRec v) (pureRec w) root root n
    scope scope [] [] {} {} trivial (lk root scope n.arg) (lk root scope n.arg) false
    (REl_id_refl _) (fun _ => REl_id_refl _) (REl_id_refl _) (fun _ _ => rfl) hinc
    (fun c _ _ _ _ => ⟨hrel _ _ _, trivial⟩)
    (fun _ => by
      cases lk root scope n.arg with
      | none => trivial
      | some r => obtain ⟨g, gr, gs⟩ := r; exact fun _ _ _ => ⟨hrel _ _ _, trivial⟩)
    (fun h => absurd h (by decide)) (fun h => absurd h (by decide)) (fun _ _ _ _ _ _ _ => trivial)
  have h2 := this.1 h
  rw [ren_id] at h2
  exact h2

end Goyang.Lemmas.IncludePure
