import Goyang.Lemmas.Tree
import Goyang.Lemmas.OrderIndep
import Goyang.Spec.Include
/-
C13 (third sentence), part 1: the relational traversal of `toEntry`.

Two conversions of the same statement — in two registries, under two root modules, in two
conversion states — give related entries when every recursive call does.  The relation on entries
is a parameter (`Closed2`: what the traversal needs of it); the two instances used later are
"equal after renaming the module numbers, provided the left (the right) entry is error free".

Also here: the renaming `ren` commutes with the operations on entries, and an error-free result
of an operation has error-free arguments.
-/
namespace Goyang.Lemmas.IncludeRel
open Goyang.Model Goyang.Spec.Include Goyang.Lemmas.Tree Goyang.Spec.Tree

/-! ### `ren` and the operations on entries -/

theorem renL_eq_map (σ : Nat → Nat) (l : List Entry) : renL σ l = l.map (ren σ) := by
  induction l with
  | nil => rfl
  | cons e es ih => simp [renL, ih]

section Ren
variable (σ : Nat → Nat)

@[simp] theorem ren_mk (d : EData) (c i o : List Entry) :
    ren σ (.mk d c i o) = .mk (renD σ d) (c.map (ren σ)) (i.map (ren σ)) (o.map (ren σ)) := by
  simp [ren, renL_eq_map]

@[simp] theorem ren_d (e : Entry) : (ren σ e).d = renD σ e.d := by cases e; simp [Entry.d]
@[simp] theorem ren_dir (e : Entry) : (ren σ e).dir = e.dir.map (ren σ) := by cases e; simp [Entry.dir]
@[simp] theorem ren_inp (e : Entry) : (ren σ e).inp = e.inp.map (ren σ) := by cases e; simp [Entry.inp]
@[simp] theorem ren_out (e : Entry) : (ren σ e).out = e.out.map (ren σ) := by cases e; simp [Entry.out]
@[simp] theorem ren_name (e : Entry) : (ren σ e).name = e.name := by cases e; simp [Entry.name, Entry.d, renD]
@[simp] theorem renD_errors (d : EData) : (renD σ d).errors = d.errors := rfl
@[simp] theorem renD_node (d : EData) : (renD σ d).node = d.node := rfl
@[simp] theorem renD_kind (d : EData) : (renD σ d).kind = d.kind := rfl
@[simp] theorem renD_nodeMod (d : EData) : (renD σ d).nodeMod = σ d.nodeMod := rfl

/-- A data update that neither reads nor writes `nodeMod` and keeps the errors. -/
def GoodF (f : EData → EData) : Prop :=
  (∀ d, (f d).errors = d.errors) ∧ (∀ (σ : Nat → Nat) d, renD σ (f d) = f (renD σ d))

theorem ren_withD (e : Entry) (f : EData → EData) (hf : ∀ d, renD σ (f d) = f (renD σ d)) :
    ren σ (e.withD f) = (ren σ e).withD f := by
  cases e; simp [Entry.withD, hf]

@[simp] theorem ren_withDir (e : Entry) (c : List Entry) :
    ren σ (e.withDir c) = (ren σ e).withDir (c.map (ren σ)) := by
  cases e; simp [Entry.withDir]

theorem find?_name_ren (l : List Entry) (k : String) :
    (l.map (ren σ)).find? (·.name == k) = (l.find? (·.name == k)).map (ren σ) := by
  induction l with
  | nil => rfl
  | cons x t ih =>
    simp only [List.map_cons, List.find?_cons, ren_name]
    split <;> simp [ih]

@[simp] theorem ren_child? (e : Entry) (k : String) : (ren σ e).child? k = (e.child? k).map (ren σ) := by
  unfold Entry.child?
  rw [ren_dir, find?_name_ren]

@[simp] theorem ren_addErr (e : Entry) (x : Err) : ren σ (e.addErr x) = (ren σ e).addErr x := by
  unfold Entry.addErr; exact ren_withD σ e _ (fun _ => rfl)

@[simp] theorem ren_addErrs (e : Entry) (xs : List Err) : ren σ (e.addErrs xs) = (ren σ e).addErrs xs := by
  unfold Entry.addErrs; exact ren_withD σ e _ (fun _ => rfl)

mutual
theorem allErrors_ren : ∀ (e : Entry), (ren σ e).allErrors = e.allErrors
  | .mk d c i o => by
    simp only [ren, Entry.allErrors, renD_errors]
    rw [allErrorsL_renL c, allErrorsL_renL i, allErrorsL_renL o]
theorem allErrorsL_renL : ∀ (l : List Entry), Entry.allErrorsL (renL σ l) = Entry.allErrorsL l
  | [] => rfl
  | e :: es => by
    simp only [renL, Entry.allErrorsL]
    rw [allErrors_ren e, allErrorsL_renL es]
end

attribute [simp] allErrors_ren

@[simp] theorem allErrorsL_ren (l : List Entry) : Entry.allErrorsL (l.map (ren σ)) = Entry.allErrorsL l := by
  rw [← renL_eq_map]; exact allErrorsL_renL σ l

@[simp] theorem ren_importErrors (e c : Entry) : ren σ (e.importErrors c) = (ren σ e).importErrors (ren σ c) := by
  simp [Entry.importErrors]

@[simp] theorem ren_add (e : Entry) (k : String) (v : Entry) : ren σ (e.add k v) = (ren σ e).add k (ren σ v) := by
  unfold Entry.add
  rw [ren_child?]
  cases e.child? k <;> simp

theorem ren_stamp (ns : Option String) (v : Entry) :
    ren σ (OrderIndep.stamp ns v) = OrderIndep.stamp ns (ren σ v) := by
  cases ns with
  | none => rfl
  | some n => exact ren_withD σ v _ (fun _ => rfl)

theorem ren_step (ns : Option String) (x : Err) (e v : Entry) :
    ren σ (OrderIndep.step ns x e v) = OrderIndep.step ns x (ren σ e) (ren σ v) := by
  unfold OrderIndep.step
  rw [← ren_stamp, ren_name, ren_child?]
  cases e.child? (OrderIndep.stamp ns v).name <;> simp

@[simp] theorem ren_merge (e : Entry) (ns : Option String) (oe : Entry) :
    ren σ (e.merge ns oe) = (ren σ e).merge ns (ren σ oe) := by
  rw [OrderIndep.merge_eq, OrderIndep.merge_eq]
  simp only [ren_dir, List.foldl_map, ren_d, renD_node]
  rw [← ren_importErrors]
  generalize e.importErrors oe = acc
  induction oe.dir generalizing acc with
  | nil => rfl
  | cons v vs ih =>
    simp only [List.foldl_cons]
    rw [ih, ren_step]

end Ren

theorem ren_id (e : Entry) : ren id e = e := by
  induction e using entry_ind with
  | h d c i o hc hi ho =>
    rw [ren_mk]
    have hd : renD id d = d := rfl
    rw [hd]
    congr 1
    · conv => rhs; rw [← List.map_id c]
      exact List.map_congr_left hc
    · conv => rhs; rw [← List.map_id i]
      exact List.map_congr_left hi
    · conv => rhs; rw [← List.map_id o]
      exact List.map_congr_left ho


/-! ### error-free results have error-free arguments -/

/-- No node of the tree carries an error (`Entry.allErrors` finds nothing). -/
def Clean (e : Entry) : Prop := e.allErrors = []

theorem clean_iff_noErrors (e : Entry) : Clean e ↔ NoErrors e := (noErrors_iff e).symm

theorem clean_mk (d : EData) (c i o : List Entry) :
    Clean (.mk d c i o) ↔ (∀ x ∈ c, Clean x) ∧ (∀ x ∈ i, Clean x) ∧ (∀ x ∈ o, Clean x) ∧ d.errors = [] := by
  unfold Clean
  simp only [Entry.allErrors, List.append_eq_nil_iff, allErrorsL_eq_nil, and_assoc]

theorem clean_ren (σ : Nat → Nat) (e : Entry) : Clean (ren σ e) ↔ Clean e := by
  unfold Clean; rw [allErrors_ren]

theorem clean_own (e : Entry) (h : Clean e) : e.d.errors = [] := by
  cases e; exact ((clean_mk _ _ _ _).1 h).2.2.2

theorem clean_withD (e : Entry) (f : EData → EData) (hf : ∀ d, (f d).errors = d.errors) :
    Clean (e.withD f) ↔ Clean e := by
  cases e; simp only [Entry.withD, clean_mk, hf]

theorem clean_addErrs (e : Entry) (xs : List Err) : Clean (e.addErrs xs) ↔ Clean e ∧ xs = [] := by
  cases e
  simp only [Entry.addErrs, Entry.withD, clean_mk, List.append_eq_nil_iff]
  constructor
  · rintro ⟨a, b, c, d, e⟩; exact ⟨⟨a, b, c, d⟩, e⟩
  · rintro ⟨⟨a, b, c, d⟩, e⟩; exact ⟨a, b, c, d, e⟩

theorem not_clean_addErr (e : Entry) (x : Err) : ¬ Clean (e.addErr x) := by
  intro h
  cases e
  simp [Entry.addErr, Entry.withD, clean_mk] at h

theorem clean_withDir_append (e v : Entry) : Clean (e.withDir (e.dir ++ [v])) ↔ Clean e ∧ Clean v := by
  cases e
  simp only [Entry.withDir, Entry.dir, clean_mk, List.mem_append, List.mem_singleton]
  constructor
  · rintro ⟨a, b, c, d⟩
    exact ⟨⟨fun x hx => a x (Or.inl hx), b, c, d⟩, a v (Or.inr rfl)⟩
  · rintro ⟨⟨a, b, c, d⟩, hv⟩
    refine ⟨?_, b, c, d⟩
    rintro x (hx | rfl)
    · exact a x hx
    · exact hv

theorem clean_add (a : Entry) (k : String) (c : Entry) (h : Clean (a.add k c)) :
    Clean a ∧ Clean c ∧ a.child? k = none := by
  unfold Entry.add at h
  split at h
  · exact absurd h (not_clean_addErr _ _)
  · rename_i hk
    exact ⟨((clean_withDir_append a c).1 h).1, ((clean_withDir_append a c).1 h).2, hk⟩

theorem clean_importErrors (a c : Entry) : Clean (a.importErrors c) ↔ Clean a ∧ Clean c := by
  unfold Entry.importErrors
  rw [clean_addErrs]
  constructor
  · rintro ⟨ha, hc⟩
    refine ⟨ha, ?_⟩
    cases c
    simp only [List.append_eq_nil_iff, Entry.d, Entry.dir, Entry.inp, Entry.out, allErrorsL_eq_nil] at hc
    rw [clean_mk]
    exact ⟨hc.1.1.2, hc.1.2, hc.2, hc.1.1.1⟩
  · rintro ⟨ha, hc⟩
    refine ⟨ha, ?_⟩
    cases c
    rw [clean_mk] at hc
    simp only [List.append_eq_nil_iff, Entry.d, Entry.dir, Entry.inp, Entry.out, allErrorsL_eq_nil]
    exact ⟨⟨⟨hc.2.2.2, hc.1⟩, hc.2.1⟩, hc.2.2.1⟩

theorem clean_merge (a : Entry) (ns : Option String) (c : Entry) (h : Clean (a.merge ns c)) : Clean a ∧ Clean c := by
  rw [clean_iff_noErrors] at h
  exact ⟨(clean_iff_noErrors a).2 (noErrors_merge_left a ns c h), (clean_iff_noErrors c).2 (noErrors_of_merge a ns c h)⟩

/-- Go: `e.RPC.Input = ie` (the rpc entry gets its `RPC`). -/
def setInp (e ie : Entry) : Entry := match e with | .mk d c _ o => .mk { d with isRpc := true } c [ie] o
def setOut (e oe : Entry) : Entry := match e with | .mk d c i _ => .mk { d with isRpc := true } c i [oe]

theorem clean_setInp (a c : Entry) (h : Clean (setInp a c)) (hin : a.inp = []) : Clean a ∧ Clean c := by
  cases a
  simp only [Entry.inp] at hin
  subst hin
  simp only [setInp, clean_mk, List.mem_singleton, forall_eq] at h
  exact ⟨(clean_mk _ _ _ _).2 ⟨h.1, by simp, h.2.2.1, h.2.2.2⟩, h.2.1⟩

theorem clean_setOut (a c : Entry) (h : Clean (setOut a c)) (hout : a.out = []) : Clean a ∧ Clean c := by
  cases a
  simp only [Entry.out] at hout
  subst hout
  simp only [setOut, clean_mk, List.mem_singleton, forall_eq] at h
  exact ⟨(clean_mk _ _ _ _).2 ⟨h.1, h.2.1, by simp, h.2.2.2⟩, h.2.2.1⟩

theorem ren_setInp (σ : Nat → Nat) (a c : Entry) : ren σ (setInp a c) = setInp (ren σ a) (ren σ c) := by
  cases a; simp [setInp]; rfl

theorem ren_setOut (σ : Nat → Nat) (a c : Entry) : ren σ (setOut a c) = setOut (ren σ a) (ren σ c) := by
  cases a; simp [setOut]; rfl


theorem setInp_eq (e ie : Entry) :
    (match e with | .mk d c _ o => Entry.mk { d with isRpc := true } c [ie] o) = setInp e ie := by cases e; rfl
theorem setOut_eq (e oe : Entry) :
    (match e with | .mk d c i _ => Entry.mk { d with isRpc := true } c i [oe]) = setOut e oe := by cases e; rfl

/-! ### the relation on entries: what the traversal needs -/

/-- A relation between entries that every operation of `toEntry` preserves. -/
structure Closed2 (RE : Entry → Entry → Prop) : Prop where
  withD : ∀ (a b : Entry) (f : EData → EData), GoodF f → RE a b → RE (a.withD f) (b.withD f)
  addErrs : ∀ (a b : Entry) (xs : List Err), RE a b → RE (a.addErrs xs) (b.addErrs xs)
  add : ∀ (a b c d : Entry) (k : String), RE a b → RE c d → RE (a.add k c) (b.add k d)
  merge : ∀ (a b c d : Entry), RE a b → RE c d → RE (a.merge none c) (b.merge none d)
  importErrors : ∀ (a b c d : Entry), RE a b → RE c d → RE (a.importErrors c) (b.importErrors d)
  setInp : ∀ (a b c d : Entry), a.inp = [] → b.inp = [] → RE a b → RE c d → RE (setInp a c) (setInp b d)
  setOut : ∀ (a b c d : Entry), a.out = [] → b.out = [] → RE a b → RE c d → RE (setOut a c) (setOut b d)

theorem Closed2.addErr {RE : Entry → Entry → Prop} (h : Closed2 RE) (a b : Entry) (x : Err) (hab : RE a b) :
    RE (a.addErr x) (b.addErr x) := h.addErrs a b [x] hab

/-- Equal after renaming, provided the left entry is error free. -/
def REl (σ : Nat → Nat) (a b : Entry) : Prop := Clean a → ren σ a = b
/-- Equal after renaming, provided the right entry is error free. -/
def REr (σ : Nat → Nat) (a b : Entry) : Prop := Clean b → ren σ a = b
/-- Equal after renaming, provided one of the two is error free. -/
def REb (σ : Nat → Nat) (a b : Entry) : Prop := REl σ a b ∧ REr σ a b

theorem closed2_REl (σ : Nat → Nat) : Closed2 (REl σ) where
  withD a b f hf hab := by
    intro hc
    rw [ren_withD σ a f (hf.2 σ), hab ((clean_withD a f hf.1).1 hc)]
  addErrs a b xs hab := by
    intro hc
    rw [ren_addErrs, hab ((clean_addErrs a xs).1 hc).1]
  add a b c d k hab hcd := by
    intro hc
    obtain ⟨h1, h2, _⟩ := clean_add a k c hc
    rw [ren_add, hab h1, hcd h2]
  merge a b c d hab hcd := by
    intro hc
    obtain ⟨h1, h2⟩ := clean_merge a none c hc
    rw [ren_merge, hab h1, hcd h2]
  importErrors a b c d hab hcd := by
    intro hc
    obtain ⟨h1, h2⟩ := (clean_importErrors a c).1 hc
    rw [ren_importErrors, hab h1, hcd h2]
  setInp a b c d ha _ hab hcd := by
    intro hc
    obtain ⟨h1, h2⟩ := clean_setInp a c hc ha
    rw [ren_setInp, hab h1, hcd h2]
  setOut a b c d ha _ hab hcd := by
    intro hc
    obtain ⟨h1, h2⟩ := clean_setOut a c hc ha
    rw [ren_setOut, hab h1, hcd h2]

theorem closed2_REr (σ : Nat → Nat) : Closed2 (REr σ) where
  withD a b f hf hab := by
    intro hc
    rw [ren_withD σ a f (hf.2 σ), hab ((clean_withD b f hf.1).1 hc)]
  addErrs a b xs hab := by
    intro hc
    rw [ren_addErrs, hab ((clean_addErrs b xs).1 hc).1]
  add a b c d k hab hcd := by
    intro hc
    obtain ⟨h1, h2, _⟩ := clean_add b k d hc
    rw [ren_add, hab h1, hcd h2]
  merge a b c d hab hcd := by
    intro hc
    obtain ⟨h1, h2⟩ := clean_merge b none d hc
    rw [ren_merge, hab h1, hcd h2]
  importErrors a b c d hab hcd := by
    intro hc
    obtain ⟨h1, h2⟩ := (clean_importErrors b d).1 hc
    rw [ren_importErrors, hab h1, hcd h2]
  setInp a b c d _ hb hab hcd := by
    intro hc
    obtain ⟨h1, h2⟩ := clean_setInp b d hc hb
    rw [ren_setInp, hab h1, hcd h2]
  setOut a b c d _ hb hab hcd := by
    intro hc
    obtain ⟨h1, h2⟩ := clean_setOut b d hc hb
    rw [ren_setOut, hab h1, hcd h2]

theorem Closed2.and {R1 R2 : Entry → Entry → Prop} (h1 : Closed2 R1) (h2 : Closed2 R2) :
    Closed2 (fun a b => R1 a b ∧ R2 a b) where
  withD a b f hf hab := ⟨h1.withD a b f hf hab.1, h2.withD a b f hf hab.2⟩
  addErrs a b xs hab := ⟨h1.addErrs a b xs hab.1, h2.addErrs a b xs hab.2⟩
  add a b c d k hab hcd := ⟨h1.add a b c d k hab.1 hcd.1, h2.add a b c d k hab.2 hcd.2⟩
  merge a b c d hab hcd := ⟨h1.merge a b c d hab.1 hcd.1, h2.merge a b c d hab.2 hcd.2⟩
  importErrors a b c d hab hcd := ⟨h1.importErrors a b c d hab.1 hcd.1, h2.importErrors a b c d hab.2 hcd.2⟩
  setInp a b c d ha hb hab hcd := ⟨h1.setInp a b c d ha hb hab.1 hcd.1, h2.setInp a b c d ha hb hab.2 hcd.2⟩
  setOut a b c d ha hb hab hcd := ⟨h1.setOut a b c d ha hb hab.1 hcd.1, h2.setOut a b c d ha hb hab.2 hcd.2⟩

theorem closed2_REb (σ : Nat → Nat) : Closed2 (REb σ) := (closed2_REl σ).and (closed2_REr σ)

theorem REb_of_eq (σ : Nat → Nat) {a b : Entry} (h : ren σ a = b) : REb σ a b := ⟨fun _ => h, fun _ => h⟩

theorem REb_dirty (σ : Nat → Nat) {a b : Entry} (ha : ¬ Clean a) (hb : ¬ Clean b) : REb σ a b :=
  ⟨fun h => absurd h ha, fun h => absurd h hb⟩

/-! ### folds -/

theorem foldl_rel {α β₁ β₂ : Type} (R : β₁ → β₂ → Prop) (f₁ : β₁ → α → β₁) (f₂ : β₂ → α → β₂) (l : List α)
    (b₁ : β₁) (b₂ : β₂) (h0 : R b₁ b₂) (hstep : ∀ a₁ a₂, ∀ x ∈ l, R a₁ a₂ → R (f₁ a₁ x) (f₂ a₂ x)) :
    R (l.foldl f₁ b₁) (l.foldl f₂ b₂) := by
  induction l generalizing b₁ b₂ with
  | nil => exact h0
  | cons x xs ih =>
    simp only [List.foldl_cons]
    exact ih _ _ (hstep _ _ x (List.mem_cons_self ..) h0) (fun a₁ a₂ y hy => hstep a₁ a₂ y (List.mem_cons_of_mem _ hy))

theorem mem_all_subs {n c : Stmt} {k : String} (h : c ∈ n.all k) : c ∈ n.subs := (List.mem_filter.1 h).1

theorem mem_one_subs {n c : Stmt} {k : String} (h : n.one? k = some c) : c ∈ n.subs := List.mem_of_find?_eq_some h

/-- Pointwise related lists. -/
inductive RelL {α β : Type} (R : α → β → Prop) : List α → List β → Prop
  | nil : RelL R [] []
  | cons {a b l₁ l₂} : R a b → RelL R l₁ l₂ → RelL R (a :: l₁) (b :: l₂)

theorem RelL.append {α β : Type} {R : α → β → Prop} {l₁ l₂ : List α} {m₁ m₂ : List β}
    (h : RelL R l₁ m₁) (h' : RelL R l₂ m₂) : RelL R (l₁ ++ l₂) (m₁ ++ m₂) := by
  induction h with
  | nil => exact h'
  | cons hab _ ih => exact RelL.cons hab ih

theorem RelL.length {α β : Type} {R : α → β → Prop} {l : List α} {m : List β} (h : RelL R l m) : l.length = m.length := by
  induction h with
  | nil => rfl
  | cons _ _ ih => simp [ih]

/-- The relation between the accumulators of the two folds. -/
def AccRel (RE : Entry → Entry → Prop) (RS : TState → TState → Prop) (a₁ a₂ : Entry × TState) : Prop :=
  RE a₁.1 a₂.1 ∧ RS a₁.2 a₂.2

/-- The statement is a (sub)module statement. -/
def isModKw (n : Stmt) : Bool := n.kw == "module" || n.kw == "submodule"

theorem not_modKw_of_all {n c : Stmt} {kw : String} (hc : c ∈ n.all kw) (h1 : kw ≠ "module") (h2 : kw ≠ "submodule") :
    isModKw c = false := by
  have := mem_all_kw n kw c hc
  unfold isModKw
  rw [this]
  simp [h1, h2]

theorem not_modKw_of_one {n c : Stmt} {kw : String} (hc : n.one? kw = some c) (h1 : kw ≠ "module") (h2 : kw ≠ "submodule") :
    isModKw c = false := by
  have := one?_kw n kw c hc
  unfold isModKw
  rw [this]
  simp [h1, h2]

/-- Keywords whose substatements the field steps convert and add, merge or check. -/
def convKws : List String :=
  ["anydata", "anyxml", "case", "choice", "container", "leaf", "leaf-list", "list", "notification", "rpc", "action",
   "grouping", "uses", "deviation", "deviate"]

/-- `c` is converted by the field step `f` of statement `n`. -/
def Called (n : Stmt) (f : String) (c : Stmt) : Prop :=
  (f ∈ convKws ∧ c ∈ n.all f) ∨ ((f = "input" ∨ f = "output") ∧ n.one? f = some c) ∨
    (f = "augment" ∧ c ∈ n.all "augment")

theorem Called.kw {n c : Stmt} {f : String} (h : Called n f c) : c.kw = f := by
  rcases h with ⟨_, h⟩ | ⟨_, h⟩ | ⟨rfl, h⟩
  · exact mem_all_kw n f c h
  · exact one?_kw n f c h
  · exact mem_all_kw n _ c h

theorem Called.mem {n c : Stmt} {f : String} (h : Called n f c) : c ∈ n.subs := by
  rcases h with ⟨_, h⟩ | ⟨_, h⟩ | ⟨_, h⟩
  · exact (List.mem_filter.1 h).1
  · exact List.mem_of_find?_eq_some h
  · exact (List.mem_filter.1 h).1

section Step
variable {RE : Entry → Entry → Prop} (hC : Closed2 RE) {RS : TState → TState → Prop} {U : Stmt → Prop}
  (env₁ env₂ : Env) (r1 r2 : Rec) (root₁ root₂ : Mod) (n : Stmt) (sub₁ sub₂ : List Stmt) (vis₁ vis₂ : List NodeId)
  (hch : ∀ c, U c → ∀ s₁ s₂, RS s₁ s₂ → AccRel RE RS (r1 root₁ sub₁ c vis₁ s₁) (r2 root₂ sub₂ c vis₂ s₂))
include hC hch

theorem addFold_rel (kw : String) (hU : ∀ c ∈ n.all kw, U c) (acc₁ acc₂ : Entry × TState)
    (h : AccRel RE RS acc₁ acc₂) :
    AccRel RE RS
      ((n.all kw).foldl (fun (acc : Entry × TState) c =>
        (acc.1.add c.arg (r1 root₁ sub₁ c vis₁ acc.2).1, (r1 root₁ sub₁ c vis₁ acc.2).2)) acc₁)
      ((n.all kw).foldl (fun (acc : Entry × TState) c =>
        (acc.1.add c.arg (r2 root₂ sub₂ c vis₂ acc.2).1, (r2 root₂ sub₂ c vis₂ acc.2).2)) acc₂) := by
  refine foldl_rel (AccRel RE RS) _ _ _ _ _ h ?_
  rintro ⟨e₁, s₁⟩ ⟨e₂, s₂⟩ c hc ⟨he, hs⟩
  obtain ⟨q1, q2⟩ := hch c (hU c hc) s₁ s₂ hs
  exact ⟨hC.add _ _ _ _ _ he q1, q2⟩

theorem rpcFold_rel (kw : String) (hU : ∀ c ∈ n.all kw, U c) (acc₁ acc₂ : Entry × TState)
    (h : AccRel RE RS acc₁ acc₂) :
    AccRel RE RS
      ((n.all kw).foldl (fun (acc : Entry × TState) c =>
        (acc.1.add c.arg ((r1 root₁ sub₁ c vis₁ acc.2).1.withD fun d => { d with isRpc := true }),
          (r1 root₁ sub₁ c vis₁ acc.2).2)) acc₁)
      ((n.all kw).foldl (fun (acc : Entry × TState) c =>
        (acc.1.add c.arg ((r2 root₂ sub₂ c vis₂ acc.2).1.withD fun d => { d with isRpc := true }),
          (r2 root₂ sub₂ c vis₂ acc.2).2)) acc₂) := by
  refine foldl_rel (AccRel RE RS) _ _ _ _ _ h ?_
  rintro ⟨e₁, s₁⟩ ⟨e₂, s₂⟩ c hc ⟨he, hs⟩
  obtain ⟨q1, q2⟩ := hch c (hU c hc) s₁ s₂ hs
  exact ⟨hC.add _ _ _ _ _ he (hC.withD _ _ _ ⟨fun _ => rfl, fun _ _ => rfl⟩ q1), q2⟩

theorem importFold_rel (kw : String) (hU : ∀ c ∈ n.all kw, U c) (acc₁ acc₂ : Entry × TState)
    (h : AccRel RE RS acc₁ acc₂) :
    AccRel RE RS
      ((n.all kw).foldl (fun (acc : Entry × TState) g =>
        (acc.1.importErrors (r1 root₁ sub₁ g vis₁ acc.2).1, (r1 root₁ sub₁ g vis₁ acc.2).2)) acc₁)
      ((n.all kw).foldl (fun (acc : Entry × TState) g =>
        (acc.1.importErrors (r2 root₂ sub₂ g vis₂ acc.2).1, (r2 root₂ sub₂ g vis₂ acc.2).2)) acc₂) := by
  refine foldl_rel (AccRel RE RS) _ _ _ _ _ h ?_
  rintro ⟨e₁, s₁⟩ ⟨e₂, s₂⟩ c hc ⟨he, hs⟩
  obtain ⟨q1, q2⟩ := hch c (hU c hc) s₁ s₂ hs
  exact ⟨hC.importErrors _ _ _ _ he q1, q2⟩

theorem usesFold_rel (kw : String) (hU : ∀ c ∈ n.all kw, U c) (acc₁ acc₂ : Entry × TState)
    (h : AccRel RE RS acc₁ acc₂) :
    AccRel RE RS
      ((n.all kw).foldl (fun (acc : Entry × TState) u =>
        (acc.1.merge none (r1 root₁ sub₁ u vis₁ acc.2).1, (r1 root₁ sub₁ u vis₁ acc.2).2)) acc₁)
      ((n.all kw).foldl (fun (acc : Entry × TState) u =>
        (acc.1.merge none (r2 root₂ sub₂ u vis₂ acc.2).1, (r2 root₂ sub₂ u vis₂ acc.2).2)) acc₂) := by
  refine foldl_rel (AccRel RE RS) _ _ _ _ _ h ?_
  rintro ⟨e₁, s₁⟩ ⟨e₂, s₂⟩ c hc ⟨he, hs⟩
  obtain ⟨q1, q2⟩ := hch c (hU c hc) s₁ s₂ hs
  exact ⟨hC.merge _ _ _ _ he q1, q2⟩

theorem deviateFold_rel (kw : String) (hU : ∀ c ∈ n.all kw, U c) (acc₁ acc₂ : Entry × TState)
    (h : AccRel RE RS acc₁ acc₂) :
    AccRel RE RS
      ((n.all kw).foldl (fun (acc : Entry × TState) dv =>
        (if deviateKinds.contains dv.arg = true then acc.1.importErrors (r1 root₁ sub₁ dv vis₁ acc.2).1
          else (acc.1.importErrors (r1 root₁ sub₁ dv vis₁ acc.2).1).addErr (Err.at_ n "deviate-unknown-kind"),
         (r1 root₁ sub₁ dv vis₁ acc.2).2)) acc₁)
      ((n.all kw).foldl (fun (acc : Entry × TState) dv =>
        (if deviateKinds.contains dv.arg = true then acc.1.importErrors (r2 root₂ sub₂ dv vis₂ acc.2).1
          else (acc.1.importErrors (r2 root₂ sub₂ dv vis₂ acc.2).1).addErr (Err.at_ n "deviate-unknown-kind"),
         (r2 root₂ sub₂ dv vis₂ acc.2).2)) acc₂) := by
  refine foldl_rel (AccRel RE RS) _ _ _ _ _ h ?_
  rintro ⟨e₁, s₁⟩ ⟨e₂, s₂⟩ c hc ⟨he, hs⟩
  obtain ⟨q1, q2⟩ := hch c (hU c hc) s₁ s₂ hs
  refine ⟨?_, q2⟩
  dsimp only
  split
  · exact hC.importErrors _ _ _ _ he q1
  · exact hC.addErr _ _ _ (hC.importErrors _ _ _ _ he q1)

omit hC in
theorem augFold_rel (l : List Stmt) (hl : ∀ a ∈ l, U a) (s₁ s₂ : TState) (h : RS s₁ s₂) :
    RelL RE
      (l.foldl (fun (acc : List Entry × TState) a =>
        (acc.1 ++ [(r1 root₁ sub₁ a vis₁ acc.2).1], (r1 root₁ sub₁ a vis₁ acc.2).2)) ([], s₁)).1
      (l.foldl (fun (acc : List Entry × TState) a =>
        (acc.1 ++ [(r2 root₂ sub₂ a vis₂ acc.2).1], (r2 root₂ sub₂ a vis₂ acc.2).2)) ([], s₂)).1 ∧
    RS
      (l.foldl (fun (acc : List Entry × TState) a =>
        (acc.1 ++ [(r1 root₁ sub₁ a vis₁ acc.2).1], (r1 root₁ sub₁ a vis₁ acc.2).2)) ([], s₁)).2
      (l.foldl (fun (acc : List Entry × TState) a =>
        (acc.1 ++ [(r2 root₂ sub₂ a vis₂ acc.2).1], (r2 root₂ sub₂ a vis₂ acc.2).2)) ([], s₂)).2 := by
  refine foldl_rel (fun (a₁ a₂ : List Entry × TState) => RelL RE a₁.1 a₂.1 ∧ RS a₁.2 a₂.2) _ _ _ _ _
    ⟨RelL.nil, h⟩ ?_
  rintro ⟨l₁, t₁⟩ ⟨l₂, t₂⟩ a ha ⟨hl', hs⟩
  obtain ⟨q1, q2⟩ := hch a (hl a ha) t₁ t₂ hs
  refine ⟨?_, q2⟩
  exact hl'.append (RelL.cons q1 RelL.nil)


/-- One field step of the directory case, on both sides.  The include step is not covered (the
statement has no include substatement); the augment step (module statements only) needs the state
relation to survive the recording of related augment lists. -/
theorem step_rel (isMod : Bool)
    (haug : isMod = true → ∀ s₁ s₂ as₁ as₂, RS s₁ s₂ → RelL RE as₁ as₂ →
      RS { s₁ with augs := s₁.augs ++ [(root₁.seq, as₁)] } { s₂ with augs := s₂.augs ++ [(root₂.seq, as₂)] })
    (acc₁ acc₂ : Entry × TState) (f : String) (hU : ∀ c, Called n f c → U c)
    (htype : f = "type" → ∀ t, n.one? "type" = some t →
      env₁.tres.resolve env₁.reg root₁ sub₁ t = env₂.tres.resolve env₂.reg root₂ sub₂ t)
    (hinc : f = "include" → n.all "include" = [])
    (h : AccRel RE RS acc₁ acc₂)
    (hk : acc₁.1.d.kind = acc₂.1.d.kind)
    (hin : f = "input" → acc₁.1.inp = [] ∧ acc₂.1.inp = [])
    (hout : f = "output" → acc₁.1.out = [] ∧ acc₂.1.out = []) :
    AccRel RE RS (stepFn env₁ r1 root₁ n sub₁ vis₁ isMod acc₁ f) (stepFn env₂ r2 root₂ n sub₂ vis₂ isMod acc₂ f) := by
  obtain ⟨e₁, s₁⟩ := acc₁
  obtain ⟨e₂, s₂⟩ := acc₂
  obtain ⟨he, hs⟩ := h
  dsimp only at he hs hk hin hout
  have hUall : ∀ g, g ∈ convKws → (∀ c, Called n g c → U c) → ∀ c ∈ n.all g, U c :=
    fun g hg h c hc => h c (Or.inl ⟨hg, hc⟩)
  revert hinc htype hU
  have hgood : ∀ (g : EData → EData), GoodF g → RE (e₁.withD g) (e₂.withD g) := fun g hg => hC.withD _ _ g hg he
  unfold stepFn
  dsimp only
  split
  all_goals try dsimp only
  all_goals intro hU htype hinc
  all_goals first
    | exact ⟨he, hs⟩
    | exact ⟨hC.addErrs _ _ _ (hgood _ ⟨fun _ => rfl, fun _ _ => rfl⟩), hs⟩
    | (refine ⟨?_, hs⟩; split
       · exact hgood _ ⟨fun _ => rfl, fun _ _ => rfl⟩
       · exact he)
    | exact addFold_rel hC r1 r2 root₁ root₂ n sub₁ sub₂ vis₁ vis₂ hch _ (hUall _ (by decide) hU) (e₁, s₁) (e₂, s₂) ⟨he, hs⟩
    | exact rpcFold_rel hC r1 r2 root₁ root₂ n sub₁ sub₂ vis₁ vis₂ hch _ (hUall _ (by decide) hU) (e₁, s₁) (e₂, s₂) ⟨he, hs⟩
    | exact importFold_rel hC r1 r2 root₁ root₂ n sub₁ sub₂ vis₁ vis₂ hch _ (hUall _ (by decide) hU) (e₁, s₁) (e₂, s₂) ⟨he, hs⟩
    | exact usesFold_rel hC r1 r2 root₁ root₂ n sub₁ sub₂ vis₁ vis₂ hch _ (hUall _ (by decide) hU) (e₁, s₁) (e₂, s₂) ⟨he, hs⟩
    | exact deviateFold_rel hC r1 r2 root₁ root₂ n sub₁ sub₂ vis₁ vis₂ hch _ (hUall _ (by decide) hU) (e₁, s₁) (e₂, s₂) ⟨he, hs⟩
    | skip
  case h_18 =>
    split
    · exact ⟨he, hs⟩
    · rename_i i hi
      obtain ⟨q1, q2⟩ := hch i (hU i (Or.inr (Or.inl ⟨Or.inl rfl, hi⟩))) s₁ s₂ hs
      refine ⟨?_, q2⟩
      have := hC.setInp _ _ _ _ (hin rfl).1 (hin rfl).2 he
        (hC.withD _ _ (fun d => { d with name := "input", kind := .input }) ⟨fun _ => rfl, fun _ _ => rfl⟩ q1)
      cases e₁; cases e₂; exact this
  case h_19 =>
    split
    · exact ⟨he, hs⟩
    · rename_i o ho
      obtain ⟨q1, q2⟩ := hch o (hU o (Or.inr (Or.inl ⟨Or.inr rfl, ho⟩))) s₁ s₂ hs
      refine ⟨?_, q2⟩
      have := hC.setOut _ _ _ _ (hout rfl).1 (hout rfl).2 he
        (hC.withD _ _ (fun d => { d with name := "output", kind := .output }) ⟨fun _ => rfl, fun _ _ => rfl⟩ q1)
      cases e₁; cases e₂; exact this
  case h_20 =>
    rw [hinc rfl]
    exact ⟨he, hs⟩
  case h_23 =>
    split
    · exact ⟨he, hs⟩
    · rename_i t ht
      have ht' := htype rfl t ht
      generalize hA : env₂.tres.resolve env₂.reg root₂ sub₂ t = A at ht'
      change AccRel RE RS
        (if (env₁.tres.resolve env₁.reg root₁ sub₁ t).2.isEmpty = true then
          (e₁.withD fun d => { d with type := (env₁.tres.resolve env₁.reg root₁ sub₁ t).1 }, s₁)
        else (e₁.addErr (Err.bare "deviate-bad-type"), s₁))
        (if (env₂.tres.resolve env₂.reg root₂ sub₂ t).2.isEmpty = true then
          (e₂.withD fun d => { d with type := (env₂.tres.resolve env₂.reg root₂ sub₂ t).1 }, s₂)
        else (e₂.addErr (Err.bare "deviate-bad-type"), s₂))
      rw [ht', hA]
      split
      · exact ⟨hgood _ ⟨fun _ => rfl, fun _ _ => rfl⟩, hs⟩
      · exact ⟨hC.addErr _ _ _ he, hs⟩
  case h_24 =>
    rw [hk]
    split
    · refine ⟨?_, hs⟩
      split
      · exact hgood _ ⟨fun _ => rfl, fun _ _ => rfl⟩
      · exact he
    · exact ⟨he, hs⟩
  case h_26 =>
    rw [hk]
    split
    · exact ⟨he, hs⟩
    · refine ⟨?_, hs⟩
      have h1 : RE (e₁.withD fun d => { d with listAttr := some (d.listAttr.getD {}) })
          (e₂.withD fun d => { d with listAttr := some (d.listAttr.getD {}) }) :=
        hgood _ ⟨fun _ => rfl, fun _ _ => rfl⟩
      split
      · exact h1
      · exact hC.addErrs _ _ _ (hC.withD _ _ _ ⟨fun _ => rfl, fun _ _ => rfl⟩ h1)
  case h_27 =>
    rw [hk]
    split
    · exact ⟨he, hs⟩
    · refine ⟨?_, hs⟩
      have h1 : RE (e₁.withD fun d => { d with listAttr := some (d.listAttr.getD {}) })
          (e₂.withD fun d => { d with listAttr := some (d.listAttr.getD {}) }) :=
        hgood _ ⟨fun _ => rfl, fun _ _ => rfl⟩
      split
      · exact h1
      · exact hC.addErrs _ _ _ (hC.withD _ _ _ ⟨fun _ => rfl, fun _ _ => rfl⟩ h1)
  case h_28 =>
    split
    · exact ⟨he, hs⟩
    · rename_i hm
      have hm' : isMod = true := by simpa using hm
      obtain ⟨a1, a2⟩ := augFold_rel r1 r2 root₁ root₂ sub₁ sub₂ vis₁ vis₂ hch (n.all "augment")
        (fun a ha => hU a (Or.inr (Or.inr ⟨rfl, ha⟩))) s₁ s₂ hs
      exact ⟨he, haug hm' _ _ _ _ a2 a1⟩


/-- All field steps, from the initial entries. -/
theorem steps_rel
    (htype : "type" ∈ fieldOrder n.kw → ∀ t, n.one? "type" = some t →
      env₁.tres.resolve env₁.reg root₁ sub₁ t = env₂.tres.resolve env₂.reg root₂ sub₂ t)
    (hU : ∀ f ∈ fieldOrder n.kw, ∀ c, Called n f c → U c)
    (hinc : "include" ∈ fieldOrder n.kw → n.all "include" = []) (isMod : Bool)
    (haug : isMod = true → ∀ s₁ s₂ as₁ as₂, RS s₁ s₂ → RelL RE as₁ as₂ →
      RS { s₁ with augs := s₁.augs ++ [(root₁.seq, as₁)] } { s₂ with augs := s₂.augs ++ [(root₂.seq, as₂)] })
    (hbase : RE (e0 root₁ n) (e0 root₂ n)) (s₁ s₂ : TState) (hs : RS s₁ s₂) :
    AccRel RE RS ((fieldOrder n.kw).foldl (stepFn env₁ r1 root₁ n sub₁ vis₁ isMod) (e0 root₁ n, s₁))
      ((fieldOrder n.kw).foldl (stepFn env₂ r2 root₂ n sub₂ vis₂ isMod) (e0 root₂ n, s₂)) := by
  have k0 : (e0 root₁ n).d.kind = (e0 root₂ n).d.kind := by rw [(e0_data root₁ n).2.1, (e0_data root₂ n).2.1]
  have S := step_rel hC env₁ env₂ r1 r2 root₁ root₂ n sub₁ sub₂ vis₁ vis₂ hch isMod haug
  by_cases hio : "input" ∈ fieldOrder n.kw ∨ "output" ∈ fieldOrder n.kw
  · rw [fieldOrder_io _ hio] at hU ⊢
    simp only [List.foldl]
    have t1 := S (e0 root₁ n, s₁) (e0 root₂ n, s₂) "output" (hU _ (by simp)) (fun h => absurd h (by decide)) (fun h => absurd h (by decide)) ⟨hbase, hs⟩ k0
      (fun h => absurd h (by decide)) (fun _ => ⟨rfl, rfl⟩)
    have a1 := rootKeep_stepFn env₁ r1 root₁ n sub₁ vis₁ isMod (e0 root₁ n, s₁) "output"
    have b1 := rootKeep_stepFn env₂ r2 root₂ n sub₂ vis₂ isMod (e0 root₂ n, s₂) "output"
    have i1 := stepFn_output_inp env₁ r1 root₁ n sub₁ vis₁ isMod (e0 root₁ n, s₁)
    have j1 := stepFn_output_inp env₂ r2 root₂ n sub₂ vis₂ isMod (e0 root₂ n, s₂)
    generalize stepFn env₁ r1 root₁ n sub₁ vis₁ isMod (e0 root₁ n, s₁) "output" = x1 at t1 a1 i1 ⊢
    generalize stepFn env₂ r2 root₂ n sub₂ vis₂ isMod (e0 root₂ n, s₂) "output" = y1 at t1 b1 j1 ⊢
    have k1 : x1.1.d.kind = y1.1.d.kind := by rw [a1.2.1, b1.2.1]; exact k0
    have t2 := S x1 y1 "input" (hU _ (by simp)) (fun h => absurd h (by decide)) (fun h => absurd h (by decide)) t1 k1 (fun _ => ⟨i1, j1⟩) (fun h => absurd h (by decide))
    have a2 := rootKeep_stepFn env₁ r1 root₁ n sub₁ vis₁ isMod x1 "input"
    have b2 := rootKeep_stepFn env₂ r2 root₂ n sub₂ vis₂ isMod y1 "input"
    generalize stepFn env₁ r1 root₁ n sub₁ vis₁ isMod x1 "input" = x2 at t2 a2 ⊢
    generalize stepFn env₂ r2 root₂ n sub₂ vis₂ isMod y1 "input" = y2 at t2 b2 ⊢
    have k2 : x2.1.d.kind = y2.1.d.kind := by rw [a2.2.1, b2.2.1]; exact k1
    have t3 := S x2 y2 "grouping" (hU _ (by simp)) (fun h => absurd h (by decide)) (fun h => absurd h (by decide)) t2 k2 (fun h => absurd h (by decide)) (fun h => absurd h (by decide))
    have a3 := rootKeep_stepFn env₁ r1 root₁ n sub₁ vis₁ isMod x2 "grouping"
    have b3 := rootKeep_stepFn env₂ r2 root₂ n sub₂ vis₂ isMod y2 "grouping"
    generalize stepFn env₁ r1 root₁ n sub₁ vis₁ isMod x2 "grouping" = x3 at t3 a3 ⊢
    generalize stepFn env₂ r2 root₂ n sub₂ vis₂ isMod y2 "grouping" = y3 at t3 b3 ⊢
    have k3 : x3.1.d.kind = y3.1.d.kind := by rw [a3.2.1, b3.2.1]; exact k2
    exact S x3 y3 "description" (hU _ (by simp)) (fun h => absurd h (by decide)) (fun h => absurd h (by decide)) t3 k3 (fun h => absurd h (by decide)) (fun h => absurd h (by decide))
  · have hni : "input" ∉ fieldOrder n.kw := fun h => hio (Or.inl h)
    have hno : "output" ∉ fieldOrder n.kw := fun h => hio (Or.inr h)
    refine (foldl_rel (fun (a₁ a₂ : Entry × TState) => AccRel RE RS a₁ a₂ ∧ a₁.1.d.kind = a₂.1.d.kind) _ _ _ _ _
      ⟨⟨hbase, hs⟩, k0⟩ ?_).1
    rintro a₁ a₂ f hf ⟨ha, hk⟩
    refine ⟨S a₁ a₂ f (hU f hf) (fun h => htype (h ▸ hf)) (fun h => hinc (h ▸ hf)) ha hk (fun h => absurd (h ▸ hf) hni) (fun h => absurd (h ▸ hf) hno), ?_⟩
    rw [(rootKeep_stepFn env₁ r1 root₁ n sub₁ vis₁ isMod a₁ f).2.1,
      (rootKeep_stepFn env₂ r2 root₂ n sub₂ vis₂ isMod a₂ f).2.1]
    exact hk

end Step

/-! ### the body below the caches and the cycle check -/

/-- `toEntry` of a statement once the entry cache, the grouping cache and the cycle check have let
it pass: `vis` already contains the node when it is tracked, `lk` is the answer of the grouping
lookup for a `uses`. -/
def core (env : Env) (rec : Rec) (root : Mod) (scope : List Stmt) (n : Stmt) (vis : List NodeId) (st : TState)
    (lk : Option GroupingRef) (isMod : Bool) : Entry × TState :=
  if n.kw == "leaf" then (leafEntry env root scope n false, st)
  else if n.kw == "leaf-list" then
    ((leafEntry env root scope n true).withD fun d =>
      { d with listAttr := some (listAttrOf n).1, errors := d.errors ++ (listAttrOf n).2,
               default := (n.all "default").map (·.arg) }, st)
  else if n.kw == "uses" then
    match lk with
    | none => (errorEntry root n "unknown-group", st)
    | some (g, groot, gscope) => rec groot gscope g vis st
  else dirBody env rec root scope n vis st isMod

/-- The guards of `toEntryBody`, named. -/
def tracked (n : Stmt) : Bool := isModKw n || n.kw == "grouping"
def vis' (root : Mod) (n : Stmt) (vis : List NodeId) : List NodeId := if tracked n then nodeId root n :: vis else vis

theorem toEntryBody_core (env : Env) (fuel : Nat) (rec : Rec) (root : Mod) (scope : List Stmt) (n : Stmt)
    (vis : List NodeId) (st : TState)
    (h1 : (if isModKw n then st.cache.find? (·.1 == root.seq) else none) = none)
    (h2 : (if n.kw == "grouping" then st.gcache.find? (·.1 == nodeId root n) else none) = none)
    (h3 : (tracked n && vis.contains (nodeId root n)) = false) :
    toEntryBody env fuel rec root scope n vis st =
      core env rec root scope n (vis' root n vis) st
        (findGrouping env.reg env.linked (2 * fuel + 16) root scope n.arg []).1 (isModKw n) := by
  unfold toEntryBody
  unfold isModKw at h1
  unfold tracked isModKw at h3
  simp only [h1, h2, h3]
  unfold core vis' tracked isModKw
  simp only [Bool.false_eq_true, if_false]
  rfl

/-- The leaf-list case as two closed operations. -/
theorem leafList_eq (e : Entry) (la : ListAttr) (xs : List Err) (dl : List String) :
    (e.withD fun d => { d with listAttr := some la, errors := d.errors ++ xs, default := dl }) =
      (e.withD fun d => { d with listAttr := some la, default := dl }).addErrs xs := by
  cases e; rfl

section Core
variable {RE : Entry → Entry → Prop} (hC : Closed2 RE) {RS : TState → TState → Prop}
  (env₁ env₂ : Env) (r1 r2 : Rec) (root₁ root₂ : Mod) (n : Stmt) (scope₁ scope₂ : List Stmt) (vis₁ vis₂ : List NodeId)
include hC

/-- **Relational traversal, one level.**  Two conversions of the statement `n` (not a (sub)module
statement with include substatements) give related results when: the initial entries, the leaf
entries and the error entry are related; type resolution answers alike; the recursive calls on
the substatements that the field steps convert give related results from related states; for a
`uses`, the lookups answer alike and the recursive calls on the answers give related results.  The
relation `Q` between the results is a parameter: it has to hold of related entries and states, also
after the entry has been recorded in the grouping cache resp. the module cache. -/
theorem core_relQ (Q : Entry × TState → Entry × TState → Prop)
    (s₁ s₂ : TState) (hs : RS s₁ s₂) (lk₁ lk₂ : Option GroupingRef) (isMod : Bool)
    (hbase : RE (e0 root₁ n) (e0 root₂ n))
    (hleaf : n.kw = "leaf" ∨ n.kw = "leaf-list" →
      ∀ syn, RE (leafEntry env₁ root₁ scope₁ n syn) (leafEntry env₂ root₂ scope₂ n syn))
    (herr : n.kw = "uses" → RE (errorEntry root₁ n "unknown-group") (errorEntry root₂ n "unknown-group"))
    (htype : "type" ∈ fieldOrder n.kw → ∀ t, n.one? "type" = some t →
      env₁.tres.resolve env₁.reg root₁ (n :: scope₁) t = env₂.tres.resolve env₂.reg root₂ (n :: scope₂) t)
    (hinc : "include" ∈ fieldOrder n.kw → n.all "include" = [])
    (hch : ∀ c, (∃ f ∈ fieldOrder n.kw, Called n f c) → ∀ t₁ t₂, RS t₁ t₂ →
      AccRel RE RS (r1 root₁ (n :: scope₁) c vis₁ t₁) (r2 root₂ (n :: scope₂) c vis₂ t₂))
    (huses : n.kw = "uses" →
      match lk₁, lk₂ with
      | none, none => True
      | some (g₁, gr₁, gs₁), some (g₂, gr₂, gs₂) =>
        ∀ t₁ t₂, RS t₁ t₂ → AccRel RE RS (r1 gr₁ gs₁ g₁ vis₁ t₁) (r2 gr₂ gs₂ g₂ vis₂ t₂)
      | _, _ => False)
    (haug : isMod = true → ∀ t₁ t₂ as₁ as₂, RS t₁ t₂ → RelL RE as₁ as₂ →
      RS { t₁ with augs := t₁.augs ++ [(root₁.seq, as₁)] } { t₂ with augs := t₂.augs ++ [(root₂.seq, as₂)] })
    (hplain : ∀ a t₁ b t₂, RE a b → RS t₁ t₂ → Q (a, t₁) (b, t₂))
    (hcache : isMod = true → ∀ t₁ t₂ a b, RS t₁ t₂ → RE a b →
      Q (a, { t₁ with cache := t₁.cache ++ [(root₁.seq, a)] }) (b, { t₂ with cache := t₂.cache ++ [(root₂.seq, b)] }))
    (hgc : n.kw = "grouping" → ∀ t₁ t₂ a b, RS t₁ t₂ → RE a b →
      Q (a, { t₁ with gcache := t₁.gcache ++ [(nodeId root₁ n, a)] })
        (b, { t₂ with gcache := t₂.gcache ++ [(nodeId root₂ n, b)] })) :
    Q (core env₁ r1 root₁ scope₁ n vis₁ s₁ lk₁ isMod) (core env₂ r2 root₂ scope₂ n vis₂ s₂ lk₂ isMod) := by
  unfold core
  split
  · rename_i hl
    exact hplain _ _ _ _ (hleaf (Or.inl (by simpa using hl)) false) hs
  · split
    · rename_i hl
      refine hplain _ _ _ _ ?_ hs
      rw [leafList_eq, leafList_eq]
      exact hC.addErrs _ _ _ (hC.withD _ _ _ ⟨fun _ => rfl, fun _ _ => rfl⟩ (hleaf (Or.inr (by simpa using hl)) true))
    · split
      · rename_i hu
        have hu' : n.kw = "uses" := by simpa using hu
        have := huses hu'
        cases lk₁ with
        | none =>
          cases lk₂ with
          | none => exact hplain _ _ _ _ (herr hu') hs
          | some r => obtain ⟨g, gr, gs⟩ := r; exact absurd this id
        | some r =>
          obtain ⟨g₁, gr₁, gs₁⟩ := r
          cases lk₂ with
          | none => exact absurd this id
          | some r' =>
            obtain ⟨g₂, gr₂, gs₂⟩ := r'
            have h2 := this s₁ s₂ hs
            exact hplain _ _ _ _ h2.1 h2.2
      · have hst := steps_rel hC env₁ env₂ r1 r2 root₁ root₂ n (n :: scope₁) (n :: scope₂) vis₁ vis₂ hch htype
          (fun f hf c hc => ⟨f, hf, hc⟩) hinc
          isMod haug hbase s₁ s₂ hs
        unfold dirBody
        dsimp only
        generalize (fieldOrder n.kw).foldl (stepFn env₁ r1 root₁ n (n :: scope₁) vis₁ isMod) (e0 root₁ n, s₁) = x at hst ⊢
        generalize (fieldOrder n.kw).foldl (stepFn env₂ r2 root₂ n (n :: scope₂) vis₂ isMod) (e0 root₂ n, s₂) = y at hst ⊢
        obtain ⟨x1, x2⟩ := x
        obtain ⟨y1, y2⟩ := y
        obtain ⟨he, hs'⟩ := hst
        dsimp only at he hs' ⊢
        cases isMod with
        | true =>
          simp only [if_true]
          exact hcache rfl _ _ _ _ hs' he
        | false =>
          simp only [Bool.false_eq_true, if_false]
          split
          · rename_i hg
            have hg' : n.kw = "grouping" := by simpa using hg
            exact hgc hg' _ _ _ _ hs' he
          · exact hplain _ _ _ _ he hs'

/-- The same with the relation "related entries, related states" between the results. -/
theorem core_rel (s₁ s₂ : TState) (hs : RS s₁ s₂) (lk₁ lk₂ : Option GroupingRef) (isMod : Bool)
    (hbase : RE (e0 root₁ n) (e0 root₂ n))
    (hleaf : n.kw = "leaf" ∨ n.kw = "leaf-list" →
      ∀ syn, RE (leafEntry env₁ root₁ scope₁ n syn) (leafEntry env₂ root₂ scope₂ n syn))
    (herr : n.kw = "uses" → RE (errorEntry root₁ n "unknown-group") (errorEntry root₂ n "unknown-group"))
    (htype : "type" ∈ fieldOrder n.kw → ∀ t, n.one? "type" = some t →
      env₁.tres.resolve env₁.reg root₁ (n :: scope₁) t = env₂.tres.resolve env₂.reg root₂ (n :: scope₂) t)
    (hinc : "include" ∈ fieldOrder n.kw → n.all "include" = [])
    (hch : ∀ c, (∃ f ∈ fieldOrder n.kw, Called n f c) → ∀ t₁ t₂, RS t₁ t₂ →
      AccRel RE RS (r1 root₁ (n :: scope₁) c vis₁ t₁) (r2 root₂ (n :: scope₂) c vis₂ t₂))
    (huses : n.kw = "uses" →
      match lk₁, lk₂ with
      | none, none => True
      | some (g₁, gr₁, gs₁), some (g₂, gr₂, gs₂) =>
        ∀ t₁ t₂, RS t₁ t₂ → AccRel RE RS (r1 gr₁ gs₁ g₁ vis₁ t₁) (r2 gr₂ gs₂ g₂ vis₂ t₂)
      | _, _ => False)
    (haug : isMod = true → ∀ t₁ t₂ as₁ as₂, RS t₁ t₂ → RelL RE as₁ as₂ →
      RS { t₁ with augs := t₁.augs ++ [(root₁.seq, as₁)] } { t₂ with augs := t₂.augs ++ [(root₂.seq, as₂)] })
    (hcache : isMod = true → ∀ t₁ t₂ a b, RS t₁ t₂ → RE a b →
      RS { t₁ with cache := t₁.cache ++ [(root₁.seq, a)] } { t₂ with cache := t₂.cache ++ [(root₂.seq, b)] })
    (hgc : n.kw = "grouping" → ∀ t₁ t₂ a b, RS t₁ t₂ → RE a b →
      RS { t₁ with gcache := t₁.gcache ++ [(nodeId root₁ n, a)] } { t₂ with gcache := t₂.gcache ++ [(nodeId root₂ n, b)] }) :
    AccRel RE RS (core env₁ r1 root₁ scope₁ n vis₁ s₁ lk₁ isMod) (core env₂ r2 root₂ scope₂ n vis₂ s₂ lk₂ isMod) :=
  core_relQ hC env₁ env₂ r1 r2 root₁ root₂ n scope₁ scope₂ vis₁ vis₂ (AccRel RE RS) s₁ s₂ hs lk₁ lk₂ isMod hbase hleaf herr
    htype hinc hch huses haug (fun _ _ _ _ h1 h2 => ⟨h1, h2⟩)
    (fun hm t₁ t₂ a b h1 h2 => ⟨h2, hcache hm t₁ t₂ a b h1 h2⟩)
    (fun hg t₁ t₂ a b h1 h2 => ⟨h2, hgc hg t₁ t₂ a b h1 h2⟩)

end Core

end Goyang.Lemmas.IncludeRel
