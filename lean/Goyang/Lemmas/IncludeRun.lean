import Goyang.Lemmas.IncludePure
import Goyang.Lemmas.Fuel
/-
C13 (third sentence), part 3: a conversion computes the value.

`run_val`: in a coherent conversion state (every cached grouping entry is, up to the renaming of
module numbers and provided it or the value is error free, the value of its grouping), with enough
fuel, and with no grouping in progress that the statement's value depends on, `toEntry` of a
statement in one registry yields the value of the corresponding statement in the other registry —
again up to renaming and provided the entry or the value is error free — and leaves a coherent state.

The two registries, the correspondence of places and what is needed of them are bundled in `World`.
It is instantiated twice: unsplit against itself (what the unsplit conversion computes) and split
against unsplit (what the split conversion computes).
-/
namespace Goyang.Lemmas.IncludeRun
open Goyang.Model Goyang.Spec.Include Goyang.Lemmas.Tree Goyang.Spec.Tree Goyang.Lemmas.IncludeRel
open Goyang.Lemmas.IncludePure

/-! ### chains -/

theorem chain_cons {top c p : Stmt} {rest : List Stmt} (hc : c ∈ p.subs) (h : Chain top (p :: rest)) :
    Chain top (c :: p :: rest) := ⟨hc, h⟩

theorem chain_suffix {top : Stmt} : ∀ (pre l : List Stmt), l ≠ [] → Chain top (pre ++ l) → Chain top l
  | [], _, _, h => h
  | [x], l, hl, h => by
    cases l with
    | nil => exact absurd rfl hl
    | cons y ys => exact h.2
  | x :: y :: pre, l, hl, h => chain_suffix (y :: pre) l hl h.2

theorem chain_sub {top : Stmt} : ∀ (l : List Stmt), Chain top l → ∀ s ∈ l, Fuel.Sub s top
  | [], h, _, _ => absurd h id
  | [x], h, s, hs => by
    have : x = top := h
    simp only [List.mem_singleton] at hs
    rw [hs, this]; exact .refl _
  | c :: p :: rest, h, s, hs => by
    have ih := chain_sub (p :: rest) h.2
    rcases List.mem_cons.1 hs with rfl | hs
    · exact Fuel.Sub.child h.1 (ih p (List.mem_cons_self ..))
    · exact ih s hs

/-- A well-formed place of a registry: a loaded (sub)module and a statement of it with its ancestors. -/
def WF (reg : Registry) (root : Mod) (scope : List Stmt) (n : Stmt) : Prop :=
  root ∈ reg.mods ∧ Chain root.stmt (n :: scope)

theorem WF.inv {env : Env} {root : Mod} {scope : List Stmt} {n : Stmt} (h : WF env.reg root scope n) :
    Fuel.Inv env root scope n :=
  ⟨h.1, chain_sub _ h.2 n (List.mem_cons_self ..), fun s hs => chain_sub _ h.2 s (List.mem_cons_of_mem _ hs)⟩

theorem WF.child {reg : Registry} {root : Mod} {scope : List Stmt} {n c : Stmt} (h : WF reg root scope n) (hc : c ∈ n.subs) :
    WF reg root (n :: scope) c := ⟨h.1, hc, h.2⟩

/-- What the grouping lookup answers is a well-formed place again. -/
theorem WF.lookup {reg : Registry} {linked : List Nat} {fuel : Nat} {root : Mod} {scope : List Stmt} {u : Stmt}
    {g : Stmt} {gr : Mod} {gs : List Stmt} (h : WF reg root scope u)
    (hf : (findGrouping reg linked fuel root scope u.arg []).1 = some (g, gr, gs)) :
    WF reg gr gs g ∧ g.kw = "grouping" := by
  obtain ⟨hkw, ⟨n0, up, hgs, hgm⟩, hloc⟩ := Fuel.findGrouping_sound hf
  refine ⟨?_, hkw⟩
  rcases hloc with ⟨hroot, pre, hpre⟩ | ⟨hmem, hgs'⟩
  · subst hroot
    refine ⟨h.1, ?_⟩
    rw [hgs]
    refine ⟨hgm, ?_⟩
    have h2 : Chain gr.stmt (([u] ++ pre) ++ (n0 :: up)) := by
      have := h.2
      rw [hpre, hgs] at this
      simpa using this
    exact chain_suffix _ _ (by simp) h2
  · refine ⟨hmem, ?_⟩
    rw [hgs'] at hgs ⊢
    cases hgs
    exact ⟨hgm, rfl⟩

/-! ### entries that depend on the root only through its number -/

theorem ren_e0 (σ : Nat → Nat) (r₁ r₂ : Mod) (n : Stmt) (h : σ r₁.seq = r₂.seq) : ren σ (e0 r₁ n) = e0 r₂ n := by
  unfold e0 baseData
  split
  · simp [renD, h]
  · split <;> simp [renD, h]

theorem ren_errorEntry (σ : Nat → Nat) (r₁ r₂ : Mod) (n : Stmt) (cls : String) (h : σ r₁.seq = r₂.seq) :
    ren σ (errorEntry r₁ n cls) = errorEntry r₂ n cls := by
  simp [errorEntry, renD, h]

theorem ren_leafEntry (σ : Nat → Nat) (env₁ env₂ : Env) (r₁ r₂ : Mod) (s₁ s₂ : List Stmt) (n : Stmt) (syn : Bool)
    (h : σ r₁.seq = r₂.seq)
    (ht : ∀ t, env₁.tres.resolve env₁.reg r₁ (n :: s₁) t = env₂.tres.resolve env₂.reg r₂ (n :: s₂) t) :
    ren σ (leafEntry env₁ r₁ s₁ n syn) = leafEntry env₂ r₂ s₂ n syn := by
  unfold leafEntry
  cases hty : n.one? "type" with
  | none => simp [renD, h]
  | some t => simp [renD, h, ht t]


/-! ### the setting -/

/-- Two registries (with their environments), the renaming of module numbers from the first to the
second, the correspondence of places, the grouping lookup of the second, and the fuel that every
call of the first has to spare. -/
structure World where
  env₁ : Env
  env₂ : Env
  lk₂ : Lookup
  σ : Nat → Nat
  CR : Mod → List Stmt → Mod → List Stmt → Prop
  slack : Nat

structure World.OK (W : World) : Prop where
  cr_seq : ∀ {r₁ s₁ r₂ s₂}, W.CR r₁ s₁ r₂ s₂ → W.σ r₁.seq = r₂.seq
  cr_child : ∀ {r₁ s₁ r₂ s₂} (n : Stmt), W.CR r₁ s₁ r₂ s₂ → W.CR r₁ (n :: s₁) r₂ (n :: s₂)
  cr_fun : ∀ {r₁ s₁ r₂ s₂ r₂' s₂'}, W.CR r₁ s₁ r₂ s₂ → W.CR r₁ s₁ r₂' s₂' → r₂ = r₂' ∧ s₂ = s₂'
  cr_types : ∀ {r₁ s₁ r₂ s₂}, W.CR r₁ s₁ r₂ s₂ → ∀ t,
    W.env₁.tres.resolve W.env₁.reg r₁ s₁ t = W.env₂.tres.resolve W.env₂.reg r₂ s₂ t
  lookup : ∀ {r₁ s₁ r₂ s₂} (u : Stmt) (f : Nat), W.CR r₁ s₁ r₂ s₂ → WF W.env₁.reg r₁ s₁ u → u.kw = "uses" →
    W.slack ≤ f →
    match (findGrouping W.env₁.reg W.env₁.linked (2 * f + 16) r₁ s₁ u.arg []).1, W.lk₂ r₂ s₂ u.arg with
    | none, none => True
    | some (g₁, gr₁, gs₁), some (g₂, gr₂, gs₂) => g₁ = g₂ ∧ W.CR gr₁ gs₁ gr₂ gs₂
    | _, _ => False
  lk_kw : ∀ r s a g gr gs, W.lk₂ r s a = some (g, gr, gs) → isModKw g = false
  pos : PosWF W.env₁.reg

/-- A place: root, ancestors, statement. -/
abbrev Place := Mod × List Stmt × Stmt

section Run
variable (W : World)

/-- The value of a statement of the second registry. -/
noncomputable def World.val : PVal := IncludePure.val W.env₂ W.lk₂
def World.pent : Nat → PVal := IncludePure.pent W.env₂ W.lk₂

/-- `a` gets its error-free value with less fuel than `b` does: `b`'s value depends on `a`'s. -/
def Lt (a b : Place) : Prop :=
  ∀ h, Clean (W.pent h b.1 b.2.1 b.2.2) → ∃ h', h' < h ∧ Clean (W.pent h' a.1 a.2.1 a.2.2)

theorem Lt.trans {a b c : Place} (h1 : Lt W a b) (h2 : Lt W b c) : Lt W a c := by
  intro h hc
  obtain ⟨h', hlt, hb⟩ := h2 h hc
  obtain ⟨h'', hlt', ha⟩ := h1 h' hb
  exact ⟨h'', Nat.lt_trans hlt' hlt, ha⟩

theorem Lt.irrefl {a : Place} (h1 : Lt W a a) : ∀ h, ¬ Clean (W.pent h a.1 a.2.1 a.2.2) := by
  intro h
  induction h using Nat.strongRecOn with
  | _ h ih =>
    intro hc
    obtain ⟨h', hlt, ha⟩ := h1 h hc
    exact ih h' hlt ha

variable (hW : W.OK)
include hW

omit hW in
theorem val_clean_pent {r : Mod} {s : List Stmt} {n : Stmt} (h : Clean (W.val r s n)) : ∃ f, Clean (W.pent f r s n) :=
  ⟨_, h⟩

omit hW in
theorem pent_succ (f : Nat) (r : Mod) (s : List Stmt) (n : Stmt) :
    W.pent (f + 1) r s n = (core W.env₂ (pureRec (W.pent f)) r s n [] {} (W.lk₂ r s n.arg) false).1 := rfl

omit hW in
theorem not_mod_hinc {n : Stmt} (hn : isModKw n = false) : "include" ∈ fieldOrder n.kw → n.all "include" = [] := by
  intro hf
  unfold isModKw at hn
  unfold fieldOrder at hf
  split at hf
  all_goals first
    | (exfalso; revert hf; decide)
    | simp_all

omit hW in
theorem not_mod_aug {n : Stmt} (hn : isModKw n = false) : "augment" ∉ fieldOrder n.kw := by
  intro hf
  unfold isModKw at hn
  unfold fieldOrder at hf
  split at hf
  all_goals first
    | (exfalso; revert hf; decide)
    | simp_all

omit hW in
/-- The value of a statement depends on the values of the substatements its conversion converts. -/
theorem lt_child {r : Mod} {s : List Stmt} {n c : Stmt} (hn : isModKw n = false)
    (hc : ∃ f ∈ fieldOrder n.kw, Called n f c) : Lt W (r, n :: s, c) (r, s, n) := by
  intro h hcl
  cases h with
  | zero => exact absurd hcl (not_clean_errorEntry _ _ _)
  | succ h0 =>
    refine ⟨h0, Nat.lt_succ_self _, ?_⟩
    rw [pent_succ] at hcl
    obtain ⟨f, hf, hcf⟩ := hc
    have hfa : f ≠ "augment" := fun e => not_mod_aug hn (e ▸ hf)
    have hb := core_back W.env₂ (W.pent h0) r s n [] {} (W.lk₂ r s n.arg) false (not_mod_hinc hn) hcl
    have hk := hcf.kw
    -- `f` is the keyword of a converted substatement, so `n` is none of leaf, leaf-list, uses
    have hfo : fieldOrder n.kw ≠ [] := fun e => by rw [e] at hf; cases hf
    have h1 : n.kw ≠ "leaf" := fun e => hfo (by rw [e]; rfl)
    have h2 : n.kw ≠ "leaf-list" := fun e => hfo (by rw [e]; rfl)
    have h3 : n.kw ≠ "uses" := fun e => hfo (by rw [e]; rfl)
    exact hb.2 h1 h2 h3 f hf c (Called.calledE hcf hfa)

omit hW in
/-- … and the value of a `uses` on the value of its grouping. -/
theorem lt_uses {r : Mod} {s : List Stmt} {u g : Stmt} {gr : Mod} {gs : List Stmt} (hu : u.kw = "uses")
    (hl : W.lk₂ r s u.arg = some (g, gr, gs)) : Lt W (gr, gs, g) (r, s, u) := by
  intro h hcl
  cases h with
  | zero => exact absurd hcl (not_clean_errorEntry _ _ _)
  | succ h0 =>
    refine ⟨h0, Nat.lt_succ_self _, ?_⟩
    rw [pent_succ] at hcl
    have hn : isModKw u = false := by unfold isModKw; rw [hu]; decide
    have hb := core_back W.env₂ (W.pent h0) r s u [] {} (W.lk₂ r s u.arg) false (not_mod_hinc hn) hcl
    obtain ⟨g', gr', gs', hl', hc'⟩ := hb.1 hu
    rw [hl] at hl'
    cases hl'
    exact hc'

/-- No grouping in progress is one that the value of the place depends on. -/
def Harmless (vis : List NodeId) (p : Place) : Prop :=
  ∀ r₁ s₁ g, WF W.env₁.reg r₁ s₁ g → g.kw = "grouping" → vis.contains (nodeId r₁ g) = true →
    ∀ r₂ s₂, W.CR r₁ s₁ r₂ s₂ → Lt W p (r₂, s₂, g)

/-- Every cached grouping entry is the value of its grouping (up to renaming, where error free). -/
def Coh (G : List (NodeId × Entry)) : Prop :=
  ∀ p ∈ G, ∀ r₁ s₁ g, WF W.env₁.reg r₁ s₁ g → g.kw = "grouping" → nodeId r₁ g = p.1 →
    ∀ r₂ s₂, W.CR r₁ s₁ r₂ s₂ → REb W.σ p.2 (W.val r₂ s₂ g)

/-- What a conversion of a statement other than a (sub)module statement leaves of the state. -/
def Frame (st st' : TState) : Prop := st'.cache = st.cache ∧ st'.merged = st.merged ∧ st'.augs = st.augs

omit hW in
theorem Frame.refl (st : TState) : Frame st st := ⟨rfl, rfl, rfl⟩
omit hW in
theorem Frame.trans {a b c : TState} (h1 : Frame a b) (h2 : Frame b c) : Frame a c :=
  ⟨h2.1.trans h1.1, h2.2.1.trans h1.2.1, h2.2.2.trans h1.2.2⟩


omit hW in
theorem vis'_eq (r : Mod) (n : Stmt) (v : List NodeId) : vis' r n v = Fuel.visiting' r n v := rfl

omit hW in
theorem tracked_eq (n : Stmt) : tracked n = Fuel.isTracked n := rfl

omit hW in
theorem isTrackedStmt_grouping {g : Stmt} (h : g.kw = "grouping") : isTrackedStmt g = true := by
  unfold isTrackedStmt; rw [h]; decide

omit hW in
theorem tracked_iff {n : Stmt} (hn : isModKw n = false) : tracked n = true ↔ n.kw = "grouping" := by
  unfold tracked; rw [hn]; simp

/-- From `REb a b` with `b` one level of conversion over values to `REb a (value)`. -/
theorem REb_val {a : Entry} {r : Mod} {s : List Stmt} {n : Stmt} (hn : isModKw n = false)
    (h : REb W.σ a (pcore W.env₂ W.lk₂ W.val r s n)) : REb W.σ a (W.val r s n) := by
  constructor
  · intro hc
    have h1 := h.1 hc
    have hb : Clean (pcore W.env₂ W.lk₂ W.val r s n) := by rw [← h1]; exact (clean_ren _ _).2 hc
    have := val_fix W.env₂ W.lk₂ hW.lk_kw r s n hn (Or.inr hb)
    show ren W.σ a = IncludePure.val W.env₂ W.lk₂ r s n
    rw [this]; exact h1
  · intro hc
    have := val_fix W.env₂ W.lk₂ hW.lk_kw r s n hn (Or.inl hc)
    have hb : Clean (pcore W.env₂ W.lk₂ W.val r s n) := by
      have hc' : Clean (IncludePure.val W.env₂ W.lk₂ r s n) := hc
      rw [this] at hc'; exact hc'
    show ren W.σ a = IncludePure.val W.env₂ W.lk₂ r s n
    rw [this]; exact h.2 hb

/-- **A conversion computes the value.** -/
theorem run_val : ∀ (f : Nat) (r₁ : Mod) (s₁ : List Stmt) (n : Stmt) (vis : List NodeId) (st : TState)
    (r₂ : Mod) (s₂ : List Stmt),
    W.CR r₁ s₁ r₂ s₂ → WF W.env₁.reg r₁ s₁ n → isModKw n = false →
    Fuel.need W.env₁.reg r₁ n vis + W.slack ≤ f → Coh W st.gcache → Harmless W vis (r₂, s₂, n) →
    REb W.σ (toEntry W.env₁ f r₁ s₁ n vis st).1 (W.val r₂ s₂ n) ∧
    Coh W (toEntry W.env₁ f r₁ s₁ n vis st).2.gcache ∧ Frame st (toEntry W.env₁ f r₁ s₁ n vis st).2 := by
  intro f
  induction f with
  | zero =>
    intro r₁ s₁ n vis st r₂ s₂ _ hwf _ hneed _ _
    have := Fuel.need_pos (env := W.env₁) vis hwf.inv
    omega
  | succ f ih =>
    intro r₁ s₁ n vis st r₂ s₂ hcr hwf hn hneed hcoh hharm
    have hseq := hW.cr_seq hcr
    have hpos := Fuel.need_pos (env := W.env₁) vis hwf.inv
    have hslack : W.slack ≤ f := by omega
    rw [Tree.toEntry_succ]
    have h1 : (if isModKw n then st.cache.find? (·.1 == r₁.seq) else none) = none := by rw [hn]; rfl
    -- the cycle error contradicts an error-free value
    have hcyc : n.kw = "grouping" → vis.contains (nodeId r₁ n) = true → ¬ Clean (W.val r₂ s₂ n) := by
      intro hg hv hc
      have hlt := hharm r₁ s₁ n hwf hg hv r₂ s₂ hcr
      obtain ⟨h, hh⟩ := val_clean_pent W hc
      exact Lt.irrefl W hlt h hh
    -- the body below the guards
    have hcore : (if n.kw == "grouping" then st.gcache.find? (·.1 == nodeId r₁ n) else none) = none →
        (tracked n && vis.contains (nodeId r₁ n)) = false →
        REb W.σ (toEntryBody W.env₁ f (toEntry W.env₁ f) r₁ s₁ n vis st).1 (W.val r₂ s₂ n) ∧
        Coh W (toEntryBody W.env₁ f (toEntry W.env₁ f) r₁ s₁ n vis st).2.gcache ∧
        Frame st (toEntryBody W.env₁ f (toEntry W.env₁ f) r₁ s₁ n vis st).2 := by
      intro h2 h3
      rw [toEntryBody_core W.env₁ f _ r₁ s₁ n vis st h1 h2 h3, hn]
      have hc3 : ¬ (Fuel.isTracked n && vis.contains (nodeId r₁ n)) = true := by
        rw [← tracked_eq, h3]; exact Bool.false_ne_true
      have hneed' : Fuel.need W.env₁.reg r₁ n vis ≤ (f - W.slack) + 1 := by omega
      -- the state relation and the result relation
      let RS : TState → TState → Prop := fun t₁ _ => Coh W t₁.gcache ∧ Frame st t₁
      let Q : Entry × TState → Entry × TState → Prop := fun x y =>
        REb W.σ x.1 y.1 ∧ Frame st x.2 ∧
          (Coh W x.2.gcache ∨ (n.kw = "grouping" ∧ ∃ G, x.2.gcache = G ++ [(nodeId r₁ n, x.1)] ∧ Coh W G))
      -- harmlessness for what the body calls
      have hharm' : ∀ (p : Place), Lt W p (r₂, s₂, n) → Harmless W (vis' r₁ n vis) p := by
        intro p hp r₁' s₁' g hwf' hgk hmem r₂' s₂' hcr'
        unfold vis' at hmem
        by_cases ht : tracked n = true
        · rw [if_pos ht] at hmem
          simp only [List.contains_cons, Bool.or_eq_true, beq_iff_eq] at hmem
          rcases hmem with hkey | hmem
          · have hg : n.kw = "grouping" := (tracked_iff hn).1 ht
            obtain ⟨e1, e2, e3⟩ := hW.pos r₁' hwf'.1 r₁ hwf.1 g n s₁' s₁ hwf'.2 hwf.2 (isTrackedStmt_grouping hgk)
              (isTrackedStmt_grouping hg) hkey
            subst e1 e2 e3
            obtain ⟨e4, e5⟩ := hW.cr_fun hcr' hcr
            subst e4 e5
            exact hp
          · exact (hp).trans W (hharm r₁' s₁' g hwf' hgk hmem r₂' s₂' hcr')
        · rw [if_neg ht] at hmem
          exact (hp).trans W (hharm r₁' s₁' g hwf' hgk hmem r₂' s₂' hcr')
      have key := core_relQ (RE := REb W.σ) (RS := RS) (closed2_REb W.σ) W.env₁ W.env₂ (toEntry W.env₁ f) (pureRec W.val)
        r₁ r₂ n s₁ s₂ (vis' r₁ n vis) [] Q st {} ⟨hcoh, Frame.refl st⟩
        (findGrouping W.env₁.reg W.env₁.linked (2 * f + 16) r₁ s₁ n.arg []).1 (W.lk₂ r₂ s₂ n.arg) false
        (REb_of_eq _ (ren_e0 _ _ _ _ hseq))
        (fun _ syn => REb_of_eq _ (ren_leafEntry _ _ _ _ _ _ _ _ syn hseq (fun t => hW.cr_types (hW.cr_child n hcr) t)))
        (fun _ => REb_of_eq _ (ren_errorEntry _ _ _ _ _ hseq))
        (fun _ t _ => hW.cr_types (hW.cr_child n hcr) t)
        (not_mod_hinc hn)
        ?hch ?huses (fun h => absurd h (by decide))
        (fun a t₁ b t₂ hab hs => ⟨hab, hs.2, Or.inl hs.1⟩)
        (fun h => absurd h (by decide))
        (fun hg t₁ t₂ a b hs hab => ⟨hab, ⟨hs.2.1, hs.2.2.1, hs.2.2.2⟩, Or.inr ⟨hg, t₁.gcache, rfl, hs.1⟩⟩)
      case hch =>
        intro c hc t₁ t₂ hs
        obtain ⟨fld, hfld, hcf⟩ := hc
        have hcm : c ∈ n.subs := hcf.mem
        obtain ⟨_, hn'⟩ := Fuel.callee_need hwf.inv hneed' hc3 (Fuel.Callee.child (scope := s₁) hcm)
        rw [← vis'_eq] at hn'
        have := ih r₁ (n :: s₁) c (vis' r₁ n vis) t₁ r₂ (n :: s₂) (hW.cr_child n hcr) (hwf.child hcm)
          (called_not_mod hfld hcf) (by omega) hs.1 (hharm' _ (lt_child W hn ⟨fld, hfld, hcf⟩))
        exact ⟨this.1, this.2.1, hs.2.trans this.2.2⟩
      case huses =>
        intro hu
        have hlk := hW.lookup n f hcr hwf hu hslack
        have hnt : tracked n = false := by
          cases ht : tracked n with
          | false => rfl
          | true => rw [(tracked_iff hn).1 ht] at hu; exact absurd hu (by decide)
        have hvis : vis' r₁ n vis = vis := by unfold vis'; rw [hnt]; rfl
        generalize hL1 : (findGrouping W.env₁.reg W.env₁.linked (2 * f + 16) r₁ s₁ n.arg []).1 = L1 at hlk ⊢
        generalize hL2 : W.lk₂ r₂ s₂ n.arg = L2 at hlk ⊢
        cases L1 with
        | none =>
          cases L2 with
          | none => trivial
          | some q => obtain ⟨g, gr, gs⟩ := q; exact hlk
        | some q =>
          obtain ⟨g₁, gr₁, gs₁⟩ := q
          cases L2 with
          | none => exact hlk
          | some q' =>
            obtain ⟨g₂, gr₂, gs₂⟩ := q'
            obtain ⟨hgg, hcr'⟩ : g₁ = g₂ ∧ W.CR gr₁ gs₁ gr₂ gs₂ := hlk
            subst hgg
            intro t₁ t₂ hs
            obtain ⟨hwf', hgk⟩ := hwf.lookup hL1
            obtain ⟨_, hn'⟩ := Fuel.callee_need hwf.inv hneed' hc3 (Fuel.Callee.uses (scope := s₁) (visiting := vis) hL1)
            rw [← vis'_eq] at hn'
            have hgm : isModKw g₁ = false := by unfold isModKw; rw [hgk]; decide
            have := ih gr₁ gs₁ g₁ (vis' r₁ n vis) t₁ gr₂ gs₂ hcr' hwf' hgm (by omega) hs.1
              (hharm' _ (lt_uses W hu hL2))
            exact ⟨this.1, this.2.1, hs.2.trans this.2.2⟩
      -- from `Q` to the claim
      obtain ⟨hre, hfr, hco⟩ := key
      have hre' : REb W.σ (core W.env₁ (toEntry W.env₁ f) r₁ s₁ n (vis' r₁ n vis) st
          (findGrouping W.env₁.reg W.env₁.linked (2 * f + 16) r₁ s₁ n.arg []).1 false).1 (W.val r₂ s₂ n) :=
        REb_val W hW hn hre
      refine ⟨hre', ?_, hfr⟩
      rcases hco with hco | ⟨hg, G, hG, hcoG⟩
      · exact hco
      · rw [hG]
        intro p hp
        rcases List.mem_append.1 hp with hp | hp
        · exact hcoG p hp
        · simp only [List.mem_singleton] at hp
          subst hp
          intro r₁' s₁' g hwf' hgk hkey r₂' s₂' hcr'
          obtain ⟨e1, e2, e3⟩ := hW.pos r₁' hwf'.1 r₁ hwf.1 g n s₁' s₁ hwf'.2 hwf.2 (isTrackedStmt_grouping hgk)
            (isTrackedStmt_grouping hg) hkey
          subst e1 e2 e3
          obtain ⟨e4, e5⟩ := hW.cr_fun hcr' hcr
          subst e4 e5
          exact hre'
    by_cases hg : n.kw = "grouping"
    · cases hfind : st.gcache.find? (·.1 == nodeId r₁ n) with
      | some p =>
        have hbody : toEntryBody W.env₁ f (toEntry W.env₁ f) r₁ s₁ n vis st = (p.2, st) := by
          unfold toEntryBody
          dsimp only
          rw [show (n.kw == "module" || n.kw == "submodule") = false from hn,
            show (n.kw == "grouping") = true by rw [hg]; rfl]
          simp only [Bool.false_eq_true, if_false, if_true, hfind]
        rw [hbody]
        refine ⟨?_, hcoh, Frame.refl st⟩
        have hmem := List.mem_of_find?_eq_some hfind
        have hkey : nodeId r₁ n = p.1 := by
          have : p.1 = nodeId r₁ n := by simpa using List.find?_some hfind
          exact this.symm
        exact hcoh p hmem r₁ s₁ n hwf hg hkey r₂ s₂ hcr
      | none =>
        have h2 : (if n.kw == "grouping" then st.gcache.find? (·.1 == nodeId r₁ n) else none) = none := by
          rw [hg]; simpa using hfind
        cases hv : vis.contains (nodeId r₁ n) with
        | true =>
          have hbody : toEntryBody W.env₁ f (toEntry W.env₁ f) r₁ s₁ n vis st = (errorEntry r₁ n "cycle", st) := by
            unfold toEntryBody
            dsimp only
            rw [show (n.kw == "module" || n.kw == "submodule") = false from hn,
              show (n.kw == "grouping") = true by rw [hg]; rfl]
            simp only [Bool.false_eq_true, if_false, if_true, hfind, hv, Bool.false_or, Bool.and_self]
          rw [hbody]
          exact ⟨REb_dirty _ (not_clean_errorEntry _ _ _) (hcyc hg hv), hcoh, Frame.refl st⟩
        | false =>
          exact hcore h2 (by rw [hv]; simp)
    · have h2 : (if n.kw == "grouping" then st.gcache.find? (·.1 == nodeId r₁ n) else none) = none := by
        simp [hg]
      have h3 : (tracked n && vis.contains (nodeId r₁ n)) = false := by
        have : tracked n = false := by
          cases ht : tracked n with
          | false => rfl
          | true => exact absurd ((tracked_iff hn).1 ht) hg
        rw [this]; rfl
      exact hcore h2 h3

end Run

end Goyang.Lemmas.IncludeRun
