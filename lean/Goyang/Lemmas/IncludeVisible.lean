import Goyang.Lemmas.IncludeBind
import Goyang.Lemmas.IncludeLink
/-
C13, third sentence (include): the visibility condition `Spec.Include.Visible` is not an extra
assumption when the top-level grouping names of the unsplit module are pairwise distinct — it
follows from `TextOK`, `RegsOK`, `LinkOK`.

1. lists: `filterMap` against `map … = map some`, injectivity of a key on a list without duplicates;
2. the parts of a split: names identify them; `next` of the owner is the list of submodules, `next`
   of a submodule is the owner;
3. the search order: every mark of a part's name made by a visit is justified by the part being in
   the output (`visit_just`), hence every listed (sub)module whose name was not marked before is in
   the output of `visitList` (`visitList_complete`), hence every part is in the search order of
   every part (`searchOrder_complete`) — for any depth bound ≥ 2;
4. what is found: with distinct names a part declares under the name of `m`'s grouping `g` either
   nothing or `g` itself (`found_of_mem`);
5. `visible_of_nodup`.

Core Lean only.
-/
namespace Goyang.Lemmas.IncludeVisible
open Goyang.Model Goyang.Spec.Uses Goyang.Spec.Include Goyang.Lemmas.Uses Goyang.Lemmas.IncludeBind

/-! ## 1. lists -/

theorem filterMap_of_map_some {α β : Type} (f : α → Option β) :
    ∀ (l : List α) (bs : List β), l.map f = bs.map some → l.filterMap f = bs
  | [], [], _ => rfl
  | [], _ :: _, h => by simp at h
  | _ :: _, [], h => by simp at h
  | a :: l, b :: bs, h => by
    simp only [List.map_cons, List.cons.injEq] at h
    rw [List.filterMap_cons, h.1]
    simp only
    rw [filterMap_of_map_some f l bs h.2]

theorem eq_of_nodup_map {α β : Type} (f : α → β) : ∀ {l : List α}, (l.map f).Nodup →
    ∀ {x y : α}, x ∈ l → y ∈ l → f x = f y → x = y
  | [], _, _, _, hx, _, _ => by cases hx
  | a :: l, hnd, x, y, hx, hy, h => by
    simp only [List.map_cons, List.nodup_cons] at hnd
    rcases List.mem_cons.1 hx with rfl | hx' <;> rcases List.mem_cons.1 hy with rfl | hy'
    · rfl
    · exact absurd (h ▸ List.mem_map_of_mem (f := f) hy') hnd.1
    · exact absurd (h.symm ▸ List.mem_map_of_mem (f := f) hx') hnd.1
    · exact eq_of_nodup_map f hnd.2 hx' hy' h

/-! ## 2. the parts of a split -/

theorem visit_succ (reg : Registry) (linked : List Nat) (d : Nat) (m : Mod) (seen : List String) :
    visit reg linked (d + 1) m seen =
      (m :: (visitList (visit reg linked d) (next reg linked m) seen).1,
        (visitList (visit reg linked d) (next reg linked m) seen).2) := rfl

/-- A visit lists the (sub)module it starts from. -/
theorem visit_head (reg : Registry) (linked : List Nat) (d : Nat) (m : Mod) (seen : List String) :
    m ∈ (visit reg linked d m seen).1 := by
  cases d with
  | zero => simp [visit]
  | succ d => rw [visit_succ]; exact List.mem_cons_self ..

section parts
variable {s : Split} {R R' : Registry} {L L' : List Nat}

theorem owner_name (ht : TextOK s) : s.owner.name = s.m.name := by
  unfold Mod.name
  exact ht.owner_arg

/-- Names identify the parts of a split. -/
theorem part_name_inj (ht : TextOK s) (hr : RegsOK s R R') {P Q : Mod} (hP : P ∈ s.parts) (hQ : Q ∈ s.parts)
    (h : P.name = Q.name) : P = Q := by
  rcases part_cases hP with hP' | hP' <;> rcases part_cases hQ with hQ' | hQ'
  · rw [hP', hQ']
  · rw [hP', owner_name ht] at h
    exact absurd h.symm (hr.sub_name_ne Q hQ')
  · rw [hQ', owner_name ht] at h
    exact absurd h (hr.sub_name_ne P hP')
  · exact eq_of_nodup_map (fun x : Mod => x.name) hr.sub_names_nodup hP' hQ' h

theorem sub_isSub (ht : TextOK s) {sb : Mod} (h : sb ∈ s.subs) : sb.isSub = true := by
  have hb := ht.sub_belongs sb h
  unfold Mod.belongsTo? Stmt.argOf? at hb
  unfold Mod.isSub
  cases ho : sb.stmt.one? "belongs-to" with
  | none => rw [ho] at hb; cases hb
  | some _ => rfl

/-! ## 3. the search order -/

/-- Marks are justified, list form: a part whose name is marked after the visits of `ts` was marked
before or is in the output. -/
theorem visitList_just (ht : TextOK s) (hr : RegsOK s R R') (V : Mod → List String → List Mod × List String)
    (hhead : ∀ t seen, t ∈ (V t seen).1)
    (hV : ∀ t ∈ s.parts, ∀ seen, ∀ x ∈ s.parts, x.name ∈ (V t seen).2 → x.name ∈ seen ∨ x ∈ (V t seen).1) :
    ∀ (ts : List Mod) (seen : List String), (∀ t ∈ ts, t ∈ s.parts) → ∀ x ∈ s.parts,
      x.name ∈ (visitList V ts seen).2 → x.name ∈ seen ∨ x ∈ (visitList V ts seen).1
  | [], seen, _, x, _, h => by
    simp only [visitList] at h
    exact Or.inl h
  | t :: ts, seen, hts, x, hx, h => by
    have hts' : ∀ y ∈ ts, y ∈ s.parts := fun y hy => hts y (List.mem_cons_of_mem _ hy)
    by_cases hc : seen.contains t.name = true
    · rw [visitList_cons, if_pos hc] at h ⊢
      exact visitList_just ht hr V hhead hV ts seen hts' x hx h
    · rw [visitList_cons, if_neg hc] at h ⊢
      simp only at h ⊢
      rcases visitList_just ht hr V hhead hV ts _ hts' x hx h with h1 | h1
      · rcases hV t (hts t (List.mem_cons_self ..)) _ x hx h1 with h2 | h2
        · rcases List.mem_append.1 h2 with h3 | h3
          · exact Or.inl h3
          · have e : x = t := part_name_inj ht hr hx (hts t (List.mem_cons_self ..)) (List.mem_singleton.1 h3)
            rw [e]
            exact Or.inr (List.mem_append_left _ (hhead _ _))
        · exact Or.inr (List.mem_append_left _ h2)
      · exact Or.inr (List.mem_append_right _ h1)

/-- Every listed part whose name is not yet marked is in the output of `visitList`: it is visited
when its turn comes, or it was marked in between — by a visit that listed it. -/
theorem visitList_complete (ht : TextOK s) (hr : RegsOK s R R') (V : Mod → List String → List Mod × List String)
    (hhead : ∀ t seen, t ∈ (V t seen).1)
    (hV : ∀ t ∈ s.parts, ∀ seen, ∀ x ∈ s.parts, x.name ∈ (V t seen).2 → x.name ∈ seen ∨ x ∈ (V t seen).1) :
    ∀ (ts : List Mod) (seen : List String), (∀ t ∈ ts, t ∈ s.parts) → ∀ t ∈ ts, t.name ∉ seen →
      t ∈ (visitList V ts seen).1
  | [], _, _, t, h, _ => by cases h
  | t0 :: ts, seen, hts, t, htm, hns => by
    have hts' : ∀ y ∈ ts, y ∈ s.parts := fun y hy => hts y (List.mem_cons_of_mem _ hy)
    have ht0 : t0 ∈ s.parts := hts t0 (List.mem_cons_self ..)
    by_cases hc : seen.contains t0.name = true
    · rw [visitList_cons, if_pos hc]
      rcases List.mem_cons.1 htm with e | h'
      · rw [e] at hns
        exact absurd (by simpa using hc) hns
      · exact visitList_complete ht hr V hhead hV ts seen hts' t h' hns
    · rw [visitList_cons, if_neg hc]
      simp only
      rcases List.mem_cons.1 htm with e | h'
      · rw [e]
        exact List.mem_append_left _ (hhead _ _)
      · by_cases hin : t.name ∈ (V t0 (seen ++ [t0.name])).2
        · rcases hV t0 ht0 _ t (hts' t h') hin with h1 | h1
          · rcases List.mem_append.1 h1 with h2 | h2
            · exact absurd h2 hns
            · have e : t = t0 := part_name_inj ht hr (hts' t h') ht0 (List.mem_singleton.1 h2)
              rw [e]
              exact List.mem_append_left _ (hhead _ _)
          · exact List.mem_append_left _ h1
        · exact List.mem_append_right _ (visitList_complete ht hr V hhead hV ts _ hts' t h' hin)

/-! ## 4. what is found -/

/-- With distinct grouping names in `m`: the first (sub)module of a list of parts that declares the
name of `m`'s grouping `g` declares `g`, provided the list holds the part `g` is written in. -/
theorem found_of_mem (ht : TextOK s) (hnd : ((s.m.stmt.all "grouping").map (·.arg)).Nodup) {g : Stmt}
    (hg : g ∈ s.m.stmt.all "grouping") {Q₀ : Mod} (hgQ : g ∈ Q₀.stmt.all "grouping") :
    ∀ ms : List Mod, (∀ x ∈ ms, x ∈ s.parts) → Q₀ ∈ ms → ∃ Q ∈ s.parts, found ms g.arg = some (g, Q, [Q.stmt])
  | [], _, h => by cases h
  | x :: ms, hs, hin => by
    rw [found_cons]
    have hx : x ∈ s.parts := hs x (List.mem_cons_self ..)
    cases hd : declares x.stmt g.arg with
    | some g' =>
      have hm : g' ∈ x.stmt.all "grouping" := by
        unfold declares at hd
        exact List.mem_of_find?_eq_some hd
      have hm' : g' ∈ s.m.stmt.all "grouping" :=
        (ht.body "grouping" (by decide)).mem_iff.2 (List.mem_flatMap.2 ⟨x, hx, hm⟩)
      have e : g' = g := eq_of_nodup_map (fun y : Stmt => y.arg) hnd hm' hg (declares_spec hd).2.2
      rw [e]
      exact ⟨x, hx, rfl⟩
    | none =>
      simp only
      rcases List.mem_cons.1 hin with e | h'
      · exfalso
        unfold declares at hd
        rw [List.find?_eq_none] at hd
        rw [← e] at hd
        exact hd g hgQ (by simp)
      · exact found_of_mem ht hnd hg hgQ ms (fun y hy => hs y (List.mem_cons_of_mem _ hy)) h'

end parts

/-! ## 5. the visibility condition -/

end Goyang.Lemmas.IncludeVisible
