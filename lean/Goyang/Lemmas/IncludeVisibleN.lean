import Goyang.Lemmas.IncludeVisible
/-
C13, third sentence (include), NESTED includes: the results of `IncludeBind` (binding
correspondence) and `IncludeVisible` (completeness of the search order, visibility from distinct
grouping names) from the general fields of `Spec.Include.RegsOK` only — `inc_resolve` (every include
statement of a part resolves to a submodule of the split) and `inc_cover` (every submodule is reached
from the owner through include statements).  Nothing here uses the one-level fields of `RegsOK`
(the owner includes exactly the submodules, submodules include nothing).

1. one step of the search (`Spec.Uses.Step`) from a part leads to a part (`step_partN`,
   `reach_partN`); the binding correspondence restated on top of it (`bind_partN`, `bind_otherN`);
2. generic facts about the search order of any registry: a visit marks every (sub)module it lists
   (`visitList_marks`); when the depth bound exceeds the number of loaded (sub)modules whose name is
   not marked (`Lemmas.Uses.unseen`), everything `next` to a (sub)module in the output of a visit is
   marked afterwards (`visit_closed`);
3. the split: marks are justified (`visit_justN`), hence the search order from a part is closed under
   `next` (`searchOrder_closed`); it holds the owner, hence (induction on `IncReach`) every part
   (`searchOrder_completeN`);
4. `visible_of_nodupN`.

Core Lean only.
-/
namespace Goyang.Lemmas.IncludeVisibleN
open Goyang.Model Goyang.Spec.Uses Goyang.Spec.Include Goyang.Lemmas.Uses Goyang.Lemmas.IncludeBind
open Goyang.Lemmas.IncludeVisible

/-! ## 1. steps from a part; the binding correspondence -/

section parts
variable {s : Split} {R R' : Registry} {L L' : List Nat}

/-- One step (include, belongs-to) from a part of the split set leads to a part. -/
theorem step_partN (ht : TextOK s) (hr : RegsOK s R R') {Q t : Mod}
    (hQ : Q ∈ s.parts) (h : Spec.Uses.Step R' L' Q t) : t ∈ s.parts := by
  cases h with
  | @incl i hm hl hi hf =>
    obtain ⟨sb, hsb, e⟩ := hr.inc_resolve Q hQ i hi
    rw [hf] at e
    cases e
    exact sub_part hsb
  | owner hm hs hb =>
    rcases part_cases hQ with rfl | hsb
    · rw [owner_isSub ht] at hs; cases hs
    · rw [ht.sub_belongs Q hsb, Option.bind_some, getModule_m hr] at hb
      cases hb
      exact owner_part s

/-- Everything reached from a part is a part. -/
theorem reach_partN (ht : TextOK s) (hr : RegsOK s R R') {P x : Mod}
    (hP : P ∈ s.parts) (h : Reach R' L' P x) : x ∈ s.parts := by
  induction h with
  | refl => exact hP
  | tail _ hs ih => exact step_partN ht hr ih hs

/-- Top-level binding from a part of the split set against top-level binding in `m`. -/
theorem bindTop_partN (ht : TextOK s) (hr : RegsOK s R R') (hv : Visible s R' L') {P : Mod} (hP : P ∈ s.parts)
    (a : String) : BindRel s R (bindTop R' L' P a) (bindTop R L s.m a) := by
  rw [bindTop_R hr hr.m_mem, found_cons]
  cases hd : declares s.m.stmt a with
  | none =>
    have : bindTop R' L' P a = none := by
      rw [bindTop_eq_found]
      refine found_none fun x hx => ?_
      exact part_declares_none ht (reach_partN ht hr hP (visit_reach R' L' _ P [] x hx)) hd
    rw [this]
    exact bindRel_none s R
  | some g₀ =>
    have hmem : g₀ ∈ s.m.stmt.all "grouping" := by
      unfold declares at hd
      exact List.mem_of_find?_eq_some hd
    have harg : g₀.arg = a := (declares_spec hd).2.2
    obtain ⟨Q, hQ, hb⟩ := hv P hP g₀ hmem
    rw [harg, hd] at hb
    rw [hb]
    exact bindRel_part (inner := []) hQ g₀

/-- What an import statement of a part resp. of `m` leads to. -/
theorem import_relN (ht : TextOK s) (hr : RegsOK s R R') (hv : Visible s R' L') (i : Stmt) (a : String) :
    BindRel s R ((R'.findModule false i).bind fun x => bindTop R' L' x a)
      ((R.findModule false i).bind fun x => bindTop R L x a) := by
  rw [findModule_split hr]
  cases hf : R.findModule false i with
  | none => exact bindRel_none s R
  | some y =>
    have hy : y ∈ R.mods := findModule_mem hf
    simp only [Option.map_some, Option.bind_some]
    by_cases h : y.seq = s.m.seq
    · have : y = s.m := seq_inj hr hy hr.m_mem h
      subst this
      rw [repl_m]
      exact bindTop_partN ht hr hv (owner_part s) a
    · rw [repl_other h]
      exact bindTop_other hr hy h a

end parts

/-- **The binding of a grouping name from a part** of the split set corresponds to the binding of
the same name at the same inner place of the unsplit module (nested includes allowed). -/
theorem bind_partN (s : Split) (R R' : Registry) (L L' : List Nat) (ht : TextOK s) (hr : RegsOK s R R')
    (hl : LinkOK s R L L') (hv : Visible s R' L') (P : Mod) (hP : P ∈ s.parts) (inner : List Stmt) (name : String) :
    BindRel s R (bindGrouping R' L' P inner name) (bindGrouping R L s.m inner name) := by
  unfold bindGrouping
  simp only []
  rw [localName_congr (part_prefix ht hP) name]
  generalize localName s.m name = nm
  cases hb : isBare nm with
  | true =>
    simp only [if_true]
    rcases bindLexical_cases nm inner with h | ⟨g, sc, h⟩
    · rw [h P, h s.m]
      exact bindTop_partN ht hr hv hP nm
    · rw [h P, h s.m]
      exact bindRel_part hP g sc
  | false =>
    simp only [Bool.false_eq_true, if_false]
    rw [part_isModuleStmt ht hP, part_linked hr hl hP, m_isModuleStmt ht, hl.m_linked, part_imports ht hP]
    simp only [Bool.and_self, if_true]
    refine findSome?_rel (fun i => ?_) _
    split
    · exact import_relN ht hr hv i _
    · exact bindRel_none s R

/-- **The binding of a grouping name from another module** is the same in the two registries, up to
the correspondence of places (nested includes allowed). -/
theorem bind_otherN (s : Split) (R R' : Registry) (L L' : List Nat) (ht : TextOK s) (hr : RegsOK s R R')
    (hl : LinkOK s R L L') (hv : Visible s R' L') (x : Mod) (hx : x ∈ R.mods) (hne : x.seq ≠ s.m.seq)
    (inner : List Stmt) (name : String) :
    BindRel s R (bindGrouping R' L' x inner name) (bindGrouping R L x inner name) := by
  unfold bindGrouping
  simp only []
  generalize localName x name = nm
  cases hb : isBare nm with
  | true =>
    simp only [if_true]
    rcases bindLexical_cases nm inner with h | ⟨g, sc, h⟩
    · rw [h x]
      exact bindTop_other hr hx hne nm
    · rw [h x]
      exact bindRel_other hx hne g _
  | false =>
    simp only [Bool.false_eq_true, if_false]
    rw [hl.same x hx]
    cases (isModuleStmt x.stmt && L.contains x.seq) with
    | false => exact bindRel_none s R
    | true =>
      simp only [if_true]
      refine findSome?_rel (fun i => ?_) _
      split
      · exact import_relN ht hr hv i _
      · exact bindRel_none s R

/-! ## 2. the search order of any registry: what a visit marks -/

/-- Where the whole module continues is a loaded (sub)module. -/
theorem next_mem_mods {reg : Registry} {linked : List Nat} {m t : Mod} (h : t ∈ next reg linked m) :
    t ∈ reg.mods := by
  cases next_step h with
  | incl _ _ _ hf => exact findModule_mem hf
  | owner _ _ hb => exact Lemmas.Uses.owner_mem hb

/-- Every listed (sub)module is marked after the visits of the list. -/
theorem visitList_marks (V : Mod → List String → List Mod × List String) (hmono : ∀ t s, s ⊆ (V t s).2) :
    ∀ (ts : List Mod) (seen : List String), ∀ t ∈ ts, t.name ∈ (visitList V ts seen).2
  | [], _, t, h => by cases h
  | t0 :: ts, seen, t, htm => by
    by_cases hc : seen.contains t0.name = true
    · rw [visitList_cons, if_pos hc]
      rcases List.mem_cons.1 htm with e | h'
      · rw [e]
        exact visitList_subset V hmono ts seen (by simpa using hc)
      · exact visitList_marks V hmono ts seen t h'
    · rw [visitList_cons, if_neg hc]
      simp only
      rcases List.mem_cons.1 htm with e | h'
      · rw [e]
        exact visitList_subset V hmono ts _ (hmono t0 _ (List.mem_append_right _ (List.mem_singleton.2 rfl)))
      · exact visitList_marks V hmono ts _ t h'

/-- Closure, list form: when each single visit with fewer than `d` unmarked loaded names leaves
everything `next` to its output marked, so does `visitList` with fewer than `d + 1`. -/
theorem visitList_closed (reg : Registry) (linked : List Nat) (V : Mod → List String → List Mod × List String)
    (d : Nat) (hmono : ∀ t s, s ⊆ (V t s).2)
    (hV : ∀ t seen, unseen reg seen < d → ∀ x ∈ (V t seen).1, ∀ y ∈ next reg linked x, y.name ∈ (V t seen).2) :
    ∀ (ts : List Mod) (seen : List String), (∀ t ∈ ts, t ∈ reg.mods) → unseen reg seen < d + 1 →
      ∀ x ∈ (visitList V ts seen).1, ∀ y ∈ next reg linked x, y.name ∈ (visitList V ts seen).2
  | [], seen, _, _, x, hx, _, _ => by
    simp only [visitList] at hx
    cases hx
  | t :: ts, seen, hts, hu, x, hx, y, hy => by
    have hts' : ∀ z ∈ ts, z ∈ reg.mods := fun z hz => hts z (List.mem_cons_of_mem _ hz)
    by_cases hc : seen.contains t.name = true
    · rw [visitList_cons, if_pos hc] at hx ⊢
      exact visitList_closed reg linked V d hmono hV ts seen hts' hu x hx y hy
    · rw [visitList_cons, if_neg hc] at hx ⊢
      simp only at hx ⊢
      have hlt : unseen reg (seen ++ [t.name]) < unseen reg seen :=
        unseen_lt (hts t (List.mem_cons_self ..)) (by simpa using hc)
      rcases List.mem_append.1 hx with h1 | h1
      · exact visitList_subset V hmono ts _ (hV t _ (by omega) x h1 y hy)
      · have hsub : seen ⊆ (V t (seen ++ [t.name])).2 :=
          fun z hz => hmono t _ (List.mem_append_left _ hz)
        have hu' : unseen reg (V t (seen ++ [t.name])).2 < d + 1 :=
          Nat.lt_of_le_of_lt (unseen_mono hsub) hu
        exact visitList_closed reg linked V d hmono hV ts _ hts' hu' x h1 y hy

/-- **Closure of a visit**: when the depth bound exceeds the number of loaded (sub)modules whose
name is not marked, every (sub)module `next` to one in the output of the visit is marked
afterwards (no nested visit is cut short by the depth bound: each one marks a new name). -/
theorem visit_closed (reg : Registry) (linked : List Nat) :
    ∀ (d : Nat) (m : Mod) (seen : List String), unseen reg seen < d →
      ∀ x ∈ (visit reg linked d m seen).1, ∀ y ∈ next reg linked x, y.name ∈ (visit reg linked d m seen).2
  | 0, _, _, hu, _, _, _, _ => by omega
  | d + 1, m, seen, hu, x, hx, y, hy => by
    rw [visit_succ] at hx ⊢
    simp only at hx ⊢
    rcases List.mem_cons.1 hx with e | h1
    · rw [e] at hy
      exact visitList_marks (visit reg linked d) (visit_subset reg linked d) _ seen y hy
    · exact visitList_closed reg linked (visit reg linked d) d (visit_subset reg linked d)
        (fun t seen' hu' => visit_closed reg linked d t seen' hu') (next reg linked m) seen
        (fun t ht => next_mem_mods ht) hu x h1 y hy

/-! ## 3. the search order of a split -/

section split
variable {s : Split} {R R' : Registry} {L L' : List Nat}

theorem next_partN (ht : TextOK s) (hr : RegsOK s R R') {P : Mod} (hP : P ∈ s.parts) :
    ∀ t ∈ next R' L' P, t ∈ s.parts :=
  fun _ htn => step_partN ht hr hP (next_step htn)

/-- The target of an include statement of a part is `next` to the part. -/
theorem next_of_includes (ht : TextOK s) (hr : RegsOK s R R') (hl : LinkOK s R L L') {P T : Mod}
    (hP : P ∈ s.parts) (h : Includes R' P T) : T ∈ next R' L' P := by
  obtain ⟨a, ha, hf⟩ := h
  unfold next
  rw [part_isModuleStmt ht hP, part_linked hr hl hP]
  simp only [if_true]
  exact List.mem_append_left _ (List.mem_filterMap.2 ⟨a, ha, hf⟩)

/-- The owner is `next` to every submodule. -/
theorem next_of_sub (ht : TextOK s) (hr : RegsOK s R R') {sb : Mod} (h : sb ∈ s.subs) :
    s.owner ∈ next R' L' sb := by
  unfold next
  rw [part_isModuleStmt ht (sub_part h), sub_isSub ht h, ht.sub_belongs sb h, Option.bind_some, getModule_m hr]
  simp

/-- **Marks are justified**: a part whose name is marked after a visit from a part was marked
before or is in the output of the visit (whatever the depth bound). -/
theorem visit_justN (ht : TextOK s) (hr : RegsOK s R R') :
    ∀ (d : Nat) (P : Mod), P ∈ s.parts → ∀ (seen : List String), ∀ x ∈ s.parts,
      x.name ∈ (visit R' L' d P seen).2 → x.name ∈ seen ∨ x ∈ (visit R' L' d P seen).1
  | 0, P, _, seen, x, _, h => by
    simp only [visit] at h
    exact Or.inl h
  | d + 1, P, hP, seen, x, hx, h => by
    rw [visit_succ] at h ⊢
    simp only at h ⊢
    rcases visitList_just ht hr (visit R' L' d) (visit_head R' L' d)
        (fun t ht' seen' => visit_justN ht hr d t ht' seen') (next R' L' P) seen
        (next_partN ht hr hP) x hx h with h1 | h1
    · exact Or.inl h1
    · exact Or.inr (List.mem_cons_of_mem _ h1)

/-- Everything in the search order from a part is a part. -/
theorem searchOrder_parts (ht : TextOK s) (hr : RegsOK s R R') {P : Mod} (hP : P ∈ s.parts) :
    ∀ x ∈ searchOrder R' L' P, x ∈ s.parts :=
  fun x hx => reach_partN ht hr hP (visit_reach R' L' _ P [] x hx)

/-- The search order from a part is closed under `next`. -/
theorem searchOrder_closed (ht : TextOK s) (hr : RegsOK s R R') {P x t : Mod} (hP : P ∈ s.parts)
    (hx : x ∈ searchOrder R' L' P) (htn : t ∈ next R' L' x) : t ∈ searchOrder R' L' P := by
  have hxp : x ∈ s.parts := searchOrder_parts ht hr hP x hx
  have htp : t ∈ s.parts := next_partN ht hr hxp t htn
  unfold searchOrder at hx ⊢
  have hu : unseen R' [] < R'.mods.length + 1 := Nat.lt_succ_of_le (unseen_nil_le R')
  have hm := visit_closed R' L' _ P [] hu x hx t htn
  rcases visit_justN ht hr _ P hP [] t htp hm with h | h
  · cases h
  · exact h

/-- Everything reached through include statements from a part in the search order is in it. -/
theorem searchOrder_incReach (ht : TextOK s) (hr : RegsOK s R R') (hl : LinkOK s R L L') {P : Mod}
    (hP : P ∈ s.parts) {A Q : Mod} (h : IncReach R' A Q) (hA : A ∈ searchOrder R' L' P) :
    Q ∈ searchOrder R' L' P := by
  induction h with
  | refl => exact hA
  | step _ hi ih =>
    exact searchOrder_closed ht hr hP ih
      (next_of_includes ht hr hl (searchOrder_parts ht hr hP _ ih) hi)

/-- **Completeness of the search order** (nested includes): every part is in the search order of
every part. -/
theorem searchOrder_completeN (ht : TextOK s) (hr : RegsOK s R R') (hl : LinkOK s R L L') {P Q : Mod}
    (hP : P ∈ s.parts) (hQ : Q ∈ s.parts) : Q ∈ searchOrder R' L' P := by
  have hPin : P ∈ searchOrder R' L' P := visit_head R' L' _ P []
  have hown : s.owner ∈ searchOrder R' L' P := by
    rcases part_cases hP with e | hP'
    · rw [← e]; exact hPin
    · exact searchOrder_closed ht hr hP hPin (next_of_sub ht hr hP')
  rcases part_cases hQ with e | hQ'
  · rw [e]; exact hown
  · exact searchOrder_incReach ht hr hl hP (hr.inc_cover Q hQ') hown

end split

/-! ## 4. the visibility condition -/

/-- **Visibility follows from distinct grouping names** (nested includes).  When the top-level
grouping names of the unsplit module are pairwise distinct, every part of the split sees every
top-level grouping of `m` — as the statement `m` declares under that name, at the top level of a
part. -/
theorem visible_of_nodupN (s : Split) (R R' : Registry) (L L' : List Nat) (ht : TextOK s) (hr : RegsOK s R R')
    (hl : LinkOK s R L L') (hnd : ((s.m.stmt.all "grouping").map (·.arg)).Nodup) : Visible s R' L' := by
  intro P hP g hg
  have hdm : declares s.m.stmt g.arg = some g := by
    unfold declares
    exact IncludeLink.find?_key_of_nodup (fun y : Stmt => y.arg) hnd hg
  rw [hdm, Option.getD_some, bindTop_eq_found]
  obtain ⟨Q₀, hQ₀, hgQ⟩ : ∃ Q₀ ∈ s.parts, g ∈ Q₀.stmt.all "grouping" := by
    have h1 := (ht.body "grouping" (by decide)).mem_iff.1 hg
    obtain ⟨Q, hQ, h⟩ := List.mem_flatMap.1 h1
    exact ⟨Q, hQ, h⟩
  exact found_of_mem ht hnd hg hgQ _ (searchOrder_parts ht hr hP) (searchOrder_completeN ht hr hl hP hQ₀)

end Goyang.Lemmas.IncludeVisibleN
