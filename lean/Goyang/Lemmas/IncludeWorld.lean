import Goyang.Lemmas.IncludeRun
import Goyang.Lemmas.IncludeVisibleN
import Goyang.Lemmas.IncludeLinkN
import Goyang.Props.C06
/-
C13 (third sentence), part 3b: the two instances of `World` — the unsplit registry against itself,
and the split registry against the unsplit one — and that they are `OK`.
-/
namespace Goyang.Lemmas.IncludeWorld
open Goyang.Model Goyang.Spec.Include Goyang.Spec.Uses Goyang.Lemmas.Tree Goyang.Spec.Tree Goyang.Lemmas.IncludeRel
open Goyang.Lemmas.IncludePure Goyang.Lemmas.IncludeRun

/-- The grouping lookup of a registry as a function of the place: the specification of C06. -/
def lkOf (R : Registry) (L : List Nat) : Lookup := fun r s a => bindGrouping R L r s.dropLast a

/-- What a lookup answers is a grouping statement. -/
theorem bindGrouping_kw {R : Registry} {L : List Nat} {root : Mod} {inner : List Stmt} {name : String} {r : GroupingRef}
    (h : bindGrouping R L root inner name = some r) : r.1.kw = "grouping" := by
  cases hb : isBare (localName root name) with
  | true =>
    rcases Props.C06.binding_is_nearest R L root inner name r hb h with ⟨_, n, _, _, hd, _⟩ | ⟨_, s, _, hd, _⟩
    · exact (Lemmas.Uses.declares_spec hd).1
    · exact (Lemmas.Uses.declares_spec hd).1
  | false =>
    obtain ⟨i, _, x, _, _, _, hd⟩ := Props.C06.foreign_scope_is_definers R L root inner name r hb h
    exact (Lemmas.Uses.declares_spec hd).1

theorem lkOf_kw (R : Registry) (L : List Nat) : ∀ r s a g gr gs, lkOf R L r s a = some (g, gr, gs) → isModKw g = false := by
  intro r s a g gr gs h
  have := bindGrouping_kw h
  dsimp only at this
  unfold isModKw; rw [this]; decide

/-- The slack is there: the model's fuel exceeds the proved need by the number of statements + 66. -/
theorem slack_le (R : Registry) : lookupSlack R ≤ entryFuel R - Fuel.entryNeed R := by
  have h1 := Fuel.entryNeed_le_quadratic R
  have h2 := Fuel.entryFuel_eq R
  have h3 : lookupSlack R = Fuel.totalStmts R + 66 := rfl
  have h4 : (Fuel.totalStmts R + 2) * (Fuel.totalStmts R + 2) =
      (Fuel.totalStmts R + 1) * (Fuel.totalStmts R + 2) + (Fuel.totalStmts R + 2) := by
    rw [Nat.succ_mul]
  omega

theorem chain_split {top u : Stmt} : ∀ (s : List Stmt), Chain top (u :: s) → (s = [] ∧ u = top) ∨ ∃ inner, s = inner ++ [top]
  | [], h => Or.inl ⟨rfl, h⟩
  | p :: rest, h => by
    rcases chain_split rest h.2 with ⟨h1, h2⟩ | ⟨inner, h1⟩
    · exact Or.inr ⟨[], by rw [h1, h2]; rfl⟩
    · exact Or.inr ⟨p :: inner, by rw [h1]; rfl⟩

theorem maxSubs_eq (l : List Stmt) : Spec.Include.maxSubs l = Lemmas.Uses.maxSubs l := by
  induction l with
  | nil => rfl
  | cons a l ih => simp [Spec.Include.maxSubs, Lemmas.Uses.maxSubs, ih]

/-- The model's lookup with the fuel `toEntry` gives it is the specification's binding. -/
theorem lookup_is_bind (R : Registry) (L : List Nat) (hrefs : RefsWF R) (hfuel : LookupFuelOK R)
    (r : Mod) (hr : r ∈ R.mods) (u : Stmt) (inner : List Stmt) (hch : Chain r.stmt (u :: inner ++ [r.stmt]))
    (hu : u.kw = "uses") (f : Nat) (hf : lookupSlack R ≤ f) :
    (findGrouping R L (2 * f + 16) r (inner ++ [r.stmt]) u.arg []).1 = bindGrouping R L r inner u.arg := by
  obtain ⟨hinner, hwf⟩ := hrefs r hr u inner hch
  refine Props.C06.uses_binds R L r inner u.arg _ hinner (hwf hu) ?_
  have := hfuel r hr u inner hch
  unfold Lemmas.Uses.bindFuel Lemmas.Uses.width
  rw [← maxSubs_eq]
  omega


/-! ### the unsplit registry against itself -/

section Unsplit
variable (R : Registry) (opts : Opts) (plug : Plug)

/-- The unsplit world: what the unsplit conversion computes is the value. -/
def Wu : World where
  env₁ := envOf R opts plug
  env₂ := envOf R opts plug
  lk₂ := lkOf R (linkAll R).1
  σ := id
  CR := fun r₁ s₁ r₂ s₂ => r₁ = r₂ ∧ s₁ = s₂
  slack := lookupSlack R

theorem Wu_ok (hpos : PosWF R) (hrefs : RefsWF R) (hfuel : LookupFuelOK R) (hkw : ∀ x ∈ R.mods, x.stmt.kw ≠ "uses") :
    (Wu R opts plug).OK where
  cr_seq := by rintro r₁ s₁ r₂ s₂ ⟨rfl, rfl⟩; rfl
  cr_child := by rintro r₁ s₁ r₂ s₂ n ⟨rfl, rfl⟩; exact ⟨rfl, rfl⟩
  cr_fun := by rintro r₁ s₁ r₂ s₂ r₂' s₂' ⟨rfl, rfl⟩ ⟨rfl, rfl⟩; exact ⟨rfl, rfl⟩
  cr_types := by rintro r₁ s₁ r₂ s₂ ⟨rfl, rfl⟩ t; rfl
  lookup := by
    rintro r₁ s₁ r₂ s₂ u f ⟨rfl, rfl⟩ hwf hu hf
    rcases chain_split s₁ hwf.2 with ⟨_, h2⟩ | ⟨inner, rfl⟩
    · exact absurd (h2 ▸ hu) (hkw r₁ hwf.1)
    · have h1 := lookup_is_bind R (linkAll R).1 hrefs hfuel r₁ hwf.1 u inner hwf.2 hu f hf
      show match (findGrouping R (linkAll R).1 (2 * f + 16) r₁ (inner ++ [r₁.stmt]) u.arg []).1,
        lkOf R (linkAll R).1 r₁ (inner ++ [r₁.stmt]) u.arg with
        | none, none => True
        | some (g₁, gr₁, gs₁), some (g₂, gr₂, gs₂) => g₁ = g₂ ∧ gr₁ = gr₂ ∧ gs₁ = gs₂
        | _, _ => False
      rw [h1]
      unfold lkOf
      rw [List.dropLast_concat]
      cases bindGrouping R (linkAll R).1 r₁ inner u.arg with
      | none => trivial
      | some q => obtain ⟨g, gr, gs⟩ := q; exact ⟨rfl, rfl, rfl⟩
  lk_kw := lkOf_kw R _
  pos := hpos

end Unsplit

/-! ### the split registry against the unsplit one -/

section SplitW
variable (s : Split) (R R' : Registry) (opts : Opts) (plug plug' : Plug)

def Ws : World where
  env₁ := envOf R' opts plug'
  env₂ := envOf R opts plug
  lk₂ := lkOf R (linkAll R).1
  σ := s.σ
  CR := CtxRel s R
  slack := lookupSlack R'

variable {s R R'}

theorem isSubSeq_of_mem (hr : RegsOK s R R') {x : Mod} (hx : x ∈ R.mods) : s.isSubSeq x.seq = false := by
  unfold Split.isSubSeq
  rw [Bool.eq_false_iff]
  intro h
  obtain ⟨sb, hsb, he⟩ := List.any_eq_true.1 h
  exact hr.sub_seqs_fresh sb hsb x hx (by simpa using he)

theorem σ_of_mem (hr : RegsOK s R R') {x : Mod} (hx : x ∈ R.mods) : s.σ x.seq = x.seq := by
  unfold Split.σ; rw [isSubSeq_of_mem hr hx]; rfl

theorem σ_sub (sb : Mod) (hsb : sb ∈ s.subs) : s.σ sb.seq = s.m.seq := by
  unfold Split.σ
  have : s.isSubSeq sb.seq = true := by
    unfold Split.isSubSeq
    exact List.any_eq_true.2 ⟨sb, hsb, by simp⟩
  rw [this]; rfl

theorem σ_part (hr : RegsOK s R R') {P : Mod} (hP : P ∈ s.parts) : s.σ P.seq = s.m.seq := by
  rcases List.mem_cons.1 hP with rfl | hP
  · rw [hr.owner_seq]; exact σ_of_mem hr hr.m_mem
  · exact σ_sub P hP

theorem part_not_other (hr : RegsOK s R R') {P : Mod} (hP : P ∈ s.parts) (hx : P ∈ R.mods) (hne : P.seq ≠ s.m.seq) : False := by
  rcases List.mem_cons.1 hP with rfl | hP
  · exact hne hr.owner_seq
  · exact hr.sub_seqs_fresh P hP P hx rfl

theorem part_mem' (hr : RegsOK s R R') {P : Mod} (hP : P ∈ s.parts) : P ∈ R'.mods := by
  rcases List.mem_cons.1 hP with rfl | hP
  · exact IncludeLink.owner_mem hr
  · exact IncludeLink.sub_mem hr hP

theorem other_mem' (hr : RegsOK s R R') {x : Mod} (hx : x ∈ R.mods) (hne : x.seq ≠ s.m.seq) : x ∈ R'.mods := by
  have := IncludeLink.repl_mem hr hx
  rwa [IncludeLink.repl_of_ne hne] at this

theorem Ws_ok (ht : TextOK s) (hr : RegsOK s R R') (hl : LinkOK s R (linkAll R).1 (linkAll R').1)
    (hv : Visible s R' (linkAll R').1) (hp : PlugSplitOK s R R' plug plug') (hpos : PosWF R') (hrefs : RefsWF R')
    (hfuel : LookupFuelOK R') : (Ws s R R' opts plug plug').OK where
  cr_seq := by
    rintro r₁ s₁ r₂ s₂ (⟨hP, rfl, _⟩ | ⟨hx, _, rfl, _⟩)
    · exact σ_part hr hP
    · exact σ_of_mem hr hx
  cr_child := by
    rintro r₁ s₁ r₂ s₂ n (⟨hP, rfl, inner, h1, h2⟩ | ⟨hx, hne, rfl, rfl⟩)
    · exact Or.inl ⟨hP, rfl, n :: inner, by rw [h1]; rfl, by rw [h2]; rfl⟩
    · exact Or.inr ⟨hx, hne, rfl, rfl⟩
  cr_fun := by
    rintro r₁ s₁ r₂ s₂ r₂' s₂' (⟨hP, rfl, inner, h1, h2⟩ | ⟨hx, hne, rfl, rfl⟩) (⟨hP', rfl, inner', h1', h2'⟩ | ⟨hx', hne', rfl, rfl⟩)
    · rw [h1] at h1'
      have := List.append_cancel_right h1'
      subst this
      exact ⟨rfl, by rw [h2, h2']⟩
    · exact (part_not_other hr hP hx' hne').elim
    · exact (part_not_other hr hP' hx hne).elim
    · exact ⟨rfl, rfl⟩
  cr_types := by
    rintro r₁ s₁ r₂ s₂ (⟨hP, rfl, inner, rfl, rfl⟩ | ⟨hx, hne, rfl, rfl⟩) t
    · exact hp.types_part r₁ hP inner t
    · exact hp.types_other r₂ hx hne _ t
  lookup := by
    rintro r₁ s₁ r₂ s₂ u f hcr hwf hu hf
    rcases hcr with ⟨hP, rfl, inner, rfl, rfl⟩ | ⟨hx, hne, rfl, rfl⟩
    · have h1 := lookup_is_bind R' (linkAll R').1 hrefs hfuel r₁ hwf.1 u inner hwf.2 hu f hf
      show match (findGrouping R' (linkAll R').1 (2 * f + 16) r₁ (inner ++ [r₁.stmt]) u.arg []).1,
        lkOf R (linkAll R).1 s.m (inner ++ [s.m.stmt]) u.arg with
        | none, none => True
        | some (g₁, gr₁, gs₁), some (g₂, gr₂, gs₂) => g₁ = g₂ ∧ CtxRel s R gr₁ gs₁ gr₂ gs₂
        | _, _ => False
      rw [h1]
      unfold lkOf
      rw [List.dropLast_concat]
      exact IncludeVisibleN.bind_partN s R R' _ _ ht hr hl hv r₁ hP inner u.arg
    · rcases chain_split s₂ hwf.2 with ⟨_, h2⟩ | ⟨inner, rfl⟩
      · have := (hr.R_modules_only r₂ hx).1
        rw [← h2, hu] at this
        exact absurd this (by decide)
      · have h1 := lookup_is_bind R' (linkAll R').1 hrefs hfuel r₂ hwf.1 u inner hwf.2 hu f hf
        show match (findGrouping R' (linkAll R').1 (2 * f + 16) r₂ (inner ++ [r₂.stmt]) u.arg []).1,
          lkOf R (linkAll R).1 r₂ (inner ++ [r₂.stmt]) u.arg with
          | none, none => True
          | some (g₁, gr₁, gs₁), some (g₂, gr₂, gs₂) => g₁ = g₂ ∧ CtxRel s R gr₁ gs₁ gr₂ gs₂
          | _, _ => False
        rw [h1]
        unfold lkOf
        rw [List.dropLast_concat]
        exact IncludeVisibleN.bind_otherN s R R' _ _ ht hr hl hv r₂ hx hne inner u.arg
  lk_kw := lkOf_kw R _
  pos := hpos

end SplitW

end Goyang.Lemmas.IncludeWorld
