import Goyang.Model.Indent
import Goyang.Spec.Indent
/-
Helper lemmas for C20: the split/join algorithm of the model refines the byte-level
specification (`tagged` / `render`), and the counting loop `written` counts caller bytes.
Core Lean only.
-/
namespace Goyang.Lemmas.Indent
open Goyang.Model.Indent
open Goyang.Spec.Indent (cutState tagged render callerBytesIn atStartAfter history pending accepted finalState)

theorem specNL : Goyang.Spec.Indent.NL = NL := rfl

/-! ### `lines`, recursively -/

theorem splitAfter_ne_nil (s : Bytes) : splitAfter s ≠ [] := by
  cases s with
  | nil => simp [splitAfter]
  | cons b r =>
    simp only [splitAfter]
    split
    · simp
    · split <;> simp

theorem dropEmptyLast_cons (x : Bytes) {l : List Bytes} (h : l ≠ []) :
    dropEmptyLast (x :: l) = x :: dropEmptyLast l := by
  obtain ⟨y, t, rfl⟩ := List.exists_cons_of_ne_nil h
  simp only [dropEmptyLast, List.getLast?_cons_cons, List.dropLast_cons_cons]
  split <;> simp_all

theorem lines_nil : lines [] = [] := by
  simp [lines, splitAfter, dropEmptyLast]

theorem lines_NL (r : Bytes) : lines (NL :: r) = [NL] :: lines r := by
  simp only [lines, splitAfter, if_true]
  exact dropEmptyLast_cons _ (splitAfter_ne_nil r)

theorem lines_cons {b : UInt8} (hb : b ≠ NL) (r : Bytes) :
    lines (b :: r) = match lines r with
      | [] => [[b]]
      | h :: t => (b :: h) :: t := by
  simp only [lines, splitAfter, if_neg hb]
  have hne := splitAfter_ne_nil r
  cases hs : splitAfter r with
  | nil => exact absurd hs hne
  | cons h t =>
    cases t with
    | nil =>
      cases h with
      | nil => simp [dropEmptyLast]
      | cons c h' => simp [dropEmptyLast]
    | cons y t' =>
      rw [dropEmptyLast_cons (b :: h) (l := y :: t') (by simp),
        dropEmptyLast_cons h (l := y :: t') (by simp)]

theorem lines_ne_nil {s : Bytes} (h : s ≠ []) : lines s ≠ [] := by
  obtain ⟨b, r, rfl⟩ := List.exists_cons_of_ne_nil h
  by_cases hb : b = NL
  · subst hb; rw [lines_NL]; simp
  · rw [lines_cons hb]; split <;> simp

/-! ### the join, with every byte tagged -/

/-- A line of caller bytes, tagged. -/
def tl (l : Bytes) : List (UInt8 × Bool) := l.map (·, true)
/-- The prefix, tagged. -/
def tp (pre : Bytes) : List (UInt8 × Bool) := pre.map (·, false)
/-- Every line preceded by the prefix. -/
def pjoin (pre : Bytes) (ls : List Bytes) : List (UInt8 × Bool) := ls.flatMap (fun l => tp pre ++ tl l)
/-- `join`, tagged: every line but the first preceded by the prefix. -/
def tjoin (pre : Bytes) : List Bytes → List (UInt8 × Bool)
  | [] => []
  | x :: rest => tl x ++ pjoin pre rest

@[simp] theorem tl_nil : tl [] = [] := rfl
@[simp] theorem tl_cons (b : UInt8) (l : Bytes) : tl (b :: l) = (b, true) :: tl l := rfl
@[simp] theorem tl_length (l : Bytes) : (tl l).length = l.length := by simp [tl]
@[simp] theorem tp_length (l : Bytes) : (tp l).length = l.length := by simp [tp]
@[simp] theorem map_fst_tl (l : Bytes) : (tl l).map (·.1) = l := by simp [tl, Function.comp_def]
@[simp] theorem map_fst_tp (l : Bytes) : (tp l).map (·.1) = l := by simp [tp, Function.comp_def]
@[simp] theorem pjoin_nil (pre : Bytes) : pjoin pre [] = [] := rfl
@[simp] theorem pjoin_cons (pre x : Bytes) (rest : List Bytes) :
    pjoin pre (x :: rest) = tp pre ++ (tl x ++ pjoin pre rest) := by
  simp [pjoin, List.append_assoc]

theorem pjoin_eq (pre : Bytes) {ls : List Bytes} (h : ls ≠ []) : pjoin pre ls = tp pre ++ tjoin pre ls := by
  obtain ⟨x, rest, rfl⟩ := List.exists_cons_of_ne_nil h
  simp [tjoin]

theorem join_cons (sep x : Bytes) (rest : List Bytes) :
    join sep (x :: rest) = x ++ rest.flatMap (sep ++ ·) := by
  induction rest generalizing x with
  | nil => simp [join]
  | cons y r ih => simp [join, ih, List.append_assoc]

theorem map_fst_pjoin (pre : Bytes) (ls : List Bytes) :
    (pjoin pre ls).map (·.1) = ls.flatMap (pre ++ ·) := by
  induction ls with
  | nil => simp
  | cons x r ih => simp [ih]

theorem join_eq_tjoin (pre : Bytes) (ls : List Bytes) : join pre ls = (tjoin pre ls).map (·.1) := by
  cases ls with
  | nil => simp [join, tjoin]
  | cons x rest => simp [join_cons, tjoin, map_fst_pjoin]

/-! ### the specification's `tagged` -/

theorem tagged_true {pre : Bytes} {s : Bytes} (h : s ≠ []) :
    tagged pre true s = tp pre ++ tagged pre false s := by
  obtain ⟨b, r, rfl⟩ := List.exists_cons_of_ne_nil h
  simp [tagged, tp]

/-- The split-and-join of the Go code puts the prefix exactly in front of every byte that follows
a line feed. -/
theorem tjoin_lines (pre : Bytes) (s : Bytes) : tjoin pre (lines s) = tagged pre false s := by
  induction s with
  | nil => simp [lines_nil, tjoin, tagged]
  | cons b r ih =>
    by_cases hb : b = NL
    · subst hb
      rw [lines_NL]
      simp only [tjoin, tagged, specNL, beq_self_eq_true]
      by_cases hr : r = []
      · subst hr; simp [lines_nil, tagged]
      · rw [pjoin_eq pre (lines_ne_nil hr), ih, tagged_true hr]; simp
    · rw [lines_cons hb]
      have hb' : (b == NL) = false := by simpa using hb
      simp only [tagged, specNL, hb']
      rw [← ih]
      cases lines r with
      | nil => simp [tjoin]
      | cons h t => simp [tjoin]

theorem tjoin_nil_lines (pre : Bytes) {s : Bytes} (h : s ≠ []) :
    tjoin pre ([] :: lines s) = tagged pre true s := by
  simp only [tjoin, tl_nil, List.nil_append]
  rw [pjoin_eq pre (lines_ne_nil h), tjoin_lines, tagged_true h]

/-- What `Write` hands down, tagged. -/
theorem tjoin_write (pre : Bytes) (p : Bool) {s : Bytes} (h : s ≠ []) :
    tjoin pre (if p then lines s else [] :: lines s) = tagged pre (!p) s := by
  cases p with
  | true => simp [tjoin_lines]
  | false => simp [tjoin_nil_lines pre h]

theorem join_write (pre : Bytes) (p : Bool) {s : Bytes} (h : s ≠ []) :
    join pre (if p then lines s else [] :: lines s) = render pre (!p) s := by
  rw [join_eq_tjoin, tjoin_write pre p h]; rfl

theorem render_nil (pre : Bytes) (a : Bool) : render pre a [] = [] := by simp [render, tagged]

theorem render_cons (pre : Bytes) (a : Bool) (b : UInt8) (r : Bytes) :
    render pre a (b :: r) = (if a then pre else []) ++ b :: render pre (b == NL) r := by
  cases a <;> simp [render, tagged, specNL, Function.comp_def]

theorem render_empty_prefix (a : Bool) (s : Bytes) : render [] a s = s := by
  induction s generalizing a with
  | nil => simp [render_nil]
  | cons b r ih => simp [render_cons, ih]

theorem getLast?_some {s : Bytes} (h : s ≠ []) : ∃ b, s.getLast? = some b :=
  ⟨_, List.getLast?_eq_some_getLast h⟩

theorem atStartAfter_cons (a : Bool) (b : UInt8) (r : Bytes) :
    atStartAfter a (b :: r) = atStartAfter (b == NL) r := by
  cases r with
  | nil => simp [atStartAfter, specNL]
  | cons c r' =>
    obtain ⟨x, hx⟩ := getLast?_some (s := c :: r') (by simp)
    simp [atStartAfter, List.getLast?_cons_cons, hx]

theorem atStartAfter_ne_nil {s : Bytes} (h : s ≠ []) (a a' : Bool) : atStartAfter a s = atStartAfter a' s := by
  obtain ⟨b, r, rfl⟩ := List.exists_cons_of_ne_nil h
  simp [atStartAfter_cons]

theorem atStartAfter_append (a : Bool) (s t : Bytes) :
    atStartAfter a (s ++ t) = atStartAfter (atStartAfter a s) t := by
  induction s generalizing a with
  | nil => simp [atStartAfter]
  | cons b r ih => simp only [List.cons_append, atStartAfter_cons, ih]

theorem tagged_append (pre : Bytes) (a : Bool) (s t : Bytes) :
    tagged pre a (s ++ t) = tagged pre a s ++ tagged pre (atStartAfter a s) t := by
  induction s generalizing a with
  | nil => simp [tagged, atStartAfter]
  | cons b r ih =>
    simp only [List.cons_append, tagged, ih, atStartAfter_cons, specNL, List.append_assoc,
      List.cons_append]

theorem render_append (pre : Bytes) (a : Bool) (s t : Bytes) :
    render pre a (s ++ t) = render pre a s ++ render pre (atStartAfter a s) t := by
  simp [render, tagged_append]

/-- The rendering ends with the last byte of the text: nothing follows the final line break. -/
theorem render_getLast? (pre : Bytes) (a : Bool) {s : Bytes} (h : s ≠ []) :
    (render pre a s).getLast? = s.getLast? := by
  induction s generalizing a with
  | nil => exact absurd rfl h
  | cons b r ih =>
    rw [render_cons]
    cases r with
    | nil => simp [render_nil]
    | cons c r' =>
      have h1 := ih (b == NL) (by simp)
      rw [List.getLast?_append, List.getLast?_cons, h1]
      simp [List.getLast?_cons]

theorem partial_bit (pre : Bytes) (a : Bool) {s : Bytes} (h : s ≠ []) :
    ((render pre a s).getLast? != some NL) = !(atStartAfter a s) := by
  rw [render_getLast? pre a h]
  obtain ⟨b, hb⟩ := getLast?_some h
  simp [atStartAfter, hb, specNL, bne]

/-! ### counting -/

theorem countP_take_tp (pre : Bytes) (k : Nat) : ((tp pre).take k).countP (·.2) = 0 := by
  rw [List.countP_eq_zero]
  intro x hx
  have := List.mem_of_mem_take hx
  simp only [tp, List.mem_map] at this
  obtain ⟨_, _, rfl⟩ := this
  simp

theorem countP_take_tl (l : Bytes) (k : Nat) : ((tl l).take k).countP (·.2) = min k l.length := by
  have : ((tl l).take k).countP (·.2) = ((tl l).take k).length := by
    rw [List.countP_eq_length]
    intro x hx
    have := List.mem_of_mem_take hx
    simp only [tl, List.mem_map] at this
    obtain ⟨_, _, rfl⟩ := this
    simp
  rw [this]; simp

theorem countP_tagged (pre : Bytes) (a : Bool) (s : Bytes) : (tagged pre a s).countP (·.2) = s.length := by
  induction s generalizing a with
  | nil => simp [tagged]
  | cons b r ih =>
    simp only [tagged, List.countP_append, List.countP_cons, ih]
    have : List.countP (·.2) (if a then List.map (·, false) pre else []) = 0 := by
      cases a
      · simp
      · simp
    simp [this]

/-- Dropping the prefix bytes from the tagged rendering gives back the text. -/
theorem filter_tagged (pre : Bytes) (a : Bool) (s : Bytes) :
    ((tagged pre a s).filter (·.2)).map (·.1) = s := by
  induction s generalizing a with
  | nil => simp [tagged]
  | cons b r ih =>
    have : List.filter (·.2) (if a then List.map (·, false) pre else []) = [] := by
      cases a <;> simp
    simp [tagged, this, ih]

theorem callerBytesIn_le (pre : Bytes) (a : Bool) (s : Bytes) (k : Nat) :
    callerBytesIn pre a s k ≤ s.length := by
  unfold callerBytesIn
  calc _ ≤ (tagged pre a s).countP (·.2) := (List.take_sublist k _).countP_le
    _ = s.length := countP_tagged pre a s

/-- Caller bytes among the first `r` bytes of a line followed by more output. -/
theorem countP_take_line (line : Bytes) (rest : List (UInt8 × Bool)) (r : Int) :
    ((tl line ++ rest).take r.toNat).countP (·.2) =
      if r ≤ 0 then 0
      else if r ≤ line.length then r.toNat
      else line.length + (rest.take (r - line.length).toNat).countP (·.2) := by
  rw [List.take_append, List.countP_append, countP_take_tl, tl_length]
  split
  · next h =>
    have : r.toNat = 0 := by omega
    simp [this]
  · split
    · next h1 h2 =>
      have : r.toNat - line.length = 0 := by omega
      simp [this]; omega
    · next h1 h2 =>
      have : r.toNat - line.length = (r - line.length).toNat := by omega
      rw [this]; omega

/-- The counting loop returns the number of caller bytes among the first `remain` bytes of what
is left of the joined output (`first`: the prefix in front of the next line is not part of it). -/
theorem written_eq (pre : Bytes) (ls : List Bytes) (first : Bool) (remain actual : Int) :
    written pre.length first remain ls actual =
      actual + ((((pjoin pre ls).drop (if first then pre.length else 0)).take remain.toNat).countP (·.2) : Nat) := by
  induction ls generalizing first remain actual with
  | nil => simp [written]
  | cons line rest ih =>
    have key : (((pjoin pre (line :: rest)).drop (if first then pre.length else 0)).take remain.toNat).countP (·.2)
        = ((tl line ++ pjoin pre rest).take (if first then remain else remain - pre.length).toNat).countP (·.2) := by
      cases first with
      | true =>
        simp only [pjoin_cons, if_true]
        rw [List.drop_left' (tp_length pre)]
      | false =>
        simp only [pjoin_cons, Bool.false_eq_true, if_false, List.drop_zero]
        rw [List.take_append, List.countP_append, countP_take_tp, tp_length]
        have : remain.toNat - pre.length = (remain - pre.length).toNat := by omega
        rw [this]; simp
    rw [key, countP_take_line]
    simp only [written]
    generalize (if first = true then remain else remain - (pre.length : Int)) = r
    split
    · simp
    · split
      · next h1 h2 => simp; omega
      · rw [ih]; simp; omega

/-- The count `Write` returns on a short write, against the specification. -/
theorem written_write (pre : Bytes) (p : Bool) {s : Bytes} (h : s ≠ []) (k : Nat) :
    written pre.length true k (if p then lines s else [] :: lines s) 0 = callerBytesIn pre (!p) s k := by
  have hne : (if p then lines s else [] :: lines s) ≠ [] := by
    cases p
    · simp
    · simpa using lines_ne_nil h
  rw [written_eq, pjoin_eq pre hne, tjoin_write pre p h]
  simp only [if_true]
  rw [List.drop_left' (tp_length pre)]
  simp [callerBytesIn]

/-! ### the line state after a short write (`partialAfter`) -/

theorem lines_mem_ne_nil (s : Bytes) : ∀ l ∈ lines s, l ≠ [] := by
  induction s with
  | nil => simp [lines_nil]
  | cons b r ih =>
    by_cases hb : b = NL
    · subst hb; rw [lines_NL]
      intro l hl
      rcases List.mem_cons.mp hl with rfl | hl
      · simp
      · exact ih l hl
    · rw [lines_cons hb]
      cases hr : lines r with
      | nil => simp
      | cons h t =>
        intro l hl
        rcases List.mem_cons.mp hl with rfl | hl
        · simp
        · exact ih l (by rw [hr]; exact List.mem_cons_of_mem _ hl)

/-- The line state the code must record when the last byte taken is byte `j` of the tagged output:
a caller byte leaves the line open unless it is a line feed; a prefix byte leaves it open (the prefix
is out) unless the next byte is a prefix byte too. -/
def codeState (T : List (UInt8 × Bool)) (j : Nat) : Bool :=
  match T[j]? with
  | some (b, true) => b != NL
  | some (_, false) =>
    (match T[j + 1]? with
     | some (_, false) => false
     | _ => true)
  | none => false

theorem codeState_append_right (A B : List (UInt8 × Bool)) (j : Nat) (h : A.length ≤ j) :
    codeState (A ++ B) j = codeState B (j - A.length) := by
  have h1 : (A ++ B)[j]? = B[j - A.length]? := List.getElem?_append_right h
  have h2 : (A ++ B)[j + 1]? = B[j - A.length + 1]? := by
    rw [List.getElem?_append_right (by omega)]; congr 1; omega
  simp only [codeState, h1, h2]

theorem tl_getElem? (l : Bytes) (j : Nat) : (tl l)[j]? = (l[j]?).map (·, true) := by
  simp [tl]

theorem tp_getElem? (l : Bytes) (j : Nat) : (tp l)[j]? = (l[j]?).map (·, false) := by
  simp [tp]

/-- The loop of `partialAfter` finds the line state at the cut (`j + 1` bytes taken of what is left
of the joined output), provided every line after the first element is non-empty (as the lines of
a split text are). -/
theorem partialAfterGo_eq (pre : Bytes) (all ls : List Bytes) (first : Bool) (j : Nat)
    (hj : j < ((pjoin pre ls).drop (if first then pre.length else 0)).length)
    (hne : ∀ l ∈ ls.drop (if first then 1 else 0), l ≠ []) :
    partialAfterGo pre.length all first (j + 1) ls =
      some (codeState ((pjoin pre ls).drop (if first then pre.length else 0)) j) := by
  induction ls generalizing first j with
  | nil => simp at hj
  | cons line rest ih =>
    -- the part shared by both values of `first`: `m + 1` bytes of `tl line ++ pjoin pre rest`
    have body : ∀ m : Nat, m < (tl line ++ pjoin pre rest).length → (∀ l ∈ rest, l ≠ []) →
        (if m + 1 ≤ line.length then (line[m]?).map (· != NL)
         else partialAfterGo pre.length all false (m + 1 - line.length) rest) =
        some (codeState (tl line ++ pjoin pre rest) m) := by
      intro m hm hrest
      by_cases hml : m + 1 ≤ line.length
      · have hlt : m < line.length := by omega
        have : (tl line ++ pjoin pre rest)[m]? = some (line[m], true) := by
          rw [List.getElem?_append_left (by simpa using hlt), tl_getElem?]; simp [hlt]
        simp [hml, codeState, this, hlt]
      · have hge : line.length ≤ m := by omega
        have e : m + 1 - line.length = (m - line.length) + 1 := by omega
        rw [if_neg hml, e]
        have := ih false (m - line.length) (by simp at hm ⊢; omega) (by simpa using hrest)
        simp only [Bool.false_eq_true, if_false, List.drop_zero] at this
        rw [this, codeState_append_right _ _ _ (by simpa using hge)]
        simp
    cases first with
    | true =>
      simp only [if_true, pjoin_cons] at hj hne ⊢
      rw [List.drop_left' (tp_length pre)] at hj ⊢
      have hrest : ∀ l ∈ rest, l ≠ [] := by simpa using hne
      have := body j hj hrest
      simp only [partialAfterGo, Bool.not_true, Bool.false_and, Bool.false_eq_true, if_false, if_true]
      split
      · next h => simpa [h] using this
      · next h => simpa [h] using this
    | false =>
      simp only [Bool.false_eq_true, if_false, List.drop_zero, pjoin_cons] at hj hne ⊢
      have hline : line ≠ [] := hne line (by simp)
      have hrest : ∀ l ∈ rest, l ≠ [] := fun l hl => hne l (by simp [hl])
      simp only [partialAfterGo, Bool.not_false, Bool.true_and, Bool.false_eq_true, if_false]
      by_cases h1 : j + 1 < pre.length
      · -- inside the prefix
        have a : (tp pre ++ (tl line ++ pjoin pre rest))[j]? = some (pre[j], false) := by
          rw [List.getElem?_append_left (by simp; omega), tp_getElem?]; simp [show j < pre.length by omega]
        have b : (tp pre ++ (tl line ++ pjoin pre rest))[j + 1]? = some (pre[j + 1], false) := by
          rw [List.getElem?_append_left (by simp; omega), tp_getElem?]; simp [h1]
        simp [h1, codeState, a, b]
      · by_cases h2 : j + 1 = pre.length
        · -- exactly after the prefix
          have hl0 : 0 < line.length := List.length_pos_iff.mpr hline
          have a : (tp pre ++ (tl line ++ pjoin pre rest))[j]? = some (pre[j], false) := by
            rw [List.getElem?_append_left (by simp; omega), tp_getElem?]; simp [show j < pre.length by omega]
          have b : (tp pre ++ (tl line ++ pjoin pre rest))[j + 1]? = some (line[0], true) := by
            rw [List.getElem?_append_right (by simp; omega),
              List.getElem?_append_left (by simp; omega), tl_getElem?]
            simp [h2, hl0]
          simp only [codeState, a, b]
          simp [h2]
        · have hge : pre.length ≤ j := by omega
          have e : j + 1 - pre.length = (j - pre.length) + 1 := by omega
          have hm : j - pre.length < (tl line ++ pjoin pre rest).length := by
            simp at hj ⊢; omega
          have := body (j - pre.length) hm hrest
          rw [codeState_append_right _ _ _ (by simpa using hge)]
          simp only [tp_length]
          rw [← this]
          simp only [h1, e]
          simp

/-! ### `write`, as a whole record -/

theorem write_none_eq (pre : Bytes) (p : Bool) (buf : Bytes) :
    write pre p buf none =
      { partial_ := !(atStartAfter (!p) buf), handed := render pre (!p) buf,
        reached := render pre (!p) buf, n := buf.length, err := false } := by
  by_cases hb : buf = []
  · subst hb; simp [write, render_nil, atStartAfter]
  · have hj := join_write pre p hb
    have hp := partial_bit pre (!p) hb
    simp only [write, List.isEmpty_iff, hb, if_false, hj, hp]

theorem callerBytesIn_min (pre : Bytes) (a : Bool) (s : Bytes) (k : Nat) :
    callerBytesIn pre a s (min k (render pre a s).length) = callerBytesIn pre a s k := by
  have hlen : (render pre a s).length = (tagged pre a s).length := by simp [render]
  simp only [callerBytesIn, hlen, ← List.take_eq_take_min]

/-- The line state `Write` records on a short write: that of the cut, as the specification of
histories has it (`cutState`); after a cut inside a prefix: "at a line start". -/
def stateOfCut : Option Bool → Bool
  | some a => !a
  | none => false

theorem partialAfter_write (pre : Bytes) (p : Bool) {s : Bytes} (h : s ≠ []) (k : Nat) :
    partialAfter (min k (render pre (!p) s).length) pre.length (if p then lines s else [] :: lines s) p =
      some (stateOfCut (cutState pre (!p) s k)) := by
  have hlen : (render pre (!p) s).length = (tagged pre (!p) s).length := by simp [render]
  have hne : (if p then lines s else [] :: lines s) ≠ [] := by
    cases p
    · simp
    · simpa using lines_ne_nil h
  have hT : (pjoin pre (if p then lines s else [] :: lines s)).drop pre.length = tagged pre (!p) s := by
    rw [pjoin_eq pre hne, tjoin_write pre p h, List.drop_left' (tp_length pre)]
  rw [hlen]
  cases hk : min k (tagged pre (!p) s).length with
  | zero => simp [partialAfter, cutState, hk, stateOfCut]
  | succ j =>
    simp only [partialAfter, cutState, hk]
    have hj : j < (tagged pre (!p) s).length := by omega
    have hmem : ∀ l ∈ (if p then lines s else [] :: lines s).drop 1, l ≠ [] := by
      intro l hl
      cases p
      · exact lines_mem_ne_nil s l (by simpa using hl)
      · exact lines_mem_ne_nil s l (List.mem_of_mem_tail (by simpa using hl))
    have := partialAfterGo_eq pre (if p then lines s else [] :: lines s) (if p then lines s else [] :: lines s)
      true j (by simpa [hT] using hj) (by simpa using hmem)
    simp only [if_true, hT] at this
    simp only [this, Option.some.injEq]
    have hsome : ∃ x, (tagged pre (!p) s)[j]? = some x := ⟨_, List.getElem?_eq_getElem hj⟩
    obtain ⟨⟨b, t⟩, hx⟩ := hsome
    cases t with
    | true => simp [codeState, hx, stateOfCut, specNL, bne]
    | false =>
      simp only [codeState, hx]
      cases hy : (tagged pre (!p) s)[j + 1]? with
      | none => simp [stateOfCut]
      | some y =>
        obtain ⟨b', t'⟩ := y
        cases t' <;> simp [stateOfCut]

theorem write_some_eq (pre : Bytes) (p : Bool) {buf : Bytes} (h : buf ≠ []) (k : Nat) :
    write pre p buf (some k) =
      { partial_ := stateOfCut (cutState pre (!p) buf k), handed := render pre (!p) buf,
        reached := (render pre (!p) buf).take k, n := callerBytesIn pre (!p) buf k, err := true,
        crash := false } := by
  have hj := join_write pre p h
  have hw := written_write pre p h (min k (render pre (!p) buf).length)
  have hc := callerBytesIn_min pre (!p) buf k
  have hs := partialAfter_write pre p h k
  simp only [write, List.isEmpty_iff, h, if_false, hj, hw, hc, hs, ← List.take_eq_take_min,
    Option.isNone_some]

/-! ### what a history leaves with the underlying writer -/

/-- `cutState` on the tagged list. -/
def cutAt (t : List (UInt8 × Bool)) (a : Bool) (k : Nat) : Option Bool :=
  match min k t.length with
  | 0 => some a
  | j + 1 =>
    match t[j]? with
    | some (b, true) => some (b == NL)
    | some (_, false) =>
      match t[j + 1]? with
      | some (_, false) => none
      | _ => some false
    | none => some a

theorem cutState_eq_cutAt (pre : Bytes) (a : Bool) (s : Bytes) (k : Nat) :
    cutState pre a s k = cutAt (tagged pre a s) a k := rfl

theorem countP_tp (q : Bytes) : (tp q).countP (·.2) = 0 := by
  have := countP_take_tp q (tp q).length
  rwa [List.take_length] at this

theorem tagged_cons' (pre : Bytes) (a : Bool) (b : UInt8) (r : Bytes) :
    tagged pre a (b :: r) = tp (if a then pre else []) ++ (b, true) :: tagged pre (b == NL) r := by
  cases a <;> simp [tagged, tp, specNL]

theorem cutAt_zero (t : List (UInt8 × Bool)) (a : Bool) : cutAt t a 0 = some a := by
  simp [cutAt]

theorem cutAt_inside (q : Bytes) (x : UInt8 × Bool) (t' : List (UInt8 × Bool)) (a : Bool) (k : Nat)
    (h0 : 0 < k) (hk : k < q.length) : cutAt (tp q ++ x :: t') a k = none := by
  obtain ⟨j, rfl⟩ : ∃ j, k = j + 1 := ⟨k - 1, by omega⟩
  have hmin : min (j + 1) (tp q ++ x :: t').length = j + 1 := by simp; omega
  have e1 : (tp q ++ x :: t')[j]? = some (q[j], false) := by
    rw [List.getElem?_append_left (by simp; omega), tp_getElem?]; simp [show j < q.length by omega]
  have e2 : (tp q ++ x :: t')[j + 1]? = some (q[j + 1], false) := by
    rw [List.getElem?_append_left (by simp; omega), tp_getElem?]; simp [hk]
  simp only [cutAt, hmin, e1, e2]

theorem cutAt_after_prefix (q : Bytes) (b : UInt8) (t' : List (UInt8 × Bool)) (a : Bool)
    (h0 : 0 < q.length) : cutAt (tp q ++ (b, true) :: t') a q.length = some false := by
  obtain ⟨j, hj⟩ : ∃ j, q.length = j + 1 := ⟨q.length - 1, by omega⟩
  have hmin : min q.length (tp q ++ (b, true) :: t').length = j + 1 := by simp; omega
  have e1 : (tp q ++ (b, true) :: t')[j]? = some (q[j], false) := by
    rw [List.getElem?_append_left (by simp; omega), tp_getElem?]; simp [show j < q.length by omega]
  have e2 : (tp q ++ (b, true) :: t')[j + 1]? = some (b, true) := by
    rw [List.getElem?_append_right (by simp; omega)]; simp [hj]
  simp only [cutAt, hmin, e1, e2]

theorem cutAt_shift (q : Bytes) (b : UInt8) (t' : List (UInt8 × Bool)) (a : Bool) (k2 : Nat) :
    cutAt (tp q ++ (b, true) :: t') a (q.length + 1 + k2) = cutAt t' (b == NL) k2 := by
  cases hm : min k2 t'.length with
  | zero =>
    have hmin : min (q.length + 1 + k2) (tp q ++ (b, true) :: t').length = q.length + 1 := by
      simp; omega
    have e1 : (tp q ++ (b, true) :: t')[q.length]? = some (b, true) := by
      rw [List.getElem?_append_right (by simp)]; simp
    simp only [cutAt, hmin, hm, e1]
  | succ j2 =>
    have hj2 : j2 < t'.length := by omega
    have hmin : min (q.length + 1 + k2) (tp q ++ (b, true) :: t').length = (q.length + 1 + j2) + 1 := by
      simp; omega
    have e1 : (tp q ++ (b, true) :: t')[q.length + 1 + j2]? = t'[j2]? := by
      rw [List.getElem?_append_right (by simp; omega)]
      simp only [tp_length]
      have : q.length + 1 + j2 - q.length = j2 + 1 := by omega
      rw [this]; simp
    have e2 : (tp q ++ (b, true) :: t')[q.length + 1 + j2 + 1]? = t'[j2 + 1]? := by
      rw [List.getElem?_append_right (by simp; omega)]
      simp only [tp_length]
      have : q.length + 1 + j2 + 1 - q.length = (j2 + 1) + 1 := by omega
      rw [this]; simp
    have hs : ∃ x, t'[j2]? = some x := ⟨_, List.getElem?_eq_getElem hj2⟩
    obtain ⟨x, hx⟩ := hs
    simp only [cutAt, hmin, hm, e1, e2, hx]
    obtain ⟨xb, xt⟩ := x
    cases xt <;> rfl

/-- One short write: what the underlying writer took is the rendering of the counted bytes, plus the
prefix of the next line when the cut fell exactly after it; and the state at the cut is the state
after the counted bytes, except in that case. -/
theorem take_render (pre : Bytes) (a : Bool) (c : Bytes) (k : Nat) (a' : Bool)
    (h : cutState pre a c k = some a') :
    (render pre a c).take k =
      render pre a (c.take (callerBytesIn pre a c k)) ++
        pending pre (atStartAfter a (c.take (callerBytesIn pre a c k))) a' ∧
    (a' = atStartAfter a (c.take (callerBytesIn pre a c k)) ∨
      (atStartAfter a (c.take (callerBytesIn pre a c k)) = true ∧ a' = false)) := by
  induction c generalizing a k with
  | nil =>
    simp [cutState, tagged] at h
    subst h
    simp [render_nil, callerBytesIn, tagged, atStartAfter, pending]
  | cons b r ih =>
    rw [cutState_eq_cutAt, tagged_cons'] at h
    generalize hq : (if a then pre else []) = q at h
    have hren : render pre a (b :: r) = q ++ b :: render pre (b == NL) r := by rw [render_cons, hq]
    have hcb : ∀ k, callerBytesIn pre a (b :: r) k =
        ((tp q ++ (b, true) :: tagged pre (b == NL) r).take k).countP (·.2) := by
      intro k; rw [callerBytesIn, tagged_cons', hq]
    by_cases hk0 : k = 0
    · subst hk0
      rw [cutAt_zero] at h
      cases h
      simp [hcb, render_nil, atStartAfter, pending]
    by_cases hk1 : k < q.length
    · rw [cutAt_inside q _ _ a k (by omega) hk1] at h; cases h
    by_cases hk2 : k = q.length
    · subst hk2
      rw [cutAt_after_prefix q b _ a (by omega)] at h
      cases h
      have hn : callerBytesIn pre a (b :: r) q.length = 0 := by
        rw [hcb, List.take_left' (tp_length q)]
        exact countP_tp q
      have ha : a = true := by
        cases a
        · simp at hq; subst hq; simp at hk0
        · rfl
      subst ha
      simp only [if_true] at hq
      subst hq
      simp [hn, hren, render_nil, atStartAfter, pending]
    · obtain ⟨k2, rfl⟩ : ∃ k2, k = q.length + 1 + k2 := ⟨k - q.length - 1, by omega⟩
      rw [cutAt_shift, ← cutState_eq_cutAt] at h
      obtain ⟨ih1, ih2⟩ := ih (b == NL) k2 h
      have hn : callerBytesIn pre a (b :: r) (q.length + 1 + k2) = callerBytesIn pre (b == NL) r k2 + 1 := by
        rw [hcb, callerBytesIn]
        have : q.length + 1 + k2 = (tp q).length + (1 + k2) := by simp; omega
        rw [this, List.take_length_add_append, List.countP_append]
        simp [countP_tp, Nat.add_comm 1 k2, List.take_succ_cons]
      rw [hn, hren]
      have : q.length + 1 + k2 = q.length + (k2 + 1) := by omega
      rw [this, List.take_length_add_append, List.take_succ_cons, ih1]
      simp only [List.take_succ_cons, render_cons, hq, atStartAfter_cons, List.append_assoc,
        List.cons_append]
      exact ⟨trivial, ih2⟩


/-- From inside a line, a history that accepts nothing ends inside the line. -/
theorem finalState_of_accepted_nil (pre : Bytes) (cs : List (Bytes × Option Nat)) (st : Bool)
    (hacc : accepted pre false cs = []) (hf : finalState pre false cs = some st) : st = false := by
  induction cs with
  | nil => simp [finalState] at hf; exact hf
  | cons c cs ih =>
    obtain ⟨buf, u⟩ := c
    cases u with
    | none =>
      simp only [accepted, List.append_eq_nil_iff] at hacc
      obtain ⟨hb, hr⟩ := hacc
      subst hb
      simp only [finalState, atStartAfter, List.getLast?_nil] at hf hr
      exact ih hr hf
    | some k =>
      by_cases hb : buf = []
      · subst hb
        simp only [accepted, finalState, List.isEmpty_nil, if_true] at hacc hf
        exact ih hacc hf
      · simp only [accepted, finalState, List.isEmpty_iff, hb, if_false, List.append_eq_nil_iff] at hacc hf
        cases hc : cutState pre false buf k with
        | none => simp [hc] at hf
        | some a' =>
          simp only [hc] at hacc hf
          obtain ⟨ht, hr⟩ := hacc
          have h2 := (take_render pre false buf k a' hc).2
          rw [ht] at h2
          simp only [atStartAfter, List.getLast?_nil] at h2
          have ha' : a' = false := by
            rcases h2 with h | ⟨h, _⟩
            · exact h
            · cases h
          subst ha'
          exact ih hr hf

/-- What the specification of histories leaves with the underlying writer is the rendering of the
accepted bytes as one text, plus the pending prefix. -/
theorem history_sink (pre : Bytes) (a : Bool) (cs : List (Bytes × Option Nat)) (st : Bool)
    (hf : finalState pre a cs = some st) :
    (history pre a cs).1 =
      render pre a (accepted pre a cs) ++ pending pre (atStartAfter a (accepted pre a cs)) st := by
  induction cs generalizing a with
  | nil =>
    simp only [finalState, Option.some.injEq] at hf
    subst hf
    simp [history, accepted, render_nil, atStartAfter, pending]
  | cons c cs ih =>
    obtain ⟨buf, u⟩ := c
    cases u with
    | none =>
      simp only [finalState] at hf
      simp only [history, accepted, ih _ hf, render_append, atStartAfter_append, List.append_assoc]
    | some k =>
      by_cases hb : buf = []
      · subst hb
        simp only [finalState, List.isEmpty_nil, if_true] at hf
        simp only [history, accepted, List.isEmpty_nil, if_true, ih _ hf]
      · simp only [finalState, List.isEmpty_iff, hb, if_false] at hf
        cases hc : cutState pre a buf k with
        | none => simp [hc] at hf
        | some a' =>
          simp only [hc] at hf
          obtain ⟨h1, h2⟩ := take_render pre a buf k a' hc
          simp only [history, accepted, List.isEmpty_iff, hb, if_false, hc, h1, ih _ hf, render_append,
            atStartAfter_append, List.append_assoc]
          congr 1
          rcases h2 with h | ⟨h, h'⟩
          · rw [← h]; simp [pending]
          · rw [h, h']
            simp only [h'] at hf
            by_cases hacc : accepted pre false cs = []
            · have := finalState_of_accepted_nil pre cs st hacc hf
              subst this
              simp [hacc, render_nil, atStartAfter, pending]
            · obtain ⟨x, r, hx⟩ := List.exists_cons_of_ne_nil hacc
              rw [atStartAfter_ne_nil hacc true false]
              simp [hx, render_cons, pending]

end Goyang.Lemmas.Indent
