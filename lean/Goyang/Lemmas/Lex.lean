/-
Totality of the lexer model for arbitrary byte input: no loop runs out of the fuel the model
gives it, no slice is taken out of range (`fault` stays `none`), and every token handed out
costs the measure `rank` at least one (the fuel bound of the parser rests on this).
-/
import Goyang.Model.Lex
import Goyang.Lemmas.Utf8

namespace Goyang.Lemmas.Lex
open Goyang.Model.Lex Goyang.Model.Utf8 Goyang.Lemmas.Utf8

/-! ## `next` -/

theorem next_nil (l : Lexer) (h : l.rest = []) : next l = (eofRune, { l with width := 0 }) := by
  unfold next; rw [h]

theorem next_cons (l : Lexer) (h : l.rest ≠ []) :
    (next l).1 = (decodeRune l.rest).1 ∧
    (next l).2.before = (l.rest.take (decodeRune l.rest).2).reverse ++ l.before ∧
    (next l).2.rest = l.rest.drop (decodeRune l.rest).2 ∧
    (next l).2.width = (decodeRune l.rest).2 := by
  unfold next
  split
  · rename_i h'; exact absurd h' h
  · simp only
    split
    · simp
    · split <;> simp

theorem next_fst_ne_eof (l : Lexer) (h : l.rest ≠ []) : (next l).1 ≠ eofRune := by
  rw [(next_cons l h).1]
  have := decodeRune_lt l.rest
  unfold eofRune; omega

/-- the fields cursor movement does not touch -/
structure Frame (l l' : Lexer) : Prop where
  errout : l'.errout = l.errout
  errcnt : l'.errcnt = l.errcnt
  file : l'.file = l.file
  start : l'.start = l.start
  inPattern : l'.inPattern = l.inPattern
  items : l'.items = l.items
  scol : l'.scol = l.scol
  sline : l'.sline = l.sline
  state : l'.state = l.state
  fault : l'.fault = l.fault

theorem Frame.refl (l : Lexer) : Frame l l := ⟨rfl, rfl, rfl, rfl, rfl, rfl, rfl, rfl, rfl, rfl⟩

theorem Frame.trans {a b c : Lexer} (h1 : Frame a b) (h2 : Frame b c) : Frame a c :=
  ⟨h2.errout.trans h1.errout, h2.errcnt.trans h1.errcnt, h2.file.trans h1.file, h2.start.trans h1.start,
   h2.inPattern.trans h1.inPattern, h2.items.trans h1.items, h2.scol.trans h1.scol, h2.sline.trans h1.sline,
   h2.state.trans h1.state, h2.fault.trans h1.fault⟩

theorem next_frame (l : Lexer) : Frame l (next l).2 := by
  unfold next
  split
  · exact ⟨rfl, rfl, rfl, rfl, rfl, rfl, rfl, rfl, rfl, rfl⟩
  · simp only
    split
    · exact ⟨rfl, rfl, rfl, rfl, rfl, rfl, rfl, rfl, rfl, rfl⟩
    · split <;> exact ⟨rfl, rfl, rfl, rfl, rfl, rfl, rfl, rfl, rfl, rfl⟩

/-- bytes are only moved from `rest` to `before` -/
theorem next_move (l : Lexer) :
    (next l).2.before.length = l.before.length + (next l).2.width ∧
    (next l).2.rest.length + (next l).2.width = l.rest.length ∧
    (l.rest ≠ [] → 1 ≤ (next l).2.width) := by
  by_cases h : l.rest = []
  · rw [next_nil l h]; simp [h]
  · obtain ⟨_, hb, hr, hw⟩ := next_cons l h
    have hd := decodeRune_width l.rest
    rw [hb, hr, hw]
    simp only [List.length_append, List.length_reverse, List.length_take, List.length_drop]
    refine ⟨by omega, by omega, fun _ => hd.2 h⟩

/-! ## `backup`, `peek` -/

theorem backup_spec (l : Lexer) (h : l.width ≤ l.before.length) :
    (backup l).before = l.before.drop l.width ∧
    (backup l).rest = (l.before.take l.width).reverse ++ l.rest ∧
    (backup l).width = l.width ∧
    Frame l (backup l) := by
  unfold backup Lexer.pos
  rw [if_neg (by omega)]
  simp only
  split
  · split <;> exact ⟨rfl, rfl, rfl, ⟨rfl, rfl, rfl, rfl, rfl, rfl, rfl, rfl, rfl, rfl⟩⟩
  · exact ⟨rfl, rfl, rfl, ⟨rfl, rfl, rfl, rfl, rfl, rfl, rfl, rfl, rfl, rfl⟩⟩

/-- `next` followed by `backup` puts the cursor back -/
theorem backup_next (l : Lexer) :
    (backup (next l).2).before = l.before ∧ (backup (next l).2).rest = l.rest ∧
    Frame l (backup (next l).2) := by
  have hm := next_move l
  have hb := backup_spec (next l).2 (by omega)
  refine ⟨?_, ?_, (next_frame l).trans hb.2.2.2⟩
  · rw [hb.1]
    by_cases h : l.rest = []
    · rw [next_nil l h]; simp
    · obtain ⟨_, hb', _, hw⟩ := next_cons l h
      have hd := decodeRune_width l.rest
      rw [hb', hw]
      rw [List.drop_append_of_le_length (by simp; omega)]
      rw [List.drop_of_length_le (by simp; omega)]
      simp
  · rw [hb.2.1]
    by_cases h : l.rest = []
    · rw [next_nil l h]; simp [h]
    · obtain ⟨_, hb', hr, hw⟩ := next_cons l h
      have hd := decodeRune_width l.rest
      rw [hb', hw, hr]
      rw [List.take_append_of_le_length (by simp; omega)]
      rw [List.take_of_length_le (by simp; omega)]
      simp

theorem peek_fst (l : Lexer) : (peek l).1 = (next l).1 := rfl

theorem peek_snd (l : Lexer) :
    (peek l).2.before = l.before ∧ (peek l).2.rest = l.rest ∧ Frame l (peek l).2 := backup_next l

theorem next_fst_congr (a b : Lexer) (h : a.rest = b.rest) : (next a).1 = (next b).1 := by
  unfold next
  rw [h]
  split
  · rfl
  · simp only
    split
    · rfl
    · split <;> rfl

/-! ## `acceptRun` -/

/-- the loop stops right after reading a rune that is not white space (or the end marker) -/
theorem acceptRunLoop_spec : ∀ (f : Nat) (ret : Bool) (l : Lexer), l.rest.length + 1 ≤ f →
    ∃ l0, (acceptRunLoop f ret l).2 = (next l0).2 ∧ isSpaceRune (next l0).1 = false ∧ Frame l l0 ∧
      l0.before.length + l0.rest.length = l.before.length + l.rest.length ∧
      l.before.length ≤ l0.before.length := by
  intro f
  induction f with
  | zero => intro ret l h; omega
  | succ f ih =>
    intro ret l h
    unfold acceptRunLoop
    simp only
    split
    · rename_i hs
      have hm := next_move l
      have hne : l.rest ≠ [] := by
        intro he
        rw [next_nil l he] at hs
        simp [isSpaceRune, eofRune] at hs
      obtain ⟨l0, h1, h2, h3, h4, h5⟩ := ih true (next l).2 (by have := hm.2.2 hne; omega)
      exact ⟨l0, h1, h2, (next_frame l).trans h3, by omega, by omega⟩
    · rename_i hs
      exact ⟨l, rfl, by simpa using hs, Frame.refl l, rfl, Nat.le_refl _⟩

theorem acceptRun_spec (l : Lexer) :
    Frame l (acceptRun l).2 ∧
    (acceptRun l).2.before.length + (acceptRun l).2.rest.length = l.before.length + l.rest.length ∧
    l.before.length ≤ (acceptRun l).2.before.length ∧
    isSpaceRune (next (acceptRun l).2).1 = false := by
  obtain ⟨l0, h1, h2, h3, h4, h5⟩ := acceptRunLoop_spec (l.rest.length + 1) false l (Nat.le_refl _)
  have hb := backup_next l0
  unfold acceptRun
  simp only
  rw [h1]
  refine ⟨h3.trans hb.2.2, ?_, ?_, ?_⟩
  · rw [hb.1, hb.2.1]; exact h4
  · rw [hb.1]; exact h5
  · rw [next_fst_congr _ l0 hb.2.1]; exact h2

/-! ## the measure -/

/-- bytes not yet consumed (`input[start:]`) -/
def unread (l : Lexer) : Nat := l.rest.length + (l.before.length - l.start)

def weight : LState → Nat
  | .done => 0
  | _ => 1

/-- queued tokens + unconsumed bytes + 1 while the lexer is running: every token handed out lowers it -/
def rank (l : Lexer) : Nat := l.items.length + unread l + weight l.state

structure Ok (l : Lexer) : Prop where
  fault : l.fault = .none
  start_le : l.start ≤ l.before.length

/-- the cursor moved forward over the input, nothing else happened -/
structure Moves (l l' : Lexer) : Prop where
  frame : Frame l l'
  total : l'.before.length + l'.rest.length = l.before.length + l.rest.length
  fwd : l.before.length ≤ l'.before.length

theorem Moves.refl (l : Lexer) : Moves l l := ⟨Frame.refl l, rfl, Nat.le_refl _⟩

theorem Moves.trans {a b c : Lexer} (h1 : Moves a b) (h2 : Moves b c) : Moves a c :=
  ⟨h1.frame.trans h2.frame, by have := h1.total; have := h2.total; omega, by have := h1.fwd; have := h2.fwd; omega⟩

theorem Moves.ok {l l' : Lexer} (h : Moves l l') (hok : Ok l) : Ok l' :=
  ⟨by rw [h.frame.fault]; exact hok.fault, by rw [h.frame.start]; have := hok.start_le; have := h.fwd; omega⟩

theorem Moves.rest_le {l l' : Lexer} (h : Moves l l') : l'.rest.length ≤ l.rest.length := by
  have := h.total; have := h.fwd; omega

theorem Moves.unread_eq {l l' : Lexer} (h : Moves l l') (hok : Ok l) : Lex.unread l' = Lex.unread l := by
  unfold Lex.unread; rw [h.frame.start]; have := h.total; have := h.fwd; have := hok.start_le; omega

theorem Moves.rank_eq {l l' : Lexer} (h : Moves l l') (hok : Ok l) : Lex.rank l' = Lex.rank l := by
  unfold Lex.rank; rw [h.unread_eq hok, h.frame.items, h.frame.state]

theorem next_moves (l : Lexer) : Moves l (next l).2 := by
  have := next_move l
  exact ⟨next_frame l, by omega, by omega⟩

theorem peek_moves (l : Lexer) : Moves l (peek l).2 := by
  have h := peek_snd l
  exact ⟨h.2.2, by rw [h.1, h.2.1], by rw [h.1]; exact Nat.le_refl _⟩

theorem acceptRun_moves (l : Lexer) : Moves l (acceptRun l).2 := by
  have h := acceptRun_spec l
  exact ⟨h.1, h.2.1, h.2.2.1⟩

/-! ## `updateCursor`, `skipTo` -/

theorem cursorStep_frame (l : Lexer) (r : Nat) :
    Frame l (cursorStep l r) ∧ (cursorStep l r).before = l.before ∧ (cursorStep l r).rest = l.rest := by
  unfold cursorStep
  split <;> exact ⟨⟨rfl, rfl, rfl, rfl, rfl, rfl, rfl, rfl, rfl, rfl⟩, rfl, rfl⟩

theorem foldl_cursor_frame (rs : List Nat) : ∀ (l : Lexer),
    Frame l (rs.foldl cursorStep l) ∧ (rs.foldl cursorStep l).before = l.before ∧
    (rs.foldl cursorStep l).rest = l.rest := by
  induction rs with
  | nil => intro l; exact ⟨Frame.refl l, rfl, rfl⟩
  | cons r rs ih =>
    intro l
    simp only [List.foldl_cons]
    obtain ⟨h1, h2, h3⟩ := ih (cursorStep l r)
    obtain ⟨g1, g2, g3⟩ := cursorStep_frame l r
    exact ⟨g1.trans h1, h2.trans g2, h3.trans g3⟩

theorem updateCursor_spec (n : Nat) (l : Lexer) :
    Frame l (updateCursor n l) ∧ (updateCursor n l).before = (l.rest.take n).reverse ++ l.before ∧
    (updateCursor n l).rest = l.rest.drop n := by
  unfold updateCursor
  simp only
  split
  · have h := foldl_cursor_frame (runes (afterLastNL (l.rest.take n)))
      { l with before := (l.rest.take n).reverse ++ l.before, rest := l.rest.drop n, width := n,
               line := l.line + ↑(List.count 10 (l.rest.take n)), col := 0, tcol := 0 }
    exact ⟨⟨h.1.errout, h.1.errcnt, h.1.file, h.1.start, h.1.inPattern, h.1.items, h.1.scol, h.1.sline,
            h.1.state, h.1.fault⟩, h.2.1, h.2.2⟩
  · have h := foldl_cursor_frame (runes (afterLastNL (l.rest.take n)))
      { l with before := (l.rest.take n).reverse ++ l.before, rest := l.rest.drop n, width := n }
    exact ⟨⟨h.1.errout, h.1.errcnt, h.1.file, h.1.start, h.1.inPattern, h.1.items, h.1.scol, h.1.sline,
            h.1.state, h.1.fault⟩, h.2.1, h.2.2⟩

theorem updateCursor_moves (n : Nat) (l : Lexer) : Moves l (updateCursor n l) := by
  obtain ⟨h1, h2, h3⟩ := updateCursor_spec n l
  refine ⟨h1, ?_, ?_⟩
  · rw [h2, h3]; simp; omega
  · rw [h2]; simp

theorem skipTo_moves (pat : List UInt8) (l : Lexer) : Moves l (skipTo pat l).2 := by
  unfold skipTo
  split
  · exact updateCursor_moves _ l
  · exact Moves.refl l

/-! ## emitting and reporting -/

theorem emitText_spec (c : Code) (text : List UInt8) (l : Lexer) :
    (emitText c text l).fault = l.fault ∧ (emitText c text l).before = l.before ∧
    (emitText c text l).rest = l.rest ∧ (emitText c text l).start = l.before.length ∧
    (emitText c text l).state = l.state ∧ (emitText c text l).items.length ≤ l.items.length + 1 ∧
    (emitText c text l).items ≠ [] ∧ (emitText c text l).errout = l.errout ∧
    (emitText c text l).errcnt = l.errcnt := by
  unfold emitText consume Lexer.pos
  simp only
  split
  · simp
  · rename_i h
    refine ⟨rfl, rfl, rfl, rfl, rfl, by omega, ?_, rfl, rfl⟩
    intro he; rw [he] at h; simp [maxErrors] at h

theorem emit_spec (c : Code) (l : Lexer) (h : l.start ≤ l.before.length) :
    (emit c l).fault = l.fault ∧ (emit c l).before = l.before ∧
    (emit c l).rest = l.rest ∧ (emit c l).start = l.before.length ∧
    (emit c l).state = l.state ∧ (emit c l).items.length ≤ l.items.length + 1 ∧
    (emit c l).items ≠ [] ∧ (emit c l).errout = l.errout ∧ (emit c l).errcnt = l.errcnt := by
  unfold emit Lexer.pos
  rw [if_neg (by omega)]
  exact emitText_spec _ _ l

theorem adderror_spec (e : ErrLine) (l : Lexer) :
    (adderror e l).fault = l.fault ∧ (adderror e l).state = l.state ∧ (adderror e l).items = l.items ∧
    (((adderror e l).before = l.before ∧ (adderror e l).rest = l.rest ∧ (adderror e l).start = l.start) ∨
     ((adderror e l).before = [] ∧ (adderror e l).rest = [] ∧ (adderror e l).start = 0)) := by
  unfold adderror
  split
  · exact ⟨rfl, rfl, rfl, Or.inr ⟨rfl, rfl, rfl⟩⟩
  · split
    · exact ⟨rfl, rfl, rfl, Or.inl ⟨rfl, rfl, rfl⟩⟩
    · exact ⟨rfl, rfl, rfl, Or.inl ⟨rfl, rfl, rfl⟩⟩

/-- what reporting an error does to the quantities of the measure -/
structure Reports (l l' : Lexer) : Prop where
  ok : Ok l'
  state : l'.state = l.state
  items_le : l'.items.length ≤ l.items.length + 1
  items_ne : l'.items ≠ []
  unread_le : unread l' ≤ l.rest.length
  rest_le : l'.rest.length ≤ l.rest.length

theorem errorf_reports (cls : ErrClass) (l : Lexer) (hok : Ok l) : Reports l (errorf cls l) := by
  unfold errorf
  simp only
  obtain ⟨e1, e2, e3, e4, e5, e6, e7, _, _⟩ := emit_spec .error l hok.start_le
  obtain ⟨a1, a2, a3, a4⟩ := adderror_spec
    { file := l.file, pos := some (l.line, l.col + 1), cls := cls } (emit .error l)
  refine ⟨⟨by rw [a1, e1]; exact hok.fault, ?_⟩, by rw [a2, e5], by rw [a3]; exact e6, by rw [a3]; exact e7, ?_, ?_⟩
  · rcases a4 with ⟨b1, _, b3⟩ | ⟨b1, _, b3⟩
    · rw [b1, b3, e2, e4]; exact Nat.le_refl _
    · rw [b1, b3]; simp
  · unfold unread
    rcases a4 with ⟨b1, b2, b3⟩ | ⟨b1, b2, b3⟩
    · rw [b1, b2, b3, e2, e3, e4]; omega
    · rw [b1, b2, b3]; simp
  · rcases a4 with ⟨_, b2, _⟩ | ⟨_, b2, _⟩
    · rw [b2, e3]; exact Nat.le_refl _
    · rw [b2]; simp

theorem errorfAt_reports (line col : Int) (cls : ErrClass) (l : Lexer) (hok : Ok l) :
    Reports l (errorfAt line col cls l) := by
  unfold errorfAt
  simp only
  have h := errorf_reports cls { l with line := line, col := col } ⟨hok.fault, hok.start_le⟩
  exact ⟨⟨h.ok.fault, h.ok.start_le⟩, h.state, h.items_le, h.items_ne, h.unread_le, h.rest_le⟩

/-! ## the state functions -/

/-- a state function has run to its end: something is queued, the lexer is back in the ground
state or has stopped, and the measure has not grown -/
structure Done (l l' : Lexer) : Prop where
  ok : Ok l'
  st : l'.state = .ground ∨ l'.state = .done
  items_ne : l'.items ≠ []
  rank_le : l'.items.length + unread l' + weight l'.state ≤ l.items.length + unread l + 1
  rest_le : l'.rest.length ≤ l.rest.length

theorem Done.of_le {l l1 l' : Lexer} (h : Done l1 l')
    (hp : l1.items.length + unread l1 ≤ l.items.length + unread l) (hr : l1.rest.length ≤ l.rest.length) :
    Done l l' :=
  ⟨h.ok, h.st, h.items_ne, by have := h.rank_le; omega, by have := h.rest_le; omega⟩

theorem Moves.done {l l1 l' : Lexer} (hm : Moves l l1) (hok : Ok l) (h : Done l1 l') : Done l l' :=
  h.of_le (by rw [hm.unread_eq hok, hm.frame.items]; exact Nat.le_refl _) hm.rest_le

@[simp] theorem setState_fault (s : LState) (l : Lexer) : (setState s l).fault = l.fault := rfl
@[simp] theorem setState_before (s : LState) (l : Lexer) : (setState s l).before = l.before := rfl
@[simp] theorem setState_rest (s : LState) (l : Lexer) : (setState s l).rest = l.rest := rfl
@[simp] theorem setState_start (s : LState) (l : Lexer) : (setState s l).start = l.start := rfl
@[simp] theorem setState_items (s : LState) (l : Lexer) : (setState s l).items = l.items := rfl
@[simp] theorem setState_state (s : LState) (l : Lexer) : (setState s l).state = s := rfl
@[simp] theorem setState_errout (s : LState) (l : Lexer) : (setState s l).errout = l.errout := rfl
@[simp] theorem setState_errcnt (s : LState) (l : Lexer) : (setState s l).errcnt = l.errcnt := rfl
@[simp] theorem setState_file (s : LState) (l : Lexer) : (setState s l).file = l.file := rfl
@[simp] theorem setState_inPattern (s : LState) (l : Lexer) : (setState s l).inPattern = l.inPattern := rfl
@[simp] theorem setState_line (s : LState) (l : Lexer) : (setState s l).line = l.line := rfl
@[simp] theorem setState_col (s : LState) (l : Lexer) : (setState s l).col = l.col := rfl
@[simp] theorem setState_tcol (s : LState) (l : Lexer) : (setState s l).tcol = l.tcol := rfl
@[simp] theorem setState_unread (s : LState) (l : Lexer) : unread (setState s l) = unread l := rfl

/-- nothing was queued, the measure has not grown -/
structure Step (l l' : Lexer) : Prop where
  ok : Ok l'
  items : l'.items = l.items
  unread_le : unread l' ≤ unread l
  rest_le : l'.rest.length ≤ l.rest.length

theorem Moves.step {l l' : Lexer} (hm : Moves l l') (hok : Ok l) : Step l l' :=
  ⟨hm.ok hok, hm.frame.items, by rw [hm.unread_eq hok]; exact Nat.le_refl _, hm.rest_le⟩

theorem Step.trans {a b c : Lexer} (h1 : Step a b) (h2 : Step b c) : Step a c :=
  ⟨h2.ok, h2.items.trans h1.items, Nat.le_trans h2.unread_le h1.unread_le, Nat.le_trans h2.rest_le h1.rest_le⟩

theorem Step.done {l l1 l' : Lexer} (hs : Step l l1) (h : Done l1 l') : Done l l' :=
  h.of_le (by rw [hs.items]; have := hs.unread_le; omega) hs.rest_le

theorem consume_step (l : Lexer) (hok : Ok l) :
    Step l (consume l) ∧ (consume l).start = l.before.length ∧ (consume l).before = l.before ∧
    (consume l).rest = l.rest := by
  unfold consume Lexer.pos
  refine ⟨⟨⟨hok.fault, Nat.le_refl _⟩, rfl, ?_, Nat.le_refl _⟩, rfl, rfl, rfl⟩
  simp only [unread]; omega

theorem emit_done (c : Code) (l : Lexer) (hok : Ok l) (hlt : l.start < l.before.length) :
    Done l (setState .ground (emit c l)) := by
  obtain ⟨e1, e2, e3, e4, e5, e6, e7, _, _⟩ := emit_spec c l hok.start_le
  refine ⟨⟨by simp only [setState_fault]; rw [e1]; exact hok.fault,
      by simp only [setState_start, setState_before]; rw [e4, e2]; exact Nat.le_refl _⟩,
    Or.inl rfl, by simp only [setState_items]; exact e7, ?_, by simp only [setState_rest]; rw [e3]; exact Nat.le_refl _⟩
  simp only [setState_items, setState_state, unread, weight, setState_rest, setState_before, setState_start]
  rw [e2, e3, e4]
  omega

/-- reporting an error and stopping -/
theorem reports_done {l l1 l' : Lexer} (hs : Step l l1) (hr : Reports l1 l')
    (hlt : l1.rest.length ≤ unread l) : Done l (setState .done l') := by
  refine ⟨⟨hr.ok.fault, hr.ok.start_le⟩, Or.inr rfl, hr.items_ne, ?_, ?_⟩
  · have h1 := hr.items_le
    have h2 := hr.unread_le
    rw [hs.items] at h1
    show l'.items.length + unread l' + 0 ≤ _
    omega
  · have := hr.rest_le; have := hs.rest_le; show l'.rest.length ≤ _; omega

theorem emitText_done (c : Code) (text : List UInt8) (l : Lexer) (hok : Ok l) (hlt : l.start < l.before.length) :
    Done l (setState .ground (emitText c text l)) := by
  obtain ⟨e1, e2, e3, e4, e5, e6, e7, _, _⟩ := emitText_spec c text l
  refine ⟨⟨by simp only [setState_fault]; rw [e1]; exact hok.fault,
      by simp only [setState_start, setState_before]; rw [e4, e2]; exact Nat.le_refl _⟩,
    Or.inl rfl, by simp only [setState_items]; exact e7, ?_, by simp only [setState_rest]; rw [e3]; exact Nat.le_refl _⟩
  simp only [setState_items, setState_state, unread, weight, setState_rest, setState_before, setState_start]
  rw [e2, e3, e4]
  omega

theorem isUnqDelim_eof : isUnqDelim eofRune = true := by simp [isUnqDelim]

/-- `lexUnquoted`: the token is not empty (`start < pos` or the next rune is no delimiter) -/
theorem unquotedLoop_done : ∀ (f : Nat) (l : Lexer), Ok l → l.rest.length + 1 ≤ f →
    (l.start < l.before.length ∨ isUnqDelim (next l).1 = false) → Done l (unquotedLoop f l) := by
  intro f
  induction f with
  | zero => intro l _ h; omega
  | succ f ih =>
    intro l hok hf hj
    unfold unquotedLoop
    simp only
    have hp := peek_moves l
    have hps := peek_snd l
    split
    · rename_i hd
      rw [peek_fst] at hd
      have hlt : l.start < l.before.length := by
        rcases hj with h | h
        · exact h
        · rw [h] at hd; cases hd
      have hok1 := hp.ok hok
      exact hp.done hok (emit_done .unquoted _ hok1 (by rw [hps.2.2.start, hps.1]; exact hlt))
    · rename_i hd
      rw [peek_fst] at hd
      have hne : l.rest ≠ [] := by
        intro he
        rw [next_nil l he] at hd
        exact hd isUnqDelim_eof
      have hok1 := hp.ok hok
      have hn := next_moves (peek l).2
      have hw := (next_move (peek l).2).2.2 (by rw [hps.2.1]; exact hne)
      have hpos := (next_move (peek l).2).1
      have hrest := (next_move (peek l).2).2.1
      have hm := hp.trans hn
      apply hm.done hok
      apply ih _ (hm.ok hok)
      · rw [hps.2.1] at hrest; omega
      · left
        rw [hm.frame.start, hpos, hps.1]
        have := hok.start_le
        omega

theorem lexUnquoted_done (l : Lexer) (hok : Ok l)
    (hj : l.start < l.before.length ∨ isUnqDelim (next l).1 = false) : Done l (lexUnquoted l) :=
  unquotedLoop_done _ l hok (Nat.le_refl _) hj

/-- after `next` on a non-empty rest the token under construction is not empty -/
theorem next_start_lt (l : Lexer) (hok : Ok l) (hne : l.rest ≠ []) :
    (next l).2.start < (next l).2.before.length ∧ (next l).2.rest.length + 1 ≤ l.rest.length := by
  have hm := next_move l
  have := hm.2.2 hne
  rw [(next_frame l).start]
  have := hok.start_le
  omega

theorem next_eof_iff (l : Lexer) : (next l).1 = eofRune ↔ l.rest = [] := by
  constructor
  · intro h
    apply Classical.byContradiction
    intro hne
    exact next_fst_ne_eof l hne h
  · intro h; rw [next_nil l h]

/-- `lexQString` -/
theorem qstringLoop_done (indent line col : Int) : ∀ (f : Nat) (text : List UInt8) (over : Bool) (l : Lexer),
    Ok l → l.rest.length + 1 ≤ f → Done l (qstringLoop indent line col f text over l) := by
  intro f
  induction f with
  | zero => intro _ _ l _ h; omega
  | succ f ih =>
    intro text over l hok hf
    unfold qstringLoop
    simp only
    have hm1 := next_moves l
    have hok1 := hm1.ok hok
    have hmv := next_move l
    by_cases heof : (next l).1 = eofRune
    · rw [if_pos heof]
      have hrest : l.rest = [] := (next_eof_iff l).1 heof
      refine reports_done (hm1.step hok) (errorfAt_reports line col .missingDQuote (next l).2 hok1) ?_
      have h4 := hm1.rest_le
      rw [hrest] at h4
      simp at h4
      unfold unread; omega
    · rw [if_neg heof]
      have hne : l.rest ≠ [] := fun h => heof ((next_eof_iff l).2 h)
      have hw := hmv.2.2 hne
      have hfuel1 : (next l).2.rest.length + 1 ≤ f := by have := hmv.2.1; omega
      have rec1 : ∀ text over, Done l (qstringLoop indent line col f text over (next l).2) :=
        fun text over => hm1.done hok (ih text over _ hok1 hfuel1)
      have hm2 := hm1.trans (next_moves (next l).2)
      have hok2 := hm2.ok hok
      have hfuel2 : (next (next l).2).2.rest.length + 1 ≤ f := by
        have := (next_moves (next l).2).rest_le; omega
      have rec2 : ∀ text over, Done l (qstringLoop indent line col f text over (next (next l).2).2) :=
        fun text over => hm2.done hok (ih text over _ hok2 hfuel2)
      have rec3 : ∀ text over el ec, Done l (qstringLoop indent line col f text over
          (errorfAt el ec .invalidEscape (next (next l).2).2)) := by
        intro text over el ec
        have hr := errorfAt_reports el ec .invalidEscape (next (next l).2).2 hok2
        have hd := ih text over _ hr.ok (by have := hr.rest_le; omega)
        apply hd.of_le
        · have h1 := hr.items_le
          have h2 := hr.unread_le
          rw [hm2.frame.items] at h1
          have hu := hm2.unread_eq hok
          have hpos2 := hm2.fwd
          have hp1 := hmv.1
          have hp2 := (next_moves (next l).2).fwd
          have hs := hok.start_le
          have hst := hm2.frame.start
          unfold unread at hu h2 ⊢
          omega
        · have := hr.rest_le; have := hm2.rest_le; omega
      split
      · -- closing quote
        exact hm1.done hok (emitText_done .string text _ hok1 (next_start_lt l hok hne).1)
      · split
        · exact rec1 _ _
        · split
          · split
            · exact rec1 _ _
            · exact rec1 _ _
          · split
            · split
              · exact rec2 _ _
              · split
                · exact rec2 _ _
                · split
                  · exact rec2 _ _
                  · split
                    · exact rec3 _ _ _ _
                    · exact rec2 _ _
            · exact rec1 _ _

theorem lexQString_done (l : Lexer) (hok : Ok l) : Done l (lexQString l) :=
  qstringLoop_done _ _ _ _ _ _ l hok (by omega)

/-- what one run of `lexGround` achieves -/
def GroundPost (l l' : Lexer) : Prop :=
  Done l l' ∨ (Step l l' ∧ (l'.state = .done ∨ l'.state = .qstring ∨
     (l'.state = .unquoted ∧ (l'.start < l'.before.length ∨ isUnqDelim (next l').1 = false)) ∨
     (l'.state = .ground ∧ l'.rest.length + 1 ≤ l.rest.length)))

theorem Step.with_state {l l' : Lexer} (h : Step l l') (s : LState) : Step l (setState s l') :=
  ⟨⟨h.ok.fault, h.ok.start_le⟩, h.items, h.unread_le, h.rest_le⟩

theorem groundStart_spec (l : Lexer) (hok : Ok l) :
    Step l (groundStart l) ∧ (groundStart l).start = (groundStart l).before.length ∧
    (groundStart l).state = l.state ∧ isSpaceRune (next (groundStart l)).1 = false := by
  unfold groundStart
  simp only
  have ha := acceptRun_spec l
  have hma := acceptRun_moves l
  have hc := consume_step (acceptRun l).2 (hma.ok hok)
  have hs := (hma.step hok).trans hc.1
  refine ⟨⟨⟨hs.ok.fault, hs.ok.start_le⟩, hs.items, hs.unread_le, hs.rest_le⟩, ?_, ?_, ?_⟩
  · show (consume (acceptRun l).2).start = (consume (acceptRun l).2).before.length
    rw [hc.2.1, hc.2.2.1]
  · show (consume (acceptRun l).2).state = l.state
    unfold consume; exact hma.frame.state
  · rw [next_fst_congr _ (acceptRun l).2 (by show (consume (acceptRun l).2).rest = _; exact hc.2.2.2)]
    exact ha.2.2.2

theorem groundSQuote_done (l : Lexer) (hok : Ok l) (hne : l.rest ≠ []) : Done l (groundSQuote l) := by
  unfold groundSQuote
  simp only
  have hm1 := next_moves l
  have hok1 := hm1.ok hok
  have hlt := next_start_lt l hok hne
  have hc := consume_step (next l).2 hok1
  have hs2 := (hm1.step hok).trans hc.1
  have hm3 := skipTo_moves [39] (consume (next l).2)
  have hs3 := hs2.trans (hm3.step hc.1.ok)
  have hur : (skipTo [39] (consume (next l).2)).2.rest.length + 1 ≤ unread l := by
    have := hm3.rest_le
    rw [hc.2.2.2] at this
    unfold unread; omega
  split
  · -- closing quote found
    have hok3 := hs3.ok
    obtain ⟨e1, e2, e3, e4, e5, e6, e7, _, _⟩ := emit_spec .string (skipTo [39] (consume (next l).2)).2 hok3.start_le
    have hm5 := next_moves (emit .string (skipTo [39] (consume (next l).2)).2)
    have hok4 : Ok (emit .string (skipTo [39] (consume (next l).2)).2) :=
      ⟨by rw [e1]; exact hok3.fault, by rw [e4, e2]; exact Nat.le_refl _⟩
    have hok5 := hm5.ok hok4
    refine ⟨⟨hok5.fault, hok5.start_le⟩, Or.inl rfl, ?_, ?_, ?_⟩
    · show (next (emit .string (skipTo [39] (consume (next l).2)).2)).2.items ≠ []
      rw [hm5.frame.items]; exact e7
    · show (next (emit .string (skipTo [39] (consume (next l).2)).2)).2.items.length +
        unread (next (emit .string (skipTo [39] (consume (next l).2)).2)).2 + 1 ≤ _
      rw [hm5.frame.items, hm5.unread_eq hok4]
      rw [hs3.items] at e6
      have : unread (emit .string (skipTo [39] (consume (next l).2)).2) =
          (skipTo [39] (consume (next l).2)).2.rest.length := by
        unfold unread; rw [e2, e3, e4]; omega
      omega
    · show (next (emit .string (skipTo [39] (consume (next l).2)).2)).2.rest.length ≤ _
      have := hm5.rest_le
      rw [e3] at this
      have := hs3.rest_le
      omega
  · exact reports_done hs3 (errorfAt_reports _ _ _ _ hs3.ok) (Nat.le_of_succ_le hur)

theorem groundPlus_post (l : Lexer) (hok : Ok l) (hne : l.rest ≠ []) : GroundPost l (groundPlus l) := by
  unfold groundPlus
  simp only
  have hm1 := next_moves l
  have hok1 := hm1.ok hok
  have hlt := next_start_lt l hok hne
  have hm2 := hm1.trans (peek_moves (next l).2)
  have hok2 := hm2.ok hok
  have hps := peek_snd (next l).2
  have hlt2 : (peek (next l).2).2.start < (peek (next l).2).2.before.length := by
    rw [hps.2.2.start, hps.1]; exact hlt.1
  split
  · exact Or.inl (hm2.done hok (emit_done .unquoted _ hok2 hlt2))
  · refine Or.inr ⟨(hm2.step hok).with_state _, Or.inr (Or.inr (Or.inl ⟨rfl, Or.inl ?_⟩))⟩
    exact hlt2

theorem groundSlash_post (l : Lexer) (hok : Ok l) (hne : l.rest ≠ []) : GroundPost l (groundSlash l) := by
  unfold groundSlash
  simp only
  have hm1 := next_moves l
  have hok1 := hm1.ok hok
  have hlt := next_start_lt l hok hne
  have hm2 := hm1.trans (peek_moves (next l).2)
  have hok2 := hm2.ok hok
  have hps := peek_snd (next l).2
  have hlt2 : (peek (next l).2).2.start < (peek (next l).2).2.before.length := by
    rw [hps.2.2.start, hps.1]; exact hlt.1
  have hrest2 : (peek (next l).2).2.rest.length + 1 ≤ l.rest.length := by rw [hps.2.1]; exact hlt.2
  have hun : ∀ l' : Lexer, l'.rest.length ≤ (peek (next l).2).2.rest.length → l'.rest.length + 1 ≤ unread l := by
    intro l' h; unfold unread; omega
  split
  · -- `//`
    have hm3 := hm2.trans (skipTo_moves [10] (peek (next l).2).2)
    split
    · refine Or.inr ⟨(hm3.step hok).with_state _, Or.inr (Or.inr (Or.inr ⟨rfl, ?_⟩))⟩
      have := (skipTo_moves [10] (peek (next l).2).2).rest_le
      show (skipTo [10] (peek (next l).2).2).2.rest.length + 1 ≤ _
      omega
    · exact Or.inl (reports_done (hm3.step hok) (errorfAt_reports _ _ _ _ (hm3.ok hok))
        (Nat.le_of_succ_le (hun _ (skipTo_moves [10] (peek (next l).2).2).rest_le)))
  · split
    · -- `/*`
      have hm3 := hm2.trans (next_moves (peek (next l).2).2)
      have hm4 := hm3.trans (skipTo_moves [42, 47] (next (peek (next l).2).2).2)
      have hr4 : (skipTo [42, 47] (next (peek (next l).2).2).2).2.rest.length ≤ (peek (next l).2).2.rest.length := by
        have := (skipTo_moves [42, 47] (next (peek (next l).2).2).2).rest_le
        have := (next_moves (peek (next l).2).2).rest_le
        omega
      split
      · have hm5 := hm4.trans (next_moves _)
        have hm6 := hm5.trans (next_moves _)
        refine Or.inr ⟨(hm6.step hok).with_state _, Or.inr (Or.inr (Or.inr ⟨rfl, ?_⟩))⟩
        have h5 := (next_moves (skipTo [42, 47] (next (peek (next l).2).2).2).2).rest_le
        have h6 := (next_moves (next (skipTo [42, 47] (next (peek (next l).2).2).2).2).2).rest_le
        show (next (next (skipTo [42, 47] (next (peek (next l).2).2).2).2).2).2.rest.length + 1 ≤ _
        omega
      · exact Or.inl (reports_done (hm4.step hok) (errorfAt_reports _ _ _ _ (hm4.ok hok)) (Nat.le_of_succ_le (hun _ hr4)))
    · exact Or.inr ⟨(hm2.step hok).with_state _, Or.inr (Or.inr (Or.inl ⟨rfl, Or.inl hlt2⟩))⟩

theorem lexGround_post (l : Lexer) (hok : Ok l) : GroundPost l (lexGround l) := by
  unfold lexGround
  simp only
  obtain ⟨hs0, hst0, _, hsp0⟩ := groundStart_spec l hok
  have hok0 := hs0.ok
  have hpm := peek_moves (groundStart l)
  have hps := peek_snd (groundStart l)
  have hs1 := hs0.trans (hpm.step hok0)
  have hok1 := hs1.ok
  have hc : (peek (groundStart l)).1 = (next (peek (groundStart l)).2).1 := by
    rw [peek_fst]; exact (next_fst_congr _ _ hps.2.1).symm
  -- transfer a result about the lexer after the peek to `l`
  have lift : ∀ l', GroundPost (peek (groundStart l)).2 l' → GroundPost l l' := by
    intro l' h
    rcases h with h | ⟨h1, h2⟩
    · exact Or.inl (hs1.done h)
    · refine Or.inr ⟨hs1.trans h1, ?_⟩
      rcases h2 with h | h | h | ⟨h, hr⟩
      · exact Or.inl h
      · exact Or.inr (Or.inl h)
      · exact Or.inr (Or.inr (Or.inl h))
      · exact Or.inr (Or.inr (Or.inr ⟨h, by have := hs1.rest_le; omega⟩))
  split
  · exact Or.inr ⟨hs1.with_state _, Or.inl rfl⟩
  · rename_i heof
    have hne : (peek (groundStart l)).2.rest ≠ [] := by
      intro h
      apply heof
      rw [hc]; exact (next_eof_iff _).2 h
    split
    · exact Or.inl (hs1.done ((next_moves _).done hok1 (emit_done _ _ ((next_moves _).ok hok1)
        (next_start_lt _ hok1 hne).1)))
    · split
      · exact Or.inl (hs1.done (groundSQuote_done _ hok1 hne))
      · split
        · exact Or.inr ⟨(hs1.trans ((next_moves _).step hok1)).with_state _, Or.inr (Or.inl rfl)⟩
        · split
          · exact lift _ (groundSlash_post _ hok1 hne)
          · split
            · exact lift _ (groundPlus_post _ hok1 hne)
            · rename_i h1 h2 h3 h4 h5
              refine Or.inr ⟨hs1.with_state _, Or.inr (Or.inr (Or.inl ⟨rfl, Or.inr ?_⟩))⟩
              rw [next_fst_congr (setState .unquoted (peek (groundStart l)).2) (peek (groundStart l)).2 rfl]
              rw [← hc]
              rw [peek_fst] at h1 h2 h3 heof ⊢
              unfold isSpaceRune at hsp0
              unfold isUnqDelim
              simp only [Bool.or_eq_true, decide_eq_true_eq, not_or] at h1
              simp only [Bool.or_eq_false_iff, decide_eq_false_iff_not] at hsp0 ⊢
              refine ⟨⟨⟨⟨⟨⟨⟨⟨⟨hsp0.1.1.1, hsp0.1.2⟩, hsp0.2⟩, hsp0.1.1.2⟩, h1.1.1⟩, h3⟩, h2⟩, h1.1.2⟩, h1.2⟩, heof⟩

/-! ## `NextToken` -/

/-- what a call of `NextToken` guarantees -/
structure TokPost (l : Lexer) (r : Option Token × Lexer) : Prop where
  ok : Ok r.2
  st : r.2.state = .ground ∨ r.2.state = .done
  rest_le : r.2.rest.length ≤ l.rest.length
  some_rank : ∀ t, r.1 = some t → rank r.2 + 1 ≤ rank l
  none_rank : r.1 = none → rank r.2 ≤ rank l ∧ r.2.state = .done ∧ r.2.items = []

theorem nextTokenLoop_pop (f : Nat) (l : Lexer) (t : Token) (ts : List Token) (h : l.items = t :: ts) :
    nextTokenLoop (f + 1) l = (some t, { l with items := ts }) := by
  unfold nextTokenLoop
  rw [h]

/-- popping the token a finished state function has queued -/
theorem pop_after_done (f : Nat) (l l1 : Lexer) (hd : Done l l1) (hi : l.items = []) (hw : weight l.state = 1) :
    TokPost l (nextTokenLoop (f + 1) l1) := by
  cases hit : l1.items with
  | nil => exact absurd hit hd.items_ne
  | cons t ts =>
    rw [nextTokenLoop_pop f l1 t ts hit]
    refine ⟨⟨hd.ok.fault, hd.ok.start_le⟩, hd.st, hd.rest_le, ?_, ?_⟩
    · intro _ _
      have := hd.rank_le
      rw [hit, hi] at this
      simp only [List.length_cons, List.length_nil] at this
      show ts.length + unread l1 + weight l1.state + 1 ≤ rank l
      unfold rank
      rw [hi, hw]
      simp only [List.length_nil]
      omega
    · intro h; cases h

theorem nextTokenLoop_spec : ∀ (n f : Nat) (l : Lexer), l.rest.length ≤ n → n + 3 ≤ f → Ok l →
    (l.state = .ground ∨ l.state = .done) → TokPost l (nextTokenLoop f l) := by
  intro n
  induction n with
  | zero =>
    intro f l hn hf hok hst
    obtain ⟨f, rfl⟩ : ∃ f', f = f' + 1 := ⟨f - 1, by omega⟩
    cases hit : l.items with
    | cons t ts =>
      rw [nextTokenLoop_pop f l t ts hit]
      refine ⟨⟨hok.fault, hok.start_le⟩, hst, Nat.le_refl _, ?_, fun h => by cases h⟩
      intro _ _
      show ts.length + unread l + weight l.state + 1 ≤ rank l
      unfold rank; rw [hit]; simp only [List.length_cons]; omega
    | nil =>
      unfold nextTokenLoop
      rw [hit]
      simp only
      rcases hst with hst | hst
      · rw [hst]
        simp only
        obtain ⟨f, rfl⟩ : ∃ f', f = f' + 1 := ⟨f - 1, by omega⟩
        have hw : weight l.state = 1 := by rw [hst]; rfl
        rcases lexGround_post l hok with hd | ⟨hs, h⟩
        · exact pop_after_done f l _ hd hit hw
        · rcases h with h | h | ⟨h, hj⟩ | ⟨h, hr⟩
          · -- stopped
            unfold nextTokenLoop
            rw [hs.items, hit, h]
            simp only
            refine ⟨hs.ok, Or.inr h, hs.rest_le, (fun _ h => by cases h), fun _ => ⟨?_, h, by rw [hs.items, hit]⟩⟩
            unfold rank
            rw [hs.items, hit, h, hst]
            have := hs.unread_le
            simp only [weight, List.length_nil]; omega
          · -- double-quoted string
            unfold nextTokenLoop
            rw [hs.items, hit, h]
            simp only
            obtain ⟨f, rfl⟩ : ∃ f', f = f' + 1 := ⟨f - 1, by omega⟩
            have hd := hs.done (lexQString_done _ hs.ok)
            exact pop_after_done f l _ hd hit hw
          · unfold nextTokenLoop
            rw [hs.items, hit, h]
            simp only
            obtain ⟨f, rfl⟩ : ∃ f', f = f' + 1 := ⟨f - 1, by omega⟩
            have hd := hs.done (lexUnquoted_done _ hs.ok hj)
            exact pop_after_done f l _ hd hit hw
          · omega
      · rw [hst]
        simp only
        refine ⟨hok, Or.inr hst, Nat.le_refl _, (fun _ h => by cases h), fun _ => ⟨Nat.le_refl _, hst, hit⟩⟩
  | succ n ih =>
    intro f l hn hf hok hst
    obtain ⟨f, rfl⟩ : ∃ f', f = f' + 1 := ⟨f - 1, by omega⟩
    cases hit : l.items with
    | cons t ts =>
      rw [nextTokenLoop_pop f l t ts hit]
      refine ⟨⟨hok.fault, hok.start_le⟩, hst, Nat.le_refl _, ?_, fun h => by cases h⟩
      intro _ _
      show ts.length + unread l + weight l.state + 1 ≤ rank l
      unfold rank; rw [hit]; simp only [List.length_cons]; omega
    | nil =>
      unfold nextTokenLoop
      rw [hit]
      simp only
      rcases hst with hst | hst
      · rw [hst]
        simp only
        obtain ⟨f, rfl⟩ : ∃ f', f = f' + 1 := ⟨f - 1, by omega⟩
        have hw : weight l.state = 1 := by rw [hst]; rfl
        rcases lexGround_post l hok with hd | ⟨hs, h⟩
        · exact pop_after_done f l _ hd hit hw
        · rcases h with h | h | ⟨h, hj⟩ | ⟨h, hr⟩
          · unfold nextTokenLoop
            rw [hs.items, hit, h]
            simp only
            refine ⟨hs.ok, Or.inr h, hs.rest_le, (fun _ h => by cases h), fun _ => ⟨?_, h, by rw [hs.items, hit]⟩⟩
            unfold rank
            rw [hs.items, hit, h, hst]
            have := hs.unread_le
            simp only [weight, List.length_nil]; omega
          · unfold nextTokenLoop
            rw [hs.items, hit, h]
            simp only
            obtain ⟨f, rfl⟩ : ∃ f', f = f' + 1 := ⟨f - 1, by omega⟩
            have hd := hs.done (lexQString_done _ hs.ok)
            exact pop_after_done f l _ hd hit hw
          · unfold nextTokenLoop
            rw [hs.items, hit, h]
            simp only
            obtain ⟨f, rfl⟩ : ∃ f', f = f' + 1 := ⟨f - 1, by omega⟩
            have hd := hs.done (lexUnquoted_done _ hs.ok hj)
            exact pop_after_done f l _ hd hit hw
          · -- a comment was skipped: once more from the ground state, with less input
            have hr' := ih (f + 1) (lexGround l) (by omega) (by omega) hs.ok (Or.inl h)
            refine ⟨hr'.ok, hr'.st, Nat.le_trans hr'.rest_le hs.rest_le, ?_, ?_⟩
            · intro t ht
              have h1 := hr'.some_rank t ht
              have h2 : rank (lexGround l) ≤ rank l := by
                unfold rank; rw [hs.items, h, hst]; have := hs.unread_le; omega
              omega
            · intro hnone
              obtain ⟨h1, h2, h3⟩ := hr'.none_rank hnone
              refine ⟨?_, h2, h3⟩
              have h2 : rank (lexGround l) ≤ rank l := by
                unfold rank; rw [hs.items, h, hst]; have := hs.unread_le; omega
              omega
      · rw [hst]
        simp only
        refine ⟨hok, Or.inr hst, Nat.le_refl _, (fun _ h => by cases h), fun _ => ⟨Nat.le_refl _, hst, hit⟩⟩

/-- `NextToken` never faults, and a token handed out lowers `rank` -/
theorem nextToken_spec (l : Lexer) (hok : Ok l) (hst : l.state = .ground ∨ l.state = .done) :
    TokPost l (nextToken l) :=
  nextTokenLoop_spec l.rest.length _ l (Nat.le_refl _) (Nat.le_refl _) hok hst

/-! ## error lines are never taken back -/

/-- an error written stays written -/
def Keeps (l l' : Lexer) : Prop := l.errout ≠ [] → l'.errout ≠ []

theorem Keeps.refl (l : Lexer) : Keeps l l := fun h => h

theorem Keeps.trans {a b c : Lexer} (h1 : Keeps a b) (h2 : Keeps b c) : Keeps a c := fun h => h2 (h1 h)

theorem Frame.keeps {l l' : Lexer} (h : Frame l l') : Keeps l l' := fun he => by rw [h.errout]; exact he

theorem Moves.keeps {l l' : Lexer} (h : Moves l l') : Keeps l l' := h.frame.keeps

theorem keeps_of_eq {l l' : Lexer} (h : l'.errout = l.errout) : Keeps l l' := fun he => by rw [h]; exact he

theorem setFault_errout (f : Fault) (l : Lexer) : (setFault f l).errout = l.errout := by
  unfold setFault; split <;> rfl

theorem emitText_keeps (c : Code) (text : List UInt8) (l : Lexer) : Keeps l (emitText c text l) :=
  keeps_of_eq (emitText_spec c text l).2.2.2.2.2.2.2.1

theorem emit_keeps (c : Code) (l : Lexer) : Keeps l (emit c l) := by
  unfold emit
  split
  · exact keeps_of_eq (setFault_errout _ _)
  · exact emitText_keeps _ _ _

theorem adderror_keeps (e : ErrLine) (l : Lexer) : Keeps l (adderror e l) := by
  unfold adderror
  intro h
  split
  · simp
  · split
    · exact h
    · simp

theorem errorf_keeps (cls : ErrClass) (l : Lexer) : Keeps l (errorf cls l) := by
  unfold errorf
  exact (emit_keeps .error l).trans (adderror_keeps _ _)

theorem errorfAt_keeps (line col : Int) (cls : ErrClass) (l : Lexer) : Keeps l (errorfAt line col cls l) := by
  unfold errorfAt
  simp only
  intro h
  exact errorf_keeps cls { l with line := line, col := col } h

theorem setState_keeps (s : LState) (l : Lexer) : Keeps l (setState s l) := fun h => h

theorem unquotedLoop_keeps : ∀ (f : Nat) (l : Lexer), Keeps l (unquotedLoop f l) := by
  intro f
  induction f with
  | zero => intro l; unfold unquotedLoop; exact keeps_of_eq (setFault_errout _ _)
  | succ f ih =>
    intro l
    unfold unquotedLoop
    simp only
    split
    · exact (peek_moves l).keeps.trans ((emit_keeps _ _).trans (setState_keeps _ _))
    · exact (peek_moves l).keeps.trans ((next_moves _).keeps.trans (ih _))

theorem qstringLoop_keeps (indent line col : Int) : ∀ (f : Nat) (text : List UInt8) (over : Bool) (l : Lexer),
    Keeps l (qstringLoop indent line col f text over l) := by
  intro f
  induction f with
  | zero => intro _ _ l; unfold qstringLoop; exact keeps_of_eq (setFault_errout _ _)
  | succ f ih =>
    intro text over l
    unfold qstringLoop
    simp only
    have h1 := (next_moves l).keeps
    have h2 := h1.trans (next_moves (next l).2).keeps
    split
    · exact h1.trans ((errorfAt_keeps _ _ _ _).trans (setState_keeps _ _))
    · split
      · exact h1.trans ((emitText_keeps _ _ _).trans (setState_keeps _ _))
      · split
        · exact h1.trans (ih _ _ _)
        · split
          · split
            · exact h1.trans (ih _ _ _)
            · exact h1.trans (ih _ _ _)
          · split
            · split
              · exact h2.trans (ih _ _ _)
              · split
                · exact h2.trans (ih _ _ _)
                · split
                  · exact h2.trans (ih _ _ _)
                  · split
                    · exact h2.trans ((errorfAt_keeps _ _ _ _).trans (ih _ _ _))
                    · exact h2.trans (ih _ _ _)
            · exact h1.trans (ih _ _ _)

theorem consume_keeps (l : Lexer) : Keeps l (consume l) := fun h => h

theorem groundStart_keeps (l : Lexer) : Keeps l (groundStart l) := by
  unfold groundStart
  simp only
  intro h
  exact (acceptRun_moves l).keeps h

theorem groundSQuote_keeps (l : Lexer) : Keeps l (groundSQuote l) := by
  unfold groundSQuote
  simp only
  have h1 := (next_moves l).keeps.trans (consume_keeps _)
  have h2 := h1.trans (skipTo_moves [39] _).keeps
  split
  · exact h2.trans ((emit_keeps _ _).trans ((next_moves _).keeps.trans (setState_keeps _ _)))
  · exact h2.trans ((errorfAt_keeps _ _ _ _).trans (setState_keeps _ _))

theorem groundSlash_keeps (l : Lexer) : Keeps l (groundSlash l) := by
  unfold groundSlash
  simp only
  have h1 := (next_moves l).keeps.trans (peek_moves _).keeps
  split
  · have h2 := h1.trans (skipTo_moves [10] _).keeps
    split
    · exact h2.trans (setState_keeps _ _)
    · exact h2.trans ((errorfAt_keeps _ _ _ _).trans (setState_keeps _ _))
  · split
    · have h2 := h1.trans ((next_moves _).keeps.trans (skipTo_moves [42, 47] _).keeps)
      split
      · exact h2.trans ((next_moves _).keeps.trans ((next_moves _).keeps.trans (setState_keeps _ _)))
      · exact h2.trans ((errorfAt_keeps _ _ _ _).trans (setState_keeps _ _))
    · exact h1.trans (setState_keeps _ _)

theorem groundPlus_keeps (l : Lexer) : Keeps l (groundPlus l) := by
  unfold groundPlus
  simp only
  have h1 := (next_moves l).keeps.trans (peek_moves _).keeps
  split
  · exact h1.trans ((emit_keeps _ _).trans (setState_keeps _ _))
  · exact h1.trans (setState_keeps _ _)

theorem lexGround_keeps (l : Lexer) : Keeps l (lexGround l) := by
  unfold lexGround
  simp only
  have h1 := (groundStart_keeps l).trans (peek_moves _).keeps
  split
  · exact h1.trans (setState_keeps _ _)
  · split
    · exact h1.trans ((next_moves _).keeps.trans ((emit_keeps _ _).trans (setState_keeps _ _)))
    · split
      · exact h1.trans (groundSQuote_keeps _)
      · split
        · exact h1.trans ((next_moves _).keeps.trans (setState_keeps _ _))
        · split
          · exact h1.trans (groundSlash_keeps _)
          · split
            · exact h1.trans (groundPlus_keeps _)
            · exact h1.trans (setState_keeps _ _)

theorem nextTokenLoop_keeps : ∀ (f : Nat) (l : Lexer), Keeps l (nextTokenLoop f l).2 := by
  intro f
  induction f with
  | zero => intro l; unfold nextTokenLoop; exact keeps_of_eq (setFault_errout _ _)
  | succ f ih =>
    intro l
    unfold nextTokenLoop
    split
    · exact fun h => h
    · split
      · exact Keeps.refl l
      · exact (lexGround_keeps l).trans (ih _)
      · exact (qstringLoop_keeps _ _ _ _ _ _ l).trans (ih _)
      · exact (unquotedLoop_keeps _ l).trans (ih _)

theorem nextToken_keeps (l : Lexer) : Keeps l (nextToken l).2 := nextTokenLoop_keeps _ l

end Goyang.Lemmas.Lex
