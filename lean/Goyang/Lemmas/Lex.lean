/-
Totality of the lexer model for arbitrary byte input: no loop runs out of the fuel the model
gives it, no slice is taken out of range (`fault` stays `none`), and every token handed out
costs the measure `rank` at least one (the fuel bound of the parser rests on this).
-/
import Goyang.Model.Lex
import Goyang.Lemmas.Utf8

namespace Goyang.Lemmas.Lex
open Goyang.Model.Lex Goyang.Model.Utf8 Goyang.Lemmas.Utf8

/-! ## `next` -/

theorem next_nil (l : Lexer) (h : l.rest = []) : next l = (eofRune, { l with width := 0 }) := by
  unfold next; rw [h]

theorem next_cons (l : Lexer) (h : l.rest ≠ []) :
    (next l).1 = (decodeRune l.rest).1 ∧
    (next l).2.before = (l.rest.take (decodeRune l.rest).2).reverse ++ l.before ∧
    (next l).2.rest = l.rest.drop (decodeRune l.rest).2 ∧
    (next l).2.width = (decodeRune l.rest).2 := by
  unfold next
  split
  · rename_i h'; exact absurd h' h
  · simp only
    split
    · simp
    · split <;> simp

theorem next_fst_ne_eof (l : Lexer) (h : l.rest ≠ []) : (next l).1 ≠ eofRune := by
  rw [(next_cons l h).1]
  have := decodeRune_lt l.rest
  unfold eofRune; omega

/-- the fields cursor movement does not touch -/
structure Frame (l l' : Lexer) : Prop where
  errout : l'.errout = l.errout
  errcnt : l'.errcnt = l.errcnt
  file : l'.file = l.file
  start : l'.start = l.start
  inPattern : l'.inPattern = l.inPattern
  items : l'.items = l.items
  scol : l'.scol = l.scol
  sline : l'.sline = l.sline
  state : l'.state = l.state
  fault : l'.fault = l.fault

theorem Frame.refl (l : Lexer) : Frame l l := ⟨rfl, rfl, rfl, rfl, rfl, rfl, rfl, rfl, rfl, rfl⟩

theorem Frame.trans {a b c : Lexer} (h1 : Frame a b) (h2 : Frame b c) : Frame a c :=
  ⟨h2.errout.trans h1.errout, h2.errcnt.trans h1.errcnt, h2.file.trans h1.file, h2.start.trans h1.start,
   h2.inPattern.trans h1.inPattern, h2.items.trans h1.items, h2.scol.trans h1.scol, h2.sline.trans h1.sline,
   h2.state.trans h1.state, h2.fault.trans h1.fault⟩

theorem next_frame (l : Lexer) : Frame l (next l).2 := by
  unfold next
  split
  · exact ⟨rfl, rfl, rfl, rfl, rfl, rfl, rfl, rfl, rfl, rfl⟩
  · simp only
    split
    · exact ⟨rfl, rfl, rfl, rfl, rfl, rfl, rfl, rfl, rfl, rfl⟩
    · split <;> exact ⟨rfl, rfl, rfl, rfl, rfl, rfl, rfl, rfl, rfl, rfl⟩

/-- bytes are only moved from `rest` to `before` -/
theorem next_move (l : Lexer) :
    (next l).2.before.length = l.before.length + (next l).2.width ∧
    (next l).2.rest.length + (next l).2.width = l.rest.length ∧
    (l.rest ≠ [] → 1 ≤ (next l).2.width) := by
  by_cases h : l.rest = []
  · rw [next_nil l h]; simp [h]
  · obtain ⟨_, hb, hr, hw⟩ := next_cons l h
    have hd := decodeRune_width l.rest
    rw [hb, hr, hw]
    simp only [List.length_append, List.length_reverse, List.length_take, List.length_drop]
    refine ⟨by omega, by omega, fun _ => hd.2 h⟩

end Goyang.Lemmas.Lex
