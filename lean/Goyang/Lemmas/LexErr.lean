/-
The error line the lexer must write before the characters `suf`, computed from the text alone:
an unterminated block comment (at its opener), an unterminated quote (at its opener), or — outside
pattern mode — the first undefined backslash pair of a double-quoted string (at its backslash).
`Lemmas/LexHead.lean` shows the lexer model writes exactly this line first.
-/
import Goyang.Model.Lex
import Goyang.Spec.Parse

namespace Goyang.Lemmas.LexErr
open Goyang.Model.Lex (ErrLine ErrClass)
open Goyang.Spec.Parse

/-- an error line of class `cls` at the position (from the text alone) of offset `off` -/
def mkErr (text : List Char) (file : List UInt8) (off : Nat) (cls : ErrClass) : ErrLine :=
  { file := file, pos := some (((lineOf text off : Nat) : Int), ((colOf text off : Nat) : Int)), cls := cls }

/-- `suf` is a tail of `text`; `b`: pattern mode -/
def lexErr (text : List Char) (file : List UInt8) (b : Bool) (suf : List Char) : Option ErrLine :=
  match skipGround suf with
  | none => (openerGround suf).map fun k => mkErr text file (text.length - k) .missingCommentEnd
  | some [] => none
  | some (c :: r) =>
    if c = '\'' then
      match scanSq r with
      | none => some (mkErr text file (text.length - (r.length + 1)) .missingSQuote)
      | some _ => none
    else if c = '"' then
      match (if b then [] else escMarks (text.length - (r.length + 1) + 1) r) with
      | o :: _ => some (mkErr text file o .invalidEscape)
      | [] =>
        match scanDq r with
        | none => some (mkErr text file (text.length - (r.length + 1)) .missingDQuote)
        | some _ => none
    else none

end Goyang.Lemmas.LexErr
