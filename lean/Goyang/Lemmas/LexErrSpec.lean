/-
Pure facts about the error line of the reference reader (`lexErr`): the opener of an unclosed block
comment by shape of the text, when an error line is due, and what a line feed appended to the text
changes (nothing).
-/
import Goyang.Lemmas.LexErr
import Goyang.Lemmas.Scan
import Goyang.Lemmas.ListSrc
import Goyang.Lemmas.Newline

namespace Goyang.Lemmas.LexErrSpec
open Goyang.Model.Lex (ErrLine ErrClass)
open Goyang.Spec.Parse Goyang.Lemmas.Scan Goyang.Lemmas.LexErr
open Goyang.Lemmas.ListSrc (badEsc firstBadOff escErr)
open Goyang.Lemmas.QStr (validEsc)

/-! ## A. the opener functions by shape of the text -/

theorem openerGround_blanks (bl r : List Char) (h : ∀ x ∈ bl, isSpace x = true) :
    openerGround (bl ++ r) = openerGround r := by
  induction bl with
  | nil => rfl
  | cons b bl ih =>
    simp only [List.cons_append]
    rw [openerGround, if_pos (h b (by simp))]
    exact ih (fun x hx => h x (by simp [hx]))

theorem openerGround_token (c : Char) (r : List Char) (hs : isSpace c = false) (hc : c ≠ '/') :
    openerGround (c :: r) = none := by
  rw [openerGround]; simp [hs, hc]

theorem openerGround_slash (r : List Char) : openerGround ('/' :: r) = openerSlash (r.length + 1) r := by
  rw [openerGround]; simp [isSpace]

theorem openerSlash_line (k : Nat) (r : List Char) : openerSlash k ('/' :: r) = openerLine r := by
  rw [openerSlash]; simp

theorem openerSlash_block (k : Nat) (r : List Char) : openerSlash k ('*' :: r) = openerBlock k false r := by
  rw [openerSlash]; simp

theorem openerSlash_token (k : Nat) (r : List Char) (h : ∀ c r', r = c :: r' → c ≠ '/' ∧ c ≠ '*') :
    openerSlash k r = none := by
  cases r with
  | nil => rw [openerSlash]
  | cons c r' =>
    obtain ⟨h1, h2⟩ := h c r' rfl
    rw [openerSlash]; simp [h1, h2]

theorem openerLine_found (s r : List Char) (hs : '\n' ∉ s) : openerLine (s ++ '\n' :: r) = openerGround r := by
  induction s with
  | nil => rw [List.nil_append, openerLine]; simp
  | cons d s ih =>
    have hd : d ≠ '\n' := fun h => hs (by rw [h]; simp)
    simp only [List.cons_append]
    rw [openerLine, if_neg hd]
    exact ih (fun h => hs (by simp [h]))

theorem openerLine_none (s : List Char) (hs : '\n' ∉ s) : openerLine s = none := by
  induction s with
  | nil => rw [openerLine]
  | cons d s ih =>
    have hd : d ≠ '\n' := fun h => hs (by rw [h]; simp)
    rw [openerLine, if_neg hd]
    exact ih (fun h => hs (by simp [h]))

/-- what an open block comment yields: its opener when it is never closed -/
def openerEnd (k : Nat) (cs : List Char) : Option Nat :=
  match findSS cs with
  | none => some k
  | some p => openerGround p.2

theorem openerEnd_cons (k : Nat) (c : Char) (cs : List Char) (hc : c ≠ '*') :
    openerEnd k (c :: cs) = openerEnd k cs := by
  unfold openerEnd
  cases cs with
  | nil => simp [findSS]
  | cons d r =>
    rw [findSS, if_neg (fun h => hc h.1)]
    cases findSS (d :: r) with
    | none => rfl
    | some p => rfl

theorem openerEnd_star (k : Nat) (c : Char) (cs : List Char) :
    openerEnd k ('*' :: c :: cs) = if c = '/' then openerGround cs else openerEnd k (c :: cs) := by
  unfold openerEnd
  rw [findSS]
  by_cases hc : c = '/'
  · simp [hc]
  · rw [if_neg (fun h => hc h.2), if_neg hc]
    cases findSS (c :: cs) with
    | none => rfl
    | some p => rfl

theorem openerBlock_openerEnd (k : Nat) : ∀ (cs : List Char),
    openerBlock k false cs = openerEnd k cs ∧ openerBlock k true cs = openerEnd k ('*' :: cs) := by
  intro cs
  induction cs with
  | nil => constructor <;> simp [openerBlock, openerEnd, findSS]
  | cons c cs ih =>
    obtain ⟨ih1, ih2⟩ := ih
    have hfalse : openerBlock k false (c :: cs) = openerEnd k (c :: cs) := by
      rw [openerBlock]
      simp only [Bool.false_and, Bool.false_eq_true, if_false]
      by_cases hc : c = '*'
      · subst hc; simp only [decide_true]; exact ih2
      · simp only [hc, decide_false]; rw [ih1, openerEnd_cons k c cs hc]
    refine ⟨hfalse, ?_⟩
    rw [openerEnd_star, openerBlock]
    by_cases hc : c = '/'
    · simp [hc]
    · simp only [Bool.true_and, decide_eq_true_eq, hc, if_false]
      rw [← hfalse, openerBlock]
      simp

theorem openerGround_line (s r2 : List Char) (hs : '\n' ∉ s) :
    openerGround ('/' :: '/' :: (s ++ '\n' :: r2)) = openerGround r2 := by
  rw [openerGround_slash, openerSlash_line, openerLine_found s r2 hs]

theorem openerGround_line_none (s : List Char) (hs : '\n' ∉ s) :
    openerGround ('/' :: '/' :: s) = none := by
  rw [openerGround_slash, openerSlash_line, openerLine_none s hs]

theorem openerGround_block_found (r1 s r2 : List Char) (h : findSS r1 = some (s, r2)) :
    openerGround ('/' :: '*' :: r1) = openerGround r2 := by
  rw [openerGround_slash, openerSlash_block, (openerBlock_openerEnd _ r1).1]; unfold openerEnd; rw [h]

theorem openerGround_block_none (r1 : List Char) (h : findSS r1 = none) :
    openerGround ('/' :: '*' :: r1) = some (r1.length + 2) := by
  rw [openerGround_slash, openerSlash_block, (openerBlock_openerEnd _ r1).1]; unfold openerEnd; rw [h]
  rfl

theorem openerGround_of_skip_none_aux : ∀ (n : Nat) (cs : List Char), cs.length ≤ n → skipGround cs = none →
    ∃ k, openerGround cs = some k ∧ k ≤ cs.length := by
  intro n
  induction n using Nat.strongRecOn with
  | _ n ih =>
    intro cs hn h
    cases cs with
    | nil => rw [skipGround] at h; cases h
    | cons c cs' =>
      simp only [List.length_cons] at hn
      by_cases hsp : isSpace c = true
      · rw [skipGround, if_pos hsp] at h
        obtain ⟨k, h1, h2⟩ := ih cs'.length (by omega) cs' (Nat.le_refl _) h
        refine ⟨k, ?_, by simp only [List.length_cons]; omega⟩
        rw [openerGround, if_pos hsp]; exact h1
      · have hsp' : isSpace c = false := by simpa using hsp
        by_cases hc : c = '/'
        · subst hc
          rw [skipGround_slash] at h
          cases cs' with
          | nil => rw [afterSlash] at h; cases h
          | cons d r1 =>
            by_cases hd1 : d = '/'
            · subst hd1
              rw [afterSlash_line] at h
              by_cases hnl : '\n' ∈ r1
              · obtain ⟨s0, r2, hr1, hs0⟩ := split_first_nl r1 hnl
                rw [hr1, skipLine_found s0 r2 hs0] at h
                obtain ⟨k, h1, h2⟩ := ih r2.length (by
                  rw [hr1] at hn; simp only [List.length_cons, List.length_append] at hn; omega) r2 (Nat.le_refl _) h
                refine ⟨k, ?_, ?_⟩
                · rw [hr1, openerGround_line s0 r2 hs0]; exact h1
                · rw [hr1]; simp only [List.length_cons, List.length_append]; omega
              · rw [skipLine_none r1 hnl] at h; cases h
            · by_cases hd2 : d = '*'
              · subst hd2
                rw [afterSlash_block] at h
                cases hf : findSS r1 with
                | none =>
                  exact ⟨r1.length + 2, openerGround_block_none r1 hf, by simp only [List.length_cons]; omega⟩
                | some p =>
                  obtain ⟨s0, r2⟩ := p
                  rw [skipBlock_found r1 s0 r2 hf] at h
                  have hsp2 := findSS_split r1.length r1 (Nat.le_refl _) s0 r2 hf
                  obtain ⟨k, h1, h2⟩ := ih r2.length (by
                    rw [hsp2] at hn; simp only [List.length_cons, List.length_append] at hn; omega) r2 (Nat.le_refl _) h
                  refine ⟨k, ?_, ?_⟩
                  · rw [openerGround_block_found r1 s0 r2 hf]; exact h1
                  · rw [hsp2]; simp only [List.length_cons, List.length_append]; omega
              · rw [afterSlash_token (d :: r1) (fun c' r' he => by
                  simp only [List.cons.injEq] at he; rw [← he.1]; exact ⟨hd1, hd2⟩)] at h
                cases h
        · rw [skipGround_token c cs' hsp' hc] at h; cases h

/-- a block comment that is not closed has an opener -/
theorem openerGround_of_skip_none (cs : List Char) (h : skipGround cs = none) :
    ∃ k, openerGround cs = some k ∧ k ≤ cs.length :=
  openerGround_of_skip_none_aux cs.length cs (Nat.le_refl _) h

/-! ## B. `lexErr` -/

theorem lexErr_congr (text : List Char) (file : List UInt8) (b : Bool) (suf suf2 : List Char)
    (h1 : skipGround suf = skipGround suf2) (h2 : openerGround suf = openerGround suf2) :
    lexErr text file b suf = lexErr text file b suf2 := by
  unfold lexErr; rw [h1, h2]

/-- where the tokenizer fails, an error line is due -/
theorem lexErr_of_none (text : List Char) (file : List UInt8) (b : Bool) (suf : List Char)
    (h : specNext text.length suf = none) : ∃ e, lexErr text file b suf = some e := by
  unfold specNext at h
  unfold lexErr
  cases hg : skipGround suf with
  | none =>
    obtain ⟨k, hk, _⟩ := openerGround_of_skip_none suf hg
    simp only [hk, Option.map_some]
    exact ⟨_, rfl⟩
  | some l =>
    rw [hg] at h
    cases l with
    | nil => simp [specNextG] at h
    | cons c r =>
      unfold specNextG at h
      simp only at h
      split at h
      · cases h
      · split at h
        · cases h
        · split at h
          · cases h
          · split at h
            · rename_i hq
              simp only [if_pos hq]
              cases hs : scanSq r with
              | none => exact ⟨_, rfl⟩
              | some p => simp [hs] at h
            · rename_i hq
              split at h
              · rename_i hd
                simp only [if_neg hq, if_pos hd]
                cases hs : scanDq r with
                | none =>
                  split
                  · exact ⟨_, rfl⟩
                  · exact ⟨_, rfl⟩
                | some p => simp [hs] at h
              · cases h

/-- the first mark of a string with an undefined pair is the backslash of that pair -/
theorem escMarks_firstBad : ∀ (n : Nat) (cs : List Char), cs.length ≤ n → ∀ (o : Nat) (items : List QItem) (r : List Char),
    scanDq cs = some (items, r) → items.all validEsc = false →
    ∃ more, escMarks o cs = (o + firstBadOff items) :: more := by
  intro n
  induction n with
  | zero =>
    intro cs hn o items r h
    have : cs = [] := List.eq_nil_of_length_eq_zero (by omega)
    subst this; simp [scanDq] at h
  | succ n ih =>
    intro cs hn o items r h hbad
    cases cs with
    | nil => simp [scanDq] at h
    | cons c cs =>
      unfold scanDq at h
      split at h
      · simp only [Option.some.injEq, Prod.mk.injEq] at h
        rw [← h.1] at hbad; simp at hbad
      · rename_i hq
        split at h
        · rename_i hb
          split at h
          · cases h
          · rename_i e r0
            cases hs : scanDq r0 with
            | none => simp [hs] at h
            | some p =>
              obtain ⟨s', r'⟩ := p
              simp only [hs, Option.map_some, Option.some.injEq, Prod.mk.injEq] at h
              rw [← h.1] at hbad ⊢
              subst hb
              rw [escMarks]
              simp only [hq, if_false, if_true]
              by_cases hv : (e = 'n' || e = 't' || e = '"' || e = '\\') = true
              · have hv' : validEsc (.esc e) = true := by simpa [validEsc] using hv
                rw [if_pos hv]
                simp only [List.all_cons, hv', Bool.true_and] at hbad
                obtain ⟨more, hm⟩ := ih r0 (by simp only [List.length_cons] at hn; omega) (o + 2) s' r' hs hbad
                refine ⟨more, ?_⟩
                rw [hm, firstBadOff, if_pos hv']
                congr 1; omega
              · have hv' : ¬ validEsc (.esc e) = true := by simpa [validEsc] using hv
                rw [if_neg hv]
                exact ⟨_, by rw [firstBadOff, if_neg hv']; rfl⟩
        · rename_i hb
          cases hs : scanDq cs with
          | none => simp [hs] at h
          | some p =>
            obtain ⟨s', r'⟩ := p
            simp only [hs, Option.map_some, Option.some.injEq, Prod.mk.injEq] at h
            rw [← h.1] at hbad ⊢
            simp only [List.all_cons, validEsc, Bool.true_and] at hbad
            obtain ⟨more, hm⟩ := ih cs (by simp only [List.length_cons] at hn; omega) (o + 1) s' r' hs hbad
            refine ⟨more, ?_⟩
            conv => lhs; unfold escMarks
            simp only [hq, hb, if_false]
            rw [hm, firstBadOff]
            congr 1; omega

theorem escErr_dq (text : List Char) (file : List UInt8) (raw : List QItem) (off : Nat) :
    escErr text file ⟨.dq raw, off⟩ = mkErr text file (off + 1 + firstBadOff raw) .invalidEscape := rfl

/-- a double-quoted token with an undefined pair, read outside pattern mode: the line the list source writes -/
theorem lexErr_of_badEsc (text : List Char) (file : List UInt8) (b : Bool) (suf : List Char) (t : PTok) (rest : List Char)
    (h : specNext text.length suf = some (some (t, rest))) (hb : badEsc b t = true) :
    lexErr text file b suf = some (escErr text file t) := by
  unfold specNext at h
  unfold lexErr
  cases hg : skipGround suf with
  | none => rw [hg] at h; simp [specNextG] at h
  | some l =>
    rw [hg] at h
    cases l with
    | nil => simp [specNextG] at h
    | cons c r =>
      unfold specNextG at h
      simp only at h
      split at h
      · simp only [Option.some.injEq, Prod.mk.injEq] at h; rw [← h.1] at hb; simp [badEsc] at hb
      · split at h
        · simp only [Option.some.injEq, Prod.mk.injEq] at h; rw [← h.1] at hb; simp [badEsc] at hb
        · split at h
          · simp only [Option.some.injEq, Prod.mk.injEq] at h; rw [← h.1] at hb; simp [badEsc] at hb
          · split at h
            · cases hs : scanSq r with
              | none => simp [hs] at h
              | some p =>
                simp only [hs, Option.some.injEq, Prod.mk.injEq] at h; rw [← h.1] at hb; simp [badEsc] at hb
            · rename_i hq
              split at h
              · rename_i hd
                cases hs : scanDq r with
                | none => simp [hs] at h
                | some p =>
                  obtain ⟨s, r'⟩ := p
                  simp only [hs, Option.some.injEq, Prod.mk.injEq] at h
                  rw [← h.1] at hb ⊢
                  simp only [badEsc, Bool.and_eq_true, Bool.not_eq_eq_eq_not, Bool.not_true] at hb
                  obtain ⟨hb1, hb2⟩ := hb
                  subst hb1
                  obtain ⟨more, hm⟩ := escMarks_firstBad r.length r (Nat.le_refl _)
                    (text.length - (r.length + 1) + 1) s r' hs hb2
                  simp only [if_neg hq, if_pos hd, Bool.false_eq_true, if_false, hm]
                  rw [escErr_dq]
              · simp only [Option.some.injEq, Prod.mk.injEq] at h; rw [← h.1] at hb; simp [badEsc] at hb

/-! ## C. a line feed appended to the text -/

theorem openerGround_nl_aux : ∀ (n : Nat) (cs : List Char), cs.length ≤ n →
    openerGround (cs ++ ['\n']) = (openerGround cs).map (· + 1) := by
  intro n
  induction n using Nat.strongRecOn with
  | _ n ih =>
    intro cs hn
    cases cs with
    | nil =>
      simp only [List.nil_append]
      rw [openerGround, openerGround]
      simp [isSpace, openerGround]
    | cons c cs' =>
      simp only [List.length_cons] at hn
      simp only [List.cons_append]
      by_cases hsp : isSpace c = true
      · rw [openerGround, if_pos hsp]
        conv => rhs; rw [openerGround, if_pos hsp]
        exact ih cs'.length (by omega) cs' (Nat.le_refl _)
      · have hsp' : isSpace c = false := by simpa using hsp
        by_cases hc : c = '/'
        · subst hc
          cases cs' with
          | nil =>
            simp only [List.nil_append]
            rw [openerGround_slash, openerGround_slash]
            rw [openerSlash_token _ ['\n'] (fun c r h => by
              simp only [List.cons.injEq] at h; rw [← h.1]; exact ⟨by decide, by decide⟩)]
            rw [openerSlash]
            rfl
          | cons d r1 =>
            simp only [List.cons_append]
            by_cases hd1 : d = '/'
            · subst hd1
              by_cases hnl : '\n' ∈ r1
              · obtain ⟨s0, r2, hr1, hs0⟩ := split_first_nl r1 hnl
                rw [hr1, openerGround_line s0 r2 hs0]
                have : s0 ++ '\n' :: r2 ++ ['\n'] = s0 ++ '\n' :: (r2 ++ ['\n']) := by simp
                rw [this, openerGround_line s0 (r2 ++ ['\n']) hs0]
                exact ih r2.length (by
                  rw [hr1] at hn; simp only [List.length_cons, List.length_append] at hn; omega) r2 (Nat.le_refl _)
              · rw [openerGround_line_none r1 hnl, openerGround_line r1 [] hnl]
                rw [openerGround]
                rfl
            · by_cases hd2 : d = '*'
              · subst hd2
                cases hf : findSS r1 with
                | none =>
                  have hf2 : findSS (r1 ++ ['\n']) = none := by
                    rw [findSS_nl r1.length r1 (Nat.le_refl _), hf]; rfl
                  rw [openerGround_block_none r1 hf, openerGround_block_none _ hf2]
                  simp only [List.length_append, List.length_cons, List.length_nil, Option.map_some]
                | some p =>
                  obtain ⟨s0, r2⟩ := p
                  have hf2 : findSS (r1 ++ ['\n']) = some (s0, r2 ++ ['\n']) := by
                    rw [findSS_nl r1.length r1 (Nat.le_refl _), hf]; rfl
                  rw [openerGround_block_found r1 s0 r2 hf, openerGround_block_found _ s0 _ hf2]
                  have hsp2 := findSS_split r1.length r1 (Nat.le_refl _) s0 r2 hf
                  exact ih r2.length (by
                    rw [hsp2] at hn; simp only [List.length_cons, List.length_append] at hn; omega) r2 (Nat.le_refl _)
              · rw [openerGround_slash, openerGround_slash]
                rw [openerSlash_token _ (d :: r1) (fun c' r' he => by
                  simp only [List.cons.injEq] at he; rw [← he.1]; exact ⟨hd1, hd2⟩)]
                rw [openerSlash_token _ (d :: (r1 ++ ['\n'])) (fun c' r' he => by
                  simp only [List.cons.injEq] at he; rw [← he.1]; exact ⟨hd1, hd2⟩)]
                rfl
        · rw [openerGround_token c (cs' ++ ['\n']) hsp' hc, openerGround_token c cs' hsp' hc]
          rfl

theorem openerGround_nl (cs : List Char) : openerGround (cs ++ ['\n']) = (openerGround cs).map (· + 1) :=
  openerGround_nl_aux cs.length cs (Nat.le_refl _)

theorem escMarks_nl_aux : ∀ (n : Nat) (cs : List Char), cs.length ≤ n → ∀ (o : Nat),
    escMarks o (cs ++ ['\n']) = escMarks o cs := by
  intro n
  induction n with
  | zero =>
    intro cs hn o
    have : cs = [] := List.eq_nil_of_length_eq_zero (by omega)
    subst this; simp [escMarks]
  | succ n ih =>
    intro cs hn o
    cases cs with
    | nil => simp [escMarks]
    | cons c cs =>
      simp only [List.cons_append]
      by_cases hq : c = '"'
      · subst hq; unfold escMarks; simp
      · by_cases hb : c = '\\'
        · subst hb
          cases cs with
          | nil => simp [escMarks]
          | cons e r0 =>
            simp only [List.cons_append]
            have := ih r0 (by simp only [List.length_cons] at hn; omega) (o + 2)
            conv => lhs; unfold escMarks
            conv => rhs; unfold escMarks
            simp only [show ('\\' : Char) ≠ '"' by decide, if_false, if_true]
            rw [this]
        · have := ih cs (by simp only [List.length_cons] at hn; omega) (o + 1)
          conv => lhs; unfold escMarks
          conv => rhs; unfold escMarks
          simp only [hq, hb, if_false]
          rw [this]

theorem escMarks_nl (o : Nat) (cs : List Char) : escMarks o (cs ++ ['\n']) = escMarks o cs :=
  escMarks_nl_aux cs.length cs (Nat.le_refl _) o

theorem mkErr_nl (text : List Char) (file : List UInt8) (off : Nat) (cls : ErrClass) (h : off ≤ text.length) :
    mkErr (text ++ ['\n']) file off cls = mkErr text file off cls := by
  unfold mkErr lineOf colOf
  rw [Goyang.Lemmas.Newline.take_append_nl text off h]

theorem escMarks_lt_aux : ∀ (n : Nat) (cs : List Char), cs.length ≤ n → ∀ (o : Nat),
    ∀ x ∈ escMarks o cs, x < o + cs.length := by
  intro n
  induction n with
  | zero =>
    intro cs hn o x hx
    have : cs = [] := List.eq_nil_of_length_eq_zero (by omega)
    subst this; simp [escMarks] at hx
  | succ n ih =>
    intro cs hn o x hx
    cases cs with
    | nil => simp [escMarks] at hx
    | cons c cs =>
      by_cases hq : c = '"'
      · subst hq; unfold escMarks at hx; simp at hx
      · by_cases hb : c = '\\'
        · subst hb
          cases cs with
          | nil =>
            simp [escMarks] at hx
            subst hx; simp
          | cons e r0 =>
            have := ih r0 (by simp only [List.length_cons] at hn; omega) (o + 2) x
            unfold escMarks at hx
            simp only [show ('\\' : Char) ≠ '"' by decide, if_false, if_true] at hx
            simp only [List.length_cons]
            split at hx
            · have := this hx; omega
            · simp only [List.mem_cons] at hx
              rcases hx with hx | hx
              · omega
              · have := this hx; omega
        · have := ih cs (by simp only [List.length_cons] at hn; omega) (o + 1) x
          unfold escMarks at hx
          simp only [hq, hb, if_false] at hx
          have := this hx
          simp only [List.length_cons]; omega

/-- every offset `escMarks` returns lies before the end of the scanned text -/
theorem escMarks_lt (o : Nat) (cs : List Char) : ∀ x ∈ escMarks o cs, x < o + cs.length :=
  escMarks_lt_aux cs.length cs (Nat.le_refl _) o

theorem lexErr_nl (text : List Char) (file : List UInt8) (b : Bool) (pre suf : List Char) (ht : text = pre ++ suf) :
    lexErr (text ++ ['\n']) file b (suf ++ ['\n']) = lexErr text file b suf := by
  have hlen : (text ++ ['\n']).length = text.length + 1 := by simp
  have hsl : suf.length ≤ text.length := by rw [ht]; simp
  unfold lexErr
  rw [skipGround_nl suf.length suf (Nat.le_refl _), openerGround_nl, hlen]
  cases hg : skipGround suf with
  | none =>
    simp only [Option.map_none]
    cases ho : openerGround suf with
    | none => rfl
    | some k =>
      simp only [Option.map_some]
      rw [show text.length + 1 - (k + 1) = text.length - k by omega]
      rw [mkErr_nl text file _ _ (Nat.sub_le _ _)]
  | some l =>
    have hsx := skipGround_suffix suf.length suf (Nat.le_refl _) l hg
    cases l with
    | nil => simp [withNL]
    | cons c r =>
      have hrl : r.length + 1 ≤ text.length := by
        have := hsx.length_le
        simp only [List.length_cons] at this; omega
      have hoff : text.length + 1 - ((r ++ ['\n']).length + 1) = text.length - (r.length + 1) := by
        simp only [List.length_append, List.length_cons, List.length_nil]; omega
      simp only [Option.map_some, withNL, reduceCtorEq, if_false, List.cons_append, hoff]
      split
      · rw [scanSq_nl]
        cases scanSq r with
        | none =>
          simp only [Option.map_none]
          rw [mkErr_nl text file _ _ (Nat.sub_le _ _)]
        | some p => rfl
      · split
        · rw [escMarks_nl]
          cases b with
          | true =>
            simp only [if_true]
            rw [scanDq_nl r.length r (Nat.le_refl _)]
            cases scanDq r with
            | none =>
              simp only [Option.map_none]
              rw [mkErr_nl text file _ _ (Nat.sub_le _ _)]
            | some p => rfl
          | false =>
            simp only [Bool.false_eq_true, if_false]
            cases hm : escMarks (text.length - (r.length + 1) + 1) r with
            | nil =>
              simp only
              rw [scanDq_nl r.length r (Nat.le_refl _)]
              cases scanDq r with
              | none =>
                simp only [Option.map_none]
                rw [mkErr_nl text file _ _ (Nat.sub_le _ _)]
              | some p => rfl
            | cons o more =>
              simp only
              have := escMarks_lt (text.length - (r.length + 1) + 1) r o (by rw [hm]; simp)
              rw [mkErr_nl text file o _ (by omega)]
        · rfl

end Goyang.Lemmas.LexErrSpec
