/-
Which error line the lexer model writes first: at an unterminated quote or comment the line
names the opener, at an undefined backslash pair (outside pattern mode) the backslash — positions
as computed from the text alone (`lexErr` of `Lemmas/LexErr.lean`).  Strengthens the error cases of
`Lemmas/TokSim.lean` (`ground_sim` says "an error has been written").
-/
import Goyang.Lemmas.TokSim
import Goyang.Lemmas.LexErr
import Goyang.Lemmas.LexKeepsH
import Goyang.Lemmas.LexErrSpec

namespace Goyang.Lemmas.LexHead
open Goyang.Model.Lex Goyang.Model.Utf8 Goyang.Lemmas.Utf8 Goyang.Lemmas.Lex Goyang.Lemmas.LexSim
open Goyang.Spec.Parse Goyang.Lemmas.Scan Goyang.Lemmas.QStr Goyang.Lemmas.TokSim Goyang.Lemmas.LexErr
open Goyang.Lemmas.LexKeepsH Goyang.Lemmas.LexErrSpec

/-! ## the first error line -/

theorem emit_err_fields (l : Lexer) :
    (emit Code.error l).errcnt = l.errcnt ∧ (emit Code.error l).errout = l.errout ∧ (emit Code.error l).file = l.file := by
  unfold emit
  split
  · unfold setFault; split <;> exact ⟨rfl, rfl, rfl⟩
  · obtain ⟨_, _, _, _, _, e6, e7, _, e9, _, _, _⟩ := emitText_frame Code.error
      (l.before.take (l.pos - l.start)).reverse l
    exact ⟨e7, e6, e9⟩

/-- the first error is written as it is -/
theorem errorfAt_first (line col : Int) (cls : ErrClass) (l : Lexer) (h0 : l.errcnt = 0) (he : l.errout = []) :
    (errorfAt line col cls l).errout = [{ file := l.file, pos := some (line, col + 1), cls := cls }] := by
  unfold errorfAt errorf adderror
  simp only
  obtain ⟨e1, e2, e3⟩ := emit_err_fields { l with line := line, col := col }
  rw [if_neg (by rw [e1]; show ¬ l.errcnt = maxErrors; rw [h0]; decide),
    if_neg (by rw [e1]; show ¬ l.errcnt = maxErrors + 1; rw [h0]; decide)]
  simp only
  rw [e2]
  show l.errout ++ _ = _
  rw [he]
  rfl

/-- the position of the character behind `P`, from the text alone -/
theorem mkErr_at (text : List Char) (file : List UInt8) (P rest : List Char) (ht : text = P ++ rest) (cls : ErrClass) :
    mkErr text file P.length cls = { file := file, pos := some (lineAfter P, colAfter P + 1), cls := cls } := by
  have htake : text.take P.length = P := by rw [ht, List.take_left']; rfl
  unfold mkErr lineOf colOf lineAfter colAfter
  rw [htake]
  congr 2
  push_cast
  congr 1
  omega

section
variable (text : List Char) (file : List UInt8)

/-- an unterminated single-quoted string: the line names the opening quote -/
theorem sq_head (l : Lexer) (P r : List Char) (ht : text = P ++ '\'' :: r)
    (hk : Tk file l P ('\'' :: r)) (hs : scanSq r = none) :
    ∀ g, (nextTokenLoop g (groundSQuote l)).2.errout.head? = some (mkErr text file P.length .missingSQuote) := by
  obtain ⟨n1, n2, n3, _, n5⟩ := next_char l P r '\'' hk.cur (hk.pos.posN _)
  have hr1 : Ready file (next l).2 := n5.ready hk.ready
  obtain ⟨c1, c2, c3, c4, c5, c6, c7, c8⟩ := consume_tk file (next l).2 (P ++ ['\'']) r n2 n3 hr1
    (n5.state.trans hk.state) _ _ (n5.sline.trans hk.sline) (n5.scol.trans hk.scol)
  have hnm := scanSq_none_iff r hs
  have hidx : indexOf [39] (consume (next l).2).rest = none := by
    rw [c1.rest]; exact indexOf_char_none '\'' (by decide) r hnm
  intro g
  apply nextTokenLoop_keepsH
  unfold groundSQuote
  simp only
  rw [skipTo_none _ _ hidx]
  simp only [Bool.false_eq_true, if_false]
  show (errorfAt _ _ _ _).errout.head? = _
  rw [errorfAt_first _ _ _ _ c4.errcnt c4.errout, mkErr_at text file P _ ht, c1.line, c2.col, c4.file,
    lineAfter_snoc, colAfter_snoc, if_neg (by decide), if_neg (by decide)]
  simp

/-- an unterminated block comment: the line names the `/` of its opener -/
theorem block_comment_head (l : Lexer) (P r1 : List Char) (ht : text = P ++ '/' :: '*' :: r1)
    (hk : Tk file l P ('/' :: '*' :: r1)) (hf : findSS r1 = none) :
    (groundSlash l).errout.head? = some (mkErr text file P.length .missingCommentEnd) := by
  obtain ⟨n1, n2, n3, _, n5⟩ := next_char l P _ '/' hk.cur (hk.pos.posN _)
  obtain ⟨p1, p2, p3, p4⟩ := peek_char (next l).2 _ _ '*' n2 (n3.posN _)
  obtain ⟨m1, m2, m3, _, m5⟩ := next_char (peek (next l).2).2 _ _ '*' p2 p3
  obtain ⟨l3, hl3⟩ : ∃ l3, l3 = (next (peek (next l).2).2).2 := ⟨_, rfl⟩
  rw [← hl3] at m2 m3 m5
  have hfr3 : Frame l l3 := (n5.trans p4).trans m5
  have hidx := indexOf_ss r1.length r1 (Nat.le_refl _)
  rw [hf] at hidx
  have hg : groundSlash l = setState .done (errorfAt l3.line (l3.col - 2) .missingCommentEnd l3) := by
    rw [groundSlash_block l (by rw [p1]; rfl), ← hl3, skipTo_none _ _ (by rw [m2.rest]; exact hidx)]
    rfl
  rw [hg]
  show (errorfAt _ _ _ _).errout.head? = _
  rw [errorfAt_first _ _ _ _ (hfr3.errcnt.trans hk.ready.errcnt) (hfr3.errout.trans hk.ready.errout),
    mkErr_at text file P _ ht, m2.line, m3.col, hfr3.file, hk.ready.file,
    lineAfter_snoc, lineAfter_snoc, colAfter_snoc, colAfter_snoc, if_neg (by decide), if_neg (by decide),
    if_neg (by decide), if_neg (by decide)]
  simp
  omega

end

/-- what the loop of a double-quoted string reports first, from the characters `r` behind the
cursor (offset `o`): outside pattern mode the first undefined pair, else the missing quote -/
def dqErr (text : List Char) (file : List UInt8) (b : Bool) (o : Nat) (r : List Char) (opener : ErrLine) : ErrLine :=
  match (if b then [] else escMarks o r) with
  | x :: _ => mkErr text file x .invalidEscape
  | [] => opener

theorem escMarks_lit (o : Nat) (c : Char) (r : List Char) (hq : c ≠ '"') (hb : c ≠ '\\') :
    escMarks o (c :: r) = escMarks (o + 1) r := by
  rw [escMarks.eq_def]
  simp only [hq, hb, if_false]

theorem dqErr_true (text : List Char) (file : List UInt8) (o : Nat) (r : List Char) (opener : ErrLine) :
    dqErr text file true o r opener = opener := rfl

section
variable (text : List Char) (file : List UInt8)

theorem qstringLoop_head (i ln cl : Int) : ∀ (n : Nat) (r : List Char), r.length ≤ n →
    ∀ (f : Nat) (tb : List UInt8) (over : Bool) (l : Lexer) (pre : List Char),
    text = pre ++ r → Cur l pre r → Pos l pre → l.errcnt = 0 → l.errout = [] → l.file = file →
    (encodeChars r).length + 2 ≤ f → DqBad l.inPattern r →
    (qstringLoop i ln cl f tb over l).errout.head? =
      some (dqErr text file l.inPattern pre.length r
        { file := file, pos := some (ln, cl + 1), cls := .missingDQuote }) := by
  intro n
  induction n using Nat.strongRecOn with
  | _ n ih =>
    intro r hn f tb over l pre ht hc hp h0 he hfile hf hbad
    obtain ⟨f, rfl⟩ : ∃ f', f = f' + 1 := ⟨f - 1, by omega⟩
    cases r with
    | nil =>
      obtain ⟨n1, n2, n3⟩ := next_eof_cur l pre hc
      rw [qloop_eof _ _ _ _ _ _ _ n1]
      show (errorfAt ln cl .missingDQuote (next l).2).errout.head? = _
      rw [errorfAt_first _ _ _ _ (n3.errcnt.trans h0) (n3.errout.trans he), n3.file, hfile]
      unfold dqErr
      cases l.inPattern <;> simp [escMarks]
    | cons c r1 =>
      obtain ⟨n1, n2, n3, _, n5⟩ := next_char l pre r1 c hc (hp.posN _)
      have hlen := encodeChars_length_cons c r1
      have h01 : (next l).2.errcnt = 0 := n5.errcnt.trans h0
      have he1 : (next l).2.errout = [] := n5.errout.trans he
      have hf1 : (next l).2.file = file := n5.file.trans hfile
      have ht1 : text = (pre ++ [c]) ++ r1 := by rw [ht]; simp
      by_cases hq : c = '"'
      · exfalso
        subst hq
        rcases hbad with h | ⟨items, r', h, _, hall⟩
        · unfold scanDq at h; simp at h
        · unfold scanDq at h
          simp only [if_true, Option.some.injEq, Prod.mk.injEq] at h
          rw [← h.1] at hall; simp at hall
      · by_cases hb : c = '\\'
        · subst hb
          rw [qloop_esc _ _ _ _ _ _ _ (by rw [n1]; decide)]
          cases r1 with
          | nil =>
            obtain ⟨m1, m2, m3⟩ := next_eof_cur (next l).2 _ n2
            rw [m1]
            simp only [eofRune, Nat.reduceEqDiff, if_false, Bool.or_self, Bool.false_eq_true, decide_false]
            obtain ⟨f, rfl⟩ : ∃ f', f = f' + 1 := ⟨f - 1, by
              have : (encodeChars ['\\']).length = 1 := by decide
              omega⟩
            have hpat : (next (next l).2).2.inPattern = l.inPattern := by rw [m3.inPattern, n5.inPattern]
            rw [hpat]
            cases hip : l.inPattern with
            | false =>
              simp only [Bool.not_false, if_true]
              apply qstringLoop_keepsH
              rw [errorfAt_first _ _ _ _ (m3.errcnt.trans h01) (m3.errout.trans he1)]
              unfold dqErr
              simp only [Bool.false_eq_true, if_false, escMarks, show ('\\' : Char) ≠ '"' by decide, if_true]
              rw [mkErr_at text file pre _ ht, n2.line, n3.col, m3.file, hf1, lineAfter_snoc, colAfter_snoc,
                if_neg (by decide), if_neg (by decide)]
              simp
            | true =>
              simp only [Bool.not_true, Bool.false_eq_true, if_false]
              obtain ⟨k1, k2, k3⟩ := next_eof_cur (next (next l).2).2 _ m2
              rw [qloop_eof _ _ _ _ _ _ _ k1]
              show (errorfAt ln cl .missingDQuote (next (next (next l).2).2).2).errout.head? = _
              rw [errorfAt_first _ _ _ _ (k3.errcnt.trans (m3.errcnt.trans h01))
                (k3.errout.trans (m3.errout.trans he1)), k3.file, m3.file, hf1, dqErr_true]
              rfl
          | cons e r2 =>
            obtain ⟨m1, m2, m3', _, m5⟩ := next_char (next l).2 _ r2 e n2 (n3.posN _)
            have hlen2 := encodeChars_length_cons e r2
            have h02 : (next (next l).2).2.errcnt = 0 := m5.errcnt.trans h01
            have he2 : (next (next l).2).2.errout = [] := m5.errout.trans he1
            have hf2 : (next (next l).2).2.file = file := m5.file.trans hf1
            have hpat : (next (next l).2).2.inPattern = l.inPattern := by rw [m5.inPattern, n5.inPattern]
            have ht2 : text = (pre ++ ['\\'] ++ [e]) ++ r2 := by rw [ht]; simp
            have hlen3 : (pre ++ ['\\'] ++ [e]).length = pre.length + 2 := by simp
            -- what is known about the rest
            have hrest : validEsc (.esc e) = true → DqBad l.inPattern r2 := by
              intro hv
              rcases hbad with h | ⟨items, r', h, hbf, hall⟩
              · left
                unfold scanDq at h
                simp only [show ('\\' : Char) ≠ '"' by decide, if_false, if_true] at h
                cases hs : scanDq r2 with
                | none => rfl
                | some p => simp [hs] at h
              · unfold scanDq at h
                simp only [show ('\\' : Char) ≠ '"' by decide, if_false, if_true] at h
                cases hs : scanDq r2 with
                | none => simp [hs] at h
                | some p =>
                  obtain ⟨s', r''⟩ := p
                  simp only [hs, Option.map_some, Option.some.injEq, Prod.mk.injEq] at h
                  right
                  refine ⟨s', r'', hs, hbf, ?_⟩
                  rw [← h.1] at hall
                  simp only [List.all_cons, hv, Bool.true_and] at hall
                  exact hall
            have hfuel : (encodeChars r2).length + 2 ≤ f := by omega
            rw [m1]
            have k110 : e.toNat = 110 ↔ e = 'n' := toNat_eq_iff e 'n'
            have k116 : e.toNat = 116 ↔ e = 't' := toNat_eq_iff e 't'
            have k34 : e.toNat = 34 ↔ e = '"' := toNat_eq_iff e '"'
            have k92 : e.toNat = 92 ↔ e = '\\' := toNat_eq_iff e '\\'
            have hmarks : validEsc (.esc e) = true →
                escMarks pre.length ('\\' :: e :: r2) = escMarks (pre.length + 2) r2 := by
              intro hv
              simp only [validEsc, Bool.or_eq_true, decide_eq_true_eq] at hv
              rw [escMarks]
              simp only [show ('\\' : Char) ≠ '"' by decide, if_false, if_true]
              rw [if_pos (by simpa using hv)]
            have hvalid : ∀ tb', validEsc (.esc e) = true →
                (qstringLoop i ln cl f tb' true (next (next l).2).2).errout.head? =
                  some (dqErr text file l.inPattern pre.length ('\\' :: e :: r2)
                    { file := file, pos := some (ln, cl + 1), cls := .missingDQuote }) := by
              intro tb' hv
              have := ih r2.length (by simp only [List.length_cons] at hn; omega) r2 (Nat.le_refl _) f tb' true _ _
                ht2 m2 m3' h02 he2 hf2 hfuel (by rw [hpat]; exact hrest hv)
              rw [this, hpat, hlen3]
              unfold dqErr
              rw [hmarks hv]
            split
            · rename_i h1; exact hvalid _ (by simp [validEsc, k110.1 h1])
            · split
              · rename_i h2; exact hvalid _ (by simp [validEsc, k116.1 h2])
              · split
                · rename_i h3
                  simp only [Bool.or_eq_true, decide_eq_true_eq] at h3
                  refine hvalid _ ?_
                  rcases h3 with h | h
                  · simp [validEsc, k34.1 h]
                  · simp [validEsc, k92.1 h]
                · rename_i h1 h2 h3
                  simp only [Bool.or_eq_true, decide_eq_true_eq, not_or] at h3
                  have hinv : ¬ (((e = 'n' ∨ e = 't') ∨ e = '"') ∨ e = '\\') := by
                    rintro (((h | h) | h) | h)
                    · exact h1 (k110.2 h)
                    · exact h2 (k116.2 h)
                    · exact h3.1 (k34.2 h)
                    · exact h3.2 (k92.2 h)
                  rw [hpat]
                  cases hip : l.inPattern with
                  | true =>
                    -- pattern mode: no error here, the rest is bad
                    simp only [Bool.not_true, Bool.false_eq_true, if_false]
                    have := ih r2.length (by simp only [List.length_cons] at hn; omega) r2 (Nat.le_refl _) f
                      (tb ++ [92] ++ encodeRune e.toNat) true _ _ ht2 m2 m3' h02 he2 hf2 hfuel (by
                        rw [hpat, hip]
                        rw [hip] at hbad
                        rcases hbad with h | ⟨items, r', h, hbf, hall⟩
                        · left
                          unfold scanDq at h
                          simp only [show ('\\' : Char) ≠ '"' by decide, if_false, if_true] at h
                          cases hs : scanDq r2 with
                          | none => rfl
                          | some p => simp [hs] at h
                        · cases hbf)
                    rw [this, hpat, hip, dqErr_true, dqErr_true]
                  | false =>
                    simp only [Bool.not_false, if_true]
                    apply qstringLoop_keepsH
                    rw [errorfAt_first _ _ _ _ h02 he2]
                    unfold dqErr
                    simp only [Bool.false_eq_true, if_false]
                    rw [escMarks]
                    simp only [show ('\\' : Char) ≠ '"' by decide, if_false, if_true]
                    rw [if_neg (by simpa using hinv)]
                    simp only
                    rw [mkErr_at text file pre _ ht, n2.line, n3.col, hf2, lineAfter_snoc, colAfter_snoc,
                      if_neg (by decide), if_neg (by decide)]
                    simp
        · -- an ordinary character
          obtain ⟨tb', ov, hstep⟩ := qloop_lit i ln cl f tb over l c n1 hq hb
          rw [hstep]
          have := ih r1.length (by simp only [List.length_cons] at hn; omega) r1 (Nat.le_refl _) f tb' ov _ _ ht1 n2 n3
            h01 he1 hf1 (by omega) (by
              rw [n5.inPattern]
              rcases hbad with h | ⟨items, r', h, hbf, hall⟩
              · left
                unfold scanDq at h
                simp only [hq, hb, if_false] at h
                cases hs : scanDq r1 with
                | none => rfl
                | some p => simp [hs] at h
              · unfold scanDq at h
                simp only [hq, hb, if_false] at h
                cases hs : scanDq r1 with
                | none => simp [hs] at h
                | some p =>
                  obtain ⟨s', r''⟩ := p
                  simp only [hs, Option.map_some, Option.some.injEq, Prod.mk.injEq] at h
                  right
                  refine ⟨s', r'', hs, hbf, ?_⟩
                  rw [← h.1] at hall
                  simpa [validEsc] using hall)
          rw [this, n5.inPattern]
          unfold dqErr
          rw [show (pre ++ [c]).length = pre.length + 1 by simp, escMarks_lit pre.length c r1 hq hb]

end

/-- a closed double-quoted string whose backslash pairs are all defined has no mark -/
theorem escMarks_valid : ∀ (n : Nat) (cs : List Char), cs.length ≤ n → ∀ (o : Nat) (items : List QItem) (r : List Char),
    scanDq cs = some (items, r) → items.all validEsc = true → escMarks o cs = [] := by
  intro n
  induction n with
  | zero =>
    intro cs hn o items r h
    have : cs = [] := List.eq_nil_of_length_eq_zero (by omega)
    subst this; simp [scanDq] at h
  | succ n ih =>
    intro cs hn o items r h hall
    cases cs with
    | nil => simp [scanDq] at h
    | cons c cs =>
      by_cases hq : c = '"'
      · subst hq; rw [escMarks.eq_def]; simp
      · by_cases hb : c = '\\'
        · subst hb
          cases cs with
          | nil => simp [scanDq] at h
          | cons e r0 =>
            unfold scanDq at h
            simp only [show ('\\' : Char) ≠ '"' by decide, if_false, if_true] at h
            cases hs : scanDq r0 with
            | none => simp [hs] at h
            | some p =>
              obtain ⟨s', r'⟩ := p
              simp only [hs, Option.map_some, Option.some.injEq, Prod.mk.injEq] at h
              rw [← h.1] at hall
              simp only [List.all_cons, Bool.and_eq_true] at hall
              have hv : (e = 'n' || e = 't' || e = '"' || e = '\\') = true := hall.1
              rw [escMarks.eq_def]
              simp only [show ('\\' : Char) ≠ '"' by decide, if_false, if_true]
              rw [if_pos hv]
              exact ih r0 (by simp only [List.length_cons] at hn; omega) _ s' r' hs hall.2
        · unfold scanDq at h
          simp only [hq, hb, if_false] at h
          cases hs : scanDq cs with
          | none => simp [hs] at h
          | some p =>
            obtain ⟨s', r'⟩ := p
            simp only [hs, Option.map_some, Option.some.injEq, Prod.mk.injEq] at h
            rw [← h.1] at hall
            simp only [List.all_cons, Bool.and_eq_true] at hall
            rw [escMarks_lit o c cs hq hb]
            exact ih cs (by simp only [List.length_cons] at hn; omega) _ s' r' hs hall.2

section
variable (text : List Char) (file : List UInt8)

/-- a double-quoted string that is not closed or (outside pattern mode) has an undefined pair -/
theorem dq_head (b : Bool) (l : Lexer) (P r : List Char) (ht : text = P ++ '"' :: r)
    (hk : Tk file l P ('"' :: r)) (hb : l.inPattern = b) (hbad : DqBad b r) :
    ∀ g, (nextTokenLoop (g + 1) (setState .qstring (next l).2)).2.errout.head? =
      some (dqErr text file b (P.length + 1) r (mkErr text file P.length .missingDQuote)) := by
  obtain ⟨n1, n2, n3, _, n5⟩ := next_char l P r '"' hk.cur (hk.pos.posN _)
  have hr1 : Ready file (next l).2 := n5.ready hk.ready
  obtain ⟨l1, hl1⟩ : ∃ l1, l1 = setState .qstring (next l).2 := ⟨_, rfl⟩
  rw [← hl1]
  have hc1 : Cur l1 (P ++ ['"']) r := by rw [hl1]; exact ⟨n2.before, n2.rest, n2.line⟩
  have hp1 : Pos l1 (P ++ ['"']) := by rw [hl1]; exact ⟨n3.col, n3.tcol⟩
  have hready1 : Ready file l1 := by
    rw [hl1]; exact ⟨hr1.items, hr1.errout, hr1.errcnt, hr1.fault, hr1.file⟩
  have hpat1 : l1.inPattern = b := by rw [hl1, setState_inPattern, n5.inPattern]; exact hb
  intro g
  rw [nextTokenLoop_qstring g l1 hready1.items (by rw [hl1]; rfl)]
  apply nextTokenLoop_keepsH
  unfold lexQString
  rw [qstringLoop_head text file _ _ _ r.length r (Nat.le_refl _) _ [] true l1 (P ++ ['"']) (by rw [ht]; simp)
    hc1 hp1 hready1.errcnt hready1.errout hready1.file (by rw [hc1.rest]; exact Nat.le_refl _)
    (by rw [hpat1]; exact hbad)]
  rw [hpat1, show (P ++ ['"']).length = P.length + 1 by simp, mkErr_at text file P _ ht, hc1.line, hp1.col,
    lineAfter_snoc, colAfter_snoc, if_neg (by decide), if_neg (by decide)]
  have : colAfter P + 1 - 1 + 1 = colAfter P + 1 := by omega
  rw [this]

/-- **the first error line**: a call of `NextToken` from the ground state before the characters
`suf` writes the line `lexErr` computes from the text, if there is one -/
theorem ground_head : ∀ (n : Nat) (suf : List Char), suf.length ≤ n → ∀ (pre : List Char) (l : Lexer) (f : Nat),
    text = pre ++ suf → Gnd file l pre suf → EndsNL suf → (encodeChars suf).length + 3 ≤ f →
    ∀ e, lexErr text file l.inPattern suf = some e → (nextTokenLoop f l).2.errout.head? = some e := by
  intro n
  induction n using Nat.strongRecOn with
  | _ n ih =>
    intro suf hn pre l f ht hg hnl hf e he
    obtain ⟨f, rfl⟩ : ∃ f', f = f' + 1 := ⟨f - 1, by omega⟩
    rw [nextTokenLoop_ground f l hg.ready.items hg.state]
    -- the white space in front
    obtain ⟨bl, hbl⟩ : ∃ bl, bl = suf.takeWhile isSpace := ⟨_, rfl⟩
    obtain ⟨suf', hsuf'⟩ : ∃ suf', suf' = suf.dropWhile isSpace := ⟨_, rfl⟩
    have hsplit : suf = bl ++ suf' := by rw [hbl, hsuf']; exact List.takeWhile_append_dropWhile.symm
    have hblsp : ∀ x ∈ bl, isSpace x = true := by
      intro x hx; rw [hbl] at hx; exact mem_takeWhile_pos isSpace suf x hx
    have hhead : ∀ c r, suf' = c :: r → isSpace c = false := by
      intro c r h
      have := List.head?_dropWhile_not isSpace suf
      rw [← hsuf', h] at this
      simpa using this
    obtain ⟨g1, g2, g3, g4, g5, g6⟩ := groundStart_chars l pre bl suf' hblsp hhead (by rw [← hsplit]; exact hg.cur)
      (by rw [← hsplit]; exact hg.posn)
    rw [lexErr_congr text file _ suf suf' (by rw [hsplit]; exact skipGround_blanks bl suf' hblsp)
      (by rw [hsplit]; exact openerGround_blanks bl suf' hblsp)] at he
    have htext : text = (pre ++ bl) ++ suf' := by rw [ht, hsplit]; simp
    have hready0 : Ready file (groundStart l) := g6.ready hg.ready
    have hnl' : EndsNL suf' := by rw [hsplit] at hnl; exact hnl.suffix
    have hlen' : (encodeChars suf').length ≤ (encodeChars suf).length := by
      rw [hsplit, encodeChars_length_append]; omega
    have hslen : suf'.length ≤ suf.length := by rw [hsplit]; simp
    cases hs' : suf' with
    | nil =>
      rw [hs'] at he
      simp [lexErr, skipGround] at he
    | cons c r =>
      rw [hs'] at g1 htext hnl' hlen' hslen he
      have hcs : isSpace c = false := hhead c r hs'
      have hcn : c ≠ '\n' := by intro h; rw [h] at hcs; simp [isSpace] at hcs
      have hct : c ≠ '\t' := by intro h; rw [h] at hcs; simp [isSpace] at hcs
      obtain ⟨p1, p2, p3, p4⟩ := peek_char (groundStart l) _ r c g1 (g2.posN _)
      obtain ⟨l1, hl1⟩ : ∃ l1, l1 = (peek (groundStart l)).2 := ⟨_, rfl⟩
      rw [← hl1] at p2 p3 p4
      have hk : Tk file l1 (pre ++ bl) (c :: r) :=
        ⟨p2, pos_of_posN p3 hcn hct, p4.start.trans g3, p4.sline.trans g4, p4.scol.trans g5, p4.ready hready0,
         p4.state.trans (g6.state.trans hg.state)⟩
      have hpat1 : l1.inPattern = l.inPattern := p4.inPattern.trans g6.inPattern
      have k (d : Char) : (peek (groundStart l)).1 = d.toNat ↔ c = d := by rw [p1]; exact toNat_eq_iff c d
      have hoff : text.length - (r.length + 1) = (pre ++ bl).length := by
        rw [htext]; simp only [List.length_append, List.length_cons]; omega
      have hfuel : (encodeChars r).length + 3 ≤ f := by
        have := encodeChars_length_cons c r
        omega
      by_cases hsq : c = '\''
      · -- single-quoted string
        subst hsq
        rw [lexGround_sq l ((k '\'').2 rfl), ← hl1]
        unfold lexErr at he
        rw [skipGround_token '\'' r hcs (by decide)] at he
        simp only [if_true] at he
        cases hsc : scanSq r with
        | none =>
          rw [hsc] at he
          simp only [Option.some.injEq] at he
          rw [← he, hoff]
          exact sq_head text file l1 (pre ++ bl) r htext hk hsc f
        | some p => rw [hsc] at he; simp at he
      · by_cases hdq : c = '"'
        · -- double-quoted string
          subst hdq
          rw [lexGround_dq l ((k '"').2 rfl), ← hl1]
          obtain ⟨f, rfl⟩ : ∃ f', f = f' + 1 := ⟨f - 1, by omega⟩
          unfold lexErr at he
          rw [skipGround_token '"' r hcs (by decide)] at he
          simp only [show ('"' : Char) ≠ '\'' by decide, if_false, if_true] at he
          rw [hoff] at he
          have hbad : DqBad l.inPattern r := by
            cases hsc : scanDq r with
            | none => exact Or.inl hsc
            | some p =>
              obtain ⟨items, r'⟩ := p
              right
              refine ⟨items, r', hsc, ?_, ?_⟩
              · cases hip : l.inPattern with
                | false => rfl
                | true => rw [hip, hsc] at he; simp at he
              · cases hall : items.all validEsc with
                | false => rfl
                | true =>
                  rw [escMarks_valid r.length r (Nat.le_refl _) _ items r' hsc hall, hsc] at he
                  simp at he
          have hd := dq_head text file l.inPattern l1 (pre ++ bl) r htext hk hpat1 hbad f
          rw [hd]
          congr 1
          unfold dqErr
          cases hm : (if l.inPattern = true then [] else escMarks ((pre ++ bl).length + 1) r) with
          | cons o rest =>
            rw [hm] at he
            simp only [Option.some.injEq] at he
            exact he
          | nil =>
            rw [hm] at he
            simp only at he ⊢
            cases hsc : scanDq r with
            | none => rw [hsc] at he; simp only [Option.some.injEq] at he; exact he
            | some p => rw [hsc] at he; simp at he
        · by_cases hsl : c = '/'
          · subst hsl
            rw [lexGround_slash l ((k '/').2 rfl), ← hl1]
            cases hr : r with
            | nil =>
              rw [hr] at he
              simp [lexErr, skipGround, afterSlash, isSpace] at he
            | cons d r1 =>
              rw [hr] at htext hk hnl' hslen hlen' he hfuel
              by_cases hd1 : d = '/'
              · -- `//`
                subst hd1
                have hmem : '\n' ∈ r1 := by
                  have := hnl'.mem (by simp)
                  simpa using this
                obtain ⟨s0, r2, hr1, hs0⟩ := split_first '\n' r1 hmem
                rw [hr1] at hk htext hslen hlen' he hfuel
                obtain ⟨c1, c2⟩ := line_comment file l1 (pre ++ bl) s0 r2 hk hs0
                refine ih ('\n' :: r2).length (by
                    simp only [List.length_cons, List.length_append] at hslen ⊢; omega)
                  ('\n' :: r2) (Nat.le_refl _) _ (groundSlash l1) f (by rw [htext]; simp) c1
                  (by rw [hr1] at hnl'
                      have h1 : EndsNL (['/', '/'] ++ s0 ++ '\n' :: r2) := by simpa using hnl'
                      exact h1.suffix)
                  (by
                    have h1 : (encodeChars ('\n' :: r2)).length ≤ (encodeChars ('/' :: (s0 ++ '\n' :: r2))).length := by
                      rw [show '/' :: (s0 ++ '\n' :: r2) = ('/' :: s0) ++ '\n' :: r2 from rfl,
                        encodeChars_length_append]; omega
                    omega) e ?_
                rw [c2, hpat1, ← he]
                apply lexErr_congr
                · rw [skipGround_slash, afterSlash_line, skipLine_found s0 r2 hs0]
                  rw [skipGround]; simp [isSpace]
                · rw [openerGround_line s0 r2 hs0]
                  exact openerGround_blanks ['\n'] r2 (by simp [isSpace])
              · by_cases hd2 : d = '*'
                · -- `/*`
                  subst hd2
                  cases hfs : findSS r1 with
                  | none =>
                    apply nextTokenLoop_keepsH
                    rw [block_comment_head text file l1 (pre ++ bl) r1 htext hk hfs]
                    unfold lexErr at he
                    rw [skipGround_slash, afterSlash_block, skipBlock_none r1 hfs] at he
                    simp only at he
                    rw [openerGround_block_none r1 hfs] at he
                    simp only [Option.map_some] at he
                    rw [← he]
                    congr 2
                    rw [htext]; simp only [List.length_append, List.length_cons]; omega
                  | some p =>
                    obtain ⟨s0, r2⟩ := p
                    have hcase := block_comment file l1 (pre ++ bl) r1 hk
                    rw [hfs] at hcase
                    obtain ⟨c1, c2⟩ := hcase
                    have hsp := findSS_split r1.length r1 (Nat.le_refl _) s0 r2 hfs
                    refine ih r2.length (by
                        rw [hsp] at hslen
                        simp only [List.length_cons, List.length_append] at hslen ⊢; omega)
                      r2 (Nat.le_refl _) _ (groundSlash l1) f (by rw [htext, hsp]; simp) c1
                      (by rw [hsp] at hnl'
                          have h1 : EndsNL (['/', '*'] ++ s0 ++ ['*', '/'] ++ r2) := by simpa using hnl'
                          exact h1.suffix)
                      (by
                        rw [hsp] at hfuel
                        have h1 : (encodeChars r2).length ≤ (encodeChars ('*' :: (s0 ++ '*' :: '/' :: r2))).length := by
                          rw [show '*' :: (s0 ++ '*' :: '/' :: r2) = ('*' :: s0 ++ ['*', '/']) ++ r2 by simp,
                            encodeChars_length_append]; omega
                        omega) e ?_
                    rw [c2, hpat1, ← he]
                    apply lexErr_congr
                    · rw [skipGround_slash, afterSlash_block, skipBlock_found r1 s0 r2 hfs]
                    · rw [openerGround_block_found r1 s0 r2 hfs]
                · -- a token that starts with `/`
                  exfalso
                  unfold lexErr at he
                  rw [skipGround_slash, afterSlash_token (d :: r1) (fun c' r' h => by
                    simp only [List.cons.injEq] at h; rw [← h.1]; exact ⟨hd1, hd2⟩)] at he
                  simp at he
          · -- any other character: no error line is due
            exfalso
            unfold lexErr at he
            rw [skipGround_token c r hcs hsl] at he
            simp [hsq, hdq] at he

end

end Goyang.Lemmas.LexHead
