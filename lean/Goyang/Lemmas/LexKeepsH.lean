/-
The twin of `Keeps` (`Lemmas/Lex.lean`): the FIRST error line written stays the first, through every
step of the lexer model, through `skipErrors`, and hence `lexSource` is `HMono`.
-/
import Goyang.Lemmas.Lex
import Goyang.Lemmas.HeadSim
import Goyang.Model.Parse

namespace Goyang.Lemmas.LexKeepsH
open Goyang.Model.Lex Goyang.Model.Parse Goyang.Lemmas.Lex

/-- the first error written stays the first -/
def KeepsH (l l' : Lexer) : Prop := ∀ e, l.errout.head? = some e → l'.errout.head? = some e

theorem head_append {α : Type} {xs : List α} {e : α} (ys : List α) (h : xs.head? = some e) :
    (xs ++ ys).head? = some e := by
  cases xs with
  | nil => cases h
  | cons x xs => exact h

theorem KeepsH.refl (l : Lexer) : KeepsH l l := fun _ h => h

theorem KeepsH.trans {a b c : Lexer} (h1 : KeepsH a b) (h2 : KeepsH b c) : KeepsH a c :=
  fun e h => h2 e (h1 e h)

theorem keepsH_of_frame {l l' : Lexer} (h : Frame l l') : KeepsH l l' := fun e he => by
  rw [h.errout]; exact he

theorem keepsH_of_moves {l l' : Lexer} (h : Moves l l') : KeepsH l l' := keepsH_of_frame h.frame

theorem keepsH_of_eq {l l' : Lexer} (h : l'.errout = l.errout) : KeepsH l l' := fun e he => by
  rw [h]; exact he

theorem emitText_keepsH (c : Code) (text : List UInt8) (l : Lexer) : KeepsH l (emitText c text l) :=
  keepsH_of_eq (emitText_spec c text l).2.2.2.2.2.2.2.1

theorem emit_keepsH (c : Code) (l : Lexer) : KeepsH l (emit c l) := by
  unfold emit
  split
  · exact keepsH_of_eq (setFault_errout _ _)
  · exact emitText_keepsH _ _ _

theorem adderror_keepsH (e : ErrLine) (l : Lexer) : KeepsH l (adderror e l) := by
  unfold adderror
  intro e0 h
  split
  · exact head_append _ h
  · split
    · exact h
    · exact head_append _ h

theorem errorf_keepsH (cls : ErrClass) (l : Lexer) : KeepsH l (errorf cls l) := by
  unfold errorf
  exact (emit_keepsH .error l).trans (adderror_keepsH _ _)

theorem errorfAt_keepsH (line col : Int) (cls : ErrClass) (l : Lexer) : KeepsH l (errorfAt line col cls l) := by
  unfold errorfAt
  simp only
  intro e h
  exact errorf_keepsH cls { l with line := line, col := col } e h

theorem setState_keepsH (s : LState) (l : Lexer) : KeepsH l (setState s l) := fun _ h => h

theorem unquotedLoop_keepsH : ∀ (f : Nat) (l : Lexer), KeepsH l (unquotedLoop f l) := by
  intro f
  induction f with
  | zero => intro l; unfold unquotedLoop; exact keepsH_of_eq (setFault_errout _ _)
  | succ f ih =>
    intro l
    unfold unquotedLoop
    simp only
    split
    · exact (keepsH_of_moves (peek_moves l)).trans ((emit_keepsH _ _).trans (setState_keepsH _ _))
    · exact (keepsH_of_moves (peek_moves l)).trans ((keepsH_of_moves (next_moves _)).trans (ih _))

theorem qstringLoop_keepsH (indent line col : Int) : ∀ (f : Nat) (text : List UInt8) (over : Bool) (l : Lexer),
    KeepsH l (qstringLoop indent line col f text over l) := by
  intro f
  induction f with
  | zero => intro _ _ l; unfold qstringLoop; exact keepsH_of_eq (setFault_errout _ _)
  | succ f ih =>
    intro text over l
    unfold qstringLoop
    simp only
    have h1 := (keepsH_of_moves (next_moves l))
    have h2 := h1.trans (keepsH_of_moves (next_moves (next l).2))
    split
    · exact h1.trans ((errorfAt_keepsH _ _ _ _).trans (setState_keepsH _ _))
    · split
      · exact h1.trans ((emitText_keepsH _ _ _).trans (setState_keepsH _ _))
      · split
        · exact h1.trans (ih _ _ _)
        · split
          · split
            · exact h1.trans (ih _ _ _)
            · exact h1.trans (ih _ _ _)
          · split
            · split
              · exact h2.trans (ih _ _ _)
              · split
                · exact h2.trans (ih _ _ _)
                · split
                  · exact h2.trans (ih _ _ _)
                  · split
                    · exact h2.trans ((errorfAt_keepsH _ _ _ _).trans (ih _ _ _))
                    · exact h2.trans (ih _ _ _)
            · exact h1.trans (ih _ _ _)

theorem consume_keepsH (l : Lexer) : KeepsH l (consume l) := fun _ h => h

theorem groundStart_keepsH (l : Lexer) : KeepsH l (groundStart l) := by
  unfold groundStart
  simp only
  intro e h
  exact (keepsH_of_moves (acceptRun_moves l)) e h

theorem groundSQuote_keepsH (l : Lexer) : KeepsH l (groundSQuote l) := by
  unfold groundSQuote
  simp only
  have h1 := (keepsH_of_moves (next_moves l)).trans (consume_keepsH _)
  have h2 := h1.trans (keepsH_of_moves (skipTo_moves [39] _))
  split
  · exact h2.trans ((emit_keepsH _ _).trans ((keepsH_of_moves (next_moves _)).trans (setState_keepsH _ _)))
  · exact h2.trans ((errorfAt_keepsH _ _ _ _).trans (setState_keepsH _ _))

theorem groundSlash_keepsH (l : Lexer) : KeepsH l (groundSlash l) := by
  unfold groundSlash
  simp only
  have h1 := (keepsH_of_moves (next_moves l)).trans (keepsH_of_moves (peek_moves _))
  split
  · have h2 := h1.trans (keepsH_of_moves (skipTo_moves [10] _))
    split
    · exact h2.trans (setState_keepsH _ _)
    · exact h2.trans ((errorfAt_keepsH _ _ _ _).trans (setState_keepsH _ _))
  · split
    · have h2 := h1.trans ((keepsH_of_moves (next_moves _)).trans (keepsH_of_moves (skipTo_moves [42, 47] _)))
      split
      · exact h2.trans ((keepsH_of_moves (next_moves _)).trans ((keepsH_of_moves (next_moves _)).trans (setState_keepsH _ _)))
      · exact h2.trans ((errorfAt_keepsH _ _ _ _).trans (setState_keepsH _ _))
    · exact h1.trans (setState_keepsH _ _)

theorem groundPlus_keepsH (l : Lexer) : KeepsH l (groundPlus l) := by
  unfold groundPlus
  simp only
  have h1 := (keepsH_of_moves (next_moves l)).trans (keepsH_of_moves (peek_moves _))
  split
  · exact h1.trans ((emit_keepsH _ _).trans (setState_keepsH _ _))
  · exact h1.trans (setState_keepsH _ _)

theorem lexGround_keepsH (l : Lexer) : KeepsH l (lexGround l) := by
  unfold lexGround
  simp only
  have h1 := (groundStart_keepsH l).trans (keepsH_of_moves (peek_moves _))
  split
  · exact h1.trans (setState_keepsH _ _)
  · split
    · exact h1.trans ((keepsH_of_moves (next_moves _)).trans ((emit_keepsH _ _).trans (setState_keepsH _ _)))
    · split
      · exact h1.trans (groundSQuote_keepsH _)
      · split
        · exact h1.trans ((keepsH_of_moves (next_moves _)).trans (setState_keepsH _ _))
        · split
          · exact h1.trans (groundSlash_keepsH _)
          · split
            · exact h1.trans (groundPlus_keepsH _)
            · exact h1.trans (setState_keepsH _ _)

theorem nextTokenLoop_keepsH : ∀ (f : Nat) (l : Lexer), KeepsH l (nextTokenLoop f l).2 := by
  intro f
  induction f with
  | zero => intro l; unfold nextTokenLoop; exact keepsH_of_eq (setFault_errout _ _)
  | succ f ih =>
    intro l
    unfold nextTokenLoop
    split
    · exact fun _ h => h
    · split
      · exact KeepsH.refl l
      · exact (lexGround_keepsH l).trans (ih _)
      · exact (qstringLoop_keepsH _ _ _ _ _ _ l).trans (ih _)
      · exact (unquotedLoop_keepsH _ l).trans (ih _)

theorem nextToken_keepsH (l : Lexer) : KeepsH l (nextToken l).2 := nextTokenLoop_keepsH _ l

theorem skipErrors_keepsH : ∀ (f : Nat) (l : Lexer), KeepsH l (skipErrors f l).2 := by
  intro f
  induction f with
  | zero => intro l; unfold skipErrors; exact keepsH_of_eq (setFault_errout _ _)
  | succ f ih =>
    intro l
    unfold skipErrors
    simp only
    have h1 := nextToken_keepsH l
    split
    · exact h1
    · split
      · exact h1.trans (ih _)
      · exact h1

theorem lexSource_hmono : Goyang.Lemmas.HeadSim.HMono lexSource := by
  constructor
  · intro e b l h
    exact skipErrors_keepsH _ _ e (show ({ l with inPattern := b } : Lexer).errout.head? = some e from h)
  · intro e' e l h
    show (l.errout ++ [e']).head? = some e
    exact head_append _ h
  · intro e l h
    show (l.errout ++ [e]).head? = some e
    have h' : l.errout = [] := h
    rw [h']
    rfl

end Goyang.Lemmas.LexKeepsH
