/-
(d) The lexer model on a well-encoded text, character by character: cursor and position
bookkeeping (`line`, `col`, `tcol` against positions computed from the text alone), the loops
against the scanning functions of the reference reader.
-/
import Goyang.Lemmas.Lex
import Goyang.Lemmas.Utf8
import Goyang.Lemmas.QStr
import Goyang.Spec.Parse
import Goyang.Lemmas.Scan

namespace Goyang.Lemmas.LexSim
open Goyang.Model.Lex Goyang.Model.Utf8 Goyang.Lemmas.Utf8 Goyang.Lemmas.Lex
open Goyang.Spec.Parse
open Goyang.Lemmas.Scan

/-! ## positions from the text -/

def lineAfter (pre : List Char) : Int := ((1 + pre.count '\n' : Nat) : Int)
def colAfter (pre : List Char) : Int := (((lastLine pre).length : Nat) : Int)
def tcolAfter (pre : List Char) : Int := ((tabWidth (lastLine pre) : Nat) : Int)

theorem lastLine_snoc_nl (pre : List Char) : lastLine (pre ++ ['\n']) = [] := by
  simp [lastLine]

theorem lastLine_snoc (pre : List Char) (c : Char) (h : c ≠ '\n') : lastLine (pre ++ [c]) = lastLine pre ++ [c] := by
  simp [lastLine, List.takeWhile_cons, h]

theorem tabWidth_snoc (x : List Char) (c : Char) :
    tabWidth (x ++ [c]) = if c = '\t' then (tabWidth x / 8 + 1) * 8 else tabWidth x + 1 := by
  simp [tabWidth, List.foldl_append]

theorem lineAfter_snoc (pre : List Char) (c : Char) :
    lineAfter (pre ++ [c]) = if c = '\n' then lineAfter pre + 1 else lineAfter pre := by
  unfold lineAfter
  rw [List.count_append]
  by_cases h : c = '\n'
  · subst h; simp; omega
  · rw [if_neg h]
    have : List.count '\n' [c] = 0 := by simp [List.count_cons, h]
    rw [this]; rfl

theorem colAfter_snoc (pre : List Char) (c : Char) :
    colAfter (pre ++ [c]) = if c = '\n' then 0 else colAfter pre + 1 := by
  unfold colAfter
  by_cases h : c = '\n'
  · subst h; rw [lastLine_snoc_nl]; simp
  · rw [lastLine_snoc pre c h, if_neg h]; simp

theorem tcolAfter_snoc (pre : List Char) (c : Char) :
    tcolAfter (pre ++ [c]) = if c = '\n' then 0 else if c = '\t' then (tcolAfter pre + 8) / 8 * 8
      else tcolAfter pre + 1 := by
  unfold tcolAfter
  by_cases h : c = '\n'
  · subst h; rw [lastLine_snoc_nl]; simp [tabWidth]
  · rw [lastLine_snoc pre c h, if_neg h, tabWidth_snoc]
    by_cases ht : c = '\t'
    · rw [if_pos ht, if_pos ht]
      have : (((tabWidth (lastLine pre) / 8 + 1) * 8 : Nat) : Int) =
          ((tabWidth (lastLine pre) : Nat) : Int) / 8 * 8 + 8 := by
        push_cast; omega
      rw [this]; omega
    · rw [if_neg ht, if_neg ht]; simp

/-! ## cursor -/

/-- the lexer has read `pre` and `suf` is to come -/
structure Cur (l : Lexer) (pre suf : List Char) : Prop where
  before : l.before = (encodeChars pre).reverse
  rest : l.rest = encodeChars suf
  line : l.line = lineAfter pre

/-- `col` and `tcol` are what the text says -/
structure Pos (l : Lexer) (pre : List Char) : Prop where
  col : l.col = colAfter pre
  tcol : l.tcol = tcolAfter pre

/-- ... up to what `peek` leaves behind: nothing reliable before a line feed, `tcol` somewhere in
the right block of eight before a tab; the next `next` repairs both -/
def PosN (l : Lexer) (pre suf : List Char) : Prop :=
  match suf with
  | '\n' :: _ => True
  | '\t' :: _ => l.col = colAfter pre ∧ l.tcol / 8 = tcolAfter pre / 8
  | _ => Pos l pre

theorem Pos.posN {l : Lexer} {pre : List Char} (h : Pos l pre) (suf : List Char) : PosN l pre suf := by
  unfold PosN
  split
  · trivial
  · exact ⟨h.col, by rw [h.tcol]⟩
  · exact h

theorem toNat_eq_iff (c : Char) (d : Char) : c.toNat = d.toNat ↔ c = d :=
  ⟨char_eq_of_toNat_eq c d, fun h => by rw [h]⟩

/-- `next`, in full, on a non-empty rest -/
theorem next_cons_pos (l : Lexer) (h : l.rest ≠ []) :
    (next l).2.line = (if (decodeRune l.rest).1 = 10 then l.line + 1 else l.line) ∧
    (next l).2.col = (if (decodeRune l.rest).1 = 10 then 0 else l.col + 1) ∧
    (next l).2.tcol = (if (decodeRune l.rest).1 = 10 then 0 else if (decodeRune l.rest).1 = 9 then
      (l.tcol + 8) / 8 * 8 else l.tcol + 1) := by
  unfold next
  split
  · rename_i h'; exact absurd h' h
  · simp only
    split
    · exact ⟨rfl, rfl, rfl⟩
    · split <;> exact ⟨rfl, rfl, rfl⟩

/-- reading one character: the cursor -/
theorem next_char_cur (l : Lexer) (pre suf : List Char) (c : Char) (hc : Cur l pre (c :: suf)) :
    (next l).1 = c.toNat ∧ Cur (next l).2 (pre ++ [c]) suf ∧
    (next l).2.width = (encChar c).length ∧ Frame l (next l).2 := by
  have hrest : l.rest = encChar c ++ encodeChars suf := by rw [hc.rest, encodeChars_cons]
  have hne : l.rest ≠ [] := by
    rw [hrest]; intro h; exact encChar_ne_nil c (List.append_eq_nil_iff.mp h).1
  have hdec : decodeRune l.rest = (c.toNat, (encChar c).length) := by rw [hrest]; exact decodeRune_encChar c _
  obtain ⟨n1, n2, n3, n4⟩ := next_cons l hne
  obtain ⟨p1, p2, p3⟩ := next_cons_pos l hne
  rw [hdec] at n1 n2 n3 n4 p1
  simp only at n1 n2 n3 n4 p1
  have hnl : c.toNat = 10 ↔ c = '\n' := toNat_eq_iff c '\n'
  refine ⟨n1, ⟨?_, ?_, ?_⟩, n4, next_frame l⟩
  · rw [n2, hrest, List.take_left', hc.before, encodeChars_append, List.reverse_append]
    · simp [encodeChars, encChar]
    · rfl
  · rw [n3, hrest, List.drop_left']; rfl
  · rw [p1, lineAfter_snoc, hc.line]
    by_cases h : c = '\n'
    · rw [if_pos (hnl.2 h), if_pos h]
    · rw [if_neg (fun h' => h (hnl.1 h')), if_neg h]

/-- reading one character -/
theorem next_char (l : Lexer) (pre suf : List Char) (c : Char) (hc : Cur l pre (c :: suf))
    (hp : PosN l pre (c :: suf)) :
    (next l).1 = c.toNat ∧ Cur (next l).2 (pre ++ [c]) suf ∧ Pos (next l).2 (pre ++ [c]) ∧
    (next l).2.width = (encChar c).length ∧ Frame l (next l).2 := by
  have hrest : l.rest = encChar c ++ encodeChars suf := by rw [hc.rest, encodeChars_cons]
  have hne : l.rest ≠ [] := by
    rw [hrest]; intro h; exact encChar_ne_nil c (List.append_eq_nil_iff.mp h).1
  have hdec : decodeRune l.rest = (c.toNat, (encChar c).length) := by rw [hrest]; exact decodeRune_encChar c _
  obtain ⟨n1, n2, n3, n4⟩ := next_cons l hne
  obtain ⟨p1, p2, p3⟩ := next_cons_pos l hne
  rw [hdec] at n1 n2 n3 n4 p1 p2 p3
  simp only at n1 n2 n3 n4 p1 p2 p3
  have hnl : c.toNat = 10 ↔ c = '\n' := toNat_eq_iff c '\n'
  have htab : c.toNat = 9 ↔ c = '\t' := toNat_eq_iff c '\t'
  refine ⟨n1, ⟨?_, ?_, ?_⟩, ⟨?_, ?_⟩, n4, next_frame l⟩
  · rw [n2, hrest, List.take_left', hc.before, encodeChars_append, List.reverse_append]
    · simp [encodeChars, encChar]
    · rfl
  · rw [n3, hrest, List.drop_left']; rfl
  · rw [p1, lineAfter_snoc, hc.line]
    by_cases h : c = '\n'
    · rw [if_pos (hnl.2 h), if_pos h]
    · rw [if_neg (fun h' => h (hnl.1 h')), if_neg h]
  · rw [p2, colAfter_snoc]
    by_cases h : c = '\n'
    · rw [if_pos (hnl.2 h), if_pos h]
    · rw [if_neg (fun h' => h (hnl.1 h')), if_neg h]
      have : l.col = colAfter pre := by
        unfold PosN at hp
        split at hp
        · rename_i heq; simp only [List.cons.injEq] at heq; exact absurd heq.1 h
        · exact hp.1
        · exact hp.col
      rw [this]
  · rw [p3, tcolAfter_snoc]
    by_cases h : c = '\n'
    · rw [if_pos (hnl.2 h), if_pos h]
    · rw [if_neg (fun h' => h (hnl.1 h')), if_neg h]
      by_cases ht : c = '\t'
      · rw [if_pos (htab.2 ht), if_pos ht]
        have : l.tcol / 8 = tcolAfter pre / 8 := by
          unfold PosN at hp
          split at hp
          · rename_i heq; simp only [List.cons.injEq] at heq; exact absurd heq.1 h
          · exact hp.2
          · rw [hp.tcol]
        omega
      · rw [if_neg (fun h' => ht (htab.1 h')), if_neg ht]
        have : l.tcol = tcolAfter pre := by
          unfold PosN at hp
          split at hp
          · rename_i heq; simp only [List.cons.injEq] at heq; exact absurd heq.1 h
          · rename_i heq; simp only [List.cons.injEq] at heq; exact absurd heq.1 ht
          · exact hp.tcol
        rw [this]

/-- `backup`'s bookkeeping -/
theorem backup_pos (l : Lexer) (h : l.width ≤ l.before.length) (hw : 0 < l.width) :
    (backup l).line = (if l.col - 1 < 0 then l.line - 1 else l.line) ∧
    (backup l).col = (if l.col - 1 < 0 then 0 else l.col - 1) ∧
    (backup l).tcol = (if l.col - 1 < 0 then 0 else l.tcol - 1) := by
  unfold backup Lexer.pos
  rw [if_neg (by omega)]
  simp only
  rw [if_pos hw]
  split <;> exact ⟨rfl, rfl, rfl⟩

theorem backup_zero (l : Lexer) (hw : l.width = 0) :
    (backup l).line = l.line ∧ (backup l).col = l.col ∧ (backup l).tcol = l.tcol := by
  unfold backup Lexer.pos
  rw [if_neg (by omega)]
  simp only
  rw [if_neg (by omega)]
  exact ⟨rfl, rfl, rfl⟩

theorem colAfter_nonneg (pre : List Char) : 0 ≤ colAfter pre := by unfold colAfter; omega
theorem tcolAfter_nonneg (pre : List Char) : 0 ≤ tcolAfter pre := by unfold tcolAfter; omega

/-- looking at the next character: the cursor is where it was, `col`/`tcol` up to `PosN` -/
theorem peek_char (l : Lexer) (pre suf : List Char) (c : Char) (hc : Cur l pre (c :: suf))
    (hp : PosN l pre (c :: suf)) :
    (peek l).1 = c.toNat ∧ Cur (peek l).2 pre (c :: suf) ∧ PosN (peek l).2 pre (c :: suf) ∧
    Frame l (peek l).2 := by
  obtain ⟨n1, n2, n3, n4, n5⟩ := next_char l pre suf c hc hp
  obtain ⟨b1, b2, b3⟩ := backup_next l
  have hw : 0 < (next l).2.width := by rw [n4]; exact encChar_length_pos c
  have hle : (next l).2.width ≤ (next l).2.before.length := by
    have := next_move l; omega
  obtain ⟨q1, q2, q3⟩ := backup_pos (next l).2 hle hw
  have hcol := colAfter_snoc pre c
  have htcol := tcolAfter_snoc pre c
  have hline := lineAfter_snoc pre c
  have hc0 := colAfter_nonneg pre
  have ht0 := tcolAfter_nonneg pre
  rw [n3.col] at q1 q2 q3
  rw [n3.tcol] at q3
  rw [n2.line] at q1
  refine ⟨n1, ⟨?_, ?_, ?_⟩, ?_, b3⟩
  · show (backup (next l).2).before = _
    rw [b1, hc.before]
  · show (backup (next l).2).rest = _
    rw [b2, hc.rest]
  · show (backup (next l).2).line = _
    rw [q1, hcol, hline]
    by_cases h : c = '\n'
    · rw [if_pos h, if_pos h, if_pos (by omega)]; omega
    · rw [if_neg h, if_neg h, if_neg (by omega)]
  · show PosN (backup (next l).2) pre (c :: suf)
    unfold PosN
    split
    · trivial
    · rename_i heq
      simp only [List.cons.injEq] at heq
      have h1 : c ≠ '\n' := by rw [heq.1]; decide
      rw [hcol, if_neg h1] at q2 q3
      rw [htcol, if_neg h1, if_pos heq.1] at q3
      rw [if_neg (by omega)] at q2 q3
      rw [q2, q3]
      constructor
      · omega
      · omega
    · rename_i h1 h2
      have hn : c ≠ '\n' := fun h => h1 suf (by rw [h])
      have ht : c ≠ '\t' := fun h => h2 suf (by rw [h])
      rw [hcol, if_neg hn] at q2 q3
      rw [htcol, if_neg hn, if_neg ht] at q3
      rw [if_neg (by omega)] at q2 q3
      exact ⟨by rw [q2]; omega, by rw [q3]; omega⟩

/-- looking at the end of the input changes nothing -/
theorem peek_eof (l : Lexer) (pre : List Char) (hc : Cur l pre []) :
    (peek l).1 = eofRune ∧ Cur (peek l).2 pre [] ∧ (peek l).2.col = l.col ∧ (peek l).2.tcol = l.tcol ∧
    Frame l (peek l).2 := by
  have hr : l.rest = [] := by rw [hc.rest]; rfl
  obtain ⟨b1, b2, b3⟩ := backup_next l
  have hn := next_nil l hr
  have hz := backup_zero (next l).2 (by rw [hn])
  refine ⟨by show (next l).1 = _; rw [hn], ⟨?_, ?_, ?_⟩, ?_, ?_, b3⟩
  · show (backup (next l).2).before = _; rw [b1, hc.before]
  · show (backup (next l).2).rest = _; rw [b2, hc.rest]
  · show (backup (next l).2).line = _; rw [hz.1, hn]; exact hc.line
  · show (backup (next l).2).col = _; rw [hz.2.1, hn]
  · show (backup (next l).2).tcol = _; rw [hz.2.2, hn]

/-! ## white space -/

theorem isSpaceRune_char (c : Char) : isSpaceRune c.toNat = isSpace c := by
  unfold isSpaceRune isSpace
  have h1 : (c.toNat = 32) = (c = ' ') := propext (toNat_eq_iff c ' ')
  have h2 : (c.toNat = 9) = (c = '\t') := propext (toNat_eq_iff c '\t')
  have h3 : (c.toNat = 13) = (c = '\r') := propext (toNat_eq_iff c '\r')
  have h4 : (c.toNat = 10) = (c = '\n') := propext (toNat_eq_iff c '\n')
  simp only [h1, h2, h3, h4]

theorem encodeChars_length_cons (c : Char) (cs : List Char) :
    (encodeChars cs).length + 1 ≤ (encodeChars (c :: cs)).length := by
  rw [encodeChars_cons, List.length_append]
  have := encChar_length_pos c
  omega

theorem acceptRunLoop_chars (suf' : List Char) (hs : ∀ c r, suf' = c :: r → isSpace c = false) :
    ∀ (bl : List Char), (∀ x ∈ bl, isSpace x = true) → ∀ (f : Nat) (ret : Bool) (l : Lexer) (pre : List Char),
    Cur l pre (bl ++ suf') → PosN l pre (bl ++ suf') → (encodeChars (bl ++ suf')).length + 1 ≤ f →
    ∃ l0, (acceptRunLoop f ret l).2 = (next l0).2 ∧ Cur l0 (pre ++ bl) suf' ∧ PosN l0 (pre ++ bl) suf' ∧
      Frame l l0 := by
  intro bl
  induction bl with
  | nil =>
    intro _ f ret l pre hc hp hf
    obtain ⟨f, rfl⟩ : ∃ f', f = f' + 1 := ⟨f - 1, by omega⟩
    refine ⟨l, ?_, by simpa using hc, by simpa using hp, Frame.refl l⟩
    unfold acceptRunLoop
    simp only
    cases suf' with
    | nil =>
      have hr : l.rest = [] := by rw [hc.rest]; rfl
      rw [next_nil l hr]
      simp [isSpaceRune, eofRune]
    | cons c r =>
      have h1 := (next_char l pre r c (by simpa using hc) (by simpa using hp)).1
      rw [h1, isSpaceRune_char, hs c r rfl]
      simp
  | cons b bl ih =>
    intro hbl f ret l pre hc hp hf
    obtain ⟨f, rfl⟩ : ∃ f', f = f' + 1 := ⟨f - 1, by omega⟩
    obtain ⟨n1, n2, n3, n4, n5⟩ := next_char l pre (bl ++ suf') b (by simpa using hc) (by simpa using hp)
    unfold acceptRunLoop
    simp only
    rw [n1, isSpaceRune_char, hbl b (by simp)]
    simp only [if_true]
    have hlen := encodeChars_length_cons b (bl ++ suf')
    obtain ⟨l0, h1, h2, h3, h4⟩ := ih (fun x hx => hbl x (by simp [hx])) f true (next l).2 (pre ++ [b]) n2
      (n3.posN _) (by simp only [List.cons_append] at hf; omega)
    exact ⟨l0, h1, by simpa using h2, by simpa using h3, n5.trans h4⟩

/-- `acceptRun` skips exactly the leading white space -/
theorem acceptRun_chars (l : Lexer) (pre bl suf' : List Char) (hbl : ∀ x ∈ bl, isSpace x = true)
    (hs : ∀ c r, suf' = c :: r → isSpace c = false) (hc : Cur l pre (bl ++ suf')) (hp : PosN l pre (bl ++ suf')) :
    Cur (acceptRun l).2 (pre ++ bl) suf' ∧ Pos (acceptRun l).2 (pre ++ bl) ∧ Frame l (acceptRun l).2 := by
  obtain ⟨l0, h1, h2, h3, h4⟩ := acceptRunLoop_chars suf' hs bl hbl (l.rest.length + 1) false l pre hc hp
    (by rw [hc.rest]; exact Nat.le_refl _)
  have hpk : (acceptRun l).2 = (peek l0).2 := by
    unfold acceptRun peek
    simp only
    rw [h1]
  rw [hpk]
  cases suf' with
  | nil =>
    obtain ⟨p1, p2, p3, p4, p5⟩ := peek_eof l0 (pre ++ bl) h2
    have hp0 : Pos l0 (pre ++ bl) := h3
    exact ⟨p2, ⟨by rw [p3]; exact hp0.col, by rw [p4]; exact hp0.tcol⟩, h4.trans p5⟩
  | cons c r =>
    have hns := hs c r rfl
    have hcn : c ≠ '\n' := by intro h; rw [h] at hns; simp [isSpace] at hns
    have hct : c ≠ '\t' := by intro h; rw [h] at hns; simp [isSpace] at hns
    have hp0 : Pos l0 (pre ++ bl) := by
      unfold PosN at h3
      split at h3
      · rename_i heq; simp only [List.cons.injEq] at heq; exact absurd heq.1 hcn
      · rename_i heq; simp only [List.cons.injEq] at heq; exact absurd heq.1 hct
      · exact h3
    obtain ⟨p1, p2, p3, p4⟩ := peek_char l0 (pre ++ bl) r c h2 (hp0.posN _)
    have hp1 : Pos (peek l0).2 (pre ++ bl) := by
      unfold PosN at p3
      split at p3
      · rename_i heq; simp only [List.cons.injEq] at heq; exact absurd heq.1 hcn
      · rename_i heq; simp only [List.cons.injEq] at heq; exact absurd heq.1 hct
      · exact p3
    exact ⟨p2, hp1, h4.trans p4⟩

/-! ## searching and bulk moves -/

theorem indexOf_single_skip (b : UInt8) : ∀ (p q : List UInt8), b ∉ p →
    indexOf [b] (p ++ q) = (indexOf [b] q).map (· + p.length) := by
  intro p
  induction p with
  | nil => intro q _; simp
  | cons x p ih =>
    intro q h
    have hx : x ≠ b := fun he => h (by rw [he]; simp)
    have hp : b ∉ p := fun hm => h (by simp [hm])
    simp only [List.cons_append, indexOf, List.isPrefixOf, List.length_cons]
    have : (b == x) = false := by simp [Ne.symm hx]
    simp only [this, Bool.false_and, Bool.false_eq_true, if_false]
    rw [ih q hp]
    cases indexOf [b] q <;> simp; omega

theorem indexOf_single_hit (b : UInt8) (q : List UInt8) : indexOf [b] (b :: q) = some 0 := by
  simp [indexOf, List.isPrefixOf]

theorem indexOf_single_none (b : UInt8) : ∀ (p : List UInt8), b ∉ p → indexOf [b] p = none := by
  intro p
  induction p with
  | nil => intro _; simp [indexOf]
  | cons x p ih =>
    intro h
    have hx : x ≠ b := fun he => h (by rw [he]; simp)
    have hp : b ∉ p := fun hm => h (by simp [hm])
    simp only [indexOf, List.isPrefixOf]
    have : (b == x) = false := by simp [Ne.symm hx]
    simp only [this, Bool.false_and, Bool.false_eq_true, if_false]
    rw [ih hp]; rfl

/-- searching an ASCII character in an encoded text -/
theorem indexOf_char (c : Char) (hc : c.toNat ≤ 127) (s r : List Char) (hs : c ∉ s) :
    indexOf [UInt8.ofNat c.toNat] (encodeChars (s ++ c :: r)) = some (encodeChars s).length := by
  rw [encodeChars_append, encodeChars_cons, encChar_ascii c hc]
  rw [indexOf_single_skip _ _ _ (not_mem_encodeChars s c hc hs)]
  simp only [List.cons_append, List.nil_append, indexOf_single_hit, Option.map_some, Nat.zero_add]

theorem indexOf_char_none (c : Char) (hc : c.toNat ≤ 127) (s : List Char) (hs : c ∉ s) :
    indexOf [UInt8.ofNat c.toNat] (encodeChars s) = none :=
  indexOf_single_none _ _ (not_mem_encodeChars s c hc hs)

theorem count_nl_enc (s : List Char) : (encodeChars s).count 10 = s.count '\n' := by
  induction s with
  | nil => rfl
  | cons d r ih =>
    rw [encodeChars_cons, List.count_append, ih, List.count_cons]
    by_cases hd : d = '\n'
    · subst hd
      have : encChar '\n' = [10] := by decide
      rw [this]; simp; omega
    · have : (10 : UInt8) ∉ encChar d := not_mem_encChar d '\n' (by decide) hd
      rw [List.count_eq_zero_of_not_mem this]
      simp [hd]

theorem encodeChars_reverse (r : List Char) :
    (encodeChars r.reverse).reverse = r.flatMap (fun c => (encChar c).reverse) := by
  induction r with
  | nil => rfl
  | cons d r ih =>
    rw [List.reverse_cons, encodeChars_append, List.reverse_append, ih]
    simp [encodeChars, encChar]

theorem takeWhile_enc_rev (r : List Char) :
    (r.flatMap (fun c => (encChar c).reverse)).takeWhile (· != 10) =
      (r.takeWhile (· != '\n')).flatMap (fun c => (encChar c).reverse) := by
  induction r with
  | nil => rfl
  | cons d r ih =>
    rw [List.flatMap_cons, List.takeWhile_cons]
    by_cases hd : d = '\n'
    · subst hd
      have : encChar '\n' = [10] := by decide
      rw [this]
      simp
    · rw [if_pos (by simpa using hd), List.flatMap_cons]
      have hnm : (10 : UInt8) ∉ encChar d := not_mem_encChar d '\n' (by decide) hd
      have hall : ∀ x ∈ (encChar d).reverse, (x != 10) = true := by
        intro x hx
        have : x ∈ encChar d := by simpa using hx
        simp only [bne_iff_ne, ne_eq]
        intro he; rw [he] at this; exact hnm this
      rw [List.takeWhile_append_of_pos hall, ih]

theorem afterLastNL_enc (s : List Char) : afterLastNL (encodeChars s) = encodeChars (lastLine s) := by
  unfold afterLastNL lastLine
  have h1 := encodeChars_reverse s.reverse
  rw [List.reverse_reverse] at h1
  rw [h1, takeWhile_enc_rev, ← encodeChars_reverse, List.reverse_reverse]

theorem lastLine_append (pre s : List Char) :
    lastLine (pre ++ s) = if '\n' ∈ s then lastLine s else lastLine pre ++ s := by
  induction s using List.rec generalizing pre with
  | nil => simp
  | cons d r ih =>
    have := ih (pre ++ [d])
    rw [List.append_assoc] at this
    simp only [List.singleton_append] at this
    rw [this]
    by_cases hr : '\n' ∈ r
    · rw [if_pos hr, if_pos (by simp [hr])]
      have h2 := ih [d]
      simp only [List.singleton_append] at h2
      rw [h2, if_pos hr]
    · rw [if_neg hr]
      have h2 := ih [d]
      simp only [List.singleton_append] at h2
      rw [h2, if_neg hr]
      by_cases hd : d = '\n'
      · subst hd
        rw [if_pos (by simp), lastLine_snoc_nl]
        simp [lastLine]
      · rw [if_neg (by simp [hr, Ne.symm hd]), lastLine_snoc pre d hd]
        simp

theorem lastLine_of_no_nl (s : List Char) (h : '\n' ∉ s) : lastLine s = s := by
  have := lastLine_append [] s
  rw [if_neg h] at this
  simpa [lastLine] using this

/-- the tab-expanded width, continued -/
def tabFold (w : Nat) (cs : List Char) : Nat :=
  cs.foldl (fun w c => if c = '\t' then (w / 8 + 1) * 8 else w + 1) w

theorem tabWidth_append (a b : List Char) : tabWidth (a ++ b) = tabFold (tabWidth a) b := by
  simp [tabWidth, tabFold, List.foldl_append]

theorem tabWidth_eq_fold (b : List Char) : tabWidth b = tabFold 0 b := rfl

theorem foldl_cursorStep (cs : List Char) : ∀ (l : Lexer),
    ((cs.map Char.toNat).foldl cursorStep l).line = l.line ∧
    ((cs.map Char.toNat).foldl cursorStep l).col = l.col + cs.length ∧
    (∀ w : Nat, l.tcol = w → ((cs.map Char.toNat).foldl cursorStep l).tcol = (tabFold w cs : Nat)) := by
  induction cs with
  | nil => intro l; exact ⟨rfl, by simp, fun w h => by simpa [tabFold] using h⟩
  | cons d r ih =>
    intro l
    simp only [List.map_cons, List.foldl_cons]
    obtain ⟨h1, h2, h3⟩ := ih (cursorStep l d.toNat)
    have htab : d.toNat = 9 ↔ d = '\t' := toNat_eq_iff d '\t'
    refine ⟨?_, ?_, ?_⟩
    · rw [h1]; unfold cursorStep; split <;> rfl
    · rw [h2]
      have : (cursorStep l d.toNat).col = l.col + 1 := by unfold cursorStep; split <;> rfl
      rw [this]; simp only [List.length_cons]; omega
    · intro w hw
      by_cases hd : d = '\t'
      · have : (cursorStep l d.toNat).tcol = (((w / 8 + 1) * 8 : Nat) : Int) := by
          unfold cursorStep
          rw [if_pos (htab.2 hd)]
          simp only
          rw [hw]; push_cast; omega
        rw [h3 _ this]
        simp [tabFold, hd]
      · have : (cursorStep l d.toNat).tcol = ((w + 1 : Nat) : Int) := by
          unfold cursorStep
          rw [if_neg (fun h => hd (htab.1 h))]
          simp only
          rw [hw]; push_cast; rfl
        rw [h3 _ this]
        simp [tabFold, hd]

theorem updateCursor_pos (n : Nat) (l : Lexer) :
    (updateCursor n l) = (runes (afterLastNL (l.rest.take n))).foldl cursorStep
      (if (l.rest.take n).count 10 > 0 then
        { l with before := (l.rest.take n).reverse ++ l.before, rest := l.rest.drop n, width := n,
                 line := l.line + ((l.rest.take n).count 10 : Nat), col := 0, tcol := 0 }
       else { l with before := (l.rest.take n).reverse ++ l.before, rest := l.rest.drop n, width := n }) := by
  unfold updateCursor
  simp only

/-- moving the cursor over the characters `s` in one go -/
theorem updateCursor_chars (l : Lexer) (pre s suf : List Char) (hc : Cur l pre (s ++ suf)) (hp : Pos l pre) :
    Cur (updateCursor (encodeChars s).length l) (pre ++ s) suf ∧
    Pos (updateCursor (encodeChars s).length l) (pre ++ s) ∧
    Frame l (updateCursor (encodeChars s).length l) := by
  obtain ⟨u1, u2, u3⟩ := updateCursor_spec (encodeChars s).length l
  have hrest : l.rest = encodeChars s ++ encodeChars suf := by rw [hc.rest, encodeChars_append]
  have htake : l.rest.take (encodeChars s).length = encodeChars s := by rw [hrest, List.take_left']; rfl
  have hdrop : l.rest.drop (encodeChars s).length = encodeChars suf := by rw [hrest, List.drop_left']; rfl
  have hpos := updateCursor_pos (encodeChars s).length l
  rw [htake, hdrop, afterLastNL_enc, runes_enc, count_nl_enc] at hpos
  have hcnt : (0 < s.count '\n') ↔ '\n' ∈ s := List.count_pos_iff
  refine ⟨⟨?_, ?_, ?_⟩, ⟨?_, ?_⟩, u1⟩
  · rw [u2, htake, hc.before, encodeChars_append, List.reverse_append]
  · rw [u3, hdrop]
  · rw [hpos]
    by_cases hnl : '\n' ∈ s
    · rw [if_pos (hcnt.2 hnl)]
      rw [(foldl_cursorStep (lastLine s) _).1]
      simp only
      rw [hc.line]
      unfold lineAfter
      rw [List.count_append]; push_cast; omega
    · rw [if_neg (fun h => hnl (hcnt.1 h))]
      rw [(foldl_cursorStep (lastLine s) _).1]
      simp only
      rw [hc.line]
      unfold lineAfter
      rw [List.count_append, List.count_eq_zero_of_not_mem hnl]; rfl
  · rw [hpos]
    unfold colAfter
    rw [lastLine_append]
    by_cases hnl : '\n' ∈ s
    · rw [if_pos (hcnt.2 hnl), if_pos hnl, (foldl_cursorStep (lastLine s) _).2.1]
      simp
    · rw [if_neg (fun h => hnl (hcnt.1 h)), if_neg hnl, (foldl_cursorStep (lastLine s) _).2.1]
      simp only
      rw [hp.col]
      unfold colAfter
      have : lastLine s = s := lastLine_of_no_nl s hnl
      rw [this, List.length_append]; push_cast; rfl
  · rw [hpos]
    unfold tcolAfter
    rw [lastLine_append]
    by_cases hnl : '\n' ∈ s
    · rw [if_pos (hcnt.2 hnl), if_pos hnl, (foldl_cursorStep (lastLine s) _).2.2 0 rfl, tabWidth_eq_fold]
    · rw [if_neg (fun h => hnl (hcnt.1 h)), if_neg hnl]
      have : lastLine s = s := lastLine_of_no_nl s hnl
      rw [this, (foldl_cursorStep s _).2.2 (tabWidth (lastLine pre)) (by simp only; exact hp.tcol), tabWidth_append]

/-! ## searching `*/` -/

theorem indexOf_ss_skip : ∀ (p q : List UInt8), (∀ x ∈ p, x ≠ 42) →
    indexOf [42, 47] (p ++ q) = (indexOf [42, 47] q).map (· + p.length) := by
  intro p
  induction p with
  | nil => intro q _; simp
  | cons x p ih =>
    intro q h
    have hx : x ≠ 42 := h x (by simp)
    simp only [List.cons_append, indexOf, List.isPrefixOf, List.length_cons]
    have : ((42 : UInt8) == x) = false := by simp [Ne.symm hx]
    simp only [this, Bool.false_and, Bool.false_eq_true, if_false]
    rw [ih q (fun y hy => h y (by simp [hy]))]
    cases indexOf [42, 47] q <;> simp; omega

theorem indexOf_ss_star (q : List UInt8) (h : ∀ x r, q = x :: r → x ≠ 47) :
    indexOf [42, 47] (42 :: q) = (indexOf [42, 47] q).map (· + 1) := by
  cases q with
  | nil => simp [indexOf, List.isPrefixOf]
  | cons x r =>
    have hx := h x r rfl
    have : ((47 : UInt8) == x) = false := by simp [Ne.symm hx]
    conv => lhs; rw [indexOf]
    simp only [List.isPrefixOf, this, Bool.false_and, Bool.and_false, Bool.false_eq_true, if_false, List.isEmpty_cons]

theorem enc_star : encChar '*' = [42] := by decide
theorem enc_slash : encChar '/' = [47] := by decide

theorem encodeChars_head_ne (d : Char) (r : List Char) (c : Char) (hc : c.toNat ≤ 127) (hd : d ≠ c) :
    ∀ x t, encodeChars (d :: r) = x :: t → x ≠ UInt8.ofNat c.toNat := by
  intro x t h he
  rw [encodeChars_cons] at h
  have hm : x ∈ encChar d := by
    cases hed : encChar d with
    | nil => exact absurd hed (encChar_ne_nil d)
    | cons y ys =>
      rw [hed] at h
      simp only [List.cons_append, List.cons.injEq] at h
      rw [← h.1]; simp
  rw [he] at hm
  exact not_mem_encChar d c hc hd hm

theorem indexOf_ss : ∀ (n : Nat) (cs : List Char), cs.length ≤ n →
    indexOf [42, 47] (encodeChars cs) = (findSS cs).map (fun p => (encodeChars p.1).length) := by
  intro n
  induction n with
  | zero =>
    intro cs hn
    have : cs = [] := List.eq_nil_of_length_eq_zero (by omega)
    subst this; simp [findSS, encodeChars, indexOf]
  | succ n ih =>
    intro cs hn
    cases cs with
    | nil => simp [findSS, encodeChars, indexOf]
    | cons c cs =>
      have hstep : ∀ (hne : ¬ (c = '*' ∧ ∃ r, cs = '/' :: r)),
          indexOf [42, 47] (encodeChars (c :: cs)) =
            (indexOf [42, 47] (encodeChars cs)).map (· + (encChar c).length) := by
        intro hne
        rw [encodeChars_cons]
        by_cases hc : c = '*'
        · subst hc
          rw [enc_star]
          simp only [List.cons_append, List.nil_append, List.length_cons, List.length_nil]
          apply indexOf_ss_star
          intro x t hxt
          cases cs with
          | nil => simp [encodeChars] at hxt
          | cons d r =>
            have hd : d ≠ '/' := fun h => hne ⟨rfl, r, by rw [h]⟩
            exact encodeChars_head_ne d r '/' (by decide) hd x t hxt
        · apply indexOf_ss_skip
          intro x hx he
          rw [he] at hx
          exact not_mem_encChar c '*' (by decide) hc hx
      cases cs with
      | nil =>
        rw [hstep (fun h => by obtain ⟨_, r, hr⟩ := h; cases hr)]
        simp [findSS, encodeChars, indexOf]
      | cons d r =>
        rw [findSS]
        by_cases hcd : c = '*' ∧ d = '/'
        · rw [if_pos hcd, hcd.1, hcd.2, encodeChars_cons, encodeChars_cons, enc_star, enc_slash]
          simp [indexOf, List.isPrefixOf, encodeChars]
        · rw [if_neg hcd]
          rw [hstep (fun h => by obtain ⟨h1, r', hr⟩ := h; simp only [List.cons.injEq] at hr; exact hcd ⟨h1, hr.1⟩)]
          rw [ih (d :: r) (by simp only [List.length_cons] at hn ⊢; omega)]
          cases findSS (d :: r) with
          | none => rfl
          | some p =>
            simp only [Option.map_some, Option.some.injEq]
            rw [encodeChars_cons, List.length_append]; omega

/-! ## nothing queued, nothing wrong -/

structure Ready (file : List UInt8) (l : Lexer) : Prop where
  items : l.items = []
  errout : l.errout = []
  errcnt : l.errcnt = 0
  fault : l.fault = .none
  file : l.file = file

theorem _root_.Goyang.Lemmas.Lex.Frame.ready {file : List UInt8} {l l' : Lexer} (h : Frame l l') (hr : Ready file l) : Ready file l' :=
  ⟨h.items.trans hr.items, h.errout.trans hr.errout, h.errcnt.trans hr.errcnt, h.fault.trans hr.fault,
   h.file.trans hr.file⟩

/-- the first error is always written -/
theorem errorfAt_errout (line col : Int) (cls : ErrClass) (l : Lexer) (h : l.errcnt = 0 ∨ l.errout ≠ []) :
    (errorfAt line col cls l).errout ≠ [] := by
  rcases h with h | h
  · unfold errorfAt errorf adderror
    simp only
    have he : (emit Code.error { l with line := line, col := col }).errcnt = 0 := by
      unfold emit
      split
      · unfold setFault; split <;> exact h
      · exact (emitText_spec _ _ _).2.2.2.2.2.2.2.2.trans h
    rw [if_neg (by rw [he]; decide), if_neg (by rw [he]; decide)]
    simp
  · exact errorfAt_keeps line col cls l h

/-- emitting into the empty queue -/
theorem emitText_items (c : Code) (text : List UInt8) (l : Lexer) (h : l.items = []) :
    (emitText c text l).items = [{ code := c, text := text, file := l.file, line := l.sline, col := l.scol + 1 }] := by
  unfold emitText consume
  simp only
  rw [h]
  simp [maxErrors]

theorem emitText_frame (c : Code) (text : List UInt8) (l : Lexer) :
    (emitText c text l).before = l.before ∧ (emitText c text l).rest = l.rest ∧
    (emitText c text l).line = l.line ∧ (emitText c text l).col = l.col ∧ (emitText c text l).tcol = l.tcol ∧
    (emitText c text l).errout = l.errout ∧ (emitText c text l).errcnt = l.errcnt ∧
    (emitText c text l).fault = l.fault ∧ (emitText c text l).file = l.file ∧
    (emitText c text l).inPattern = l.inPattern ∧ (emitText c text l).start = l.before.length ∧
    (emitText c text l).state = l.state := by
  unfold emitText consume Lexer.pos
  simp only
  split <;> exact ⟨rfl, rfl, rfl, rfl, rfl, rfl, rfl, rfl, rfl, rfl, rfl, rfl⟩

/-- the text of the token under construction is the encoding of the characters read since `start` -/
theorem emit_eq (c : Code) (l : Lexer) (pre0 tk suf : List Char) (hc : Cur l (pre0 ++ tk) suf)
    (hs : l.start = (encodeChars pre0).length) : emit c l = emitText c (encodeChars tk) l := by
  unfold emit Lexer.pos
  have hb : l.before = (encodeChars tk).reverse ++ (encodeChars pre0).reverse := by
    rw [hc.before, encodeChars_append, List.reverse_append]
  have hlen : l.before.length = (encodeChars tk).length + (encodeChars pre0).length := by
    rw [hb]; simp
  rw [if_neg (by omega)]
  congr 1
  rw [hb, hs]
  have : ((encodeChars tk).reverse ++ (encodeChars pre0).reverse).length - (encodeChars pre0).length =
      (encodeChars tk).reverse.length := by simp
  rw [this, List.take_left' rfl]
  simp

/-! ## double-quoted strings -/

open Goyang.Lemmas.QStr in
/-- the characters of raw items -/
def itemsChars : List QItem → List Char
  | [] => []
  | .lit c :: r => c :: itemsChars r
  | .esc c :: r => '\\' :: c :: itemsChars r

/-- literal items are neither a quote nor a backslash -/
def wfItems : List QItem → Prop
  | [] => True
  | .lit c :: r => c ≠ '"' ∧ c ≠ '\\' ∧ wfItems r
  | .esc _ :: r => wfItems r

theorem scanDq_split : ∀ (n : Nat) (cs : List Char), cs.length ≤ n → ∀ (items : List QItem) (r : List Char),
    scanDq cs = some (items, r) → cs = itemsChars items ++ '"' :: r ∧ wfItems items := by
  intro n
  induction n with
  | zero =>
    intro cs hn items r h
    have : cs = [] := List.eq_nil_of_length_eq_zero (by omega)
    subst this; simp [scanDq] at h
  | succ n ih =>
    intro cs hn items r h
    cases cs with
    | nil => simp [scanDq] at h
    | cons c cs =>
      unfold scanDq at h
      split at h
      · rename_i hc
        simp only [Option.some.injEq, Prod.mk.injEq] at h
        rw [← h.1, ← h.2, hc]; exact ⟨rfl, trivial⟩
      · rename_i hq
        split at h
        · rename_i hb
          split at h
          · cases h
          · rename_i e r0
            cases hs : scanDq r0 with
            | none => simp [hs] at h
            | some p =>
              obtain ⟨s', r'⟩ := p
              simp only [hs, Option.map_some, Option.some.injEq, Prod.mk.injEq] at h
              obtain ⟨h1, h2⟩ := ih r0 (by simp only [List.length_cons] at hn; omega) s' r' hs
              rw [← h.1, ← h.2, h1, hb]
              exact ⟨rfl, h2⟩
        · rename_i hb
          cases hs : scanDq cs with
          | none => simp [hs] at h
          | some p =>
            obtain ⟨s', r'⟩ := p
            simp only [hs, Option.map_some, Option.some.injEq, Prod.mk.injEq] at h
            obtain ⟨h1, h2⟩ := ih cs (by simp only [List.length_cons] at hn; omega) s' r' hs
            rw [← h.1, ← h.2, h1]
            exact ⟨rfl, hq, hb, h2⟩

open Goyang.Lemmas.QStr in
/-- trimming bytes = trimming characters -/
theorem trimTrailing_enc (tc : List Char) : trimTrailing (encodeChars tc) = encodeChars (trimC tc) := by
  unfold trimTrailing trimC
  have h1 := encodeChars_reverse tc.reverse
  rw [List.reverse_reverse] at h1
  rw [h1]
  have key : ∀ (r : List Char),
      (r.flatMap (fun c => (encChar c).reverse)).dropWhile (fun b => b == 32 || b == 9) =
        (r.dropWhile isBlank).flatMap (fun c => (encChar c).reverse) := by
    intro r
    induction r with
    | nil => rfl
    | cons d r ih =>
      rw [List.flatMap_cons, List.dropWhile_cons]
      by_cases hd : isBlank d = true
      · rw [if_pos hd]
        have : encChar d = [32] ∨ encChar d = [9] := by
          simp only [isBlank, Bool.or_eq_true, decide_eq_true_eq] at hd
          rcases hd with hd | hd
          · left; rw [hd]; decide
          · right; rw [hd]; decide
        rcases this with h | h <;> (rw [h]; simp [List.dropWhile_cons]; exact ih)
      · rw [if_neg hd, List.flatMap_cons]
        cases hr : (encChar d).reverse with
        | nil =>
          have : encChar d = [] := by simpa using hr
          exact absurd this (encChar_ne_nil d)
        | cons x xs =>
          have hx : x ∈ encChar d := by
            have : x ∈ (encChar d).reverse := by rw [hr]; simp
            simpa using this
          have hnb : (x == 32 || x == 9) = false := by
            simp only [Bool.or_eq_false_iff, beq_eq_false_iff_ne, ne_eq]
            constructor
            · intro he
              rw [he] at hx
              have := (mem_encChar_ascii d 32 (by decide) hx).2
              apply hd
              have hd' : d = ' ' := char_eq_of_toNat_eq d ' ' (by rw [this]; decide)
              rw [hd']; decide
            · intro he
              rw [he] at hx
              have := (mem_encChar_ascii d 9 (by decide) hx).2
              apply hd
              have hd' : d = '\t' := char_eq_of_toNat_eq d '\t' (by rw [this]; decide)
              rw [hd']; decide
          simp only [List.cons_append, List.dropWhile_cons, hnb, Bool.false_eq_true, if_false]
  rw [key, ← encodeChars_reverse, List.reverse_reverse]

/-! ### one iteration of the loop, by the rune read -/

theorem qloop_eof (i ln cl : Int) (f : Nat) (text : List UInt8) (over : Bool) (l : Lexer)
    (h : (next l).1 = eofRune) :
    qstringLoop i ln cl (f + 1) text over l = setState .done (errorfAt ln cl .missingDQuote (next l).2) := by
  rw [qstringLoop]; simp only [h, if_true]

theorem qloop_quote (i ln cl : Int) (f : Nat) (text : List UInt8) (over : Bool) (l : Lexer)
    (h : (next l).1 = 34) :
    qstringLoop i ln cl (f + 1) text over l = setState .ground (emitText .string text (next l).2) := by
  rw [qstringLoop]; simp only [h]; simp [eofRune]

theorem qloop_nl (i ln cl : Int) (f : Nat) (text : List UInt8) (over : Bool) (l : Lexer)
    (h : (next l).1 = 10) :
    qstringLoop i ln cl (f + 1) text over l =
      qstringLoop i ln cl f (trimTrailing text ++ encodeRune 10) false (next l).2 := by
  rw [qstringLoop]; simp only [h]; simp [eofRune]

theorem qloop_blank (i ln cl : Int) (f : Nat) (text : List UInt8) (over : Bool) (l : Lexer)
    (h : (next l).1 = 32 ∨ (next l).1 = 9) :
    qstringLoop i ln cl (f + 1) text over l =
      if !over && (next l).2.tcol ≤ i then qstringLoop i ln cl f text over (next l).2
      else qstringLoop i ln cl f (text ++ encodeRune (next l).1) true (next l).2 := by
  rw [qstringLoop]
  rcases h with h | h <;> simp only [h] <;> simp [eofRune]

theorem qloop_plain (i ln cl : Int) (f : Nat) (text : List UInt8) (over : Bool) (l : Lexer)
    (h1 : (next l).1 ≠ eofRune) (h2 : (next l).1 ≠ 34) (h3 : (next l).1 ≠ 10) (h4 : (next l).1 ≠ 32)
    (h5 : (next l).1 ≠ 9) (h6 : (next l).1 ≠ 92) :
    qstringLoop i ln cl (f + 1) text over l =
      qstringLoop i ln cl f (text ++ encodeRune (next l).1) true (next l).2 := by
  rw [qstringLoop]; simp only [h1, h2, h3, h4, h5, h6, if_false, Bool.or_self, Bool.false_eq_true, decide_false]

theorem qloop_esc (i ln cl : Int) (f : Nat) (text : List UInt8) (over : Bool) (l : Lexer)
    (h : (next l).1 = 92) :
    qstringLoop i ln cl (f + 1) text over l =
      if (next (next l).2).1 = 110 then qstringLoop i ln cl f (text ++ encodeRune 10) true (next (next l).2).2
      else if (next (next l).2).1 = 116 then qstringLoop i ln cl f (text ++ encodeRune 9) true (next (next l).2).2
      else if (next (next l).2).1 = 34 || (next (next l).2).1 = 92 then
        qstringLoop i ln cl f (text ++ encodeRune (next (next l).2).1) true (next (next l).2).2
      else qstringLoop i ln cl f (text ++ [92] ++ encodeRune (next (next l).2).1) true
        (if !(next (next l).2).2.inPattern then
          errorfAt (next l).2.line ((next l).2.col - 1) .invalidEscape (next (next l).2).2
         else (next (next l).2).2) := by
  rw [qstringLoop]; simp only [h]; simp [eofRune]

theorem char_ne_eof (c : Char) : c.toNat ≠ eofRune := by
  have := char_range c
  unfold eofRune; omega

theorem encodeChars_snoc (tc : List Char) (c : Char) : encodeChars (tc ++ [c]) = encodeChars tc ++ encChar c := by
  rw [encodeChars_append, encodeChars_cons, encodeChars_nil, List.append_nil]

open Goyang.Lemmas.QStr in
/-- the loop of `lexQString` performs the fold `stepC` and stops at the closing quote — when no
error is written (every backslash pair is defined, or the lexer is in pattern mode) -/
theorem qstringLoop_good (indent : Nat) (line col : Int) (r' : List Char) :
    ∀ (items : List QItem) (f : Nat) (s : QS) (l : Lexer) (pre : List Char),
    wfItems items → Cur l pre (itemsChars items ++ '"' :: r') → Pos l pre →
    (s.over = false → tcolAfter pre = ((s.w : Nat) : Int)) →
    (encodeChars (itemsChars items ++ '"' :: r')).length + 1 ≤ f →
    (l.inPattern = true ∨ items.all validEsc = true) →
    ∃ l', qstringLoop indent line col f (encodeChars s.text) s.over l =
        setState .ground (emitText .string (encodeChars (items.foldl (stepC indent) s).text) l') ∧
      Cur l' (pre ++ (itemsChars items ++ ['"'])) r' ∧ Pos l' (pre ++ (itemsChars items ++ ['"'])) ∧
      Frame l l' := by
  intro items
  induction items with
  | nil =>
    intro f s l pre _ hc hp _ hf _
    obtain ⟨f, rfl⟩ : ∃ f', f = f' + 1 := ⟨f - 1, by omega⟩
    obtain ⟨n1, n2, n3, _, n5⟩ := next_char l pre r' '"' hc (hp.posN _)
    exact ⟨(next l).2, qloop_quote _ _ _ _ _ _ _ (by rw [n1]; decide), n2, n3, n5⟩
  | cons q items ih =>
    intro f s l pre hwf hc hp hw hf hpat
    obtain ⟨f, rfl⟩ : ∃ f', f = f' + 1 := ⟨f - 1, by omega⟩
    cases q with
    | lit c =>
      obtain ⟨hq, hb, hwf'⟩ := hwf
      have hc' : Cur l pre (c :: (itemsChars items ++ '"' :: r')) := hc
      obtain ⟨n1, n2, n3, _, n5⟩ := next_char l pre _ c hc' (hp.posN _)
      have hlen := encodeChars_length_cons c (itemsChars items ++ '"' :: r')
      have hf' : (encodeChars (itemsChars items ++ '"' :: r')).length + 1 ≤ f := by
        have : (encodeChars (c :: (itemsChars items ++ '"' :: r'))).length + 1 ≤ f + 1 := hf
        omega
      have hpat' : (next l).2.inPattern = true ∨ items.all validEsc = true := by
        rcases hpat with h | h
        · left; rw [n5.inPattern]; exact h
        · right; simp only [List.all_cons, Bool.and_eq_true] at h; exact h.2
      have hassoc : pre ++ [c] ++ (itemsChars items ++ ['"']) = pre ++ (itemsChars (QItem.lit c :: items) ++ ['"']) := by
        simp [itemsChars]
      by_cases hnl : c = '\n'
      · -- a line break
        subst hnl
        rw [qloop_nl _ _ _ _ _ _ _ (by rw [n1]; decide)]
        have htext : trimTrailing (encodeChars s.text) ++ encodeRune 10 =
            encodeChars (trimC s.text ++ ['\n']) := by
          rw [trimTrailing_enc, encodeChars_snoc]; rfl
        rw [htext]
        obtain ⟨l', h1, h2, h3, h4⟩ := ih f ⟨trimC s.text ++ ['\n'], false, 0⟩ (next l).2 (pre ++ ['\n']) hwf' n2 n3
          (fun _ => by rw [tcolAfter_snoc]; simp) hf' hpat'
        refine ⟨l', ?_, by rw [← hassoc]; exact h2, by rw [← hassoc]; exact h3, n5.trans h4⟩
        rw [h1]
        simp [stepC]
      · by_cases hbl : isBlank c = true
        · -- a blank
          have hr : (next l).1 = 32 ∨ (next l).1 = 9 := by
            rw [n1]
            simp only [isBlank, Bool.or_eq_true, decide_eq_true_eq] at hbl
            rcases hbl with h | h
            · left; rw [h]; decide
            · right; rw [h]; decide
          rw [qloop_blank _ _ _ _ _ _ _ hr]
          have htc : (next l).2.tcol = tcolAfter (pre ++ [c]) := n3.tcol
          have hadv : s.over = false → tcolAfter (pre ++ [c]) = ((adv s.w c : Nat) : Int) := by
            intro ho
            rw [tcolAfter_snoc, if_neg hnl, hw ho]
            unfold adv
            by_cases ht : c = '\t'
            · rw [if_pos ht, if_pos ht]; push_cast; omega
            · rw [if_neg ht, if_neg ht]; push_cast; rfl
          by_cases hskip : (!s.over && decide (adv s.w c ≤ indent)) = true
          · have hover : s.over = false := by
              cases ho : s.over with
              | false => rfl
              | true => rw [ho] at hskip; simp at hskip
            have hle : adv s.w c ≤ indent := by
              rw [hover] at hskip; simpa using hskip
            rw [if_pos (by
              rw [hover, htc, hadv hover]
              simp only [Bool.not_false, Bool.true_and, decide_eq_true_eq]
              exact Int.ofNat_le.mpr hle)]
            obtain ⟨l', h1, h2, h3, h4⟩ := ih f ⟨s.text, false, adv s.w c⟩ (next l).2 (pre ++ [c]) hwf' n2 n3
              (fun _ => hadv hover) hf' hpat'
            refine ⟨l', ?_, by rw [← hassoc]; exact h2, by rw [← hassoc]; exact h3, n5.trans h4⟩
            rw [hover]
            rw [h1]
            simp only [List.foldl_cons, stepC, if_neg hnl, hbl, if_true, hover, Bool.not_false, Bool.true_and,
              decide_eq_true_eq, hle]
          · have hskip' : (!s.over && decide (adv s.w c ≤ indent)) = false := by simpa using hskip
            rw [if_neg (by
              intro hcond
              simp only [Bool.and_eq_true, Bool.not_eq_eq_eq_not, Bool.not_true, decide_eq_true_eq] at hcond
              obtain ⟨ho, hle⟩ := hcond
              rw [htc, hadv ho] at hle
              rw [ho] at hskip'
              simp only [Bool.not_false, Bool.true_and, decide_eq_false_iff_not] at hskip'
              exact hskip' (Int.ofNat_le.mp hle))]
            have htext : encodeChars s.text ++ encodeRune (next l).1 = encodeChars (s.text ++ [c]) := by
              rw [n1, encodeChars_snoc]; rfl
            rw [htext]
            obtain ⟨l', h1, h2, h3, h4⟩ := ih f ⟨s.text ++ [c], true, adv s.w c⟩ (next l).2 (pre ++ [c]) hwf' n2 n3
              (fun h => by cases h) hf' hpat'
            refine ⟨l', ?_, by rw [← hassoc]; exact h2, by rw [← hassoc]; exact h3, n5.trans h4⟩
            rw [h1]
            simp only [List.foldl_cons, stepC, if_neg hnl, hbl, if_true]
            rw [if_neg (by simpa using hskip')]
        · -- an ordinary character
          have hbl' : isBlank c = false := by simpa using hbl
          have hsp : c ≠ ' ' := by intro h; rw [h] at hbl'; simp [isBlank] at hbl'
          have htb : c ≠ '\t' := by intro h; rw [h] at hbl'; simp [isBlank] at hbl'
          rw [qloop_plain _ _ _ _ _ _ _ (by rw [n1]; exact char_ne_eof c)
            (by rw [n1]; intro h; exact hq ((toNat_eq_iff c '"').1 h))
            (by rw [n1]; intro h; exact hnl ((toNat_eq_iff c '\n').1 h))
            (by rw [n1]; intro h; exact hsp ((toNat_eq_iff c ' ').1 h))
            (by rw [n1]; intro h; exact htb ((toNat_eq_iff c '\t').1 h))
            (by rw [n1]; intro h; exact hb ((toNat_eq_iff c '\\').1 h))]
          have htext : encodeChars s.text ++ encodeRune (next l).1 = encodeChars (s.text ++ [c]) := by
            rw [n1, encodeChars_snoc]; rfl
          rw [htext]
          obtain ⟨l', h1, h2, h3, h4⟩ := ih f ⟨s.text ++ [c], true, adv s.w c⟩ (next l).2 (pre ++ [c]) hwf' n2 n3
            (fun h => by cases h) hf' hpat'
          refine ⟨l', ?_, by rw [← hassoc]; exact h2, by rw [← hassoc]; exact h3, n5.trans h4⟩
          rw [h1]
          simp only [List.foldl_cons, stepC, if_neg hnl, hbl', Bool.false_eq_true, if_false]
    | esc e =>
      have hwf' : wfItems items := hwf
      have hc' : Cur l pre ('\\' :: e :: (itemsChars items ++ '"' :: r')) := hc
      obtain ⟨n1, n2, n3, _, n5⟩ := next_char l pre _ '\\' hc' (hp.posN _)
      obtain ⟨m1, m2, m3, _, m5⟩ := next_char (next l).2 (pre ++ ['\\']) _ e n2 (n3.posN _)
      have hlen1 := encodeChars_length_cons '\\' (e :: (itemsChars items ++ '"' :: r'))
      have hlen2 := encodeChars_length_cons e (itemsChars items ++ '"' :: r')
      have hf' : (encodeChars (itemsChars items ++ '"' :: r')).length + 1 ≤ f := by
        have : (encodeChars ('\\' :: e :: (itemsChars items ++ '"' :: r'))).length + 1 ≤ f + 1 := hf
        omega
      have hpat' : (next (next l).2).2.inPattern = true ∨ items.all validEsc = true := by
        rcases hpat with h | h
        · left; rw [m5.inPattern, n5.inPattern]; exact h
        · right; simp only [List.all_cons, Bool.and_eq_true] at h; exact h.2
      have hassoc : pre ++ ['\\'] ++ [e] ++ (itemsChars items ++ ['"']) =
          pre ++ (itemsChars (QItem.esc e :: items) ++ ['"']) := by
        simp [itemsChars]
      rw [qloop_esc _ _ _ _ _ _ _ (by rw [n1]; decide), m1]
      have fin : ∀ (tb : List UInt8) (l2 : Lexer), tb = encodeChars (s.text ++ escValue e) →
          l2 = (next (next l).2).2 →
          ∃ l', qstringLoop indent line col f tb true l2 =
            setState .ground (emitText .string
              (encodeChars ((QItem.esc e :: items).foldl (stepC indent) s).text) l') ∧
          Cur l' (pre ++ (itemsChars (QItem.esc e :: items) ++ ['"'])) r' ∧
          Pos l' (pre ++ (itemsChars (QItem.esc e :: items) ++ ['"'])) ∧ Frame l l' := by
        intro tb l2 htb hl2
        subst htb hl2
        obtain ⟨l', h1, h2, h3, h4⟩ := ih f ⟨s.text ++ escValue e, true, s.w⟩ (next (next l).2).2
          (pre ++ ['\\'] ++ [e]) hwf' m2 m3 (fun h => by cases h) hf' hpat'
        exact ⟨l', by rw [h1]; simp only [List.foldl_cons, stepC], by rw [← hassoc]; exact h2,
          by rw [← hassoc]; exact h3, (n5.trans m5).trans h4⟩
      have k110 : e.toNat = 110 ↔ e = 'n' := toNat_eq_iff e 'n'
      have k116 : e.toNat = 116 ↔ e = 't' := toNat_eq_iff e 't'
      have k34 : e.toNat = 34 ↔ e = '"' := toNat_eq_iff e '"'
      have k92 : e.toNat = 92 ↔ e = '\\' := toNat_eq_iff e '\\'
      by_cases h1 : e = 'n'
      · rw [if_pos (k110.2 h1)]
        exact fin _ _ (by rw [encodeChars_append, h1]; rfl) rfl
      · rw [if_neg (fun h => h1 (k110.1 h))]
        by_cases h2 : e = 't'
        · rw [if_pos (k116.2 h2)]
          exact fin _ _ (by rw [encodeChars_append, h2]; rfl) rfl
        · rw [if_neg (fun h => h2 (k116.1 h))]
          by_cases h3 : e = '"' ∨ e = '\\'
          · rw [if_pos (by
              simp only [Bool.or_eq_true, decide_eq_true_eq]
              rcases h3 with h | h
              · exact Or.inl (k34.2 h)
              · exact Or.inr (k92.2 h))]
            refine fin _ _ ?_ rfl
            rw [encodeChars_append]
            congr 1
            rcases h3 with h | h <;> (rw [h]; rfl)
          · have h3' : e ≠ '"' ∧ e ≠ '\\' := ⟨fun h => h3 (Or.inl h), fun h => h3 (Or.inr h)⟩
            rw [if_neg (by
              simp only [Bool.or_eq_true, decide_eq_true_eq, not_or]
              exact ⟨fun h => h3'.1 (k34.1 h), fun h => h3'.2 (k92.1 h)⟩)]
            have hpt : (next (next l).2).2.inPattern = true := by
              rcases hpat with h | h
              · rw [m5.inPattern, n5.inPattern]; exact h
              · simp [validEsc, h1, h2, h3'.1, h3'.2] at h
            rw [hpt]
            simp only [Bool.not_true, Bool.false_eq_true, if_false]
            refine fin _ _ ?_ rfl
            rw [encodeChars_append]
            simp only [escValue, if_neg h1, if_neg h2, if_neg h3'.1, if_neg h3'.2]
            rw [List.append_assoc]
            congr 1
            rw [encodeChars_cons, encodeChars_cons, encodeChars_nil, List.append_nil]
            rfl

/-- after a character that is neither a quote nor a backslash the loop goes on -/
theorem qloop_lit (i ln cl : Int) (f : Nat) (text : List UInt8) (over : Bool) (l : Lexer) (c : Char)
    (h : (next l).1 = c.toNat) (hq : c ≠ '"') (hb : c ≠ '\\') :
    ∃ tb ov, qstringLoop i ln cl (f + 1) text over l = qstringLoop i ln cl f tb ov (next l).2 := by
  by_cases hnl : c = '\n'
  · exact ⟨_, _, qloop_nl _ _ _ _ _ _ _ (by rw [h, hnl]; decide)⟩
  · by_cases hsp : c = ' ' ∨ c = '\t'
    · have hr : (next l).1 = 32 ∨ (next l).1 = 9 := by
        rw [h]; rcases hsp with hh | hh
        · left; rw [hh]; decide
        · right; rw [hh]; decide
      rw [qloop_blank _ _ _ _ _ _ _ hr]
      split
      · exact ⟨_, _, rfl⟩
      · exact ⟨_, _, rfl⟩
    · have h1 : c ≠ ' ' := fun hh => hsp (Or.inl hh)
      have h2 : c ≠ '\t' := fun hh => hsp (Or.inr hh)
      exact ⟨_, _, qloop_plain _ _ _ _ _ _ _ (by rw [h]; exact char_ne_eof c)
        (by rw [h]; intro hh; exact hq ((toNat_eq_iff c '"').1 hh))
        (by rw [h]; intro hh; exact hnl ((toNat_eq_iff c '\n').1 hh))
        (by rw [h]; intro hh; exact h1 ((toNat_eq_iff c ' ').1 hh))
        (by rw [h]; intro hh; exact h2 ((toNat_eq_iff c '\t').1 hh))
        (by rw [h]; intro hh; exact hb ((toNat_eq_iff c '\\').1 hh))⟩

open Goyang.Lemmas.QStr in
/-- the raw text has no closing quote, or (outside pattern mode) an undefined backslash pair -/
def DqBad (b : Bool) (r : List Char) : Prop :=
  scanDq r = none ∨ ∃ items r', scanDq r = some (items, r') ∧ b = false ∧ items.all validEsc = false

theorem next_eof_cur (l : Lexer) (pre : List Char) (hc : Cur l pre []) :
    (next l).1 = eofRune ∧ Cur (next l).2 pre [] ∧ Frame l (next l).2 := by
  have hr : l.rest = [] := by rw [hc.rest]; rfl
  rw [next_nil l hr]
  exact ⟨rfl, ⟨hc.before, hc.rest, hc.line⟩, ⟨rfl, rfl, rfl, rfl, rfl, rfl, rfl, rfl, rfl, rfl⟩⟩

open Goyang.Lemmas.QStr in
/-- ... then the loop ends with an error written -/
theorem qstringLoop_bad (i ln cl : Int) : ∀ (n : Nat) (r : List Char), r.length ≤ n →
    ∀ (f : Nat) (text : List UInt8) (over : Bool) (l : Lexer) (pre : List Char),
    Cur l pre r → (l.errcnt = 0 ∨ l.errout ≠ []) → (encodeChars r).length + 2 ≤ f → DqBad l.inPattern r →
    (qstringLoop i ln cl f text over l).errout ≠ [] := by
  intro n
  induction n using Nat.strongRecOn with
  | _ n ih =>
    intro r hn f text over l pre hc he hf hbad
    obtain ⟨f, rfl⟩ : ∃ f', f = f' + 1 := ⟨f - 1, by omega⟩
    cases r with
    | nil =>
      obtain ⟨n1, n2, n3⟩ := next_eof_cur l pre hc
      rw [qloop_eof _ _ _ _ _ _ _ n1]
      show (errorfAt ln cl .missingDQuote (next l).2).errout ≠ []
      apply errorfAt_errout
      rcases he with h | h
      · left; rw [n3.errcnt]; exact h
      · right; rw [n3.errout]; exact h
    | cons c r1 =>
      obtain ⟨n1, n2, _, n5⟩ := next_char_cur l pre r1 c hc
      have hlen := encodeChars_length_cons c r1
      have he1 : (next l).2.errcnt = 0 ∨ (next l).2.errout ≠ [] := by
        rcases he with h | h
        · left; rw [n5.errcnt]; exact h
        · right; rw [n5.errout]; exact h
      by_cases hq : c = '"'
      · -- a closing quote: the string is terminated and has no undefined pair
        exfalso
        subst hq
        rcases hbad with h | ⟨items, r', h, _, hall⟩
        · unfold scanDq at h; simp at h
        · unfold scanDq at h
          simp only [if_true, Option.some.injEq, Prod.mk.injEq] at h
          rw [← h.1] at hall; simp at hall
      · by_cases hb : c = '\\'
        · subst hb
          rw [qloop_esc _ _ _ _ _ _ _ (by rw [n1]; decide)]
          cases r1 with
          | nil =>
            -- backslash at the end of the input
            obtain ⟨m1, m2, m3⟩ := next_eof_cur (next l).2 _ n2
            rw [m1]
            simp only [eofRune, Nat.reduceEqDiff, if_false, Bool.or_self, Bool.false_eq_true, decide_false]
            obtain ⟨f, rfl⟩ : ∃ f', f = f' + 1 := ⟨f - 1, by
              have : (encodeChars ['\\']).length = 1 := by decide
              omega⟩
            split
            · have herr := errorfAt_errout (next l).2.line ((next l).2.col - 1) .invalidEscape (next (next l).2).2
                (by
                  rcases he1 with h | h
                  · left; rw [m3.errcnt]; exact h
                  · right; rw [m3.errout]; exact h)
              exact qstringLoop_keeps _ _ _ _ _ _ _ herr
            · obtain ⟨k1, k2, k3⟩ := next_eof_cur (next (next l).2).2 _ m2
              rw [qloop_eof _ _ _ _ _ _ _ k1]
              show (errorfAt ln cl .missingDQuote (next (next (next l).2).2).2).errout ≠ []
              apply errorfAt_errout
              rcases he1 with h | h
              · left; rw [k3.errcnt, m3.errcnt]; exact h
              · right; rw [k3.errout, m3.errout]; exact h
          | cons e r2 =>
            obtain ⟨m1, m2, _, m5⟩ := next_char_cur (next l).2 _ r2 e n2
            have hlen2 := encodeChars_length_cons e r2
            have he2 : (next (next l).2).2.errcnt = 0 ∨ (next (next l).2).2.errout ≠ [] := by
              rcases he1 with h | h
              · left; rw [m5.errcnt]; exact h
              · right; rw [m5.errout]; exact h
            have hpat : (next (next l).2).2.inPattern = l.inPattern := by rw [m5.inPattern, n5.inPattern]
            -- what is known about the rest
            have hrest : validEsc (.esc e) = true → DqBad l.inPattern r2 := by
              intro hv
              rcases hbad with h | ⟨items, r', h, hbf, hall⟩
              · left
                unfold scanDq at h
                simp only [show ('\\' : Char) ≠ '"' by decide, if_false, if_true] at h
                cases hs : scanDq r2 with
                | none => rfl
                | some p => simp [hs] at h
              · unfold scanDq at h
                simp only [show ('\\' : Char) ≠ '"' by decide, if_false, if_true] at h
                cases hs : scanDq r2 with
                | none => simp [hs] at h
                | some p =>
                  obtain ⟨s', r''⟩ := p
                  simp only [hs, Option.map_some, Option.some.injEq, Prod.mk.injEq] at h
                  right
                  refine ⟨s', r'', hs, hbf, ?_⟩
                  rw [← h.1] at hall
                  simp only [List.all_cons, hv, Bool.true_and] at hall
                  exact hall
            have hfuel : (encodeChars r2).length + 2 ≤ f := by omega
            have hgo : ∀ tb, (qstringLoop i ln cl f tb true (next (next l).2).2).errout ≠ [] ∨ True := fun _ => Or.inr trivial
            rw [m1]
            have k110 : e.toNat = 110 ↔ e = 'n' := toNat_eq_iff e 'n'
            have k116 : e.toNat = 116 ↔ e = 't' := toNat_eq_iff e 't'
            have k34 : e.toNat = 34 ↔ e = '"' := toNat_eq_iff e '"'
            have k92 : e.toNat = 92 ↔ e = '\\' := toNat_eq_iff e '\\'
            have hvalid : ∀ tb, validEsc (.esc e) = true →
                (qstringLoop i ln cl f tb true (next (next l).2).2).errout ≠ [] := by
              intro tb hv
              exact ih r2.length (by simp only [List.length_cons] at hn; omega) r2 (Nat.le_refl _) f tb true _ _
                m2 he2 hfuel (by rw [hpat]; exact hrest hv)
            split
            · rename_i h1; exact hvalid _ (by simp [validEsc, k110.1 h1])
            · split
              · rename_i h2; exact hvalid _ (by simp [validEsc, k116.1 h2])
              · split
                · rename_i h3
                  simp only [Bool.or_eq_true, decide_eq_true_eq] at h3
                  refine hvalid _ ?_
                  rcases h3 with h | h
                  · simp [validEsc, k34.1 h]
                  · simp [validEsc, k92.1 h]
                · rename_i h1 h2 h3
                  simp only [Bool.or_eq_true, decide_eq_true_eq, not_or] at h3
                  have hinv : validEsc (.esc e) = false := by
                    simp only [validEsc, Bool.or_eq_false_iff, decide_eq_false_iff_not]
                    exact ⟨⟨⟨fun h => h1 (k110.2 h), fun h => h2 (k116.2 h)⟩, fun h => h3.1 (k34.2 h)⟩,
                      fun h => h3.2 (k92.2 h)⟩
                  by_cases hp : l.inPattern = true
                  · -- pattern mode: no error here, the rest is bad
                    rw [hpat, hp]
                    simp only [Bool.not_true, Bool.false_eq_true, if_false]
                    refine ih r2.length (by simp only [List.length_cons] at hn; omega) r2 (Nat.le_refl _) f _ true _ _
                      m2 he2 hfuel ?_
                    rw [hpat]
                    rcases hbad with h | ⟨items, r', h, hbf, hall⟩
                    · left
                      unfold scanDq at h
                      simp only [show ('\\' : Char) ≠ '"' by decide, if_false, if_true] at h
                      cases hs : scanDq r2 with
                      | none => rfl
                      | some p => simp [hs] at h
                    · rw [hp] at hbf; cases hbf
                  · have hp' : l.inPattern = false := by simpa using hp
                    rw [hpat, hp']
                    simp only [Bool.not_false, if_true]
                    exact qstringLoop_keeps _ _ _ _ _ _ _ (errorfAt_errout _ _ _ _ he2)
        · -- an ordinary character
          obtain ⟨tb, ov, hstep⟩ := qloop_lit i ln cl f text over l c n1 hq hb
          rw [hstep]
          refine ih r1.length (by simp only [List.length_cons] at hn; omega) r1 (Nat.le_refl _) f tb ov _ _ n2 he1
            (by omega) ?_
          rw [n5.inPattern]
          rcases hbad with h | ⟨items, r', h, hbf, hall⟩
          · left
            unfold scanDq at h
            simp only [hq, hb, if_false] at h
            cases hs : scanDq r1 with
            | none => rfl
            | some p => simp [hs] at h
          · unfold scanDq at h
            simp only [hq, hb, if_false] at h
            cases hs : scanDq r1 with
            | none => simp [hs] at h
            | some p =>
              obtain ⟨s', r''⟩ := p
              simp only [hs, Option.map_some, Option.some.injEq, Prod.mk.injEq] at h
              right
              refine ⟨s', r'', hs, hbf, ?_⟩
              rw [← h.1] at hall
              simpa [validEsc] using hall

/-! ## unquoted tokens -/

theorem isUnqDelim_char (c : Char) : isUnqDelim c.toNat = isDelim c := by
  unfold isUnqDelim isDelim isSpace
  have h1 : (c.toNat = 32) = (c = ' ') := propext (toNat_eq_iff c ' ')
  have h2 : (c.toNat = 9) = (c = '\t') := propext (toNat_eq_iff c '\t')
  have h3 : (c.toNat = 13) = (c = '\r') := propext (toNat_eq_iff c '\r')
  have h4 : (c.toNat = 10) = (c = '\n') := propext (toNat_eq_iff c '\n')
  have h5 : (c.toNat = 59) = (c = ';') := propext (toNat_eq_iff c ';')
  have h6 : (c.toNat = 34) = (c = '"') := propext (toNat_eq_iff c '"')
  have h7 : (c.toNat = 39) = (c = '\'') := propext (toNat_eq_iff c '\'')
  have h8 : (c.toNat = 123) = (c = '{') := propext (toNat_eq_iff c '{')
  have h9 : (c.toNat = 125) = (c = '}') := propext (toNat_eq_iff c '}')
  have h10 : (c.toNat = eofRune) = False := propext ⟨fun h => char_ne_eof c h, False.elim⟩
  simp only [h1, h2, h3, h4, h5, h6, h7, h8, h9, h10, decide_false, Bool.or_false]
  cases decide (c = ' ') <;> cases decide (c = '\t') <;> cases decide (c = '\r') <;> cases decide (c = '\n') <;>
    cases decide (c = ';') <;> cases decide (c = '"') <;> cases decide (c = '\'') <;> cases decide (c = '{') <;>
    cases decide (c = '}') <;> rfl

/-- `lexUnquoted` reads up to the next delimiter and emits what has been read since `start` -/
theorem unquotedLoop_chars (pre0 suf' : List Char) (hs : ∀ c r, suf' = c :: r → isDelim c = true) :
    ∀ (w : List Char), (∀ x ∈ w, isDelim x = false) → ∀ (f : Nat) (l : Lexer) (tk : List Char),
    Cur l (pre0 ++ tk) (w ++ suf') → PosN l (pre0 ++ tk) (w ++ suf') → l.start = (encodeChars pre0).length →
    (encodeChars (w ++ suf')).length + 1 ≤ f →
    ∃ l', unquotedLoop f l = setState .ground (emitText .unquoted (encodeChars (tk ++ w)) l') ∧
      Cur l' (pre0 ++ (tk ++ w)) suf' ∧ PosN l' (pre0 ++ (tk ++ w)) suf' ∧ Frame l l' := by
  intro w
  induction w with
  | nil =>
    intro _ f l tk hc hp hst hf
    obtain ⟨f, rfl⟩ : ∃ f', f = f' + 1 := ⟨f - 1, by omega⟩
    simp only [List.nil_append, List.append_nil] at hc hp ⊢
    unfold unquotedLoop
    simp only
    cases suf' with
    | nil =>
      obtain ⟨p1, p2, p3, p4, p5⟩ := peek_eof l _ hc
      rw [p1, if_pos isUnqDelim_eof]
      refine ⟨(peek l).2, ?_, p2, ?_, p5⟩
      · rw [emit_eq .unquoted (peek l).2 pre0 tk [] p2 (by rw [p5.start]; exact hst)]
      · have hp' : Pos l (pre0 ++ tk) := hp
        show Pos (peek l).2 (pre0 ++ tk)
        exact ⟨by rw [p3]; exact hp'.col, by rw [p4]; exact hp'.tcol⟩
    | cons d r =>
      obtain ⟨p1, p2, p3, p4⟩ := peek_char l _ r d hc hp
      rw [p1, isUnqDelim_char, hs d r rfl]
      simp only [if_true]
      refine ⟨(peek l).2, ?_, p2, p3, p4⟩
      rw [emit_eq .unquoted (peek l).2 pre0 tk (d :: r) p2 (by rw [p4.start]; exact hst)]
  | cons c w ih =>
    intro hw f l tk hc hp hst hf
    obtain ⟨f, rfl⟩ : ∃ f', f = f' + 1 := ⟨f - 1, by omega⟩
    have hc' : Cur l (pre0 ++ tk) (c :: (w ++ suf')) := hc
    obtain ⟨p1, p2, p3, p4⟩ := peek_char l _ _ c hc' hp
    obtain ⟨n1, n2, n3, _, n5⟩ := next_char (peek l).2 _ _ c p2 p3
    unfold unquotedLoop
    simp only
    rw [p1, isUnqDelim_char, hw c (by simp)]
    simp only [Bool.false_eq_true, if_false]
    have hlen := encodeChars_length_cons c (w ++ suf')
    obtain ⟨l', h1, h2, h3, h4⟩ := ih (fun x hx => hw x (by simp [hx])) f (next (peek l).2).2 (tk ++ [c])
      (by rw [← List.append_assoc]; exact n2) (by rw [← List.append_assoc]; exact n3.posN _)
      (by rw [n5.start, p4.start]; exact hst)
      (by
        have : (encodeChars (c :: (w ++ suf'))).length + 1 ≤ f + 1 := hf
        omega)
    refine ⟨l', ?_, ?_, ?_, (p4.trans n5).trans h4⟩
    · rw [h1]; simp
    · simpa using h2
    · simpa using h3

/-! ## the ground state -/

/-- what survives the start of a token -/
structure FrameG (l l' : Lexer) : Prop where
  errout : l'.errout = l.errout
  errcnt : l'.errcnt = l.errcnt
  file : l'.file = l.file
  inPattern : l'.inPattern = l.inPattern
  items : l'.items = l.items
  state : l'.state = l.state
  fault : l'.fault = l.fault

theorem _root_.Goyang.Lemmas.Lex.Frame.frameG {l l' : Lexer} (h : Frame l l') : FrameG l l' :=
  ⟨h.errout, h.errcnt, h.file, h.inPattern, h.items, h.state, h.fault⟩

theorem FrameG.trans {a b c : Lexer} (h1 : FrameG a b) (h2 : FrameG b c) : FrameG a c :=
  ⟨h2.errout.trans h1.errout, h2.errcnt.trans h1.errcnt, h2.file.trans h1.file,
   h2.inPattern.trans h1.inPattern, h2.items.trans h1.items, h2.state.trans h1.state, h2.fault.trans h1.fault⟩

theorem FrameG.ready {file : List UInt8} {l l' : Lexer} (h : FrameG l l') (hr : Ready file l) : Ready file l' :=
  ⟨h.items.trans hr.items, h.errout.trans hr.errout, h.errcnt.trans hr.errcnt, h.fault.trans hr.fault,
   h.file.trans hr.file⟩

/-- `groundStart`: the white space is skipped, the token starts here -/
theorem groundStart_chars (l : Lexer) (pre bl suf' : List Char) (hbl : ∀ x ∈ bl, isSpace x = true)
    (hs : ∀ c r, suf' = c :: r → isSpace c = false) (hc : Cur l pre (bl ++ suf')) (hp : PosN l pre (bl ++ suf')) :
    Cur (groundStart l) (pre ++ bl) suf' ∧ Pos (groundStart l) (pre ++ bl) ∧
    (groundStart l).start = (encodeChars (pre ++ bl)).length ∧
    (groundStart l).sline = lineAfter (pre ++ bl) ∧ (groundStart l).scol = colAfter (pre ++ bl) ∧
    FrameG l (groundStart l) := by
  obtain ⟨a1, a2, a3⟩ := acceptRun_chars l pre bl suf' hbl hs hc hp
  unfold groundStart consume Lexer.pos
  simp only
  refine ⟨⟨a1.before, a1.rest, a1.line⟩, ⟨a2.col, a2.tcol⟩, ?_, a1.line, a2.col, ?_⟩
  · show (acceptRun l).2.before.length = _
    rw [a1.before]; simp
  · exact ⟨a3.errout, a3.errcnt, a3.file, a3.inPattern, a3.items, a3.state, a3.fault⟩

/-- between two tokens -/
structure Gnd (file : List UInt8) (l : Lexer) (pre suf : List Char) : Prop where
  cur : Cur l pre suf
  posn : PosN l pre suf
  ready : Ready file l
  state : l.state = .ground

/-- popping the only queued token -/
theorem nextTokenLoop_pop1 (f : Nat) (l : Lexer) (t : Token) (h : l.items = [t]) :
    nextTokenLoop (f + 1) l = (some t, { l with items := [] }) := nextTokenLoop_pop f l t [] h

theorem nextTokenLoop_ground (f : Nat) (l : Lexer) (hi : l.items = []) (hs : l.state = .ground) :
    nextTokenLoop (f + 1) l = nextTokenLoop f (lexGround l) := by
  rw [nextTokenLoop, hi, hs]

theorem nextTokenLoop_qstring (f : Nat) (l : Lexer) (hi : l.items = []) (hs : l.state = .qstring) :
    nextTokenLoop (f + 1) l = nextTokenLoop f (lexQString l) := by
  rw [nextTokenLoop, hi, hs]

theorem nextTokenLoop_unquoted (f : Nat) (l : Lexer) (hi : l.items = []) (hs : l.state = .unquoted) :
    nextTokenLoop (f + 1) l = nextTokenLoop f (lexUnquoted l) := by
  rw [nextTokenLoop, hi, hs]

theorem nextTokenLoop_done (f : Nat) (l : Lexer) (hi : l.items = []) (hs : l.state = .done) :
    nextTokenLoop (f + 1) l = (none, l) := by
  rw [nextTokenLoop, hi, hs]

end Goyang.Lemmas.LexSim
