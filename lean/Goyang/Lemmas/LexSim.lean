/-
(d) The lexer model on a well-encoded text, character by character: cursor and position
bookkeeping (`line`, `col`, `tcol` against positions computed from the text alone), the loops
against the scanning functions of the reference reader.
-/
import Goyang.Lemmas.Lex
import Goyang.Lemmas.Utf8
import Goyang.Lemmas.QStr
import Goyang.Spec.Parse

namespace Goyang.Lemmas.LexSim
open Goyang.Model.Lex Goyang.Model.Utf8 Goyang.Lemmas.Utf8 Goyang.Lemmas.Lex
open Goyang.Spec.Parse

/-! ## positions from the text -/

def lineAfter (pre : List Char) : Int := ((1 + pre.count '\n' : Nat) : Int)
def colAfter (pre : List Char) : Int := (((lastLine pre).length : Nat) : Int)
def tcolAfter (pre : List Char) : Int := ((tabWidth (lastLine pre) : Nat) : Int)

theorem lastLine_snoc_nl (pre : List Char) : lastLine (pre ++ ['\n']) = [] := by
  simp [lastLine]

theorem lastLine_snoc (pre : List Char) (c : Char) (h : c ≠ '\n') : lastLine (pre ++ [c]) = lastLine pre ++ [c] := by
  simp [lastLine, List.takeWhile_cons, h]

theorem tabWidth_snoc (x : List Char) (c : Char) :
    tabWidth (x ++ [c]) = if c = '\t' then (tabWidth x / 8 + 1) * 8 else tabWidth x + 1 := by
  simp [tabWidth, List.foldl_append]

theorem lineAfter_snoc (pre : List Char) (c : Char) :
    lineAfter (pre ++ [c]) = if c = '\n' then lineAfter pre + 1 else lineAfter pre := by
  unfold lineAfter
  rw [List.count_append]
  by_cases h : c = '\n'
  · subst h; simp; omega
  · rw [if_neg h]
    have : List.count '\n' [c] = 0 := by simp [List.count_cons, h]
    rw [this]; rfl

theorem colAfter_snoc (pre : List Char) (c : Char) :
    colAfter (pre ++ [c]) = if c = '\n' then 0 else colAfter pre + 1 := by
  unfold colAfter
  by_cases h : c = '\n'
  · subst h; rw [lastLine_snoc_nl]; simp
  · rw [lastLine_snoc pre c h, if_neg h]; simp

theorem tcolAfter_snoc (pre : List Char) (c : Char) :
    tcolAfter (pre ++ [c]) = if c = '\n' then 0 else if c = '\t' then (tcolAfter pre + 8) / 8 * 8
      else tcolAfter pre + 1 := by
  unfold tcolAfter
  by_cases h : c = '\n'
  · subst h; rw [lastLine_snoc_nl]; simp [tabWidth]
  · rw [lastLine_snoc pre c h, if_neg h, tabWidth_snoc]
    by_cases ht : c = '\t'
    · rw [if_pos ht, if_pos ht]
      have : (((tabWidth (lastLine pre) / 8 + 1) * 8 : Nat) : Int) =
          ((tabWidth (lastLine pre) : Nat) : Int) / 8 * 8 + 8 := by
        push_cast; omega
      rw [this]; omega
    · rw [if_neg ht, if_neg ht]; simp

/-! ## cursor -/

/-- the lexer has read `pre` and `suf` is to come -/
structure Cur (l : Lexer) (pre suf : List Char) : Prop where
  before : l.before = (encodeChars pre).reverse
  rest : l.rest = encodeChars suf
  line : l.line = lineAfter pre

/-- `col` and `tcol` are what the text says -/
structure Pos (l : Lexer) (pre : List Char) : Prop where
  col : l.col = colAfter pre
  tcol : l.tcol = tcolAfter pre

/-- ... up to what `peek` leaves behind: nothing reliable before a line feed, `tcol` somewhere in
the right block of eight before a tab; the next `next` repairs both -/
def PosN (l : Lexer) (pre suf : List Char) : Prop :=
  match suf with
  | '\n' :: _ => True
  | '\t' :: _ => l.col = colAfter pre ∧ l.tcol / 8 = tcolAfter pre / 8
  | _ => Pos l pre

theorem Pos.posN {l : Lexer} {pre : List Char} (h : Pos l pre) (suf : List Char) : PosN l pre suf := by
  unfold PosN
  split
  · trivial
  · exact ⟨h.col, by rw [h.tcol]⟩
  · exact h

theorem toNat_eq_iff (c : Char) (d : Char) : c.toNat = d.toNat ↔ c = d :=
  ⟨char_eq_of_toNat_eq c d, fun h => by rw [h]⟩

/-- `next`, in full, on a non-empty rest -/
theorem next_cons_pos (l : Lexer) (h : l.rest ≠ []) :
    (next l).2.line = (if (decodeRune l.rest).1 = 10 then l.line + 1 else l.line) ∧
    (next l).2.col = (if (decodeRune l.rest).1 = 10 then 0 else l.col + 1) ∧
    (next l).2.tcol = (if (decodeRune l.rest).1 = 10 then 0 else if (decodeRune l.rest).1 = 9 then
      (l.tcol + 8) / 8 * 8 else l.tcol + 1) := by
  unfold next
  split
  · rename_i h'; exact absurd h' h
  · simp only
    split
    · exact ⟨rfl, rfl, rfl⟩
    · split <;> exact ⟨rfl, rfl, rfl⟩

/-- reading one character -/
theorem next_char (l : Lexer) (pre suf : List Char) (c : Char) (hc : Cur l pre (c :: suf))
    (hp : PosN l pre (c :: suf)) :
    (next l).1 = c.toNat ∧ Cur (next l).2 (pre ++ [c]) suf ∧ Pos (next l).2 (pre ++ [c]) ∧
    (next l).2.width = (encChar c).length ∧ Frame l (next l).2 := by
  have hrest : l.rest = encChar c ++ encodeChars suf := by rw [hc.rest, encodeChars_cons]
  have hne : l.rest ≠ [] := by
    rw [hrest]; intro h; exact encChar_ne_nil c (List.append_eq_nil_iff.mp h).1
  have hdec : decodeRune l.rest = (c.toNat, (encChar c).length) := by rw [hrest]; exact decodeRune_encChar c _
  obtain ⟨n1, n2, n3, n4⟩ := next_cons l hne
  obtain ⟨p1, p2, p3⟩ := next_cons_pos l hne
  rw [hdec] at n1 n2 n3 n4 p1 p2 p3
  simp only at n1 n2 n3 n4 p1 p2 p3
  have hnl : c.toNat = 10 ↔ c = '\n' := toNat_eq_iff c '\n'
  have htab : c.toNat = 9 ↔ c = '\t' := toNat_eq_iff c '\t'
  refine ⟨n1, ⟨?_, ?_, ?_⟩, ⟨?_, ?_⟩, n4, next_frame l⟩
  · rw [n2, hrest, List.take_left', hc.before, encodeChars_append, List.reverse_append]
    · simp [encodeChars, encChar]
    · rfl
  · rw [n3, hrest, List.drop_left']; rfl
  · rw [p1, lineAfter_snoc, hc.line]
    by_cases h : c = '\n'
    · rw [if_pos (hnl.2 h), if_pos h]
    · rw [if_neg (fun h' => h (hnl.1 h')), if_neg h]
  · rw [p2, colAfter_snoc]
    by_cases h : c = '\n'
    · rw [if_pos (hnl.2 h), if_pos h]
    · rw [if_neg (fun h' => h (hnl.1 h')), if_neg h]
      have : l.col = colAfter pre := by
        unfold PosN at hp
        split at hp
        · rename_i heq; simp only [List.cons.injEq] at heq; exact absurd heq.1 h
        · exact hp.1
        · exact hp.col
      rw [this]
  · rw [p3, tcolAfter_snoc]
    by_cases h : c = '\n'
    · rw [if_pos (hnl.2 h), if_pos h]
    · rw [if_neg (fun h' => h (hnl.1 h')), if_neg h]
      by_cases ht : c = '\t'
      · rw [if_pos (htab.2 ht), if_pos ht]
        have : l.tcol / 8 = tcolAfter pre / 8 := by
          unfold PosN at hp
          split at hp
          · rename_i heq; simp only [List.cons.injEq] at heq; exact absurd heq.1 h
          · exact hp.2
          · rw [hp.tcol]
        omega
      · rw [if_neg (fun h' => ht (htab.1 h')), if_neg ht]
        have : l.tcol = tcolAfter pre := by
          unfold PosN at hp
          split at hp
          · rename_i heq; simp only [List.cons.injEq] at heq; exact absurd heq.1 h
          · rename_i heq; simp only [List.cons.injEq] at heq; exact absurd heq.1 ht
          · exact hp.tcol
        rw [this]

/-- `backup`'s bookkeeping -/
theorem backup_pos (l : Lexer) (h : l.width ≤ l.before.length) (hw : 0 < l.width) :
    (backup l).line = (if l.col - 1 < 0 then l.line - 1 else l.line) ∧
    (backup l).col = (if l.col - 1 < 0 then 0 else l.col - 1) ∧
    (backup l).tcol = (if l.col - 1 < 0 then 0 else l.tcol - 1) := by
  unfold backup Lexer.pos
  rw [if_neg (by omega)]
  simp only
  rw [if_pos hw]
  split <;> exact ⟨rfl, rfl, rfl⟩

theorem backup_zero (l : Lexer) (hw : l.width = 0) :
    (backup l).line = l.line ∧ (backup l).col = l.col ∧ (backup l).tcol = l.tcol := by
  unfold backup Lexer.pos
  rw [if_neg (by omega)]
  simp only
  rw [if_neg (by omega)]
  exact ⟨rfl, rfl, rfl⟩

theorem colAfter_nonneg (pre : List Char) : 0 ≤ colAfter pre := by unfold colAfter; omega
theorem tcolAfter_nonneg (pre : List Char) : 0 ≤ tcolAfter pre := by unfold tcolAfter; omega

/-- looking at the next character: the cursor is where it was, `col`/`tcol` up to `PosN` -/
theorem peek_char (l : Lexer) (pre suf : List Char) (c : Char) (hc : Cur l pre (c :: suf)) (hp : Pos l pre) :
    (peek l).1 = c.toNat ∧ Cur (peek l).2 pre (c :: suf) ∧ PosN (peek l).2 pre (c :: suf) ∧
    Frame l (peek l).2 := by
  obtain ⟨n1, n2, n3, n4, n5⟩ := next_char l pre suf c hc (hp.posN _)
  obtain ⟨b1, b2, b3⟩ := backup_next l
  have hw : 0 < (next l).2.width := by rw [n4]; exact encChar_length_pos c
  have hle : (next l).2.width ≤ (next l).2.before.length := by
    have := next_move l; omega
  obtain ⟨q1, q2, q3⟩ := backup_pos (next l).2 hle hw
  have hcol := colAfter_snoc pre c
  have htcol := tcolAfter_snoc pre c
  have hline := lineAfter_snoc pre c
  have hc0 := colAfter_nonneg pre
  have ht0 := tcolAfter_nonneg pre
  rw [n3.col] at q1 q2 q3
  rw [n3.tcol] at q3
  rw [n2.line] at q1
  refine ⟨n1, ⟨?_, ?_, ?_⟩, ?_, b3⟩
  · show (backup (next l).2).before = _
    rw [b1, hc.before]
  · show (backup (next l).2).rest = _
    rw [b2, hc.rest]
  · show (backup (next l).2).line = _
    rw [q1, hcol, hline]
    by_cases h : c = '\n'
    · rw [if_pos h, if_pos h, if_pos (by omega)]; omega
    · rw [if_neg h, if_neg h, if_neg (by omega)]
  · show PosN (backup (next l).2) pre (c :: suf)
    unfold PosN
    split
    · trivial
    · rename_i heq
      simp only [List.cons.injEq] at heq
      have h1 : c ≠ '\n' := by rw [heq.1]; decide
      rw [hcol, if_neg h1] at q2 q3
      rw [htcol, if_neg h1, if_pos heq.1] at q3
      rw [if_neg (by omega)] at q2 q3
      rw [q2, q3]
      constructor
      · omega
      · omega
    · rename_i h1 h2
      have hn : c ≠ '\n' := fun h => h1 suf (by rw [h])
      have ht : c ≠ '\t' := fun h => h2 suf (by rw [h])
      rw [hcol, if_neg hn] at q2 q3
      rw [htcol, if_neg hn, if_neg ht] at q3
      rw [if_neg (by omega)] at q2 q3
      exact ⟨by rw [q2]; omega, by rw [q3]; omega⟩

/-- looking at the end of the input changes nothing -/
theorem peek_eof (l : Lexer) (pre : List Char) (hc : Cur l pre []) :
    (peek l).1 = eofRune ∧ Cur (peek l).2 pre [] ∧ (peek l).2.col = l.col ∧ (peek l).2.tcol = l.tcol ∧
    Frame l (peek l).2 := by
  have hr : l.rest = [] := by rw [hc.rest]; rfl
  obtain ⟨b1, b2, b3⟩ := backup_next l
  have hn := next_nil l hr
  have hz := backup_zero (next l).2 (by rw [hn])
  refine ⟨by show (next l).1 = _; rw [hn], ⟨?_, ?_, ?_⟩, ?_, ?_, b3⟩
  · show (backup (next l).2).before = _; rw [b1, hc.before]
  · show (backup (next l).2).rest = _; rw [b2, hc.rest]
  · show (backup (next l).2).line = _; rw [hz.1, hn]; exact hc.line
  · show (backup (next l).2).col = _; rw [hz.2.1, hn]
  · show (backup (next l).2).tcol = _; rw [hz.2.2, hn]

/-! ## white space -/

theorem isSpaceRune_char (c : Char) : isSpaceRune c.toNat = isSpace c := by
  unfold isSpaceRune isSpace
  have h1 : (c.toNat = 32) = (c = ' ') := propext (toNat_eq_iff c ' ')
  have h2 : (c.toNat = 9) = (c = '\t') := propext (toNat_eq_iff c '\t')
  have h3 : (c.toNat = 13) = (c = '\r') := propext (toNat_eq_iff c '\r')
  have h4 : (c.toNat = 10) = (c = '\n') := propext (toNat_eq_iff c '\n')
  simp only [h1, h2, h3, h4]

theorem encodeChars_length_cons (c : Char) (cs : List Char) :
    (encodeChars cs).length + 1 ≤ (encodeChars (c :: cs)).length := by
  rw [encodeChars_cons, List.length_append]
  have := encChar_length_pos c
  omega

theorem acceptRunLoop_chars (suf' : List Char) (hs : ∀ c r, suf' = c :: r → isSpace c = false) :
    ∀ (bl : List Char), (∀ x ∈ bl, isSpace x = true) → ∀ (f : Nat) (ret : Bool) (l : Lexer) (pre : List Char),
    Cur l pre (bl ++ suf') → PosN l pre (bl ++ suf') → (encodeChars (bl ++ suf')).length + 1 ≤ f →
    ∃ l0, (acceptRunLoop f ret l).2 = (next l0).2 ∧ Cur l0 (pre ++ bl) suf' ∧ PosN l0 (pre ++ bl) suf' ∧
      Frame l l0 := by
  intro bl
  induction bl with
  | nil =>
    intro _ f ret l pre hc hp hf
    obtain ⟨f, rfl⟩ : ∃ f', f = f' + 1 := ⟨f - 1, by omega⟩
    refine ⟨l, ?_, by simpa using hc, by simpa using hp, Frame.refl l⟩
    unfold acceptRunLoop
    simp only
    cases suf' with
    | nil =>
      have hr : l.rest = [] := by rw [hc.rest]; rfl
      rw [next_nil l hr]
      simp [isSpaceRune, eofRune]
    | cons c r =>
      have h1 := (next_char l pre r c (by simpa using hc) (by simpa using hp)).1
      rw [h1, isSpaceRune_char, hs c r rfl]
      simp
  | cons b bl ih =>
    intro hbl f ret l pre hc hp hf
    obtain ⟨f, rfl⟩ : ∃ f', f = f' + 1 := ⟨f - 1, by omega⟩
    obtain ⟨n1, n2, n3, n4, n5⟩ := next_char l pre (bl ++ suf') b (by simpa using hc) (by simpa using hp)
    unfold acceptRunLoop
    simp only
    rw [n1, isSpaceRune_char, hbl b (by simp)]
    simp only [if_true]
    have hlen := encodeChars_length_cons b (bl ++ suf')
    obtain ⟨l0, h1, h2, h3, h4⟩ := ih (fun x hx => hbl x (by simp [hx])) f true (next l).2 (pre ++ [b]) n2
      (n3.posN _) (by simp only [List.cons_append] at hf; omega)
    exact ⟨l0, h1, by simpa using h2, by simpa using h3, n5.trans h4⟩

/-- `acceptRun` skips exactly the leading white space -/
theorem acceptRun_chars (l : Lexer) (pre bl suf' : List Char) (hbl : ∀ x ∈ bl, isSpace x = true)
    (hs : ∀ c r, suf' = c :: r → isSpace c = false) (hc : Cur l pre (bl ++ suf')) (hp : PosN l pre (bl ++ suf')) :
    Cur (acceptRun l).2 (pre ++ bl) suf' ∧ Pos (acceptRun l).2 (pre ++ bl) ∧ Frame l (acceptRun l).2 := by
  obtain ⟨l0, h1, h2, h3, h4⟩ := acceptRunLoop_chars suf' hs bl hbl (l.rest.length + 1) false l pre hc hp
    (by rw [hc.rest]; exact Nat.le_refl _)
  have hpk : (acceptRun l).2 = (peek l0).2 := by
    unfold acceptRun peek
    simp only
    rw [h1]
  rw [hpk]
  cases suf' with
  | nil =>
    obtain ⟨p1, p2, p3, p4, p5⟩ := peek_eof l0 (pre ++ bl) h2
    have hp0 : Pos l0 (pre ++ bl) := h3
    exact ⟨p2, ⟨by rw [p3]; exact hp0.col, by rw [p4]; exact hp0.tcol⟩, h4.trans p5⟩
  | cons c r =>
    have hns := hs c r rfl
    have hcn : c ≠ '\n' := by intro h; rw [h] at hns; simp [isSpace] at hns
    have hct : c ≠ '\t' := by intro h; rw [h] at hns; simp [isSpace] at hns
    have hp0 : Pos l0 (pre ++ bl) := by
      unfold PosN at h3
      split at h3
      · rename_i heq; simp only [List.cons.injEq] at heq; exact absurd heq.1 hcn
      · rename_i heq; simp only [List.cons.injEq] at heq; exact absurd heq.1 hct
      · exact h3
    obtain ⟨p1, p2, p3, p4⟩ := peek_char l0 (pre ++ bl) r c h2 hp0
    have hp1 : Pos (peek l0).2 (pre ++ bl) := by
      unfold PosN at p3
      split at p3
      · rename_i heq; simp only [List.cons.injEq] at heq; exact absurd heq.1 hcn
      · rename_i heq; simp only [List.cons.injEq] at heq; exact absurd heq.1 hct
      · exact p3
    exact ⟨p2, hp1, h4.trans p4⟩

/-! ## searching and bulk moves -/

theorem indexOf_single_skip (b : UInt8) : ∀ (p q : List UInt8), b ∉ p →
    indexOf [b] (p ++ q) = (indexOf [b] q).map (· + p.length) := by
  intro p
  induction p with
  | nil => intro q _; simp
  | cons x p ih =>
    intro q h
    have hx : x ≠ b := fun he => h (by rw [he]; simp)
    have hp : b ∉ p := fun hm => h (by simp [hm])
    simp only [List.cons_append, indexOf, List.isPrefixOf, List.length_cons]
    have : (b == x) = false := by simp [Ne.symm hx]
    simp only [this, Bool.false_and, Bool.false_eq_true, if_false]
    rw [ih q hp]
    cases indexOf [b] q <;> simp; omega

theorem indexOf_single_hit (b : UInt8) (q : List UInt8) : indexOf [b] (b :: q) = some 0 := by
  simp [indexOf, List.isPrefixOf]

theorem indexOf_single_none (b : UInt8) : ∀ (p : List UInt8), b ∉ p → indexOf [b] p = none := by
  intro p
  induction p with
  | nil => intro _; simp [indexOf]
  | cons x p ih =>
    intro h
    have hx : x ≠ b := fun he => h (by rw [he]; simp)
    have hp : b ∉ p := fun hm => h (by simp [hm])
    simp only [indexOf, List.isPrefixOf]
    have : (b == x) = false := by simp [Ne.symm hx]
    simp only [this, Bool.false_and, Bool.false_eq_true, if_false]
    rw [ih hp]; rfl

/-- searching an ASCII character in an encoded text -/
theorem indexOf_char (c : Char) (hc : c.toNat ≤ 127) (s r : List Char) (hs : c ∉ s) :
    indexOf [UInt8.ofNat c.toNat] (encodeChars (s ++ c :: r)) = some (encodeChars s).length := by
  rw [encodeChars_append, encodeChars_cons, encChar_ascii c hc]
  rw [indexOf_single_skip _ _ _ (not_mem_encodeChars s c hc hs)]
  simp only [List.cons_append, List.nil_append, indexOf_single_hit, Option.map_some, Nat.zero_add]

theorem indexOf_char_none (c : Char) (hc : c.toNat ≤ 127) (s : List Char) (hs : c ∉ s) :
    indexOf [UInt8.ofNat c.toNat] (encodeChars s) = none :=
  indexOf_single_none _ _ (not_mem_encodeChars s c hc hs)

theorem count_nl_enc (s : List Char) : (encodeChars s).count 10 = s.count '\n' := by
  induction s with
  | nil => rfl
  | cons d r ih =>
    rw [encodeChars_cons, List.count_append, ih, List.count_cons]
    by_cases hd : d = '\n'
    · subst hd
      have : encChar '\n' = [10] := by decide
      rw [this]; simp; omega
    · have : (10 : UInt8) ∉ encChar d := not_mem_encChar d '\n' (by decide) hd
      rw [List.count_eq_zero_of_not_mem this]
      simp [hd]

theorem encodeChars_reverse (r : List Char) :
    (encodeChars r.reverse).reverse = r.flatMap (fun c => (encChar c).reverse) := by
  induction r with
  | nil => rfl
  | cons d r ih =>
    rw [List.reverse_cons, encodeChars_append, List.reverse_append, ih]
    simp [encodeChars, encChar]

theorem takeWhile_enc_rev (r : List Char) :
    (r.flatMap (fun c => (encChar c).reverse)).takeWhile (· != 10) =
      (r.takeWhile (· != '\n')).flatMap (fun c => (encChar c).reverse) := by
  induction r with
  | nil => rfl
  | cons d r ih =>
    rw [List.flatMap_cons, List.takeWhile_cons]
    by_cases hd : d = '\n'
    · subst hd
      have : encChar '\n' = [10] := by decide
      rw [this]
      simp
    · rw [if_pos (by simpa using hd), List.flatMap_cons]
      have hnm : (10 : UInt8) ∉ encChar d := not_mem_encChar d '\n' (by decide) hd
      have hall : ∀ x ∈ (encChar d).reverse, (x != 10) = true := by
        intro x hx
        have : x ∈ encChar d := by simpa using hx
        simp only [bne_iff_ne, ne_eq]
        intro he; rw [he] at this; exact hnm this
      rw [List.takeWhile_append_of_pos hall, ih]

theorem afterLastNL_enc (s : List Char) : afterLastNL (encodeChars s) = encodeChars (lastLine s) := by
  unfold afterLastNL lastLine
  have h1 := encodeChars_reverse s.reverse
  rw [List.reverse_reverse] at h1
  rw [h1, takeWhile_enc_rev, ← encodeChars_reverse, List.reverse_reverse]

end Goyang.Lemmas.LexSim
