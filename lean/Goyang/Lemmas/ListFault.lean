/-
`Stuck` (`Goyang/Spec/Fault.lean`) is sound for the parser model over the list source: the FIRST
error line the run writes is the one `Stuck` names (`stuck_sound`).
-/
import Goyang.Lemmas.ListSrc
import Goyang.Lemmas.HeadSim
import Goyang.Spec.Fault

namespace Goyang.Lemmas.ListFault
open Goyang.Model.Lex (Token Code ErrLine ErrClass Fault)
open Goyang.Model.Parse
open Goyang.Spec.Parse Goyang.Spec.Fault
open Goyang.Lemmas.ListSrc Goyang.Lemmas.HeadSim
open Goyang.Lemmas.QStr (validEsc)

/-- the class of error line the model writes for a fault of kind `k` -/
def faultClass : FaultKind → ErrClass
  | .unexpectedRBrace => .unexpectedRBrace
  | .missingSemi => .expectedSemiOrBrace
  | .quotedKeyword => .keywordNotUnquoted
  | .badEscape => .invalidEscape
  | .unterminatedSQuote => .missingSQuote
  | .unterminatedDQuote => .missingDQuote
  | .unterminatedComment => .missingCommentEnd

/-- the error line for a fault of kind `k` at offset `off`: position computed from the text alone -/
def faultErr (text : List Char) (file : List UInt8) (k : FaultKind) (off : Nat) : ErrLine :=
  { file := file, pos := some (((lineOf text off : Nat) : Int), ((colOf text off : Nat) : Int)), cls := faultClass k }

/-- errs are only appended by `lpull` and `addErr` -/
theorem listSource_hmono : HMono listSource where
  pull := by
    intro e b s h
    have h' : s.errs.head? = some e := h
    show (lpull b s).2.errs.head? = some e
    unfold lpull
    cases hs : s.errs with
    | nil => rw [hs] at h'; cases h'
    | cons a r =>
      rw [hs] at h'
      simp only [List.head?_cons, Option.some.injEq] at h'
      subst h'
      split
      · split <;> simp [hs]
      · split <;> simp
  add := by
    intro e' e s h
    have h' : s.errs.head? = some e := h
    show (s.errs ++ [e']).head? = some e
    cases hs : s.errs with
    | nil => rw [hs] at h'; cases h'
    | cons a r => rw [hs] at h'; simpa using h'
  addNil := by
    intro e s h
    have h' : s.errs = [] := h
    show (s.errs ++ [e]).head? = some e
    rw [h']; rfl

/-- what is claimed of the state `p'` the run ends in, started in `p` -/
def Concl (text : List Char) (file : List UInt8) (w : Where) (p p' : P) : Prop :=
  match w with
  | .fault k off => p.src.tail = none → p'.src.errs.head? = some (faultErr text file k off)
  | .endOfTokens => ∀ e, p.src.tail = some e → p'.src.errs.head? = some e

theorem concl_of_head (text : List Char) (file : List UInt8) (w : Where) (p p1 p2 : P)
    (h : Concl text file w p p1) (hp : ∀ e, HasHead LS e p1 → HasHead LS e p2) : Concl text file w p p2 := by
  cases w with
  | fault k off => exact fun ht => hp _ (h ht)
  | endOfTokens => exact fun e ht => hp _ (h e ht)

theorem concl_tail (text : List Char) (file : List UInt8) (w : Where) (p q p' : P) (ht : q.src.tail = p.src.tail)
    (h : Concl text file w q p') : Concl text file w p p' := by
  cases w with
  | fault k off => exact fun h0 => h (ht.trans h0)
  | endOfTokens => exact fun e h0 => h e (ht.trans h0)

/-! ## positions and error lines -/

theorem lineOf_ne_zero (text : List Char) (off : Nat) : ((lineOf text off : Nat) : Int) ≠ 0 := by
  unfold lineOf; omega

theorem tokenErr_eq (text : List Char) (file : List UInt8) (T : Token) (off : Nat) (k : FaultKind)
    (hfile : T.file = file) (hl : T.line = lineOf text off) (hc : T.col = colOf text off) :
    tokenErr T (faultClass k) = faultErr text file k off := by
  unfold tokenErr faultErr
  rw [hfile, hl, hc, if_pos (lineOf_ne_zero text off)]

theorem addErr_clean_head (e : ErrLine) (p : P) (h : p.src.errs = []) : HasHead LS e (addErr LS e p) := by
  show (addErr LS e p).src.errs.head? = some e
  rw [(addErr_fields e p).1, h]; rfl

theorem undefinedPair_eq (q : QItem) : undefinedPair q = !validEsc q := by
  cases q <;> simp [undefinedPair, validEsc]

theorem any_undefined (raw : List QItem) : raw.any undefinedPair = !raw.all validEsc := by
  induction raw with
  | nil => rfl
  | cons q r ih => simp [List.any_cons, List.all_cons, ih, undefinedPair_eq]

theorem badEsc_of_not_undefined (b : Bool) (t : PTok) (h : hasUndefined t = false) : badEsc b t = false := by
  obtain ⟨tok, off⟩ := t
  cases tok <;> simp [badEsc, hasUndefined] at h ⊢
  rename_i raw
  intro _ x hx
  cases hv : validEsc x with
  | true => rfl
  | false =>
    have := h x hx
    rw [undefinedPair_eq, hv] at this
    cases this

theorem badEsc_of_undefined (t : PTok) (h : hasUndefined t = true) : badEsc false t = true := by
  obtain ⟨tok, off⟩ := t
  cases tok <;> simp [badEsc, hasUndefined] at h ⊢
  obtain ⟨x, hx, hu⟩ := h
  exact ⟨x, hx, by rw [undefinedPair_eq] at hu; simpa using hu⟩

theorem badEsc_true_pattern (t : PTok) : badEsc true t = false := by
  obtain ⟨tok, off⟩ := t
  cases tok <;> simp [badEsc]

theorem firstBadOff_eq : ∀ raw : List QItem, firstBadOff raw = undefinedAt raw
  | [] => rfl
  | .lit c :: r => by simp [firstBadOff, undefinedAt, firstBadOff_eq r]
  | .esc c :: r => by
    simp only [firstBadOff, undefinedAt, undefinedPair_eq]
    cases h : validEsc (.esc c) <;> simp [firstBadOff_eq r]

theorem escErr_eq (text : List Char) (file : List UInt8) (x : PTok) (raw : List QItem) (hx : x.tok = .dq raw) :
    escErr text file x = faultErr text file .badEscape (x.off + 1 + undefinedAt raw) := by
  unfold escErr faultErr
  rw [hx]
  simp only [firstBadOff_eq, faultClass]

/-! ## fetching from the list, with the first error tracked -/

/-- pulling a harmless token -/
theorem pullTok_at (text : List Char) (file : List UInt8) (b : Bool) (p : P) (t : PTok) (ts : List PTok)
    (hat : At text file p (t :: ts)) (hb : badEsc b t = false) :
    (pullTok LS b p).1 = some (conv text file t) ∧ At text file (pullTok LS b p).2 ts ∧
    (pullTok LS b p).2.src.tail = p.src.tail ∧ (pullTok LS b p).2.depth = p.depth := by
  obtain ⟨h1, h2, h3, h4, h5, h6, h7, h8, h9, _⟩ := pullTok_cons b p t ts hat.toks
  refine ⟨by rw [h1, hat.text, hat.file], ⟨h2.trans hat.stack, h5, (h9 hb).trans hat.clean, h4.trans hat.fault,
    h6.trans hat.text, h7.trans hat.file⟩, h8, h3⟩

/-- pulling a token with an undefined pair outside pattern mode writes the first error -/
theorem pullTok_bad_head (text : List Char) (file : List UInt8) (b : Bool) (p : P) (t : PTok) (ts : List PTok)
    (hat : At text file p (t :: ts)) (hb : badEsc b t = true) :
    HasHead LS (escErr text file t) (pullTok LS b p).2 := by
  show (pullTok LS b p).2.src.errs.head? = _
  rw [pullTok_eq]
  unfold lpull
  rw [hat.toks]
  simp [hb, hat.clean, hat.text, hat.file]

/-- pulling at the end of the tokens writes the lexer's report as the first error -/
theorem pullTok_nil_head (text : List Char) (file : List UInt8) (b : Bool) (p : P) (hat : At text file p [])
    (e : ErrLine) (ht : p.src.tail = some e) : HasHead LS e (pullTok LS b p).2 := by
  show (pullTok LS b p).2.src.errs.head? = _
  rw [pullTok_eq]
  unfold lpull
  rw [hat.toks]
  simp [ht, hat.clean]

theorem pullTok_nil_clean (text : List Char) (file : List UInt8) (b : Bool) (p : P) (hat : At text file p [])
    (ht : p.src.tail = none) : (pullTok LS b p).1 = none ∧ (pullTok LS b p).2.src.errs = [] := by
  obtain ⟨h1, _, _, _, _, _, _, h8, _⟩ := pullTok_nil b p hat.toks
  exact ⟨h1, (h8 ht).1.trans hat.clean⟩

theorem next_nil_head (text : List Char) (file : List UInt8) (b : Bool) (f : Nat) (p : P) (hat : At text file p [])
    (e : ErrLine) (ht : p.src.tail = some e) : HasHead LS e (next LS b f p).2 :=
  next_head_of_pull listSource_hmono e b f p hat.stack (pullTok_nil_head text file b p hat e ht)

/-- `next` when a string token is pulled -/
theorem next_pull_string (b : Bool) (f : Nat) (p : P) (T : Token) (ht : p.tokens = [])
    (h1 : (pullTok LS b p).1 = some T) (hs : T.code = Code.string) :
    next LS b f p = (some (concatLoop LS b f T (pullTok LS b p).2).1, (concatLoop LS b f T (pullTok LS b p).2).2) := by
  unfold next
  rw [ht]
  simp only
  rw [h1]
  simp only
  rw [if_pos hs]

theorem conv_string (text : List Char) (file : List UInt8) (t : PTok) (hq : t.tok.isQuoted = true) :
    (conv text file t).code = Code.string := by
  rw [conv_code]; exact (tokCode_string t.tok).2 hq

theorem plus_not_quoted (t : PTok) (h : t.tok = .unq ['+']) : t.tok.isQuoted = false := by rw [h]; rfl

theorem conv_plus_code (text : List Char) (file : List UInt8) (t : PTok) (h : t.tok = .unq ['+']) :
    (conv text file t).code = Code.unquoted ∧ (conv text file t).text = [43] := by
  have hc : (conv text file t).code = Code.unquoted := by rw [conv_code, h]; rfl
  exact ⟨hc, (conv_plus text file t hc).2 h⟩

/-- one turn of the concatenation loop: `+` and a quoted piece -/
theorem concatLoop_plus_quoted (text : List Char) (file : List UInt8) (b : Bool) (f : Nat) (T : Token) (p : P)
    (pl q : PTok) (ts : List PTok) (htoks : p.src.toks = pl :: q :: ts) (htext : p.src.text = text)
    (hfile : p.src.file = file) (hp : pl.tok = .unq ['+']) (hq : q.tok.isQuoted = true) :
    concatLoop LS b (f + 1) T p =
      concatLoop LS b f { T with text := T.text ++ (conv text file q).text } (pullTok LS b (pullTok LS b p).2).2 := by
  rw [concatLoop]
  simp only
  obtain ⟨h1, _, _, _, h5, h6, h7, _⟩ := pullTok_cons b p pl (q :: ts) htoks
  obtain ⟨g1, _⟩ := pullTok_cons b (pullTok LS b p).2 q ts h5
  obtain ⟨c1, c2⟩ := conv_plus_code text file pl hp
  rw [h1]
  simp only
  rw [htext, hfile, if_pos c1, if_neg (by simpa using c2), g1]
  simp only
  rw [h6, h7, htext, hfile, if_pos (conv_string text file q hq)]

/-! ## the look-ahead writes nothing -/

theorem head_mem_lookahead (t : PTok) (ts : List PTok) : t ∈ lookahead (t :: ts) := by
  cases ts with
  | nil => simp [lookahead]
  | cons q r =>
    simp only [lookahead]
    split
    · split <;> simp
    · simp

theorem concatLoop_clean (text : List Char) (file : List UInt8) (b : Bool) :
    ∀ (f : Nat) (ts : List PTok) (T : Token) (p : P), At text file p ts → ts.length + 1 ≤ f → p.src.tail = none →
    (∀ x ∈ lookahead ts, badEsc b x = false) → (concatLoop LS b f T p).2.src.errs = [] := by
  intro f
  induction f with
  | zero => intro ts T p _ h; omega
  | succ f ih =>
    intro ts T p hat hf htail hla
    cases ts with
    | nil =>
      unfold concatLoop
      simp only
      obtain ⟨h1, h2⟩ := pullTok_nil_clean text file b p hat htail
      rw [h1]
      exact h2
    | cons nt ts1 =>
      obtain ⟨h1, h2, h3, h4⟩ := pullTok_at text file b p nt ts1 hat (hla nt (head_mem_lookahead nt ts1))
      by_cases hplus : nt.tok = .unq ['+']
      · obtain ⟨c1, c2⟩ := conv_plus_code text file nt hplus
        cases ts1 with
        | nil =>
          unfold concatLoop
          simp only
          rw [h1]
          simp only
          rw [if_pos c1, if_neg (by simpa using c2)]
          obtain ⟨g1, g2⟩ := pullTok_nil_clean text file b _ h2 (h3.trans htail)
          rw [g1]
          simp only
          rw [(push_fields _ _).1]
          exact g2
        | cons nnt ts2 =>
          have hnnt : badEsc b nnt = false := by
            apply hla
            simp only [lookahead, hplus, if_true]
            split <;> simp
          obtain ⟨g1, g2, g3, g4⟩ := pullTok_at text file b _ nnt ts2 h2 hnnt
          cases hq : nnt.tok.isQuoted with
          | true =>
            rw [concatLoop_plus_quoted text file b f T p nt nnt ts2 hat.toks hat.text hat.file hplus hq]
            apply ih ts2 _ _ g2 (by simp only [List.length_cons] at hf; omega) (g3.trans (h3.trans htail))
            intro x hx
            apply hla
            simp only [lookahead, hplus, if_true, hq]
            simp [hx]
          | false =>
            unfold concatLoop
            simp only
            rw [h1]
            simp only
            rw [if_pos c1, if_neg (by simpa using c2), g1]
            simp only
            rw [if_neg (by rw [conv_code, tokCode_string, hq]; simp)]
            rw [(push_fields _ _).1]
            exact g2.clean
      · unfold concatLoop
        simp only
        rw [h1]
        simp only
        by_cases hcode : (conv text file nt).code = Code.unquoted
        · rw [if_pos hcode, if_pos (by
            intro h; exact hplus ((conv_plus text file nt hcode).1 h))]
          rw [(push_fields _ _).1]
          exact h2.clean
        · rw [if_neg hcode, (push_fields _ _).1]
          exact h2.clean

/-- fetching a quoted string whose look-ahead is harmless writes nothing -/
theorem next_quoted_clean (text : List Char) (file : List UInt8) (b : Bool) (f : Nat) (p : P) (t : PTok)
    (ts : List PTok) (hat : At text file p (t :: ts)) (hq : t.tok.isQuoted = true) (hf : ts.length + 1 ≤ f)
    (htail : p.src.tail = none) (hb : ∀ x ∈ t :: lookahead ts, badEsc b x = false) :
    (next LS b f p).2.src.errs = [] := by
  obtain ⟨h1, h2, h3, h4⟩ := pullTok_at text file b p t ts hat (hb t (by simp))
  rw [next_pull_string b f p _ hat.stack h1 (conv_string text file t hq)]
  exact concatLoop_clean text file b f ts _ _ h2 hf (h3.trans htail) (fun x hx => hb x (by simp [hx]))

/-- if the reference reader gets through the pieces behind a quoted token and the token that
follows them is harmless, the look-ahead is harmless -/
theorem lookahead_harmless (text : List Char) (file : List UInt8) (b : Bool) : ∀ (n : Nat) (ts : List PTok),
    ts.length ≤ n → (∀ x ∈ ts, okTok x) → ∀ v e rest, concatTail text b ts = some (v, e :: rest) →
    badEsc b e = false → ∀ x ∈ lookahead ts, badEsc b x = false := by
  intro n
  induction n with
  | zero =>
    intro ts h _ v e rest hc
    have : ts = [] := List.eq_nil_of_length_eq_zero (by omega)
    subst this
    simp [concatTail] at hc
  | succ n ih =>
    intro ts h hadm v e rest hc he x hx
    cases ts with
    | nil => simp [concatTail] at hc
    | cons pl ts1 =>
      cases ts1 with
      | nil =>
        simp only [concatTail, Option.some.injEq, Prod.mk.injEq, List.cons.injEq] at hc
        simp only [lookahead, List.mem_singleton] at hx
        rw [hx, hc.2.1]; exact he
      | cons q ts2 =>
        by_cases hplus : pl.tok = .unq ['+']
        · cases hq : q.tok.isQuoted with
          | false =>
            rw [concatTail_plus_other text b pl q ts2 hq] at hc
            simp only [Option.some.injEq, Prod.mk.injEq, List.cons.injEq] at hc
            simp only [lookahead, hplus, if_true, hq] at hx
            simp at hx
            rcases hx with hx | hx
            · rw [hx]; exact badEsc_not_quoted b pl (plus_not_quoted pl hplus)
            · rw [hx]; exact badEsc_not_quoted b q hq
          | true =>
            simp only [lookahead, hplus, if_true, hq] at hx
            obtain ⟨pb, pg⟩ := piece_spec text file b q hq (hadm q (by simp))
            cases hbq : badEsc b q with
            | true =>
              rw [concatTail_plus_quoted_none text b pl q ts2 hplus hq (Or.inl (pb hbq))] at hc
              cases hc
            | false =>
              cases hct : concatTail text b ts2 with
              | none =>
                rw [concatTail_plus_quoted_none text b pl q ts2 hplus hq (Or.inr hct)] at hc
                cases hc
              | some vr =>
                obtain ⟨v', r'⟩ := vr
                obtain ⟨v1, hv1, _⟩ := pg hbq
                rw [concatTail_plus_quoted_some text b pl q ts2 hplus hq v1 v' r' hv1 hct] at hc
                simp only [Option.some.injEq, Prod.mk.injEq] at hc
                simp only [List.mem_cons] at hx
                rcases hx with hx | hx | hx
                · rw [hx]; exact badEsc_not_quoted b pl (plus_not_quoted pl hplus)
                · rw [hx]; exact hbq
                · exact ih ts2 (by simp only [List.length_cons] at h; omega) (fun y hy => hadm y (by simp [hy]))
                    v' e rest (by rw [hct, hc.2]) he x hx
        · rw [concatTail_not_plus text b pl (q :: ts2) hplus] at hc
          simp only [Option.some.injEq, Prod.mk.injEq, List.cons.injEq] at hc
          simp only [lookahead, hplus, if_false] at hx
          simp at hx
          rw [hx, hc.2.1]; exact he

/-! ## the loops -/

theorem top_rbrace (text : List Char) (file : List UInt8) (t : PTok) (ts : List PTok) (ht : t.tok = .rbrace)
    (f : Nat) (acc : List Statement) (p : P) (hat : At text file p (t :: ts)) (hf : (t :: ts).length + 2 ≤ f) :
    Concl text file (.fault .unexpectedRBrace t.off) p (topLoop LS f acc p).2 := by
  obtain ⟨f, rfl⟩ : ∃ f', f = f' + 1 := ⟨f - 1, by omega⟩
  simp only [List.length_cons] at hf
  unfold topLoop
  simp only
  obtain ⟨f, rfl⟩ : ∃ f', f = f' + 1 := ⟨f - 1, by omega⟩
  obtain ⟨n1, n2, n3, n4⟩ := nextStatement_rbrace text file f p t ts hat ht
  rw [n1]
  simp only
  intro _
  exact topLoop_head listSource_hmono _ _ _ _ (addErr_clean_head _ _ n2.clean)

theorem top_first (text : List Char) (file : List UInt8) (toks : List PTok) (w : Where)
    (ih : ∀ (f : Nat) (p : P), At text file p toks → toks.length + 1 ≤ f → Concl text file w p (nextStatement LS f p).2)
    (f : Nat) (acc : List Statement) (p : P) (hat : At text file p toks) (hf : toks.length + 2 ≤ f) :
    Concl text file w p (topLoop LS f acc p).2 := by
  obtain ⟨f, rfl⟩ : ∃ f', f = f' + 1 := ⟨f - 1, by omega⟩
  unfold topLoop
  simp only
  apply concl_of_head text file w p (nextStatement LS f p).2 _ (ih f p hat (by omega))
  intro e he
  split
  · exact he
  · exact topLoop_head listSource_hmono e _ _ _ (addErr_head listSource_hmono e _ _ he)
  · exact topLoop_head listSource_hmono e _ _ _ he

theorem block_first (text : List Char) (file : List UInt8) (toks : List PTok) (w : Where)
    (ih : ∀ (f : Nat) (p : P), At text file p toks → toks.length + 1 ≤ f → Concl text file w p (nextStatement LS f p).2)
    (f : Nat) (acc : List Statement) (p : P) (hat : At text file p toks) (hf : toks.length + 2 ≤ f) :
    Concl text file w p (blockLoop LS f acc p).2 := by
  obtain ⟨f, rfl⟩ : ∃ f', f = f' + 1 := ⟨f - 1, by omega⟩
  unfold blockLoop
  simp only
  apply concl_of_head text file w p (nextStatement LS f p).2 _ (ih f p hat (by omega))
  intro e he
  split
  · exact he
  · exact he
  · exact (stmt_block_head listSource_hmono e f).2 _ _ he

/-- the first statement is read by the reference reader: the model reads it too and goes on -/
theorem stmt_read (text : List Char) (file : List UInt8) (t : PTok) (ts : List PTok) (s : Stmt) (rest : List PTok)
    (hnr : t.tok ≠ .rbrace) (hs : stmt text (ts.length + 1) (t :: ts) = some (s, rest))
    (hadm : ∀ x ∈ t :: ts, okTok x) (f : Nat) (p : P) (hat : At text file p (t :: ts)) (hf : (t :: ts).length + 1 ≤ f) :
    (nextStatement LS f p).1 = .stmt (encStmt file s) ∧ At text file (nextStatement LS f p).2 rest ∧
    (nextStatement LS f p).2.src.tail = p.src.tail := by
  have hsp := (stmt_block_spec text file (ts.length + 1)).1 (t :: ts) (by simp) t ts rfl hnr f (ts.length + 1) p hat
    hf (by simp) hadm
  rcases hsp with ⟨s', rest', hs', h1, h2, h3, h4⟩ | ⟨_, hn⟩ | ⟨_, _, _, _, _, hn, _⟩
  · rw [hs] at hs'
    simp only [Option.some.injEq, Prod.mk.injEq] at hs'
    obtain ⟨e1, e2⟩ := hs'
    subst e1 e2
    exact ⟨h1, h2, h4⟩
  · rw [hs] at hn; cases hn
  · rw [hs] at hn; cases hn

theorem top_later (text : List Char) (file : List UInt8) (t : PTok) (ts : List PTok) (s : Stmt) (rest : List PTok)
    (w : Where) (hnr : t.tok ≠ .rbrace) (hs : stmt text (ts.length + 1) (t :: ts) = some (s, rest))
    (hadm : ∀ x ∈ t :: ts, okTok x)
    (ih : ∀ (f : Nat) (acc : List Statement) (p : P), At text file p rest → rest.length + 2 ≤ f →
      Concl text file w p (topLoop LS f acc p).2)
    (f : Nat) (acc : List Statement) (p : P) (hat : At text file p (t :: ts)) (hf : (t :: ts).length + 2 ≤ f) :
    Concl text file w p (topLoop LS f acc p).2 := by
  obtain ⟨f, rfl⟩ : ∃ f', f = f' + 1 := ⟨f - 1, by omega⟩
  unfold topLoop
  simp only
  obtain ⟨h1, h2, h4⟩ := stmt_read text file t ts s rest hnr hs hadm f p hat (by omega)
  rw [h1]
  simp only
  have hlen := ((stmt_stmts_suffix text (ts.length + 1)).1 _ _ _ hs).2
  simp only [List.length_cons] at hlen hf
  exact concl_tail text file w p _ _ h4 (ih f _ _ h2 (by omega))

theorem block_later (text : List Char) (file : List UInt8) (t : PTok) (ts : List PTok) (s : Stmt) (rest : List PTok)
    (w : Where) (hnr : t.tok ≠ .rbrace) (hs : stmt text (ts.length + 1) (t :: ts) = some (s, rest))
    (hadm : ∀ x ∈ t :: ts, okTok x)
    (ih : ∀ (f : Nat) (acc : List Statement) (p : P), At text file p rest → rest.length + 2 ≤ f →
      Concl text file w p (blockLoop LS f acc p).2)
    (f : Nat) (acc : List Statement) (p : P) (hat : At text file p (t :: ts)) (hf : (t :: ts).length + 2 ≤ f) :
    Concl text file w p (blockLoop LS f acc p).2 := by
  obtain ⟨f, rfl⟩ : ∃ f', f = f' + 1 := ⟨f - 1, by omega⟩
  unfold blockLoop
  simp only
  obtain ⟨h1, h2, h4⟩ := stmt_read text file t ts s rest hnr hs hadm f p hat (by omega)
  rw [h1]
  simp only
  have hlen := ((stmt_stmts_suffix text (ts.length + 1)).1 _ _ _ hs).2
  simp only [List.length_cons] at hlen hf
  exact concl_tail text file w p _ _ h4 (ih f _ _ h2 (by omega))

theorem top_ended (text : List Char) (file : List UInt8) (f : Nat) (acc : List Statement) (p : P)
    (hat : At text file p []) (hf : 2 ≤ f) : Concl text file .endOfTokens p (topLoop LS f acc p).2 := by
  obtain ⟨f, rfl⟩ : ∃ f', f = f' + 1 := ⟨f - 1, by omega⟩
  unfold topLoop
  simp only
  obtain ⟨f, rfl⟩ : ∃ f', f = f' + 1 := ⟨f - 1, by omega⟩
  rw [(nextStatement_nil text file f p hat).1]
  simp only
  intro e ht
  exact nextStatement_head_of_next listSource_hmono e f p (next_nil_head text file false f p hat e ht)

theorem block_ended (text : List Char) (file : List UInt8) (f : Nat) (acc : List Statement) (p : P)
    (hat : At text file p []) (hf : 2 ≤ f) : Concl text file .endOfTokens p (blockLoop LS f acc p).2 := by
  obtain ⟨f, rfl⟩ : ∃ f', f = f' + 1 := ⟨f - 1, by omega⟩
  unfold blockLoop
  simp only
  obtain ⟨f, rfl⟩ : ∃ f', f = f' + 1 := ⟨f - 1, by omega⟩
  rw [(nextStatement_nil text file f p hat).1]
  simp only
  intro e ht
  exact nextStatement_head_of_next listSource_hmono e f p (next_nil_head text file false f p hat e ht)

/-! ## one statement -/

/-- the keyword is fetched -/
theorem next_keyword (text : List Char) (file : List UInt8) (f : Nat) (p : P) (k : PTok) (kw : List Char)
    (ts : List PTok) (hat : At text file p (k :: ts)) (hk : k.tok = .unq kw) :
    (next LS false f p).1 = some (conv text file k) ∧ At text file (next LS false f p).2 ts ∧
    (next LS false f p).2.src.tail = p.src.tail ∧ (conv text file k).code ≠ Code.punct 125 ∧
    (conv text file k).code = Code.unquoted ∧
    decide ((conv text file k).text = Model.Parse.patternKw) = decide (kw = Spec.Parse.patternKw) := by
  obtain ⟨n1, n2, n3, _⟩ := next_plain text file false f p k ts hat (by rw [hk]; rfl)
  refine ⟨n1, n2, n3, by rw [conv_code, hk]; simp [tokCode], by rw [conv_code, hk]; rfl, ?_⟩
  simp only [conv, tokText, hk]; exact patternKw_iff kw

/-- what follows the fetch of keyword and argument keeps the first error -/
theorem nextStatement_head_of_fetchArg (e : ErrLine) (f : Nat) (p : P) (T : Token)
    (h1 : (next LS false f p).1 = some T) (hnb : T.code ≠ Code.punct 125) (hu : T.code = Code.unquoted)
    (h2 : HasHead LS e (fetchArg LS T f (next LS false f p).2).2.2) : HasHead LS e (nextStatement LS (f + 1) p).2 := by
  unfold nextStatement
  simp only
  rw [h1]
  simp only
  rw [if_neg hnb, if_neg (by simp [hu])]
  split
  · exact addErr_head listSource_hmono _ _ _ h2
  · split
    · exact h2
    · split
      · have h3 := (stmt_block_head listSource_hmono e f).2 [] _ (show HasHead LS e (setDepth
            ((fetchArg LS T f (next LS false f p).2).2.2.depth + 1)
            (fetchArg LS T f (next LS false f p).2).2.2) from h2)
        split
        · exact h3
        · exact h3
      · exact addErr_head listSource_hmono _ _ _ h2

theorem stmt_block (text : List Char) (file : List UInt8) (k : PTok) (kw : List Char) (ts : List PTok)
    (arg : Option (List Char)) (e : PTok) (rest : List PTok) (w : Where) (hk : k.tok = .unq kw)
    (harg : argument text (kw = Spec.Parse.patternKw) ts = some (arg, e :: rest)) (he : e.tok = .lbrace)
    (hadm : ∀ x ∈ k :: ts, okTok x)
    (ih : ∀ (f : Nat) (acc : List Statement) (p : P), At text file p rest → rest.length + 2 ≤ f →
      Concl text file w p (blockLoop LS f acc p).2)
    (f : Nat) (p : P) (hat : At text file p (k :: ts)) (hf : (k :: ts).length + 1 ≤ f) :
    Concl text file w p (nextStatement LS f p).2 := by
  obtain ⟨f, rfl⟩ : ∃ f', f = f' + 1 := ⟨f - 1, by omega⟩
  simp only [List.length_cons] at hf
  obtain ⟨n1, n2, n3, c1, c2, hb⟩ := next_keyword text file f p k kw ts hat hk
  unfold nextStatement
  simp only
  rw [n1]
  simp only
  rw [if_neg c1, if_neg (by simp [c2])]
  have hsx := argument_suffix text _ ts arg _ harg
  have hrl := hsx.length_le
  simp only [List.length_cons] at hrl
  rcases fetchArg_spec text file (conv text file k) _ hb f _ ts n2 (by omega)
      (fun x hx => hadm x (by simp [hx])) with
    ⟨arg', e', rest', harg', hterm, ha1, ha2, ha3, ha4, ha5⟩ | ⟨_, hsf⟩ | ⟨hsf, _⟩
  · rw [harg] at harg'
    simp only [Option.some.injEq, Prod.mk.injEq, List.cons.injEq] at harg'
    obtain ⟨_, he', hr'⟩ := harg'
    subst he' hr'
    rw [ha2]
    simp only
    rw [if_neg (by rw [conv_code, he]; simp [tokCode]), if_pos (by rw [conv_code, he]; rfl)]
    have hatb : At text file (setDepth ((fetchArg LS (conv text file k) f (next LS false f p).2).2.2.depth + 1)
        (fetchArg LS (conv text file k) f (next LS false f p).2).2.2) rest :=
      ⟨ha3.stack, ha3.toks, ha3.clean, ha3.fault, ha3.text, ha3.file⟩
    have hc := ih f [] _ hatb (by omega)
    have hc' := concl_tail text file w p _ _ (show (setDepth
        ((fetchArg LS (conv text file k) f (next LS false f p).2).2.2.depth + 1)
        (fetchArg LS (conv text file k) f (next LS false f p).2).2.2).src.tail = p.src.tail from ha5.trans n3) hc
    split
    · exact hc'
    · exact hc'
  · exfalso
    rcases hsf with h | ⟨a, r, h, hnt⟩
    · rw [harg] at h; cases h
    · rw [harg] at h
      simp only [Option.some.injEq, Prod.mk.injEq] at h
      rw [← h.2] at hnt
      exact hnt.2 he
  · exfalso
    rcases hsf with h | ⟨a, r, h, hnt⟩
    · rw [harg] at h; cases h
    · rw [harg] at h
      simp only [Option.some.injEq, Prod.mk.injEq] at h
      rw [← h.2] at hnt
      exact hnt.2 he

theorem stmt_keyword (text : List Char) (file : List UInt8) (t : PTok) (ts : List PTok) (hq : t.tok.isQuoted = true)
    (hu : ∀ x ∈ t :: lookahead ts, hasUndefined x = false) (hadm : ∀ x ∈ t :: ts, okTok x)
    (f : Nat) (p : P) (hat : At text file p (t :: ts)) (hf : (t :: ts).length + 1 ≤ f) :
    Concl text file (.fault .quotedKeyword t.off) p (nextStatement LS f p).2 := by
  obtain ⟨f, rfl⟩ : ∃ f', f = f' + 1 := ⟨f - 1, by omega⟩
  simp only [List.length_cons] at hf
  intro htail
  obtain ⟨T, n1, n2, n3, n4, n5, _⟩ := next_quoted text file false f p t ts hat hq (by omega) hadm
  have hclean := next_quoted_clean text file false f p t ts hat hq (by omega) htail
    (fun x hx => badEsc_of_not_undefined false x (hu x hx))
  unfold nextStatement
  simp only
  rw [n1]
  simp only
  rw [if_neg (by rw [n2]; simp), if_pos (by rw [n2]; simp)]
  have heq : tokenErr T .keywordNotUnquoted = faultErr text file .quotedKeyword t.off :=
    tokenErr_eq text file T t.off .quotedKeyword n3 n4 n5
  rw [heq]
  exact addErr_clean_head _ _ hclean

/-! ## neither `;` nor `{` behind the argument -/

theorem code_not_term (text : List Char) (file : List UInt8) (e : PTok) (hs : e.tok ≠ .semi) (hl : e.tok ≠ .lbrace) :
    (conv text file e).code ≠ Code.punct 59 ∧ (conv text file e).code ≠ Code.punct 123 := by
  constructor
  · rw [conv_code]; intro h; exact hs ((tokCode_semi _).1 h)
  · rw [conv_code]; intro h; exact hl ((tokCode_lbrace _).1 h)

/-- fetching the token `e` that stands where `;` or `{` must: it comes back and nothing is written -/
theorem next_noTerm (text : List Char) (file : List UInt8) (f : Nat) (p : P) (e : PTok) (rest : List PTok)
    (hat : At text file p (e :: rest)) (hf : rest.length + 1 ≤ f) (hadm : ∀ x ∈ e :: rest, okTok x)
    (htail : p.src.tail = none) (hs : e.tok ≠ .semi) (hl : e.tok ≠ .lbrace)
    (hu : e.tok.isQuoted = true → ∀ x ∈ e :: lookahead rest, hasUndefined x = false) :
    ∃ E, (next LS false f p).1 = some E ∧ E.file = file ∧ E.line = lineOf text e.off ∧ E.col = colOf text e.off ∧
      E.code ≠ Code.punct 59 ∧ E.code ≠ Code.punct 123 ∧ (next LS false f p).2.src.errs = [] := by
  cases hqe : e.tok.isQuoted with
  | false =>
    obtain ⟨m1, m2, _, _⟩ := next_plain text file false f p e rest hat hqe
    obtain ⟨c1, c2⟩ := code_not_term text file e hs hl
    exact ⟨_, m1, rfl, rfl, rfl, c1, c2, m2.clean⟩
  | true =>
    obtain ⟨T, m1, m2, m3, m4, m5, _⟩ := next_quoted text file false f p e rest hat hqe hf hadm
    have hclean := next_quoted_clean text file false f p e rest hat hqe hf htail
      (fun x hx => badEsc_of_not_undefined false x (hu hqe x hx))
    exact ⟨T, m1, m3, m4, m5, by rw [m2]; simp, by rw [m2]; simp, hclean⟩

theorem fetchArg_noTerm (text : List Char) (file : List UInt8) (kwT : Token) (b : Bool)
    (hb : decide (kwT.text = Model.Parse.patternKw) = b) (f : Nat) (p : P) (ts : List PTok)
    (arg : Option (List Char)) (e : PTok) (rest : List PTok)
    (hat : At text file p ts) (hf : ts.length + 1 ≤ f) (hadm : ∀ x ∈ ts, okTok x) (htail : p.src.tail = none)
    (harg : argument text b ts = some (arg, e :: rest)) (hs : e.tok ≠ .semi) (hl : e.tok ≠ .lbrace)
    (hu : e.tok.isQuoted = true → ∀ x ∈ e :: lookahead rest, hasUndefined x = false) :
    ∃ E, (fetchArg LS kwT f p).2.1 = some E ∧ E.file = file ∧ E.line = lineOf text e.off ∧
      E.col = colOf text e.off ∧ E.code ≠ Code.punct 59 ∧ E.code ≠ Code.punct 123 ∧
      (fetchArg LS kwT f p).2.2.src.errs = [] := by
  unfold fetchArg
  simp only
  rw [hb]
  cases ts with
  | nil => simp [argument] at harg
  | cons t ts' =>
    simp only [List.length_cons] at hf
    cases hq : t.tok.isQuoted with
    | false =>
      obtain ⟨n1, n2, n3, n4⟩ := next_plain text file b f p t ts' hat hq
      rw [n1]
      simp only
      by_cases hunq : (conv text file t).code = Code.unquoted
      · obtain ⟨a, ha⟩ := (tokCode_unquoted t.tok).1 hunq
        rw [if_pos (by simp [hunq])]
        simp only [argument, ha, Option.some.injEq, Prod.mk.injEq] at harg
        obtain ⟨_, hts'⟩ := harg
        subst hts'
        simp only [List.length_cons] at hf
        exact next_noTerm text file f _ e rest n2 (by omega) (fun x hx => hadm x (by simp [hx]))
          (n3.trans htail) hs hl hu
      · have hns : ¬ (conv text file t).code = Code.string := by
          intro h; rw [conv_code, tokCode_string, hq] at h; cases h
        rw [if_neg (by simp [hunq, hns])]
        have harg' : argument text b (t :: ts') = some (none, t :: ts') := by
          rw [conv_code] at hunq
          cases hk : t.tok <;> simp [hk, Tok.isQuoted, tokCode] at hq hunq <;> simp [argument, hk]
        rw [harg'] at harg
        simp only [Option.some.injEq, Prod.mk.injEq, List.cons.injEq] at harg
        obtain ⟨_, hte, _⟩ := harg
        subst hte
        obtain ⟨c1, c2⟩ := code_not_term text file t hs hl
        exact ⟨_, rfl, rfl, rfl, rfl, c1, c2, n2.clean⟩
    | true =>
      -- the argument is read by the reference reader: both parts are there
      have hparts : ∃ v0 v, piece text b t = some v0 ∧ concatTail text b ts' = some (v, e :: rest) := by
        cases hp : piece text b t with
        | none => cases hk : t.tok <;> simp [hk, Tok.isQuoted] at hq <;> simp [argument, hk, hp] at harg
        | some v0 =>
          cases hc : concatTail text b ts' with
          | none => cases hk : t.tok <;> simp [hk, Tok.isQuoted] at hq <;> simp [argument, hk, hp, hc] at harg
          | some vr =>
            obtain ⟨v, r⟩ := vr
            refine ⟨v0, v, rfl, ?_⟩
            cases hk : t.tok <;> simp [hk, Tok.isQuoted] at hq <;> simp [argument, hk, hp, hc] at harg <;>
              rw [harg.2]
      obtain ⟨v0, v, hv0, hct⟩ := hparts
      have hbt : badEsc b t = false := by
        cases hbt : badEsc b t with
        | false => rfl
        | true =>
          have := (piece_spec text file b t hq (hadm t (by simp))).1 hbt
          rw [hv0] at this; cases this
      have hbe : badEsc b e = false := by
        cases hqe : e.tok.isQuoted with
        | false => exact badEsc_not_quoted b e hqe
        | true => exact badEsc_of_not_undefined b e (hu hqe e (by simp))
      have hla := lookahead_harmless text file b ts'.length ts' (Nat.le_refl _) (fun x hx => hadm x (by simp [hx]))
        v e rest hct hbe
      have hclean := next_quoted_clean text file b f p t ts' hat hq (by omega) htail (by
        intro x hx
        simp only [List.mem_cons] at hx
        rcases hx with hx | hx
        · rw [hx]; exact hbt
        · exact hla x hx)
      obtain ⟨T, n1, n2, n3, n4, n5, n6, n7, n8, n9, n10⟩ := next_quoted text file b f p t ts' hat hq (by omega) hadm
      rw [n1]
      simp only
      rw [if_pos (by simp [n2])]
      rcases n10 with ⟨hbad, _⟩ | ⟨_, v0', v', pushed, _, hct', _, htk, hpe, _, _⟩
      · exact absurd hclean hbad
      · rw [hct] at hct'
        simp only [Option.some.injEq, Prod.mk.injEq] at hct'
        obtain ⟨_, hpush⟩ := hct'
        cases pushed with
        | nil =>
          rw [hpe rfl] at hpush
          cases hpush
        | cons e' pushed' =>
          simp only [List.cons_append, List.cons.injEq] at hpush
          obtain ⟨he', _⟩ := hpush
          subst he'
          have hpop := next_pop false f (next LS b f p).2 (conv text file e) (pushed'.map (conv text file))
            (by rw [htk]; rfl)
          rw [hpop]
          obtain ⟨c1, c2⟩ := code_not_term text file e hs hl
          exact ⟨_, rfl, rfl, rfl, rfl, c1, c2, hclean⟩

theorem stmt_noTerm (text : List Char) (file : List UInt8) (k : PTok) (kw : List Char) (ts : List PTok)
    (arg : Option (List Char)) (e : PTok) (rest : List PTok) (hk : k.tok = .unq kw)
    (harg : argument text (kw = Spec.Parse.patternKw) ts = some (arg, e :: rest))
    (hs : e.tok ≠ .semi) (hl : e.tok ≠ .lbrace)
    (hu : e.tok.isQuoted = true → ∀ x ∈ e :: lookahead rest, hasUndefined x = false)
    (hadm : ∀ x ∈ k :: ts, okTok x)
    (f : Nat) (p : P) (hat : At text file p (k :: ts)) (hf : (k :: ts).length + 1 ≤ f) :
    Concl text file (.fault .missingSemi e.off) p (nextStatement LS f p).2 := by
  obtain ⟨f, rfl⟩ : ∃ f', f = f' + 1 := ⟨f - 1, by omega⟩
  simp only [List.length_cons] at hf
  intro htail
  obtain ⟨n1, n2, n3, c1, c2, hb⟩ := next_keyword text file f p k kw ts hat hk
  obtain ⟨E, hE, e1, e2, e3, e4, e5, hclean⟩ := fetchArg_noTerm text file (conv text file k) _ hb f _ ts arg e rest n2
    (by omega) (fun x hx => hadm x (by simp [hx])) (n3.trans htail) harg hs hl hu
  unfold nextStatement
  simp only
  rw [n1]
  simp only
  rw [if_neg c1, if_neg (by simp [c2]), hE]
  simp only
  rw [if_neg e4, if_neg e5]
  have heq : tokenErr E .expectedSemiOrBrace = faultErr text file .missingSemi e.off :=
    tokenErr_eq text file E e.off .missingSemi e1 e2 e3
  rw [heq]
  exact addErr_clean_head _ _ hclean

/-! ## the tokens run out behind the keyword -/

theorem concatLoop_runsOut (text : List Char) (file : List UInt8) (b : Bool) (e0 : ErrLine) (ts : List PTok)
    (h : TailRunsOut b ts) : ∀ (f : Nat) (T : Token) (p : P), At text file p ts → ts.length + 1 ≤ f →
    p.src.tail = some e0 → HasHead LS e0 (concatLoop LS b f T p).2 := by
  induction h with
  | nil =>
    intro f T p hat hf htail
    obtain ⟨f, rfl⟩ : ∃ f', f = f' + 1 := ⟨f - 1, by omega⟩
    unfold concatLoop
    simp only
    rw [(pullTok_nil b p hat.toks).1]
    exact pullTok_nil_head text file b p hat e0 htail
  | plus pl hp =>
    intro f T p hat hf htail
    obtain ⟨f, rfl⟩ : ∃ f', f = f' + 1 := ⟨f - 1, by omega⟩
    obtain ⟨h1, h2, h3, _⟩ := pullTok_at text file b p pl [] hat (badEsc_not_quoted b pl (plus_not_quoted pl hp))
    obtain ⟨c1, c2⟩ := conv_plus_code text file pl hp
    unfold concatLoop
    simp only
    rw [h1]
    simp only
    rw [if_pos c1, if_neg (by simpa using c2), (pullTok_nil b _ h2.toks).1]
    exact pullTok_nil_head text file b _ h2 e0 (h3.trans htail)
  | more pl q ts hp hq hu _ ih =>
    intro f T p hat hf htail
    obtain ⟨f, rfl⟩ : ∃ f', f = f' + 1 := ⟨f - 1, by omega⟩
    simp only [List.length_cons] at hf
    have hbq : badEsc b q = false := by
      cases b with
      | true => exact badEsc_true_pattern q
      | false => exact badEsc_of_not_undefined false q (hu rfl)
    obtain ⟨h1, h2, h3, _⟩ := pullTok_at text file b p pl (q :: ts) hat
      (badEsc_not_quoted b pl (plus_not_quoted pl hp))
    obtain ⟨g1, g2, g3, _⟩ := pullTok_at text file b _ q ts h2 hbq
    rw [concatLoop_plus_quoted text file b f T p pl q ts hat.toks hat.text hat.file hp hq]
    exact ih f _ _ g2 (by omega) (g3.trans (h3.trans htail))

theorem fetchArg_runsOut (text : List Char) (file : List UInt8) (kwT : Token) (b : Bool)
    (hb : decide (kwT.text = Model.Parse.patternKw) = b) (f : Nat) (p : P) (ts : List PTok) (e0 : ErrLine)
    (hat : At text file p ts) (hf : ts.length + 1 ≤ f) (htail : p.src.tail = some e0) (hr : RunsOut b ts) :
    HasHead LS e0 (fetchArg LS kwT f p).2.2 := by
  cases hr with
  | nil =>
    apply fetchArg_head_of_next listSource_hmono
    exact next_nil_head text file _ f p hat e0 htail
  | unq a s ha =>
    obtain ⟨n1, n2, n3, _⟩ := next_plain text file b f p a [] hat (by rw [ha]; rfl)
    unfold fetchArg
    simp only
    rw [hb, n1]
    simp only
    rw [if_pos (by rw [conv_code, ha]; simp [tokCode])]
    exact next_nil_head text file false f _ n2 e0 (n3.trans htail)
  | quoted q ts' hq hu ht =>
    apply fetchArg_head_of_next listSource_hmono
    rw [hb]
    have hbq : badEsc b q = false := by
      cases b with
      | true => exact badEsc_true_pattern q
      | false => exact badEsc_of_not_undefined false q (hu rfl)
    obtain ⟨h1, h2, h3, _⟩ := pullTok_at text file b p q ts' hat hbq
    rw [next_pull_string b f p _ hat.stack h1 (conv_string text file q hq)]
    simp only [List.length_cons] at hf
    exact concatLoop_runsOut text file b e0 ts' ht f _ _ h2 (by omega) (h3.trans htail)

theorem stmt_argEnds (text : List Char) (file : List UInt8) (k : PTok) (kw : List Char) (ts : List PTok)
    (hk : k.tok = .unq kw) (hr : RunsOut (kw = Spec.Parse.patternKw) ts)
    (f : Nat) (p : P) (hat : At text file p (k :: ts)) (hf : (k :: ts).length + 1 ≤ f) :
    Concl text file .endOfTokens p (nextStatement LS f p).2 := by
  obtain ⟨f, rfl⟩ : ∃ f', f = f' + 1 := ⟨f - 1, by omega⟩
  simp only [List.length_cons] at hf
  intro e0 htail
  obtain ⟨n1, n2, n3, c1, c2, hb⟩ := next_keyword text file f p k kw ts hat hk
  exact nextStatement_head_of_fetchArg e0 f p _ n1 c1 c2
    (fetchArg_runsOut text file (conv text file k) _ hb f _ ts e0 n2 (by omega) (n3.trans htail) hr)

/-! ## an undefined backslash pair in the argument -/

theorem hasUndefined_quoted (x : PTok) (h : hasUndefined x = true) : x.tok.isQuoted = true := by
  obtain ⟨tok, off⟩ := x
  cases tok <;> simp [hasUndefined, Tok.isQuoted] at h ⊢

theorem concatLoop_argPieces (text : List Char) (file : List UInt8) (ts : List PTok) (x : PTok)
    (h : ArgPieces ts x) : ∀ (pl : PTok) (f : Nat) (T : Token) (p : P), At text file p (pl :: ts) →
    pl.tok = .unq ['+'] → (pl :: ts).length + 1 ≤ f → HasHead LS (escErr text file x) (concatLoop LS false f T p).2 := by
  induction h with
  | here x post hx =>
    intro pl f T p hat hp hf
    obtain ⟨f, rfl⟩ : ∃ f', f = f' + 1 := ⟨f - 1, by omega⟩
    obtain ⟨h1, h2, h3, _⟩ := pullTok_at text file false p pl (x :: post) hat
      (badEsc_not_quoted false pl (plus_not_quoted pl hp))
    rw [concatLoop_plus_quoted text file false f T p pl x post hat.toks hat.text hat.file hp (hasUndefined_quoted x hx)]
    exact concatLoop_head listSource_hmono _ false f _ _
      (pullTok_bad_head text file false _ x post h2 (badEsc_of_undefined x hx))
  | more q pl' ts x hq hu hp' _ ih =>
    intro pl f T p hat hp hf
    obtain ⟨f, rfl⟩ : ∃ f', f = f' + 1 := ⟨f - 1, by omega⟩
    simp only [List.length_cons] at hf
    obtain ⟨h1, h2, h3, _⟩ := pullTok_at text file false p pl (q :: pl' :: ts) hat
      (badEsc_not_quoted false pl (plus_not_quoted pl hp))
    obtain ⟨g1, g2, g3, _⟩ := pullTok_at text file false _ q (pl' :: ts) h2 (badEsc_of_not_undefined false q hu)
    rw [concatLoop_plus_quoted text file false f T p pl q (pl' :: ts) hat.toks hat.text hat.file hp hq]
    exact ih pl' f _ _ g2 hp' (by simp only [List.length_cons]; omega)

theorem next_argPieces (text : List Char) (file : List UInt8) (ts : List PTok) (x : PTok) (h : ArgPieces ts x)
    (f : Nat) (p : P) (hat : At text file p ts) (hf : ts.length + 1 ≤ f) :
    HasHead LS (escErr text file x) (next LS false f p).2 := by
  cases h with
  | here _ post hx =>
    exact next_head_of_pull listSource_hmono _ false f p hat.stack
      (pullTok_bad_head text file false p x post hat (badEsc_of_undefined x hx))
  | more q pl ts' _ hq hu hp hrest =>
    obtain ⟨h1, h2, h3, _⟩ := pullTok_at text file false p q (pl :: ts') hat (badEsc_of_not_undefined false q hu)
    rw [next_pull_string false f p _ hat.stack h1 (conv_string text file q hq)]
    simp only [List.length_cons] at hf
    exact concatLoop_argPieces text file ts' x hrest pl f _ _ h2 hp (by simp only [List.length_cons]; omega)

theorem stmt_escape (text : List Char) (file : List UInt8) (k : PTok) (kw : List Char) (ts : List PTok) (x : PTok)
    (raw : List QItem) (hk : k.tok = .unq kw) (hkw : kw ≠ Spec.Parse.patternKw) (ha : ArgPieces ts x)
    (hx : x.tok = .dq raw)
    (f : Nat) (p : P) (hat : At text file p (k :: ts)) (hf : (k :: ts).length + 1 ≤ f) :
    Concl text file (.fault .badEscape (x.off + 1 + undefinedAt raw)) p (nextStatement LS f p).2 := by
  obtain ⟨f, rfl⟩ : ∃ f', f = f' + 1 := ⟨f - 1, by omega⟩
  simp only [List.length_cons] at hf
  intro _
  obtain ⟨n1, n2, n3, c1, c2, hb⟩ := next_keyword text file f p k kw ts hat hk
  rw [← escErr_eq text file x raw hx]
  apply nextStatement_head_of_fetchArg _ f p _ n1 c1 c2
  apply fetchArg_head_of_next listSource_hmono
  rw [hb, decide_eq_false hkw]
  exact next_argPieces text file ts x ha f _ n2 (by omega)

/-! ## soundness of `Stuck` -/

/-- the claim, by what is being read -/
def Sound (text : List Char) (file : List UInt8) (c : Ctx) (toks : List PTok) (w : Where) : Prop :=
  match c with
  | .top => ∀ (f : Nat) (acc : List Statement) (p : P), At text file p toks → toks.length + 2 ≤ f →
      Concl text file w p (topLoop LS f acc p).2
  | .block => ∀ (f : Nat) (acc : List Statement) (p : P), At text file p toks → toks.length + 2 ≤ f →
      Concl text file w p (blockLoop LS f acc p).2
  | .stmt => ∀ (f : Nat) (p : P), At text file p toks → toks.length + 1 ≤ f →
      Concl text file w p (nextStatement LS f p).2

theorem stuck_sound_aux (text : List Char) (file : List UInt8) (c : Ctx) (toks : List PTok) (w : Where)
    (h : Stuck text c toks w) (hadm : ∀ x ∈ toks, okTok x) : Sound text file c toks w := by
  induction h with
  | rbrace t ts ht =>
    intro f acc p hat hf
    exact top_rbrace text file t ts ht f acc p hat hf
  | first c t ts w hc hnr _ ih =>
    have ih' := ih hadm
    cases c with
    | top => exact top_first text file (t :: ts) w ih'
    | block => exact block_first text file (t :: ts) w ih'
    | stmt => exact absurd rfl hc
  | later c t ts s rest w hc hnr hs _ ih =>
    have hsx := ((stmt_stmts_suffix text (ts.length + 1)).1 _ _ _ hs).1
    have ih' := ih (fun x hx => hadm x (List.IsSuffix.mem hx hsx))
    cases c with
    | top => exact top_later text file t ts s rest w hnr hs hadm ih'
    | block => exact block_later text file t ts s rest w hnr hs hadm ih'
    | stmt => exact absurd rfl hc
  | ended c hc =>
    cases c with
    | top => intro f acc p hat hf; exact top_ended text file f acc p hat hf
    | block => intro f acc p hat hf; exact block_ended text file f acc p hat hf
    | stmt => exact absurd rfl hc
  | keyword t ts hq hu =>
    intro f p hat hf
    exact stmt_keyword text file t ts hq hu hadm f p hat hf
  | escape k kw ts x raw hk hkw ha hx =>
    intro f p hat hf
    exact stmt_escape text file k kw ts x raw hk hkw ha hx f p hat hf
  | noTerm k kw ts arg e rest hk harg hs hl hu =>
    intro f p hat hf
    exact stmt_noTerm text file k kw ts arg e rest hk harg hs hl hu hadm f p hat hf
  | argEnds k kw ts hk hr =>
    intro f p hat hf
    exact stmt_argEnds text file k kw ts hk hr f p hat hf
  | block k kw ts arg e rest w hk harg he _ ih =>
    have hsx := argument_suffix text _ ts arg _ harg
    have ih' := ih (fun x hx => hadm x (by
      have := List.IsSuffix.mem hx ((List.suffix_cons e rest).trans hsx)
      simp [this]))
    intro f p hat hf
    exact stmt_block text file k kw ts arg e rest w hk harg he hadm ih' f p hat hf

/-- **`Stuck` is sound**: over the list source the first error line the run writes is the one
`Stuck` names (for `endOfTokens`: the report of the lexer that stopped behind the last token). -/
theorem stuck_sound (text : List Char) (file : List UInt8) (c : Ctx) (toks : List PTok) (w : Where)
    (h : Stuck text c toks w) (hadm : ∀ x ∈ toks, okTok x) :
    match c with
    | .top => ∀ (f : Nat) (acc : List Statement) (p : P), At text file p toks → toks.length + 2 ≤ f →
        Concl text file w p (topLoop LS f acc p).2
    | .block => ∀ (f : Nat) (acc : List Statement) (p : P), At text file p toks → toks.length + 2 ≤ f →
        Concl text file w p (blockLoop LS f acc p).2
    | .stmt => ∀ (f : Nat) (p : P), At text file p toks → toks.length + 1 ≤ f →
        Concl text file w p (nextStatement LS f p).2 := by
  have := stuck_sound_aux text file c toks w h hadm
  cases c <;> exact this

/-- `stuck_sound` at top level, as the whole-text run uses it -/
theorem stuck_sound_top (text : List Char) (file : List UInt8) (toks : List PTok) (w : Where)
    (h : Stuck text .top toks w) (hadm : ∀ x ∈ toks, okTok x) (f : Nat) (acc : List Statement) (p : P)
    (hat : At text file p toks) (hf : toks.length + 2 ≤ f) : Concl text file w p (topLoop LS f acc p).2 :=
  stuck_sound_aux text file .top toks w h hadm f acc p hat hf

end Goyang.Lemmas.ListFault
