/-
The reference reader's tokens as a token source for the (generic) parser model, and
(c): the parser model over that source = the statement grammar of the reference reader over the
same tokens (concatenation, nesting, sibling order, positions; rejection ⇔ an error line).
-/
import Goyang.Model.Parse
import Goyang.Spec.Parse
import Goyang.Lemmas.QStr
import Goyang.Lemmas.Utf8
import Goyang.Lemmas.ParseSim

namespace Goyang.Lemmas.ListSrc
open Goyang.Model.Lex (Token Code ErrLine ErrClass Fault)
open Goyang.Model.Parse
open Goyang.Model.Utf8 (encodeChars)
open Goyang.Spec.Parse
open Goyang.Lemmas.QStr
open Goyang.Lemmas.Utf8 (encodeChars_append encodeChars_eq_single encodeChars_inj_ascii)

/-! ## the statements of the reference reader as statements of the model -/

mutual
def encStmt (file : List UInt8) : Stmt → Statement
  | ⟨kw, arg, line, col, subs⟩ =>
    { keyword := encodeChars kw, hasArg := arg.isSome, arg := encodeChars (arg.getD []), file := file,
      line := line, col := col, subs := encStmts file subs }
def encStmts (file : List UInt8) : List Stmt → List Statement
  | [] => []
  | s :: r => encStmt file s :: encStmts file r
end

theorem encStmts_append (file : List UInt8) (a b : List Stmt) :
    encStmts file (a ++ b) = encStmts file a ++ encStmts file b := by
  induction a with
  | nil => simp [encStmts]
  | cons s r ih => simp [encStmts, ih]

/-! ## the token source -/

/-- tokens still to come, errors written so far, and what the lexer will report when it stops at
an unterminated quote or comment after the last token -/
structure LSrc where
  text : List Char
  file : List UInt8
  toks : List PTok
  errs : List ErrLine
  tail : Option ErrLine

def tokCode : Tok → Code
  | .semi => .punct 59
  | .lbrace => .punct 123
  | .rbrace => .punct 125
  | .unq _ => .unquoted
  | .sq _ => .string
  | .dq _ => .string

def tokText (text : List Char) (t : PTok) : List UInt8 :=
  match t.tok with
  | .semi => [59]
  | .lbrace => [123]
  | .rbrace => [125]
  | .unq s => encodeChars s
  | .sq s => encodeChars s
  | .dq raw => encodeChars (implValue (quoteCol text t.off) raw)

/-- the token the lexer hands out for `t` -/
def conv (text : List Char) (file : List UInt8) (t : PTok) : Token :=
  { code := tokCode t.tok, text := tokText text t, file := file,
    line := lineOf text t.off, col := colOf text t.off }

/-- a double-quoted token with an undefined backslash pair, read outside pattern mode -/
def badEsc (b : Bool) (t : PTok) : Bool :=
  match t.tok with
  | .dq raw => !b && !raw.all validEsc
  | _ => false

/-- characters before the first undefined backslash pair -/
def firstBadOff : List QItem → Nat
  | [] => 0
  | .lit _ :: r => 1 + firstBadOff r
  | .esc c :: r => if validEsc (.esc c) then 2 + firstBadOff r else 0

def escErr (text : List Char) (file : List UInt8) (t : PTok) : ErrLine :=
  match t.tok with
  | .dq raw =>
    { file := file, cls := .invalidEscape,
      pos := some (lineOf text (t.off + 1 + firstBadOff raw), colOf text (t.off + 1 + firstBadOff raw)) }
  | _ => { file := file, cls := .invalidEscape, pos := none }

def lpull (b : Bool) (s : LSrc) : Option Token × LSrc :=
  match s.toks with
  | [] => (none, match s.tail with
                 | some e => { s with errs := s.errs ++ [e], tail := none }
                 | none => s)
  | t :: ts =>
    (some (conv s.text s.file t),
     { s with toks := ts, errs := if badEsc b t then s.errs ++ [escErr s.text s.file t] else s.errs })

def listSource : Source LSrc where
  pull := lpull
  errs s := s.errs
  addErr e s := { s with errs := s.errs ++ [e] }
  endLoc s := (s.file, 0, 0)
  fault _ := .none

abbrev LS := listSource
abbrev P := Parser LSrc

/-! ## basic facts about fetching from the list -/

theorem pullTok_eq (b : Bool) (p : P) :
    pullTok LS b p = ((lpull b p.src).1, { p with src := (lpull b p.src).2 }) := rfl

theorem pullTok_nil (b : Bool) (p : P) (h : p.src.toks = []) :
    (pullTok LS b p).1 = none ∧ (pullTok LS b p).2.tokens = p.tokens ∧ (pullTok LS b p).2.depth = p.depth ∧
    (pullTok LS b p).2.fault = p.fault ∧ (pullTok LS b p).2.src.toks = [] ∧
    (pullTok LS b p).2.src.text = p.src.text ∧ (pullTok LS b p).2.src.file = p.src.file ∧
    (p.src.tail = none → (pullTok LS b p).2.src.errs = p.src.errs ∧ (pullTok LS b p).2.src.tail = none) ∧
    (p.src.tail ≠ none → (pullTok LS b p).2.src.errs ≠ []) ∧
    (p.src.errs ≠ [] → (pullTok LS b p).2.src.errs ≠ []) := by
  rw [pullTok_eq]
  unfold lpull
  rw [h]
  cases ht : p.src.tail with
  | none => simp [h, ht]
  | some e => simp [h]

theorem pullTok_cons (b : Bool) (p : P) (t : PTok) (ts : List PTok) (h : p.src.toks = t :: ts) :
    (pullTok LS b p).1 = some (conv p.src.text p.src.file t) ∧
    (pullTok LS b p).2.tokens = p.tokens ∧ (pullTok LS b p).2.depth = p.depth ∧
    (pullTok LS b p).2.fault = p.fault ∧ (pullTok LS b p).2.src.toks = ts ∧
    (pullTok LS b p).2.src.text = p.src.text ∧ (pullTok LS b p).2.src.file = p.src.file ∧
    (pullTok LS b p).2.src.tail = p.src.tail ∧
    (badEsc b t = false → (pullTok LS b p).2.src.errs = p.src.errs) ∧
    (badEsc b t = true → (pullTok LS b p).2.src.errs ≠ []) ∧
    (p.src.errs ≠ [] → (pullTok LS b p).2.src.errs ≠ []) := by
  rw [pullTok_eq]
  unfold lpull
  rw [h]
  by_cases hb : badEsc b t = true
  · simp [hb]
  · simp [hb]

theorem push_fields (ts : List Token) (p : P) :
    (push ts p).src = p.src ∧ (push ts p).depth = p.depth ∧ (push ts p).fault = p.fault ∧
    (push ts p).tokens = ts.reverse ++ p.tokens := ⟨rfl, rfl, rfl, rfl⟩

theorem addErr_fields (e : ErrLine) (p : P) :
    (addErr LS e p).src.errs = p.src.errs ++ [e] ∧ (addErr LS e p).src.toks = p.src.toks ∧
    (addErr LS e p).tokens = p.tokens ∧ (addErr LS e p).depth = p.depth ∧ (addErr LS e p).fault = p.fault ∧
    (addErr LS e p).src.text = p.src.text ∧ (addErr LS e p).src.file = p.src.file ∧
    (addErr LS e p).src.tail = p.src.tail := ⟨rfl, rfl, rfl, rfl, rfl, rfl, rfl, rfl⟩

theorem addErr_bad (e : ErrLine) (p : P) : (addErr LS e p).src.errs ≠ [] := by
  rw [(addErr_fields e p).1]; simp

/-- errors are never taken back -/
def Bad (p : P) : Prop := p.src.errs ≠ []

theorem pullTok_bad (b : Bool) (p : P) (h : Bad p) : Bad (pullTok LS b p).2 := by
  cases ht : p.src.toks with
  | nil => exact (pullTok_nil b p ht).2.2.2.2.2.2.2.2.2 h
  | cons t ts => exact (pullTok_cons b p t ts ht).2.2.2.2.2.2.2.2.2.2 h

theorem concatLoop_bad (b : Bool) : ∀ (f : Nat) (T : Token) (p : P), Bad p → Bad (concatLoop LS b f T p).2 := by
  intro f
  induction f with
  | zero => intro T p h; exact h
  | succ f ih =>
    intro T p h
    unfold concatLoop
    simp only
    have h1 := pullTok_bad b p h
    split
    · exact h1
    · split
      · split
        · exact h1
        · have h2 := pullTok_bad b _ h1
          split
          · exact h2
          · split
            · exact ih _ _ h2
            · exact h2
      · exact h1

theorem next_bad (b : Bool) (f : Nat) (p : P) (h : Bad p) : Bad (next LS b f p).2 := by
  unfold next
  split
  · exact h
  · simp only
    have h1 := pullTok_bad b p h
    split
    · exact h1
    · split
      · exact concatLoop_bad b f _ _ h1
      · exact h1

theorem fetchArg_bad (kw : Token) (f : Nat) (p : P) (h : Bad p) : Bad (fetchArg LS kw f p).2.2 := by
  unfold fetchArg
  simp only
  have h1 := next_bad (kw.text = Model.Parse.patternKw) f p h
  split
  · split
    · exact next_bad false f _ h1
    · exact h1
  · exact h1

theorem stmt_block_bad : ∀ (f : Nat),
    (∀ (p : P), Bad p → Bad (nextStatement LS f p).2) ∧
    (∀ (acc : List Statement) (p : P), Bad p → Bad (blockLoop LS f acc p).2) := by
  intro f
  induction f with
  | zero =>
    constructor
    · intro p h; unfold nextStatement; exact h
    · intro acc p h; unfold blockLoop; exact h
  | succ f ih =>
    obtain ⟨ihs, ihb⟩ := ih
    constructor
    · intro p h
      unfold nextStatement
      simp only
      have h1 := next_bad false f p h
      split
      · exact h1
      · rename_i t _
        split
        · exact h1
        · split
          · exact addErr_bad _ _
          · have h2 := fetchArg_bad t f _ h1
            split
            · exact addErr_bad _ _
            · split
              · exact h2
              · split
                · have h3 := ihb [] _ (show Bad (setDepth ((fetchArg LS t f (next LS false f p).2).2.2.depth + 1)
                      (fetchArg LS t f (next LS false f p).2).2.2) from h2)
                  split
                  · exact h3
                  · exact h3
                · exact addErr_bad _ _
    · intro acc p h
      unfold blockLoop
      simp only
      have h1 := ihs p h
      split
      · exact h1
      · exact h1
      · exact ihb _ _ h1

theorem topLoop_bad : ∀ (f : Nat) (acc : List Statement) (p : P), Bad p → Bad (topLoop LS f acc p).2 := by
  intro f
  induction f with
  | zero => intro acc p h; unfold topLoop; exact h
  | succ f ih =>
    intro acc p h
    unfold topLoop
    simp only
    have h1 := (stmt_block_bad f).1 p h
    split
    · exact h1
    · exact ih _ _ (addErr_bad _ _)
    · exact ih _ _ h1

/-! ## the tokens as the reference reader sees them -/

/-- admissibility as far as (c) needs it: exclusion (3) for every double-quoted token -/
def okTok (t : PTok) : Prop :=
  match t.tok with
  | .dq raw => noEscBlankEnd raw
  | _ => True

theorem conv_code (text : List Char) (file : List UInt8) (t : PTok) : (conv text file t).code = tokCode t.tok := rfl

theorem tokCode_string (t : Tok) : tokCode t = Code.string ↔ t.isQuoted = true := by
  cases t <;> simp [tokCode, Tok.isQuoted]

theorem tokCode_unquoted (t : Tok) : tokCode t = Code.unquoted ↔ ∃ s, t = .unq s := by
  cases t <;> simp [tokCode]

/-- a quoted piece: its value is the text of the token the lexer hands out, unless an undefined
backslash pair is read outside pattern mode -/
theorem piece_spec (text : List Char) (file : List UInt8) (b : Bool) (t : PTok) (hq : t.tok.isQuoted = true)
    (hok : okTok t) :
    (badEsc b t = true → piece text b t = none) ∧
    (badEsc b t = false → ∃ v, piece text b t = some v ∧ encodeChars v = (conv text file t).text) := by
  obtain ⟨tok, off⟩ := t
  cases tok with
  | sq s => simp [badEsc, piece, conv, tokText]
  | dq raw =>
    have hok' : noEscBlankEnd raw := hok
    cases b with
    | true =>
      simp only [badEsc, Bool.not_true, Bool.false_and, Bool.false_eq_true, false_implies, true_and,
        forall_const, piece, conv, tokText]
      exact ⟨_, dequote_true _ raw hok', rfl⟩
    | false =>
      simp only [badEsc, Bool.not_false, Bool.true_and, Bool.not_eq_eq_eq_not, Bool.not_true, piece, conv, tokText,
        Bool.not_eq_false]
      rw [dequote_false _ raw hok']
      constructor
      · intro h; simp [h]
      · intro h; simp [h]
  | semi => simp [Tok.isQuoted] at hq
  | lbrace => simp [Tok.isQuoted] at hq
  | rbrace => simp [Tok.isQuoted] at hq
  | unq s => simp [Tok.isQuoted] at hq

theorem badEsc_not_quoted (b : Bool) (t : PTok) (hq : t.tok.isQuoted = false) : badEsc b t = false := by
  obtain ⟨tok, off⟩ := t
  cases tok <;> simp [badEsc, Tok.isQuoted] at hq ⊢

/-- the token is the unquoted `+` -/
theorem conv_plus (text : List Char) (file : List UInt8) (t : PTok) (hc : (conv text file t).code = Code.unquoted) :
    (conv text file t).text = [43] ↔ t.tok = .unq ['+'] := by
  obtain ⟨tok, off⟩ := t
  cases tok with
  | unq s =>
    simp only [conv, tokText, Tok.unq.injEq]
    constructor
    · intro h
      exact encodeChars_eq_single s '+' (by decide) h
    · intro h; rw [h]; rfl
  | semi => simp [conv, tokCode] at hc
  | lbrace => simp [conv, tokCode] at hc
  | rbrace => simp [conv, tokCode] at hc
  | sq s => simp [conv, tokCode] at hc
  | dq s => simp [conv, tokCode] at hc

/-- the parser stands between two statements, before the tokens `ts`, and nothing has gone wrong -/
structure At (text : List Char) (file : List UInt8) (p : P) (ts : List PTok) : Prop where
  stack : p.tokens = []
  toks : p.src.toks = ts
  clean : p.src.errs = []
  fault : p.fault = .none
  text : p.src.text = text
  file : p.src.file = file

/-- after these tokens the statement cannot end: neither `;` nor `{` comes next -/
def NoTerm : List PTok → Prop
  | [] => True
  | e :: _ => e.tok ≠ .semi ∧ e.tok ≠ .lbrace

/-! ## `concatTail` case by case -/

theorem concatTail_nil (text : List Char) (b : Bool) : concatTail text b [] = some ([], []) := by
  simp [concatTail]

theorem concatTail_single (text : List Char) (b : Bool) (t : PTok) : concatTail text b [t] = some ([], [t]) := by
  simp [concatTail]

theorem concatTail_not_plus (text : List Char) (b : Bool) (t : PTok) (ts : List PTok) (h : t.tok ≠ .unq ['+']) :
    concatTail text b (t :: ts) = some ([], t :: ts) := by
  cases ts with
  | nil => exact concatTail_single text b t
  | cons q rest => simp [concatTail, h]

theorem concatTail_plus_other (text : List Char) (b : Bool) (t q : PTok) (ts : List PTok)
    (h : q.tok.isQuoted = false) : concatTail text b (t :: q :: ts) = some ([], t :: q :: ts) := by
  simp [concatTail, h]

theorem concatTail_plus_quoted_some (text : List Char) (b : Bool) (t q : PTok) (ts : List PTok)
    (ht : t.tok = .unq ['+']) (h : q.tok.isQuoted = true) (s s' : List Char) (r : List PTok)
    (h1 : piece text b q = some s) (h2 : concatTail text b ts = some (s', r)) :
    concatTail text b (t :: q :: ts) = some (s ++ s', r) := by
  simp [concatTail, ht, h, h1, h2]

theorem concatTail_plus_quoted_none (text : List Char) (b : Bool) (t q : PTok) (ts : List PTok)
    (ht : t.tok = .unq ['+']) (h : q.tok.isQuoted = true)
    (h1 : piece text b q = none ∨ concatTail text b ts = none) :
    concatTail text b (t :: q :: ts) = none := by
  rcases h1 with h1 | h1
  · simp [concatTail, ht, h, h1]
  · simp only [concatTail, ht, h, h1, decide_true, Bool.and_self, if_true]
    split <;> simp_all

/-! ## `parser.next` on the list -/

/-- what `concatLoop` leaves untouched -/
theorem concatLoop_frame (b : Bool) : ∀ (f : Nat) (T : Token) (p : P), p.src.toks.length + 1 ≤ f →
    (concatLoop LS b f T p).1.code = T.code ∧ (concatLoop LS b f T p).1.file = T.file ∧
    (concatLoop LS b f T p).1.line = T.line ∧ (concatLoop LS b f T p).1.col = T.col ∧
    (concatLoop LS b f T p).2.fault = p.fault ∧ (concatLoop LS b f T p).2.depth = p.depth ∧
    (concatLoop LS b f T p).2.src.text = p.src.text ∧ (concatLoop LS b f T p).2.src.file = p.src.file := by
  intro f
  induction f with
  | zero => intro T p h; omega
  | succ f ih =>
    intro T p hf
    unfold concatLoop
    simp only
    cases hts : p.src.toks with
    | nil =>
      obtain ⟨h1, h2, h3, h4, h5, h6, h7, _⟩ := pullTok_nil b p hts
      rw [h1]
      exact ⟨rfl, rfl, rfl, rfl, h4, h3, h6, h7⟩
    | cons nt ts1 =>
      obtain ⟨h1, h2, h3, h4, h5, h6, h7, _⟩ := pullTok_cons b p nt ts1 hts
      rw [h1]
      simp only
      split
      · split
        · exact ⟨rfl, rfl, rfl, rfl, h4, h3, h6, h7⟩
        · cases hts1 : (pullTok LS b p).2.src.toks with
          | nil =>
            obtain ⟨g1, g2, g3, g4, g5, g6, g7, _⟩ := pullTok_nil b _ hts1
            rw [g1]
            exact ⟨rfl, rfl, rfl, rfl, g4.trans h4, g3.trans h3, g6.trans h6, g7.trans h7⟩
          | cons nnt ts2 =>
            obtain ⟨g1, g2, g3, g4, g5, g6, g7, _⟩ := pullTok_cons b _ nnt ts2 hts1
            rw [g1]
            simp only
            split
            · have hlen : (pullTok LS b (pullTok LS b p).2).2.src.toks.length + 1 ≤ f := by
                rw [g5]
                have : ts1 = nnt :: ts2 := by rw [← h5, hts1]
                rw [hts, this] at hf
                simp only [List.length_cons] at hf
                omega
              obtain ⟨i1, i2, i3, i4, i5, i6, i7, i8⟩ := ih { T with text := T.text ++ (conv (pullTok LS b p).2.src.text
                (pullTok LS b p).2.src.file nnt).text } _ hlen
              exact ⟨i1, i2, i3, i4, i5.trans (g4.trans h4), i6.trans (g3.trans h3), i7.trans (g6.trans h6),
                i8.trans (g7.trans h7)⟩
            · exact ⟨rfl, rfl, rfl, rfl, g4.trans h4, g3.trans h3, g6.trans h6, g7.trans h7⟩
      · exact ⟨rfl, rfl, rfl, rfl, h4, h3, h6, h7⟩

/-- the concatenation loop against `concatTail` -/
theorem concatLoop_spec (text : List Char) (file : List UInt8) (b : Bool) :
    ∀ (f : Nat) (ts : List PTok) (T : Token) (p : P),
    At text file p ts → ts.length + 1 ≤ f → (∀ t ∈ ts, okTok t) →
    ((Bad (concatLoop LS b f T p).2 ∧
        (concatTail text b ts = none ∨ ∃ v rest, concatTail text b ts = some (v, rest) ∧ NoTerm rest)) ∨
     ((concatLoop LS b f T p).2.src.errs = [] ∧
        ∃ v pushed, concatTail text b ts = some (v, pushed ++ (concatLoop LS b f T p).2.src.toks) ∧
          (concatLoop LS b f T p).1.text = T.text ++ encodeChars v ∧
          (concatLoop LS b f T p).2.tokens = pushed.map (conv text file) ∧
          (pushed = [] → (concatLoop LS b f T p).2.src.toks = []) ∧
          (concatLoop LS b f T p).2.src.tail = p.src.tail ∧
          (∀ e e2 r, pushed = e :: e2 :: r → e.tok = .unq ['+']))) := by
  intro f
  induction f with
  | zero => intro ts T p _ h; omega
  | succ f ih =>
    intro ts T p hat hf hadm
    unfold concatLoop
    simp only
    cases ts with
    | nil =>
      obtain ⟨h1, h2, h3, h4, h5, h6, h7, h8, h9, _⟩ := pullTok_nil b p hat.toks
      rw [h1]
      simp only
      cases htail : p.src.tail with
      | none =>
        right
        obtain ⟨e1, e2⟩ := h8 htail
        refine ⟨by rw [e1]; exact hat.clean, [], [], ?_, by simp [Goyang.Model.Utf8.encodeChars], ?_, fun _ => h5, e2, (fun _ _ _ h => by cases h)⟩
        · rw [h5]; exact concatTail_nil text b
        · rw [h2, hat.stack]; rfl
      | some e =>
        left
        exact ⟨h9 (by rw [htail]; simp), Or.inr ⟨[], [], concatTail_nil text b, trivial⟩⟩
    | cons nt ts1 =>
      obtain ⟨h1, h2, h3, h4, h5, h6, h7, h8, h9, h10, _⟩ := pullTok_cons b p nt ts1 hat.toks
      rw [h1]
      simp only
      rw [hat.text, hat.file]
      have hstack1 : (pullTok LS b p).2.tokens = [] := h2.trans hat.stack
      by_cases hcode : (conv text file nt).code = Code.unquoted
      · rw [if_pos hcode]
        have hnq : nt.tok.isQuoted = false := by
          obtain ⟨s, hs⟩ := (tokCode_unquoted nt.tok).1 hcode
          rw [hs]; rfl
        have hclean1 : (pullTok LS b p).2.src.errs = [] := (h9 (badEsc_not_quoted b nt hnq)).trans hat.clean
        by_cases hplus : (conv text file nt).text = [43]
        · rw [if_neg (by simpa using hplus)]
          have hnt : nt.tok = .unq ['+'] := (conv_plus text file nt hcode).1 hplus
          cases ts1 with
          | nil =>
            obtain ⟨g1, g2, g3, g4, g5, g6, g7, g8, g9, _⟩ := pullTok_nil b (pullTok LS b p).2 h5
            rw [g1]
            simp only
            cases htail : p.src.tail with
            | none =>
              right
              obtain ⟨e1, e2⟩ := g8 (h8.trans htail)
              refine ⟨by rw [(push_fields _ _).1, e1]; exact hclean1, [], [nt], ?_,
                by simp [Goyang.Model.Utf8.encodeChars], ?_, (fun h => by cases h), ?_, (fun _ _ _ h => by cases h)⟩
              · rw [(push_fields _ _).1, g5]; exact concatTail_single text b nt
              · rw [(push_fields _ _).2.2.2, g2, hstack1]; rfl
              · rw [(push_fields _ _).1, e2]
            | some e =>
              left
              refine ⟨?_, Or.inr ⟨[], [nt], concatTail_single text b nt, ?_⟩⟩
              · unfold Bad
                rw [(push_fields _ _).1]
                exact g9 (by rw [h8, htail]; simp)
              · rw [NoTerm, hnt]; simp
          | cons nnt ts2 =>
            obtain ⟨g1, g2, g3, g4, g5, g6, g7, g8, g9, g10, _⟩ := pullTok_cons b (pullTok LS b p).2 nnt ts2 h5
            rw [g1]
            simp only
            rw [h6, h7, hat.text, hat.file]
            by_cases hq : (conv text file nnt).code = Code.string
            · rw [if_pos hq]
              have hquoted : nnt.tok.isQuoted = true := (tokCode_string nnt.tok).1 hq
              have hoknnt : okTok nnt := hadm nnt (by simp)
              obtain ⟨pb, pg⟩ := piece_spec text file b nnt hquoted hoknnt
              by_cases hbad : badEsc b nnt = true
              · left
                refine ⟨concatLoop_bad b f _ _ (g10 hbad), Or.inl ?_⟩
                exact concatTail_plus_quoted_none text b nt nnt ts2 hnt hquoted (Or.inl (pb hbad))
              · have hbad' : badEsc b nnt = false := by simpa using hbad
                obtain ⟨v1, hv1, hev1⟩ := pg hbad'
                have hat2 : At text file (pullTok LS b (pullTok LS b p).2).2 ts2 :=
                  ⟨g2.trans hstack1, g5, (g9 hbad').trans hclean1, g4.trans (h4.trans hat.fault),
                   g6.trans (h6.trans hat.text), g7.trans (h7.trans hat.file)⟩
                rcases ih ts2 { T with text := T.text ++ (conv text file nnt).text } _ hat2
                    (by simp only [List.length_cons] at hf; omega)
                    (fun t ht => hadm t (by simp [ht])) with ⟨hb, hsp⟩ | ⟨hc, v, pushed, hsp, htx, htk, hpe, htl, hsh⟩
                · left
                  refine ⟨hb, ?_⟩
                  rcases hsp with hsp | ⟨v, rest, hsp, hnt'⟩
                  · exact Or.inl (concatTail_plus_quoted_none text b nt nnt ts2 hnt hquoted (Or.inr hsp))
                  · exact Or.inr ⟨v1 ++ v, rest,
                      concatTail_plus_quoted_some text b nt nnt ts2 hnt hquoted v1 v rest hv1 hsp, hnt'⟩
                · right
                  refine ⟨hc, v1 ++ v, pushed,
                    concatTail_plus_quoted_some text b nt nnt ts2 hnt hquoted v1 v _ hv1 hsp, ?_, htk, hpe, ?_, hsh⟩
                  · rw [htx]; simp only; rw [encodeChars_append, ← hev1, List.append_assoc]
                  · rw [htl, g8, h8]
            · rw [if_neg hq]
              have hnquoted : nnt.tok.isQuoted = false := by
                cases hh : nnt.tok.isQuoted with
                | false => rfl
                | true => exact absurd ((tokCode_string nnt.tok).2 hh) hq
              right
              refine ⟨?_, [], [nt, nnt], ?_, by simp [Goyang.Model.Utf8.encodeChars], ?_, (fun h => by cases h), ?_,
                (fun e e2 r h => by simp only [List.cons.injEq] at h; rw [← h.1]; exact hnt)⟩
              · rw [(push_fields _ _).1, g9 (badEsc_not_quoted b nnt hnquoted)]; exact hclean1
              · rw [(push_fields _ _).1, g5]
                exact concatTail_plus_other text b nt nnt ts2 hnquoted
              · rw [(push_fields _ _).2.2.2, g2, hstack1]; rfl
              · rw [(push_fields _ _).1, g8, h8]
        · rw [if_pos (by simpa using hplus)]
          have hnt : nt.tok ≠ .unq ['+'] := fun h => hplus ((conv_plus text file nt hcode).2 h)
          right
          refine ⟨by rw [(push_fields _ _).1]; exact hclean1, [], [nt], ?_,
            by simp [Goyang.Model.Utf8.encodeChars], ?_, (fun h => by cases h), ?_, (fun _ _ _ h => by cases h)⟩
          · rw [(push_fields _ _).1, h5]; exact concatTail_not_plus text b nt ts1 hnt
          · rw [(push_fields _ _).2.2.2, hstack1]; rfl
          · rw [(push_fields _ _).1, h8]
      · rw [if_neg hcode]
        have hnt : nt.tok ≠ .unq ['+'] := by
          intro h; apply hcode; rw [conv_code, h]; rfl
        by_cases hbad : badEsc b nt = true
        · left
          refine ⟨by unfold Bad; rw [(push_fields _ _).1]; exact h10 hbad,
            Or.inr ⟨[], nt :: ts1, concatTail_not_plus text b nt ts1 hnt, ?_⟩⟩
          have : nt.tok.isQuoted = true := by
            cases hh : nt.tok.isQuoted with
            | true => rfl
            | false => rw [badEsc_not_quoted b nt hh] at hbad; cases hbad
          cases hk : nt.tok <;> simp [hk, Tok.isQuoted] at this <;> simp [NoTerm, hk]
        · have hbad' : badEsc b nt = false := by simpa using hbad
          right
          refine ⟨by rw [(push_fields _ _).1, h9 hbad']; exact hat.clean, [], [nt], ?_,
            by simp [Goyang.Model.Utf8.encodeChars], ?_, (fun h => by cases h), ?_, (fun _ _ _ h => by cases h)⟩
          · rw [(push_fields _ _).1, h5]; exact concatTail_not_plus text b nt ts1 hnt
          · rw [(push_fields _ _).2.2.2, hstack1]; rfl
          · rw [(push_fields _ _).1, h8]

theorem next_pop (b : Bool) (f : Nat) (p : P) (t : Token) (ts : List Token) (h : p.tokens = t :: ts) :
    next LS b f p = (some t, { p with tokens := ts }) := by
  unfold next; rw [h]

/-- fetching at the end of the tokens -/
theorem next_nil (text : List Char) (file : List UInt8) (b : Bool) (f : Nat) (p : P) (hat : At text file p []) :
    (next LS b f p).1 = none ∧
    (p.src.tail ≠ none → Bad (next LS b f p).2) ∧
    (p.src.tail = none → At text file (next LS b f p).2 [] ∧ (next LS b f p).2.src.tail = none ∧
      (next LS b f p).2.depth = p.depth) := by
  unfold next
  rw [hat.stack]
  simp only
  obtain ⟨h1, h2, h3, h4, h5, h6, h7, h8, h9, _⟩ := pullTok_nil b p hat.toks
  rw [h1]
  simp only
  refine ⟨trivial, h9, fun ht => ?_⟩
  obtain ⟨e1, e2⟩ := h8 ht
  exact ⟨⟨h2.trans hat.stack, h5, e1.trans hat.clean, h4.trans hat.fault, h6.trans hat.text, h7.trans hat.file⟩, e2, h3⟩

/-- fetching a token that is not a quoted string -/
theorem next_plain (text : List Char) (file : List UInt8) (b : Bool) (f : Nat) (p : P) (t : PTok) (ts : List PTok)
    (hat : At text file p (t :: ts)) (hq : t.tok.isQuoted = false) :
    (next LS b f p).1 = some (conv text file t) ∧ At text file (next LS b f p).2 ts ∧
    (next LS b f p).2.src.tail = p.src.tail ∧ (next LS b f p).2.depth = p.depth := by
  unfold next
  rw [hat.stack]
  simp only
  obtain ⟨h1, h2, h3, h4, h5, h6, h7, h8, h9, _⟩ := pullTok_cons b p t ts hat.toks
  rw [h1]
  simp only
  have hns : ¬ (conv p.src.text p.src.file t).code = Code.string := by
    intro h
    rw [conv_code] at h
    rw [(tokCode_string t.tok).1 h] at hq
    cases hq
  rw [if_neg hns, hat.text, hat.file]
  exact ⟨rfl, ⟨h2.trans hat.stack, h5, (h9 (badEsc_not_quoted b t hq)).trans hat.clean, h4.trans hat.fault,
    h6.trans hat.text, h7.trans hat.file⟩, h8, h3⟩

/-- fetching a quoted string: the pieces joined by `+` come back as one token -/
theorem next_quoted (text : List Char) (file : List UInt8) (b : Bool) (f : Nat) (p : P) (t : PTok) (ts : List PTok)
    (hat : At text file p (t :: ts)) (hq : t.tok.isQuoted = true) (hf : ts.length + 1 ≤ f)
    (hadm : ∀ x ∈ t :: ts, okTok x) :
    ∃ T, (next LS b f p).1 = some T ∧ T.code = Code.string ∧ T.file = file ∧
      T.line = lineOf text t.off ∧ T.col = colOf text t.off ∧
      (next LS b f p).2.fault = .none ∧ (next LS b f p).2.depth = p.depth ∧
      (next LS b f p).2.src.text = text ∧ (next LS b f p).2.src.file = file ∧
      ((Bad (next LS b f p).2 ∧
          (piece text b t = none ∨ concatTail text b ts = none ∨
            ∃ v rest, concatTail text b ts = some (v, rest) ∧ NoTerm rest)) ∨
       ((next LS b f p).2.src.errs = [] ∧
          ∃ v0 v pushed, piece text b t = some v0 ∧
            concatTail text b ts = some (v, pushed ++ (next LS b f p).2.src.toks) ∧
            T.text = encodeChars (v0 ++ v) ∧
            (next LS b f p).2.tokens = pushed.map (conv text file) ∧
            (pushed = [] → (next LS b f p).2.src.toks = []) ∧
            (next LS b f p).2.src.tail = p.src.tail ∧
            (∀ e e2 r, pushed = e :: e2 :: r → e.tok = .unq ['+']))) := by
  unfold next
  rw [hat.stack]
  simp only
  obtain ⟨h1, h2, h3, h4, h5, h6, h7, h8, h9, h10, _⟩ := pullTok_cons b p t ts hat.toks
  rw [h1]
  simp only
  have hs : (conv p.src.text p.src.file t).code = Code.string := by
    rw [conv_code]; exact (tokCode_string t.tok).2 hq
  rw [if_pos hs, hat.text, hat.file]
  obtain ⟨c1, c2, c3, c4, c5, c6, c7, c8⟩ := concatLoop_frame b f (conv text file t) (pullTok LS b p).2
    (by rw [h5]; exact hf)
  obtain ⟨pb, pg⟩ := piece_spec text file b t hq (hadm t (by simp))
  refine ⟨_, rfl, c1.trans (by rw [← hat.text, ← hat.file]; exact hs), c2, c3, c4, c5.trans (h4.trans hat.fault),
    c6.trans h3, c7.trans (h6.trans hat.text), c8.trans (h7.trans hat.file), ?_⟩
  by_cases hbad : badEsc b t = true
  · left
    exact ⟨concatLoop_bad b f _ _ (h10 hbad), Or.inl (pb hbad)⟩
  · have hbad' : badEsc b t = false := by simpa using hbad
    obtain ⟨v0, hv0, hev0⟩ := pg hbad'
    have hat1 : At text file (pullTok LS b p).2 ts :=
      ⟨h2.trans hat.stack, h5, (h9 hbad').trans hat.clean, h4.trans hat.fault, h6.trans hat.text, h7.trans hat.file⟩
    rcases concatLoop_spec text file b f ts (conv text file t) _ hat1 hf (fun x hx => hadm x (by simp [hx])) with
      ⟨hb, hsp⟩ | ⟨hc, v, pushed, hsp, htx, htk, hpe, htl, hsh⟩
    · left
      exact ⟨hb, Or.inr hsp⟩
    · right
      refine ⟨hc, v0, v, pushed, hv0, hsp, ?_, htk, hpe, htl.trans h8, hsh⟩
      rw [htx, encodeChars_append, hev0]

/-! ## the optional argument and the token after it -/

theorem patternKw_iff (kwc : List Char) :
    decide (encodeChars kwc = Model.Parse.patternKw) = decide (kwc = Spec.Parse.patternKw) := by
  have h : Model.Parse.patternKw = encodeChars Spec.Parse.patternKw := by decide
  rw [h]
  by_cases hk : kwc = Spec.Parse.patternKw
  · simp [hk]
  · have : encodeChars kwc ≠ encodeChars Spec.Parse.patternKw := by
      intro he
      exact hk (encodeChars_inj_ascii _ _ (by decide) he)
    simp [hk, this]

theorem tokCode_semi (t : Tok) : tokCode t = Code.punct 59 ↔ t = .semi := by
  cases t <;> simp [tokCode]

theorem tokCode_lbrace (t : Tok) : tokCode t = Code.punct 123 ↔ t = .lbrace := by
  cases t <;> simp [tokCode]

theorem tokCode_rbrace (t : Tok) : tokCode t = Code.punct 125 ↔ t = .rbrace := by
  cases t <;> simp [tokCode]

/-- the reference reader cannot finish the statement after this argument -/
def SpecFail (text : List Char) (b : Bool) (ts : List PTok) : Prop :=
  argument text b ts = none ∨ ∃ arg rest, argument text b ts = some (arg, rest) ∧ NoTerm rest

/-- `fetchArg` against `argument` and the token that must follow -/
theorem fetchArg_spec (text : List Char) (file : List UInt8) (kw : Token) (b : Bool)
    (hb : decide (kw.text = Model.Parse.patternKw) = b) (f : Nat) (p : P) (ts : List PTok)
    (hat : At text file p ts) (hf : ts.length + 1 ≤ f) (hadm : ∀ x ∈ ts, okTok x) :
    (∃ arg e rest, argument text b ts = some (arg, e :: rest) ∧ (e.tok = .semi ∨ e.tok = .lbrace) ∧
        (fetchArg LS kw f p).1 = (arg.isSome, encodeChars (arg.getD [])) ∧
        (fetchArg LS kw f p).2.1 = some (conv text file e) ∧ At text file (fetchArg LS kw f p).2.2 rest ∧
        (fetchArg LS kw f p).2.2.depth = p.depth ∧ (fetchArg LS kw f p).2.2.src.tail = p.src.tail) ∨
    (Bad (fetchArg LS kw f p).2.2 ∧ SpecFail text b ts) ∨
    (SpecFail text b ts ∧
      ((fetchArg LS kw f p).2.1 = none ∨
       ∃ T, (fetchArg LS kw f p).2.1 = some T ∧ T.code ≠ Code.punct 59 ∧ T.code ≠ Code.punct 123)) := by
  unfold fetchArg
  simp only
  rw [hb]
  cases ts with
  | nil =>
    obtain ⟨n1, n2, n3⟩ := next_nil text file b f p hat
    rw [n1]
    simp only
    right; right
    exact ⟨Or.inr ⟨none, [], by simp [argument], trivial⟩, Or.inl trivial⟩
  | cons t ts' =>
    cases hq : t.tok.isQuoted with
    | false =>
      obtain ⟨n1, n2, n3, n4⟩ := next_plain text file b f p t ts' hat hq
      rw [n1]
      simp only
      by_cases hunq : (conv text file t).code = Code.unquoted
      · obtain ⟨a, ha⟩ := (tokCode_unquoted t.tok).1 hunq
        have harg : ∀ r, argument text b (t :: r) = some (some a, r) := by
          intro r; simp [argument, ha]
        rw [if_pos (by simp [hunq])]
        cases ts' with
        | nil =>
          obtain ⟨m1, m2, m3⟩ := next_nil text file false f _ n2
          right; right
          exact ⟨Or.inr ⟨some a, [], harg [], trivial⟩, Or.inl m1⟩
        | cons e ts'' =>
          cases hqe : e.tok.isQuoted with
          | false =>
            obtain ⟨m1, m2, m3, m4⟩ := next_plain text file false f _ e ts'' n2 hqe
            by_cases hterm : e.tok = .semi ∨ e.tok = .lbrace
            · left
              refine ⟨some a, e, ts'', harg _, hterm, ?_, m1, m2, m4.trans n4, m3.trans n3⟩
              simp [conv, tokText, ha]
            · right; right
              have hnt : e.tok ≠ .semi ∧ e.tok ≠ .lbrace := by
                constructor
                · intro h; exact hterm (Or.inl h)
                · intro h; exact hterm (Or.inr h)
              refine ⟨Or.inr ⟨some a, e :: ts'', harg _, hnt⟩, Or.inr ⟨_, m1, ?_, ?_⟩⟩
              · rw [conv_code]; intro h; exact hnt.1 ((tokCode_semi _).1 h)
              · rw [conv_code]; intro h; exact hnt.2 ((tokCode_lbrace _).1 h)
          | true =>
            obtain ⟨T, m1, m2, m3, m4, m5, m6, m7, m8, m9, m10⟩ := next_quoted text file false f _ e ts'' n2 hqe
              (by simp only [List.length_cons] at hf; omega) (fun x hx => hadm x (by simp [hx]))
            have hnt : e.tok ≠ .semi ∧ e.tok ≠ .lbrace := by
              cases hk : e.tok <;> simp [hk, Tok.isQuoted] at hqe <;> simp
            have hsf : SpecFail text b (t :: e :: ts'') := Or.inr ⟨some a, e :: ts'', harg _, hnt⟩
            right; right
            exact ⟨hsf, Or.inr ⟨T, m1, by rw [m2]; simp, by rw [m2]; simp⟩⟩
      · have hns : ¬ (conv text file t).code = Code.string := by
          intro h; rw [conv_code, tokCode_string, hq] at h; cases h
        rw [if_neg (by simp [hunq, hns])]
        have harg : argument text b (t :: ts') = some (none, t :: ts') := by
          rw [conv_code] at hunq
          cases hk : t.tok <;> simp [hk, Tok.isQuoted, tokCode] at hq hunq <;> simp [argument, hk]
        by_cases hterm : t.tok = .semi ∨ t.tok = .lbrace
        · left
          exact ⟨none, t, ts', harg, hterm, rfl, rfl, n2, n4, n3⟩
        · right; right
          have hnt : t.tok ≠ .semi ∧ t.tok ≠ .lbrace := by
            constructor
            · intro h; exact hterm (Or.inl h)
            · intro h; exact hterm (Or.inr h)
          refine ⟨Or.inr ⟨none, t :: ts', harg, hnt⟩, Or.inr ⟨_, rfl, ?_, ?_⟩⟩
          · rw [conv_code]; intro h; exact hnt.1 ((tokCode_semi _).1 h)
          · rw [conv_code]; intro h; exact hnt.2 ((tokCode_lbrace _).1 h)
    | true =>
      obtain ⟨T, n1, n2, n3, n4, n5, n6, n7, n8, n9, n10⟩ := next_quoted text file b f p t ts' hat hq
        (by simp only [List.length_cons] at hf; omega) hadm
      rw [n1]
      simp only
      rw [if_pos (by simp [n2])]
      have hargq : ∀ v0 v rest, piece text b t = some v0 → concatTail text b ts' = some (v, rest) →
          argument text b (t :: ts') = some (some (v0 ++ v), rest) := by
        intro v0 v rest h1 h2
        cases hk : t.tok <;> simp [hk, Tok.isQuoted] at hq <;> simp [argument, hk, h1, h2]
      have hargn : piece text b t = none ∨ concatTail text b ts' = none → argument text b (t :: ts') = none := by
        intro h
        cases hk : t.tok <;> simp [hk, Tok.isQuoted] at hq
        · rcases h with h | h
          · simp [argument, hk, h]
          · simp only [argument, hk, h]; split <;> simp_all
        · rcases h with h | h
          · simp [argument, hk, h]
          · simp only [argument, hk, h]; split <;> simp_all
      rcases n10 with ⟨hbad, hsp⟩ | ⟨hclean, v0, v, pushed, hv0, hct, hT, htk, hpe, htl, hsh⟩
      · right; left
        refine ⟨next_bad false f _ hbad, ?_⟩
        rcases hsp with h | h | ⟨v, rest, h, hnt⟩
        · exact Or.inl (hargn (Or.inl h))
        · exact Or.inl (hargn (Or.inr h))
        · cases hp : piece text b t with
          | none => exact Or.inl (hargn (Or.inl hp))
          | some v0 => exact Or.inr ⟨_, rest, hargq v0 v rest hp h, hnt⟩
      · have harg := hargq v0 v _ hv0 hct
        cases pushed with
        | nil =>
          have htoks := hpe rfl
          have hat1 : At text file (next LS b f p).2 [] :=
            ⟨by rw [htk]; rfl, htoks, hclean, n6, n8, n9⟩
          obtain ⟨m1, m2, m3⟩ := next_nil text file false f _ hat1
          right; right
          refine ⟨Or.inr ⟨_, _, harg, ?_⟩, Or.inl m1⟩
          rw [htoks]; trivial
        | cons e pushed' =>
          have hpop := next_pop false f (next LS b f p).2 (conv text file e) (pushed'.map (conv text file))
            (by rw [htk]; rfl)
          rw [hpop]
          simp only
          by_cases hterm : e.tok = .semi ∨ e.tok = .lbrace
          · left
            have hp' : pushed' = [] := by
              cases pushed' with
              | nil => rfl
              | cons e2 r =>
                have := hsh e e2 r rfl
                rcases hterm with h | h <;> rw [h] at this <;> cases this
            subst hp'
            refine ⟨some (v0 ++ v), e, (next LS b f p).2.src.toks, harg, hterm, ?_, rfl, ?_, n7, htl⟩
            · rw [hT]; rfl
            · exact ⟨rfl, rfl, hclean, n6, n8, n9⟩
          · right; right
            have hnt : e.tok ≠ .semi ∧ e.tok ≠ .lbrace := by
              constructor
              · intro h; exact hterm (Or.inl h)
              · intro h; exact hterm (Or.inr h)
            refine ⟨Or.inr ⟨_, _, harg, hnt⟩, Or.inr ⟨_, rfl, ?_, ?_⟩⟩
            · rw [conv_code]; intro h; exact hnt.1 ((tokCode_semi _).1 h)
            · rw [conv_code]; intro h; exact hnt.2 ((tokCode_lbrace _).1 h)

/-! ## the statement grammar case by case -/

theorem stmt_not_unq (text : List Char) (g : Nat) (k : PTok) (ts : List PTok) (h : ∀ kw, k.tok ≠ .unq kw) :
    stmt text g (k :: ts) = none := by
  cases g with
  | zero => simp [stmt]
  | succ g =>
    unfold stmt
    split
    · rename_i kw hk; exact absurd hk (h kw)
    · rfl

theorem stmt_fail (text : List Char) (g : Nat) (k : PTok) (kw : List Char) (ts : List PTok) (hk : k.tok = .unq kw)
    (h : SpecFail text (decide (kw = Spec.Parse.patternKw)) ts) : stmt text g (k :: ts) = none := by
  cases g with
  | zero => simp [stmt]
  | succ g =>
    unfold stmt
    simp only [hk]
    rcases h with h | ⟨arg, rest, h, hnt⟩
    · rw [h]
    · rw [h]
      simp only
      cases rest with
      | nil => rfl
      | cons e r =>
        simp only
        rw [if_neg hnt.1, if_neg hnt.2]

theorem stmt_semi (text : List Char) (g : Nat) (k : PTok) (kw : List Char) (ts : List PTok) (hk : k.tok = .unq kw)
    (arg : Option (List Char)) (e : PTok) (rest : List PTok)
    (h : argument text (decide (kw = Spec.Parse.patternKw)) ts = some (arg, e :: rest)) (he : e.tok = .semi) :
    stmt text (g + 1) (k :: ts) =
      some ({ keyword := kw, arg := arg, line := lineOf text k.off, col := colOf text k.off, subs := [] }, rest) := by
  unfold stmt
  simp only [hk, h, he, if_true]

theorem stmt_block_some (text : List Char) (g : Nat) (k : PTok) (kw : List Char) (ts : List PTok)
    (hk : k.tok = .unq kw) (arg : Option (List Char)) (e : PTok) (rest : List PTok)
    (h : argument text (decide (kw = Spec.Parse.patternKw)) ts = some (arg, e :: rest)) (he : e.tok = .lbrace)
    (subs : List Stmt) (c : PTok) (r' : List PTok) (hs : stmts text g rest = some (subs, c :: r'))
    (hc : c.tok = .rbrace) :
    stmt text (g + 1) (k :: ts) =
      some ({ keyword := kw, arg := arg, line := lineOf text k.off, col := colOf text k.off, subs := subs }, r') := by
  unfold stmt
  simp only [hk, h, he, hs, hc, if_true]
  simp

theorem stmt_block_fail (text : List Char) (g : Nat) (k : PTok) (kw : List Char) (ts : List PTok)
    (hk : k.tok = .unq kw) (arg : Option (List Char)) (e : PTok) (rest : List PTok)
    (h : argument text (decide (kw = Spec.Parse.patternKw)) ts = some (arg, e :: rest)) (he : e.tok = .lbrace)
    (hs : stmts text g rest = none ∨ ∃ ss, stmts text g rest = some (ss, [])) :
    stmt text (g + 1) (k :: ts) = none := by
  unfold stmt
  simp only [hk, h, he]
  rcases hs with hs | ⟨ss, hs⟩
  · simp [hs]
  · simp [hs]

theorem stmts_nil (text : List Char) (g : Nat) : stmts text (g + 1) [] = some ([], []) := by
  unfold stmts; rfl

theorem stmts_rbrace (text : List Char) (g : Nat) (t : PTok) (ts : List PTok) (h : t.tok = .rbrace) :
    stmts text (g + 1) (t :: ts) = some ([], t :: ts) := by
  unfold stmts; simp [h]

theorem stmts_cons_none (text : List Char) (g : Nat) (t : PTok) (ts : List PTok) (h : t.tok ≠ .rbrace)
    (hs : stmt text g (t :: ts) = none) : stmts text (g + 1) (t :: ts) = none := by
  rw [stmts]; simp [h, hs]

theorem stmts_cons_none2 (text : List Char) (g : Nat) (t : PTok) (ts : List PTok) (h : t.tok ≠ .rbrace)
    (s : Stmt) (r : List PTok) (hs : stmt text g (t :: ts) = some (s, r)) (hr : stmts text g r = none) :
    stmts text (g + 1) (t :: ts) = none := by
  rw [stmts]; simp [h, hs, hr]

theorem stmts_cons_some (text : List Char) (g : Nat) (t : PTok) (ts : List PTok) (h : t.tok ≠ .rbrace)
    (s : Stmt) (r : List PTok) (hs : stmt text g (t :: ts) = some (s, r)) (ss : List Stmt) (r' : List PTok)
    (hr : stmts text g r = some (ss, r')) :
    stmts text (g + 1) (t :: ts) = some (s :: ss, r') := by
  rw [stmts]; simp [h, hs, hr]

/-! ## how many tokens a statement takes -/

theorem concatTail_suffix (text : List Char) (b : Bool) : ∀ (n : Nat) (ts : List PTok), ts.length ≤ n →
    ∀ v rest, concatTail text b ts = some (v, rest) → rest <:+ ts := by
  intro n
  induction n with
  | zero =>
    intro ts h v rest hc
    have : ts = [] := List.eq_nil_of_length_eq_zero (by omega)
    subst this
    simp [concatTail] at hc
    rw [← hc.2]; exact List.suffix_refl _
  | succ n ih =>
    intro ts h v rest hc
    cases ts with
    | nil => simp [concatTail] at hc; rw [← hc.2]; exact List.suffix_refl _
    | cons p ts1 =>
      cases ts1 with
      | nil => simp [concatTail] at hc; rw [← hc.2]; exact List.suffix_refl _
      | cons q ts2 =>
        by_cases hcond : (p.tok = .unq ['+'] && q.tok.isQuoted) = true
        · simp only [concatTail, hcond, if_true] at hc
          cases hp : piece text b q with
          | none => simp [hp] at hc
          | some s =>
            cases hr : concatTail text b ts2 with
            | none => simp [hp, hr] at hc
            | some vr =>
              obtain ⟨v', r'⟩ := vr
              simp only [hp, hr, Option.some.injEq, Prod.mk.injEq] at hc
              have := ih ts2 (by simp only [List.length_cons] at h; omega) v' r' hr
              rw [← hc.2]
              exact this.trans ((List.suffix_cons q ts2).trans (List.suffix_cons p _))
        · simp only [concatTail, hcond, Bool.false_eq_true, if_false, Option.some.injEq, Prod.mk.injEq] at hc
          rw [← hc.2]; exact List.suffix_refl _

theorem argument_suffix (text : List Char) (b : Bool) (ts : List PTok) (arg : Option (List Char))
    (rest : List PTok) (h : argument text b ts = some (arg, rest)) : rest <:+ ts := by
  cases ts with
  | nil => simp [argument] at h; rw [← h.2]; exact List.suffix_refl _
  | cons t ts' =>
    have hq : ∀ (hp : Option (List Char)),
        (match hp, concatTail text b ts' with
          | some s, some (s', r) => some (some (s ++ s'), r)
          | _, _ => none) = some (arg, rest) → rest <:+ t :: ts' := by
      intro hp h
      cases hp with
      | none => simp at h
      | some s =>
        cases hc : concatTail text b ts' with
        | none => simp [hc] at h
        | some vr =>
          obtain ⟨v', r'⟩ := vr
          simp only [hc, Option.some.injEq, Prod.mk.injEq] at h
          have := concatTail_suffix text b _ ts' (Nat.le_refl _) _ _ hc
          rw [← h.2]; exact this.trans (List.suffix_cons t ts')
    cases hk : t.tok with
    | unq a => simp [argument, hk] at h; rw [← h.2]; exact List.suffix_cons t ts'
    | sq s0 => simp only [argument, hk] at h; exact hq _ h
    | dq raw => simp only [argument, hk] at h; exact hq _ h
    | semi => simp [argument, hk] at h; rw [← h.2]; exact List.suffix_refl _
    | lbrace => simp [argument, hk] at h; rw [← h.2]; exact List.suffix_refl _
    | rbrace => simp [argument, hk] at h; rw [← h.2]; exact List.suffix_refl _

theorem stmt_stmts_suffix (text : List Char) : ∀ (g : Nat),
    (∀ ts s rest, stmt text g ts = some (s, rest) → rest <:+ ts ∧ rest.length + 2 ≤ ts.length) ∧
    (∀ ts ss rest, stmts text g ts = some (ss, rest) → rest <:+ ts) := by
  intro g
  induction g with
  | zero =>
    constructor
    · intro ts s rest h; simp [stmt] at h
    · intro ts ss rest h; simp [stmts] at h
  | succ g ih =>
    obtain ⟨ih1, ih2⟩ := ih
    constructor
    · intro ts s rest h
      cases ts with
      | nil => simp [stmt] at h
      | cons k ts' =>
        unfold stmt at h
        split at h
        · split at h
          · cases h
          · rename_i arg r1 harg
            have hsx := argument_suffix text _ ts' arg r1 harg
            have hl := hsx.length_le
            split at h
            · rename_i e r2
              split at h
              · simp only [Option.some.injEq, Prod.mk.injEq] at h
                rw [← h.2]
                refine ⟨(List.suffix_cons e r2).trans (hsx.trans (List.suffix_cons k ts')), ?_⟩
                simp only [List.length_cons] at hl ⊢; omega
              · split at h
                · split at h
                  · rename_i subs c r3 hs
                    split at h
                    · simp only [Option.some.injEq, Prod.mk.injEq] at h
                      have hs3 := ih2 _ _ _ hs
                      have := hs3.length_le
                      rw [← h.2]
                      refine ⟨(List.suffix_cons c r3).trans (hs3.trans ((List.suffix_cons e r2).trans
                        (hsx.trans (List.suffix_cons k ts')))), ?_⟩
                      simp only [List.length_cons] at hl this ⊢; omega
                    · cases h
                  · cases h
                · cases h
            · cases h
        · cases h
    · intro ts ss rest h
      cases ts with
      | nil => simp [stmts] at h; rw [← h.2]; exact List.suffix_refl _
      | cons t ts' =>
        by_cases hr : t.tok = .rbrace
        · rw [stmts_rbrace text g t ts' hr] at h
          simp only [Option.some.injEq, Prod.mk.injEq] at h
          rw [← h.2]; exact List.suffix_refl _
        · cases hs : stmt text g (t :: ts') with
          | none => rw [stmts_cons_none text g t ts' hr hs] at h; cases h
          | some sr =>
            obtain ⟨s, r⟩ := sr
            cases hss : stmts text g r with
            | none => rw [stmts_cons_none2 text g t ts' hr s r hs hss] at h; cases h
            | some ssr =>
              obtain ⟨ss', r'⟩ := ssr
              rw [stmts_cons_some text g t ts' hr s r hs ss' r' hss] at h
              simp only [Option.some.injEq, Prod.mk.injEq] at h
              have h1 := (ih1 _ _ _ hs).1
              have h2 := ih2 _ _ _ hss
              rw [← h.2]; exact h2.trans h1

/-! ## (c) statements and blocks -/

/-- what `nextStatement` does before a token that starts a statement -/
def StmtPost (text : List Char) (file : List UInt8) (g : Nat) (ts : List PTok) (p : P) (r : NS × P) : Prop :=
  (∃ s rest, stmt text g ts = some (s, rest) ∧ r.1 = .stmt (encStmt file s) ∧ At text file r.2 rest ∧
      r.2.depth = p.depth ∧ r.2.src.tail = p.src.tail) ∨
  (Bad r.2 ∧ stmt text g ts = none) ∨
  (r.1 = .eof ∧ r.2.src.errs = [] ∧ r.2.fault = .none ∧ r.2.src.tail = none ∧ p.depth + 1 ≤ r.2.depth ∧
      stmt text g ts = none ∧ p.src.tail = none)

/-- what the loop after `{` does -/
def BlockPost (text : List Char) (file : List UInt8) (g : Nat) (ts : List PTok) (acc : List Statement) (p : P)
    (r : Option (List Statement) × P) : Prop :=
  (∃ ss c rest, stmts text g ts = some (ss, c :: rest) ∧ c.tok = .rbrace ∧
      r.1 = some (acc ++ encStmts file ss) ∧ At text file r.2 rest ∧ r.2.depth = p.depth - 1 ∧
      r.2.src.tail = p.src.tail) ∨
  (Bad r.2 ∧ (stmts text g ts = none ∨ ∃ ss, stmts text g ts = some (ss, []))) ∨
  (r.1 = none ∧ r.2.src.errs = [] ∧ r.2.fault = .none ∧ r.2.src.tail = none ∧ p.depth ≤ r.2.depth ∧
      (stmts text g ts = none ∨ ∃ ss, stmts text g ts = some (ss, [])) ∧ p.src.tail = none)

theorem nextStatement_nil (text : List Char) (file : List UInt8) (f : Nat) (p : P) (hat : At text file p []) :
    (nextStatement LS (f + 1) p).1 = .eof ∧
    (p.src.tail ≠ none → Bad (nextStatement LS (f + 1) p).2) ∧
    (p.src.tail = none → At text file (nextStatement LS (f + 1) p).2 [] ∧
      (nextStatement LS (f + 1) p).2.src.tail = none ∧ (nextStatement LS (f + 1) p).2.depth = p.depth) := by
  unfold nextStatement
  simp only
  obtain ⟨n1, n2, n3⟩ := next_nil text file false f p hat
  rw [n1]
  exact ⟨rfl, n2, n3⟩

theorem nextStatement_rbrace (text : List Char) (file : List UInt8) (f : Nat) (p : P) (t : PTok) (ts : List PTok)
    (hat : At text file p (t :: ts)) (ht : t.tok = .rbrace) :
    (nextStatement LS (f + 1) p).1 = .brace file (lineOf text t.off) (colOf text t.off) ∧
    At text file (nextStatement LS (f + 1) p).2 ts ∧
    (nextStatement LS (f + 1) p).2.depth = p.depth - 1 ∧
    (nextStatement LS (f + 1) p).2.src.tail = p.src.tail := by
  unfold nextStatement
  simp only
  obtain ⟨n1, n2, n3, n4⟩ := next_plain text file false f p t ts hat (by rw [ht]; rfl)
  rw [n1]
  simp only
  rw [if_pos (by rw [conv_code, ht]; rfl)]
  refine ⟨rfl, ⟨n2.stack, n2.toks, n2.clean, n2.fault, n2.text, n2.file⟩, ?_, n3⟩
  show (next LS false f p).2.depth - 1 = _
  rw [n4]

theorem mkStmt_enc (text : List Char) (file : List UInt8) (k : PTok) (kw : List Char) (hk : k.tok = .unq kw)
    (arg : Option (List Char)) (subs : List Stmt) :
    mkStmt (conv text file k) (arg.isSome, encodeChars (arg.getD [])) (encStmts file subs) =
      encStmt file { keyword := kw, arg := arg, line := lineOf text k.off, col := colOf text k.off, subs := subs } := by
  simp [mkStmt, encStmt, conv, tokText, hk]

theorem stmt_block_spec (text : List Char) (file : List UInt8) : ∀ (n : Nat),
    (∀ (ts : List PTok), ts.length ≤ n → ∀ (t : PTok) (ts' : List PTok), ts = t :: ts' → t.tok ≠ .rbrace →
      ∀ (f g : Nat) (p : P), At text file p ts → ts.length + 1 ≤ f → ts.length ≤ g → (∀ x ∈ ts, okTok x) →
      StmtPost text file g ts p (nextStatement LS f p)) ∧
    (∀ (ts : List PTok), ts.length ≤ n →
      ∀ (f g : Nat) (acc : List Statement) (p : P), At text file p ts → ts.length + 2 ≤ f → ts.length + 1 ≤ g →
      (∀ x ∈ ts, okTok x) → BlockPost text file g ts acc p (blockLoop LS f acc p)) := by
  intro n
  induction n using Nat.strongRecOn with
  | _ n ih =>
    -- statements first
    have hstmt : ∀ (ts : List PTok), ts.length ≤ n → ∀ (t : PTok) (ts' : List PTok), ts = t :: ts' →
        t.tok ≠ .rbrace → ∀ (f g : Nat) (p : P), At text file p ts → ts.length + 1 ≤ f → ts.length ≤ g →
        (∀ x ∈ ts, okTok x) → StmtPost text file g ts p (nextStatement LS f p) := by
      intro ts hn t ts' hts hnr f g p hat hf hg hadm
      subst hts
      obtain ⟨f, rfl⟩ : ∃ f', f = f' + 1 := ⟨f - 1, by omega⟩
      obtain ⟨g, rfl⟩ : ∃ g', g = g' + 1 := ⟨g - 1, by simp only [List.length_cons] at hg; omega⟩
      simp only [List.length_cons] at hf hg hn
      unfold nextStatement
      simp only
      cases hq : t.tok.isQuoted with
      | true =>
        -- a quoted string where a keyword must stand
        obtain ⟨T, n1, n2, _⟩ := next_quoted text file false f p t ts' hat hq (by omega) hadm
        rw [n1]
        simp only
        rw [if_neg (by rw [n2]; simp), if_pos (by rw [n2]; simp)]
        right; left
        refine ⟨addErr_bad _ _, stmt_not_unq text _ t ts' ?_⟩
        intro kw hk; rw [hk] at hq; cases hq
      | false =>
        obtain ⟨n1, n2, n3, n4⟩ := next_plain text file false f p t ts' hat hq
        rw [n1]
        simp only
        rw [if_neg (by rw [conv_code]; intro h; exact hnr ((tokCode_rbrace _).1 h))]
        by_cases hunq : (conv text file t).code = Code.unquoted
        · rw [if_neg (by simp [hunq])]
          obtain ⟨kw, hk⟩ := (tokCode_unquoted t.tok).1 hunq
          have hb : decide ((conv text file t).text = Model.Parse.patternKw) = decide (kw = Spec.Parse.patternKw) := by
            simp only [conv, tokText, hk]; exact patternKw_iff kw
          have hadm' : ∀ x ∈ ts', okTok x := fun x hx => hadm x (by simp [hx])
          rcases fetchArg_spec text file (conv text file t) _ hb f _ ts' n2 (by omega) hadm' with
            ⟨arg, e, rest, harg, hterm, ha1, ha2, ha3, ha4, ha5⟩ | ⟨hbad, hsf⟩ | ⟨hsf, hnone⟩
          · rw [ha2]
            simp only
            have hsx := argument_suffix text _ ts' arg _ harg
            have hrl := hsx.length_le
            simp only [List.length_cons] at hrl
            rcases hterm with he | he
            · -- `;`
              rw [if_pos (by rw [conv_code, he]; rfl)]
              left
              refine ⟨_, rest, stmt_semi text g t kw ts' hk arg e rest harg he, ?_, ha3, ha4.trans n4, ha5.trans n3⟩
              rw [ha1]
              exact congrArg NS.stmt (mkStmt_enc text file t kw hk arg [])
            · -- `{`
              rw [if_neg (by rw [conv_code, he]; simp [tokCode]), if_pos (by rw [conv_code, he]; rfl)]
              have hatb : At text file (setDepth ((fetchArg LS (conv text file t) f (next LS false f p).2).2.2.depth + 1)
                  (fetchArg LS (conv text file t) f (next LS false f p).2).2.2) rest :=
                ⟨ha3.stack, ha3.toks, ha3.clean, ha3.fault, ha3.text, ha3.file⟩
              have hblk := (ih rest.length (by omega)).2 rest (Nat.le_refl _) f g []
                (setDepth ((fetchArg LS (conv text file t) f (next LS false f p).2).2.2.depth + 1)
                  (fetchArg LS (conv text file t) f (next LS false f p).2).2.2) hatb (by omega) (by omega)
                (fun x hx => hadm' x (List.IsSuffix.mem hx ((List.suffix_cons e rest).trans hsx)))
              rcases hblk with ⟨ss, c, rest', hss, hc, hr1, hr2, hr3, hr4⟩ | ⟨hbad, hsp⟩ |
                ⟨hr1, hr2, hr3, hr4, hr5, hsp, hr6⟩
              · rw [hr1]
                simp only
                left
                refine ⟨_, rest', stmt_block_some text g t kw ts' hk arg e rest harg he ss c rest' hss hc, ?_, hr2, ?_,
                  hr4.trans (ha5.trans n3)⟩
                · rw [ha1, List.nil_append]
                  exact congrArg NS.stmt (mkStmt_enc text file t kw hk arg ss)
                · rw [hr3]
                  show (fetchArg LS (conv text file t) f (next LS false f p).2).2.2.depth + 1 - 1 = p.depth
                  rw [ha4, n4]; omega
              · right; left
                refine ⟨?_, stmt_block_fail text g t kw ts' hk arg e rest harg he hsp⟩
                split <;> exact hbad
              · rw [hr1]
                simp only
                right; right
                refine ⟨rfl, hr2, hr3, hr4, ?_, stmt_block_fail text g t kw ts' hk arg e rest harg he hsp,
                  (n3.symm.trans (ha5.symm.trans hr6))⟩
                have : (setDepth ((fetchArg LS (conv text file t) f (next LS false f p).2).2.2.depth + 1)
                  (fetchArg LS (conv text file t) f (next LS false f p).2).2.2).depth = p.depth + 1 := by
                  show (fetchArg LS (conv text file t) f (next LS false f p).2).2.2.depth + 1 = p.depth + 1
                  rw [ha4, n4]
                rw [this] at hr5
                exact hr5
          · -- an error has been written while the argument was read
            right; left
            refine ⟨?_, stmt_fail text _ t kw ts' hk hsf⟩
            split
            · exact addErr_bad _ _
            · split
              · exact hbad
              · split
                · have h3 := (stmt_block_bad f).2 [] _ (show Bad (setDepth
                      ((fetchArg LS (conv text file t) f (next LS false f p).2).2.2.depth + 1)
                      (fetchArg LS (conv text file t) f (next LS false f p).2).2.2) from hbad)
                  split <;> exact h3
                · exact addErr_bad _ _
          · -- neither `;` nor `{` follows
            right; left
            refine ⟨?_, stmt_fail text _ t kw ts' hk hsf⟩
            rcases hnone with hn | ⟨T, hT, h59, h123⟩
            · rw [hn]
              exact addErr_bad _ _
            · rw [hT]
              simp only
              rw [if_neg h59, if_neg h123]
              exact addErr_bad _ _
        · -- `;` or `{` where a keyword must stand
          rw [if_pos (by simpa using hunq)]
          right; left
          refine ⟨addErr_bad _ _, stmt_not_unq text _ t ts' ?_⟩
          intro kw hk
          apply hunq
          rw [conv_code, hk]; rfl
    refine ⟨hstmt, ?_⟩
    -- the loop after `{`
    intro ts hn f g acc p hat hf hg hadm
    obtain ⟨f, rfl⟩ : ∃ f', f = f' + 1 := ⟨f - 1, by omega⟩
    obtain ⟨g, rfl⟩ : ∃ g', g = g' + 1 := ⟨g - 1, by omega⟩
    unfold blockLoop
    simp only
    cases ts with
    | nil =>
      obtain ⟨f, rfl⟩ : ∃ f', f = f' + 1 := ⟨f - 1, by simp only [List.length_nil] at hf; omega⟩
      obtain ⟨n1, n2, n3⟩ := nextStatement_nil text file f p hat
      rw [n1]
      simp only
      cases htail : p.src.tail with
      | none =>
        right; right
        obtain ⟨m1, m2, m3⟩ := n3 htail
        exact ⟨rfl, m1.clean, m1.fault, m2, by rw [m3]; exact Int.le_refl _, Or.inr ⟨[], stmts_nil text g⟩, htail⟩
      | some e =>
        right; left
        exact ⟨n2 (by rw [htail]; simp), Or.inr ⟨[], stmts_nil text g⟩⟩
    | cons t ts' =>
      simp only [List.length_cons] at hf hg hn
      by_cases hr : t.tok = .rbrace
      · obtain ⟨f, rfl⟩ : ∃ f', f = f' + 1 := ⟨f - 1, by omega⟩
        obtain ⟨n1, n2, n3, n4⟩ := nextStatement_rbrace text file f p t ts' hat hr
        rw [n1]
        simp only
        left
        exact ⟨[], t, ts', stmts_rbrace text g t ts' hr, hr, by simp [encStmts], n2, n3, n4⟩
      · have hs := hstmt (t :: ts') (by simp only [List.length_cons]; omega) t ts' rfl hr f g p hat
          (by simp only [List.length_cons]; omega) (by simp only [List.length_cons]; omega) hadm
        rcases hs with ⟨s, rest, hsp, h1, h2, h3, h4⟩ | ⟨hbad, hsp⟩ | ⟨h1, h2, h3, h4, h5, hsp, h6⟩
        · rw [h1]
          simp only
          obtain ⟨hsx, hlen⟩ := (stmt_stmts_suffix text g).1 _ _ _ hsp
          simp only [List.length_cons] at hlen
          have hblk := (ih rest.length (by omega)).2 rest (Nat.le_refl _) f g (acc ++ [encStmt file s])
            (nextStatement LS f p).2 h2 (by omega) (by omega) (fun x hx => hadm x (List.IsSuffix.mem hx hsx))
          rcases hblk with ⟨ss, c, rest', hss, hc, hr1, hr2, hr3, hr4⟩ | ⟨hbad, hsp'⟩ |
            ⟨hr1, hr2, hr3, hr4, hr5, hsp', hr6⟩
          · left
            refine ⟨s :: ss, c, rest', stmts_cons_some text g t ts' hr s rest hsp ss _ hss, hc, ?_, hr2, ?_,
              hr4.trans h4⟩
            · rw [hr1]; simp [encStmts]
            · rw [hr3, h3]
          · right; left
            refine ⟨hbad, ?_⟩
            rcases hsp' with h | ⟨ss, h⟩
            · exact Or.inl (stmts_cons_none2 text g t ts' hr s rest hsp h)
            · exact Or.inr ⟨s :: ss, stmts_cons_some text g t ts' hr s rest hsp ss _ h⟩
          · right; right
            refine ⟨hr1, hr2, hr3, hr4, by rw [← h3]; exact hr5, ?_, h4.symm.trans hr6⟩
            rcases hsp' with h | ⟨ss, h⟩
            · exact Or.inl (stmts_cons_none2 text g t ts' hr s rest hsp h)
            · exact Or.inr ⟨s :: ss, stmts_cons_some text g t ts' hr s rest hsp ss _ h⟩
        · right; left
          refine ⟨?_, Or.inl (stmts_cons_none text g t ts' hr hsp)⟩
          split
          · exact hbad
          · exact hbad
          · exact (stmt_block_bad f).2 _ _ hbad
        · rw [h1]
          simp only
          right; right
          exact ⟨rfl, h2, h3, h4, by simp only; omega, Or.inl (stmts_cons_none text g t ts' hr hsp), h6⟩

/-! ## (c) the whole text -/

theorem stmts_cons_inv (text : List Char) (g : Nat) (t : PTok) (ts : List PTok) (h : t.tok ≠ .rbrace)
    (s : Stmt) (r : List PTok) (hs : stmt text g (t :: ts) = some (s, r)) (x : List Stmt)
    (hx : stmts text (g + 1) (t :: ts) = some (x, [])) : ∃ ss, stmts text g r = some (ss, []) := by
  cases hss : stmts text g r with
  | none => rw [stmts_cons_none2 text g t ts h s r hs hss] at hx; cases hx
  | some ssr =>
    obtain ⟨ss, r'⟩ := ssr
    rw [stmts_cons_some text g t ts h s r hs ss r' hss] at hx
    simp only [Option.some.injEq, Prod.mk.injEq] at hx
    exact ⟨ss, by rw [hx.2]⟩

def TopPost (text : List Char) (file : List UInt8) (g : Nat) (ts : List PTok) (acc : List Statement) (p : P)
    (r : List Statement × P) : Prop :=
  (p.src.tail = none ∧ ∃ ss, stmts text g ts = some (ss, []) ∧ r.1 = acc ++ encStmts file ss ∧
      r.2.src.errs = [] ∧ r.2.fault = .none ∧ r.2.depth = p.depth) ∨
  (Bad r.2 ∧ (p.src.tail ≠ none ∨ ¬ ∃ ss, stmts text g ts = some (ss, []))) ∨
  (p.src.tail = none ∧ r.2.src.errs = [] ∧ r.2.fault = .none ∧ p.depth + 1 ≤ r.2.depth ∧
      ¬ ∃ ss, stmts text g ts = some (ss, []))

theorem topLoop_spec (text : List Char) (file : List UInt8) : ∀ (n : Nat) (ts : List PTok), ts.length ≤ n →
    ∀ (f g : Nat) (acc : List Statement) (p : P), At text file p ts → ts.length + 2 ≤ f → ts.length + 1 ≤ g →
    (∀ x ∈ ts, okTok x) → TopPost text file g ts acc p (topLoop LS f acc p) := by
  intro n
  induction n using Nat.strongRecOn with
  | _ n ih =>
    intro ts hn f g acc p hat hf hg hadm
    obtain ⟨f, rfl⟩ : ∃ f', f = f' + 1 := ⟨f - 1, by omega⟩
    obtain ⟨g, rfl⟩ : ∃ g', g = g' + 1 := ⟨g - 1, by omega⟩
    unfold topLoop
    simp only
    cases ts with
    | nil =>
      obtain ⟨f, rfl⟩ : ∃ f', f = f' + 1 := ⟨f - 1, by simp only [List.length_nil] at hf; omega⟩
      obtain ⟨n1, n2, n3⟩ := nextStatement_nil text file f p hat
      rw [n1]
      simp only
      cases htail : p.src.tail with
      | none =>
        left
        obtain ⟨m1, m2, m3⟩ := n3 htail
        exact ⟨htail, [], stmts_nil text g, by simp [encStmts], m1.clean, m1.fault, m3⟩
      | some e =>
        right; left
        exact ⟨n2 (by rw [htail]; simp), Or.inl (by rw [htail]; simp)⟩
    | cons t ts' =>
      simp only [List.length_cons] at hf hg hn
      by_cases hr : t.tok = .rbrace
      · obtain ⟨f, rfl⟩ : ∃ f', f = f' + 1 := ⟨f - 1, by omega⟩
        obtain ⟨n1, n2, n3, n4⟩ := nextStatement_rbrace text file f p t ts' hat hr
        rw [n1]
        simp only
        right; left
        refine ⟨topLoop_bad _ _ _ (addErr_bad _ _), Or.inr ?_⟩
        rintro ⟨ss, hss⟩
        rw [stmts_rbrace text g t ts' hr] at hss
        simp at hss
      · have hs := (stmt_block_spec text file (ts'.length + 1)).1 (t :: ts') (by simp) t ts' rfl hr f g p hat
          (by simp only [List.length_cons]; omega) (by simp only [List.length_cons]; omega) hadm
        rcases hs with ⟨s, rest, hsp, h1, h2, h3, h4⟩ | ⟨hbad, hsp⟩ | ⟨h1, h2, h3, h4, h5, hsp, h6⟩
        · rw [h1]
          simp only
          obtain ⟨hsx, hlen⟩ := (stmt_stmts_suffix text g).1 _ _ _ hsp
          simp only [List.length_cons] at hlen
          have htop := ih rest.length (by omega) rest (Nat.le_refl _) f g (acc ++ [encStmt file s])
            (nextStatement LS f p).2 h2 (by omega) (by omega) (fun x hx => hadm x (List.IsSuffix.mem hx hsx))
          rcases htop with ⟨ht, ss, hss, hr1, hr2, hr3, hr4⟩ | ⟨hbad, hsp'⟩ | ⟨ht, hr2, hr3, hr5, hsp'⟩
          · left
            refine ⟨h4.symm.trans ht, s :: ss, stmts_cons_some text g t ts' hr s rest hsp ss _ hss, ?_, hr2, hr3,
              hr4.trans h3⟩
            rw [hr1]; simp [encStmts]
          · right; left
            refine ⟨hbad, ?_⟩
            rcases hsp' with h | h
            · exact Or.inl (by rw [← h4]; exact h)
            · right
              rintro ⟨x, hx⟩
              exact h (stmts_cons_inv text g t ts' hr s rest hsp x hx)
          · right; right
            refine ⟨h4.symm.trans ht, hr2, hr3, by omega, ?_⟩
            rintro ⟨x, hx⟩
            exact hsp' (stmts_cons_inv text g t ts' hr s rest hsp x hx)
        · right; left
          refine ⟨?_, Or.inr ?_⟩
          · split
            · exact hbad
            · exact topLoop_bad _ _ _ (addErr_bad _ _)
            · exact topLoop_bad _ _ _ hbad
          · rintro ⟨x, hx⟩
            rw [stmts_cons_none text g t ts' hr hsp] at hx
            cases hx
        · rw [h1]
          simp only
          right; right
          refine ⟨h6, h2, h3, h5, ?_⟩
          rintro ⟨x, hx⟩
          rw [stmts_cons_none text g t ts' hr hsp] at hx
          cases hx

/-- the parser before the first token -/
def initP (text : List Char) (file : List UInt8) (toks : List PTok) (tail : Option ErrLine) : P :=
  { src := { text := text, file := file, toks := toks, errs := [], tail := tail }, tokens := [], depth := 0,
    fault := .none }

/-- **(c)**: over the tokens of the reference reader the parser model returns a forest exactly
when the statement grammar derives one, and it is the same forest (keywords, arguments with
`+`-joined pieces concatenated, positions, nesting, sibling order).  `tail` is what a lexer that
stops at an unterminated quote or comment reports after the last token. -/
theorem parse_list (text : List Char) (file : List UInt8) (toks : List PTok) (tail : Option ErrLine)
    (fuel : Nat) (hf : toks.length + 2 ≤ fuel) (hadm : ∀ x ∈ toks, okTok x) (forest : List Statement) :
    parseWith LS fuel { text := text, file := file, toks := toks, errs := [], tail := tail } = .ok forest ↔
      tail = none ∧ ∃ ss, parseTokens text toks = some ss ∧ forest = encStmts file ss := by
  unfold parseWith
  simp only
  rw [show initParser (⟨text, file, toks, [], tail⟩ : LSrc) = initP text file toks tail from rfl]
  have hat : At text file ((initP text file toks tail) : P) toks := ⟨rfl, rfl, rfl, rfl, rfl, rfl⟩
  have htop := topLoop_spec text file toks.length toks (Nat.le_refl _) fuel (toks.length + 1) [] _ hat hf
    (Nat.le_refl _) hadm
  have hpt : ∀ ss, parseTokens text toks = some ss ↔ stmts text (toks.length + 1) toks = some (ss, []) := by
    intro ss
    unfold parseTokens
    constructor
    · intro h
      split at h
      · rename_i forest' heq; injection h with h; rw [heq, h]
      · cases h
    · intro h; rw [h]
  rcases htop with ⟨ht, ss, hss, hr1, hr2, hr3, hr4⟩ | ⟨hbad, hsp⟩ | ⟨ht, hr2, hr3, hr5, hsp⟩
  · have hd : (topLoop LS fuel [] (initP text file toks tail)).2.depth = 0 := hr4
    have hchk : checkStatementDepthIsZero LS (topLoop LS fuel [] (initP text file toks tail)).2 =
        (topLoop LS fuel [] (initP text file toks tail)).2 := by
      unfold checkStatementDepthIsZero
      rw [if_pos (by rw [hd]; simp)]
    rw [hchk, if_neg (by rw [hr3]; simp), if_neg (by simp [listSource]),
      if_pos (by show (List.isEmpty (LSrc.errs _)) = true; rw [hr2]; rfl)]
    rw [hr1]
    simp only [List.nil_append, ParseResult.ok.injEq]
    constructor
    · intro h; exact ⟨ht, ss, (hpt ss).2 hss, h.symm⟩
    · rintro ⟨_, ss', hss', hf'⟩
      have := (hpt ss').1 hss'
      rw [hss] at this
      simp only [Option.some.injEq, Prod.mk.injEq, and_true] at this
      rw [hf', this]
  · have hb2 : Bad (checkStatementDepthIsZero LS (topLoop LS fuel [] (initP text file toks tail)).2) := by
      unfold checkStatementDepthIsZero
      split
      · exact hbad
      · exact addErr_bad _ _
    constructor
    · intro h
      exfalso
      split at h
      · cases h
      · split at h
        · cases h
        · split at h
          · rename_i he
            apply hb2
            exact List.isEmpty_iff.mp he
          · cases h
    · rintro ⟨ht, ss, hss, _⟩
      exfalso
      rcases hsp with h | h
      · exact h ht
      · exact h ⟨ss, (hpt ss).1 hss⟩
  · have hne : ¬ ((LS.errs (topLoop LS fuel [] (initP text file toks tail)).2.src).isEmpty = false ∨
        (topLoop LS fuel [] (initP text file toks tail)).2.depth = 0) := by
      intro h
      rcases h with h | h
      · have : (LS.errs (topLoop LS fuel [] (initP text file toks tail)).2.src) = [] := hr2
        rw [this] at h; cases h
      · rw [h] at hr5
        have : (initP text file toks tail).depth = 0 := rfl
        omega
    have hb2 : Bad (checkStatementDepthIsZero LS (topLoop LS fuel [] (initP text file toks tail)).2) := by
      unfold checkStatementDepthIsZero
      rw [if_neg (by simpa using hne)]
      exact addErr_bad _ _
    constructor
    · intro h
      exfalso
      split at h
      · cases h
      · split at h
        · cases h
        · split at h
          · rename_i he
            apply hb2
            exact List.isEmpty_iff.mp he
          · cases h
    · rintro ⟨_, ss, hss, _⟩
      exact absurd ⟨ss, (hpt ss).1 hss⟩ hsp

/-! ## an unterminated quote or comment is always reported -/

open Goyang.Lemmas.ParseSim (Faulty concatLoop_faulty next_faulty fetchArg_faulty stmt_block_faulty topLoop_faulty)

/-- the lexer's report is still to come, or an error has been written -/
def Armed (p : P) : Prop := p.src.tail ≠ none ∨ Bad p

/-- an error has been written or the parser has run out of fuel: the result is not a forest -/
def Dead (p : P) : Prop := Bad p ∨ Faulty p

theorem pullTok_armed (b : Bool) (p : P) (h : Armed p) :
    Armed (pullTok LS b p).2 ∧ ((pullTok LS b p).1 = none → Bad (pullTok LS b p).2) := by
  cases ht : p.src.toks with
  | nil =>
    obtain ⟨h1, h2, h3, h4, h5, h6, h7, h8, h9, h10⟩ := pullTok_nil b p ht
    have hb : Bad (pullTok LS b p).2 := by
      rcases h with h | h
      · exact h9 h
      · exact h10 h
    exact ⟨Or.inr hb, fun _ => hb⟩
  | cons t ts =>
    obtain ⟨h1, h2, h3, h4, h5, h6, h7, h8, h9, h10, h11⟩ := pullTok_cons b p t ts ht
    refine ⟨?_, fun hn => by rw [h1] at hn; cases hn⟩
    rcases h with h | h
    · left; rw [h8]; exact h
    · right; exact h11 h

theorem push_armed (ts : List Token) (p : P) (h : Armed p) : Armed (push ts p) := h

theorem concatLoop_armed (b : Bool) : ∀ (f : Nat) (T : Token) (p : P), Armed p → Armed (concatLoop LS b f T p).2 := by
  intro f
  induction f with
  | zero => intro T p h; exact h
  | succ f ih =>
    intro T p h
    unfold concatLoop
    simp only
    have h1 := (pullTok_armed b p h).1
    split
    · exact h1
    · split
      · split
        · exact h1
        · have h2 := (pullTok_armed b _ h1).1
          split
          · exact h2
          · split
            · exact ih _ _ h2
            · exact h2
      · exact h1

theorem next_armed (b : Bool) (f : Nat) (p : P) (h : Armed p) :
    Armed (next LS b f p).2 ∧ ((next LS b f p).1 = none → Bad (next LS b f p).2) := by
  unfold next
  split
  · exact ⟨h, fun hn => by cases hn⟩
  · simp only
    obtain ⟨h1, h2⟩ := pullTok_armed b p h
    split
    · rename_i hn; exact ⟨h1, fun _ => h2 hn⟩
    · split
      · exact ⟨concatLoop_armed b f _ _ h1, fun hn => by cases hn⟩
      · exact ⟨h1, fun hn => by cases hn⟩

theorem fetchArg_armed (kw : Token) (f : Nat) (p : P) (h : Armed p) :
    Armed (fetchArg LS kw f p).2.2 ∧ ((fetchArg LS kw f p).2.1 = none → Bad (fetchArg LS kw f p).2.2) := by
  unfold fetchArg
  simp only
  obtain ⟨h1, h2⟩ := next_armed (kw.text = Model.Parse.patternKw) f p h
  split
  · rename_i a ha
    split
    · exact next_armed false f _ h1
    · exact ⟨h1, fun hn => by rw [ha] at hn; cases hn⟩
  · rename_i hn
    exact ⟨h1, fun _ => h2 hn⟩

theorem addErr_armed (e : ErrLine) (p : P) : Armed (addErr LS e p) := Or.inr (addErr_bad e p)

theorem stmt_block_armed : ∀ (f : Nat),
    (∀ (p : P), Armed p → Armed (nextStatement LS f p).2 ∧
      ((nextStatement LS f p).1 = .eof → Dead (nextStatement LS f p).2)) ∧
    (∀ (acc : List Statement) (p : P), Armed p → Armed (blockLoop LS f acc p).2 ∧
      ((blockLoop LS f acc p).1 = none → Dead (blockLoop LS f acc p).2)) := by
  intro f
  induction f with
  | zero =>
    constructor
    · intro p h; unfold nextStatement; exact ⟨h, fun _ => Or.inr (by unfold Faulty; simp)⟩
    · intro acc p h; unfold blockLoop; exact ⟨h, fun _ => Or.inr (by unfold Faulty; simp)⟩
  | succ f ih =>
    obtain ⟨ihs, ihb⟩ := ih
    constructor
    · intro p h
      unfold nextStatement
      simp only
      obtain ⟨h1, h2⟩ := next_armed false f p h
      split
      · rename_i hn; exact ⟨h1, fun _ => Or.inl (h2 hn)⟩
      · rename_i t _
        split
        · exact ⟨h1, fun hn => by cases hn⟩
        · split
          · exact ⟨addErr_armed _ _, fun hn => by cases hn⟩
          · obtain ⟨a1, a2⟩ := fetchArg_armed t f _ h1
            split
            · exact ⟨addErr_armed _ _, fun _ => Or.inl (addErr_bad _ _)⟩
            · split
              · exact ⟨a1, fun hn => by cases hn⟩
              · split
                · obtain ⟨b1, b2⟩ := ihb [] _ (show Armed (setDepth
                      ((fetchArg LS t f (next LS false f p).2).2.2.depth + 1)
                      (fetchArg LS t f (next LS false f p).2).2.2) from a1)
                  split
                  · rename_i hn; exact ⟨b1, fun _ => b2 hn⟩
                  · exact ⟨b1, fun hn => by cases hn⟩
                · exact ⟨addErr_armed _ _, fun hn => by cases hn⟩
    · intro acc p h
      unfold blockLoop
      simp only
      obtain ⟨h1, h2⟩ := ihs p h
      split
      · rename_i hn; exact ⟨h1, fun _ => h2 hn⟩
      · exact ⟨h1, fun hn => by cases hn⟩
      · exact ihb _ _ h1

theorem topLoop_armed : ∀ (f : Nat) (acc : List Statement) (p : P), Armed p → Dead (topLoop LS f acc p).2 := by
  intro f
  induction f with
  | zero => intro acc p _; unfold topLoop; exact Or.inr (by unfold Faulty; simp)
  | succ f ih =>
    intro acc p h
    unfold topLoop
    simp only
    obtain ⟨h1, h2⟩ := (stmt_block_armed f).1 p h
    split
    · rename_i hn; exact h2 hn
    · exact ih _ _ (addErr_armed _ _)
    · exact ih _ _ h1

/-- if the reference reader's tokeniser fails, the parser model over the tokens found so far does
not return a forest -/
theorem parse_list_fail (text : List Char) (file : List UInt8) (toks : List PTok) (e : ErrLine) (fuel : Nat)
    (forest : List Statement) :
    parseWith LS fuel { text := text, file := file, toks := toks, errs := [], tail := some e } ≠ .ok forest := by
  unfold parseWith
  simp only
  have hd := topLoop_armed fuel [] (initParser (⟨text, file, toks, [], some e⟩ : LSrc)) (Or.inl (by simp [initParser]))
  rcases hd with hb | hf
  · have hb2 : Bad (checkStatementDepthIsZero LS (topLoop LS fuel [] (initParser
        (⟨text, file, toks, [], some e⟩ : LSrc))).2) := by
      unfold checkStatementDepthIsZero
      split
      · exact hb
      · exact addErr_bad _ _
    split
    · simp
    · split
      · simp
      · split
        · rename_i he; exact absurd (List.isEmpty_iff.mp he) hb2
        · simp
  · have hf2 : (checkStatementDepthIsZero LS (topLoop LS fuel [] (initParser
        (⟨text, file, toks, [], some e⟩ : LSrc))).2).fault ≠ .none := by
      unfold checkStatementDepthIsZero
      split
      · exact hf
      · exact hf
    rw [if_pos hf2]
    simp

end Goyang.Lemmas.ListSrc
