/-
The reference reader's tokens as a token source for the (generic) parser model, and
(c): the parser model over that source = the statement grammar of the reference reader over the
same tokens (concatenation, nesting, sibling order, positions; rejection ⇔ an error line).
-/
import Goyang.Model.Parse
import Goyang.Spec.Parse
import Goyang.Lemmas.QStr

namespace Goyang.Lemmas.ListSrc
open Goyang.Model.Lex (Token Code ErrLine ErrClass Fault)
open Goyang.Model.Parse
open Goyang.Model.Utf8 (encodeChars)
open Goyang.Spec.Parse
open Goyang.Lemmas.QStr

/-! ## the statements of the reference reader as statements of the model -/

mutual
def encStmt (file : List UInt8) : Stmt → Statement
  | ⟨kw, arg, line, col, subs⟩ =>
    { keyword := encodeChars kw, hasArg := arg.isSome, arg := encodeChars (arg.getD []), file := file,
      line := line, col := col, subs := encStmts file subs }
def encStmts (file : List UInt8) : List Stmt → List Statement
  | [] => []
  | s :: r => encStmt file s :: encStmts file r
end

theorem encStmts_append (file : List UInt8) (a b : List Stmt) :
    encStmts file (a ++ b) = encStmts file a ++ encStmts file b := by
  induction a with
  | nil => simp [encStmts]
  | cons s r ih => simp [encStmts, ih]

/-! ## the token source -/

/-- tokens still to come, errors written so far, and what the lexer will report when it stops at
an unterminated quote or comment after the last token -/
structure LSrc where
  text : List Char
  file : List UInt8
  toks : List PTok
  errs : List ErrLine
  tail : Option ErrLine

def tokCode : Tok → Code
  | .semi => .punct 59
  | .lbrace => .punct 123
  | .rbrace => .punct 125
  | .unq _ => .unquoted
  | .sq _ => .string
  | .dq _ => .string

def tokText (text : List Char) (t : PTok) : List UInt8 :=
  match t.tok with
  | .semi => [59]
  | .lbrace => [123]
  | .rbrace => [125]
  | .unq s => encodeChars s
  | .sq s => encodeChars s
  | .dq raw => encodeChars (implValue (quoteCol text t.off) raw)

/-- the token the lexer hands out for `t` -/
def conv (text : List Char) (file : List UInt8) (t : PTok) : Token :=
  { code := tokCode t.tok, text := tokText text t, file := file,
    line := lineOf text t.off, col := colOf text t.off }

/-- a double-quoted token with an undefined backslash pair, read outside pattern mode -/
def badEsc (b : Bool) (t : PTok) : Bool :=
  match t.tok with
  | .dq raw => !b && !raw.all validEsc
  | _ => false

/-- characters before the first undefined backslash pair -/
def firstBadOff : List QItem → Nat
  | [] => 0
  | .lit _ :: r => 1 + firstBadOff r
  | .esc c :: r => if validEsc (.esc c) then 2 + firstBadOff r else 0

def escErr (text : List Char) (file : List UInt8) (t : PTok) : ErrLine :=
  match t.tok with
  | .dq raw =>
    { file := file, cls := .invalidEscape,
      pos := some (lineOf text (t.off + 1 + firstBadOff raw), colOf text (t.off + 1 + firstBadOff raw)) }
  | _ => { file := file, cls := .invalidEscape, pos := none }

def lpull (b : Bool) (s : LSrc) : Option Token × LSrc :=
  match s.toks with
  | [] => (none, match s.tail with
                 | some e => { s with errs := s.errs ++ [e], tail := none }
                 | none => s)
  | t :: ts =>
    (some (conv s.text s.file t),
     { s with toks := ts, errs := if badEsc b t then s.errs ++ [escErr s.text s.file t] else s.errs })

def listSource : Source LSrc where
  pull := lpull
  errs s := s.errs
  addErr e s := { s with errs := s.errs ++ [e] }
  endLoc s := (s.file, 0, 0)
  fault _ := .none

abbrev LS := listSource
abbrev P := Parser LSrc

/-! ## basic facts about fetching from the list -/

theorem pullTok_eq (b : Bool) (p : P) :
    pullTok LS b p = ((lpull b p.src).1, { p with src := (lpull b p.src).2 }) := rfl

theorem pullTok_nil (b : Bool) (p : P) (h : p.src.toks = []) :
    (pullTok LS b p).1 = none ∧ (pullTok LS b p).2.tokens = p.tokens ∧ (pullTok LS b p).2.depth = p.depth ∧
    (pullTok LS b p).2.fault = p.fault ∧ (pullTok LS b p).2.src.toks = [] ∧
    (pullTok LS b p).2.src.text = p.src.text ∧ (pullTok LS b p).2.src.file = p.src.file ∧
    (p.src.tail = none → (pullTok LS b p).2.src.errs = p.src.errs ∧ (pullTok LS b p).2.src.tail = none) ∧
    (p.src.tail ≠ none → (pullTok LS b p).2.src.errs ≠ []) ∧
    (p.src.errs ≠ [] → (pullTok LS b p).2.src.errs ≠ []) := by
  rw [pullTok_eq]
  unfold lpull
  rw [h]
  simp only
  cases ht : p.src.tail with
  | none => simp [h]
  | some e => simp [h]

theorem pullTok_cons (b : Bool) (p : P) (t : PTok) (ts : List PTok) (h : p.src.toks = t :: ts) :
    (pullTok LS b p).1 = some (conv p.src.text p.src.file t) ∧
    (pullTok LS b p).2.tokens = p.tokens ∧ (pullTok LS b p).2.depth = p.depth ∧
    (pullTok LS b p).2.fault = p.fault ∧ (pullTok LS b p).2.src.toks = ts ∧
    (pullTok LS b p).2.src.text = p.src.text ∧ (pullTok LS b p).2.src.file = p.src.file ∧
    (pullTok LS b p).2.src.tail = p.src.tail ∧
    (badEsc b t = false → (pullTok LS b p).2.src.errs = p.src.errs) ∧
    (badEsc b t = true → (pullTok LS b p).2.src.errs ≠ []) ∧
    (p.src.errs ≠ [] → (pullTok LS b p).2.src.errs ≠ []) := by
  rw [pullTok_eq]
  unfold lpull
  rw [h]
  simp only
  refine ⟨rfl, rfl, rfl, rfl, rfl, rfl, rfl, rfl, ?_, ?_, ?_⟩
  · intro hb; simp [hb]
  · intro hb; simp [hb]
  · intro he; split <;> simp [he]

theorem push_fields (ts : List Token) (p : P) :
    (push ts p).src = p.src ∧ (push ts p).depth = p.depth ∧ (push ts p).fault = p.fault ∧
    (push ts p).tokens = ts.reverse ++ p.tokens := ⟨rfl, rfl, rfl, rfl⟩

theorem addErr_fields (e : ErrLine) (p : P) :
    (addErr LS e p).src.errs = p.src.errs ++ [e] ∧ (addErr LS e p).src.toks = p.src.toks ∧
    (addErr LS e p).tokens = p.tokens ∧ (addErr LS e p).depth = p.depth ∧ (addErr LS e p).fault = p.fault ∧
    (addErr LS e p).src.text = p.src.text ∧ (addErr LS e p).src.file = p.src.file ∧
    (addErr LS e p).src.tail = p.src.tail := ⟨rfl, rfl, rfl, rfl, rfl, rfl, rfl, rfl⟩

theorem addErr_bad (e : ErrLine) (p : P) : (addErr LS e p).src.errs ≠ [] := by
  rw [(addErr_fields e p).1]; simp

/-- errors are never taken back -/
def Bad (p : P) : Prop := p.src.errs ≠ []

theorem pullTok_bad (b : Bool) (p : P) (h : Bad p) : Bad (pullTok LS b p).2 := by
  cases ht : p.src.toks with
  | nil => exact (pullTok_nil b p ht).2.2.2.2.2.2.2.2.2 h
  | cons t ts => exact (pullTok_cons b p t ts ht).2.2.2.2.2.2.2.2.2.2 h

theorem concatLoop_bad (b : Bool) : ∀ (f : Nat) (T : Token) (p : P), Bad p → Bad (concatLoop LS b f T p).2 := by
  intro f
  induction f with
  | zero => intro T p h; exact h
  | succ f ih =>
    intro T p h
    unfold concatLoop
    simp only
    have h1 := pullTok_bad b p h
    split
    · exact h1
    · split
      · split
        · exact h1
        · have h2 := pullTok_bad b _ h1
          split
          · exact h2
          · split
            · exact ih _ _ h2
            · exact h2
      · exact h1

theorem next_bad (b : Bool) (f : Nat) (p : P) (h : Bad p) : Bad (next LS b f p).2 := by
  unfold next
  split
  · exact h
  · simp only
    have h1 := pullTok_bad b p h
    split
    · exact h1
    · split
      · exact concatLoop_bad b f _ _ h1
      · exact h1

theorem fetchArg_bad (kw : Token) (f : Nat) (p : P) (h : Bad p) : Bad (fetchArg LS kw f p).2.2 := by
  unfold fetchArg
  simp only
  have h1 := next_bad (kw.text = patternKw) f p h
  split
  · split
    · exact next_bad false f _ h1
    · exact h1
  · exact h1

theorem stmt_block_bad : ∀ (f : Nat),
    (∀ (p : P), Bad p → Bad (nextStatement LS f p).2) ∧
    (∀ (acc : List Statement) (p : P), Bad p → Bad (blockLoop LS f acc p).2) := by
  intro f
  induction f with
  | zero =>
    constructor
    · intro p h; unfold nextStatement; exact h
    · intro acc p h; unfold blockLoop; exact h
  | succ f ih =>
    obtain ⟨ihs, ihb⟩ := ih
    constructor
    · intro p h
      unfold nextStatement
      simp only
      have h1 := next_bad false f p h
      split
      · exact h1
      · split
        · exact h1
        · split
          · exact addErr_bad _ _
          · have h2 := fetchArg_bad ‹Token› f _ h1
            split
            · exact addErr_bad _ _
            · split
              · exact h2
              · split
                · have h3 := ihb [] (setDepth ((fetchArg LS ‹Token› f (next LS false f p).2).2.2.depth + 1)
                      (fetchArg LS ‹Token› f (next LS false f p).2).2.2) h2
                  split
                  · exact h3
                  · exact h3
                · exact addErr_bad _ _
    · intro acc p h
      unfold blockLoop
      simp only
      have h1 := ihs p h
      split
      · exact h1
      · exact h1
      · exact ihb _ _ h1

theorem topLoop_bad : ∀ (f : Nat) (acc : List Statement) (p : P), Bad p → Bad (topLoop LS f acc p).2 := by
  intro f
  induction f with
  | zero => intro acc p h; unfold topLoop; exact h
  | succ f ih =>
    intro acc p h
    unfold topLoop
    simp only
    have h1 := (stmt_block_bad f).1 p h
    split
    · exact h1
    · exact ih _ _ (addErr_bad _ _)
    · exact ih _ _ h1

end Goyang.Lemmas.ListSrc
