/-
The reference reader's tokens as a token source for the (generic) parser model, and
(c): the parser model over that source = the statement grammar of the reference reader over the
same tokens (concatenation, nesting, sibling order, positions; rejection ⇔ an error line).
-/
import Goyang.Model.Parse
import Goyang.Spec.Parse
import Goyang.Lemmas.QStr

namespace Goyang.Lemmas.ListSrc
open Goyang.Model.Lex (Token Code ErrLine ErrClass Fault)
open Goyang.Model.Parse
open Goyang.Model.Utf8 (encodeChars)
open Goyang.Spec.Parse
open Goyang.Lemmas.QStr

/-! ## the statements of the reference reader as statements of the model -/

mutual
def encStmt (file : List UInt8) : Stmt → Statement
  | ⟨kw, arg, line, col, subs⟩ =>
    { keyword := encodeChars kw, hasArg := arg.isSome, arg := encodeChars (arg.getD []), file := file,
      line := line, col := col, subs := encStmts file subs }
def encStmts (file : List UInt8) : List Stmt → List Statement
  | [] => []
  | s :: r => encStmt file s :: encStmts file r
end

theorem encStmts_append (file : List UInt8) (a b : List Stmt) :
    encStmts file (a ++ b) = encStmts file a ++ encStmts file b := by
  induction a with
  | nil => simp [encStmts]
  | cons s r ih => simp [encStmts, ih]

/-! ## the token source -/

/-- tokens still to come, errors written so far, and what the lexer will report when it stops at
an unterminated quote or comment after the last token -/
structure LSrc where
  text : List Char
  file : List UInt8
  toks : List PTok
  errs : List ErrLine
  tail : Option ErrLine

def tokCode : Tok → Code
  | .semi => .punct 59
  | .lbrace => .punct 123
  | .rbrace => .punct 125
  | .unq _ => .unquoted
  | .sq _ => .string
  | .dq _ => .string

def tokText (text : List Char) (t : PTok) : List UInt8 :=
  match t.tok with
  | .semi => [59]
  | .lbrace => [123]
  | .rbrace => [125]
  | .unq s => encodeChars s
  | .sq s => encodeChars s
  | .dq raw => encodeChars (implValue (quoteCol text t.off) raw)

/-- the token the lexer hands out for `t` -/
def conv (text : List Char) (file : List UInt8) (t : PTok) : Token :=
  { code := tokCode t.tok, text := tokText text t, file := file,
    line := lineOf text t.off, col := colOf text t.off }

/-- a double-quoted token with an undefined backslash pair, read outside pattern mode -/
def badEsc (b : Bool) (t : PTok) : Bool :=
  match t.tok with
  | .dq raw => !b && !raw.all validEsc
  | _ => false

/-- characters before the first undefined backslash pair -/
def firstBadOff : List QItem → Nat
  | [] => 0
  | .lit _ :: r => 1 + firstBadOff r
  | .esc c :: r => if validEsc (.esc c) then 2 + firstBadOff r else 0

def escErr (text : List Char) (file : List UInt8) (t : PTok) : ErrLine :=
  match t.tok with
  | .dq raw =>
    { file := file, cls := .invalidEscape,
      pos := some (lineOf text (t.off + 1 + firstBadOff raw), colOf text (t.off + 1 + firstBadOff raw)) }
  | _ => { file := file, cls := .invalidEscape, pos := none }

def listSource : Source LSrc where
  pull b s :=
    match s.toks with
    | [] => (none, match s.tail with
                   | some e => { s with errs := s.errs ++ [e], tail := none }
                   | none => s)
    | t :: ts =>
      (some (conv s.text s.file t),
       { s with toks := ts, errs := if badEsc b t then s.errs ++ [escErr s.text s.file t] else s.errs })
  errs s := s.errs
  addErr e s := { s with errs := s.errs ++ [e] }
  endLoc s := (s.file, 0, 0)
  fault _ := .none

abbrev LS := listSource
abbrev P := Parser LSrc

end Goyang.Lemmas.ListSrc
