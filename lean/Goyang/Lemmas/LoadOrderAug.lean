import Goyang.Lemmas.LoadOrderFind
import Goyang.Lemmas.AugmentModel
import Goyang.Lemmas.Rounds
/-
Load-order independence (C05), part 5: linking and the augment stage commute with the renaming
of module identities.  Core Lean only.
-/
namespace Goyang.Lemmas.LoadOrder
open Goyang.Model
open Goyang.Lemmas.AugmentModel (stepM augmentTree_unfold)

/-! ### linking -/

def wren (σ : Nat → Nat) (p : List Nat × Option Err) : List Nat × Option Err := (p.1.map σ, p.2)

/-- One import / include statement in `includeWalk`. -/
def walkStep (reg : Registry) (rec : List Nat → Mod → List Nat × Option Err) (inc : Bool)
    (acc : List Nat × Option Err) (i : Stmt) : List Nat × Option Err :=
  match acc.2 with
  | some _ => acc
  | none =>
    match reg.findModule inc i with
    | none => (acc.1, some (Err.bare (if inc then "no-such-submodule" else "no-such-module")))
    | some im => rec acc.1 im

theorem includeWalk_succ (reg : Registry) (fuel : Nat) (visited : List Nat) (m : Mod) :
    includeWalk reg (fuel + 1) visited m =
      if visited.contains m.seq then (visited, none) else
      m.imports.foldl (walkStep reg (includeWalk reg fuel) false)
        (m.includes.foldl (walkStep reg (includeWalk reg fuel) true) (m.seq :: visited, none)) := rfl

section
variable {σ : Nat → Nat} {r₁ r₂ : Registry} (h : RegRel σ r₁ r₂)
include h

theorem includeWalk_ren : ∀ (fuel : Nat) (visited : List Nat) (m : Mod),
    includeWalk r₂ fuel (visited.map σ) (Mod.ren σ m) = wren σ (includeWalk r₁ fuel visited m)
  | 0, visited, m => rfl
  | fuel + 1, visited, m => by
    rw [includeWalk_succ, includeWalk_succ, Mod.ren_seq, contains_map_inj σ h.inj, Mod.ren_includes, Mod.ren_imports]
    split
    · rfl
    · have hstep : ∀ (inc : Bool) (l : List Stmt) (acc : List Nat × Option Err),
          l.foldl (walkStep r₂ (includeWalk r₂ fuel) inc) (wren σ acc) =
            wren σ (l.foldl (walkStep r₁ (includeWalk r₁ fuel) inc) acc) := by
        intro inc l acc
        refine List.foldl_hom (wren σ) ?_
        rintro ⟨v, e⟩ i
        unfold walkStep
        cases e with
        | some e => rfl
        | none =>
          simp only [wren, h.findModule]
          cases r₁.findModule inc i with
          | none => rfl
          | some im => exact includeWalk_ren fuel v im
      have h0 : (σ m.seq :: visited.map σ, (none : Option Err)) = wren σ (m.seq :: visited, none) := rfl
      rw [h0, hstep true, hstep false]

theorem linkAll_ren : linkAll r₂ = ((linkAll r₁).1.map σ, (linkAll r₁).2) := by
  unfold linkAll
  simp only [h.modulesByFullName, List.foldl_map, h.length]
  have : (([] : List Nat), ([] : List Err)) = ((fun p : List Nat × List Err => (p.1.map σ, p.2)) ([], [])) := rfl
  rw [this]
  refine List.foldl_hom (fun p : List Nat × List Err => (p.1.map σ, p.2)) ?_
  rintro ⟨v, es⟩ m
  simp only [includeWalk_ren h, wren]

end

/-! ### the augment state -/

/-- Two states of the augment stage: the forests correspond; the pending lists hold the same
augments per tree (they may list the trees in different orders). -/
structure PRel (σ : Nat → Nat) (s₁ s₂ : PState) : Prop where
  forest : s₂.forest = Forest.ren σ s₁.forest
  pend : ∀ id, s₂.pendingOf (σ id) = (s₁.pendingOf id).map (Entry.ren σ)
  has : ∀ id, s₂.pending.any (·.1 == σ id) = s₁.pending.any (·.1 == id)

theorem pendingOf_setPending (s : PState) (id : Nat) (l : List Entry) (id' : Nat) :
    (s.setPending id l).pendingOf id' =
      if id' = id then (if s.pending.any (·.1 == id) then l else []) else s.pendingOf id' := by
  unfold PState.setPending PState.pendingOf
  simp only
  induction s.pending with
  | nil => simp
  | cons x t ih =>
    obtain ⟨i, p⟩ := x
    simp only [List.map_cons, List.find?_cons, List.any_cons]
    by_cases hi : i = id'
    · subst hi
      by_cases h2 : i = id
      · subst h2; simp
      · simp [h2]
    · have hb : (i == id') = false := beq_eq_false_iff_ne.mpr hi
      by_cases h2 : i = id
      · subst h2
        simp only [beq_self_eq_true, if_true, hb, Bool.true_or]
        rw [ih]
        by_cases h3 : id' = i
        · exact absurd h3.symm hi
        · simp [h3]
      · have hb2 : (i == id) = false := beq_eq_false_iff_ne.mpr h2
        simp only [hb2, Bool.false_eq_true, if_false, hb, Bool.false_or]
        exact ih

theorem any_setPending (s : PState) (id : Nat) (l : List Entry) (id' : Nat) :
    (s.setPending id l).pending.any (·.1 == id') = s.pending.any (·.1 == id') := by
  unfold PState.setPending
  simp only [List.any_map]
  congr 1
  funext x
  obtain ⟨i, p⟩ := x
  simp only [Function.comp]
  split <;> rfl

theorem PRel.setPending {σ : Nat → Nat} (hσ : ∀ a b, σ a = σ b → a = b) {s₁ s₂ : PState} (h : PRel σ s₁ s₂)
    (id : Nat) (l : List Entry) : PRel σ (s₁.setPending id l) (s₂.setPending (σ id) (l.map (Entry.ren σ))) where
  forest := h.forest
  pend := by
    intro id'
    rw [pendingOf_setPending, pendingOf_setPending, h.has, h.pend]
    by_cases e : id' = id
    · subst e
      simp only [if_true]
      split <;> rfl
    · have : σ id' ≠ σ id := fun x => e (hσ _ _ x)
      rw [if_neg e, if_neg this]
  has := by
    intro id'
    rw [any_setPending, any_setPending, h.has]

/-! ### `augmentTree` -/

def accRen (σ : Nat → Nat) (P₂ : List (Nat × List Entry)) (acc : PState × List Entry × Nat × Nat) :
    PState × List Entry × Nat × Nat :=
  ({ forest := Forest.ren σ acc.1.forest, pending := P₂ }, acc.2.1.map (Entry.ren σ), acc.2.2.1, acc.2.2.2)

theorem cannotHaveChildren_ren (σ : Nat → Nat) (e : Entry) : cannotHaveChildren (Entry.ren σ e) = cannotHaveChildren e := by
  simp [cannotHaveChildren]

theorem stepM_pending (reg : Registry) (id : Nat) (ae : Bool) (ns : String) (acc : PState × List Entry × Nat × Nat)
    (a : Entry) : (stepM reg id ae ns acc a).1.pending = acc.1.pending := by
  obtain ⟨s, u, p, k⟩ := acc
  unfold stepM
  simp only
  repeat' split
  all_goals rfl

section
variable {σ : Nat → Nat} {r₁ r₂ : Registry} (h : RegRel σ r₁ r₂)
include h

theorem stepM_ren (id : Nat) (ae : Bool) (ns : String) (P₂ : List (Nat × List Entry))
    (acc : PState × List Entry × Nat × Nat) (a : Entry) :
    stepM r₂ (σ id) ae ns (accRen σ P₂ acc) (Entry.ren σ a) = accRen σ P₂ (stepM r₁ id ae ns acc a) := by
  obtain ⟨s, u, p, k⟩ := acc
  unfold stepM accRen
  simp only [ren_d, renD_nodeMod, renD_name, renD_node]
  have hf := find_ren h s.forest (id, []) a.d.nodeMod a.d.name
  simp only [lren] at hf
  rw [hf]
  generalize find r₁ s.forest (id, []) a.d.nodeMod a.d.name = r
  obtain ⟨tgt, f⟩ := r
  simp only [tree?_ren h.inj]
  cases tgt with
  | none =>
    cases ae <;> cases f.tree? id <;>
      simp only [Option.map_none, Option.map_some, List.map_append, List.map_cons, List.map_nil, ← ren_addErr,
        setTree_ren h.inj, Bool.false_eq_true, if_false, if_true]
  | some tp =>
    obtain ⟨t, path⟩ := tp
    simp only [Option.map_some, lren, tree?_ren h.inj]
    cases ht : f.tree? t with
    | none =>
      cases ae <;> cases f.tree? id <;>
        simp only [Option.map_none, Option.map_some, Option.bind_none, List.map_append, List.map_cons, List.map_nil,
          ← ren_addErr, setTree_ren h.inj, Bool.false_eq_true, if_false, if_true]
    | some root =>
      simp only [Option.map_some, Option.bind_some, getAt_ren]
      cases hte : root.getAt path with
      | none =>
        cases ae <;> cases f.tree? id <;>
          simp only [Option.map_none, Option.map_some, List.map_append, List.map_cons, List.map_nil,
            ← ren_addErr, setTree_ren h.inj, Bool.false_eq_true, if_false, if_true]
      | some te =>
        simp only [Option.map_some, cannotHaveChildren_ren]
        by_cases hc : cannotHaveChildren te = true
        · simp only [hc, if_true]
          cases ae <;> cases f.tree? id <;>
            simp only [Option.map_none, Option.map_some, List.map_append, List.map_cons, List.map_nil,
              ← ren_addErr, setTree_ren h.inj, Bool.false_eq_true, if_false, if_true]
        · simp only [hc, Bool.false_eq_true, if_false]
          rw [← updateAt_ren σ (fun te => te.merge (some ns) a) (fun te => te.merge (some ns) (Entry.ren σ a))
            (fun x => ren_merge σ x (some ns) a) path root, setTree_ren h.inj]

omit h in
theorem foldl_stepM_pending (reg : Registry) (id : Nat) (ae : Bool) (ns : String) (l : List Entry)
    (acc : PState × List Entry × Nat × Nat) : (l.foldl (stepM reg id ae ns) acc).1.pending = acc.1.pending := by
  induction l generalizing acc with
  | nil => rfl
  | cons a t ih => rw [List.foldl_cons, ih, stepM_pending]

/-- **`augmentTree` on corresponding states.** -/
theorem augmentTree_rel {s₁ s₂ : PState} (hs : PRel σ s₁ s₂) (id : Nat) (ae : Bool) :
    PRel σ (augmentTree r₁ id ae s₁).1 (augmentTree r₂ (σ id) ae s₂).1 ∧
    (augmentTree r₂ (σ id) ae s₂).2 = (augmentTree r₁ id ae s₁).2 := by
  rw [augmentTree_unfold, augmentTree_unfold]
  have hns : namespaceAt r₂ s₂.forest (σ id, []) = namespaceAt r₁ s₁.forest (id, []) := by
    rw [hs.forest]; exact namespaceAt_ren h s₁.forest (id, [])
  have h0 : (s₂, ([] : List Entry), 0, 0) = accRen σ s₂.pending (s₁, [], 0, 0) := by
    cases s₂ with | mk f₂ p₂ =>
    have := hs.forest
    simp only at this
    subst this
    rfl
  simp only [hns, hs.pend id, List.foldl_map]
  rw [h0]
  have hfold : (s₁.pendingOf id).foldl (fun x y => stepM r₂ (σ id) ae (namespaceAt r₁ s₁.forest (id, [])) x (Entry.ren σ y))
      (accRen σ s₂.pending (s₁, [], 0, 0)) =
      accRen σ s₂.pending ((s₁.pendingOf id).foldl (stepM r₁ id ae (namespaceAt r₁ s₁.forest (id, []))) (s₁, [], 0, 0)) :=
    List.foldl_hom (accRen σ s₂.pending) (fun x y => stepM_ren h id ae _ s₂.pending x y)
  rw [hfold]
  have hp := foldl_stepM_pending r₁ id ae (namespaceAt r₁ s₁.forest (id, [])) (s₁.pendingOf id) (s₁, [], 0, 0)
  generalize (s₁.pendingOf id).foldl (stepM r₁ id ae (namespaceAt r₁ s₁.forest (id, []))) (s₁, [], 0, 0) = r at hp
  obtain ⟨s', u, p, k⟩ := r
  simp only at hp
  refine ⟨?_, rfl⟩
  simp only [accRen]
  refine PRel.setPending h.inj ?_ id u
  refine ⟨rfl, ?_, ?_⟩
  · intro id'
    have := hs.pend id'
    unfold PState.pendingOf at this ⊢
    simp only [hp]
    exact this
  · intro id'
    simp only [hp]
    exact hs.has id'

omit h in
theorem swapRemove_map (mods : Array Nat) (i : Nat) (hi : i < mods.size) (hi' : i < (mods.map σ).size) :
    ((mods.map σ).set i ((mods.map σ).back?.getD 0) hi').pop = ((mods.set i (mods.back?.getD 0) hi).pop).map σ := by
  have hb : (mods.map σ).back?.getD 0 = σ (mods.back?.getD 0) := by
    rw [Array.back?_map]
    cases hbk : mods.back? with
    | some x => rfl
    | none =>
      exfalso
      have : mods.size ≤ mods.size - 1 := by
        simpa [Array.back?] using hbk
      omega
  rw [Array.map_pop, Array.map_set]
  simp only [hb]

theorem augmentPass_rel : ∀ (fuel : Nat) (mods : Array Nat) (i processed : Nat) (s₁ s₂ : PState), PRel σ s₁ s₂ →
    (augmentPass r₂ fuel (mods.map σ) i processed s₂).1 = (augmentPass r₁ fuel mods i processed s₁).1.map σ ∧
    (augmentPass r₂ fuel (mods.map σ) i processed s₂).2.1 = (augmentPass r₁ fuel mods i processed s₁).2.1 ∧
    PRel σ (augmentPass r₁ fuel mods i processed s₁).2.2 (augmentPass r₂ fuel (mods.map σ) i processed s₂).2.2
  | 0, mods, i, processed, s₁, s₂, hs => ⟨rfl, rfl, hs⟩
  | fuel + 1, mods, i, processed, s₁, s₂, hs => by
    unfold augmentPass
    by_cases hi : i < mods.size
    · have hi' : i < (mods.map σ).size := by simpa using hi
      rw [dif_pos hi, dif_pos hi']
      have hget : (mods.map σ)[i] = σ mods[i] := by simp
      obtain ⟨hrel, heq⟩ := augmentTree_rel h hs mods[i] false
      simp only [hget]
      rw [show augmentTree r₂ (σ mods[i]) false s₂ =
        ((augmentTree r₂ (σ mods[i]) false s₂).1, (augmentTree r₁ mods[i] false s₁).2) from by rw [← heq]]
      generalize augmentTree r₁ mods[i] false s₁ = o₁ at hrel ⊢
      generalize (augmentTree r₂ (σ mods[i]) false s₂).1 = s₂' at hrel ⊢
      obtain ⟨s₁', p, k⟩ := o₁
      simp only at hrel ⊢
      by_cases hk : (k == 0) = true
      · simp only [hk, if_true]
        rw [swapRemove_map mods i hi hi']
        exact augmentPass_rel fuel _ i (processed + p) s₁' s₂' hrel
      · simp only [hk, Bool.false_eq_true, if_false]
        exact augmentPass_rel fuel mods (i + 1) (processed + p) s₁' s₂' hrel
    · have hi' : ¬ i < (mods.map σ).size := by simpa using hi
      rw [dif_neg hi, dif_neg hi']
      exact ⟨rfl, rfl, hs⟩

theorem augmentLoop_rel : ∀ (fuel : Nat) (mods : Array Nat) (s₁ s₂ : PState), PRel σ s₁ s₂ →
    (augmentLoop r₂ fuel (mods.map σ) s₂).1 = (augmentLoop r₁ fuel mods s₁).1.map σ ∧
    PRel σ (augmentLoop r₁ fuel mods s₁).2 (augmentLoop r₂ fuel (mods.map σ) s₂).2
  | 0, mods, s₁, s₂, hs => ⟨rfl, hs⟩
  | fuel + 1, mods, s₁, s₂, hs => by
    unfold augmentLoop
    have he : (mods.map σ).isEmpty = mods.isEmpty := by
      simp only [Array.isEmpty, Array.size_map]
    rw [he]
    by_cases hm : mods.isEmpty = true
    · rw [if_pos hm, if_pos hm]
      exact ⟨rfl, hs⟩
    · rw [if_neg hm, if_neg hm]
      have hsz : (mods.map σ).size = mods.size := by simp
      obtain ⟨h1, h2, h3⟩ := augmentPass_rel h (mods.size + 1) mods 0 0 s₁ s₂ hs
      rw [hsz]
      generalize augmentPass r₁ (mods.size + 1) mods 0 0 s₁ = o₁ at h1 h2 h3 ⊢
      generalize augmentPass r₂ (mods.size + 1) (mods.map σ) 0 0 s₂ = o₂ at h1 h2 h3 ⊢
      obtain ⟨m₁, p₁, s₁'⟩ := o₁
      obtain ⟨m₂, p₂, s₂'⟩ := o₂
      simp only at h1 h2 h3 ⊢
      subst h1 h2
      by_cases hp : (p₂ == 0) = true
      · rw [if_pos hp, if_pos hp]
        exact ⟨rfl, h3⟩
      · rw [if_neg hp, if_neg hp]
        exact augmentLoop_rel fuel m₁ s₁' s₂' h3

/-! ### `FixChoice`, the rest of the augment phase -/

omit h in
theorem wrapOne_ren (ce : Entry) : OrderIndep.wrapOne (Entry.ren σ ce) = Entry.ren σ (OrderIndep.wrapOne ce) := by
  unfold OrderIndep.wrapOne
  rw [ren_d, renD_kind]
  by_cases hk : (ce.d.kind == Kind.case_) = true
  · rw [if_pos hk, if_pos hk]
  · rw [if_neg hk, if_neg hk]
    simp [renD]

omit h in
theorem wrapCases_renL (l : List Entry) : wrapCases (renL σ l) = renL σ (wrapCases l) := by
  rw [OrderIndep.wrapCases_eq_map, OrderIndep.wrapCases_eq_map, renL_eq_map, renL_eq_map, List.map_map, List.map_map]
  apply List.map_congr_left
  intro ce _
  exact wrapOne_ren ce

omit h in
mutual
theorem fixChoice_ren : ∀ (e : Entry), fixChoice (Entry.ren σ e) = Entry.ren σ (fixChoice e)
  | .mk d c i o => by
    simp only [Entry.ren, fixChoice, renD_kind, renD_errors]
    rw [fixChoiceL_renL c, fixChoiceL_renL i, fixChoiceL_renL o]
    split
    · rw [wrapCases_renL]
    · rfl
theorem fixChoiceL_renL : ∀ (l : List Entry), fixChoiceL (renL σ l) = renL σ (fixChoiceL l)
  | [] => rfl
  | e :: es => by
    simp only [renL, fixChoiceL]
    rw [fixChoice_ren e, fixChoiceL_renL es]
end

def fixAll (s : PState) : PState :=
  { s with forest := { trees := s.forest.trees.map fun (i, e) => (i, fixChoice e) } }

omit h in
theorem fixAll_rel {s₁ s₂ : PState} (hs : PRel σ s₁ s₂) : PRel σ (fixAll s₁) (fixAll s₂) where
  forest := by
    unfold fixAll
    simp only [hs.forest, Forest.ren, List.map_map]
    congr 1
    apply List.map_congr_left
    rintro ⟨i, e⟩ _
    simp only [Function.comp, fixChoice_ren]
  pend := hs.pend
  has := hs.has

theorem leftover_rel (left : List Nat) : ∀ (s₁ s₂ : PState) (n : Nat), PRel σ s₁ s₂ →
    PRel σ (left.foldl (fun (acc : PState × Nat) id =>
        ((augmentTree r₁ id true acc.1).1, acc.2 + (augmentTree r₁ id true acc.1).2.1)) (s₁, n)).1
      ((left.map σ).foldl (fun (acc : PState × Nat) id =>
        ((augmentTree r₂ id true acc.1).1, acc.2 + (augmentTree r₂ id true acc.1).2.1)) (s₂, n)).1 ∧
    ((left.map σ).foldl (fun (acc : PState × Nat) id =>
        ((augmentTree r₂ id true acc.1).1, acc.2 + (augmentTree r₂ id true acc.1).2.1)) (s₂, n)).2 =
      (left.foldl (fun (acc : PState × Nat) id =>
        ((augmentTree r₁ id true acc.1).1, acc.2 + (augmentTree r₁ id true acc.1).2.1)) (s₁, n)).2 := by
  induction left with
  | nil => intro s₁ s₂ n hs; exact ⟨hs, rfl⟩
  | cons id t ih =>
    intro s₁ s₂ n hs
    simp only [List.map_cons, List.foldl_cons]
    obtain ⟨h1, h2⟩ := augmentTree_rel h hs id true
    rw [h2]
    exact ih _ _ _ h1

/-- The two runs agree on whether a loop applied anything. -/
theorem loopCount_rel (fuel : Nat) (mods : Array Nat) (s₁ s₂ : PState) (hs : PRel σ s₁ s₂) :
    Rounds.loopCount r₁ fuel mods s₁ = 0 ↔ Rounds.loopCount r₂ fuel (mods.map σ) s₂ = 0 := by
  rw [Rounds.loopCount_eq_zero, Rounds.loopCount_eq_zero]
  have he : (mods.map σ).isEmpty = mods.isEmpty := by
    simp only [Array.isEmpty, Array.size_map]
  have hsz : (mods.map σ).size = mods.size := by simp
  rw [he, hsz, (augmentPass_rel h (mods.size + 1) mods 0 0 s₁ s₂ hs).2.1]

/-- **The retry rounds on corresponding states.** -/
theorem leftoverRounds_rel (fuel n : Nat) (mods : Array Nat) (s₁ s₂ : PState) (hs : PRel σ s₁ s₂) :
    (leftoverRounds r₂ fuel n (mods.map σ) s₂).1 = (leftoverRounds r₁ fuel n mods s₁).1.map σ ∧
    PRel σ (leftoverRounds r₁ fuel n mods s₁).2 (leftoverRounds r₂ fuel n (mods.map σ) s₂).2 :=
  Rounds.rounds_rel r₁ r₂ (fun m₁ s₁ m₂ s₂ => m₂ = m₁.map σ ∧ PRel σ s₁ s₂)
    (fun fuel m₁ s₁ m₂ s₂ hR => by
      obtain ⟨rfl, hs⟩ := hR
      exact augmentLoop_rel h fuel m₁ s₁ s₂ hs)
    (fun fuel m₁ s₁ m₂ s₂ hR => by
      obtain ⟨rfl, hs⟩ := hR
      exact loopCount_rel h fuel m₁ s₁ s₂ hs)
    (fun m₁ s₁ m₂ s₂ hR => ⟨hR.1, fixAll_rel hR.2⟩) fuel n mods s₁ (mods.map σ) s₂ ⟨rfl, hs⟩

omit h in
attribute [local irreducible] leftoverRounds in
theorem augmentPhase_eq (reg : Registry) (order : List Nat) (fuel : Nat) (s : PState) :
    augmentPhase reg order fuel s =
      let r := augmentLoop reg fuel order.toArray s
      let q := leftoverRounds reg fuel fuel r.1 (fixAll r.2)
      let l := q.1.toList.foldl (fun (acc : PState × Nat) id =>
        ((augmentTree reg id true acc.1).1, acc.2 + (augmentTree reg id true acc.1).2.1)) (q.2, 0)
      if l.2 > 0 then fixAll l.1 else l.1 := by
  unfold augmentPhase
  simp only [Array.foldl_toList]
  rfl

/-- **The augment phase on corresponding states.** -/
theorem augmentPhase_rel (order : List Nat) (fuel : Nat) {s₁ s₂ : PState} (hs : PRel σ s₁ s₂) :
    PRel σ (augmentPhase r₁ order fuel s₁) (augmentPhase r₂ (order.map σ) fuel s₂) := by
  rw [augmentPhase_eq, augmentPhase_eq]
  simp only
  rw [← List.map_toArray]
  obtain ⟨h1, h2⟩ := augmentLoop_rel h fuel order.toArray s₁ s₂ hs
  rw [h1]
  obtain ⟨h5, h6⟩ := leftoverRounds_rel h fuel fuel (augmentLoop r₁ fuel order.toArray s₁).1 _ _ (fixAll_rel h2)
  rw [h5, Array.toList_map]
  obtain ⟨h3, h4⟩ := leftover_rel h (leftoverRounds r₁ fuel fuel (augmentLoop r₁ fuel order.toArray s₁).1
    (fixAll (augmentLoop r₁ fuel order.toArray s₁).2)).1.toList _ _ 0 h6
  rw [h4]
  split
  · exact fixAll_rel h3
  · exact h3

end

end Goyang.Lemmas.LoadOrder
