import Goyang.Model.Process
import Goyang.Lemmas.SortUnique
import Goyang.Lemmas.OrderIndep
/-
Load-order independence (C05), part 1: renaming of module identities.

In the resolver model a loaded module is identified by its load sequence number `Mod.seq`.
Loading the same sources in another order permutes those numbers.  This file defines what it
means to rename the numbers by a function `σ` in every value that carries them (`Mod`, `Entry`
— the field `nodeMod` —, `TState`, `Forest`, node identities), and proves that the elementary
operations on entries commute with the renaming.  Core Lean only.
-/
namespace Goyang.Lemmas.LoadOrder
open Goyang.Model

/-! ### generic list facts -/

theorem find?_map_inj {α β : Type} [BEq β] [LawfulBEq β] [BEq α] [LawfulBEq α] (f : β → α)
    (hf : ∀ a b, f a = f b → a = b) (g : γ → β) (g' : γ' → α) (φ : γ → γ') (hφ : ∀ x, g' (φ x) = f (g x))
    (l : List γ) (k : β) :
    (l.map φ).find? (fun x => g' x == f k) = (l.find? (fun x => g x == k)).map φ := by
  induction l with
  | nil => rfl
  | cons x t ih =>
    simp only [List.map_cons, List.find?_cons, hφ]
    by_cases h : g x = k
    · simp [h]
    · have h1 : (f (g x) == f k) = false := beq_eq_false_iff_ne.mpr fun e => h (hf _ _ e)
      have h2 : (g x == k) = false := beq_eq_false_iff_ne.mpr h
      rw [h1, h2]; exact ih

theorem contains_map_inj {α β : Type} [BEq β] [LawfulBEq β] [BEq α] [LawfulBEq α] (f : β → α)
    (hf : ∀ a b, f a = f b → a = b) (l : List β) (k : β) : (l.map f).contains (f k) = l.contains k := by
  induction l with
  | nil => rfl
  | cons x t ih =>
    simp only [List.map_cons, List.contains_cons, ih]
    by_cases h : k = x
    · simp [h]
    · have h1 : (f k == f x) = false := beq_eq_false_iff_ne.mpr fun e => h (hf _ _ e)
      have h2 : (k == x) = false := beq_eq_false_iff_ne.mpr h
      rw [h1, h2]

theorem any_map_inj {α β : Type} [BEq β] [LawfulBEq β] [BEq α] [LawfulBEq α] (f : β → α)
    (hf : ∀ a b, f a = f b → a = b) (g : γ → β) (g' : γ' → α) (φ : γ → γ') (hφ : ∀ x, g' (φ x) = f (g x))
    (l : List γ) (k : β) :
    (l.map φ).any (fun x => g' x == f k) = l.any (fun x => g x == k) := by
  induction l with
  | nil => rfl
  | cons x t ih =>
    simp only [List.map_cons, List.any_cons, hφ, ih]
    by_cases h : g x = k
    · simp [h]
    · have h1 : (f (g x) == f k) = false := beq_eq_false_iff_ne.mpr fun e => h (hf _ _ e)
      have h2 : (g x == k) = false := beq_eq_false_iff_ne.mpr h
      rw [h1, h2]

/-- `sortBy` commutes with a map that respects the comparison. -/
theorem insertBy_map {α β : Type} (lt : α → α → Bool) (lt' : β → β → Bool) (f : α → β)
    (h : ∀ a b, lt' (f a) (f b) = lt a b) (x : α) (l : List α) :
    insertBy lt' (f x) (l.map f) = (insertBy lt x l).map f := by
  induction l with
  | nil => rfl
  | cons y ys ih =>
    simp only [List.map_cons, insertBy, h]
    split
    · rfl
    · simp [ih]

theorem sortBy_map {α β : Type} (lt : α → α → Bool) (lt' : β → β → Bool) (f : α → β)
    (h : ∀ a b, lt' (f a) (f b) = lt a b) (l : List α) :
    sortBy lt' (l.map f) = (sortBy lt l).map f := by
  induction l with
  | nil => rfl
  | cons x t ih =>
    show insertBy lt' (f x) (sortBy lt' (t.map f)) = (insertBy lt x (sortBy lt t)).map f
    rw [ih, insertBy_map lt lt' f h]

/-- Sorting a permutation of the image of a list: the image of the sorted list, when the order is
strict and total on the different elements of the list. -/
theorem sortBy_perm_map {α β : Type} (lt : α → α → Bool) (lt' : β → β → Bool) (f : α → β)
    (h : ∀ a b, lt' (f a) (f b) = lt a b)
    (irr : ∀ a, lt' a a = false) (tr : ∀ a b c, lt' a b = true → lt' b c = true → lt' a c = true)
    {l₁ : List α} {l₂ : List β} (hp : l₂.Perm (l₁.map f))
    (tot : ∀ a ∈ l₁, ∀ b ∈ l₁, f a ≠ f b → lt a b = true ∨ lt b a = true) :
    sortBy lt' l₂ = (sortBy lt l₁).map f := by
  rw [← sortBy_map lt lt' f h]
  refine SortUnique.sortBy_perm_invariant lt' irr tr hp ?_
  intro a ha b hb hab
  obtain ⟨a', ha', rfl⟩ := List.mem_map.mp (hp.mem_iff.mp ha)
  obtain ⟨b', hb', rfl⟩ := List.mem_map.mp (hp.mem_iff.mp hb)
  rw [h, h]
  exact tot a' ha' b' hb' hab

/-! ### renaming -/

/-- Renaming of module identities. -/
def Mod.ren (σ : Nat → Nat) (m : Mod) : Mod := { m with seq := σ m.seq }

@[simp] theorem Mod.ren_seq (σ : Nat → Nat) (m : Mod) : (Mod.ren σ m).seq = σ m.seq := by cases m; rfl
@[simp] theorem Mod.ren_stmt (σ : Nat → Nat) (m : Mod) : (Mod.ren σ m).stmt = m.stmt := by cases m; rfl
@[simp] theorem Mod.ren_isSub (σ : Nat → Nat) (m : Mod) : (Mod.ren σ m).isSub = m.isSub := by cases m; rfl
@[simp] theorem Mod.ren_name (σ : Nat → Nat) (m : Mod) : (Mod.ren σ m).name = m.name := by cases m; rfl
@[simp] theorem Mod.ren_current (σ : Nat → Nat) (m : Mod) : (Mod.ren σ m).current = m.current := by cases m; rfl
@[simp] theorem Mod.ren_fullName (σ : Nat → Nat) (m : Mod) : (Mod.ren σ m).fullName = m.fullName := by cases m; rfl
@[simp] theorem Mod.ren_prefixStmt? (σ : Nat → Nat) (m : Mod) : (Mod.ren σ m).prefixStmt? = m.prefixStmt? := by cases m; rfl
@[simp] theorem Mod.ren_getPrefix (σ : Nat → Nat) (m : Mod) : (Mod.ren σ m).getPrefix = m.getPrefix := by cases m; rfl
@[simp] theorem Mod.ren_belongsTo? (σ : Nat → Nat) (m : Mod) : (Mod.ren σ m).belongsTo? = m.belongsTo? := by cases m; rfl
@[simp] theorem Mod.ren_imports (σ : Nat → Nat) (m : Mod) : (Mod.ren σ m).imports = m.imports := by cases m; rfl
@[simp] theorem Mod.ren_includes (σ : Nat → Nat) (m : Mod) : (Mod.ren σ m).includes = m.includes := by cases m; rfl

def renD (σ : Nat → Nat) (d : EData) : EData := { d with nodeMod := σ d.nodeMod }

mutual
/-- The entry with every `nodeMod` renamed. -/
def Entry.ren (σ : Nat → Nat) : Entry → Entry
  | .mk d c i o => .mk (renD σ d) (renL σ c) (renL σ i) (renL σ o)
def renL (σ : Nat → Nat) : List Entry → List Entry
  | [] => []
  | e :: es => Entry.ren σ e :: renL σ es
end

theorem renL_eq_map (σ : Nat → Nat) (l : List Entry) : renL σ l = l.map (Entry.ren σ) := by
  induction l with
  | nil => rfl
  | cons e es ih => simp [renL, ih]

@[simp] theorem ren_mk (σ : Nat → Nat) (d : EData) (c i o : List Entry) :
    Entry.ren σ (.mk d c i o) = .mk (renD σ d) (c.map (Entry.ren σ)) (i.map (Entry.ren σ)) (o.map (Entry.ren σ)) := by
  simp [Entry.ren, renL_eq_map]

def renId (σ : Nat → Nat) (x : NodeId) : NodeId := (σ x.1, x.2)

theorem renId_inj {σ : Nat → Nat} (hσ : ∀ a b, σ a = σ b → a = b) (a b : NodeId) (h : renId σ a = renId σ b) : a = b := by
  obtain ⟨a1, a2⟩ := a
  obtain ⟨b1, b2⟩ := b
  simp only [renId, Prod.mk.injEq] at h
  rw [hσ _ _ h.1, h.2]

@[simp] theorem renId_nodeId (σ : Nat → Nat) (root : Mod) (s : Stmt) :
    nodeId (Mod.ren σ root) s = renId σ (nodeId root s) := by cases root; rfl

section
variable (σ : Nat → Nat)

@[simp] theorem ren_d (e : Entry) : (Entry.ren σ e).d = renD σ e.d := by cases e; simp [Entry.d]
@[simp] theorem ren_dir (e : Entry) : (Entry.ren σ e).dir = e.dir.map (Entry.ren σ) := by cases e; simp [Entry.dir]
@[simp] theorem ren_inp (e : Entry) : (Entry.ren σ e).inp = e.inp.map (Entry.ren σ) := by cases e; simp [Entry.inp]
@[simp] theorem ren_out (e : Entry) : (Entry.ren σ e).out = e.out.map (Entry.ren σ) := by cases e; simp [Entry.out]
@[simp] theorem ren_name (e : Entry) : (Entry.ren σ e).name = e.name := by cases e; simp [Entry.name, Entry.d, renD]

@[simp] theorem renD_name (d : EData) : (renD σ d).name = d.name := by cases d; rfl
@[simp] theorem renD_kind (d : EData) : (renD σ d).kind = d.kind := by cases d; rfl
@[simp] theorem renD_hasDir (d : EData) : (renD σ d).hasDir = d.hasDir := by cases d; rfl
@[simp] theorem renD_config (d : EData) : (renD σ d).config = d.config := by cases d; rfl
@[simp] theorem renD_mandatory (d : EData) : (renD σ d).mandatory = d.mandatory := by cases d; rfl
@[simp] theorem renD_default (d : EData) : (renD σ d).default = d.default := by cases d; rfl
@[simp] theorem renD_description (d : EData) : (renD σ d).description = d.description := by cases d; rfl
@[simp] theorem renD_units (d : EData) : (renD σ d).units = d.units := by cases d; rfl
@[simp] theorem renD_key (d : EData) : (renD σ d).key = d.key := by cases d; rfl
@[simp] theorem renD_listAttr (d : EData) : (renD σ d).listAttr = d.listAttr := by cases d; rfl
@[simp] theorem renD_type (d : EData) : (renD σ d).type = d.type := by cases d; rfl
@[simp] theorem renD_isRpc (d : EData) : (renD σ d).isRpc = d.isRpc := by cases d; rfl
@[simp] theorem renD_ns (d : EData) : (renD σ d).ns = d.ns := by cases d; rfl
@[simp] theorem renD_errors (d : EData) : (renD σ d).errors = d.errors := by cases d; rfl
@[simp] theorem renD_node (d : EData) : (renD σ d).node = d.node := by cases d; rfl
@[simp] theorem renD_nodeMod (d : EData) : (renD σ d).nodeMod = σ d.nodeMod := by cases d; rfl
@[simp] theorem renD_nodeKw (d : EData) : (renD σ d).nodeKw = d.nodeKw := by cases d; rfl
@[simp] theorem renD_hasMin (d : EData) : (renD σ d).hasMin = d.hasMin := by cases d; rfl
@[simp] theorem renD_hasMax (d : EData) : (renD σ d).hasMax = d.hasMax := by cases d; rfl

/-- A data update that does not look at `nodeMod` commutes with the renaming. -/
theorem ren_withD (e : Entry) (f : EData → EData) (hf : ∀ d, renD σ (f d) = f (renD σ d)) :
    Entry.ren σ (e.withD f) = (Entry.ren σ e).withD f := by
  cases e; simp [Entry.withD, hf]

@[simp] theorem ren_withDir (e : Entry) (c : List Entry) :
    Entry.ren σ (e.withDir c) = (Entry.ren σ e).withDir (c.map (Entry.ren σ)) := by
  cases e; simp [Entry.withDir]

theorem find?_name_ren (l : List Entry) (k : String) :
    (l.map (Entry.ren σ)).find? (·.name == k) = (l.find? (·.name == k)).map (Entry.ren σ) := by
  induction l with
  | nil => rfl
  | cons x t ih =>
    simp only [List.map_cons, List.find?_cons, ren_name]
    split <;> simp [ih]

@[simp] theorem ren_child? (e : Entry) (k : String) :
    (Entry.ren σ e).child? k = (e.child? k).map (Entry.ren σ) := by
  unfold Entry.child?
  rw [ren_dir, find?_name_ren]

@[simp] theorem ren_addErr (e : Entry) (x : Err) : Entry.ren σ (e.addErr x) = (Entry.ren σ e).addErr x := by
  unfold Entry.addErr; exact ren_withD σ e _ (fun _ => rfl)

@[simp] theorem ren_addErrs (e : Entry) (xs : List Err) : Entry.ren σ (e.addErrs xs) = (Entry.ren σ e).addErrs xs := by
  unfold Entry.addErrs; exact ren_withD σ e _ (fun _ => rfl)

mutual
theorem allErrors_ren : ∀ (e : Entry), (Entry.ren σ e).allErrors = e.allErrors
  | .mk d c i o => by
    simp only [Entry.ren, Entry.allErrors, renD_errors]
    rw [allErrorsL_renL c, allErrorsL_renL i, allErrorsL_renL o]
theorem allErrorsL_renL : ∀ (l : List Entry), Entry.allErrorsL (renL σ l) = Entry.allErrorsL l
  | [] => rfl
  | e :: es => by
    simp only [renL, Entry.allErrorsL]
    rw [allErrors_ren e, allErrorsL_renL es]
end

attribute [simp] allErrors_ren

@[simp] theorem allErrorsL_ren (l : List Entry) : Entry.allErrorsL (l.map (Entry.ren σ)) = Entry.allErrorsL l := by
  rw [← renL_eq_map]; exact allErrorsL_renL σ l

@[simp] theorem ren_importErrors (e c : Entry) :
    Entry.ren σ (e.importErrors c) = (Entry.ren σ e).importErrors (Entry.ren σ c) := by
  simp [Entry.importErrors]

@[simp] theorem ren_add (e : Entry) (k : String) (v : Entry) :
    Entry.ren σ (e.add k v) = (Entry.ren σ e).add k (Entry.ren σ v) := by
  unfold Entry.add
  rw [ren_child?]
  cases e.child? k <;> simp

theorem ren_stamp (ns : Option String) (v : Entry) :
    Entry.ren σ (OrderIndep.stamp ns v) = OrderIndep.stamp ns (Entry.ren σ v) := by
  cases ns with
  | none => rfl
  | some n => exact ren_withD σ v _ (fun _ => rfl)

theorem ren_step (ns : Option String) (x : Err) (e v : Entry) :
    Entry.ren σ (OrderIndep.step ns x e v) = OrderIndep.step ns x (Entry.ren σ e) (Entry.ren σ v) := by
  unfold OrderIndep.step
  rw [← ren_stamp, ren_name, ren_child?]
  cases e.child? (OrderIndep.stamp ns v).name <;> simp

@[simp] theorem ren_merge (e : Entry) (ns : Option String) (oe : Entry) :
    Entry.ren σ (e.merge ns oe) = (Entry.ren σ e).merge ns (Entry.ren σ oe) := by
  rw [OrderIndep.merge_eq, OrderIndep.merge_eq]
  simp only [ren_dir, List.foldl_map, ren_d, renD_node]
  rw [← ren_importErrors]
  generalize e.importErrors oe = acc
  induction oe.dir generalizing acc with
  | nil => rfl
  | cons v vs ih =>
    simp only [List.foldl_cons]
    rw [ih, ren_step]

end

/-! ### state, forests -/

def TState.ren (σ : Nat → Nat) (st : TState) : TState :=
  { merged := st.merged,
    cache := st.cache.map fun p => (σ p.1, Entry.ren σ p.2),
    gcache := st.gcache.map fun p => (renId σ p.1, Entry.ren σ p.2),
    augs := st.augs.map fun p => (σ p.1, p.2.map (Entry.ren σ)) }

def Forest.ren (σ : Nat → Nat) (f : Forest) : Forest :=
  { trees := f.trees.map fun p => (σ p.1, Entry.ren σ p.2) }

/-- Result of a conversion, renamed. -/
def pren (σ : Nat → Nat) (p : Entry × TState) : Entry × TState := (Entry.ren σ p.1, TState.ren σ p.2)

@[simp] theorem pren_fst (σ : Nat → Nat) (p : Entry × TState) : (pren σ p).1 = Entry.ren σ p.1 := rfl
@[simp] theorem pren_snd (σ : Nat → Nat) (p : Entry × TState) : (pren σ p).2 = TState.ren σ p.2 := rfl

end Goyang.Lemmas.LoadOrder
