import Goyang.Lemmas.LoadOrderEntry
import Goyang.Lemmas.LoadOrderFind
/-
Load-order independence (C05), part 6: deviations commute with the renaming of module
identities.  Core Lean only.
-/
namespace Goyang.Lemmas.LoadOrder
open Goyang.Model
open Goyang.Lemmas.Tree (dSetMin dSetMax dCfg dDefault dMand dMin dMax dUnits dType dCfgDel dDefaultDel dMandDel
  dMinDel dMaxDel applyOneDeviate' applyOneDeviate_eq)

section
variable (σ : Nat → Nat)

@[simp] theorem isList_ren (e : Entry) : (Entry.ren σ e).isList = e.isList := by simp [Entry.isList]
@[simp] theorem isLeafList_ren (e : Entry) : (Entry.ren σ e).isLeafList = e.isLeafList := by simp [Entry.isLeafList]

variable (ms : Stmt) (kind : String) (sd : EData)

theorem dSetMin_ren (n : Entry) (v : Nat) : dSetMin (Entry.ren σ n) v = Entry.ren σ (dSetMin n v) := by
  unfold dSetMin; rsimp
theorem dSetMax_ren (n : Entry) (v : Nat) : dSetMax (Entry.ren σ n) v = Entry.ren σ (dSetMax n v) := by
  unfold dSetMax; rsimp
theorem dCfg_ren (n : Entry) : dCfg (renD σ sd) (Entry.ren σ n) = Entry.ren σ (dCfg sd n) := by
  unfold dCfg; simp only [renD_config]; split <;> rsimp
theorem dDefault_ren (n : Entry) :
    dDefault ms kind (renD σ sd) (Entry.ren σ n) = (Entry.ren σ (dDefault ms kind sd n).1, (dDefault ms kind sd n).2) := by
  unfold dDefault; simp only [renD_default, isLeafList_ren, ren_d]; repeat' split
  all_goals rsimp
theorem dMand_ren (n : Entry) : dMand (renD σ sd) (Entry.ren σ n) = Entry.ren σ (dMand sd n) := by
  unfold dMand; simp only [renD_mandatory]; split <;> rsimp
theorem dMin_ren (n : Entry) : dMin (renD σ sd) (Entry.ren σ n) = Entry.ren σ (dMin sd n) := by
  unfold dMin; simp only [renD_hasMin, renD_listAttr, dSetMin_ren]; split <;> rfl
theorem dMax_ren (n : Entry) : dMax (renD σ sd) (Entry.ren σ n) = Entry.ren σ (dMax sd n) := by
  unfold dMax; simp only [renD_hasMax, renD_listAttr, dSetMax_ren]; split <;> rfl
theorem dUnits_ren (n : Entry) : dUnits (renD σ sd) (Entry.ren σ n) = Entry.ren σ (dUnits sd n) := by
  unfold dUnits; simp only [renD_units]; split <;> rsimp
theorem dType_ren (n : Entry) : dType (renD σ sd) (Entry.ren σ n) = Entry.ren σ (dType sd n) := by
  unfold dType; simp only [renD_type]; split <;> rsimp
theorem dCfgDel_ren (n : Entry) : dCfgDel (renD σ sd) (Entry.ren σ n) = Entry.ren σ (dCfgDel sd n) := by
  unfold dCfgDel; simp only [renD_config]; split <;> rsimp
theorem dDefaultDel_ren (n : Entry) :
    dDefaultDel ms (renD σ sd) (Entry.ren σ n) = (Entry.ren σ (dDefaultDel ms sd n).1, (dDefaultDel ms sd n).2) := by
  unfold dDefaultDel; simp only [renD_default, isLeafList_ren, ren_d]; repeat' split
  all_goals rsimp
theorem dMandDel_ren (n : Entry) : dMandDel (renD σ sd) (Entry.ren σ n) = Entry.ren σ (dMandDel sd n) := by
  unfold dMandDel; simp only [renD_mandatory]; split <;> rsimp
theorem dMinDel_ren (n : Entry) (es : List Err) :
    dMinDel (renD σ sd) (Entry.ren σ n) es = (Entry.ren σ (dMinDel sd n es).1, (dMinDel sd n es).2) := by
  unfold dMinDel; simp only [renD_hasMin, renD_listAttr, dSetMin_ren, ren_d]; split <;> rfl
theorem dMaxDel_ren (n : Entry) (es : List Err) :
    dMaxDel (renD σ sd) (Entry.ren σ n) es = (Entry.ren σ (dMaxDel sd n es).1, (dMaxDel sd n es).2) := by
  unfold dMaxDel; simp only [renD_hasMax, renD_listAttr, dSetMax_ren, ren_d]; split <;> rfl

/-- One deviate statement applied to corresponding nodes. -/
theorem applyOneDeviate_ren (opts : Opts) (spec : Entry) (hp : Bool) (node : Entry) :
    applyOneDeviate opts ms kind (Entry.ren σ spec) hp (Entry.ren σ node) =
      (Entry.ren σ (applyOneDeviate opts ms kind spec hp node).1, (applyOneDeviate opts ms kind spec hp node).2) := by
  rw [applyOneDeviate_eq, applyOneDeviate_eq, ren_d]
  unfold applyOneDeviate'
  simp only [dCfg_ren, dDefault_ren, dMand_ren, dMin_ren, dMax_ren, dUnits_ren, dType_ren, dCfgDel_ren,
    dDefaultDel_ren, dMandDel_ren, dMinDel_ren, dMaxDel_ren, renD_hasMin, renD_hasMax, isList_ren, isLeafList_ren]
  repeat' split
  all_goals rfl

end

theorem removeAt_ren (σ : Nat → Nat) (root : Entry) (p : Path) :
    removeAt (Entry.ren σ root) p = Entry.ren σ (removeAt root p) := by
  unfold removeAt
  cases p.getLast? with
  | none => rfl
  | some s =>
    cases s with
    | child k =>
      simp only
      refine (updateAt_ren σ _ _ ?_ _ root).symm
      intro pe
      simp only [ren_withDir, ren_dir, List.filter_map]
      congr 3
      funext x
      simp
    | input =>
      simp only
      refine (updateAt_ren σ _ _ ?_ _ root).symm
      rintro ⟨d, c, i, o⟩
      simp
    | output =>
      simp only
      refine (updateAt_ren σ _ _ ?_ _ root).symm
      rintro ⟨d, c, i, o⟩
      simp

def devRen (σ : Nat → Nat) (dv : Stmt × List (String × Entry)) : Stmt × List (String × Entry) :=
  (dv.1, dv.2.map fun ds => (ds.1, Entry.ren σ ds.2))

section
variable {σ : Nat → Nat} {r₁ r₂ : Registry} (h : RegRel σ r₁ r₂)
include h

/-- **`ApplyDeviate` of one module on corresponding forests.** -/
theorem applyDeviations_ren (opts : Opts) (m : Mod) (devs : List (Stmt × List (String × Entry))) (f : Forest) :
    applyDeviations r₂ opts (Mod.ren σ m) (devs.map (devRen σ)) (Forest.ren σ f) =
      (Forest.ren σ (applyDeviations r₁ opts m devs f).1, (applyDeviations r₁ opts m devs f).2) := by
  unfold applyDeviations
  rw [List.foldl_map]
  have h0 : (Forest.ren σ f, ([] : List Err)) = (fun p : Forest × List Err => (Forest.ren σ p.1, p.2)) (f, []) := rfl
  rw [h0]
  refine List.foldl_hom (fun p : Forest × List Err => (Forest.ren σ p.1, p.2)) ?_
  rintro ⟨f, errs⟩ ⟨dstmt, deviates⟩
  simp only [devRen, Mod.ren_seq, Mod.ren_stmt]
  have hf := find_ren h f (m.seq, []) m.seq dstmt.arg
  simp only [lren] at hf
  rw [hf]
  generalize find r₁ f (m.seq, []) m.seq dstmt.arg = r
  obtain ⟨tgt, f'⟩ := r
  cases tgt with
  | none => rfl
  | some tp =>
    obtain ⟨t, path⟩ := tp
    simp only [Option.map_some, lren, tree?_ren h.inj]
    cases ht : f'.tree? t with
    | none => rfl
    | some root =>
      simp only [Option.map_some, Option.bind_some, getAt_ren]
      cases hte : root.getAt path with
      | none => rfl
      | some node0 =>
        simp only [Option.map_some, List.foldl_map]
        have h1 : (Forest.ren σ f', Entry.ren σ node0, false, errs) =
            (fun p : Forest × Entry × Bool × List Err => (Forest.ren σ p.1, Entry.ren σ p.2.1, p.2.2)) (f', node0, false, errs) := rfl
        rw [h1]
        rw [List.foldl_hom (fun p : Forest × Entry × Bool × List Err => (Forest.ren σ p.1, Entry.ren σ p.2.1, p.2.2))
          (g₁ := fun (acc : Forest × Entry × Bool × List Err) ds =>
            let (f, node, detached, errs) := acc
            let (node', remove, es) := applyOneDeviate opts m.stmt ds.1 ds.2 (!path.isEmpty) node
            let es := if remove && detached then es ++ [Err.at_ m.stmt "deviate-already-removed"] else es
            let f := if detached then f else
              match f.tree? t with
              | none => f
              | some root =>
                let root := root.updateAt path fun _ => node'
                f.setTree t (if remove then removeAt root path else root)
            (f, node', detached || remove, errs ++ es))]
        · rfl
        · rintro ⟨f, node, detached, errs⟩ ds
          simp only [applyOneDeviate_ren, tree?_ren h.inj]
          generalize applyOneDeviate opts m.stmt ds.1 ds.2 (!path.isEmpty) node = o
          obtain ⟨node', remove, es⟩ := o
          simp only
          cases detached with
          | true => rfl
          | false =>
            simp only [Bool.false_eq_true, if_false]
            cases f.tree? t with
            | none => rfl
            | some root =>
              simp only [Option.map_some]
              have hu : (Entry.ren σ root).updateAt path (fun _ => Entry.ren σ node') =
                  Entry.ren σ (root.updateAt path fun _ => node') :=
                (updateAt_ren σ (fun _ => node') (fun _ => Entry.ren σ node') (fun _ => rfl) path root).symm
              rw [hu]
              cases remove with
              | true => simp only [if_true, removeAt_ren, setTree_ren h.inj]
              | false => simp only [Bool.false_eq_true, if_false, setTree_ren h.inj]

end

end Goyang.Lemmas.LoadOrder
