import Goyang.Lemmas.LoadOrderProcess
import Goyang.Model.Dump
/-
Load-order independence (C05), part 8: the canonical dump mentions no sequence number — the
dumps of corresponding outcomes are equal.  Core Lean only.
-/
namespace Goyang.Lemmas.LoadOrder
open Goyang.Model

section
variable (σ : Nat → Nat)

mutual
theorem entryDepth_ren : ∀ (e : Entry), entryDepth (Entry.ren σ e) = entryDepth e
  | .mk d c i o => by
    simp only [Entry.ren, entryDepth]
    rw [depthL_renL c, depthL_renL i, depthL_renL o]
theorem depthL_renL : ∀ (l : List Entry), entryDepth.depthL (renL σ l) = entryDepth.depthL l
  | [] => rfl
  | e :: es => by
    simp only [renL, entryDepth.depthL]
    rw [entryDepth_ren e, depthL_renL es]
end

def nameLt (a b : Entry) : Bool := a.name < b.name

theorem sortedKids_ren (l : List Entry) :
    sortBy (fun (a b : Entry) => a.name < b.name) (l.map (Entry.ren σ)) =
      (sortBy (fun (a b : Entry) => a.name < b.name) l).map (Entry.ren σ) :=
  sortBy_map nameLt nameLt (Entry.ren σ) (fun a b => by simp [nameLt]) l

end

section
variable {σ : Nat → Nat} {r₁ r₂ : Registry} (h : RegRel σ r₁ r₂)
include h

theorem dumpNode_ren (f : Forest) (modName : String) (root : Entry) (loc : Loc) (e : Entry) :
    dumpNode r₂ (Forest.ren σ f) modName (Entry.ren σ root) (lren σ loc) (Entry.ren σ e) =
      dumpNode r₁ f modName root loc e := by
  unfold dumpNode
  have h1 := instantiatingModuleAt_ren h f loc
  have h2 := namespaceAt_ren h f loc
  simp only [lren] at h1 h2
  simp only [ren_d, renD_listAttr, renD_type, h1, h2, lren, pathString_ren,
    readOnlyAt_ren, renD_kind, renD_hasDir, renD_isRpc, renD_config, renD_mandatory, renD_default, renD_units, renD_key]

theorem dumpTree_ren (f : Forest) (modName : String) (root : Entry) (id : Nat) :
    ∀ (fuel : Nat) (path : Path) (e : Entry),
      dumpTree r₂ (Forest.ren σ f) modName (Entry.ren σ root) (σ id) fuel path (Entry.ren σ e) =
        dumpTree r₁ f modName root id fuel path e
  | 0, _, _ => rfl
  | fuel + 1, path, e => by
    simp only [dumpTree, ren_dir, ren_inp, ren_out, sortedKids_ren, List.map_map]
    have hn := dumpNode_ren h f modName root (id, path) e
    simp only [lren] at hn
    rw [hn]
    congr 2
    · congr 1
      · congr 1
        apply List.map_congr_left
        intro c _
        simp only [Function.comp, ren_name]
        exact dumpTree_ren f modName root id fuel _ c
      · congr 1
        apply List.map_congr_left
        intro c _
        exact dumpTree_ren f modName root id fuel _ c
    · congr 1
      apply List.map_congr_left
      intro c _
      exact dumpTree_ren f modName root id fuel _ c

/-- **Corresponding outcomes have the same canonical dump.** -/
theorem dumpOutcome_ren (errs : List Err) (f : Forest) :
    dumpOutcome { errors := errs, forest := Forest.ren σ f, reg := r₂ } =
      dumpOutcome { errors := errs, forest := f, reg := r₁ } := by
  unfold dumpOutcome
  simp only
  congr 2
  split
  · rfl
  · rw [h.modulesByFullName, List.map_map]
    congr 1
    apply List.map_congr_left
    intro m _
    simp only [Function.comp, Mod.ren_seq, Mod.ren_fullName, tree?_ren h.inj]
    cases f.tree? m.seq with
    | none => rfl
    | some root =>
      simp only [Option.map_some, entryDepth_ren]
      exact dumpTree_ren h f m.fullName root m.seq _ [] root

end

end Goyang.Lemmas.LoadOrder
