import Goyang.Lemmas.LoadOrderReg
import Goyang.Lemmas.FuelGrouping
import Goyang.Lemmas.Tree
/-
Load-order independence (C05), part 3: `findGrouping` and `toEntry` commute with the renaming
of module identities.  Core Lean only.
-/
namespace Goyang.Lemmas.LoadOrder
open Goyang.Model
open Goyang.Lemmas.Fuel (Res orElse viaOwner importHit includeHit isModKw fgScope_cons fgImports_cons fgIncludes_cons)

/-! ### `findGrouping` -/

def gren (σ : Nat → Nat) (p : Res) : Res := (p.1.map fun r => (r.1, Mod.ren σ r.2.1, r.2.2), p.2)

theorem gren_none (σ : Nat → Nat) (s : List String) : gren σ (none, s) = (none, s) := rfl

theorem gren_orElse (σ : Nat → Nat) (a : Res) (k k' : List String → Res) (hk : ∀ s, k' s = gren σ (k s)) :
    orElse (gren σ a) k' = gren σ (orElse a k) := by
  rcases a with ⟨_ | r, s⟩
  · exact hk s
  · rfl

section
variable {σ : Nat → Nat} {r₁ r₂ : Registry} (h : RegRel σ r₁ r₂) (linked : List Nat)
include h

theorem fg_ren : ∀ fuel : Nat,
    (∀ root scope name seen, findGrouping r₂ (linked.map σ) fuel (Mod.ren σ root) scope name seen =
      gren σ (findGrouping r₁ linked fuel root scope name seen)) ∧
    (∀ root scope name seen, fgScope r₂ (linked.map σ) fuel (Mod.ren σ root) scope name seen =
      gren σ (fgScope r₁ linked fuel root scope name seen)) ∧
    (∀ imports name seen, fgImports r₂ (linked.map σ) fuel imports name seen =
      gren σ (fgImports r₁ linked fuel imports name seen)) ∧
    (∀ includes name seen, fgIncludes r₂ (linked.map σ) fuel includes name seen =
      gren σ (fgIncludes r₁ linked fuel includes name seen)) := by
  intro fuel
  induction fuel with
  | zero =>
    refine ⟨?_, ?_, ?_, ?_⟩ <;> intros <;> simp [findGrouping, fgScope, fgImports, fgIncludes, gren]
  | succ fuel ih =>
    obtain ⟨ihF, ihS, ihI, ihC⟩ := ih
    refine ⟨?_, ?_, ?_, ?_⟩
    · intro root scope name seen
      simp only [findGrouping]
      exact ihS root scope _ seen
    · intro root scope name seen
      cases scope with
      | nil => simp [fgScope, gren]
      | cons n up =>
        rw [fgScope_cons, fgScope_cons]
        cases (n.all "grouping").find? (·.arg == name) with
        | some g => rfl
        | none =>
          simp only [Mod.ren_seq, contains_map_inj σ h.inj]
          rw [ihI]
          refine gren_orElse σ _ _ _ fun s => ?_
          rw [ihC]
          refine gren_orElse σ _ _ _ fun s => ?_
          have hv : viaOwner r₂ (linked.map σ) fuel (Mod.ren σ root) (isModKw n && !name.contains ':') name s =
              gren σ (viaOwner r₁ linked fuel root (isModKw n && !name.contains ':') name s) := by
            unfold viaOwner
            rw [Mod.ren_isSub, Mod.ren_belongsTo?]
            by_cases hc : ((isModKw n && !name.contains ':') && root.isSub) = true
            · rw [if_pos hc, if_pos hc]
              cases hb : root.belongsTo? with
              | none => rfl
              | some b =>
                simp only [Option.bind_some, h.getModule]
                cases r₁.getModule b with
                | none => rfl
                | some ow =>
                  simp only [Option.map_some, Mod.ren_name, Mod.ren_stmt]
                  by_cases hs : s.contains ow.name = true
                  · rw [if_pos hs, if_pos hs]; rfl
                  · rw [if_neg hs, if_neg hs]; exact ihF ow _ _ _
            · rw [if_neg hc, if_neg hc]; rfl
          rw [hv]
          refine gren_orElse σ _ _ _ fun s => ?_
          exact ihS root up name s
    · intro imports name seen
      cases imports with
      | nil => simp [fgImports, gren]
      | cons i rest =>
        rw [fgImports_cons, fgImports_cons]
        have hv : importHit r₂ (linked.map σ) fuel i name seen = gren σ (importHit r₁ linked fuel i name seen) := by
          unfold importHit
          simp only [h.findModule]
          split
          · cases r₁.findModule false i with
            | none => rfl
            | some im => exact ihF im _ _ _
          · rfl
        rw [hv]
        exact gren_orElse σ _ _ _ fun s => ihI rest name s
    · intro includes name seen
      cases includes with
      | nil => simp [fgIncludes, gren]
      | cons i rest =>
        rw [fgIncludes_cons, fgIncludes_cons]
        have hv : includeHit r₂ (linked.map σ) fuel i name seen = gren σ (includeHit r₁ linked fuel i name seen) := by
          unfold includeHit
          simp only [h.findModule]
          cases r₁.findModule true i with
          | none => rfl
          | some im =>
            simp only [Option.map_some, Mod.ren_name, Mod.ren_stmt]
            by_cases hs : seen.contains im.name = true
            · rw [if_pos hs, if_pos hs]; rfl
            · rw [if_neg hs, if_neg hs]; exact ihF im _ _ _
        rw [hv]
        exact gren_orElse σ _ _ _ fun s => ihC rest name s

theorem findGrouping_ren (fuel : Nat) (root : Mod) (scope : List Stmt) (name : String) (seen : List String) :
    findGrouping r₂ (linked.map σ) fuel (Mod.ren σ root) scope name seen =
      gren σ (findGrouping r₁ linked fuel root scope name seen) :=
  (fg_ren h linked fuel).1 root scope name seen

end

/-! ### `toEntry` -/

/-- `simp` with the commutation lemmas; the side condition of `ren_withD` (the update does not
look at `nodeMod`) holds by `rfl`. -/
macro "rsimp" : tactic => `(tactic| simp (disch := (intro d; unfold renD; rfl)) [ren_withD, pren, renD])

/-- Two conversion environments over related registries. -/
structure EnvRel (σ : Nat → Nat) (env₁ env₂ : Env) : Prop where
  reg : RegRel σ env₁.reg env₂.reg
  opts : env₂.opts = env₁.opts
  linked : env₂.linked = env₁.linked.map σ
  tres : ∀ root scope t, env₂.tres.resolve env₂.reg (Mod.ren σ root) scope t = env₁.tres.resolve env₁.reg root scope t

/-- The recursive calls commute with the renaming. -/
def RecRen (σ : Nat → Nat) (rec₁ rec₂ : Tree.Rec) : Prop :=
  ∀ root scope n visiting st,
    rec₂ (Mod.ren σ root) scope n (visiting.map (renId σ)) (TState.ren σ st) = pren σ (rec₁ root scope n visiting st)

theorem ren_errorEntry (σ : Nat → Nat) (root : Mod) (n : Stmt) (cls : String) :
    errorEntry (Mod.ren σ root) n cls = Entry.ren σ (errorEntry root n cls) := by
  simp [errorEntry, renD]

section
variable {σ : Nat → Nat} {env₁ env₂ : Env} (he : EnvRel σ env₁ env₂)
include he

theorem leafEntry_ren (root : Mod) (scope : List Stmt) (n : Stmt) (syn : Bool) :
    leafEntry env₂ (Mod.ren σ root) scope n syn = Entry.ren σ (leafEntry env₁ root scope n syn) := by
  unfold leafEntry
  simp only [he.tres]
  simp [renD]

theorem includeTarget_ren (root : Mod) (i : Stmt) :
    env₂.includeTarget (Mod.ren σ root) i = (env₁.includeTarget root i).map (Mod.ren σ) := by
  unfold Env.includeTarget
  rw [he.linked, Mod.ren_seq, contains_map_inj σ he.reg.inj]
  split
  · exact he.reg.findModule true i
  · rfl

end

section
variable {σ : Nat → Nat} {env₁ env₂ : Env} (he : EnvRel σ env₁ env₂) {rec₁ rec₂ : Tree.Rec} (hrec : RecRen σ rec₁ rec₂)
  (root : Mod) (n : Stmt) (sub : List Stmt) (visiting : List NodeId) (isMod : Bool)
include he hrec

omit he in
theorem addAllFn_ren (kw : String) (acc : Entry × TState) :
    Tree.addAllFn rec₂ (Mod.ren σ root) n sub (visiting.map (renId σ)) kw (pren σ acc) =
      pren σ (Tree.addAllFn rec₁ root n sub visiting kw acc) := by
  unfold Tree.addAllFn
  refine List.foldl_hom (pren σ) ?_
  intro x c
  simp only [pren_snd, hrec root sub c visiting x.2]
  simp [pren]

theorem stepFn_ren (acc : Entry × TState) (f : String) :
    Tree.stepFn env₂ rec₂ (Mod.ren σ root) n sub (visiting.map (renId σ)) isMod (pren σ acc) f =
      pren σ (Tree.stepFn env₁ rec₁ root n sub visiting isMod acc f) := by
  obtain ⟨e, st⟩ := acc
  unfold Tree.stepFn
  simp only [pren]
  split
  all_goals try dsimp only
  case h_1 => rsimp
  case h_2 => rsimp
  case h_3 => cases n.argOf? "description" <;> rsimp
  case h_4 => cases n.argOf? "key" <;> rsimp
  case h_5 => exact addAllFn_ren hrec root n sub visiting _ (e, st)
  case h_6 => exact addAllFn_ren hrec root n sub visiting _ (e, st)
  case h_7 => exact addAllFn_ren hrec root n sub visiting _ (e, st)
  case h_8 => exact addAllFn_ren hrec root n sub visiting _ (e, st)
  case h_9 => exact addAllFn_ren hrec root n sub visiting _ (e, st)
  case h_10 => exact addAllFn_ren hrec root n sub visiting _ (e, st)
  case h_11 => exact addAllFn_ren hrec root n sub visiting _ (e, st)
  case h_12 => exact addAllFn_ren hrec root n sub visiting _ (e, st)
  case h_13 => exact addAllFn_ren hrec root n sub visiting _ (e, st)
  case h_14 =>
    refine List.foldl_hom (pren σ) (init := (e, st)) ?_
    intro x c
    simp only [pren_snd, hrec root sub c visiting x.2]
    rsimp
  case h_15 =>
    refine List.foldl_hom (pren σ) (init := (e, st)) ?_
    intro x c
    simp only [pren_snd, hrec root sub c visiting x.2]
    rsimp
  case h_16 =>
    refine List.foldl_hom (pren σ) (init := (e, st)) ?_
    intro x c
    simp only [pren_snd, hrec root sub c visiting x.2]
    simp [pren]
  case h_17 =>
    refine List.foldl_hom (pren σ) (init := (e, st)) ?_
    intro x c
    simp only [pren_snd, hrec root sub c visiting x.2]
    simp [pren]
  case h_18 =>
    cases n.one? "input" with
    | none => rfl
    | some i =>
      simp only [hrec root sub i visiting st]
      cases e with | mk d c i' o' =>
      rsimp
  case h_19 =>
    cases n.one? "output" with
    | none => rfl
    | some o =>
      simp only [hrec root sub o visiting st]
      cases e with | mk d c i' o' =>
      rsimp
  case h_20 =>
    refine List.foldl_hom (pren σ) (init := (e, st)) ?_
    rintro ⟨e', st'⟩ a
    simp only [pren, includeTarget_ren he, he.opts]
    cases env₁.includeTarget root a with
    | none => simp
    | some im =>
      simp only [Option.map_some, Mod.ren_name, Mod.ren_belongsTo?, Mod.ren_stmt]
      have hm : (TState.ren σ st').merged = st'.merged := rfl
      have hst : ∀ m, ({ TState.ren σ st' with merged := m } : TState) = TState.ren σ { st' with merged := m } := fun _ => rfl
      simp only [hm, hst, hrec im [] im.stmt visiting]
      repeat' split
      all_goals simp [pren]
  case h_21 =>
    refine List.foldl_hom (pren σ) (init := (e, st)) ?_
    intro x c
    simp only [pren_snd, hrec root sub c visiting x.2]
    simp [pren]
  case h_22 =>
    refine List.foldl_hom (pren σ) (init := (e, st)) ?_
    intro x c
    simp only [pren_snd, hrec root sub c visiting x.2]
    split <;> simp [pren]
  case h_23 =>
    cases n.one? "type" with
    | none => rfl
    | some t =>
      simp only [he.tres]
      split <;> rsimp
  case h_24 =>
    simp only [ren_d, renD_kind]
    split
    · cases n.one? "default" <;> rsimp
    · rfl
  case h_25 => cases n.argOf? "units" <;> rsimp
  case h_26 =>
    simp only [ren_d, renD_kind]
    split
    · rfl
    · cases n.one? "max-elements" <;> rsimp
  case h_27 =>
    simp only [ren_d, renD_kind]
    split
    · rfl
    · cases n.one? "min-elements" <;> rsimp
  case h_28 =>
    split
    · rfl
    · have hf : ∀ (l : List Stmt) (acc : List Entry × TState),
          l.foldl (fun (acc : List Entry × TState) a =>
            ((acc.1 ++ [(rec₂ (Mod.ren σ root) sub a (visiting.map (renId σ)) acc.2).1]),
              (rec₂ (Mod.ren σ root) sub a (visiting.map (renId σ)) acc.2).2)) (acc.1.map (Entry.ren σ), TState.ren σ acc.2) =
          ((l.foldl (fun (acc : List Entry × TState) a =>
            ((acc.1 ++ [(rec₁ root sub a visiting acc.2).1]), (rec₁ root sub a visiting acc.2).2)) acc).1.map (Entry.ren σ),
           TState.ren σ (l.foldl (fun (acc : List Entry × TState) a =>
            ((acc.1 ++ [(rec₁ root sub a visiting acc.2).1]), (rec₁ root sub a visiting acc.2).2)) acc).2) := by
        intro l
        induction l with
        | nil => intro acc; rfl
        | cons a t ih =>
          intro acc
          simp only [List.foldl_cons]
          rw [← ih]
          simp [hrec root sub a visiting acc.2]
      have := hf (n.all "augment") ([], st)
      simp only [List.map_nil] at this
      simp only [this, Mod.ren_seq]
      simp [TState.ren]

omit he hrec in
theorem e0_ren : Tree.e0 (Mod.ren σ root) n = Entry.ren σ (Tree.e0 root n) := by
  unfold Tree.e0 Tree.baseData
  simp only [Mod.ren_seq]
  split
  · simp [renD]
  · split <;> simp [renD]

theorem dirBody_ren (scope : List Stmt) (st : TState) :
    Tree.dirBody env₂ rec₂ (Mod.ren σ root) scope n (visiting.map (renId σ)) (TState.ren σ st) isMod =
      pren σ (Tree.dirBody env₁ rec₁ root scope n visiting st isMod) := by
  unfold Tree.dirBody
  have hfold : (fieldOrder n.kw).foldl (Tree.stepFn env₂ rec₂ (Mod.ren σ root) n (n :: scope) (visiting.map (renId σ)) isMod)
      (Tree.e0 (Mod.ren σ root) n, TState.ren σ st) =
      pren σ ((fieldOrder n.kw).foldl (Tree.stepFn env₁ rec₁ root n (n :: scope) visiting isMod) (Tree.e0 root n, st)) := by
    rw [e0_ren]
    exact List.foldl_hom (pren σ) (init := (Tree.e0 root n, st))
      (fun x f => stepFn_ren he hrec root n (n :: scope) visiting isMod x f)
  rw [hfold]
  generalize (fieldOrder n.kw).foldl (Tree.stepFn env₁ rec₁ root n (n :: scope) visiting isMod) (Tree.e0 root n, st) = r
  obtain ⟨e, st'⟩ := r
  simp only [pren]
  split
  · simp [TState.ren]
  · split
    · simp [TState.ren]
    · rfl

theorem toEntryBody_ren (fuel : Nat) (scope : List Stmt) (st : TState) :
    Tree.toEntryBody env₂ fuel rec₂ (Mod.ren σ root) scope n (visiting.map (renId σ)) (TState.ren σ st) =
      pren σ (Tree.toEntryBody env₁ fuel rec₁ root scope n visiting st) := by
  unfold Tree.toEntryBody
  simp only
  -- module cache
  have hc : (TState.ren σ st).cache.find? (fun p => p.1 == (Mod.ren σ root).seq) =
      (st.cache.find? (fun p => p.1 == root.seq)).map fun p => (σ p.1, Entry.ren σ p.2) := by
    rw [Mod.ren_seq]
    exact find?_map_inj σ he.reg.inj (fun p : Nat × Entry => p.1) (fun p : Nat × Entry => p.1) _ (fun _ => rfl) st.cache root.seq
  have hg : (TState.ren σ st).gcache.find? (fun p => p.1 == nodeId (Mod.ren σ root) n) =
      (st.gcache.find? (fun p => p.1 == nodeId root n)).map fun p => (renId σ p.1, Entry.ren σ p.2) := by
    rw [renId_nodeId]
    exact find?_map_inj (renId σ) (renId_inj he.reg.inj) (fun p : NodeId × Entry => p.1) (fun p : NodeId × Entry => p.1) _
      (fun _ => rfl) st.gcache (nodeId root n)
  have hv : (visiting.map (renId σ)).contains (nodeId (Mod.ren σ root) n) = visiting.contains (nodeId root n) := by
    rw [renId_nodeId]
    exact contains_map_inj (renId σ) (renId_inj he.reg.inj) visiting _
  rw [hc, hg, hv]
  have hvis : (if (n.kw == "module" || n.kw == "submodule" || n.kw == "grouping") = true then
        nodeId (Mod.ren σ root) n :: List.map (renId σ) visiting else List.map (renId σ) visiting) =
      (if (n.kw == "module" || n.kw == "submodule" || n.kw == "grouping") = true then
        nodeId root n :: visiting else visiting).map (renId σ) := by
    split <;> simp
  rw [hvis]
  generalize (if (n.kw == "module" || n.kw == "submodule" || n.kw == "grouping") = true then
        nodeId root n :: visiting else visiting) = vis'
  -- module cache
  have h1 : ∀ (o : Option (Nat × Entry)) (k₂ k₁ : Entry × TState), k₂ = pren σ k₁ →
      (match o.map (fun p => (σ p.fst, Entry.ren σ p.snd)) with
        | some (_, e) => (e, TState.ren σ st)
        | none => k₂) = pren σ (match o with | some (_, e) => (e, st) | none => k₁) := by
    intro o k₂ k₁ hk
    cases o with
    | none => exact hk
    | some p => rfl
  have h2 : ∀ (o : Option (NodeId × Entry)) (k₂ k₁ : Entry × TState), k₂ = pren σ k₁ →
      (match o.map (fun p => (renId σ p.fst, Entry.ren σ p.snd)) with
        | some (_, e) => (e, TState.ren σ st)
        | none => k₂) = pren σ (match o with | some (_, e) => (e, st) | none => k₁) := by
    intro o k₂ k₁ hk
    cases o with
    | none => exact hk
    | some p => rfl
  have hif1 : (if (n.kw == "module" || n.kw == "submodule") = true then
        Option.map (fun p => (σ p.fst, Entry.ren σ p.snd)) (List.find? (fun p => p.fst == root.seq) st.cache) else none) =
      (if (n.kw == "module" || n.kw == "submodule") = true then List.find? (fun p => p.fst == root.seq) st.cache else none).map
        (fun p => (σ p.fst, Entry.ren σ p.snd)) := by split <;> rfl
  have hif2 : (if (n.kw == "grouping") = true then
        Option.map (fun p => (renId σ p.fst, Entry.ren σ p.snd)) (List.find? (fun p => p.fst == nodeId root n) st.gcache) else none) =
      (if (n.kw == "grouping") = true then List.find? (fun p => p.fst == nodeId root n) st.gcache else none).map
        (fun p => (renId σ p.fst, Entry.ren σ p.snd)) := by split <;> rfl
  rw [hif1, hif2]
  refine h1 _ _ _ ?_
  refine h2 _ _ _ ?_
  split
  · simp [pren, ren_errorEntry]
  split
  · simp [pren, leafEntry_ren he]
  split
  · rw [leafEntry_ren he]
    rsimp
  split
  · rw [he.linked, findGrouping_ren he.reg]
    generalize findGrouping env₁.reg env₁.linked (2 * fuel + 16) root scope n.arg [] = fg
    obtain ⟨o, seen'⟩ := fg
    cases o with
    | none => simp [gren, pren, ren_errorEntry]
    | some r =>
      obtain ⟨g, groot, gscope⟩ := r
      simp only [gren, Option.map_some]
      exact hrec groot gscope g vis' st
  · exact dirBody_ren he hrec root n vis' (n.kw == "module" || n.kw == "submodule") scope st

end

/-- **`toEntry` commutes with the renaming of module identities.** -/
theorem toEntry_ren {σ : Nat → Nat} {env₁ env₂ : Env} (he : EnvRel σ env₁ env₂) :
    ∀ fuel : Nat, RecRen σ (toEntry env₁ fuel) (toEntry env₂ fuel) := by
  intro fuel
  induction fuel with
  | zero =>
    intro root scope n visiting st
    rw [Tree.toEntry_zero, Tree.toEntry_zero]
    simp [pren, ren_errorEntry]
  | succ fuel ih =>
    intro root scope n visiting st
    rw [Tree.toEntry_succ, Tree.toEntry_succ]
    exact toEntryBody_ren he ih root n visiting fuel scope st

end Goyang.Lemmas.LoadOrder
