import Goyang.Lemmas.LoadOrderReg
import Goyang.Model.Find
/-
Load-order independence (C05), part 4: paths, `walkParts`, `find`, namespaces commute with the
renaming of module identities.  Core Lean only.
-/
namespace Goyang.Lemmas.LoadOrder
open Goyang.Model

section
variable (σ : Nat → Nat)

theorem getAt_ren : ∀ (p : Path) (e : Entry), (Entry.ren σ e).getAt p = (e.getAt p).map (Entry.ren σ)
  | [], e => rfl
  | .child k :: p, e => by
    simp only [Entry.getAt, ren_child?]
    cases e.child? k with
    | none => rfl
    | some c => exact getAt_ren p c
  | .input :: p, e => by
    simp only [Entry.getAt, ren_inp, List.head?_map]
    cases e.inp.head? with
    | none => rfl
    | some c => exact getAt_ren p c
  | .output :: p, e => by
    simp only [Entry.getAt, ren_out, List.head?_map]
    cases e.out.head? with
    | none => rfl
    | some c => exact getAt_ren p c

theorem updateAt_ren (f f' : Entry → Entry) (hf : ∀ x, Entry.ren σ (f x) = f' (Entry.ren σ x)) :
    ∀ (p : Path) (e : Entry), Entry.ren σ (e.updateAt p f) = (Entry.ren σ e).updateAt p f'
  | [], e => hf e
  | .child k :: p, .mk d c i o => by
    simp only [Entry.updateAt, ren_mk, List.map_map]
    congr 1
    apply List.map_congr_left
    intro x _
    simp only [Function.comp, ren_name]
    split
    · exact updateAt_ren f f' hf p x
    · rfl
  | .input :: p, .mk d c i o => by
    simp only [Entry.updateAt, ren_mk, List.map_map]
    congr 1
    apply List.map_congr_left
    intro x _
    exact updateAt_ren f f' hf p x
  | .output :: p, .mk d c i o => by
    simp only [Entry.updateAt, ren_mk, List.map_map]
    congr 1
    apply List.map_congr_left
    intro x _
    exact updateAt_ren f f' hf p x

theorem implicitIO_ren (parent : Entry) (b : Bool) :
    implicitIO (Entry.ren σ parent) b = Entry.ren σ (implicitIO parent b) := by
  simp [implicitIO, renD]

theorem walkParts_ren : ∀ (parts : List String) (root : Entry) (cur : Option Path),
    walkParts parts (Entry.ren σ root) cur = ((walkParts parts root cur).1, Entry.ren σ (walkParts parts root cur).2)
  | [], root, cur => rfl
  | part :: rest, root, cur => by
    have step : ∀ (g : Entry → Entry) (_ : ∀ x, Entry.ren σ (g x) = g (Entry.ren σ x)) (p : Path) (c : Option Path),
        walkParts rest ((Entry.ren σ root).updateAt p g) c =
          ((walkParts rest (root.updateAt p g) c).1, Entry.ren σ (walkParts rest (root.updateAt p g) c).2) := by
      intro g hg p c
      rw [← updateAt_ren σ g g hg]
      exact walkParts_ren rest _ _
    cases cur with
    | none => rfl
    | some p =>
      simp only [walkParts, getAt_ren]
      cases hg : root.getAt p with
      | none => rfl
      | some e =>
        simp only [Option.map_some, ren_d, renD_isRpc, ren_inp, ren_out, List.isEmpty_map, ren_child?]
        repeat' split
        all_goals first
          | rfl
          | exact walkParts_ren rest _ _
          | exact step _ (by rintro ⟨d, c, i, o⟩; simp [← implicitIO_ren]) _ _
          | (rename_i hc; cases hc' : e.child? (stripPrefix part) <;> simp_all)

end

/-! ### forests -/

section
variable {σ : Nat → Nat} (hσ : ∀ a b, σ a = σ b → a = b)
include hσ

theorem tree?_ren (f : Forest) (id : Nat) : (Forest.ren σ f).tree? (σ id) = (f.tree? id).map (Entry.ren σ) := by
  unfold Forest.tree? Forest.ren
  rw [find?_map_inj σ hσ (fun p : Nat × Entry => p.1) (fun p : Nat × Entry => p.1) _ (fun _ => rfl) f.trees id]
  cases f.trees.find? _ <;> rfl

theorem setTree_ren (f : Forest) (id : Nat) (e : Entry) :
    (Forest.ren σ f).setTree (σ id) (Entry.ren σ e) = Forest.ren σ (f.setTree id e) := by
  unfold Forest.setTree Forest.ren
  simp only [List.map_map]
  congr 1
  apply List.map_congr_left
  rintro ⟨i, t⟩ _
  simp only [Function.comp]
  by_cases hi : i = id
  · simp [hi]
  · have : σ i ≠ σ id := fun e => hi (hσ _ _ e)
    simp [hi, this]

end

/-! ### `find` -/

/-- The tree an absolute path is looked up in (`find`). -/
def findTree (reg : Registry) (s ctxMod : Nat) (pfx : String) : Option Nat :=
  if pfx == "" then
    match reg.byId s with
    | some sm => if sm.isSub then ((reg.owner sm).map (·.seq)).getD s else s
    | none => some s
  else
  match reg.byId ctxMod with
  | none => none
  | some cm =>
    match reg.findModuleByPrefix cm pfx with
    | none => none
    | some m => (reg.owner m).map (·.seq)

def findAbs (reg : Registry) (f : Forest) (start : Loc) (ctxMod : Nat) (parts : List String) : Option Loc × Forest :=
  match findTree reg start.1 ctxMod (splitPrefix (parts.headD "")).1 with
  | none =>
    (none, match f.tree? start.1 with
      | some root => f.setTree start.1 (root.addErr (Err.bare "other"))
      | none => f)
  | some t =>
    match f.tree? t with
    | none => (none, f)
    | some root => ((walkParts parts root (some [])).1.map (t, ·), f.setTree t (walkParts parts root (some [])).2)

def findRel (f : Forest) (start : Loc) (parts : List String) : Option Loc × Forest :=
  match f.tree? start.1 with
  | none => (none, f)
  | some root =>
    ((walkParts parts root (some start.2)).1.map (start.1, ·), f.setTree start.1 (walkParts parts root (some start.2)).2)

theorem find_eq (reg : Registry) (f : Forest) (start : Loc) (ctxMod : Nat) (name : String) :
    find reg f start ctxMod name =
      if name == "" then (none, f) else
      match name.splitOn "/" with
      | "" :: parts => findAbs reg f start ctxMod parts
      | parts => findRel f start parts := by
  rfl

def lren (σ : Nat → Nat) (l : Loc) : Loc := (σ l.1, l.2)

section
variable {σ : Nat → Nat} {r₁ r₂ : Registry} (h : RegRel σ r₁ r₂)
include h

theorem findTree_ren (s ctxMod : Nat) (pfx : String) :
    findTree r₂ (σ s) (σ ctxMod) pfx = (findTree r₁ s ctxMod pfx).map σ := by
  unfold findTree
  rw [h.byId, h.byId]
  split
  · cases r₁.byId s with
    | none => rfl
    | some sm =>
      simp only [Option.map_some, Mod.ren_isSub, h.owner]
      split
      · cases r₁.owner sm <;> rfl
      · rfl
  · cases r₁.byId ctxMod with
    | none => rfl
    | some cm =>
      simp only [Option.map_some, h.findModuleByPrefix]
      cases r₁.findModuleByPrefix cm pfx with
      | none => rfl
      | some m =>
        simp only [Option.map_some, h.owner]
        cases r₁.owner m <;> rfl

theorem findRel_ren (f : Forest) (start : Loc) (parts : List String) :
    findRel (Forest.ren σ f) (lren σ start) parts =
      ((findRel f start parts).1.map (lren σ), Forest.ren σ (findRel f start parts).2) := by
  unfold findRel
  simp only [lren, tree?_ren h.inj]
  cases f.tree? start.1 with
  | none => rfl
  | some root =>
    simp only [Option.map_some, walkParts_ren, setTree_ren h.inj]
    cases (walkParts parts root (some start.2)).1 <;> rfl

theorem findAbs_ren (f : Forest) (start : Loc) (ctxMod : Nat) (parts : List String) :
    findAbs r₂ (Forest.ren σ f) (lren σ start) (σ ctxMod) parts =
      ((findAbs r₁ f start ctxMod parts).1.map (lren σ), Forest.ren σ (findAbs r₁ f start ctxMod parts).2) := by
  unfold findAbs
  simp only [lren, findTree_ren h, tree?_ren h.inj]
  cases findTree r₁ start.1 ctxMod (splitPrefix (parts.headD "")).1 with
  | none =>
    simp only [Option.map_none]
    cases f.tree? start.1 with
    | none => rfl
    | some root =>
      simp only [Option.map_some, ← ren_addErr, setTree_ren h.inj]
  | some t =>
    simp only [Option.map_some, tree?_ren h.inj]
    cases f.tree? t with
    | none => rfl
    | some root =>
      simp only [Option.map_some, walkParts_ren, setTree_ren h.inj]
      cases (walkParts parts root (some [])).1 <;> rfl

/-- **`find` commutes with the renaming of module identities.** -/
theorem find_ren (f : Forest) (start : Loc) (ctxMod : Nat) (name : String) :
    find r₂ (Forest.ren σ f) (lren σ start) (σ ctxMod) name =
      ((find r₁ f start ctxMod name).1.map (lren σ), Forest.ren σ (find r₁ f start ctxMod name).2) := by
  rw [find_eq, find_eq]
  split
  · rfl
  · split
    · exact findAbs_ren h f start ctxMod _
    · exact findRel_ren h f start _

end

/-! ### what the dump reads along a path -/

section
variable (σ : Nat → Nat)

/-- The node one step below `e`. -/
def nextOf (e : Entry) : Step → Option Entry
  | .child k => e.child? k
  | .input => e.inp.head?
  | .output => e.out.head?

theorem nextOf_ren (e : Entry) (s : Step) : nextOf (Entry.ren σ e) s = (nextOf e s).map (Entry.ren σ) := by
  cases s <;> simp [nextOf]

theorem stampAt_go_cons (e : Entry) (s : Step) (rest : Path) (acc : Option String) :
    Entry.stampAt.go e (s :: rest) acc =
      match nextOf e s with
      | some c => Entry.stampAt.go c rest (match c.d.ns with | some n => some n | none => acc)
      | none => acc := by
  cases s <;> rfl

theorem stampAt_go_ren : ∀ (p : Path) (e : Entry) (acc : Option String),
    Entry.stampAt.go (Entry.ren σ e) p acc = Entry.stampAt.go e p acc
  | [], e, acc => rfl
  | s :: rest, e, acc => by
    rw [stampAt_go_cons, stampAt_go_cons, nextOf_ren]
    cases nextOf e s with
    | none => rfl
    | some c =>
      simp only [Option.map_some, ren_d, renD_ns]
      exact stampAt_go_ren rest c _

theorem stampAt_ren (root : Entry) (p : Path) : (Entry.ren σ root).stampAt p = root.stampAt p :=
  stampAt_go_ren σ p root none

theorem pathString_go_cons (e : Entry) (s : Step) (rest : Path) (acc : String) :
    Entry.pathString.go e (s :: rest) acc =
      match nextOf e s with
      | some c => Entry.pathString.go c rest (acc ++ "/" ++ c.name)
      | none => acc := by
  cases s <;> rfl

theorem pathString_go_ren : ∀ (p : Path) (e : Entry) (acc : String),
    Entry.pathString.go (Entry.ren σ e) p acc = Entry.pathString.go e p acc
  | [], e, acc => rfl
  | s :: rest, e, acc => by
    rw [pathString_go_cons, pathString_go_cons, nextOf_ren]
    cases nextOf e s with
    | none => rfl
    | some c =>
      simp only [Option.map_some, ren_name]
      exact pathString_go_ren rest c _

theorem pathString_ren (root : Entry) (p : Path) : (Entry.ren σ root).pathString p = root.pathString p := by
  unfold Entry.pathString
  rw [ren_name]
  exact pathString_go_ren σ p root _

def roHere (e : Entry) (inherited : Bool) : Bool :=
  if e.d.kind == .output then true
  else match e.d.config with
    | .unset => inherited
    | .true_ => false
    | .false_ => true

theorem roHere_ren (e : Entry) (inh : Bool) : roHere (Entry.ren σ e) inh = roHere e inh := by
  simp [roHere]

theorem readOnlyAt_go_nil (e : Entry) (inh : Bool) : Entry.readOnlyAt.go e [] inh = roHere e inh := rfl

theorem readOnlyAt_go_cons (e : Entry) (s : Step) (rest : Path) (inh : Bool) :
    Entry.readOnlyAt.go e (s :: rest) inh =
      match nextOf e s with
      | some c => Entry.readOnlyAt.go c rest (roHere e inh)
      | none => roHere e inh := by
  cases s <;> rfl

theorem readOnlyAt_go_ren : ∀ (p : Path) (e : Entry) (inh : Bool),
    Entry.readOnlyAt.go (Entry.ren σ e) p inh = Entry.readOnlyAt.go e p inh
  | [], e, inh => by rw [readOnlyAt_go_nil, readOnlyAt_go_nil, roHere_ren]
  | s :: rest, e, inh => by
    rw [readOnlyAt_go_cons, readOnlyAt_go_cons, nextOf_ren, roHere_ren]
    cases nextOf e s with
    | none => rfl
    | some c =>
      simp only [Option.map_some]
      exact readOnlyAt_go_ren rest c _

theorem readOnlyAt_ren (root : Entry) (p : Path) : (Entry.ren σ root).readOnlyAt p = root.readOnlyAt p :=
  readOnlyAt_go_ren σ p root false

end

/-- The answer of `InstantiatingModule()` given the loaded modules with the node's namespace. -/
def instOf : List Mod → Option String
  | [] => none
  | m :: rest => if rest.all (·.name == m.name) then some m.name else none

theorem instantiatingModuleAt_eq (reg : Registry) (f : Forest) (loc : Loc) :
    instantiatingModuleAt reg f loc =
      instOf (reg.distinctModules.filter fun m => (m.stmt.argOf? "namespace").getD "" == namespaceAt reg f loc) := by
  unfold instantiatingModuleAt
  simp only
  generalize (reg.distinctModules.filter fun m => (m.stmt.argOf? "namespace").getD "" == namespaceAt reg f loc) = l
  cases l <;> rfl

/-- It depends on them as a set only. -/
theorem instOf_perm {l₁ l₂ : List Mod} (hp : l₁.Perm l₂) : instOf l₁ = instOf l₂ := by
  have key : ∀ (l : List Mod), instOf l =
      match l.head? with
      | none => none
      | some m => if l.all (·.name == m.name) then some m.name else none := by
    intro l
    cases l with
    | nil => rfl
    | cons m rest => simp [instOf]
  rw [key, key]
  cases l₁ with
  | nil => rw [List.nil_perm.mp hp]
  | cons a t₁ =>
    cases l₂ with
    | nil => exact absurd hp.length_eq (by simp)
    | cons b t₂ =>
      simp only [List.head?_cons]
      have hb : b ∈ a :: t₁ := hp.mem_iff.mpr (List.mem_cons_self ..)
      have ha : a ∈ b :: t₂ := hp.mem_iff.mp (List.mem_cons_self ..)
      by_cases hall : (a :: t₁).all (·.name == a.name) = true
      · have hba : b.name = a.name := by simpa using List.all_eq_true.mp hall b hb
        have hall₂ : (b :: t₂).all (·.name == b.name) = true := by
          rw [← hp.all_eq, hba]; exact hall
        rw [if_pos hall, if_pos hall₂, hba]
      · have hall₂ : ¬ (b :: t₂).all (·.name == b.name) = true := by
          intro hx
          apply hall
          have hab : a.name = b.name := by simpa using List.all_eq_true.mp hx a ha
          rw [hp.all_eq, hab]; exact hx
        rw [if_neg hall, if_neg hall₂]

section
variable {σ : Nat → Nat} {r₁ r₂ : Registry} (h : RegRel σ r₁ r₂)
include h

theorem namespaceAt_ren (f : Forest) (loc : Loc) :
    namespaceAt r₂ (Forest.ren σ f) (lren σ loc) = namespaceAt r₁ f loc := by
  unfold namespaceAt
  simp only [lren, tree?_ren h.inj, h.byId]
  cases f.tree? loc.1 with
  | none => rfl
  | some root =>
    simp only [Option.map_some, stampAt_ren]
    cases root.stampAt loc.2 with
    | some n => rfl
    | none =>
      cases r₁.byId loc.1 with
      | none => rfl
      | some m =>
        simp only [Option.map_some, h.owner]
        cases r₁.owner m <;> rfl

theorem instantiatingModuleAt_ren (f : Forest) (loc : Loc) :
    instantiatingModuleAt r₂ (Forest.ren σ f) (lren σ loc) = instantiatingModuleAt r₁ f loc := by
  rw [instantiatingModuleAt_eq, instantiatingModuleAt_eq]
  simp only [namespaceAt_ren h]
  have hp : (r₂.distinctModules.filter fun m => (m.stmt.argOf? "namespace").getD "" == namespaceAt r₁ f loc).Perm
      ((r₁.distinctModules.filter fun m => (m.stmt.argOf? "namespace").getD "" == namespaceAt r₁ f loc).map (Mod.ren σ)) := by
    refine (h.distinctModules.filter _).trans ?_
    rw [List.filter_map]
    exact List.Perm.refl _
  rw [instOf_perm hp]
  cases r₁.distinctModules.filter fun m => (m.stmt.argOf? "namespace").getD "" == namespaceAt r₁ f loc with
  | nil => rfl
  | cons m rest =>
    simp only [instOf, List.map_cons, Mod.ren_name, List.all_map]
    rfl

end

end Goyang.Lemmas.LoadOrder
