import Goyang.Lemmas.LoadOrderReg
import Goyang.Model.Identity
/-
Load-order independence (C05), part 10: the identity layer as `process` runs it (insertion-order
oracle `Oracle.ofNat 0`; every map walk sorted first) on two registries that hold the same
modules under renamed sequence numbers: corresponding links, corresponding dictionaries (same
order), the same errors.  Core Lean only.
-/
namespace Goyang.Lemmas.LoadOrder
open Goyang.Model Goyang.Model.Identity

/-! ### generic -/

theorem ofNat0_order {α : Type} (site : Nat) (l : List α) : (Oracle.ofNat 0).order site l = l := by
  simp [Oracle.ofNat]

/-- A fold in `Option` commutes with a map of the state. -/
theorem foldlM_hom {α₁ α₂ β : Type} (φ : α₁ → α₂) (g₁ : α₁ → β → Option α₁) (g₂ : α₂ → β → Option α₂)
    (hg : ∀ x y, g₂ (φ x) y = (g₁ x y).map φ) : ∀ (l : List β) (init : α₁),
    l.foldlM g₂ (φ init) = (l.foldlM g₁ init).map φ
  | [], init => rfl
  | y :: t, init => by
    rw [List.foldlM_cons, List.foldlM_cons, hg]
    cases g₁ init y with
    | none => rfl
    | some x => exact foldlM_hom φ g₁ g₂ hg t x

theorem mem_map_inj {α β : Type} (f : α → β) (hf : ∀ a b, f a = f b → a = b) (l : List α) (a : α) :
    f a ∈ l.map f ↔ a ∈ l := by
  constructor
  · intro h
    obtain ⟨b, hb, e⟩ := List.mem_map.mp h
    rw [← hf _ _ e]; exact hb
  · exact List.mem_map_of_mem

theorem insertSorted_eq_insertBy {α : Type} (lt : α → α → Bool) (x : α) (l : List α) :
    insertSorted lt x l = insertBy lt x l := by
  induction l with
  | nil => rfl
  | cons y ys ih => simp only [insertSorted, insertBy, ih]

/-- Go's stable sort (as modelled in the identity layer) is the model's `sortBy` of the reversed
list. -/
theorem sortStable_eq_sortBy {α : Type} (lt : α → α → Bool) (l : List α) :
    sortStable lt l = sortBy lt l.reverse := by
  unfold sortStable sortBy
  rw [List.foldr_reverse]
  congr 1
  funext acc x
  exact insertSorted_eq_insertBy lt x acc

theorem sortStable_perm_map {α β : Type} (lt : α → α → Bool) (lt' : β → β → Bool)
    (f : α → β) (h : ∀ a b, lt' (f a) (f b) = lt a b)
    (irr : ∀ a, lt' a a = false) (tr : ∀ a b c, lt' a b = true → lt' b c = true → lt' a c = true)
    {l₁ : List α} {l₂ : List β} (hp : l₂.Perm (l₁.map f))
    (tot : ∀ a ∈ l₁, ∀ b ∈ l₁, f a ≠ f b → lt a b = true ∨ lt b a = true) :
    sortStable lt' l₂ = (sortStable lt l₁).map f := by
  rw [sortStable_eq_sortBy, sortStable_eq_sortBy]
  refine sortBy_perm_map lt lt' f h irr tr ?_ ?_
  · exact (List.reverse_perm _).trans (hp.trans ((List.reverse_perm _).map f).symm)
  · intro a ha b hb
    exact tot a (List.mem_reverse.mp ha) b (List.mem_reverse.mp hb)

/-! ### renaming of the identity layer's state -/

def lkRen (σ : Nat → Nat) (lk : Link) : Link :=
  { visited := lk.visited.map σ, linked := lk.linked.map fun p => (σ p.1, p.2) }

def deRen (σ : Nat → Nat) (e : DEntry) : DEntry := { e with root := σ e.root }

def lpRen (σ : Nat → Nat) (p : Link × Option Err) : Link × Option Err := (lkRen σ p.1, p.2)

/-! ### `Modules.include` as the identity layer models it -/

def goStep (r : Registry) (rec : Mod → Link → Option (Link × Option Err)) (m : Mod)
    (acc : Link × Option Err) (item : Bool × Nat × Stmt) : Option (Link × Option Err) :=
  match acc.2 with
  | some e => some (acc.1, some e)
  | none =>
    match r.findModule item.1 item.2.2 with
    | none => some (acc.1, some (Err.bare (if item.1 then "no-such-submodule" else "no-such-module")))
    | some im =>
      match rec im acc.1 with
      | none => none
      | some (st', some e) => some (st', some e)
      | some (st', none) =>
        some (if item.1 then { st' with linked := st'.linked ++ [(m.seq, item.2.1)] } else st', none)

theorem includeGo_succ (r : Registry) (fuel : Nat) (m : Mod) (st : Link) :
    includeGo r (fuel + 1) m st =
      if m.seq ∈ st.visited then some (st, none) else
      (linkItems m).foldlM (goStep r (includeGo r fuel) m) ({ st with visited := st.visited ++ [m.seq] }, none) := rfl

section
variable {σ : Nat → Nat} {r₁ r₂ : Registry} (h : RegRel σ r₁ r₂)
include h

theorem includeGo_ren : ∀ (fuel : Nat) (m : Mod) (st : Link),
    includeGo r₂ fuel (Mod.ren σ m) (lkRen σ st) = (includeGo r₁ fuel m st).map (lpRen σ)
  | 0, m, st => rfl
  | fuel + 1, m, st => by
    rw [includeGo_succ, includeGo_succ]
    have hv : (Mod.ren σ m).seq ∈ (lkRen σ st).visited ↔ m.seq ∈ st.visited := mem_map_inj σ h.inj st.visited m.seq
    by_cases hm : m.seq ∈ st.visited
    · rw [if_pos hm, if_pos (hv.mpr hm)]; rfl
    · rw [if_neg hm, if_neg (fun x => hm (hv.mp x))]
      have h0 : (({ lkRen σ st with visited := (lkRen σ st).visited ++ [(Mod.ren σ m).seq] } : Link), (none : Option Err)) =
          lpRen σ ({ st with visited := st.visited ++ [m.seq] }, none) := by
        simp [lpRen, lkRen]
      have hl : linkItems (Mod.ren σ m) = linkItems m := rfl
      rw [h0, hl]
      refine foldlM_hom (lpRen σ) _ _ ?_ _ _
      rintro ⟨lk, e⟩ item
      unfold goStep
      cases e with
      | some e => rfl
      | none =>
        simp only [lpRen, h.findModule]
        cases r₁.findModule item.1 item.2.2 with
        | none => rfl
        | some im =>
          simp only [Option.map_some, includeGo_ren fuel im lk]
          cases includeGo r₁ fuel im lk with
          | none => rfl
          | some p =>
            obtain ⟨st', e'⟩ := p
            cases e' with
            | some e' => rfl
            | none =>
              simp only [Option.map_some, lpRen]
              cases item.1 <;> simp [lkRen]

end

/-! ### the walk over include closures -/

theorem walk_ren {σ : Nat → Nat} (hσ : ∀ a b, σ a = σ b → a = b) (succ₁ succ₂ : Nat → List Nat)
    (hs : ∀ x, succ₂ (σ x) = (succ₁ x).map σ) : ∀ (fuel : Nat) (r : Nat) (ids : List Nat),
    walk succ₂ fuel (σ r) (ids.map σ) = (walk succ₁ fuel r ids).map (List.map σ)
  | 0, _, _ => rfl
  | fuel + 1, r, ids => by
    unfold walk
    have hv : σ r ∈ ids.map σ ↔ r ∈ ids := mem_map_inj σ hσ ids r
    by_cases hm : r ∈ ids
    · rw [if_pos hm, if_pos (hv.mpr hm)]; rfl
    · rw [if_neg hm, if_neg (fun x => hm (hv.mp x)), hs, List.foldlM_map]
      have h0 : ids.map σ ++ [σ r] = (ids ++ [r]).map σ := by simp
      rw [h0]
      exact foldlM_hom (List.map σ) _ _ (fun acc ch => walk_ren hσ succ₁ succ₂ hs fuel ch acc) _ _

section
variable {σ : Nat → Nat} {r₁ r₂ : Registry} (h : RegRel σ r₁ r₂)
include h

theorem moduleEntries_perm : (moduleEntries r₂).Perm ((moduleEntries r₁).map (Mod.ren σ)) := by
  unfold moduleEntries
  refine (h.modules.filterMap _).trans ?_
  rw [List.filterMap_map, List.map_filterMap]
  apply List.Perm.of_eq
  apply filterMap_congr'
  intro kv _
  exact h.byId kv.2

theorem modulesByFullName_ren :
    modulesByFullName (Oracle.ofNat 0) r₂ = (modulesByFullName (Oracle.ofNat 0) r₁).map (Mod.ren σ) := by
  unfold modulesByFullName
  rw [ofNat0_order, ofNat0_order]
  refine sortStable_perm_map fullLt fullLt (Mod.ren σ) (fun _ _ => rfl) fullLt_irr fullLt_trans
    (moduleEntries_perm h) ?_
  intro a ha b hb hab
  have hab' : a ≠ b := fun e => hab (e ▸ rfl)
  obtain ⟨kva, hkva, hka⟩ := List.mem_filterMap.mp ha
  obtain ⟨kvb, hkvb, hkb⟩ := List.mem_filterMap.mp hb
  have e : a.fullName ≠ b.fullName := by
    intro e
    refine hab' (h.fullInj a (mem_of_byId hka).1 b (mem_of_byId hkb).1 e ?_)
    rw [h.modsNotSub kva hkva a hka, h.modsNotSub kvb hkvb b hkb]
  rcases OrderIndep.str_total e with h1 | h1
  · left; simpa [fullLt] using h1
  · right; simpa [fullLt] using h1

def llRen (σ : Nat → Nat) (p : Link × List Err) : Link × List Err := (lkRen σ p.1, p.2)

theorem identity_linkAll_ren :
    Identity.linkAll (Oracle.ofNat 0) r₂ = (Identity.linkAll (Oracle.ofNat 0) r₁).map (llRen σ) := by
  unfold Identity.linkAll
  rw [modulesByFullName_ren h, List.foldlM_map, h.length]
  have h0 : (({} : Link), ([] : List Err)) = llRen σ ({}, []) := rfl
  rw [h0]
  refine foldlM_hom (llRen σ) _ _ ?_ _ _
  rintro ⟨lk, es⟩ m
  simp only [llRen, includeGo_ren h]
  cases includeGo r₁ (r₁.mods.length + 1) m lk with
  | none => rfl
  | some p =>
    obtain ⟨st, e⟩ := p
    cases e <;> rfl

theorem includeTargets_ren (lk : Link) (m : Mod) :
    includeTargets r₂ (lkRen σ lk) (Mod.ren σ m) = (includeTargets r₁ lk m).map (Mod.ren σ) := by
  unfold includeTargets
  rw [Mod.ren_includes, List.map_filterMap]
  apply filterMap_congr'
  rintro ⟨s, i⟩ _
  simp only [Mod.ren_seq, lkRen]
  have hv : (σ m.seq, i) ∈ lk.linked.map (fun p => (σ p.1, p.2)) ↔ (m.seq, i) ∈ lk.linked :=
    mem_map_inj (fun p : Nat × Nat => (σ p.1, p.2))
      (fun a b e => by
        obtain ⟨a1, a2⟩ := a; obtain ⟨b1, b2⟩ := b
        simp only [Prod.mk.injEq] at e
        rw [h.inj _ _ e.1, e.2]) lk.linked (m.seq, i)
  by_cases hm : (m.seq, i) ∈ lk.linked
  · rw [if_pos hm, if_pos (hv.mpr hm)]; exact h.findModule true s
  · rw [if_neg hm, if_neg (fun x => hm (hv.mp x))]; rfl

theorem includeSucc_ren (lk : Link) (s : Nat) :
    includeSucc r₂ (lkRen σ lk) (σ s) = (includeSucc r₁ lk s).map σ := by
  unfold includeSucc
  rw [h.byId]
  cases r₁.byId s with
  | none => rfl
  | some m =>
    simp only [Option.map_some, includeTargets_ren h, List.map_map]
    rfl

/-! ### the dictionary -/

def dpRen (σ : Nat → Nat) (p : Dict × List Err) : Dict × List Err := (p.1.map (deRen σ), p.2)

omit h in
theorem dict_bind_ren (σ : Nat → Nat) (d : Dict) (e : DEntry) :
    Dict.bind (d.map (deRen σ)) (deRen σ e) = (Dict.bind d e).map (deRen σ) := by
  unfold Dict.bind
  have hk : ∀ x : DEntry, (deRen σ x).key = x.key := fun _ => rfl
  have ha : (d.map (deRen σ)).any (fun x => x.key == (deRen σ e).key) = d.any (fun x => x.key == e.key) := by
    rw [List.any_map]; rfl
  rw [ha, hk]
  by_cases hc : d.any (fun x => x.key == e.key) = true
  · rw [if_pos hc, if_pos hc, List.map_map, List.map_map]
    apply List.map_congr_left
    intro x _
    simp only [Function.comp, hk]
    split <;> rfl
  · rw [if_neg hc, if_neg hc]
    simp

omit h in
theorem dict_get?_ren (σ : Nat → Nat) (d : Dict) (k : String) :
    Dict.get? (d.map (deRen σ)) k = (Dict.get? d k).map (deRen σ) := by
  unfold Dict.get?
  rw [List.find?_map]
  rfl

theorem registerMod_ren (m : Mod) (acc : Dict × List Err) :
    registerMod r₂ (Mod.ren σ m) (dpRen σ acc) = dpRen σ (registerMod r₁ m acc) := by
  unfold registerMod
  rw [h.owner]
  cases r₁.owner m with
  | none =>
    simp only [Option.map_none, Mod.ren_stmt]
    cases m.stmt.one? "belongs-to" <;> rfl
  | some ow =>
    simp only [Option.map_some, Mod.ren_name, Mod.ren_seq, dpRen]
    have hid : identities (Mod.ren σ m) = identities m := rfl
    rw [hid]
    congr 1
    generalize (identities m).zipIdx = l
    generalize acc.1 = d
    induction l generalizing d with
    | nil => rfl
    | cons x t ih =>
      obtain ⟨s, i⟩ := x
      simp only [List.foldl_cons]
      rw [← ih]
      congr 1
      exact dict_bind_ren σ d { key := Vtx.key (ow.name, s.arg), vtx := (ow.name, s.arg), root := m.seq, idx := i, stmt := s }

theorem modulesByKey_ren :
    modulesByKey (Oracle.ofNat 0) r₂ = (modulesByKey (Oracle.ofNat 0) r₁).map (Mod.ren σ) := by
  unfold modulesByKey
  rw [ofNat0_order, ofNat0_order]
  have hs : sortStable (fun (a b : String × Nat) => decide (a.1 < b.1)) r₂.modules =
      (sortStable (fun (a b : String × Nat) => decide (a.1 < b.1)) r₁.modules).map (kvRen σ) := by
    refine sortStable_perm_map keyLt keyLt (kvRen σ) (fun _ _ => rfl) keyLt_irr keyLt_trans h.modules ?_
    intro a ha b hb hab
    have hne : a.1 ≠ b.1 := by
      intro e
      apply hab
      rw [inj_of_nodup_map (fun kv : String × Nat => kv.1) h.modKeys a ha b hb e]
    rcases OrderIndep.str_total hne with h1 | h1
    · left; simpa [keyLt] using h1
    · right; simpa [keyLt] using h1
  rw [hs, List.filterMap_map, List.map_filterMap]
  apply filterMap_congr'
  intro kv _
  exact h.byId kv.2

theorem buildDict_ren (lk : Link) :
    buildDict (Oracle.ofNat 0) r₂ (lkRen σ lk) = (buildDict (Oracle.ofNat 0) r₁ lk).map (dpRen σ) := by
  unfold buildDict
  rw [modulesByKey_ren h, List.foldlM_map, h.length]
  have h0 : (([] : Dict), ([] : List Err)) = dpRen σ ([], []) := rfl
  rw [h0]
  refine foldlM_hom (dpRen σ) _ _ ?_ _ _
  intro acc m
  have hw := walk_ren h.inj (includeSucc r₁ lk) (includeSucc r₂ (lkRen σ lk)) (includeSucc_ren h lk)
    (r₁.mods.length + 1) m.seq []
  simp only [List.map_nil] at hw
  rw [Mod.ren_seq, hw]
  cases walk (includeSucc r₁ lk) (r₁.mods.length + 1) m.seq [] with
  | none => rfl
  | some closure =>
    simp only [Option.map_some, List.foldl_map]
    congr 1
    refine List.foldl_hom (dpRen σ) ?_
    intro x s
    rw [h.byId]
    cases r₁.byId s with
    | none => rfl
    | some mm => exact registerMod_ren h mm x

end

/-! ### bases, direct children, closure -/

section
variable {σ : Nat → Nat} {r₁ r₂ : Registry} (h : RegRel σ r₁ r₂)
include h

theorem findIdentityBase_ren (dict : Dict) (root : Mod) (baseStr : String) :
    findIdentityBase r₂ (dict.map (deRen σ)) (Mod.ren σ root) baseStr =
      (findIdentityBase r₁ dict root baseStr).map (deRen σ) := by
  unfold findIdentityBase
  simp only [Mod.ren_getPrefix, Mod.ren_stmt, h.owner, h.findModuleByPrefix, dict_get?_ren]
  split
  · cases r₁.owner root with
    | none => rfl
    | some ow =>
      simp only [Option.map_some, Mod.ren_name]
      cases Dict.get? dict _ <;> rfl
  · cases r₁.findModuleByPrefix root _ with
    | none => rfl
    | some ext =>
      simp only [Option.map_some, h.owner]
      cases r₁.owner ext with
      | none => rfl
      | some ow =>
        simp only [Option.map_some, Mod.ren_name]
        cases Dict.get? dict _ <;> rfl

theorem resolvedBases_ren (dict : Dict) (e : DEntry) :
    resolvedBases r₂ (dict.map (deRen σ)) (deRen σ e) =
      (resolvedBases r₁ dict e).map (fun x => x.map (deRen σ)) := by
  unfold resolvedBases
  have h1 : (deRen σ e).root = σ e.root := rfl
  have h2 : (deRen σ e).stmt = e.stmt := rfl
  rw [h1, h2, h.byId]
  cases r₁.byId e.root with
  | none => rfl
  | some root =>
    simp only [Option.map_some, List.map_map]
    apply List.map_congr_left
    intro b _
    exact findIdentityBase_ren h dict root b.arg

theorem directOne_ren (dict : Dict) (acc : (Vtx → List Vtx) × List Err) (e : DEntry) :
    directOne r₂ (dict.map (deRen σ)) acc (deRen σ e) = directOne r₁ dict acc e := by
  unfold directOne
  rw [resolvedBases_ren h, List.foldl_map]
  congr 1
  funext acc rb
  cases rb <;> rfl

theorem directAll_ren (dict order : Dict) (vals0 : Vtx → List Vtx) :
    directAll r₂ (dict.map (deRen σ)) (order.map (deRen σ)) vals0 = directAll r₁ dict order vals0 := by
  unfold directAll
  rw [List.foldl_map]
  congr 1
  funext acc e
  exact directOne_ren h dict acc e

/-- The errors of `resolveIdentities`, and its dictionary. -/
theorem resolveIdentities_ren (lk : Link) (vals0 : Vtx → List Vtx) :
    (resolveIdentities (Oracle.ofNat 0) r₂ (lkRen σ lk) vals0).map (·.errs) =
      (resolveIdentities (Oracle.ofNat 0) r₁ lk vals0).map (·.errs) := by
  unfold resolveIdentities
  rw [buildDict_ren h]
  cases buildDict (Oracle.ofNat 0) r₁ lk with
  | none => rfl
  | some p =>
    obtain ⟨dict, errs1⟩ := p
    simp only [Option.map_some, dpRen, ofNat0_order, directAll_ren h]
    have hv : (dict.map (deRen σ)).map (·.vtx) = dict.map (·.vtx) := by
      rw [List.map_map]; rfl
    have hf : closeFuel (dict.map (deRen σ)) = closeFuel dict := by
      unfold closeFuel; rw [List.length_map]
    rw [hv, hf]
    cases closeAll vtxLt (closeFuel dict) (dict.map (·.vtx)) (directAll r₁ dict dict vals0).1 with
    | none => rfl
    | some q =>
      obtain ⟨vals2, cyc⟩ := q
      simp only [Option.map_some, Option.some.injEq]
      congr 2
      funext v
      rw [dict_get?_ren]
      cases Dict.get? dict v.key <;> rfl

/-- `process`'s identity errors as the pipeline reads them off `Identity.run`. -/
def identityErrsOf (reg : Registry) : List Err :=
  match Identity.run (Oracle.ofNat 0) reg with
  | .done res _ => res.errs
  | _ => []

theorem identityErrsOf_eq : identityErrsOf r₂ = identityErrsOf r₁ := by
  unfold identityErrsOf Identity.run
  rw [identity_linkAll_ren h]
  cases Identity.linkAll (Oracle.ofNat 0) r₁ with
  | none => rfl
  | some p =>
    obtain ⟨lk, lerrs⟩ := p
    simp only [Option.map_some, llRen]
    by_cases hl : (!lerrs.isEmpty) = true
    · rw [if_pos hl, if_pos hl]
    · rw [if_neg hl, if_neg hl]
      have := resolveIdentities_ren h lk (fun _ => [])
      cases h1 : resolveIdentities (Oracle.ofNat 0) r₁ lk (fun _ => []) with
      | none =>
        rw [h1] at this
        cases h2 : resolveIdentities (Oracle.ofNat 0) r₂ (lkRen σ lk) (fun _ => []) with
        | none => rfl
        | some res₂ => rw [h2] at this; cases this
      | some res₁ =>
        rw [h1] at this
        cases h2 : resolveIdentities (Oracle.ofNat 0) r₂ (lkRen σ lk) (fun _ => []) with
        | none => rw [h2] at this; cases this
        | some res₂ =>
          rw [h2] at this
          simpa using this

end

end Goyang.Lemmas.LoadOrder
