import Goyang.Lemmas.LoadOrderLoad
/-
Load-order independence (C05), part 10: arbitrary load lists — names with `@`, several loads with
one header.  A refused load leaves the registry as it was, so the registry after `loadAll ss` is
the registry after loading only the loads that were accepted (`kept ss`): of every header whose
name is free of `@`, the first load that carries it.  Two load lists with the same first load for
every such header (`SameFirsts`) therefore give registries related by a renaming of the sequence
numbers (`regRel_of_sameFirsts`), whatever else the lists contain and in whatever order.
The per-load outcomes are given exactly (`loadFrom_outs`): a load is refused for its name, or as
a duplicate when an `@`-free load with the same header came before; the error value is a function
of the header.  Core Lean only.
-/
namespace Goyang.Lemmas.LoadOrder
open Goyang.Model Goyang.Spec.Registry
open Goyang.Lemmas.Registry (hdr hdrOf NoAt Inv good noAt_of_good good_of_noAt add_step add_error_bad
  good_eq_nameOk inv_empty rejAfterG rejAfterG_perm)

/-! ### the loads that are accepted -/

/-- The loads `Registry.loadFrom` accepts; `before` = the headers of the `@`-free loads seen. -/
def keptAfter (before : List Header) : List Stmt → List Stmt
  | [] => []
  | s :: rest =>
    if good s then (if before.contains (hdr s) then [] else [s]) ++ keptAfter (before ++ [hdr s]) rest
    else keptAfter before rest

/-- The loads `Registry.loadAll` accepts, in load order. -/
def kept (ss : List Stmt) : List Stmt := keptAfter [] ss

/-- The loads `Registry.loadFrom` refuses. -/
def refusedAfter (before : List Header) : List Stmt → List Stmt
  | [] => []
  | s :: rest =>
    if good s then (if before.contains (hdr s) then [s] else []) ++ refusedAfter (before ++ [hdr s]) rest
    else s :: refusedAfter before rest

def refused (ss : List Stmt) : List Stmt := refusedAfter [] ss

/-- **A refused load leaves no trace**: the registry after loading `ss` is the registry after
loading the accepted loads only. -/
theorem loadFrom_keptAfter : ∀ (ss : List Stmt) {r : Registry} {L : List Stmt}, Inv r L → (∀ t ∈ L, NoAt t.arg) →
    (r.loadFrom ss).1 = (r.loadFrom (keptAfter (L.map hdr) ss)).1
  | [], _, _, _, _ => rfl
  | s :: rest, r, L, inv, hL => by
    cases hg : good s with
    | false =>
      obtain ⟨e, he, _⟩ := add_error_bad (r := r) hg
      have ih := loadFrom_keptAfter rest inv hL
      simp only [keptAfter, hg, Bool.false_eq_true, if_false]
      rw [← ih]
      simp only [Registry.loadFrom, he]
    | true =>
      have hs : NoAt s.arg := noAt_of_good hg
      have hL' : ∀ t ∈ L ++ [s], NoAt t.arg := by
        intro t ht
        rcases List.mem_append.mp ht with ht | ht
        · exact hL t ht
        · simp only [List.mem_singleton] at ht; subst ht; exact hs
      have step := add_step inv hs hL
      cases hadd : r.add s with
      | ok r' =>
        rw [hadd] at step
        obtain ⟨hnew, inv'⟩ := step
        have ih := loadFrom_keptAfter rest inv' hL'
        have hc : (L.map hdr).contains (hdr s) = false := by simpa using hnew
        rw [List.map_append, List.map_cons, List.map_nil] at ih
        simp only [keptAfter, hg, hc, if_true, Bool.false_eq_true, if_false, List.singleton_append,
          Registry.loadFrom, hadd]
        exact ih
      | error e =>
        rw [hadd] at step
        obtain ⟨hd, inv'⟩ := step
        have ih := loadFrom_keptAfter rest inv' hL'
        have hc : (L.map hdr).contains (hdr s) = true := by simpa using hd
        rw [List.map_append, List.map_cons, List.map_nil] at ih
        simp only [keptAfter, hg, hc, if_true, List.nil_append]
        rw [← ih]
        simp only [Registry.loadFrom, hadd]

theorem loadAll_kept (ss : List Stmt) : (Registry.loadAll ss).1 = (Registry.loadAll (kept ss)).1 := by
  have := loadFrom_keptAfter ss inv_empty (by simp)
  simpa [Registry.loadAll, kept] using this

theorem good_of_hdr_eq {s t : Stmt} (h : hdr t = hdr s) : good t = good s := by
  rw [good_eq_nameOk, good_eq_nameOk, h]

/-- The first load with header `h`. -/
def firstOf (h : Header) (ss : List Stmt) : Option Stmt := ss.find? fun t => hdr t == h

theorem firstOf_cons_ne {h : Header} {t : Stmt} (hne : hdr t ≠ h) (rest : List Stmt) :
    firstOf h (t :: rest) = firstOf h rest := by
  unfold firstOf
  rw [List.find?_cons, beq_eq_false_iff_ne.mpr hne]

theorem firstOf_cons_eq {h : Header} {t : Stmt} (he : hdr t = h) (rest : List Stmt) :
    firstOf h (t :: rest) = some t := by
  unfold firstOf
  rw [List.find?_cons, beq_iff_eq.mpr he]

/-- A load is accepted exactly when its name is free of `@`, no earlier `@`-free load had its
header, and it is the first load with its header. -/
theorem mem_keptAfter : ∀ (ss : List Stmt) (before : List Header) (s : Stmt),
    s ∈ keptAfter before ss ↔ good s = true ∧ hdr s ∉ before ∧ firstOf (hdr s) ss = some s
  | [], before, s => by simp [keptAfter, firstOf]
  | t :: rest, before, s => by
    have ih := mem_keptAfter rest
    by_cases hts : hdr t = hdr s
    · -- same header
      rw [firstOf_cons_eq hts]
      have hgs : good t = good s := good_of_hdr_eq hts
      cases hg : good t with
      | false =>
        simp only [keptAfter, hg, Bool.false_eq_true, if_false, ih]
        rw [← hgs, hg]
        simp
      | true =>
        by_cases hb : hdr t ∈ before
        · have hc : before.contains (hdr t) = true := by simpa using hb
          simp only [keptAfter, hg, hc, if_true, List.nil_append, ih, List.mem_append, List.mem_singleton]
          rw [← hts]
          simp [hb]
        · have hc : before.contains (hdr t) = false := by simpa using hb
          simp only [keptAfter, hg, hc, if_true, Bool.false_eq_true, if_false, List.singleton_append,
            List.mem_cons, ih, List.mem_append]
          rw [← hgs, hg, ← hts]
          constructor
          · rintro (rfl | ⟨_, h2, _⟩)
            · exact ⟨rfl, hb, rfl⟩
            · exact absurd (Or.inr (Or.inl rfl)) h2
          · rintro ⟨_, _, e⟩
            exact .inl (Option.some.inj e).symm
    · -- another header
      rw [firstOf_cons_ne hts]
      have hne : s ≠ t := fun e => hts (e ▸ rfl)
      have hne' : hdr s ≠ hdr t := fun e => hts e.symm
      cases hg : good t with
      | false =>
        simp only [keptAfter, hg, Bool.false_eq_true, if_false, ih]
      | true =>
        by_cases hb : hdr t ∈ before
        · have hc : before.contains (hdr t) = true := by simpa using hb
          simp only [keptAfter, hg, hc, if_true, List.nil_append, ih, List.mem_append, List.mem_cons, hne',
            List.not_mem_nil, or_false]
        · have hc : before.contains (hdr t) = false := by simpa using hb
          simp only [keptAfter, hg, hc, if_true, Bool.false_eq_true, if_false, List.singleton_append,
            List.mem_cons, ih, List.mem_append, hne, hne', List.not_mem_nil, or_false, false_or]

theorem mem_kept (ss : List Stmt) (s : Stmt) : s ∈ kept ss ↔ good s = true ∧ firstOf (hdr s) ss = some s := by
  unfold kept
  rw [mem_keptAfter]
  simp

theorem kept_noAt (ss : List Stmt) : ∀ t ∈ kept ss, NoAt t.arg :=
  fun t ht => noAt_of_good ((mem_kept ss t).mp ht).1

theorem kept_sub (ss : List Stmt) : ∀ t ∈ kept ss, t ∈ ss :=
  fun t ht => List.mem_of_find?_eq_some ((mem_kept ss t).mp ht).2

/-- The accepted loads have pairwise different headers. -/
theorem keptAfter_nodup : ∀ (ss : List Stmt) (before : List Header), ((keptAfter before ss).map hdr).Nodup
  | [], _ => by simp [keptAfter]
  | t :: rest, before => by
    have ih := keptAfter_nodup rest
    cases hg : good t with
    | false => simp only [keptAfter, hg, Bool.false_eq_true, if_false]; exact ih before
    | true =>
      by_cases hb : hdr t ∈ before
      · have hc : before.contains (hdr t) = true := by simpa using hb
        simp only [keptAfter, hg, hc, if_true, List.nil_append]
        exact ih _
      · have hc : before.contains (hdr t) = false := by simpa using hb
        simp only [keptAfter, hg, hc, if_true, Bool.false_eq_true, if_false, List.singleton_append, List.map_cons,
          List.nodup_cons]
        refine ⟨?_, ih _⟩
        intro hm
        obtain ⟨s, hs, e⟩ := List.mem_map.mp hm
        have := ((mem_keptAfter rest _ s).mp hs).2.1
        apply this
        rw [e]
        simp

theorem kept_nodup (ss : List Stmt) : ((kept ss).map hdr).Nodup := keptAfter_nodup ss []

/-! ### the first load of every header decides -/

/-- Of every header with an `@`-free name the two load lists have the same first load. -/
def SameFirsts (l₁ l₂ : List Stmt) : Prop := ∀ h, nameOk h = true → firstOf h l₁ = firstOf h l₂

theorem SameFirsts.symm {l₁ l₂ : List Stmt} (h : SameFirsts l₁ l₂) : SameFirsts l₂ l₁ :=
  fun x hx => (h x hx).symm

theorem kept_perm_of_sameFirsts {l₁ l₂ : List Stmt} (h : SameFirsts l₁ l₂) : (kept l₁).Perm (kept l₂) := by
  rw [List.perm_ext_iff_of_nodup (nodup_of_map hdr (kept_nodup l₁)) (nodup_of_map hdr (kept_nodup l₂))]
  intro s
  rw [mem_kept, mem_kept]
  constructor
  · rintro ⟨hg, hf⟩
    exact ⟨hg, by rw [← h (hdr s) (by rw [← good_eq_nameOk]; exact hg)]; exact hf⟩
  · rintro ⟨hg, hf⟩
    exact ⟨hg, by rw [h (hdr s) (by rw [← good_eq_nameOk]; exact hg)]; exact hf⟩

/-- **The registry is decided by the first load of every header**: two load lists with the same
first loads give registries that hold the same modules under renamed sequence numbers. -/
theorem regRel_of_sameFirsts {l₁ l₂ : List Stmt} (h : SameFirsts l₁ l₂) :
    ∃ σ, RegRel σ (Registry.loadAll l₁).1 (Registry.loadAll l₂).1 := by
  rw [loadAll_kept l₁, loadAll_kept l₂]
  exact regRel_of_perm (kept_perm_of_sameFirsts h) (kept_noAt l₁) (kept_nodup l₁)

/-- Pairwise different headers: every permutation has the same first loads. -/
theorem sameFirsts_of_perm_nodup {l₁ l₂ : List Stmt} (hp : l₁.Perm l₂) (hnd : (l₁.map hdr).Nodup) :
    SameFirsts l₁ l₂ :=
  fun h _ => find?_perm_unique hdr hp hnd h

/-- A rearrangement that keeps the loads of every header in their relative order has the same
first loads. -/
theorem sameFirsts_of_stable {l₁ l₂ : List Stmt}
    (h : ∀ x, l₁.filter (fun t => hdr t == x) = l₂.filter (fun t => hdr t == x)) : SameFirsts l₁ l₂ := by
  intro x _
  unfold firstOf
  rw [← List.head?_filter, ← List.head?_filter, h x]

/-! ### the outcome of every load -/

/-- The error a refused load is refused with (`Modules.add`): a function of the load's header. -/
def errOfHdr (h : Header) : Registry.AddErr :=
  let kind := if h.isSub then "submodule" else "module"
  if nameOk h then .duplicate kind (if h.rev = "" then h.name else h.name ++ "@" ++ h.rev) else .badName kind h.name

def errOf (s : Stmt) : Registry.AddErr := errOfHdr (hdr s)

theorem add_error_eq {r : Registry} {s : Stmt} {e : Registry.AddErr} (h : r.add s = .error e) : e = errOf s := by
  have hfull : (⟨r.mods.length, s⟩ : Mod).fullName = if (hdr s).rev = "" then (hdr s).name else (hdr s).name ++ "@" ++ (hdr s).rev :=
    Registry.fullName_eq _
  have hsub : (⟨r.mods.length, s⟩ : Mod).isSub = (hdr s).isSub := rfl
  unfold errOf errOfHdr
  cases hg : good s with
  | false =>
    have hn : nameOk (hdr s) = false := by rw [← good_eq_nameOk]; exact hg
    have hc : s.arg.toList.contains '@' = true := by simpa [good] using hg
    unfold Registry.add at h
    rw [if_pos hc] at h
    simp only [Except.error.injEq] at h
    rw [← h, hn, hsub]
    rfl
  | true =>
    have hn : nameOk (hdr s) = true := by rw [← good_eq_nameOk]; exact hg
    rw [Registry.add_eq_addChecked (Registry.contains_of_noAt (noAt_of_good hg))] at h
    unfold Registry.addChecked at h
    simp only [hfull, hsub] at h
    simp only [hn, if_true]
    repeat' split at h
    all_goals first
      | (cases h; done)
      | (simp only [Except.error.injEq] at h; rw [← h]; simp [*])

/-- Per load, in load order: refused with which error, or accepted. -/
def outsAfter (before : List Header) : List Stmt → List Registry.LoadOutcome
  | [] => []
  | s :: rest =>
    if good s then (if before.contains (hdr s) then some (errOf s) else none) :: outsAfter (before ++ [hdr s]) rest
    else some (errOf s) :: outsAfter before rest

theorem loadFrom_outs : ∀ (ss : List Stmt) {r : Registry} {L : List Stmt}, Inv r L → (∀ t ∈ L, NoAt t.arg) →
    (r.loadFrom ss).2 = outsAfter (L.map hdr) ss
  | [], _, _, _, _ => rfl
  | s :: rest, r, L, inv, hL => by
    cases hg : good s with
    | false =>
      obtain ⟨e, he, _⟩ := add_error_bad (r := r) hg
      have ih := loadFrom_outs rest inv hL
      simp only [outsAfter, hg, Bool.false_eq_true, if_false, Registry.loadFrom, he, ih, add_error_eq he]
    | true =>
      have hs : NoAt s.arg := noAt_of_good hg
      have hL' : ∀ t ∈ L ++ [s], NoAt t.arg := by
        intro t ht
        rcases List.mem_append.mp ht with ht | ht
        · exact hL t ht
        · simp only [List.mem_singleton] at ht; subst ht; exact hs
      have step := add_step inv hs hL
      cases hadd : r.add s with
      | ok r' =>
        rw [hadd] at step
        obtain ⟨hnew, inv'⟩ := step
        have ih := loadFrom_outs rest inv' hL'
        have hc : (L.map hdr).contains (hdr s) = false := by simpa using hnew
        rw [List.map_append, List.map_cons, List.map_nil] at ih
        simp only [outsAfter, hg, hc, if_true, Bool.false_eq_true, if_false, Registry.loadFrom, hadd, ih]
      | error e =>
        rw [hadd] at step
        obtain ⟨hd, inv'⟩ := step
        have ih := loadFrom_outs rest inv' hL'
        have hc : (L.map hdr).contains (hdr s) = true := by simpa using hd
        rw [List.map_append, List.map_cons, List.map_nil] at ih
        simp only [outsAfter, hg, hc, if_true, Registry.loadFrom, hadd, ih, add_error_eq hadd]

theorem loadAll_outs (ss : List Stmt) : (Registry.loadAll ss).2 = outsAfter [] ss := by
  have := loadFrom_outs ss inv_empty (by simp)
  simpa [Registry.loadAll] using this

/-- The errors of the refused loads are the errors of the refused headers. -/
theorem errors_outsAfter : ∀ (ss : List Stmt) (before : List Header),
    (outsAfter before ss).filterMap id = (rejAfterG before (ss.map hdr)).map errOfHdr
  | [], _ => rfl
  | s :: rest, before => by
    have ih := errors_outsAfter rest
    have hn : nameOk (hdr s) = good s := (good_eq_nameOk s).symm
    cases hg : good s with
    | false =>
      simp only [outsAfter, hg, Bool.false_eq_true, if_false, List.map_cons, rejAfterG, hn, List.filterMap_cons, id,
        ih, errOf]
    | true =>
      by_cases hb : hdr s ∈ before
      · have hc : before.contains (hdr s) = true := by simpa using hb
        simp only [outsAfter, hg, hc, if_true, List.map_cons, rejAfterG, hn, List.filterMap_cons, id, ih, errOf,
          List.singleton_append]
      · have hc : before.contains (hdr s) = false := by simpa using hb
        simp only [outsAfter, hg, hc, if_true, Bool.false_eq_true, if_false, List.map_cons, rejAfterG, hn,
          List.filterMap_cons, id, ih, List.nil_append]

/-- **The refused loads' errors do not depend on the load order** (as a multiset) — for any load
lists whatever, also with several loads of one header. -/
theorem load_errors_perm {l₁ l₂ : List Stmt} (hp : l₁.Perm l₂) :
    ((Registry.loadAll l₁).2.filterMap id).Perm ((Registry.loadAll l₂).2.filterMap id) := by
  rw [loadAll_outs, loadAll_outs, errors_outsAfter, errors_outsAfter]
  exact (rejAfterG_perm (hp.map hdr)).map errOfHdr

/-- Every load is either accepted or refused. -/
theorem perm_kept_refused : ∀ (ss : List Stmt) (before : List Header),
    ss.Perm (keptAfter before ss ++ refusedAfter before ss)
  | [], _ => by simp [keptAfter, refusedAfter]
  | s :: rest, before => by
    have ih := perm_kept_refused rest
    cases hg : good s with
    | false =>
      simp only [keptAfter, refusedAfter, hg, Bool.false_eq_true, if_false]
      exact ((ih before).cons s).trans List.perm_middle.symm
    | true =>
      by_cases hb : hdr s ∈ before
      · have hc : before.contains (hdr s) = true := by simpa using hb
        simp only [keptAfter, refusedAfter, hg, hc, if_true, List.nil_append, List.singleton_append]
        exact ((ih _).cons s).trans List.perm_middle.symm
      · have hc : before.contains (hdr s) = false := by simpa using hb
        simp only [keptAfter, refusedAfter, hg, hc, if_true, Bool.false_eq_true, if_false, List.nil_append,
          List.cons_append]
        exact (ih _).cons s

/-- The loads paired with their outcomes: the accepted ones with `none`, the refused ones with
their error. -/
theorem zip_outs_perm : ∀ (ss : List Stmt) (before : List Header),
    (ss.zip (outsAfter before ss)).Perm
      ((keptAfter before ss).map (fun s => (s, none)) ++ (refusedAfter before ss).map (fun s => (s, some (errOf s))))
  | [], _ => by simp [keptAfter, refusedAfter, outsAfter]
  | s :: rest, before => by
    have ih := zip_outs_perm rest
    cases hg : good s with
    | false =>
      simp only [keptAfter, refusedAfter, outsAfter, hg, Bool.false_eq_true, if_false, List.zip_cons_cons,
        List.map_cons]
      exact ((ih before).cons _).trans List.perm_middle.symm
    | true =>
      by_cases hb : hdr s ∈ before
      · have hc : before.contains (hdr s) = true := by simpa using hb
        simp only [keptAfter, refusedAfter, outsAfter, hg, hc, if_true, List.nil_append, List.singleton_append,
          List.zip_cons_cons, List.map_cons]
        exact ((ih _).cons _).trans List.perm_middle.symm
      · have hc : before.contains (hdr s) = false := by simpa using hb
        simp only [keptAfter, refusedAfter, outsAfter, hg, hc, if_true, Bool.false_eq_true, if_false,
          List.nil_append, List.zip_cons_cons, List.map_cons, List.cons_append]
        exact (ih _).cons _

/-- **With the same first loads, every load has the same outcome in both orders**: the loads
paired with their outcomes are the same multiset. -/
theorem load_outcomes_perm {l₁ l₂ : List Stmt} (hp : l₁.Perm l₂) (hf : SameFirsts l₁ l₂) :
    (l₁.zip (Registry.loadAll l₁).2).Perm (l₂.zip (Registry.loadAll l₂).2) := by
  rw [loadAll_outs, loadAll_outs]
  have hk : (keptAfter [] l₁).Perm (keptAfter [] l₂) := kept_perm_of_sameFirsts hf
  have hr : (refusedAfter [] l₁).Perm (refusedAfter [] l₂) := by
    have h1 := perm_kept_refused l₁ []
    have h2 := perm_kept_refused l₂ []
    have : (keptAfter [] l₂ ++ refusedAfter [] l₁).Perm (keptAfter [] l₂ ++ refusedAfter [] l₂) :=
      ((hk.symm.append_right _).trans h1.symm).trans (hp.trans h2)
    exact (List.perm_append_left_iff _).mp this
  exact (zip_outs_perm l₁ []).trans (((hk.map _).append (hr.map _)).trans (zip_outs_perm l₂ []).symm)

/-! ### texts (`Modules.Parse` is atomic) -/

/-- A text with a statement whose name contains `@` is refused, whatever was loaded before. -/
theorem foldlM_add_bad : ∀ (ss : List Stmt) (r : Registry), (∃ s ∈ ss, good s = false) →
    ∃ e, ss.foldlM (fun r s => r.add s) r = .error e
  | [], _, h => by obtain ⟨s, hs, _⟩ := h; cases hs
  | t :: rest, r, h => by
    rw [List.foldlM_cons]
    cases hadd : r.add t with
    | error e => exact ⟨e, rfl⟩
    | ok r' =>
      obtain ⟨s, hs, hg⟩ := h
      rcases List.mem_cons.mp hs with rfl | hs
      · obtain ⟨e, he, _⟩ := add_error_bad (r := r) hg
        rw [he] at hadd; cases hadd
      · exact foldlM_add_bad rest r' ⟨s, hs, hg⟩

/-- Every statement of the text has an `@`-free name. -/
def goodFile (f : SrcFile) : Bool := f.stmts.all good

theorem loadFile_bad {f : SrcFile} (h : goodFile f = false) (r : Registry) : loadFile r f = r := by
  have : ∃ s ∈ f.stmts, good s = false := by
    unfold goodFile at h
    rw [List.all_eq_false] at h
    obtain ⟨s, hs, hg⟩ := h
    exact ⟨s, hs, by simpa using hg⟩
  obtain ⟨e, he⟩ := foldlM_add_bad f.stmts r this
  unfold loadFile
  rw [he]

/-- Texts refused for a name leave no trace. -/
theorem loadFiles_filter_good (files : List SrcFile) : loadFiles files = loadFiles (files.filter goodFile) := by
  unfold loadFiles
  generalize ({} : Registry) = r
  induction files generalizing r with
  | nil => rfl
  | cons f rest ih =>
    cases hg : goodFile f with
    | false =>
      rw [List.filter_cons_of_neg (by rw [hg]; exact Bool.false_ne_true), List.foldl_cons, loadFile_bad hg]
      exact ih r
    | true =>
      rw [List.filter_cons_of_pos hg, List.foldl_cons, List.foldl_cons]
      exact ih _

theorem noAt_filter_goodFile (files : List SrcFile) :
    ∀ t ∈ (files.filter goodFile).flatMap (·.stmts), NoAt t.arg := by
  intro t ht
  obtain ⟨f, hf, htf⟩ := List.mem_flatMap.mp ht
  have hg := (List.mem_filter.mp hf).2
  unfold goodFile at hg
  exact noAt_of_good (List.all_eq_true.mp hg t htf)

theorem sublist_flatMap_filter (files : List SrcFile) :
    ((files.filter goodFile).flatMap (·.stmts)).Sublist (files.flatMap (·.stmts)) := by
  induction files with
  | nil => exact List.Sublist.refl _
  | cons f rest ih =>
    cases hg : goodFile f with
    | false =>
      rw [List.filter_cons_of_neg (by rw [hg]; exact Bool.false_ne_true), List.flatMap_cons]
      exact ih.trans (List.sublist_append_right _ _)
    | true =>
      rw [List.filter_cons_of_pos hg, List.flatMap_cons, List.flatMap_cons]
      exact List.Sublist.append (List.Sublist.refl _) ih

/-! ### texts that are refused on their own -/

/-- The text would be accepted by a fresh `Modules`: every name free of `@`, no header twice. -/
def okAlone (f : SrcFile) : Bool := f.stmts.all good && decide ((f.stmts.map hdr).Nodup)

theorem loadFile_eq_addText (r : Registry) (f : SrcFile) :
    loadFile r f = match r.addText f.stmts with | .ok r' => r' | .error _ => r := rfl

/-- A text that is refused on its own is refused after any loads. -/
theorem loadFile_notOk {r : Registry} {L : List Stmt} (inv : Inv r L) (hL : ∀ t ∈ L, NoAt t.arg) {f : SrcFile}
    (h : okAlone f = false) : loadFile r f = r := by
  have spec := Registry.addText_spec inv hL f.stmts
  rw [loadFile_eq_addText]
  cases hadd : r.addText f.stmts with
  | error e => rfl
  | ok r' =>
    exfalso
    rw [hadd] at spec
    obtain ⟨⟨h1, h2, _⟩, _⟩ := spec
    have : okAlone f = true := by
      unfold okAlone
      rw [Bool.and_eq_true]
      exact ⟨List.all_eq_true.mpr fun s hs => good_of_noAt (h1 s hs), decide_eq_true h2⟩
    rw [h] at this
    cases this

/-- The registry after one more text still satisfies the registry invariant for some load list. -/
theorem loadFile_inv {r : Registry} {L : List Stmt} (inv : Inv r L) (hL : ∀ t ∈ L, NoAt t.arg) (f : SrcFile) :
    ∃ L', Inv (loadFile r f) L' ∧ ∀ t ∈ L', NoAt t.arg := by
  have spec := Registry.addText_spec inv hL f.stmts
  rw [loadFile_eq_addText]
  cases hadd : r.addText f.stmts with
  | error e => exact ⟨L, inv, hL⟩
  | ok r' =>
    rw [hadd] at spec
    obtain ⟨⟨h1, _, _⟩, inv'⟩ := spec
    refine ⟨L ++ f.stmts, inv', ?_⟩
    intro t ht
    rcases List.mem_append.mp ht with ht | ht
    · exact hL t ht
    · exact h1 t ht

/-- **Texts that are refused on their own leave no trace, wherever they stand.** -/
theorem loadFiles_filter_okAlone (files : List SrcFile) : loadFiles files = loadFiles (files.filter okAlone) := by
  unfold loadFiles
  have key : ∀ (fs : List SrcFile) (r : Registry) (L : List Stmt), Inv r L → (∀ t ∈ L, NoAt t.arg) →
      fs.foldl loadFile r = (fs.filter okAlone).foldl loadFile r := by
    intro fs
    induction fs with
    | nil => intro _ _ _ _; rfl
    | cons f rest ih =>
      intro r L inv hL
      cases hg : okAlone f with
      | false =>
        rw [List.filter_cons_of_neg (by rw [hg]; exact Bool.false_ne_true), List.foldl_cons, loadFile_notOk inv hL hg]
        exact ih r L inv hL
      | true =>
        rw [List.filter_cons_of_pos hg, List.foldl_cons, List.foldl_cons]
        obtain ⟨L', inv', hL'⟩ := loadFile_inv inv hL f
        exact ih _ L' inv' hL'
  exact key files {} [] inv_empty (by simp)

theorem noAt_filter_okAlone (files : List SrcFile) :
    ∀ t ∈ (files.filter okAlone).flatMap (·.stmts), NoAt t.arg := by
  intro t ht
  obtain ⟨f, hf, htf⟩ := List.mem_flatMap.mp ht
  have hg := (List.mem_filter.mp hf).2
  unfold okAlone at hg
  rw [Bool.and_eq_true] at hg
  exact noAt_of_good (List.all_eq_true.mp hg.1 t htf)

/-- `processFiles` of two permutations of one list of texts: whether the set is inside the model
does not depend on the order; it remains to compare the dumps of the two registries. -/
theorem processFiles_perm_of_dump (opts : Opts) {files₁ files₂ : List SrcFile} (hperm : files₁.Perm files₂)
    (h : dumpOutcome (processAll (loadFiles files₁) opts (plugFull (loadFiles files₁))) =
      dumpOutcome (processAll (loadFiles files₂) opts (plugFull (loadFiles files₂)))) :
    (processFiles opts files₁).toOption.map dumpOutcome = (processFiles opts files₂).toOption.map dumpOutcome := by
  unfold processFiles
  cases h1 : files₁.findSome? fun f => outsideL "" f.stmts with
  | some why =>
    cases h2 : files₂.findSome? fun f => outsideL "" f.stmts with
    | some why' => rfl
    | none =>
      exfalso
      rw [List.findSome?_eq_none_iff] at h2
      obtain ⟨f, hf, hw⟩ := List.exists_of_findSome?_eq_some h1
      rw [h2 f (hperm.mem_iff.mp hf)] at hw
      cases hw
  | none =>
    cases h2 : files₂.findSome? fun f => outsideL "" f.stmts with
    | some why' =>
      exfalso
      rw [List.findSome?_eq_none_iff] at h1
      obtain ⟨f, hf, hw⟩ := List.exists_of_findSome?_eq_some h2
      rw [h1 f (hperm.mem_iff.mpr hf)] at hw
      cases hw
    | none =>
      simp only [Except.toOption, Option.map_some, Option.some.injEq]
      exact h

/-! ### small permutations for the examples -/

theorem perm_rev3 {α : Type} (a b c : α) : [a, b, c].Perm [c, b, a] := by
  have := List.reverse_perm [c, b, a]
  simpa using this
theorem perm_rev4 {α : Type} (a b c d : α) : [a, b, c, d].Perm [d, c, b, a] := by
  have := List.reverse_perm [d, c, b, a]
  simpa using this

end Goyang.Lemmas.LoadOrder
